#!/bin/sh
# development aid: every quick check at several seeds on the clean tree; prints only failures
cd "$(dirname "$0")/.."
for seed in "$@"; do
  for p in C01 C02 C03 C04 C05 C06 C07 C08 C09 C10 C11 C12 C13 C14 C15 C16 C17 C18 C19 C20; do
    out=$(VERIF_EVIDENCE_DIR=$PWD/.cache/evidence-seeds VERIF_SEED=$seed ./check $p --tier quick 2>&1); rc=$?
    if [ $rc -ne 0 ]; then echo "SEED $seed $p rc=$rc"; echo "$out" | grep -v KNOWN-FINDING | tail -6; fi
  done
  echo "seed $seed done"
done
