#!/usr/bin/env python3
"""Regenerates MANIFEST.json from the table below (run after changing what a check claims)."""
import json, os
V = os.path.dirname(os.path.dirname(os.path.abspath(__file__)))

TB = ("Lean 4.33.0 kernel and the axioms propext/Classical.choice/Quot.sound (audited per theorem on every run; no sorry/admit/native_decide/bv_decide); "
      "the specification layer lean/Cctz/Spec; gen/extract.py (tables/constants regenerated from the sources each run); the hand-written model is tied to the C++ by the "
      "correspondence run (differential testing: its generators bound what the tie sees); libstdc++/glibc and the compiler are modelled, not verified")

CHECKS = {
 # id: (category, text, technique, design_ref, extra note)
 'C04': ('proof', 'Theorems (all six Int arguments): nSec is valid, denotes exactly the unnormalised instant, is unique; align/constructor specs; no-overflow inside the representability bound; alignment casts are monotone, idempotent, floors of the second count, T(f) <= f < T(f)+1 (C04Align). '
         'Tie: 4.6e5 (quick) constructor calls incl. every day of the 400-year cycle, model vs real code vs Python calendar oracle, UB flag compared with UBSan.',
         'Lean 4 theorems about an executable model + differential correspondence with the C++', '§6 C04'),
 'C05': ('proof', 'Theorems: add/sub move by exactly n units, difference is exact, the two are inverse, comparison is the calendar order, no avoidable overflow; the algebra of chained steps (associativity, cancellation, difference chain rule, monotonicity: C05Algebra). '
         'Tie: 3.5e5 (quick) add/sub/diff/cmp ops on all six alignments incl. int64 extremes; inverse laws and chained steps evaluated on the implementation.',
         'Lean 4 theorems about an executable model + differential correspondence with the C++', '§6 C05'),
 'C17': ('proof', 'Theorems: get_weekday = calendar weekday for every valid date in every year; get_yearday ordinal; next/prev_weekday nearest strictly later/earlier day, 1..7 days, table walks in range; the documented idioms next_weekday(d-1,wd) / prev_weekday(d+1,wd) = first/last wd on or after/before d, get_weekday of the result (C17Idiom). '
         'Tie: exhaustive 146097-day cycle, model vs real code vs Python oracle.',
         'Lean 4 theorems (periodicity + omega) + exhaustive-cycle correspondence', '§6 C17'),
 'C15': ('proof', 'Theorems: canonical name/abbreviation for every offset, name round trip, FixedOffsetFromName accepts exactly UTC, UTC0 and the shape (for every byte string), extracted constants = documented. '
         'Tie: exhaustive offsets in [-90000, 90000], zone identity/lookup at extreme instants, 1e5 mutated names.',
         'Lean 4 theorems + exhaustive correspondence', '§6 C15'),
 'C16': ('proof', 'Theorems: parsePosixSpec s = some r <-> IsPosixSpec s r (declarative grammar) for every byte string; every field read later is determined; documented defaults. '
         'Tie: 1.8e5 grammar sentences / mutations / random strings, parser run twice on differently pre-filled objects, vs model vs reference recogniser.',
         'Lean 4 iff-theorem against a declarative grammar + differential correspondence', '§6 C16'),
 'C18': ('proof', 'Theorems: split_seconds = floor and exact decomposition; join into whole-second-or-coarser ticks = floor with range check; femtosecond remainder exact; join into sub-second ticks = floor of the fraction, split -> join round trip for every tick count (C18Join). '
         'Tie: 3.9e5 template instantiations over the panel of duration types, vs exact rational arithmetic.',
         'Lean 4 theorems + differential correspondence (libstdc++ duration_cast modelled by the standard formula)', '§6 C18'),
 'C01': ('proof', 'PARTIAL: model of the TZif loader, ExtendTransitions and BreakTime tied to the real code (0 disagreements) and to an independent TZif reader + POSIX-rule evaluator; theorems listed in the evidence. '
         'Known finding F7 (untame synthetic zones).', 'executable Lean model + correspondence + independent oracle; theorems as listed in evidence', '§6 C01'),
 'C02': ('proof', 'PARTIAL: MakeTime model tied to the real code and to an oracle that counts the instants displaying a civil second; theorems as listed in the evidence.', 'executable Lean model + correspondence + independent oracle', '§6 C02'),
 'C03': ('proof', 'PARTIAL: round trip evaluated on the implementation and the model for all probe instants; theorems as listed in the evidence.', 'executable Lean model + correspondence + property oracle', '§6 C03'),
 'C06': ('proof', 'PARTIAL: monotonicity of convert evaluated on sorted civil sequences on the implementation and the model; theorems as listed in the evidence.', 'executable Lean model + correspondence + property oracle', '§6 C06'),
 'C10': ('proof', 'PARTIAL: no sanitizer report / no model flag at the range ends, +-2^59, +-2^31, 400-year multiples, civil extremes, in every corpus zone and fixed +-24h; saturation equalities. Known findings F4, F13.',
         'executable Lean model with UB flags + sanitizer-instrumented correspondence', '§6 C10'),
 'C11': ('proof', 'PARTIAL: next/prev_transition vs the list of real changes from an independent reader, chains compared; theorems as listed in the evidence.', 'executable Lean model + correspondence + independent oracle', '§6 C11'),
 'C12': ('proof', 'PARTIAL: 2e4 (quick) mutated TZif inputs under ASan+UBSan with timeout, outcome and answers equal to the model incl. its UB flags, two loads agree. Memory safety of the C++ itself is the ASan run. Known findings F4b, F8, F9.',
         'executable Lean model with UB/fuel flags + sanitizer-instrumented mutation correspondence', '§6 C12'),
 'C14': ('proof', 'PARTIAL: every hint state x probe panel vs a history-free copy; reload hits the cache without consulting the data source; theorems as listed in the evidence.', 'executable Lean model with explicit hints + correspondence', '§6 C14'),
 'C07': ('proof', 'PARTIAL: format -> parse round trip evaluated on the implementation for generated lossless formats x all int64 instants x femtoseconds, both calls tied to the Format/Parse models; theorems as listed in the evidence. Known finding F10 (offset of exactly +-24h).',
         'executable Lean model (strftime/strptime as parameters) + correspondence + property oracle', '§6 C07'),
 'C08': ('proof', 'PARTIAL: format() vs the Format model (cursor loop, Format64, FormatOffset, ToTM; strftime runs evaluated with the real strftime under the buffer cap) and vs the documented renderings written independently; malformed strings under ASan+UBSan; theorems as listed in the evidence.',
         'executable Lean model + correspondence + independent rendering oracle', '§6 C08'),
 'C09': ('proof', 'PARTIAL: parse() vs the Parse model (specifier loop, ParseInt/ParseOffset/ParseSubSeconds, FromWeek, range and overflow checks; strptime answered by the real C library) and vs the instant the fields denote (independent zone oracle); theorems as listed in the evidence.',
         'executable Lean model + correspondence + independent oracle', '§6 C09'),
 'C13': ('proof', 'PARTIAL: loader state machine (critical-section granularity) tied to the real code by exhaustive start/release schedules of k<=3 (4) threads held inside a blocking factory; sequential-result oracle; ThreadSanitizer runs up to 64 threads with single-threaded replay. Data-race freedom in the C++ memory model is the TSan run, not a theorem.',
         'Lean state-machine model + exhaustive schedule correspondence + ThreadSanitizer', '§6 C13'),
 'C19': ('proof', 'PARTIAL: name resolution model (path construction, TZ/LOCALTIME handling, fixed names, UTC fallback) tied to the real code over the product of environment settings and name kinds, file system as a parameter; theorems as listed in the evidence.',
         'Lean decision-logic model + correspondence over environment product', '§6 C19'),
 'C20': ('proof', 'PARTIAL: factory log (thread, name, concurrency) of the real code vs the loader state machine over all schedules; contract clauses checked; known finding F3 (racing first loads call the factory once per thread, concurrently).',
         'Lean state-machine model + exhaustive schedule correspondence', '§6 C20'),
}

def main():
    checks = []
    for pid in sorted(CHECKS):
        cat, text, tech, ref = CHECKS[pid]
        checks.append({
            'property_id': pid,
            'quick_cmd': './check %s --tier quick' % pid,
            'thorough_cmd': './check %s --tier thorough' % pid,
            'evidence_file': 'evidence/%s.json' % pid,
            'replay_cmd_template': './check %s --replay {path}' % pid,
            'engine': 'lean-model-correspondence',
            'level_claimed': {'category': cat, 'text': text, 'design_ref': 'DESIGN.md ' + ref},
            'level_note': TB,
            'technique': tech,
        })
    props = [json.loads(l)['id'] for l in open(os.path.join(V, 'properties.jsonl'))]
    na = [{'property_id': p, 'reason': 'check not built yet in this round (model and correspondence in progress); see DESIGN.md'} for p in props if p not in CHECKS]
    m = {
        'version': 1,
        'setup_cmd': './setup.sh',
        'hooks': {
            'guard': 'GOOGLE_CCTZ_VERIF',
            'enable': "checks compile /repo's sources themselves with -DGOOGLE_CCTZ_VERIF (vlib/common.py build_harness); no hook is needed: internal helpers are reached through src/*.h, the factory through a strong definition in the harness",
            'baseline_off_cmd': 'cmake --build /repo/_build && ctest --test-dir /repo/_build -j8 --timeout 900',
            'source_commits': [],
            'add_only': True,
        },
        'engines': [{'name': 'lean-model-correspondence', 'path': 'check', 'serves_properties': sorted(CHECKS),
                     'kind_free_text': 'Lean 4 model + theorems (lean/), table extractor (gen/), C++ harness with own UBSan handlers (harness/), Python comparer/oracles (vlib/)'}],
        'checks': checks,
        'not_applicable': na,
        'notes': 'See DESIGN.md. KNOWN_FINDINGS.json lists genuine defects recorded (findings) or repaired by fix: commits in /repo (fixed).',
    }
    json.dump(m, open(os.path.join(V, 'MANIFEST.json'), 'w'), indent=1)
    print('MANIFEST.json: %d checks, %d not_applicable' % (len(checks), len(na)))

if __name__ == '__main__':
    main()
