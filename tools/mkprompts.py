#!/usr/bin/env python3
"""Write the prompts of a further round of seeded-change agents: tools/mkprompts.py <round-dir> <ids…>
Each prompt contains only the property text (copied to <round-dir>/<id>.property.txt), the path of the agent's own
scratch worktree and the list of mechanisms already used for that property (from seeded/*/meta.json summaries),
never anything else from /verif."""
import json, os, sys, glob, re
V = os.path.dirname(os.path.dirname(os.path.abspath(__file__)))
rd = sys.argv[1]; ids = sys.argv[2:]
props = {json.loads(l)['id']: json.loads(l) for l in open(os.path.join(V, 'properties.jsonl'))}
tmpl = open('/tmp/mut2/C15.prompt.txt').read() if os.path.exists('/tmp/mut2/C15.prompt.txt') else open(os.path.join(V, 'tools/mutant_prompt.tmpl')).read()
head = tmpl.split('Already used in an earlier round')[0]
os.makedirs(rd, exist_ok=True)
for pid in ids:
    p = props[pid]
    open(os.path.join(rd, pid + '.property.txt'), 'w').write('%s — %s\n\n%s\n' % (pid, p.get('title', ''), p.get('statement') or p.get('description') or ''))
    used = []
    for m in sorted(glob.glob(os.path.join(V, 'seeded', pid + '?', 'meta.json'))):
        d = json.load(open(m))
        if d.get('summary'): used.append(d['summary'])
    txt = head.replace('/tmp/mut2/C15', os.path.join(rd, pid)).replace('C15.property.txt', pid + '.property.txt').replace('/tmp/mut2', rd)
    txt += ('Already used in earlier rounds — do NOT repeat these mechanisms or close variants of them (touch different functions / different conditions):\n'
            + ''.join('  - %s\n' % u for u in used) +
            'Prefer mechanisms that are even harder to notice, and spots no earlier round touched: a different source file or function than the ones listed above '
            '(the public headers include/cctz/*.h and their templates count), two sites that must both be changed to matter, state carried between calls, boundary values of '
            'rarely used input forms, interactions between features, behaviour that differs only for one alignment / one duration type / one TZif version / one date form.\n')
    open(os.path.join(rd, pid + '.prompt.txt'), 'w').write(txt)
    print('wrote', os.path.join(rd, pid + '.prompt.txt'), len(used), 'used')
