#!/usr/bin/env python3
"""Robustness of the checks against behaviour-preserving rewrites of google/cctz.

  harmless.py add <dir-with-patch.diff+README.txt> <id>     keep a confirmed refactoring as harmless/<id>/
  harmless.py run <id> [check ids…]                          apply harmless/<id>/patch.diff to /repo, run the quick
                                                             checks (default: all 20), undo, record which alarmed

A refactoring is only kept after `ctest` passed with it in a scratch worktree (done by the
caller).  The evidence directory is redirected so that evidence/ keeps describing the unchanged tree.
"""
import json, os, shutil, subprocess, sys, time

V = os.path.dirname(os.path.dirname(os.path.abspath(__file__)))
REPO = '/repo'
ALL = ['C%02d' % i for i in range(1, 21)]


def sh(cmd, cwd=None, timeout=7200, env=None):
    e = dict(os.environ); e.update(env or {})
    p = subprocess.run(cmd, shell=True, cwd=cwd, stdout=subprocess.PIPE, stderr=subprocess.STDOUT, timeout=timeout, env=e)
    return p.returncode, p.stdout.decode('utf-8', 'replace')


def add(src, hid):
    d = os.path.join(V, 'harmless', hid)
    os.makedirs(d, exist_ok=True)
    shutil.copy(os.path.join(src, 'patch.diff'), os.path.join(d, 'patch.diff'))
    rd = os.path.join(src, 'README.txt')
    meta = {'id': hid, 'summary': open(rd).read().strip() if os.path.exists(rd) else ''}
    json.dump(meta, open(os.path.join(d, 'meta.json'), 'w'), indent=1)
    print('added', hid)
    return 0


def run(hid, checks):
    d = os.path.join(V, 'harmless', hid)
    meta = json.load(open(os.path.join(d, 'meta.json')))
    rc, out = sh('git -C %s status --porcelain --untracked-files=no' % REPO)
    if out.strip(): print('/repo is not clean'); return 1
    rc, out = sh('git -C %s apply %s' % (REPO, os.path.join(d, 'patch.diff')))
    if rc: print('patch does not apply to /repo:', out); return 1
    res = meta.setdefault('checks', {})
    try:
        for c in checks:
            t0 = time.time()
            rc, out = sh('./check %s --tier quick' % c, cwd=V, env={'VERIF_EVIDENCE_DIR': os.path.join(V, '.cache', 'evidence-harmless')})
            lines = [l for l in out.splitlines() if l.startswith('VIOLATION') or 'violation:' in l or 'broken:' in l]
            res[c] = {'exit': rc, 'alarm': rc != 0, 'wall_s': round(time.time() - t0, 1), 'lines': [l[:300] for l in lines[:6]]}
            print(hid, c, 'ALARM' if rc else 'quiet', '%.0fs' % (time.time() - t0), flush=True)
            for l in lines[:3]: print('    ' + l[:260])
    finally:
        sh('git -C %s checkout -- .' % REPO)
    json.dump(meta, open(os.path.join(d, 'meta.json'), 'w'), indent=1)
    return 0


if __name__ == '__main__':
    if sys.argv[1] == 'add': sys.exit(add(sys.argv[2], sys.argv[3]))
    if sys.argv[1] == 'run': sys.exit(run(sys.argv[2], sys.argv[3:] or ALL))
