#!/usr/bin/env python3
"""Regenerates the machine-derived tables of DESIGN.md (between the BEGIN/END GENERATED markers):
the theorem list per property (from vlib/props_*.py) and the seeded-change detection matrix
(from seeded/*/meta.json)."""
import os, sys, json, re, glob
V = os.path.dirname(os.path.dirname(os.path.abspath(__file__)))
sys.path.insert(0, V)

def theorems():
    out = {}
    for mod in ('props_civil', 'props_fixed', 'props_posix', 'props_split', 'props_zone', 'props_load', 'props_loader', 'props_format'):
        m = __import__('vlib.' + mod, fromlist=['THEOREMS'])
        out.update(m.THEOREMS)
    return out

def main():
    th = theorems()
    lines = ['| property | property theorems audited on every run (Lean names, `lean/Cctz/Properties/<id>.lean`) |', '|---|---|']
    for pid in sorted(th):
        lines.append('| %s | %s |' % (pid, ', '.join('`%s`' % t.split('.', 2)[2] for t in th[pid]) or '—'))
    t1 = '\n'.join(lines)
    rows = ['| seeded change | breaks | what it needs to manifest | caught by (quick tier) | missed by |', '|---|---|---|---|---|']
    for d in sorted(glob.glob(os.path.join(V, 'seeded', '*'))):
        mp = os.path.join(d, 'meta.json')
        if not os.path.exists(mp): continue
        m = json.load(open(mp))
        det = m.get('detection', {})
        caught = [c for c, r in det.items() if r.get('detected')]
        missed = [c for c, r in det.items() if not r.get('detected')]
        needs = (m.get('summary') or m.get('needs', '')).strip().split('\n')
        needs = next((l for l in needs if l.strip()), '')[:160].replace('|', '/')
        rows.append('| %s | %s | %s | %s | %s |' % (os.path.basename(d), m.get('property'), needs, ', '.join(caught) or '—', ', '.join(missed) or '—'))
    t2 = '\n'.join(rows)
    p = os.path.join(V, 'DESIGN.md')
    s = open(p).read()
    for name, body in (('THEOREMS', t1), ('SEEDED', t2)):
        a = '<!-- BEGIN GENERATED %s -->' % name; b = '<!-- END GENERATED %s -->' % name
        if a in s and b in s:
            s = s[:s.index(a) + len(a)] + '\n' + body + '\n' + s[s.index(b):]
    open(p, 'w').write(s)
    print('DESIGN.md tables regenerated: %d properties, %d seeded changes' % (len(th), len(rows) - 2))

if __name__ == '__main__':
    main()
