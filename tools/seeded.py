#!/usr/bin/env python3
"""
Development-time tool for the seeded changes under seeded/<id>/ (patch.diff, demo.cc, meta.json).

  seeded.py confirm <src-dir> <id> <property>   confirm a candidate change in a scratch worktree (outside /repo and
                                                /verif): applies, builds, all 125 tests pass, demo fails with / passes
                                                without the change; on success stores it as seeded/<id>/
  seeded.py detect <id> [check ids…]            apply seeded/<id>/patch.diff to /repo, run the checks (default: the
                                                property it breaks), undo, record the outcome in seeded/<id>/meta.json
"""
import sys, os, json, subprocess, shutil, time
V = os.path.dirname(os.path.dirname(os.path.abspath(__file__)))
REPO = '/repo'

def sh(cmd, cwd=None, timeout=3600, env=None):
    e = dict(os.environ)
    if env: e.update(env)
    p = subprocess.run(cmd, cwd=cwd, shell=True, stdout=subprocess.PIPE, stderr=subprocess.STDOUT, timeout=timeout, env=e)
    return p.returncode, p.stdout.decode('utf-8', 'replace')

def confirm(src, sid, prop):
    wt = '/tmp/sv/%s' % sid
    sh('git -C %s worktree remove --force %s' % (REPO, wt)); shutil.rmtree(wt, ignore_errors=True)
    os.makedirs('/tmp/sv', exist_ok=True)
    rc, out = sh('git -C %s worktree add -f --detach %s HEAD' % (REPO, wt))
    if rc: print(out); return 1
    res = {'property': prop, 'id': sid}
    try:
        patch = os.path.join(src, 'patch.diff'); demo = os.path.join(src, 'demo.cc')
        rc, out = sh('git apply --check %s && git apply %s' % (patch, patch), cwd=wt)
        if rc: print('patch does not apply:', out); return 1
        rc, out = sh('cmake -G Ninja -B _build -DCMAKE_BUILD_TYPE=RelWithDebInfo . >/dev/null && cmake --build _build 2>&1 | tail -3', cwd=wt)
        if rc: print('build fails with the change:', out); return 1
        rc, out = sh('ctest --test-dir _build -j8 2>&1 | tail -4', cwd=wt)
        res['ctest_with_change'] = out.strip().split('\n')[0]
        if rc or '100% tests passed' not in out: print('tests fail with the change:', out); return 1
        demo_cmd = 'g++ -std=c++17 -I include -I src %s _build/libcctz.a -lpthread -o /tmp/sv/%s.demo' % (demo, sid)
        if os.environ.get('SEEDED_SAN'):
            # the violation is undefined behaviour without a visible wrong result: demo and library sources under UBSan
            srcs = ' '.join('src/' + f for f in ('civil_time_detail.cc', 'time_zone_fixed.cc', 'time_zone_format.cc', 'time_zone_if.cc', 'time_zone_impl.cc',
                                                 'time_zone_info.cc', 'time_zone_libc.cc', 'time_zone_lookup.cc', 'time_zone_posix.cc', 'zone_info_source.cc'))
            demo_cmd = 'g++ -std=c++17 -O1 -fsanitize=undefined -fno-sanitize-recover=all -I include -I src %s %s -lpthread -o /tmp/sv/%s.demo' % (demo, srcs, sid)
            res['demo_build'] = 'demo and library sources compiled with -fsanitize=undefined -fno-sanitize-recover=all'
        rc, out = sh(demo_cmd, cwd=wt)
        if rc: print('demo does not build:', out[-2000:]); return 1
        env = {'TZDIR': os.path.join(wt, 'testdata/zoneinfo')}
        rc1, out1 = sh('/tmp/sv/%s.demo' % sid, cwd=wt, timeout=600, env=env)
        res['demo_with_change'] = {'exit': rc1, 'output': out1[-600:]}
        sh('git checkout -- .', cwd=wt)
        rc, out = sh('cmake --build _build 2>&1 | tail -2 && ' + demo_cmd, cwd=wt)
        if rc: print('rebuild without the change fails:', out); return 1
        rc0, out0 = sh('/tmp/sv/%s.demo' % sid, cwd=wt, timeout=600, env=env)
        res['demo_without_change'] = {'exit': rc0, 'output': out0[-300:]}
        if rc1 == 0 or rc0 != 0:
            print('demo does not discriminate: with=%d without=%d' % (rc1, rc0)); print(out1[-500:]); print(out0[-500:]); return 1
        dst = os.path.join(V, 'seeded', sid)
        os.makedirs(dst, exist_ok=True)
        shutil.copy(patch, os.path.join(dst, 'patch.diff')); shutil.copy(demo, os.path.join(dst, 'demo.cc'))
        rd = os.path.join(src, 'README.txt')
        res['needs'] = open(rd).read()[:3000] if os.path.exists(rd) else ''
        res['confirmed'] = {'cmd': 'tools/seeded.py confirm (scratch worktree %s): git apply; cmake build; ctest -j8; demo built against the changed and the unchanged library' % wt,
                            'at': time.strftime('%Y-%m-%dT%H:%M:%SZ', time.gmtime())}
        json.dump(res, open(os.path.join(dst, 'meta.json'), 'w'), indent=1)
        print('confirmed', sid, '-> seeded/%s' % sid)
        return 0
    finally:
        sh('git -C %s worktree remove --force %s' % (REPO, wt)); shutil.rmtree(wt, ignore_errors=True)
        try: os.unlink('/tmp/sv/%s.demo' % sid)
        except OSError: pass

def detect(sid, checks):
    # SEEDED_SCRATCH=<clean worktree of /repo's HEAD>: apply there instead of /repo and point the checks at it
    # (VERIF_REPO), so that detection can run while /repo itself is in use
    global REPO
    scratch = os.environ.get('SEEDED_SCRATCH')
    if scratch: REPO = scratch
    d = os.path.join(V, 'seeded', sid)
    meta = json.load(open(os.path.join(d, 'meta.json')))
    if not checks: checks = [meta['property']]
    rc, out = sh('git -C %s status --porcelain --untracked-files=no' % REPO)
    if out.strip(): print('/repo has uncommitted changes; refusing'); return 1
    rc, out = sh('git -C %s apply %s' % (REPO, os.path.join(d, 'patch.diff')))
    if rc: print('patch does not apply to /repo:', out); return 1
    results = meta.setdefault('detection', {})
    try:
        for c in checks:
            t = time.time()
            rc, out = sh('./check %s --tier quick' % c, cwd=V, timeout=7200, env=dict({'VERIF_EVIDENCE_DIR': os.path.join(V, '.cache', 'evidence-seeded')}, **({'VERIF_REPO': scratch} if scratch else {})))
            lines = [l for l in out.split('\n') if l.startswith('VIOLATION') or l.startswith('  violation') or l.startswith('  broken')]
            results[c] = {'exit': rc, 'detected': rc == 1, 'wall_s': round(time.time() - t, 1), 'lines': lines[:6]}
            print(sid, c, 'DETECTED' if rc == 1 else ('missed' if rc == 0 else 'rc=%d' % rc), '%.0fs' % (time.time() - t)); 
            for l in lines[:3]: print('   ', l[:300])
    finally:
        sh('git -C %s checkout -- .' % REPO)
    json.dump(meta, open(os.path.join(d, 'meta.json'), 'w'), indent=1)
    return 0

if __name__ == '__main__':
    if sys.argv[1] == 'confirm': sys.exit(confirm(sys.argv[2], sys.argv[3], sys.argv[4]))
    if sys.argv[1] == 'detect': sys.exit(detect(sys.argv[2], sys.argv[3:]))
