"""Checks C13 (concurrent loading/use), C20 (factory contract), C19 (name resolution)."""
import os, shutil, subprocess, itertools, re
from .common import (Check, correspond, canon, run_model, run_lines, build_harness, BuildError, REPO, CACHE, SAN_ENV, log)
from . import zones as Z
from . import tzif as T
from . import civil as C

THEOREMS = {'C13': ['Cctz.C13.map_monotone', 'Cctz.C13.same_name_same_identity', 'Cctz.C13.result_is_sequential', 'Cctz.C13.distinct_names_distinct_zones', 'Cctz.C13.progress'],
            'C20': ['Cctz.C20.factory_on_caller_thread', 'Cctz.C20.factory_never_for_fixed', 'Cctz.C20.factory_once_sequential', 'Cctz.C20.cached_load',
                    'Cctz.C20.failed_stays_failed', 'Cctz.C20.contract_counterexample'],
            'C19': ['Cctz.C19.absolute', 'Cctz.C19.relative', 'Cctz.C19.local_resolution', 'Cctz.C19.internal_names', 'Cctz.C19.failure_is_utc']}


def schedules(k):
    """all orders of the events S0..S(k-1), R0..R(k-1) with Si before Ri"""
    evs = ['S%d' % i for i in range(k)] + ['R%d' % i for i in range(k)]
    out = []
    def rec(seq, started, released):
        if len(seq) == 2 * k:
            out.append(list(seq)); return
        for i in range(k):
            if i not in started:
                rec(seq + ['S%d' % i], started | {i}, released)
            elif i not in released:
                rec(seq + ['R%d' % i], started, released | {i})
    rec([], frozenset(), frozenset())
    return out


NAME_PANELS = {
    2: [['v1', 'v1'], ['v1', 'v2'], ['x1', 'x1'], ['v1', 'x1'], ['n1', 'n1'], ['f3600', 'f3600'], ['v1', 'u'], ['f-7200', 'v1'], ['u0', 'u'],
        ['f-86400', 'f86400'], ['f86399', 'f-86399'], ['f1', 'f-1'],
        # names with an embedded NUL byte ('_'): equal up to the NUL, or only one of them with a NUL
        ['v1_a', 'v1_b'], ['v1_a', 'v1_a'], ['v1', 'v1_a'], ['x1_a', 'v1_a'],
        # local_time_zone() with $TZ naming the zone ('L'), racing with itself and with a load of the same name
        ['vL1', 'vL1'], ['vL1', 'v2'], ['xL1', 'xL1'],
        # fixed-offset names that are accepted although not canonically spelled (minutes / seconds of 60..99)
        ['F+00:60:00', 'f3600'], ['F-00:90:00', 'F-00:90:00'], ['F+23:59:60', 'v1'], ['F+00:00:99', 'F-23:60:00']],
    3: [['v1', 'v1', 'v1'], ['v1', 'v1', 'v2'], ['v1', 'v2', 'v1'], ['x1', 'v1', 'x1'], ['n1', 'n1', 'v1'], ['v1', 'f3600', 'u'], ['f3600', 'f3600', 'v1'],
        ['x1', 'x1', 'x1'], ['v1', 'v2', 'v3'], ['u', 'u0', 'v1'], ['vL1', 'vL1', 'vL1'], ['v1_a', 'v1_b', 'v1_a'], ['v1_a', 'v1', 'v1_a']],
    4: [['v1', 'v1', 'v1', 'v1'], ['v1', 'v1', 'v2', 'v2'], ['v1', 'x1', 'v1', 'x1'], ['v1', 'v2', 'f60', 'u'], ['n1', 'v1', 'n1', 'v1']],
}


def sched_lines(scale, rng):
    lines = []
    for k in ((2, 3) if scale == 'quick' else (2, 3, 4)):
        scs = schedules(k)
        for names in NAME_PANELS[k]:
            use = scs if (k < 4 or scale != 'quick') else rng.sample(scs, 200)
            for sc in use:
                lines.append('sched %s %s' % (','.join(names), ','.join(sc)))
    return lines


def parse_sched(line, out):
    _, names, evs = line.split()
    names = names.split(','); evs = evs.split(',')
    p = out.split()
    if len(p) == 5 and p[4].startswith('P'): p = p[:4]
    if len(p) != 4: return None
    res = p[0].split(','); cls = [int(x) for x in p[1].split(',')]
    lg = [] if p[2] == '-' else [int(x) for x in p[2].split(',')]
    return names, evs, res, cls, lg, int(p[3])


def seq_ok(n):
    return n[0] in 'vfuF'


def overlapping_first_loads(names, evs):
    """do two threads that need the factory for the same name overlap (second starts before the
    first has finished)?  and do any two factory-needing loads overlap at all?"""
    need = [i for i, n in enumerate(names) if n[0] in 'vxn']
    start = {}; end = {}
    for pos, e in enumerate(evs):
        i = int(e[1:])
        if e[0] == 'S': start[i] = pos
        else: end[i] = pos
    same = False; anyo = False
    for a in need:
        for b in need:
            if a < b:
                lo, hi = (a, b) if start[a] < start[b] else (b, a)
                if start[hi] < end.get(lo, 10**9):
                    # hi started while lo was still inside its load; but if lo had already inserted the
                    # name (finished) before hi looked it up there is no overlap
                    anyo = True
                    if names[a] == names[b]: same = True
    return same, anyo


def strip_post(out):
    p = out.split()
    return ' '.join(p[:4]) if len(p) == 5 and p[4].startswith('P') else out


def check_sched_semantics(chk, pid, line, out):
    """the C13 / C20 oracles on one schedule's outcome (on the implementation)"""
    r = parse_sched(line, out)
    if r is None:
        chk.report('schedule outcome unreadable: %s' % out, {'op': line, 'implementation': out}); return False
    names, evs, res, cls, lg, mx = r
    okk = True
    p = out.split()
    if len(p) == 5 and p[4].startswith('P'):
        # single-threaded re-load of every name after the schedule (theorems same_name_same_identity, cached_load)
        pc, calls = p[4][1:].split(':')
        pc = [int(x) for x in pc.split(',')]
        for i, n in enumerate(names):
            if pc[i] != cls[i]:
                chk.report('after schedule %s, loading %s once more gives a zone that is not equal to the one thread %d obtained (names %s)' % (','.join(evs), n, i, ','.join(names)),
                           {'op': line, 'implementation': out}, sig='sched reload identity'); okk = False
        if int(calls) != 0:
            chk.report('after schedule %s, loading the names %s once more consulted the data source %s more time(s)' % (','.join(evs), ','.join(names), calls),
                       {'op': line, 'implementation': out}, sig='sched reload factory'); okk = False
    if pid == 'C13':
        for i, n in enumerate(names):
            want = '1' if seq_ok(n) else '0'
            if res[i] != want:
                chk.report('under schedule %s thread %d loading %s got success=%s, a single-threaded run gives %s' % (','.join(evs), i, n, res[i], want),
                           {'op': line, 'implementation': out}, sig='sched result'); okk = False
            if (not seq_ok(n) or n[0] == 'u') and cls[i] != 0:
                chk.report('under schedule %s thread %d loading %s did not get UTC' % (','.join(evs), i, n), {'op': line, 'implementation': out}, sig='sched utc'); okk = False
        for i in range(len(names)):
            for j in range(i + 1, len(names)):
                same_name = names[i] == names[j]
                if same_name and cls[i] != cls[j]:
                    chk.report('under schedule %s threads %d and %d loaded the same name %s but got zones that compare unequal' % (','.join(evs), i, j, names[i]),
                               {'op': line, 'implementation': out}, sig='sched same-name identity'); okk = False
                if not same_name and cls[i] == cls[j] and cls[i] != 0:
                    chk.report('under schedule %s threads %d and %d loaded different names %s / %s and got the same zone object' % (','.join(evs), i, j, names[i], names[j]),
                               {'op': line, 'implementation': out}, sig='sched distinct-name identity'); okk = False
    elif pid == 'C20':
        need = [i for i, n in enumerate(names) if n[0] in 'vxn']
        for tid in lg:
            if tid < 0 or tid >= len(names):
                chk.report('factory invoked on a thread that did not call load_time_zone (thread id %d) under %s' % (tid, line), {'op': line, 'implementation': out}, sig='factory foreign thread'); okk = False
            elif names[tid][0] not in 'vxn':
                chk.report('factory invoked for %s (a UTC / fixed-offset name) under %s' % (names[tid], line), {'op': line, 'implementation': out}, sig='factory for fixed name'); okk = False
        same, anyo = overlapping_first_loads(names, evs)
        per_name = {}
        for tid in lg:
            if 0 <= tid < len(names): per_name[names[tid]] = per_name.get(names[tid], 0) + 1
        for n, c in per_name.items():
            if c > 1:
                sig = 'factory twice for one name, first loads %s' % ('overlapping' if same else 'NOT overlapping')
                chk.report('factory invoked %d times for the name %s under schedule %s' % (c, n, ','.join(evs)), {'op': line, 'implementation': out}, sig=sig); okk = False
        if mx > 1:
            sig = 'factory invocations concurrent, loads %s' % ('overlapping' if anyo else 'NOT overlapping')
            chk.report('%d factory invocations were in progress at once under schedule %s (names %s)' % (mx, ','.join(evs), ','.join(names)), {'op': line, 'implementation': out}, sig=sig); okk = False
        for i in need:
            pass
    return okk


def run_sched_part(chk, pid, exe, scale):
    lines = sched_lines(scale, chk.rng)
    mo = run_model(lines)
    io = run_lines(exe, lines, timeout=600)
    # the same outcomes are required when a schedule is the very first thing the process does (the
    # zone map does not exist yet): a sample of schedules, each in a process of its own
    fresh = [l for l in lines if l.split()[1] in ('v1,v2', 'v1,v1', 'v1,x1', 'v1,v2,v3', 'v1,v2,v1', 'v1_a,v1_b', 'v1_a,v1_b,v1_a')]
    fresh = fresh if scale != 'quick' else chk.rng.sample(fresh, min(len(fresh), 40))
    fo = [run_lines(exe, [l], timeout=60)[0] for l in fresh]
    fm = run_model(fresh)
    chk.count('schedules:fresh-process', len(fresh))
    lines = lines + fresh; mo = mo + fm; io = io + fo
    if pid == 'C13':
        # the first use of UTC by several threads at once, each time in a process of its own
        n_first = 60 if scale == 'quick' else 600
        fl = ['firstuse %d' % chk.rng.choice([2, 3, 4, 8])for _ in range(n_first)]
        flo = [run_lines(exe, [l], timeout=60)[0] for l in fl]
        for l, o in zip(fl, flo):
            if o != 'firstuse bad=0':
                chk.report('threads that use UTC for the first time at once (`%s` as the first thing the process does) do not all get the one UTC zone: %s' % (l, o),
                           {'op': l, 'implementation': o, 'note': 'run in a fresh process'}, sig='firstuse')
        chk.count('firstuse:fresh-process', n_first)
        chk.cov['evaluations'] += n_first
        # racing first uses of one fixed offset (never loaded before): all threads and a later load get one zone
        rl = ['racefixed %d %d %d' % (kk, 120 if scale == 'quick' else 1500, 100 + 2000 * j) for j, kk in enumerate((2, 4, 8, 16))]
        rlo = run_lines(exe, rl, timeout=1200, per_line_timeout=100)
        for l, o in zip(rl, rlo):
            if o != 'racefixed bad=0':
                chk.report('threads that ask for the same new fixed-offset zone at once do not all get one zone (`%s`): %s' % (l, o), {'op': l, 'implementation': o}, sig='racefixed')
        chk.count('racefixed:trials', sum(int(l.split()[2]) for l in rl))
    chk.cov['evaluations'] += len(lines); chk.cov['traces_validated_against_impl'] += len(lines)
    chk.count('schedules', len(lines))
    good = 0
    mism = 0
    for l, a, b in zip(lines, mo, io):
        if canon(strip_post(b)) != a:
            mism += 1
            if mism <= 10: chk.broken.append('correspondence: `%s` model=`%s` implementation=`%s`' % (l, a, b))
        if check_sched_semantics(chk, pid, l, b): good += 1
    chk.count('schedules:mismatch', mism)
    for i in (0, len(lines) // 2, len(lines) - 1):
        chk.sample({'op': lines[i], 'model': mo[i], 'implementation': io[i]})
    return good


def run_C13(chk):
    chk.prepare_model('Cctz.Properties.C13', THEOREMS['C13'])
    exe = chk.harness('san')
    scale = chk.tier if not (chk.broken or chk.degraded) else 'thorough'
    if exe is None or not getattr(chk, 'driver_ok', False):
        return chk.finish()
    good = run_sched_part(chk, 'C13', exe, scale)
    # ThreadSanitizer: up to 64 threads mixing loads with const operations on shared zones
    texe = chk.harness('tsan')
    if texe:
        env = dict(os.environ); env.update({'TZDIR': os.path.join(REPO, 'testdata/zoneinfo'), 'TZ': 'America/New_York', 'TSAN_OPTIONS': 'halt_on_error=0:exitcode=0:report_signal_unsafe=0'})
        runs = [(4, 4000), (16, 1500), (64, 400)] if scale == 'quick' else [(4, 40000), (16, 20000), (64, 8000), (64, 8000), (33, 10000)]
        for r, (k, iters) in enumerate(runs):
            line = 'stress %d %d %d' % (k, iters, chk.seed * 100 + r)
            p = subprocess.run([texe], input=(line + '\n').encode(), stdout=subprocess.PIPE, stderr=subprocess.PIPE, env=env, timeout=3000)
            out = p.stdout.decode().strip(); err = p.stderr.decode('utf-8', 'replace')
            chk.cov['evaluations'] += k * iters
            chk.count('tsan:calls', k * iters)
            races = re.findall(r'WARNING: ThreadSanitizer: ([^\n]*)', err)
            if races:
                frames = re.findall(r'#\d+ (\S+) (\S+?):(\d+)', err)
                where = next(('%s %s' % (f[0], os.path.basename(f[1])) for f in frames if '/repo/' in f[1]), 'unknown')
                chk.report('ThreadSanitizer: %s during `%s` (%s)' % (races[0], line, where), {'op': line, 'tsan_report': err[:6000]}, sig='tsan %s %s' % (races[0][:20], where))
            elif out != 'stress threads=%d differing=0' % k:
                chk.report('results under %d concurrent threads differ from a single-threaded replay of the same calls: %s' % (k, out), {'op': line, 'implementation': out}, sig='stress differing')
            else:
                good += 1
        chk.cov['tsan_runs'] = len(runs)
    chk.cov['distinct_nontrivial'] = good
    chk.cov['rule'] = ('(a) every order of start/release events of k<=3 threads (k=4 in thorough) loading overlapping and distinct names - valid, invalid, absent, fixed-offset, UTC - with each thread held inside a blocking '
                       'factory between the two critical sections of the loader; outcome (success flags, identity classes, factory log) compared with the loader state machine of the model and with the sequential '
                       'semantics (same name => equal zones, result = what a single-threaded load returns); (b) ThreadSanitizer runs with 4/16/64 threads mixing loads with lookups, conversions, transition scans, '
                       'format and parse on shared zones, each followed by a single-threaded replay whose result hashes must match; non-trivial = schedules / runs that satisfied the oracle')
    chk.assumptions += ['atomicity of the two critical sections and of function-local statics is the C++ standard library\'s (model assumption)',
                        'freedom from data races in the C++ memory model is supported by the ThreadSanitizer runs, not proved']
    return chk.finish()


def run_C20(chk):
    chk.prepare_model('Cctz.Properties.C20', THEOREMS['C20'])
    exe = chk.harness('san')
    scale = chk.tier if not (chk.broken or chk.degraded) else 'thorough'
    if exe is None or not getattr(chk, 'driver_ok', False):
        return chk.finish()
    good = run_sched_part(chk, 'C20', exe, scale)
    # two loads of one name, for names of every length class and shape: the factory is asked once, with exactly that name
    fl = []
    uniq = 0
    shapes = [b'Probe/%d', b'file:Probe/%d', b'file:/abs/probe%d', b':Probe%d', b'Probe%d\x00tail', b'P%d', b'file:Fixed/UTC+01:00:%02d' , b'Fixed/UTC+01:00:%02d', b'UTC', b'UTC0',
              b'libc:nope%d', b'Fixed/UTC+00:60:%02d', b'Fixed/UTC+24:00:0%d']
    for sh in shapes:
        uniq += 1
        fl.append(sh % (uniq % 60) if b'%' in sh else sh)
    for ln in list(range(1, 70)) + [95, 96, 100, 127, 128, 129, 200, 1000]:
        uniq += 1
        base = b'L%d/' % uniq
        fl.append((base + b'x' * ln)[:max(ln, len(base))] if ln >= len(base) else (b'q' * ln + b'%d' % uniq)[:max(ln, 1)] + b'')
    fl = list(dict.fromkeys(fl))
    lines_f = ['facnames ' + hx(nm) for nm in fl]
    mo_f = run_model(lines_f); io_f = run_lines(exe, lines_f, timeout=600)
    for l, nm, a, b in zip(lines_f, fl, mo_f, io_f):
        chk.cov['evaluations'] += 1
        if nm.startswith(b'libc:'):
            continue            # the C-library zones do not go through the factory at all
        if b != a:
            chk.report('two loads of the name %r: the factory was consulted `%s`; once, with exactly that name (never for UTC / fixed-offset names), then not again, gives `%s`' % (nm, b, a),
                       {'op': l, 'implementation': b, 'model': a}, sig='facnames')
        else: good += 1
    # fixed_time_zone(offset) never reaches the factory, whatever the offset; bytes that do not parse are asked for once
    extra = ['fixid %d' % o for o in (86400, -86400, 86401, -86401, 86460, -86460, 89999, -89999, 90000, 2**31, -2**31, 3600, 0)]
    shipped = dict(T.shipped_zones())
    ny = shipped['America/New_York']
    extra += ['memcalls ' + hx(bb) for bb in (b'', b'\x00', b'garbage bytes that are no zone data at all', ny[:100], ny[:-9], leap_file(), leap_file_slim(), ny, shipped['UTC'] if 'UTC' in shipped else ny)]
    extra += ['mapgrow %d' % nn for nn in ((300, 2600) if scale == 'quick' else (300, 2600, 9000, 70000))]
    mo_e = run_model(extra); io_e = run_lines(exe, extra, timeout=1200)
    for l, a, b in zip(extra, mo_e, io_e):
        chk.cov['evaluations'] += 1
        if b != a:
            chk.report('`%s` = `%s`; the factory contract (never for fixed-offset zones, once per name whatever the bytes are worth) gives `%s`' % (l[:80], b, a),
                       {'op': l[:400], 'implementation': b, 'model': a}, sig='factory fixid/memcalls')
        else: good += 1
    # names that are already loaded (or have already failed) are loaded again by several threads while the zone map's
    # mutex is kept busy: the factory must not see any of them again
    env = dict(os.environ); env.update({'TZDIR': os.path.join(REPO, 'testdata/zoneinfo')}); env.update(SAN_ENV)
    for r, (kk, iters) in enumerate(((4, 200), (8, 200), (16, 100)) if scale == 'quick' else ((4, 2000), (8, 2000), (16, 1000), (64, 200))):
        line = 'stress %d %d %d' % (kk, iters, chk.seed * 100 + r)
        p = subprocess.run([exe], input=(line + '\n').encode(), stdout=subprocess.PIPE, stderr=subprocess.PIPE, env=env, timeout=3000)
        out = p.stdout.decode().strip()
        chk.cov['evaluations'] += kk * iters
        if 'refactory=' in out or not out.startswith('stress threads='):
            chk.report('loading names again that are already in the zone map reached the factory under contention: %s' % out, {'op': line, 'implementation': out}, sig='stress refactory')
        else: good += 1
    chk.cov['distinct_nontrivial'] = good
    chk.cov['rule'] = ('the schedules of C13 (every order of start/release events of k<=3 threads, k=4 in thorough, each thread held inside the factory): the factory log of the implementation (thread, name, concurrency '
                       'high-water mark) compared with the model and with the documented contract: invoked on the loading thread, never for UTC/fixed-offset names, at most once per name and never concurrently; '
                       'repeat loads (a thread started after another finished) must not invoke it again; non-trivial = schedules on which the contract held')
    return chk.finish()


# ------------------------------------------------------------------------------------ C19

def hx(b): return Z.hx(b)


def opt(v):
    return '~' if v is None else hx(v)


def fingerprint(data):
    try:
        z = Z.Zone('x', data, 'x')
    except Exception:
        return None
    if z.z is None or not z.z.types: return None
    def fp(t):
        o, d, a = z.offset_at(t)
        return '%d:%s' % (o, hx(a))
    return fp(0) + ' ' + fp(1700000000)


def leap_file():
    # version 1 file with one leap-second record: cctz rejects "right" zoneinfo
    import struct
    hdr = b'TZif' + b'\0' * 16 + struct.pack('>6i', 0, 0, 1, 0, 1, 4)
    return hdr + struct.pack('>iBB', 0, 0, 0) + b'UTC\0' + struct.pack('>ii', 78796800, 1)


def leap_file_slim():
    # version 2, as `zic -b slim -L leapseconds` writes "right/" zones: the 32-bit header is a stub without
    # leap seconds, the count is in the 64-bit header only
    import struct
    h1 = b'TZif2' + b'\0' * 15 + struct.pack('>6i', 0, 0, 0, 0, 1, 1)
    b1 = struct.pack('>iBB', 0, 0, 0) + b'\0'
    h2 = b'TZif2' + b'\0' * 15 + struct.pack('>6i', 0, 0, 1, 0, 1, 4)
    b2 = struct.pack('>iBB', 3600, 0, 0) + b'CET\0' + struct.pack('>qi', 78796800, 1)
    return h1 + b1 + h2 + b2 + b'\nCET-1\n'


def run_C19(chk):
    chk.prepare_model('Cctz.Properties.C19', THEOREMS['C19'])
    exe = chk.harness('san')
    scale = chk.tier if not (chk.broken or chk.degraded) else 'thorough'
    if exe is None or not getattr(chk, 'driver_ok', False):
        return chk.finish()
    root = os.path.join(CACHE, 'c19-%d' % os.getpid())
    shutil.rmtree(root, ignore_errors=True)
    zdir = os.path.join(root, 'zi'); os.makedirs(os.path.join(zdir, 'America')); os.makedirs(os.path.join(zdir, 'adir'))
    shipped = dict(T.shipped_zones())
    files = {}
    def put(path, data):
        os.makedirs(os.path.dirname(path), exist_ok=True)
        open(path, 'wb').write(data); files[path.encode()] = data
    put(os.path.join(zdir, 'America/New_York'), shipped['America/New_York'])
    put(os.path.join(zdir, 'Lisbon'), shipped['Europe/Lisbon'])
    put(os.path.join(zdir, 'truncated'), shipped['America/New_York'][:100])
    ny = shipped['America/New_York']
    put(os.path.join(zdir, 'trunc-footer-1'), ny[:-1])          # footer without its final newline
    put(os.path.join(zdir, 'trunc-footer-all'), ny[:ny.rfind(b'\n', 0, len(ny) - 1) + 1])   # only the newline that opens the footer
    put(os.path.join(zdir, 'trunc-footer-mid'), ny[:-9])
    put(os.path.join(zdir, 'Fixed/UTC+05:00:00'), shipped['America/New_York'])     # must never be looked at: the name is resolved internally
    put(os.path.join(zdir, 'UTC'), shipped['Asia/Kolkata'])
    put(os.path.join(zdir, 'leap'), leap_file())
    put(os.path.join(zdir, 'leap-slim'), leap_file_slim())
    put(os.path.join(zdir, 'empty'), b'')
    put(os.path.join(zdir, 'localtime'), shipped['Asia/Kathmandu'])
    put(os.path.join(zdir, 'X'), shipped['Australia/Lord_Howe'])
    put(os.path.join(root, 'abs/Kolkata'), shipped['Asia/Kolkata'])
    put(os.path.join(root, 'lt'), shipped['Pacific/Apia'])
    files[(zdir + '/../zi/Lisbon').encode()] = shipped['Europe/Lisbon']     # the OS resolves `..`; the file system is a parameter of the model
    # what the host offers at the default locations
    for name in ('America/New_York', 'Lisbon', 'X', 'localtime', 'truncated', 'UTC', 'Europe/Lisbon'):
        p = os.path.join('/usr/share/zoneinfo', name)
        if os.path.isfile(p): files[p.encode()] = open(p, 'rb').read()
    if os.path.isfile('/etc/localtime'): files[b'/etc/localtime'] = open('/etc/localtime', 'rb').read()
    android = ['/apex/com.android.tzdata/etc/tz/tzdata', '/data/misc/zoneinfo/current/tzdata', '/system/usr/share/zoneinfo/tzdata',
               '/config/data/tzdata', '/pkg/data/tzdata', '/data/tzdata', '/config/tzdata']
    present = [p for p in android if os.path.exists(p)]
    if present: chk.notes.append('Android/Fuchsia fallback paths exist on this host: %s' % present)
    chk.cov['fallback_sources_absent'] = not present
    tzdirs = [None, b'', zdir.encode(), os.path.join(root, 'nonexistent').encode()]
    tzs = [None, b'', b'X', b':X', b'localtime', b':localtime', b'No/Such', b'::X', b'America/New_York']
    lts = [None, os.path.join(root, 'lt').encode(), os.path.join(root, 'nope').encode()]
    names = [b'America/New_York', b'Lisbon', os.path.join(root, 'abs/Kolkata').encode(), b'file:Lisbon', b'file:' + os.path.join(root, 'abs/Kolkata').encode(),
             b'', b'adir', b'truncated', b'trunc-footer-1', b'trunc-footer-all', b'trunc-footer-mid', b'leap', b'leap-slim', b'empty', b':Lisbon', b'UTC', b'UTC0', b'Fixed/UTC+05:30:00', b'Fixed/UTC+05:00:00', b'Fixed/UTC+25:00:00', b'Fixed/UTC-24:00:00', b'Fixed/UTC+24:00:00', b'Fixed/UTC-24:00:01', b'file:/America/New_York', b'file:/Lisbon', b'file:/X', b'Fixed/UTC+00:60:00', b'Fixed/UTC+01:00:0\x00', b'Fixed/UTC+0\x00:00:00', b'Fixed/UTC-00:90:00', b'Fixed/UTC+23:59:60', b'Fixed/UTC-23:59:61', b'Fixed/UTC+00:00:99', b'No/Such', b'file:', b'../zi/Lisbon',
             b'America/New_York\x00junk']
    lines = ['fsfile %s %s' % (hx(p), hx(d)) for p, d in files.items()]
    meta = [None] * len(lines)
    for td in tzdirs:
        for nm in names:
            lines.append('resolve %s ~ ~ load %s' % (opt(td), hx(nm))); meta.append(('load', td, None, None, nm))
        for tz in tzs:
            for lt in lts:
                lines.append('resolve %s %s %s local -' % (opt(td), opt(tz), opt(lt))); meta.append(('local', td, tz, lt, None))
    # the same resolution when other names - in particular other spellings of the same file, and fixed-offset
    # names - are already in the zone map ("keep": the map is not cleared before the load)
    zd = zdir.encode()
    absk = os.path.join(root, 'abs/Kolkata').encode()
    for first, second in ((b'Lisbon', b'file:Lisbon'), (b'file:Lisbon', b'Lisbon'), (absk, b'file:' + absk), (b'file:' + absk, absk),
                          (b'Fixed/UTC+05:30:00', b'file:Fixed/UTC+05:30:00'), (b'UTC', b'file:UTC'), (b'Lisbon', b':Lisbon'), (b'Lisbon', b'Lisbon\x00junk'),
                          (b'America/New_York', b'file:America/New_York'), (b'UTC0', b'UTC0'), (b'Fixed/UTC+00:00:00', b'Fixed/UTC-00:00:00'), (b'UTC0', b'UTC'), (b'No/Such', b'file:No/Such'), (b'leap-slim', b'file:leap-slim'), (b'X', b'file:X')):
        lines.append('resolve %s ~ ~ load %s' % (opt(zd), hx(first))); meta.append(('load', zd, None, None, first))
        lines.append('resolve %s ~ ~ keep %s' % (opt(zd), hx(second))); meta.append(('load', zd, None, None, second))
        lines.append('resolve %s ~ ~ keep %s' % (opt(zd), hx(first))); meta.append(('load', zd, None, None, first))
    lines.append('defaultzone'); meta.append(('default', None, None, None, None))
    try:
        mo = run_model(lines)
        io = run_lines(exe, lines)
    finally:
        shutil.rmtree(root, ignore_errors=True)
    chk.cov['evaluations'] += len(lines); chk.cov['traces_validated_against_impl'] += len(lines)
    good = 0; mism = 0
    def cstr(b):
        return b.split(b'\0')[0]
    for l, m, a, b in zip(lines, meta, mo, io):
        if canon(b) != a:
            mism += 1
            if mism <= 10: chk.broken.append('correspondence: `%s` model=`%s` implementation=`%s`' % (l[:120], a, b))
        if m is None: continue
        kind, td, tz, lt, nm = m
        if kind == 'default':
            if b != 'default bad=0':
                chk.report('a default-constructed time_zone, a failed load, "UTC0", fixed_time_zone(0), the local fallback and utc_time_zone() are not all one zone under == and != : %s' % b,
                           {'op': l, 'implementation': b}, sig='defaultzone')
            else: good += 1
            continue
        # the documented resolution, written independently
        if kind == 'local':
            zone = b':localtime' if tz is None else cstr(tz)
            if zone[:1] == b':': zone = zone[1:]
            if zone == b'localtime': zone = cstr(lt) if lt is not None else b'/etc/localtime'
            name = zone
        else:
            name = nm
        from .props_fixed import spec_from_name
        fx = spec_from_name(name)
        if fx is not None:
            want_ok, want_name = True, (b'UTC' if fx == 0 else name)
            want_fp = '%d:%s %d:%s' % ((fx, hx(__import__('vlib.props_fixed', fromlist=['x']).spec_abbr(fx)),) * 2)
        else:
            rest = name[5:] if name[:5] == b'file:' else name
            if rest[:1] == b'/': path = rest
            else:
                d = cstr(td) if td else b''
                path = (d if d else b'/usr/share/zoneinfo') + b'/' + rest
            path = cstr(path)
            data = files.get(path)
            f = fingerprint(data) if data is not None else None
            # the independent reader accepts leap-second files and truncated ones differently: cctz must reject both
            if data is not None and (data in (leap_file(), leap_file_slim()) or len(data) < 44 or b'trunc' in os.path.basename(path)): f = None
            if f is None: want_ok, want_name, want_fp = False, b'UTC', '0:555443 0:555443'
            else: want_ok, want_name, want_fp = True, name, f
        want = '%s %s %s' % (('L' if kind == 'local' else ('1' if want_ok else '0')), hx(want_name), want_fp)
        chk.count('%s:%s' % (kind, 'ok' if want_ok else 'utc-fallback'))
        if b != want:
            chk.report('%s with TZDIR=%r TZ=%r LOCALTIME=%r name=%r gives `%s`; documented resolution gives `%s`' % (
                       'local_time_zone()' if kind == 'local' else 'load_time_zone', td, tz, lt, nm, b, want),
                       {'op': l, 'implementation': b, 'model': a, 'specification': want}, sig='resolve %s' % kind)
        else:
            good += 1
    chk.count('resolve:mismatch', mism)
    chk.cov['distinct_nontrivial'] = good
    chk.cov['rule'] = ('in-process with the environment reset and the zone cache cleared before every call: TZDIR {unset, empty, valid, nonexistent} x names {relative, absolute, file:-prefixed, empty, directory, truncated file, '
                       'leap-second file, empty file, :-prefixed, UTC, UTC0, fixed-offset, out-of-range fixed, missing, embedded NUL} and TZDIR x TZ {unset, empty, X, :X, localtime, :localtime, invalid, ::X, name} x '
                       'LOCALTIME {unset, valid path, invalid} for local_time_zone(); success flag, reported name and a fingerprint of the loaded data (offset and abbreviation at two instants) compared with the model '
                       '(file system as a parameter) and with the documented resolution written independently in Python over an independent TZif reader; non-trivial = calls that matched')
    chk.assumptions.append('unreadable files cannot be produced when running as root; Android/Fuchsia data sources are assumed absent (checked: the paths do not exist)')
    for i in (len(files), len(files) + 5, len(lines) - 1):
        chk.sample({'op': lines[i][:160], 'model': mo[i], 'implementation': io[i]})
    return chk.finish()


REGISTRY = {'C13': run_C13, 'C20': run_C20, 'C19': run_C19}
