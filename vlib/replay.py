"""./check <id> --replay <file>: re-runs the operations recorded in a replay file on the implementation
(built from /repo's current tree) and on the model, prints both answers; exit 1 if the recorded
implementation answer reproduces, 0 if it no longer does."""
import json, re, sys
from .common import build_harness, run_lines, canon, BuildError
from .fmtrun import run_model_fmt

ZOPS = {'bt', 'mt', 'cv', 'nt', 'pt', 'ntchain', 'ptchain', 'fmt', 'parse', 'preds', 'reload'}


def norm(op):
    p = op.split()
    if p and p[0] in ZOPS:
        if len(p) > 1 and re.fullmatch(r'[A-Za-z][A-Za-z0-9]*', p[1]): p[1] = 'rz'
        else: p.insert(1, 'rz')
    return ' '.join(p)


def lines_of(rep):
    ops = rep.get('ops') or ([rep['op']] if rep.get('op') else [])
    ops = [o for o in ops if isinstance(o, str) and o != 'zone <hex>']
    lines = []
    if rep.get('zone_definition'):
        d = rep['zone_definition'].split(); d[1] = 'rz'; lines.append(' '.join(d))
    elif rep.get('tzif_hex'):
        lines.append('zone rz loose %s' % rep['tzif_hex'])
    for o in ops:
        lines.append(norm(o) if lines else o)
    return lines


def replay(pid, path):
    doc = json.load(open(path))
    rep = doc.get('replay')
    if not rep:
        print('this replay names what no longer checks (no failing input was found):')
        for b in doc.get('no_longer_checks', []): print('  ', b)
        return 1
    lines = lines_of(rep)
    if not lines:
        print('nothing replayable recorded:', json.dumps(rep)[:400]); return 2
    try:
        exe = build_harness('san')
    except BuildError as e:
        print('harness does not build:', str(e)[-500:]); return 2
    io = run_lines(exe, lines)
    try:
        mo = run_model_fmt(lines)
    except Exception as e:
        mo = ['(model driver not available: %s)' % e] * len(lines)
    print(doc.get('summary', ''))
    for l, a, b in zip(lines, mo, io):
        print('op:             ', l[:200] + (' …' if len(l) > 200 else ''))
        print('  implementation:', b)
        print('  model:         ', a)
    rec = rep.get('implementation')
    recs = rec if isinstance(rec, list) else [rec]
    again = any(canon(b) == canon(str(r)) or b == str(r) for b in io for r in recs if r is not None)
    print('recorded implementation answer %s' % ('REPRODUCES' if again else 'does not reproduce'))
    return 1 if again else 0
