"""Check C16 (POSIX-TZ rule strings: exact acceptance, fully determined result)."""
import binascii
from .common import Check, correspond, canon
from . import posix_oracle as PO

THEOREMS = {'C16': ['Cctz.C16.parse_iff', 'Cctz.C16.parse_determined', 'Cctz.C16.defaults', 'Cctz.C16.colon_after_seconds_example']}


def hx(b):
    return binascii.hexlify(b).decode() if b else '-'


def edge(rng, lo, hi):
    r = rng.random()
    if r < 0.5: return rng.randrange(lo, hi + 1)
    return rng.choice([lo, hi, lo - 1 if lo > 0 else lo, hi + 1, hi + 10, lo + 1, hi - 1])


def gen_abbr(rng):
    r = rng.random()
    if r < 0.5: return rng.choice([b'EST', b'EDT', b'CET', b'CEST', b'AEDT', b'WGST', b'LMT', b'XYZW', b'abc', b'GMT'])
    if r < 0.75: return b'<' + rng.choice([b'+03', b'-03', b'+0530', b'-1130', b'UTC+1', b'A', b'', b'+14', b'ab,c', b'1']) + b'>'
    if r < 0.85: return bytes(rng.choice(b'ABCDEFGHIJKLMNOPQRSTUVWXYZabcxyz _/') for _ in range(rng.randrange(1, 7)))
    if r < 0.93: return rng.choice([b'AB', b'A', b'', b'<AB', b'AB>', b'A1B', b'A+B', b'A,BC', b':EST'])
    return bytes(rng.randrange(1, 256) for _ in range(rng.randrange(3, 6)))


INTMAX_NUMS = [b'2147483647', b'2147483648', b'2147483649', b'21474836470', b'21474836480', b'21474836485', b'21474836490', b'21474836495',
               b'4294967296', b'4294967301', b'42949672965', b'9999999999', b'99999999999999999999', b'214748364', b'2147483640']


def gen_num(rng, lo, hi, digits=None):
    if rng.random() < 0.02: return rng.choice(INTMAX_NUMS)
    v = edge(rng, lo, hi)
    if v < 0: v = 0
    s = b'%d' % v
    if rng.random() < 0.1: s = b'0' * rng.choice([1, 1, 2, 2, 7, 8, 9, 10, 11, 15, 25]) + s      # leading zeros never end a numeral
    return s


def gen_hms(rng, maxh, allow_sign=True):
    s = b''
    if allow_sign and rng.random() < 0.3: s += rng.choice([b'+', b'-', b'+', b'-', b'+-', b'-+', b'--', b'++'])
    s += gen_num(rng, 0, maxh)
    if rng.random() < 0.4:
        s += b':' + gen_num(rng, 0, 59)
        if rng.random() < 0.5:
            s += b':' + gen_num(rng, 0, 59)
    return s


def gen_date(rng):
    r = rng.random()
    if r < 0.5:
        return b'M' + gen_num(rng, 1, 12) + b'.' + gen_num(rng, 1, 5) + b'.' + gen_num(rng, 0, 6)
    if r < 0.75:
        return b'J' + gen_num(rng, 1, 365)
    return gen_num(rng, 0, 365)


def gen_sentence(rng):
    s = gen_abbr(rng) + gen_hms(rng, 24)
    if rng.random() < 0.2: return s
    s += gen_abbr(rng)
    if rng.random() < 0.4: s += gen_hms(rng, 24)
    for _ in range(2):
        s += b',' + gen_date(rng)
        if rng.random() < 0.5: s += b'/' + gen_hms(rng, 167)
    return s


def mutate(rng, s):
    b = bytearray(s)
    r = rng.random()
    if r < 0.2:   # drop the whole rule or one date[/time]
        parts = s.split(b',')
        if len(parts) > 1:
            k = rng.randrange(1, len(parts))
            del parts[k]
            return b','.join(parts)
    if r < 0.35:  # drop a field inside a date / time
        for sep in (b'.', b':', b'/'):
            if sep in s and rng.random() < 0.5:
                i = s.index(sep)
                j = i + 1
                while j < len(s) and 48 <= s[j] <= 57: j += 1
                return s[:i] + s[j:]
    if r < 0.5:   # extra field
        return s + rng.choice([b',M3.2.0', b',J1', b',0', b'/2', b'.1', b':30', b' ', b'x', b'\n', b',', b'/'])
    if r < 0.6 and b:
        i = rng.randrange(len(b)); del b[i]; return bytes(b)
    if r < 0.72:
        i = rng.randrange(len(b) + 1); b.insert(i, rng.choice(b',./:+-<>JM0123456789 \x00')); return bytes(b)
    if r < 0.85 and b:
        i = rng.randrange(len(b)); b[i] = rng.choice(b',./:+-<>JM0123456789A \x00\xff'); return bytes(b)
    if r < 0.9:
        return s + b'\x00' + rng.choice([b'', b'x', b',M3.2.0,M11.1.0'])
    if r < 0.95:
        return rng.choice([b':', b'', b',', b'<', b'<>', b'<>0', b'<>0<>', b'<>0<>,0,0', b'EST', b'EST+', b'EST5EDT', b'EST5EDT,', b'EST5EDT,M3',
                           b'EST5EDT,M3.2', b'EST5EDT,M3.2.0', b'EST5EDT,M3.2.0,', b'EST5EDT4', b'EST5EDT4/3', b'EST5EDT,M3/2,M11.1.0', b'EST5EDT,M3.2/2,M11.1.0',
                           b'EST5EDT,M3.2.0/2', b'EST5EDT/2,M11.1.0', b'EST5EDT/2/3', b'EST2147483648', b'EST99999999999', b'EST21474836485', b'EST5:21474836480', b'EST5EDT,M3.2.0/21474836482,M11.1.0',
                           b'EST5EDT,M21474836483.2.0,M11.1.0', b'EST5EDT,J21474836481,J300', b'EST5EDT,M3.21474836482.0,M11.1.0', b'EST4294967301', b'EST5EDT,J0,J365', b'EST5EDT,0,365', b'EST5EDT,J366,366'])
    return bytes(rng.randrange(256) for _ in range(rng.randrange(0, 24)))


def run_C16(chk):
    chk.prepare_model('Cctz.Properties.C16', THEOREMS['C16'])
    exe = chk.harness('san')
    scale = chk.tier if not (chk.broken or chk.degraded) else 'thorough'
    if exe is None or not getattr(chk, 'driver_ok', False):
        return chk.finish()
    rng = chk.rng
    n = 200000 if scale == 'quick' else 5000000
    specs = []
    for k in range(n):
        s = gen_sentence(rng)
        r = rng.random()
        if r < 0.45: pass
        elif r < 0.9: s = mutate(rng, s)
        else: s = mutate(rng, mutate(rng, s))
        specs.append(s)
    specs = list(dict.fromkeys(specs))
    lines = ['posix ' + hx(s) for s in specs]
    mo, io, mism = correspond(chk, lines, exe, 'posix')
    nontriv = 0
    for i, s in enumerate(specs):
        out = io[i]
        r = PO.parse(s)
        want = 'fail' if r is None else PO.render(r)
        chk.count('oracle:' + ('accept' if r is not None else 'reject') + (':dst' if r and r['dst_abbr'] else ''))
        if out != want:
            if out.startswith('ok') and r is None:
                what = 'accepted although it is not a POSIX-TZ rule string'
                if ' U' in out: what += ' (and the result has fields never written: %s)' % out
            elif out == 'fail': what = 'rejected although it is a well-formed rule string (%s)' % want
            else: what = 'gives %s, the string determines %s' % (out, want)
            chk.report('ParsePosixSpec(%r) %s' % (s, what), {'op': lines[i], 'spec': repr(s), 'implementation': out, 'model': mo[i], 'specification': want},
                       sig='posix %r -> %s' % (s, out))
        else:
            nontriv += 1
    for i in mism[:20]:
        chk.broken.append('correspondence: op `%s` (%r) model=`%s` implementation=`%s`' % (lines[i], specs[i], mo[i], io[i]))
    chk.cov['distinct_nontrivial'] = nontriv
    chk.cov['rule'] = ('distinct strings: sentences generated from the POSIX-TZ grammar with every optional part present/absent and numeric fields at and just beyond their bounds (45%), '
                       'single-edit mutations (dropped rule, dropped field, extra field, trailing bytes, embedded NUL, 45%), double mutations and random bytes (10%); '
                       'ParsePosixSpec is run twice on objects pre-filled with 0x00 and 0xAA (a field that differs is reported unset); compared model vs implementation and against '
                       'a reference recogniser written from the grammar in the property; non-trivial = distinct strings on which the implementation agreed with the recogniser')
    for i in (0, 1, len(lines) // 2, len(lines) - 1):
        chk.sample({'op': lines[i], 'spec': repr(specs[i]), 'model': mo[i], 'implementation': io[i]})
    return chk.finish()


REGISTRY = {'C16': run_C16}
