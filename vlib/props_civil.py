"""Checks C04, C05, C17 (civil time)."""
from .common import Check, correspond, canon, ub_site, enclosing_function, I64MIN, I64MAX, log
from . import civil as C

THEOREMS = {
    'C04': ['Cctz.C04.nSec_valid', 'Cctz.C04.nSec_exact', 'Cctz.C04.nSec_unique', 'Cctz.C04.align_spec',
            'Cctz.C04.civilNew_spec', 'Cctz.C04.nSec_no_overflow',
            'Cctz.C04Align.align_monotone', 'Cctz.C04Align.align_fix', 'Cctz.C04Align.align_idem', 'Cctz.C04Align.align_floor',
            'Cctz.C04Align.align_month_year', 'Cctz.C04Align.align_lt_next'],
    'C05': ['Cctz.C05.add_exact', 'Cctz.C05.sub_exact', 'Cctz.C05.difference_exact', 'Cctz.C05.inverse', 'Cctz.C05.lt_iff',
            'Cctz.C05.lt_iff_difference', 'Cctz.C05.add_no_overflow', 'Cctz.C05.sub_no_overflow', 'Cctz.C05.difference_no_overflow',
            'Cctz.C05Algebra.add_add', 'Cctz.C05Algebra.add_sub_cancel', 'Cctz.C05Algebra.sub_eq_add_neg', 'Cctz.C05Algebra.add_zero',
            'Cctz.C05Algebra.difference_of_adds', 'Cctz.C05Algebra.difference_antisymm', 'Cctz.C05Algebra.difference_chain',
            'Cctz.C05Algebra.add_monotone'],
    'C17': ['Cctz.C17.getWeekday_spec', 'Cctz.C17.getYearday_spec', 'Cctz.C17.nextWeekday_spec',
            'Cctz.C17.prevWeekday_spec', 'Cctz.C17.weekday_spec_sanity',
            'Cctz.C17Idiom.weekday_of_result', 'Cctz.C17Idiom.onOrAfter', 'Cctz.C17Idiom.onOrBefore',
            'Cctz.C17Idiom.idiom_fixpoint', 'Cctz.C17Idiom.week_step', 'Cctz.C17Idiom.yearday_inverse', 'Cctz.C17Idiom.weekday_difference'],
}

PANEL = [(0, 0, 0, 0, 0), (0, 0, 24, 0, 0), (0, 0, -1, 0, 0), (0, 0, 0, 60, 0), (0, 0, 0, -1, 0), (0, 0, 0, 0, 60),
         (0, 0, 0, 0, -1), (12, 0, 0, 0, 0), (-12, 0, 0, 0, 0), (1, 0, 0, 0, 0), (-1, 0, 0, 0, 0), (11, 31, 0, 0, 0),
         (0, 1, 0, 0, 0), (0, -1, 0, 0, 0), (0, 28, 0, 0, 0), (0, 31, 0, 0, 0), (0, -31, 0, 0, 0), (0, 365, 0, 0, 0),
         (0, -365, 0, 0, 0), (0, 366, 0, 0, 0), (0, -366, 0, 0, 0), (0, 1461, 0, 0, 0), (0, 36524, 0, 0, 0),
         (0, 36525, 0, 0, 0), (0, 146097, 0, 0, 0), (0, -146097, 0, 0, 0), (0, 146098, 0, 0, 0), (0, -364, 0, 0, 0),
         (24, 0, 0, 0, 0), (0, 0, 23, 59, 60), (0, 0, 0, 0, 86400), (0, 0, 0, 1440, 0), (0, 0, 0, 0, -86401),
         (13, -400, 25, 61, 61), (-13, 400, -25, -61, -61), (0, 0, 2400, 0, 0), (0, 0, 0, 0, 3 * 10**9),
         (0, 0, 0, 5 * 10**7, 0), (1200, 0, 0, 0, 0), (0, 292194, 0, 0, 0)]


def gen_new_lines(chk, scale):
    rng = chk.rng
    lines = []
    meta = []
    # (a) every day of the 146097-day cycle as a base, perturbed
    per_day = 2 if scale == 'quick' else 40
    for i in range(C.CYCLE):
        y, m, d = C.cycle_day(i)
        for k in range(per_day):
            dm, dd, dh, dmi, ds = PANEL[(i + k * 7 + (rng.randrange(len(PANEL)) if scale == 'quick' else k)) % len(PANEL)]
            tag = C.TAGS[(i + k) % 6] if k else 'second'
            hh, mm, ss = (i * 7) % 24, (i * 11) % 60, (i * 13) % 60
            args = (y, m + dm, d + dd, hh + dh, mm + dmi, ss + ds)
            lines.append('new %s %s' % (tag, C.fmt(args))); meta.append(('new', tag, args, 'cycle'))
    # (b) mixed-sign mixed-magnitude tuples
    n = 120000 if scale == 'quick' else 3000000
    for _ in range(n):
        tag = rng.choice(C.TAGS)
        args = (C.pick_year(rng),) + tuple(C.pick_field(rng) for _ in range(5))
        if rng.random() < 0.3:
            args = (args[0], rng.randrange(-30, 40)) + args[2:]
        lines.append('new %s %s' % (tag, C.fmt(args))); meta.append(('new', tag, args, 'mixed'))
    # (c) cycle days replicated at congruent years near the extremes
    n = 30000 if scale == 'quick' else 600000
    bases = [0, -400, 2**40 - (2**40 % 400), -(2**40 - (2**40 % 400)), I64MAX - (I64MAX % 400) - 400,
             I64MIN - (I64MIN % 400) + 400, I64MAX - (I64MAX % 400), I64MIN - (I64MIN % 400)]
    for _ in range(n):
        y, m, d = C.cycle_day(rng.randrange(C.CYCLE))
        yy = y - 2000 + rng.choice(bases)
        if not C.in64(yy): continue
        dm, dd, dh, dmi, ds = rng.choice(PANEL)
        tag = rng.choice(C.TAGS)
        args = (yy, m + dm, d + dd, rng.randrange(24) + dh, rng.randrange(60) + dmi, rng.randrange(60) + ds)
        lines.append('new %s %s' % (tag, C.fmt(args))); meta.append(('new', tag, args, 'replicated'))
    # (d) conversions between alignments
    n = 20000 if scale == 'quick' else 300000
    for _ in range(n):
        t, u = rng.choice(C.TAGS), rng.choice(C.TAGS)
        f = C.valid_fields(rng)
        lines.append('conv %s %s %s' % (t, u, C.fmt(f))); meta.append(('conv', (t, u), f, 'conv'))
    return lines, meta


def site_sig(out):
    s = ub_site(out)
    if not s: return out
    return '%s in %s' % (canon(out), enclosing_function(*s))


def run_C04(chk):
    chk.prepare_model(['Cctz.Properties.C04', 'Cctz.Properties.C04Align'], THEOREMS['C04'])
    exe = chk.harness('san')
    scale = chk.tier if not (chk.broken or chk.degraded) else 'thorough'
    if exe is None or not getattr(chk, 'driver_ok', False):
        return chk.finish()
    lines, meta = gen_new_lines(chk, 'quick' if scale == 'quick' else 'thorough')
    mo, io, mism = correspond(chk, lines, exe, 'new')
    nontriv = set()
    for i, (kind, tag, args, cls) in enumerate(meta):
        out = io[i]
        if kind == 'new':
            inb = C.new_in_bound(args)
            chk.count('new:%s:%s' % (cls, 'in-bound' if inb else 'outside-bound'))
            if not inb: continue
            want = C.spec_new(tag, args)
            got = C.parse_fields(out)
            if got != want:
                chk.report('civil_%s(%s) = %s, the calendar says %s' % (tag, C.fmt(args), out, C.fmt(want)),
                           {'op': lines[i], 'implementation': out, 'model': mo[i], 'specification': C.fmt(want)},
                           sig='new %s' % site_sig(out))
            elif args != want:
                nontriv.add((tag, args))
        else:
            t, u = tag
            want = C.align(t, C.align(u, args))
            got = C.parse_fields(out)
            if got != want:
                chk.report('civil_%s(civil_%s(%s)) = %s, expected %s' % (t, u, C.fmt(args), out, C.fmt(want)),
                           {'op': lines[i], 'implementation': out, 'model': mo[i], 'specification': C.fmt(want)})
            else:
                nontriv.add((tag, args))
    for i in mism[:20]:
        chk.broken.append('correspondence: op `%s` model=`%s` implementation=`%s`' % (lines[i], mo[i], io[i]))
    chk.cov['distinct_nontrivial'] = len(nontriv)
    chk.cov['rule'] = ('ops `new T y m d hh mm ss` / `conv T U fields`: (a) every day of the 146097-day cycle as base x perturbation panel, '
                       '(b) mixed-sign mixed-magnitude 64-bit tuples, (c) cycle days replicated at congruent years near 0, +-2^40 and the int64 limits, '
                       '(d) alignment conversions; each compared model vs implementation (fields and UB flag) and, inside the representability bound, '
                       'against the Python calendar oracle; non-trivial = distinct inputs whose arguments were not already normalised and whose result matched the oracle')
    for i in (0, len(lines) // 3, len(lines) // 2, len(lines) - 1):
        chk.sample({'op': lines[i], 'model': mo[i], 'implementation': io[i]})
    chk.assumptions += ['C04 bound read as: six arguments in int64, y + trunc(m/12) and y + floor((m-1)/12) in int64, final year in int64 (DESIGN.md C04 item 5)',
                        'narrow casts (month_t..second_t) modelled as identity']
    return chk.finish()


# ------------------------------------------------------------------------------------ C05

def gen_arith(chk, scale):
    rng = chk.rng
    ops = []  # (kind, tag, a, n|b)
    n = 150000 if scale == 'quick' else 4000000
    big = [I64MAX, I64MIN, I64MAX - 1, I64MIN + 1, 2**62, -2**62, 2**31, -2**31, 2**33, 10**12, -10**12]
    for _ in range(n):
        tag = rng.choice(C.TAGS)
        a = C.align(tag, C.valid_fields(rng))
        r = rng.random()
        if r < 0.35: k = rng.choice(C.MAGS) * rng.choice([1, -1]) + rng.choice([0, 1, -1])
        elif r < 0.5: k = rng.choice(big) + rng.randrange(-3, 4)
        elif r < 0.6: k = rng.randrange(I64MIN, I64MAX + 1)
        elif r < 0.8:
            # aim at the representable limits: choose target year near the limits
            tgt = C.align(tag, C.valid_fields(rng, year=rng.choice([I64MAX, I64MIN, I64MAX - 1, I64MIN + 1])))
            k = C.unit_num(tag, tgt) - C.unit_num(tag, a)
        else: k = rng.randrange(-100000, 100000)
        if rng.random() < 0.12:
            # whole 400-year cycles (146097 days) in the unit of the alignment, give or take a little: the day count and the
            # carry from the finer fields then leave remainders of either sign close to a full cycle
            per_day = {'second': 86400, 'minute': 1440, 'hour': 24, 'day': 1}.get(tag)
            if per_day:
                k = rng.choice([1, -1]) * rng.choice([1, 1, 2, 3, 7]) * 146097 * per_day + rng.choice([0, 1, -1, per_day, -per_day, rng.randrange(-3 * per_day, 3 * per_day + 1)])
        k = min(max(k, I64MIN), I64MAX)
        ops.append((rng.choice(['add', 'sub']), tag, a, k))
    for _ in range(n // 5):
        # chained steps (a + n) + m, (a + n) - n, (a + n) - (a + m): magnitudes, limits, and pairs that nearly cancel
        tag = rng.choice(C.TAGS)
        a = C.align(tag, C.valid_fields(rng))
        k1 = rng.choice(C.MAGS + big[4:]) * rng.choice([1, -1]) + rng.randrange(-2, 3)
        r = rng.random()
        if r < 0.4: k2 = -k1 + rng.randrange(-3, 4)
        elif r < 0.7: k2 = rng.choice(C.MAGS) * rng.choice([1, -1]) + rng.randrange(-2, 3)
        else: k2 = rng.randrange(-100000, 100000)
        ops.append(('chain', tag, a, (min(max(k1, I64MIN), I64MAX), min(max(k2, I64MIN), I64MAX))))
    for _ in range(n // 2):
        tag = rng.choice(C.TAGS)
        a = C.align(tag, C.valid_fields(rng))
        r = rng.random()
        if r < 0.5:
            k = rng.choice(C.MAGS + big) * rng.choice([1, -1]) + rng.randrange(-2, 3)
            ub = C.unit_num(tag, a) + k
            b = C.of_unit(tag, ub)
            if not C.in64(b[0]): b = C.align(tag, C.valid_fields(rng))
        elif r < 0.7:
            b = C.align(tag, C.valid_fields(rng, year=a[0] + rng.randrange(-2, 3) if C.in64(a[0] + 2) and C.in64(a[0] - 2) else a[0]))
        else:
            b = C.align(tag, C.valid_fields(rng))
        ops.append(('diff', tag, a, b))
    for _ in range(n // 4):
        t1, t2 = rng.choice(C.TAGS), rng.choice(C.TAGS)
        a = C.valid_fields(rng)
        b = list(a) if rng.random() < 0.7 else list(C.valid_fields(rng))
        if rng.random() < 0.8:
            j = rng.randrange(6)
            b[j] += rng.choice([-1, 1, 0])
        b = tuple(b)
        if not C.valid(b) or not C.in64(b[0]): b = C.valid_fields(rng)
        ops.append(('cmp', (t1, t2), a, b))
    return ops


def run_C05(chk):
    chk.prepare_model(['Cctz.Properties.C05', 'Cctz.Properties.C05Algebra'], THEOREMS['C05'])
    exe = chk.harness('san')
    scale = chk.tier if not (chk.broken or chk.degraded) else 'thorough'
    if exe is None or not getattr(chk, 'driver_ok', False):
        return chk.finish()
    ops = gen_arith(chk, scale)
    lines = []
    for kind, tag, a, x in ops:
        if kind in ('add', 'sub'): lines.append('%s %s %s %d' % (kind, tag, C.fmt(a), x))
        elif kind == 'diff': lines.append('diff %s %s %s' % (tag, C.fmt(a), C.fmt(x)))
        elif kind == 'chain': lines.append('chain %s %s %d %d' % (tag, C.fmt(a), x[0], x[1]))
        else: lines.append('cmp %s %s %s %s' % (tag[0], tag[1], C.fmt(a), C.fmt(x)))
    mo, io, mism = correspond(chk, lines, exe, 'arith')
    nontriv = set()
    inverse = []  # second pass: (a + n) - a == n and b + (a - b) == a on the implementation
    for i, (kind, tag, a, x) in enumerate(ops):
        out = io[i]
        if kind in ('add', 'sub'):
            n = x if kind == 'add' else -x
            u = C.unit_num(tag, a) + n
            want = C.of_unit(tag, u)
            rep = C.in64(want[0])
            chk.count('%s:%s' % (kind, 'representable' if rep else 'unrepresentable'))
            if not rep: continue
            got = C.parse_fields(out)
            if got != want:
                chk.report('civil_%s(%s) %s %d = %s, exact result is %s' % (tag, C.fmt(a), '+' if kind == 'add' else '-', x, out, C.fmt(want)),
                           {'op': lines[i], 'implementation': out, 'model': mo[i], 'specification': C.fmt(want)}, sig='%s %s' % (kind, site_sig(out)))
            else:
                nontriv.add((kind, tag, a, x))
                if C.in64(n) and len(inverse) < (60000 if scale == 'quick' else 10**6):
                    inverse.append(('diff %s %s %s' % (tag, C.fmt(got), C.fmt(a)), n, lines[i]))
        elif kind == 'chain':
            u = C.unit_num(tag, a); n1, n2 = x
            mids = [C.of_unit(tag, u + n1), C.of_unit(tag, u + n2), C.of_unit(tag, u + n1 + n2)]
            rep = all(C.in64(f[0]) for f in mids) and C.in64(n1 - n2) and C.in64(-n1)
            chk.count('chain:%s' % ('representable' if rep else 'unrepresentable'))
            if not rep: continue
            want = '%s | %s | %d' % (C.fmt(mids[2]), C.fmt(a), n1 - n2)
            if out != want:
                chk.report('chained steps on civil_%s(%s) with n=%d, m=%d: (a+n)+m | (a+n)-n | (a+n)-(a+m) = %s, exact result is %s' % (tag, C.fmt(a), n1, n2, out, want),
                           {'op': lines[i], 'implementation': out, 'model': mo[i], 'specification': want}, sig='chain %s' % site_sig(out))
            else:
                nontriv.add((kind, tag, a, x))
        elif kind == 'diff':
            want = C.unit_num(tag, a) - C.unit_num(tag, x)
            rep = C.in64(want)
            chk.count('diff:%s' % ('representable' if rep else 'unrepresentable'))
            if not rep: continue
            if out != str(want):
                chk.report('civil_%s(%s) - civil_%s(%s) = %s, exact result is %d' % (tag, C.fmt(a), tag, C.fmt(x), out, want),
                           {'op': lines[i], 'implementation': out, 'model': mo[i], 'specification': want}, sig='diff %s' % site_sig(out))
            else:
                nontriv.add((kind, tag, a, x))
                if len(inverse) < (90000 if scale == 'quick' else 2 * 10**6):
                    inverse.append(('add %s %s %d' % (tag, C.fmt(x), want), a, lines[i]))
        else:
            sa, sb = C.sec_num(C.align(tag[0], a)), C.sec_num(C.align(tag[1], x))
            want = '%d %d %d' % (sa < sb, sa <= sb, sa == sb)
            chk.count('cmp:' + want.replace(' ', ''))
            if out != want:
                chk.report('comparison of civil_%s(%s) with civil_%s(%s) gives (<,<=,==) = %s, calendar order says %s' % (tag[0], C.fmt(a), tag[1], C.fmt(x), out, want),
                           {'op': lines[i], 'implementation': out, 'model': mo[i], 'specification': want})
            else:
                nontriv.add((kind, tag, a, x))
    for i in mism[:20]:
        chk.broken.append('correspondence: op `%s` model=`%s` implementation=`%s`' % (lines[i], mo[i], io[i]))
    # inverse laws on the implementation itself
    il = [x[0] for x in inverse]
    mo2, io2, mism2 = correspond(chk, il, exe, 'inverse')
    for j, (l, want, src) in enumerate(inverse):
        w = str(want) if isinstance(want, int) else C.fmt(want)
        if io2[j] != w:
            chk.report('inverse law fails: after `%s`, `%s` gives %s instead of %s' % (src, l, io2[j], w),
                       {'ops': [src, l], 'implementation': io2[j], 'expected': w}, sig='inverse %s' % site_sig(io2[j]))
    for j in mism2[:10]:
        chk.broken.append('correspondence: op `%s` model=`%s` implementation=`%s`' % (il[j], mo2[j], io2[j]))
    chk.cov['distinct_nontrivial'] = len(nontriv)
    chk.cov['rule'] = ('ops add/sub/diff/cmp on valid aligned civil times of all six alignments: n from the magnitude panel, the int64 limits, '
                       'values aimed at results in the extreme years, random 64-bit; pairs with chosen difference; each compared model vs implementation '
                       '(value and UB flag) and, when the exact result is representable, against the Python calendar oracle; then the inverse laws '
                       '(a+n)-a==n and b+(a-b)==a are evaluated on the implementation; chained steps (a+n)+m, (a+n)-n, (a+n)-(a+m) in one op '
                       'against a+(n+m), a, n-m (the C05Algebra theorems); non-trivial = distinct ops with representable exact result that matched')
    for i in (0, len(lines) // 2, len(lines) - 1):
        chk.sample({'op': lines[i], 'model': mo[i], 'implementation': io[i]})
    return chk.finish()


# ------------------------------------------------------------------------------------ C17

def run_C17(chk):
    chk.prepare_model(['Cctz.Properties.C17', 'Cctz.Properties.C17Idiom'], THEOREMS['C17'])
    exe = chk.harness('san')
    scale = chk.tier if not (chk.broken or chk.degraded) else 'thorough'
    if exe is None or not getattr(chk, 'driver_ok', False):
        return chk.finish()
    rng = chk.rng
    offs = [0] if scale == 'quick' else [0, -2000, -2400, 2**40 - (2**40 % 400), -(2**40 - (2**40 % 400)),
                                         I64MAX - (I64MAX % 400) - 2400, I64MIN - (I64MIN % 400) + 400 - 2000,
                                         400000, -800000]
    extreme = [I64MAX - (I64MAX % 400) - 2400 + 400, I64MIN - (I64MIN % 400) - 2000 + 400]
    lines = []; meta = []
    for off in offs:
        for i in range(C.CYCLE):
            y, m, d = C.cycle_day(i)
            y += off
            lines.append('wd %d %d %d 0 0 0' % (y, m, d)); meta.append(('wd', (y, m, d)))
            lines.append('yd %d %d %d %d %d %d' % (y, m, d, i % 24, i % 60, (i * 7) % 60)); meta.append(('yd', (y, m, d)))
            ws = range(7) if (scale != 'quick' or off) else [rng.randrange(7), (i % 7)]
            for w in ws:
                lines.append('nwd %d %d %d %d' % (y, m, d, w)); meta.append(('nwd', (y, m, d, w)))
                lines.append('pwd %d %d %d %d' % (y, m, d, w)); meta.append(('pwd', (y, m, d, w)))
            # the documented idioms next_weekday(d - 1, wd) / prev_weekday(d + 1, wd): first/last wd on or after/before d
            for w in (ws if scale != 'quick' or off else [(i + 3) % 7, (i * 5) % 7]):
                lines.append('nwi %d %d %d %d' % (y, m, d, w)); meta.append(('nwi', (y, m, d, w)))
                lines.append('pwi %d %d %d %d' % (y, m, d, w)); meta.append(('pwi', (y, m, d, w)))
    # extremes and random years, all 7 weekdays
    for _ in range(20000 if scale == 'quick' else 400000):
        y = C.pick_year(rng)
        m = rng.randrange(1, 13); d = rng.randrange(1, C.dim(y, m) + 1)
        lines.append('wd %d %d %d 0 0 0' % (y, m, d)); meta.append(('wd', (y, m, d)))
        lines.append('yd %d %d %d 1 2 3' % (y, m, d)); meta.append(('yd', (y, m, d)))
        w = rng.randrange(7)
        lines.append('nwd %d %d %d %d' % (y, m, d, w)); meta.append(('nwd', (y, m, d, w)))
        lines.append('pwd %d %d %d %d' % (y, m, d, w)); meta.append(('pwd', (y, m, d, w)))
        w = rng.randrange(7)
        lines.append('nwi %d %d %d %d' % (y, m, d, w)); meta.append(('nwi', (y, m, d, w)))
        lines.append('pwi %d %d %d %d' % (y, m, d, w)); meta.append(('pwi', (y, m, d, w)))
    mo, io, mism = correspond(chk, lines, exe, 'weekday')
    nontriv = 0
    for i, (kind, a) in enumerate(meta):
        out = io[i]
        if kind == 'wd':
            want = str(C.weekday(*a))
        elif kind == 'yd':
            yd = C.yearday(*a)
            want = str(yd)
            assert 1 <= yd <= 366
        elif kind in ('nwi', 'pwi'):
            y, m, d, w = a
            n0 = C.day_num(y, m, d)
            k = next(j for j in range(0, 7) if (n0 + (j if kind == 'nwi' else -j) + 3) % 7 == w)
            r = C.civil_of_day(n0 + (k if kind == 'nwi' else -k))
            mid = C.civil_of_day(n0 + (-1 if kind == 'nwi' else 1))
            if not C.in64(r[0]) or not C.in64(mid[0]):
                chk.count('weekday:unrepresentable'); continue
            want = C.fmt(r + (0, 0, 0)) + ' %d' % w
        else:
            y, m, d, w = a
            n0 = C.day_num(y, m, d)
            k = next(j for j in range(1, 8) if (n0 + (j if kind == 'nwd' else -j) + 3) % 7 == w)
            r = C.civil_of_day(n0 + (k if kind == 'nwd' else -k))
            if not C.in64(r[0]):
                chk.count('weekday:unrepresentable'); continue
            want = C.fmt(r + (0, 0, 0))
        chk.count(kind)
        if out != want:
            chk.report('%s(%s) = %s, the calendar says %s' % ({'wd': 'get_weekday', 'yd': 'get_yearday', 'nwd': 'next_weekday', 'pwd': 'prev_weekday', 'nwi': 'next_weekday(d - 1, wd) + get_weekday', 'pwi': 'prev_weekday(d + 1, wd) + get_weekday'}[kind],
                       ' '.join(map(str, a)), out, want), {'op': lines[i], 'implementation': out, 'model': mo[i], 'specification': want},
                       sig='%s %s' % (kind, site_sig(out)))
        else:
            nontriv += 1
    for i in mism[:20]:
        chk.broken.append('correspondence: op `%s` model=`%s` implementation=`%s`' % (lines[i], mo[i], io[i]))
    chk.cov['distinct_nontrivial'] = len(set(lines)) if nontriv == len(lines) - chk.dist.get('weekday:unrepresentable', 0) else nontriv
    chk.cov['exhaustive_cycle'] = True
    chk.cov['rule'] = ('every day of the 146097-day Gregorian cycle (2000-01-01 .. 2399-12-31)%s: get_weekday, get_yearday, next_weekday and prev_weekday '
                       'for %s, plus random dates over the int64 year range; compared model vs implementation and against the Python calendar oracle '
                       '(weekday = (daynumber+3) mod 7 with Monday=0; nearest strictly later/earlier day with the requested weekday, 1..7 days away; '
                       'the documented idioms next_weekday(d - 1, wd) / prev_weekday(d + 1, wd) = first/last wd on or after/before d, 0..6 days away, with get_weekday of the result); '
                       'every op is a distinct date/weekday pair') % (
                        '' if scale == 'quick' else ' replicated at 9 year offsets = 0 mod 400 incl. negative years and the int64 extremes',
                        'two weekdays per day (quick)' if scale == 'quick' else 'all seven weekdays')
    for i in (0, 1, 2, 3, len(lines) - 1):
        chk.sample({'op': lines[i], 'model': mo[i], 'implementation': io[i]})
    return chk.finish()
