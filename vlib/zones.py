"""Zone corpus (shipped + synthetic), probe-instant generators and the cached zone oracle."""
import binascii, bisect
from . import tzif as T
from . import posix_oracle as PO
from . import civil as C
from .common import I64MIN, I64MAX

K400 = 146097 * 86400


def hx(b):
    return binascii.hexlify(b).decode() if b else '-'


SYN_FOOTERS = [
    (b'EST5EDT,M3.2.0,M11.1.0', 3), (b'AEST-10AEDT,M10.1.0,M4.1.0/3', 2), (b'<+0330>-3:30<+0430>,J79/24,J263/24', 3),
    (b'XXX3YYY,59/2,300/2', 2), (b'IST-2IDT,M3.4.4/26,M10.5.0', 3), (b'<-03>3<-02>,M3.5.0/-2,M10.5.0/-1', 3),
    (b'WET0WEST,M3.5.0/1,M10.5.0', 2), (b'LMT0:01:15LMS-0:58:45,M3.2.0,M11.1.0', 2), (b'EST5EDT,0/0,J365/25', 3),
    (b'JST-9', 2), (b'CET-1CEST,M3.5.0,M10.5.0/3', 4), (b'NZST-12NZDT,M9.5.0,M4.1.0/3', 2),
    (b'<+1245>-12:45<+1345>,M9.5.0/2:45,M4.1.0/3:45', 2), (b'AAA11BBB10:30,J1/0,J365/23:59:59', 2),
    (b'PST8PDT,M3.2.0/+167,M11.1.0/-167', 3), (b'ABC-14ABD-15,60/0,366/0', 2) if False else (b'ABC-14ABD-15,60/0,365/0', 2),
    (b'CHAST-12:45CHADT,M9.5.0/2:45,M4.1.0/3:45', 2), (b'XYZ0XYW-2,M1.1.1/0,M12.5.0/22', 2),
    # permanent daylight time with a shift other than one hour (the end of DST of each year is the start of the next)
    (b'<-03>3<-01>1,0/0,J365/26', 3), (b'XXX-2XXY-2:30,0/0,J365/24:30', 3), (b'AAA4AAB5,0/0,J365/23', 3),
]


class Zone:
    def __init__(self, name, data, kind):
        self.name = name; self.data = data; self.kind = kind
        self.z = T.parse(data)
        self.rule = None
        if self.z is not None and self.z.footer:
            self.rule = PO.parse(self.z.footer)
        self._ri = {}
        self.has_rule = bool(self.rule and self.rule['dst_abbr'] and not PO.is_all_year_dst(self.rule))

    def rule_instants(self, y):
        v = self._ri.get(y)
        if v is None:
            v = PO.rule_instants(self.rule, y % 400 + 2000)   # 400-year periodicity of the calendar
            shift = (y - (y % 400 + 2000)) // 400 * K400
            v = (v[0] + shift, v[1] + shift)
            self._ri[y] = v
        return v

    def offset_at(self, t):
        z = self.z
        if not z.times or t < z.times[0]:
            i = T.default_type(z)
            return z.types[i][0], z.types[i][1], z.abbr(i)
        if t >= z.times[-1] and self.has_rule:
            r = self.rule
            y = C.civil_of_sec(t)[0]
            best = None
            for yy in (y - 1, y, y + 1):
                s, e = self.rule_instants(yy)
                for (ti, st) in ((s, 1), (e, 0)):
                    if ti <= t and (best is None or (ti, st) > best): best = (ti, st)
            if best is None or best[0] <= z.times[-1]:
                # no rule instant after the records yet: the last record prevails
                i = z.idxs[-1]
                return z.types[i][0], z.types[i][1], z.abbr(i)
            if best[1]: return r['dst_offset'], True, r['dst_abbr']
            return r['std_offset'], False, r['std_abbr']
        k = bisect.bisect_right(z.times, t)
        i = z.idxs[k - 1]
        return z.types[i][0], z.types[i][1], z.abbr(i)

    def last_year(self):
        if not self.z.times: return 1970
        t = self.z.times[-1]
        o = self.offset_at(t)[0]
        return C.civil_of_sec(t + o)[0]

    def change_instants(self, extra_years=()):
        ev = set(self.z.times)
        if self.has_rule:
            ly = self.last_year()
            last = self.z.times[-1] if self.z.times else I64MIN
            for y in list(range(ly, ly + 402)) + list(extra_years):
                for t in self.rule_instants(y):
                    if t > last: ev.add(t)
        return sorted(ev)


def synthetic_zones():
    out = []
    for k, (footer, ver) in enumerate(SYN_FOOTERS):
        z = T.make_rule_zone(footer, version=ver)
        out.append(Zone('syn/%02d-%s' % (k, footer.decode('latin1')[:18]), T.write(z), 'synthetic'))
    # version 1 (32-bit data only, no footer)
    z = T.make_rule_zone(b'EST5EDT,M3.2.0,M11.1.0', version=1, start_year=1910)
    out.append(Zone('syn/v1', T.write(z), 'synthetic'))
    # fat v2 with indicators; slim with empty v1 block
    z = T.make_rule_zone(b'CET-1CEST,M3.5.0,M10.5.0/3', version=2)
    out.append(Zone('syn/fat-ind', T.write(z, indicators=True), 'synthetic'))
    out.append(Zone('syn/fat-ind-std-only', T.write(z, indicators='std'), 'synthetic'))
    out.append(Zone('syn/fat-ind-ut-only', T.write(z, indicators='ut'), 'synthetic'))
    out.append(Zone('syn/slim', T.write(z, v1_times=[]), 'synthetic'))
    # no footer at all
    z = T.make_rule_zone(b'CET-1CEST,M3.5.0,M10.5.0/3', version=2); z.footer = b''
    out.append(Zone('syn/nofooter', T.write(z), 'synthetic'))
    # no-op transitions, isdst-only and abbreviation-only changes
    d = C.day_num
    z = T.make_rule_zone(b'MSK-3', version=2, extra_prefix=[
        (d(1950, 1, 1) * 86400, b'MSK', 10800, False), (d(1960, 1, 1) * 86400, b'MSK', 10800, False),   # no-op
        (d(1970, 1, 1) * 86400, b'MSK', 10800, True),                                                   # isdst only
        (d(1980, 1, 1) * 86400, b'MSD', 10800, True),                                                   # abbreviation only
        (d(1990, 1, 1) * 86400, b'MSK', 10800, False)])
    out.append(Zone('syn/noop', T.write(z), 'synthetic'))
    # pre-2018 "big bang" entry whose type equals the default type
    z = T.make_rule_zone(b'EST5EDT,M3.2.0,M11.1.0', version=2, bigbang=0)
    out.append(Zone('syn/bigbang', T.write(z), 'synthetic'))
    # big-bang entry whose type is NOT the type the file designates for earlier times
    d = C.day_num
    z = T.TZif(2, [-2**59, d(1883, 11, 18) * 86400 + 17762, d(1990, 4, 1) * 86400, d(1990, 10, 28) * 86400], [1, 0, 2, 0],
               [(-18000, False, 4), (-17762, False, 0), (-14400, True, 8)], b'LMT\0EST\0EDT\0', b'EST5')
    out.append(Zone('syn/bigbang-other-type', T.write(z), 'synthetic'))
    # the before-first-transition type: type 0 DST and unreferenced (zic designates type 0), type 0 DST and referenced
    # (legacy files: search below the first transition's type / upwards for standard time), type 0 standard and referenced
    d = C.day_num
    base_t = [d(1945, 8, 14) * 86400 + 82800, d(1945, 9, 30) * 86400 + 21600, d(1967, 4, 30) * 86400 + 25200, d(1967, 10, 29) * 86400 + 21600]
    ab = b'EWT\0EPT\0EST\0EDT\0'
    tps = [(-14400, True, 0), (-14400, True, 4), (-18000, False, 8), (-14400, True, 12)]
    for nm, idxs in (('type0-dst-unreferenced', [1, 2, 3, 2]), ('type0-dst-referenced-first', [0, 2, 3, 2]), ('type0-dst-referenced-later', [1, 2, 0, 2]),
                     ('type0-dst-first-is-3', [3, 2, 0, 2])):
        z = T.TZif(2, base_t, idxs, tps, ab, b'EST5EDT,M3.2.0,M11.1.0')
        out.append(Zone('syn/' + nm, T.write(z), 'synthetic'))
    # type 0 is a daylight type in use and the first recorded change FALLS BACK onto it from the (standard) type in
    # force before: the civil seconds shown just before the first change are repeated
    z = T.TZif(2, [d(1960, 10, 2) * 86400 + 7200, d(1961, 3, 26) * 86400 + 7200, d(1961, 10, 1) * 86400 + 7200, d(1968, 2, 18) * 86400 + 7200],
               [0, 1, 0, 1], [(0, True, 0), (3600, False, 4)], b'GMT\0IST\0', b'')
    out.append(Zone('syn/type0-dst-first-change-falls-back', T.write(z), 'synthetic'))
    z = T.TZif(2, base_t, [1, 0, 1, 0], [(-18000, False, 8), (-14400, True, 12)], ab, b'EST5EDT,M3.2.0,M11.1.0')
    out.append(Zone('syn/type0-std-referenced', T.write(z), 'synthetic'))
    z = T.TZif(2, base_t, [1, 2, 1, 2], [(-14400, True, 0), (-14400, True, 4), (-14400, True, 12)], ab, b'')
    out.append(Zone('syn/all-types-dst', T.write(z), 'synthetic'))
    # two types with different indexes and identical attributes: a change between them alters nothing
    z = T.TZif(2, [-2000000000, 1000000, 2000000, 3000000, 4000000, 5000000, 6000000, 7000000], [1, 2, 3, 1, 1, 2, 1, 3],
               [(0, False, 0), (3600, False, 4), (7200, True, 8), (3600, False, 4)], b'LMT\0XST\0XDT\0', b'')
    out.append(Zone('syn/duplicate-types', T.write(z), 'synthetic'))
    z = T.TZif(2, [-2000000000, 1000000, 2000000, 3000000], [1, 2, 3, 2],
               [(0, False, 0), (3600, False, 4), (7200, True, 8), (3600, False, 4)], b'LMT\0XST\0XDT\0', b'XST-1XDT,M3.5.0,M10.5.0')
    out.append(Zone('syn/duplicate-types-rule', T.write(z), 'synthetic'))
    # fat files repeat a type record (the copies differ in the isstd/isut indicators only): the last transition uses the LATER
    # twin and the footer is standard time only
    z = T.TZif(2, [-1830383032, 1514768400, 1546304400], [1, 2, 3], [(1616, False, 0), (0, False, 4), (3600, False, 8), (0, False, 4)], b'LMT\0GMT\0WAT\0', b'GMT0')
    out.append(Zone('syn/twin-types-std-footer', T.write(z, indicators=True), 'synthetic'))
    z = T.TZif(2, [-1830383032, 1514768400, 1546304400], [3, 2, 1], [(1616, False, 0), (0, False, 4), (3600, False, 8), (0, False, 4)], b'LMT\0GMT\0WAT\0', b'GMT0')
    out.append(Zone('syn/twin-types-std-footer-first', T.write(z), 'synthetic'))
    # a last transition a few seconds after the epoch whose offset has a larger seconds part (the civil second shown at
    # the transition has a seconds field beyond the transition's own unix time)
    z = T.TZif(2, [10], [1], [(0, False, 0), (45, False, 4)], b'AAA\0BBB\0', b'BBB-0:00:45')
    out.append(Zone('syn/transition-at-10s-offset-45s', T.write(z), 'synthetic'))
    z = T.TZif(2, [-30, 50], [1, 2], [(0, False, 0), (-59, False, 4), (59, False, 8)], b'AAA\0BBB\0CCC\0', b'')
    out.append(Zone('syn/transitions-around-epoch-offsets-59s', T.write(z), 'synthetic'))
    # only type, no transitions
    z = T.TZif(2, [], [], [(3600, False, 0)], b'CET\0', b'CET-1')
    out.append(Zone('syn/notrans', T.write(z), 'synthetic'))
    return out


def rule_family(rng, n):
    """synthetic zones whose footers enumerate the boundary values of every date form (rotating by seed,
    the leap-day boundaries J59/J60/J61 and n58/59/60 always)"""
    always = [b'EST5EDT,J59/2,J305/2', b'EST5EDT,J60/2,J305/2', b'EST5EDT,J61/2,J305/2', b'EST5EDT,58/2,300/2', b'EST5EDT,59/2,300/2', b'EST5EDT,60/2,300/2',
              b'AEST-10AEDT,J305/2,J60/3', b'EST5EDT,J1/0,J365/23', b'EST5EDT,0/0,365/0' if False else b'EST5EDT,0/1,364/23', b'CET-1CEST,M2.5.0,M3.1.0/3', b'CET-1CEST,M1.1.0/0,M12.5.6/23',
              b'CET-1CEST,M2.4.3/25,M2.5.3/25', b'CET-1CEST,M3.5.0/-24,M10.5.0/-1', b'CET-1CEST,M12.5.0/26,M1.1.0/-2' if False else b'CET-1CEST,M3.1.1/167,M11.5.5/-100']
    # every month in both positions, second and last week, different weekdays (the month-offset tables)
    for a in range(1, 7):
        always.append(b'CET-1CEST,M%d.2.%d/24,M%d.2.%d/24' % (a, (a + 5) % 7, a + 6, (a + 5) % 7))
        always.append(b'CET-1CEST,M%d.5.%d/2,M%d.5.%d/3' % (a, a % 7, a + 6, (a + 2) % 7))
    pool = []
    for m in (1, 2, 3, 4, 5, 6, 7, 8, 9, 10, 11, 12):
        for w in (1, 2, 4, 5):
            for wd in (0, 1, 3, 6):
                pool.append(b'CET-1CEST,M%d.%d.%d/%d,M%d.%d.%d/%d' % (m if m < 7 else 3, w, wd, rng.choice([0, 1, 2, 24, 26]), m if m >= 7 else 10, rng.choice([1, 5]), (wd + 3) % 7, rng.choice([0, 3, 25, -1])))
    for j in (1, 2, 31, 32, 58, 62, 90, 181, 182):
        pool.append(b'EST5EDT,J%d/%d,J%d/%d' % (j, rng.choice([0, 2, 24]), rng.choice([200, 273, 304, 334, 365]), rng.choice([0, 2, 23])))
        pool.append(b'EST5EDT,%d/%d,%d/%d' % (j, rng.choice([0, 2, 24]), rng.choice([200, 273, 304, 334, 365]), rng.choice([0, 2, 23])))
    pick = always + rng.sample(pool, max(0, min(n - len(always), len(pool))))
    out = []
    for k, f in enumerate(pick):
        try:
            z = T.make_rule_zone(f, version=3, first_year=rng.choice([1996, 2000, 2023, 2037]), last_year=2037)
        except AssertionError:
            continue
        out.append(Zone('rule/%02d-%s' % (k, f.decode()), T.write(z), 'synthetic'))
    return out


def untame_zones():
    """well-formed files outside the `Tame` hypothesis of the theorems (see DESIGN.md findings F4/F7/F8/F9):
    the recorded transitions end centuries before 1970 although the footer has a DST rule, or lie
    near the ends of the int64 range"""
    out = []
    z = T.TZif(2, [], [], [(3600, False, 0)], b'CET\0', b'CET-1CEST,M3.5.0,M10.5.0/3')
    out.append(Zone('untame/notrans-rule', T.write(z), 'untame'))
    z = T.make_rule_zone(b'CET-1CEST,M3.5.0,M10.5.0/3', version=2, first_year=1200, last_year=1250, start_year=1100)
    out.append(Zone('untame/records-end-1250', T.write(z), 'untame'))
    # RFC 8536 allows a transition at the very first representable instant
    z = T.TZif(2, [I64MIN, -2208988800, 946684800], [1, 2, 1], [(-17762, False, 0), (-18000, False, 4), (-14400, True, 8)], b'LMT\0EST\0EDT\0', b'')
    out.append(Zone('untame/first-transition-at-int64-min', T.write(z), 'untame'))
    return out


LAST_YEAR = 292277026596      # the civil year of time_point<seconds>::max()


def edge_rule_zones():
    """zones whose footer rule puts an offset change of the last representable year within hours of
    time_point<seconds>::max() (292277026596-12-04 15:30:07 UTC = J338): the gap / overlap there is where pre, trans and
    post are clamped one by one"""
    out = []
    for std in (b'0', b'-5', b'3'):
        for h in (13, 15, 16, 18):
            f1 = b'XST%sXDT,J100/0,J338/%d' % (std, h)       # overlap near max()
            f2 = b'XST%sXDT,J338/%d,J60/0' % (std, h)        # gap near max()
            for f in (f1, f2):
                out.append(Zone('edge/' + f.decode(), T.write(T.make_rule_zone(f, version=2)), 'synthetic'))
    return out


def last_year_civils(zone):
    """civil seconds around the rule-generated changes of the last representable year"""
    res = set()
    if not zone.has_rule: return []
    for y in (LAST_YEAR, LAST_YEAR - 400):
        for t in zone.rule_instants(y):
            if abs(I64MAX - t) > 3 * 86400 and y == LAST_YEAR: continue
            for o in (zone.rule['std_offset'], zone.rule['dst_offset']):
                for d in (-2, -1, 0, 1, 2, 600, 900, 1799, 1800, 1801, 2700, 3598, 3599, 3600, 3601, 5400, 7200, -1800, -3600, -3601):
                    cs = C.civil_of_sec(t + o + d)
                    if C.in64(cs[0]): res.add(cs)
    return sorted(res)


def close_zones():
    """loadable files outside the `Separated` hypothesis of the C02/C03/C06 theorems (finding F23): the footer puts the end of
    daylight time one hour BEFORE its start on the same day, with a saving of two hours, so that two changes of two hours
    lie one hour apart and a civil second can be shown before the first and skipped by the second"""
    out = []
    for f in (b'AAA0BBB-2,J100/2,J100/3', b'XST-1XDT-3,M3.2.0/2,M3.2.0/3:30'):
        z = T.TZif(2, [946684800], [0], [(0, False, 0), (3600, True, 4)], b'AAA\0BBB\0', f)
        out.append(Zone('close/' + f.decode(), T.write(z), 'irregular'))
    return out


def rejected_zones():
    """well-formed TZif files that Load() must reject: two offset changes that cross in civil time
    (the civil second shown at the second change is not later than the one shown at the first), so that the
    civil-time index of the table would not be ordered.  On a tree that accepts them, MakeTime's
    answers depend on the hint (C14) and on nothing the documentation describes (C02/C03)."""
    out = []
    for k, (t0, gap, up) in enumerate([(1000000000, 1800, 3600), (1000000000, 3600, 7200), (86400 * 7000, 600, 1800), (-5000000, 3599, 3600)]):
        for footer in (b'', b'XST0'):
            z = T.TZif(2, [t0, t0 + gap, t0 + 40 * 86400], [1, 0, 1], [(0, False, 0), (up, True, 4)], b'XST\0XDT\0', footer)
            out.append(Zone('rejected/crossed-%d%s' % (k, '-footer' if footer else ''), T.write(z), 'rejected'))
    # a footer rule whose daylight period is shorter than its saving: the GENERATED transitions cross in civil time every year
    for f in (b'AAA0BBB,J100/2,J100/3:30', b'AAA0BBB-2,J100/2,J100/5', b'XST-1XDT-3,M3.2.0/2,M3.2.0/5:30'):
        z = T.TZif(2, [946684800], [0], [(0, False, 0), (3600, True, 4)], b'AAA\0BBB\0', f)
        out.append(Zone('rejected/generated-crossing-' + f.decode(), T.write(z), 'rejected'))
    # two transitions at the same instant: the table would not be strictly ordered by time
    z = T.TZif(2, [100000000, 200000000, 200000000, 300000000], [1, 2, 3, 1], [(0, False, 0), (3600, False, 4), (7200, False, 8), (10800, False, 12)], b'LMT\0AAA\0BBB\0CCC\0', b'')
    out.append(Zone('rejected/equal-times', T.write(z), 'rejected'))
    z = T.TZif(1, [100000000, 200000000, 200000000, 300000000], [1, 2, 3, 1], [(0, False, 0), (3600, False, 4), (7200, False, 8), (10800, False, 12)], b'LMT\0AAA\0BBB\0CCC\0', None)
    out.append(Zone('rejected/equal-times-v1', T.write(z), 'rejected'))
    return out


def irregular_zones():
    """well-formed files outside the `Regular` hypothesis of theorem C01Glue.lookup_follows_rule (finding F14): by
    negative rule times both rule instants "of" the year after the last recorded transition fall before that
    transition, so the 400-year window BreakTime shifts into starts inside the recorded part"""
    w = bytes.fromhex('545a69663200000000000000000000000000000000000000000000000000000000000002000000030000000c0000000047794a40000100001c20000000000000000400000e100108414141005853540058445400'
                      '545a69663200000000000000000000000000000000000000000000000000000000000002000000030000000c00000000000000000000000047794a40000100001c20000000000000000400000e100108414141005853540058445400'
                      '0a585354305844542c4a312f2d34382c4a322f2d33300a')
    return [Zone('irregular/rule-instants-before-last-record', w, 'irregular')]


def seam_zones():
    """a well-formed file outside the `SeamOK` hypothesis of the seam theorems (finding F15): by a negative rule time a
    rule instant belonging to rule-year L+1 lies inside civil year L (L = the last tabulated year); MakeTime, which
    shifts by civil year, answers the last hour of civil year L with the last table entry's offset, BreakTime, which
    shifts by instant, sees the change"""
    w = bytes.fromhex('545a69663200000000000000000000000000000000000000000000000000000000000000000000010000000400000000000055544300'
                      '545a696632000000000000000000000000000000000000000000000000000000000000010000000200000008000000003b9aca000000000e10000000001c2001045853540058445400'
                      '0a5853542d315844542c4a312f2d312c4a3138300a')
    # second variant: the END of daylight time of rule-year L+1 falls into the last hours of civil year L (J1/-3):
    # instants after it do not round-trip
    w2 = bytes.fromhex('545a69663200000000000000000000000000000000000000000000000000000000000000000000010000000400000000000055544300'
                       '545a696632000000000000000000000000000000000000000000000000000000000000010000000200000008000000003b9aca000000000e10000000001c2001045853540058445400'
                       '0a5853542d315844542c4a36302f302c4a312f2d330a')
    return [Zone('seam/rule-instant-of-next-year-inside-last-year', w, 'irregular'), Zone('seam/dst-end-of-next-year-inside-last-year', w2, 'irregular')]


def corpus(rng, n_real=None):
    real = [Zone(n, b, 'shipped') for n, b in T.shipped_zones()]
    real = [z for z in real if z.z is not None]
    if n_real is not None and n_real < len(real):
        must = [z for z in real if z.name in ('America/New_York', 'Australia/Lord_Howe', 'Europe/Lisbon', 'Africa/Monrovia',
                                              'Pacific/Apia', 'Asia/Kathmandu', 'Africa/Casablanca', 'Europe/Dublin', 'UTC', 'Asia/Tehran',
                                              'America/Nuuk', 'Asia/Gaza', 'Pacific/Chatham', 'Antarctica/Troll')]
        rest = [z for z in real if z not in must]
        real = must + rng.sample(rest, max(0, n_real - len(must)))
    return real + synthetic_zones() + rule_family(rng, 42 if n_real is not None else 140) + edge_rule_zones()


def probe_instants(zone, rng, per_transition=3, n_random=60, shifts=True):
    """instants concentrated where the property says: each transition ±k, first/last, the seam,
    rule instants of generated years, 400-year multiples to max(), both ends, ±2^59, ±2^31"""
    z = zone.z
    ts = set([I64MIN, I64MIN + 1, I64MAX, I64MAX - 1, -2**59, -2**59 - 1, -2**59 + 1, 2**59, -2**31, 2**31 - 1, 2**31, 0, -1,
              I64MIN + 86400, I64MAX - 86400])
    times = z.times
    pick = times if len(times) * 5 <= 400 else ([times[0], times[-1]] + rng.sample(times, 78))
    for t in pick:
        for k in rng.sample([0, -1, 1, 2, -2, 59, -59, 3600, -3600, 86400], per_transition) + [0, -1]:
            ts.add(t + k)
    if times:
        ts.update([times[0] - 1, times[0], times[-1] - 1, times[-1], times[-1] + 1])
    if zone.has_rule:
        ly = zone.last_year()
        nl = ly + (-ly) % 4                       # next leap year (unless a non-400 century)
        c100 = ly + (-ly) % 100; c400 = ly + (-ly) % 400
        years = [ly, ly + 1, ly + 2, nl, nl + 4, c100, c100 + 100, c400, ly + 399, ly + 400, ly + 401] + rng.sample(range(ly, ly + 402), 10)
        years = [y for y in years if ly <= y <= ly + 402]
        for y in years:
            for t in zone.rule_instants(y):
                for k in (0, -1, 1):
                    ts.add(t + k)
                    if shifts:
                        for m in (1, 2, rng.randrange(3, 700000000), (I64MAX - t) // K400, (I64MAX - t) // K400 - 1):
                            ts.add(t + k + m * K400)
        last_gen = max(zone.rule_instants(ly + 401))
        ts.update([last_gen - 1, last_gen, last_gen + 1, last_gen + K400 - 1, last_gen + K400, last_gen + K400 + 1])
        # the turn of the last tabulated year, where the instant shift of lookup(t) and the civil-year shift of lookup(cs) meet
        for y in (ly + 402, ly + 802):
            base = C.day_num(y, 1, 1) * 86400
            ts.update(base + k * 600 for k in range(-30, 31))
            for t in zone.rule_instants(y): ts.update([t - 1, t, t + 1, t + 1800])
    for _ in range(n_random):
        r = rng.random()
        if r < 0.5: ts.add(rng.randrange(-2**32, 2**33))
        elif r < 0.8: ts.add(rng.randrange(-2**40, 2**40))
        else: ts.add(rng.randrange(I64MIN, I64MAX + 1))
    return sorted(t for t in ts if I64MIN <= t <= I64MAX)


def civil_probes(zone, rng, n_random=40):
    """civil seconds: every gap and overlap of (a sample of) the changes second by second at the
    edges, their neighbours, before the first / after the last, rule years, shifted years, extremes"""
    out = set()
    seam = []
    if zone.has_rule:
        L = zone.last_year() + 401                # the last tabulated year: MakeTime shifts civil years after it
        ch = zone.change_instants(extra_years=(L + 1, L + 2))
        # the turn of the year L / L+1 (and one 400-year cycle later), every ten minutes for four hours either side
        for y in (L + 1, L + 401):
            base = C.day_num(y, 1, 1) * 86400
            seam += [base + k * 600 for k in range(-24, 25)] + [base - 1, base + 1]
        tail = [t for t in ch if t > zone.rule_instants(L)[0] - 86400]
    else:
        ch = zone.change_instants(); tail = []
    pick = ch if len(ch) <= 60 else ([ch[0], ch[-1]] + tail[-6:] + rng.sample(ch, 52))
    for t in pick:
        ob = zone.offset_at(t - 1)[0]; oa = zone.offset_at(t)[0]
        lo, hi = sorted((t + ob, t + oa))
        pts = set([lo - 2, lo - 1, lo, lo + 1, hi - 2, hi - 1, hi, hi + 1, (lo + hi) // 2])
        if hi - lo <= 7200 and rng.random() < 0.15:
            pts.update(range(lo - 1, hi + 2, max(1, (hi - lo) // 120)))
        else:
            for _ in range(6): pts.add(rng.randrange(lo - 3, hi + 4))
        for x in pts:
            out.add(x)
            if zone.has_rule and t >= (zone.z.times[-1] if zone.z.times else 0) and rng.random() < 0.3:
                out.add(x + rng.choice([1, 2, 17, (I64MAX - x) // K400 - 1, (I64MAX - x) // K400]) * K400)
    for _ in range(n_random):
        out.add(rng.randrange(-2**33, 2**34))
    out.update(seam)
    res = []
    for x in out:
        cs = C.civil_of_sec(x)
        if C.in64(cs[0]): res.append(cs)
    res += [(I64MAX, 12, 31, 23, 59, 59), (I64MIN, 1, 1, 0, 0, 0), (I64MAX, 1, 1, 0, 0, 0), (I64MIN, 12, 31, 23, 59, 59),
            (292277026596, 12, 4, 15, 30, 7), (292277026596, 12, 4, 15, 30, 8), (292277026596, 12, 5, 15, 30, 7), (292277026596, 12, 3, 15, 30, 7),
            (-292277022657, 1, 27, 8, 29, 52), (-292277022657, 1, 27, 8, 29, 51), (-292277022657, 1, 26, 8, 29, 52), (-292277022657, 1, 28, 8, 29, 52),
            (292277026597, 1, 1, 0, 0, 0), (-292277022658, 1, 1, 0, 0, 0)]
    res += last_year_civils(zone)
    # year boundaries and the leap-day neighbourhood in years around the 400-year cycle seams, negative years included
    for y in (-800, -799, -401, -400, -399, -398, -1, 0, 1, 399, 400, 401, 1600, 1999, 2000, 2001, rng.randrange(-5000, 5000) * 400 - 399, rng.randrange(-5000, 5000)):
        res += [(y - 1, 12, 31, 23, 59, 59), (y, 1, 1, 0, 0, 0), (y, 1, 31, 12, 0, 0), (y, 2, 28, 23, 59, 59), (y, 3, 1, 0, 0, 0), (y, 12, 31, 23, 59, 59)]
    return sorted(set(res))
