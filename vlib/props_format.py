"""Checks C07 (format→parse round trip), C08 (format renders what lookup reports), C09 (parse)."""
import re
import concurrent.futures
from .common import (align_zone_lines, Check, canon, ub_site, enclosing_function, run_lines, I64MIN, I64MAX, NCPU)
from . import civil as C
from . import zones as Z
from . import tzif as T
from . import cfmt
from .fmtrun import run_model_fmt, unhex
from .props_zone import site_sig, CivilOracle, clamp
from .props_fixed import spec_abbr, spec_name

THEOREMS = {'C07': ['Cctz.C07.int_roundtrip', 'Cctz.C07.field2_roundtrip', 'Cctz.C07.offset_roundtrip', 'Cctz.C07.offset_24h_counterexample',
                    'Cctz.C07.fraction_roundtrip', 'Cctz.C07.percent_s_roundtrip', 'Cctz.C07Whole.full_roundtrip',
                    'Cctz.C07Class.class_roundtrip', 'Cctz.C07Class.class_roundtrip_ext', 'Cctz.C07Class.class_roundtrip_s', 'Cctz.C07Class.lossless_iff',
                    'Cctz.C07Class.class_text', 'Cctz.C07Class.percent_s_drops_fraction', 'Cctz.C07Class.follow_needs_nondigit_after_leading_e',
                    'Cctz.C07Class.offset_partial_group_does_not_leak'],
            'C08': ['Cctz.C08.constants', 'Cctz.C08.format64', 'Cctz.C08.format64_year4', 'Cctz.C08.format02d', 'Cctz.C08.formatOffset', 'Cctz.C08.literal',
                    'Cctz.C08.percent', 'Cctz.C08.rfc3339', 'Cctz.C08.format_safe',
                    'Cctz.C08Lex.toTM', 'Cctz.C08Lex.format_follows_spec', 'Cctz.C08Lex.format_ok'],
            'C09': ['Cctz.C09.constants', 'Cctz.C09.parseInt_spec', 'Cctz.C09.parseInt_counterexample', 'Cctz.C09.field_ranges', 'Cctz.C09.subseconds',
                    'Cctz.C09.offset', 'Cctz.C09.percent_s', 'Cctz.C09.parse_safe',
                    'Cctz.C09Denote.consumed', 'Cctz.C09Denote.percent_s', 'Cctz.C09Denote.date_exists', 'Cctz.C09Denote.instant_offset', 'Cctz.C09Denote.instant_zone',
                    'Cctz.C09Denote.subseconds', 'Cctz.C09Denote.offset_complete', 'Cctz.C09Denote.out_of_range', 'Cctz.C09Denote.zone_complete', 'Cctz.C09Denote.instant_general',
                    'Cctz.C09Denote.no_flags', 'Cctz.C09Denote.no_flags_final', 'Cctz.C09Denote.seconds_le_60', 'Cctz.C09Denote.week_instant', 'Cctz.C09Denote.seconds_61_rejected',
                    'Cctz.C09Denote.seconds_61_no_overflow', 'Cctz.C09Denote.date_exists_needs_no_percent_s']}
hx = Z.hx


class FZ:
    """a zone for format/parse ops: oracle access + the line that defines it"""
    def __init__(self, zid, line, offset_at, name):
        self.zid = zid; self.line = line; self.offset_at = offset_at; self.name = name


def make_zones(rng, n_real):
    out = []
    names = ['America/New_York', 'Australia/Lord_Howe', 'Asia/Kathmandu', 'Africa/Monrovia', 'Europe/Dublin', 'Pacific/Apia', 'UTC', 'Europe/Amsterdam', 'Asia/Tehran']
    shipped = dict(T.shipped_zones())
    pick = [n for n in names if n in shipped][:n_real]
    for i, n in enumerate(pick):
        z = Z.Zone(n, shipped[n], 'shipped')
        out.append(FZ('r%d' % i, 'zone r%d loose %s' % (i, hx(z.data)), z.offset_at, n))
    for i, z in enumerate(Z.synthetic_zones()[:1] + [z for z in Z.synthetic_zones() if 'LMT0:01' in z.name or 'IST' in z.name]):
        out.append(FZ('s%d' % i, 'zone s%d loose %s' % (i, hx(z.data)), z.offset_at, z.name))
    for off in (0, 3600, -86399, 19800, -45, 86400, -86400, 45296):
        eff = off if abs(off) <= 86400 else 0
        out.append(FZ('f%d' % (off % 100000), 'fixzone f%d %d' % (off % 100000, off), (lambda t, e=eff, o=off: (e, False, spec_abbr(o))), 'fixed%+d' % off))
    return out


def run_fmt_blocks(chk, exe, blocks, label):
    groups = [[] for _ in range(min(NCPU, max(1, len(blocks))))]
    sizes = [0] * len(groups)
    for bi in sorted(range(len(blocks)), key=lambda i: -len(blocks[i])):
        g = sizes.index(min(sizes)); groups[g].append(bi); sizes[g] += len(blocks[bi])
    def work(g):
        lines = []; starts = []
        for bi in g:
            starts.append(len(lines)); lines.extend(blocks[bi])
        if not lines: return [], []
        m, i = run_model_fmt(lines), run_lines(exe, lines, block_starts=starts)
        align_zone_lines(m, i)
        return m, i
    mo = [None] * len(blocks); io = [None] * len(blocks)
    with concurrent.futures.ThreadPoolExecutor(max_workers=len(groups)) as ex:
        for g, (m, i) in zip(groups, ex.map(work, groups)):
            p = 0
            for bi in g:
                n = len(blocks[bi]); mo[bi] = m[p:p + n]; io[bi] = i[p:p + n]; p += n
    n = sum(len(b) for b in blocks)
    chk.cov['evaluations'] += n; chk.cov['traces_validated_against_impl'] += n
    chk.count(label + ':ops', n)
    k = 0
    for b, m, i in zip(blocks, mo, io):
        for l, a, c in zip(b, m, i):
            if canon(c) != a:
                k += 1
                if len([x for x in chk.broken if x.startswith('correspondence')]) < 15:
                    chk.broken.append('correspondence: op `%s` model=`%s` implementation=`%s`' % (l[:150], a[:160], c[:160]))
    chk.count(label + ':mismatch', k)
    return mo, io


# ---------------------------------------------------------------------------------- documented renderings

def fmt_offset(off, mode):
    """mode: 'z' +hhmm | ':' +hh:mm | '*' +hh:mm:ss | ':::' minimal"""
    sign = '-' if off < 0 else '+'
    a = abs(off); h, m, s = a // 3600, a // 60 % 60, a % 60
    if mode == 'z':
        if h == 0 and m == 0: sign = '+'
        return '%s%02d%02d' % (sign, h, m)
    if mode == ':':
        if h == 0 and m == 0: sign = '+'
        return '%s%02d:%02d' % (sign, h, m)
    if mode == '*': return '%s%02d:%02d:%02d' % (sign, h, m, s)
    if s: return '%s%02d:%02d:%02d' % (sign, h, m, s)
    if m: return '%s%02d:%02d' % (sign, h, m)
    if h == 0: sign = '+' if True else sign
    return '%s%02d' % (sign if (h or off >= 0) else '+', h)


def year_str(y, width=0):
    s = '%0*d' % (width if y >= 0 else max(width - 1, 0), abs(y))
    return ('-' + s) if y < 0 else s


def week_num(cs, start_monday):
    y, m, d = cs[0], cs[1], cs[2]
    yd = C.yearday(y, m, d) - 1
    wd = C.weekday(y, m, d)             # Monday = 0
    wday = wd if start_monday else (wd + 1) % 7   # days since week start
    return (yd + 7 - wday) // 7


def frac_digits(fs, n):
    """n digits of the fraction, truncated"""
    if n <= 15: return '%0*d' % (n, fs // 10**(15 - n))
    return '%0*d' % (n, fs * 10**(n - 15))


LIB = ['%Y', '%m', '%d', '%e', '%H', '%M', '%S', '%z', '%Z', '%s', '%%', '%Ez', '%E*z', '%:z', '%::z', '%:::z', '%E*S', '%E*f', '%E4Y', '%ET', '%U', '%W', '%u', '%w',
       '%E0S', '%E1S', '%E3S', '%E6S', '%E9S', '%E15S', '%E18S', '%E25S', '%E1f', '%E3f', '%E9f', '%E15f', '%E17f', '%E0f']
OTHER = ['%a', '%A', '%b', '%B', '%c', '%C', '%D', '%F', '%g', '%G', '%h', '%I', '%j', '%k', '%l', '%n', '%p', '%r', '%R', '%t', '%T', '%V', '%x', '%X', '%y',
         '%Ec', '%EC', '%Ex', '%EX', '%Ey', '%EY', '%Od', '%Oe', '%OH', '%OI', '%Om', '%OM', '%OS', '%Ou', '%OU', '%OV', '%Ow', '%OW', '%Oy']
LITS = [b' ', b'-', b':', b'T', b'/', b'lit', b'\xc3\xa9', b'E', b'.', b',', b'at ', b'Z', b'%%']


def render_lib(tok, cs, off, abbr, t, fs):
    y, m, d, hh, mm, ss = cs
    if tok == '%Y': return year_str(y)
    if tok == '%m': return '%02d' % m
    if tok == '%d': return '%02d' % d
    if tok == '%e': return '%2d' % d
    if tok == '%H': return '%02d' % hh
    if tok == '%M': return '%02d' % mm
    if tok == '%S': return '%02d' % ss
    if tok == '%z': return fmt_offset(off, 'z')
    if tok == '%Z': return abbr.decode('latin1')
    if tok == '%s': return str(t)
    if tok == '%%': return '%'
    if tok in ('%Ez', '%:z'): return fmt_offset(off, ':')
    if tok in ('%E*z', '%::z'): return fmt_offset(off, '*')
    if tok == '%:::z': return fmt_offset(off, ':::')
    if tok == '%E4Y': return year_str(y, 4)
    if tok == '%ET': return 'T'
    if tok == '%U': return '%02d' % week_num(cs, False)
    if tok == '%W': return '%02d' % week_num(cs, True)
    if tok == '%u': return str(C.weekday(y, m, d) + 1)
    if tok == '%w': return str((C.weekday(y, m, d) + 1) % 7)
    if tok in ('%E*S', '%E*f'):
        fr = ('%015d' % fs).rstrip('0')
        if tok == '%E*S': return '%02d' % ss + ('.' + fr if fr else '')
        return fr if fr else '0'
    if tok.startswith('%E') and tok[-1] in 'Sf':
        n = min(int(tok[2:-1]), 18)
        fr = frac_digits(fs, n) if n > 0 else ''
        if tok[-1] == 'S': return '%02d' % ss + ('.' + fr if n > 0 else '')
        return fr
    raise KeyError(tok)


def tm_of(cs, dst):
    y, m, d, hh, mm, ss = cs
    ty = y - 1900
    ty = max(min(ty, 2**31 - 1), -2**31)
    return [ss, mm, hh, d, m - 1, ty, (C.weekday(y, m, d) + 1) % 7, C.yearday(y, m, d) - 1, 1 if dst else 0]


def expected_format(tokens, cs, off, dst, abbr, t, fs):
    """documented rendering of a token list (well-formed formats only)"""
    out = b''
    tm = tm_of(cs, dst)
    for tok in tokens:
        if isinstance(tok, bytes):
            out += tok.replace(b'%%', b'%')
        elif tok in LIB:
            out += render_lib(tok, cs, off, abbr, t, fs).encode('latin1')
        else:
            out += cfmt.format_tm(tok.encode(), tm)
    return out


def gen_tokens(rng, n):
    toks = []
    for _ in range(n):
        r = rng.random()
        if r < 0.5: toks.append(rng.choice(LIB))
        elif r < 0.7: toks.append(rng.choice(OTHER))
        else: toks.append(rng.choice(LITS))
    return toks


def join_tokens(toks):
    return b''.join(t if isinstance(t, bytes) else t.encode() for t in toks)


def gen_malformed(rng):
    parts = []
    for _ in range(rng.randrange(1, 6)):
        r = rng.random()
        if r < 0.3: parts.append(rng.choice([b'%', b'%E', b'%E*', b'%:', b'%::', b'%:::', b'%E4', b'%O', b'%E1', b'%E*x', b'%:x', b'%::x', b'%:::x', b'%%%', b'%%%%%']))
        elif r < 0.45: parts.append(b'%E' + bytes(rng.choice(b'0123456789') for _ in range(rng.choice([1, 2, 4, 5, 10, 11, 19, 20, 100, 2000]))) + rng.choice([b'S', b'f', b'', b'x', b'%']))
        elif r < 0.6: parts.append(join_tokens(gen_tokens(rng, 2)))
        elif r < 0.7: parts.append(b'\x00' + rng.choice([b'', b'%Y', b'x']))
        elif r < 0.85: parts.append(bytes(rng.choice(b'%E*:zSfYmd0123456789 ' + bytes([0x80, 0xff, 0x01])) for _ in range(rng.randrange(1, 12))))
        else: parts.append(bytes(rng.randrange(256) for _ in range(rng.randrange(1, 8))))
    return b''.join(parts)


# instants whose civil year sits at the saturation boundaries of tm_year (year - 1900 vs INT_MAX / INT_MIN)
TM_YEAR_EDGES = [C.day_num(y, 6, 15) * 86400 + 43200 for y in (2147483647, 2147483648, 2147483747, 2147485546, 2147485547, 2147485548, 2147485549,
                                                                 -2147483648, -2147483649, -2147481748, -2147481749, -2147481747, 1899, 1900, 1901, 0, -1)]


def pick_instant(rng):
    r = rng.random()
    if r < 0.06: return rng.choice(TM_YEAR_EDGES) + rng.randrange(-40000000, 40000000)
    if r < 0.4: return rng.randrange(-2**32, 2**33)
    if r < 0.5: return rng.choice([0, -1, 1, I64MIN, I64MAX, I64MIN + 1, I64MAX - 1, -62135596800, -62167219200, 253402300799, 253402300800, -2**59, 2**59])
    if r < 0.7: return rng.randrange(-2**45, 2**45)
    return rng.randrange(I64MIN, I64MAX + 1)


def pick_fs(rng):
    r = rng.random()
    if r < 0.3: return 0
    if r < 0.5: return rng.choice([1, 999999999999999, 500000000000000, 123456789000000, 100000000000000, 10, 999999999999990, 1000000])
    k = rng.randrange(1, 16)
    return rng.randrange(10**k) * 10**(15 - k)


# ---------------------------------------------------------------------------------- C08

def run_C08(chk):
    chk.prepare_model(['Cctz.Properties.C08', 'Cctz.Properties.C08Lex'], THEOREMS['C08'])
    exe = chk.harness('san')
    scale = chk.tier if not (chk.broken or chk.degraded) else 'thorough'
    if exe is None or not getattr(chk, 'driver_ok', False):
        return chk.finish()
    rng = chk.rng
    zones = make_zones(rng, 6 if scale == 'quick' else 9)
    per = 6000 if scale == 'quick' else 60000
    blocks = []; meta = []
    for z in zones:
        b = [z.line]; m = [None]
        for _ in range(per):
            t = pick_instant(rng); fs = pick_fs(rng)
            if rng.random() < 0.7:
                toks = gen_tokens(rng, rng.randrange(1, 8))
                f = join_tokens(toks)
                m.append(('wf', toks, t, fs))
            else:
                f = gen_malformed(rng)
                m.append(('mal', f, t, fs))
            b.append('fmt %s %d %d %s' % (z.zid, t, fs, hx(f)))
        blocks.append(b); meta.append(m)
    mo, io = run_fmt_blocks(chk, exe, blocks, 'format')
    good = 0
    for z, b, m, out in zip(zones, blocks, meta, io):
        for l, mm, o in zip(b[1:], m[1:], out[1:]):
            if o.startswith('UB') or o.startswith('CRASH'):
                chk.report('format(%r, t=%d) in %s is undefined behaviour: %s' % (unhex(l.split()[4]), mm[2], z.name, o), {'op': l, 'zone': z.name, 'implementation': o}, sig='format %s' % site_sig(o))
                continue
            kind, toks, t, fs = mm
            chk.count('formats:' + kind)
            if kind == 'mal':
                good += 1; continue
            off, dst, abbr = z.offset_at(t)
            cs = C.civil_of_sec(t + off)
            want = 'F ' + hx(expected_format(toks, cs, off, dst, abbr, t, fs))
            if o != want:
                chk.report('format(%r, t=%d, fs=%d) in %s = %r; documented rendering of what lookup reports is %r' % (join_tokens(toks), t, fs, z.name, unhex(o[2:]), unhex(want[2:])),
                           {'op': l, 'zone': z.name, 'implementation': o, 'specification': want}, sig='format value')
            else:
                good += 1
    # the public format<D>() template: every digit of a time_point finer than a nanosecond reaches the text
    from .common import correspond
    from .props_split import subapi_want
    sl = []; sm = []
    for D in (10**15, 10**9, 10**6, 3):
        nd = len(str(D)) - 1
        cs_ = [1, -1, D - 1, -(D - 1), 123456789012345 % D, D + 1] + [rng.randrange(-3 * D, 3 * D) for _ in range(30)]
        for k in range(nd):
            for _ in range(3): cs_.append(rng.randrange(-3, 4) * D + rng.choice([-1, 1]) * rng.randrange(1, 1000) * 10**k)
        for c in cs_:
            if I64MIN <= c <= I64MAX: sl.append('subapi 1 %d %d i64' % (D, c)); sm.append((D, c))
    smo, sio, smism = correspond(chk, sl, exe, 'format-template')
    for i, (D, c) in enumerate(sm):
        want = subapi_want(1, D, c)
        if want is not None and sio[i] != want:
            chk.report('format("%%Y-%%m-%%d %%H:%%M:%%E*S|%%E15S|%%E12f|%%E3S|%%s") of a time_point of %d ticks of 1/%d s gives %r; the documented rendering is %r' % (c, D, unhex(sio[i].split(' | ')[-1]) if ' | ' in sio[i] else sio[i], unhex(want.split(' | ')[-1])),
                       {'op': sl[i], 'implementation': sio[i], 'model': smo[i], 'specification': want}, sig='format template')
        else: good += 1
    for i in smism[:10]:
        chk.broken.append('correspondence: op `%s` model=`%s` implementation=`%s`' % (sl[i], smo[i], sio[i]))
    chk.cov['distinct_nontrivial'] = good
    chk.cov['rule'] = ('per zone (shipped, synthetic sub-minute/>=24h-rule, fixed offsets incl. +-24h and sub-minute): format strings that are sequences over the library-defined specifiers, other strftime specifiers and literal text '
                       '(70%), and malformed strings (dangling %, %E, %E*, %:, %::, digit runs of 1-2000, embedded NUL, bytes >= 0x80; 30%) x instants over all of int64 x femtoseconds with 0-15 significant digits; '
                       'implementation (ASan+UBSan) vs model (strftime runs evaluated with the real strftime under the 16x buffer cap) and, for well-formed strings, vs the documented rendering written independently; '
                       'non-trivial = calls that matched')
    chk.assumptions.append('strftime is a parameter of the model; the comparer evaluates it with the C library of this host in the C locale')
    chk.sample({'zone': zones[0].name, 'op': blocks[0][1], 'model': mo[0][1], 'implementation': io[0][1]})
    return chk.finish()


# ---------------------------------------------------------------------------------- C07

DATE_FORMS = [['%Y', '-', '%m', '-', '%d'], ['%d', '/', '%m', '/', '%Y'], ['%Y', ' ', '%b', ' ', '%d'], ['%a', ' ', '%Y', '-', '%m', '-', '%d'],
              ['%Y', ' ', '%U', ' ', '%w'], ['%Y', ' ', '%W', ' ', '%u'], ['%Y', '-', '%m', '-', '%e'], ['%E4Y', '-', '%m', '-', '%d'], ['%Y', ' ', '%B', ' ', '%d', ' ', '%A'],
              ['%m', '/', '%d', ' ', '%Y'], ['%Y', '.', '%U', '.', '%a'],
              # a redundant week number ahead of the month / day-of-month fields: every later %m, %d or %e cancels it (seeded change C07O)
              ['%Y', '-', '%m', ' (week ', '%U', ') ', '%e'], ['%Y', ' w', '%W', ' ', '%m', '-', '%d'], ['%Y', '-', '%m', ' wk', '%W', ' ', '%d'], ['%Y', ' ', '%U', ' ', '%e', '.', '%m']]
TIME_FORMS = [['%H', ':', '%M', ':', '%E*S'], ['%H', ':', '%M', ':', '%S', '.', '%E*f'], ['%H', '%M', ' ', '%E15S'], ['%I', ':', '%M', ':', '%E*S', ' ', '%p'], ['%H', 'h', '%M', 'm', '%S', 's', '%E15f'],
              ['%H', ':', '%M', ':', '%E18S'], ['%H', '%M', ' ', '%E16S'], ['%H', ':', '%M', ':', '%S', ',', '%E17f'], ['%H', ':', '%M', ':', '%E25S'],
              ['%p', ' ', '%I', ':', '%M', ':', '%E*S'], ['%p', '%I', '%M', ' ', '%E15S']]
OFF_FORMS = [['%E*z'], ['%::z']]
SEPS = ['T', ' ', '%ET', ' at ']


def gen_lossless(rng, off_has_seconds):
    d = rng.choice(DATE_FORMS); tm = rng.choice(TIME_FORMS)
    if rng.random() < 0.12:
        # a width-limited day field directly followed by the hour field (no separator)
        d = rng.choice([['%Y', '-', '%m', '%e'], ['%Y', '-', '%m', '-', '%e'], ['%Y', '%m', '%d'] if False else ['%Y', '-', '%m', '%d']])
        tm = rng.choice([t for t in TIME_FORMS if t[0] == '%H'])
        o = rng.choice(OFF_FORMS)
        return [t for t in d + tm + o if t != '']
    o = rng.choice(OFF_FORMS if off_has_seconds or rng.random() < 0.6 else [['%Ez'], ['%z'], ['%:z']])
    parts = [d, [rng.choice(SEPS)], tm, [rng.choice(['', ' '])], o]
    if rng.random() < 0.2: parts = [o, [' '], d, [' '], tm]
    if rng.random() < 0.15: parts.append([' ', '%Z'])
    return [t for p in parts for t in p if t != '']


def run_C07(chk):
    chk.prepare_model(['Cctz.Properties.C07', 'Cctz.Properties.C07Whole', 'Cctz.Properties.C07Class'], THEOREMS['C07'])
    exe = chk.harness('san')
    scale = chk.tier if not (chk.broken or chk.degraded) else 'thorough'
    if exe is None or not getattr(chk, 'driver_ok', False):
        return chk.finish()
    rng = chk.rng
    zones = make_zones(rng, 6 if scale == 'quick' else 9)
    per = 4000 if scale == 'quick' else 50000
    blocks = []; meta = []
    for z in zones:
        b = [z.line]; m = [None]
        for _ in range(per):
            t = pick_instant(rng); fs = pick_fs(rng)
            off = z.offset_at(t)[0]
            rr = rng.random()
            if rr < 0.1:
                toks = ['%s']; fs = 0
            elif rr < 0.11:
                toks = ['%s', '.', '%E*f']                      # every bit of the instant is in the text (finding F18)
            elif rr < 0.12:
                toks = ['%e', '%H', ':', '%M', ':', '%E*S', '%E*z', ' ', '%Y', '-', '%m']     # day first, directly followed by the hour (finding F19)
            else:
                toks = gen_lossless(rng, off % 60 != 0)
                y = C.civil_of_sec(t + off)[0]
                if '%E4Y' in toks and not (-999 <= y <= 9999): toks = ['%Y' if x == '%E4Y' else x for x in toks]
            f = join_tokens([x.encode() if not x.startswith('%') else x for x in toks])
            b.append('fmt %s %d %d %s' % (z.zid, t, fs, hx(f))); m.append((toks, f, t, fs))
        blocks.append(b); meta.append(m)
    mo, io = run_fmt_blocks(chk, exe, blocks, 'format')
    # parse what the implementation formatted, in a different zone (any zone must do: the offset is in the text)
    blocks2 = []; meta2 = []
    for zi, (z, b, m, out) in enumerate(zip(zones, blocks, meta, io)):
        other = zones[(zi + 3) % len(zones)]
        b2 = [z.line] + ([other.line] if other.zid != z.zid else []); m2 = [None] * len(b2)
        for l, mm, o in zip(b[1:], m[1:], out[1:]):
            if not o.startswith('F '):
                chk.report('format gives %s' % o, {'op': l, 'implementation': o}, sig='format %s' % site_sig(o)); continue
            b2.append('parse %s %s %s' % (other.zid, hx(mm[1]), o[2:])); m2.append((mm, unhex(o[2:]), z))
        blocks2.append(b2); meta2.append(m2)
    mo2, io2 = run_fmt_blocks(chk, exe, blocks2, 'parse')
    good = 0
    for b2, m2, out in zip(blocks2, meta2, io2):
        for l, mm, o in zip(b2, m2, out):
            if mm is None: continue
            (toks, f, t, fs), text, z = mm
            want = 'ok %d %d' % (t, fs)
            chk.count('roundtrip:' + ('%s' if toks == ['%s'] else ('week' if ('%U' in toks or '%W' in toks) else ('names' if ('%b' in toks or '%B' in toks) else 'numeric'))))
            if o != want:
                sig = 'roundtrip'
                off = z.offset_at(t)[0]
                if abs(off) == 86400: sig = 'roundtrip offset of exactly 24h'
                elif toks[:1] == ['%s'] and len(toks) > 1 and fs != 0 and o == 'ok %d 0' % t: sig = 'roundtrip %s with a fraction: fraction dropped'
                elif toks[:2] == ['%e', '%H'] and text[:1] == b' ': sig = 'roundtrip leading %e before a digit field'
                elif '%e' in toks and text.find(b'- ') >= 0: sig = 'roundtrip %e leading space'
                chk.report('parse(%r, format(%r, t=%d, fs=%d, %s) = %r) = `%s`, expected the original instant `%s`' % (f, f, t, fs, z.name, text, o, want),
                           {'ops': ['fmt %s %d %d %s' % (z.zid, t, fs, hx(f)), l], 'zone': z.name, 'formatted': repr(text), 'implementation': o, 'expected': want}, sig=sig)
            else:
                good += 1
    chk.cov['distinct_nontrivial'] = good
    chk.cov['rule'] = ('(zone, instant over all of int64 incl. many-digit and negative years, femtoseconds with 0-15 significant digits, lossless format) with formats generated from: date as %Y-%m-%d / %d/%m/%Y / month and '
                       'weekday names / %U+%w / %W+%u / %e / %E4Y (in range); time with %E*S, %S.%E*f, %E15S, %I..%p; full-resolution offset %E*z or %::z (%Ez, %z, %:z only where the offset has no seconds); or %s; '
                       'format on the implementation, then parse of that text in a different zone must return exactly (t, fs); both calls also compared with the model; non-trivial = round trips that closed')
    chk.sample({'zone': zones[0].name, 'format_op': blocks[0][1], 'formatted': io[0][1], 'parse_op': blocks2[0][2][:160], 'parsed': io2[0][2]})
    return chk.finish()


# ---------------------------------------------------------------------------------- C09

FIELD_FORMS = [
    # (format, builder(fields) -> text)
    ('%Y-%m-%d %H:%M:%S', lambda f: '%s-%02d-%02d %02d:%02d:%02d' % (year_str(f[0]), f[1], f[2], f[3], f[4], f[5])),
    ('%Y-%m-%dT%H:%M:%S', lambda f: '%s-%02d-%02dT%02d:%02d:%02d' % (year_str(f[0]), f[1], f[2], f[3], f[4], f[5])),
    ('%d.%m.%Y %H:%M', lambda f: '%02d.%02d.%s %02d:%02d' % (f[2], f[1], year_str(f[0]), f[3], f[4])),
    ('%H:%M:%S %d/%m/%Y', lambda f: '%02d:%02d:%02d %02d/%02d/%s' % (f[3], f[4], f[5], f[2], f[1], year_str(f[0]))),
]
# near misses of the fractional-second readers: a decimal point without digits, a fraction without seconds, …
FRAC_CASES = [(b'%Y-%U-%w', b'4294967296-10-3'), (b'%Y-%U-%w', b'2147483648-01-1'), (b'%Y %W %u', b'-4294967297 30 7'), (b'%Y-%U-%w', b'100000000000-25-4'), (b'%Y-%W-%w', b'-2147483649-52-0'),
              (b'%Y-%U-%w', b'2024-09-4'), (b'%Y-%U-%w', b'-5-09-4'), (b'%Y-%W-%u', b'-401-01-1'), (b'%Y %U %a', b'2018 53 Mon'), (b'%Y %U %w', b'2017 0 0'),
              (b'%p %I:%M', b'PM 05:30'), (b'%p %I:%M', b'PM 12:15'), (b'%p %I:%M', b'AM 12:15'), (b'%Y-%m-%d %p %I:%M:%S', b'2013-06-28 PM 07:08:09'), (b'%p%I', b'PM11'), (b'%I %p', b'11 PM'), (b'%p %l', b'pm 7'),
              (b'%p %H:%M', b'PM 05:30'), (b'%H %p', b'05 PM'), (b'%p %OI', b'PM 05'),
              (b'%E*S', b'05.'), (b'%E3S', b'05.'), (b'%H:%M:%E*S', b'20:21:05.'), (b'%Y-%m-%d%ET%H:%M:%E*S%Ez', b'2014-02-12T20:21:05.+00:00'),
              (b'%Y-%m-%d%ET%H:%M:%E*S%Ez', b'2014-02-12T20:21:05.Z'), (b'%E*S', b'05.5'), (b'%E*S', b'05'), (b'%E*S', b'.5'), (b'%E*S', b'5.5'), (b'%E*f', b''),
              (b'%E*f', b'.'), (b'%E*f', b'123'), (b'%S.%E*f', b'05.'), (b'%S.%E*f', b'05.0'), (b'%E0S', b'05.'), (b'%E15S', b'59.999999999999999'), (b'%E15S', b'59.9999999999999999'),
              (b'%E*S', b'60.5'), (b'%E*S', b'61'), (b'%E*S', b'05.x'), (b'%E*S', b'05..5'), (b'%E2f', b'5x'), (b'%E*S %Ez', b'05. +01:00'), (b'%H%E*S', b'1205.'),
              (b'%E*z', b'+01:00:'), (b'%E*z', b'+01:'), (b'%Ez', b'+01:0'), (b'%z', b'+010'), (b'%Ez', b'+24:00'), (b'%Ez', b'-00:00:60'), (b'%E4Y', b'12345'), (b'%E4Y', b'-99'),
              (b'%m%e%H', b'03 123'), (b'%m/%e', b'3/ 12'), (b'%m/%e', b'3/ 31'), (b'%m%e%H%M', b'03 12345'), (b'%Y-%m%e%H', b'2013-03 123'), (b'%e%H', b' 123'),
              (b'%e%H', b'1123'), (b'%m%d%H', b'030123'), (b'%e %H', b' 1 23'), (b'%e', b'  1'), (b'%H%e', b'23 1'), (b'%E4Y', b'-0999'), (b'%Y', b'-0'), (b'%m', b'1'), (b'%m', b'-1'), (b'%d', b' 5'), (b'%e', b' 5'), (b'%e', b'  5'), (b'%e', b' 15'), (b'%H', b'24'), (b'%M', b'60'), (b'%S', b'60'), (b'%S', b'61')]


def run_C09(chk):
    chk.prepare_model(['Cctz.Properties.C09', 'Cctz.Properties.C09Denote'], THEOREMS['C09'])
    exe = chk.harness('san')
    scale = chk.tier if not (chk.broken or chk.degraded) else 'thorough'
    if exe is None or not getattr(chk, 'driver_ok', False):
        return chk.finish()
    rng = chk.rng
    shipped = dict(T.shipped_zones())
    zs = [Z.Zone(n, shipped[n], 'shipped') for n in ('America/New_York', 'Australia/Lord_Howe', 'UTC', 'Asia/Kathmandu') if n in shipped] + Z.synthetic_zones()[:2]
    per = 8000 if scale == 'quick' else 80000
    blocks = []; meta = []
    for zi, zn in enumerate(zs):
        orc = CivilOracle(zn)
        zid = 'p%d' % zi
        b = ['zone %s loose %s' % (zid, hx(zn.data))]; m = [None]
        for _ in range(per):
            r = rng.random()
            fmt, build = rng.choice(FIELD_FORMS)
            # chosen field values
            if rng.random() < 0.5:
                fields = list(C.valid_fields(rng, year=rng.choice([rng.randrange(1, 9999), rng.randrange(-3000, 12000), 1970, 2024])))
            else:
                # near a transition of the zone
                ch = orc.ch
                tch = rng.choice(ch) if ch else 0
                fields = list(C.civil_of_sec(tch + zn.offset_at(tch)[0] + rng.randrange(-7300, 7300)))
            use_off = rng.random() < 0.35
            kind = 'valid'
            f2 = list(fields)
            if r < 0.30:
                # one field pushed just outside its documented range / a non-existent date
                j = rng.choice([1, 2, 3, 4, 5] if '%S' in fmt else [1, 2, 3, 4])
                if j == 1: f2[1] = rng.choice([0, 13])
                elif j == 2: f2[2] = rng.choice([0, 32, C.dim(f2[0], f2[1]) + 1])
                elif j == 3: f2[3] = 24
                elif j == 4: f2[4] = 60
                else: f2[5] = 61
                if j == 2 and f2[2] <= 31 and 1 <= f2[2] <= C.dim(f2[0], f2[1]): f2[2] = 32
                kind = 'out-of-range'
            text = build(f2)
            fmt_b = fmt.encode()
            off = 0
            if use_off:
                off = rng.choice([0, 3600, -18000, 19800, -34200, 45296, -1, 86399, -86399]) if rng.random() < 0.7 else rng.randrange(-86399, 86400)
                form = rng.choice(['%Ez', '%z', '%E*z', '%:z', '%::z'])
                a = abs(off); sgn = '-' if off < 0 else '+'
                if form in ('%Ez', '%:z'): os_ = '%s%02d:%02d' % (sgn, a // 3600, a // 60 % 60); offv = (a // 60) * 60
                elif form == '%z': os_ = '%s%02d%02d' % (sgn, a // 3600, a // 60 % 60); offv = (a // 60) * 60
                else: os_ = '%s%02d:%02d:%02d' % (sgn, a // 3600, a // 60 % 60, a % 60); offv = a
                off = -offv if off < 0 else offv
                fmt_b += b' ' + form.encode(); text += ' ' + os_
            if kind == 'valid' and r > 0.85:
                # one character inserted / deleted / replaced; or whitespace added (harmless) 
                tb = bytearray(text.encode())
                q = rng.random()
                if q < 0.25: tb = bytearray(b'  ') + tb + bytearray(b' \t'); kind = 'valid'
                elif q < 0.5: tb.insert(rng.randrange(len(tb) + 1), rng.choice(b'0123456789x:-')); kind = 'edited'
                elif q < 0.75: del tb[rng.randrange(len(tb))]; kind = 'edited'
                else: tb[rng.randrange(len(tb))] = rng.choice(b'0123456789x:- '); kind = 'edited'
                text_b = bytes(tb)
            else:
                text_b = text.encode()
            if kind == 'valid' and fields[5] == 59 and rng.random() < 0.05 and '%S' in fmt:
                # ':60' rolls to the next minute
                text_b = text_b.replace(b':59', b':60', 1) if text_b.count(b':59') == 1 and fields[4] != 59 else text_b
                if b':60' in text_b: kind = 'leap'
            b.append('parse %s %s %s' % (zid, hx(fmt_b), hx(text_b))); m.append((kind, tuple(fields), use_off, off, fmt_b, text_b))
        # ':60' at the very end of a repeated civil hour (and around every overlap / gap): rolls to the next minute
        for tch in (orc.ch if len(orc.ch) <= 40 else rng.sample(orc.ch, 40)):
            ob = zn.offset_at(tch - 1)[0]; oa = zn.offset_at(tch)[0]
            for x in (tch + ob - 1, tch + oa - 1, tch + min(oa, ob) - 1 - 60, tch + max(oa, ob) - 1 + 60):
                fx = C.civil_of_sec(x)
                if fx[5] != 59 or not (1 <= fx[0] <= 9999): continue
                fmt, build = FIELD_FORMS[0]
                text_b = build(fx).encode()[:-2] + b'60'
                b.append('parse %s %s %s' % (zid, hx(fmt.encode()), hx(text_b))); m.append(('leap', tuple(fx), False, 0, fmt.encode(), text_b))
        # an offset followed by literal text that starts with a digit: an incomplete (one-digit) minutes / seconds group
        # belongs to the literal text and must not enter the offset (finding F17)
        for form, otxt, offv, lit in ((b'%Ez', b'+05:30', 19800, b'7x'), (b'%Ez', b'-05:30', -19800, b'7x'), (b'%z', b'+05', 18000, b'5q'), (b'%z', b'+0530', 19800, b'9'),
                                      (b'%:z', b'-11', -39600, b':4w'), (b'%E*z', b'+05:30', 19800, b':7'), (b'%E*z', b'+05:30:07', 19807, b'9y'), (b'%::z', b'-00:00', 0, b'5'),
                                      (b'%E*z', b'+23', 82800, b'5'), (b'%z', b'-2359', -86340, b'5!')):
            for _ in range(3):
                fields = list(C.valid_fields(rng, year=rng.randrange(1, 9999)))
                fmt, build = FIELD_FORMS[0]
                fb = fmt.encode() + b' ' + form + lit
                tb = build(fields).encode() + b' ' + otxt + lit
                b.append('parse %s %s %s' % (zid, hx(fb), hx(tb))); m.append(('valid', tuple(fields), True, offv, fb, tb))
        # ':60' with a fraction, whichever conversion reads the fraction: 60.x is the start of the next minute, the fraction is dropped
        for fb, suffix in ((b'%Y-%m-%d %H:%M:%S.%E*f', b'.25'), (b'%Y-%m-%d %H:%M:%S.%E3f', b'.999'), (b'%Y-%m-%d %H:%M:%E*S', b'.5'), (b'%Y-%m-%d %H:%M:%E6S', b'.999999'),
                           (b'%Y-%m-%d %H:%M:%S %E*f', b' 75')):
            for _ in range(2):
                fx = list(C.valid_fields(rng, year=rng.randrange(1971, 2100))); fx[5] = 59
                if fx[4] == 59: fx[4] = 58
                tb = ('%s-%02d-%02d %02d:%02d:60' % (year_str(fx[0]), fx[1], fx[2], fx[3], fx[4])).encode() + suffix
                b.append('parse %s %s %s' % (zid, hx(fb), hx(tb))); m.append(('leap', tuple(fx), False, 0, fb, tb))
        # a seconds value beyond the leap second, read by a conversion left to strptime (finding F20): not normalised, rejected
        for fb, tb in ((b'%Y-%m-%d %T %Ez', b'2016-12-31 12:00:61 +00:00'), (b'%Y-%m-%d %T', b'9223372036854775807-12-31 23:59:61'), (b'%Y-%m-%d %T', b'2016-12-31 23:59:61'),
                       (b'%Y-%m-%d %H:%M:%OS', b'2016-06-30 23:59:61'), (b'%D %T', b'12/31/16 23:59:61')):
            b.append('parse %s %s %s' % (zid, hx(fb), hx(tb))); m.append(('must-fail', None, False, 0, fb, tb))
        # the ends of the civil range where the offset adjustment (`cs -= offset`, and the -1 of ':60') would leave it: the guard must
        # make parse fail without forming the out-of-range value, whether or not an offset was parsed (seeded change C09O)
        for fb, tb in ((b'%Y-%m-%d %H:%M:%S', b'9223372036854775807-12-31 23:59:60'), (b'%Y-%m-%dT%H:%M:%S', b'9223372036854775807-12-31T23:59:60'),
                       (b'%H:%M:%S %d/%m/%Y', b'23:59:60 31/12/9223372036854775807'), (b'%Y-%m-%d %H:%M:%E*S', b'9223372036854775807-12-31 23:59:60.5'),
                       (b'%Y-%m-%d %H:%M:%S %Ez', b'9223372036854775807-12-31 23:59:60 +00:00'), (b'%Y-%m-%d %H:%M:%S %Ez', b'9223372036854775807-12-31 23:59:59 -00:01'),
                       (b'%Y-%m-%d %H:%M:%S %E*z', b'9223372036854775807-12-31 23:59:59 -00:00:01'), (b'%Y-%m-%d %H:%M:%S %Ez', b'9223372036854775807-12-31 00:00:00 -23:59'),
                       (b'%Y-%m-%d %H:%M:%S %Ez', b'-9223372036854775808-01-01 00:00:00 +00:01'), (b'%Y-%m-%d %H:%M:%S %E*z', b'-9223372036854775808-01-01 00:00:00 +00:00:01'),
                       (b'%Y-%m-%d %H:%M:%S %z', b'-9223372036854775808-01-01 23:58:59 +2359')):
            b.append('parse %s %s %s' % (zid, hx(fb), hx(tb))); m.append(('must-fail', None, False, 0, fb, tb))
        # 12-hour clock with %p and the O-modified (alternative digits) conversions in every position: only %I / %OI / %l set the
        # 12-hour reading, and nothing but another hour conversion may cancel it (seeded change C09P)
        for _ in range(per // 40):
            f = list(C.valid_fields(rng, year=rng.randrange(1, 9999)))
            if rng.random() < 0.5: f[3] = rng.choice([0, 11, 12, 13, 23])
            hr = rng.choice(['%I', '%OI', '%l'])
            mn = rng.choice(['%M', '%OM']); sc = rng.choice(['%S', '%OS', ''])
            dt = rng.choice([('%Y-%m-%d', '%s-%02d-%02d'), ('%Y-%Om-%Od', '%s-%02d-%02d'), ('%Od.%Om.%Y', None), ('%Y-%m-%Oe', '%s-%02d-%2d')])
            h12 = f[3] % 12 or 12
            tm_f = hr + ':' + mn + (':' + sc if sc else ''); tm_t = ('%2d' if hr == '%l' else '%02d') % h12 + ':%02d' % f[4] + (':%02d' % f[5] if sc else '')
            dt_t = (dt[1] % (year_str(f[0]), f[1], f[2])) if dt[1] else '%02d.%02d.%s' % (f[2], f[1], year_str(f[0]))
            ap = 'PM' if f[3] >= 12 else 'AM'
            order = rng.randrange(4)
            if order == 0: fb, tb = '%s %s %%p' % (dt[0], tm_f), '%s %s %s' % (dt_t, tm_t, ap)
            elif order == 1: fb, tb = '%%p %s %s' % (tm_f, dt[0]), '%s %s %s' % (ap, tm_t, dt_t)
            elif order == 2: fb, tb = '%s %%p, %s' % (tm_f, dt[0]), '%s %s, %s' % (tm_t, ap, dt_t)
            else: fb, tb = '%s %%p %s' % (dt[0], tm_f), '%s %s %s' % (dt_t, ap, tm_t)
            if not sc: f[5] = 0
            b.append('parse %s %s %s' % (zid, hx(fb.encode()), hx(tb.encode()))); m.append(('valid', tuple(f), False, 0, fb.encode(), tb.encode()))
        # %s together with a date that does not exist (finding F22)
        for fb, tb in ((b'%Y-%m-%d %s', b'2013-09-31 5'), (b'%s %Y-%m-%d', b'86400 2023-02-29'), (b'%H:%M %s', b'24:61 7')):
            b.append('parse %s %s %s' % (zid, hx(fb), hx(tb))); m.append(('must-fail-percent-s', None, False, 0, fb, tb))
        # int64 limits and %s
        for sv in (I64MIN, I64MAX, I64MIN + 1, 0, -1):
            b.append('parse %s %s %s' % (zid, hx(b'%s'), hx(str(sv).encode()))); m.append(('percent-s', sv, False, 0, b'%s', str(sv).encode()))
        for sv in (I64MAX + 1, I64MIN - 1, 10**30):
            b.append('parse %s %s %s' % (zid, hx(b'%s'), hx(str(sv).encode()))); m.append(('must-fail', sv, False, 0, b'%s', str(sv).encode()))
        for ytxt in (b'9223372036854775807-12-31 23:59:59', b'-9223372036854775808-01-01 00:00:00', b'292277026596-12-04 15:30:07', b'292277026596-12-05 00:00:00', b'-292277022657-01-27 08:29:52'):
            b.append('parse %s %s %s' % (zid, hx(b'%Y-%m-%d %H:%M:%S %Ez'), hx(ytxt + b' +00:00'))); m.append(('extreme', ytxt, True, 0, b'', ytxt))
        for fb, ib in FRAC_CASES:
            b.append('parse %s %s %s' % (zid, hx(fb), hx(ib))); m.append(('random', None, False, 0, fb, ib))
        for _ in range(per // 5):
            # fractional seconds: valid text and single-character deletions of it
            f = C.valid_fields(rng, year=rng.randrange(1, 9999))
            digs = rng.randrange(0, 19)
            frac = ''.join(rng.choice('0123456789') for _ in range(digs))
            fb = rng.choice([b'%Y-%m-%d %H:%M:%E*S', b'%Y-%m-%dT%H:%M:%E3S%Ez', b'%H:%M:%S.%E*f %d/%m/%Y'])
            sec = '%02d' % f[5] + ('.' + frac if (digs or b'.%E' in fb) else '')
            if fb.startswith(b'%H'): text = '%02d:%02d:%s %02d/%02d/%s' % (f[3], f[4], sec, f[2], f[1], year_str(f[0]))
            else: text = '%s-%02d-%02d%s%02d:%02d:%s%s' % (year_str(f[0]), f[1], f[2], 'T' if b'T' in fb else ' ', f[3], f[4], sec, '+00:00' if b'%Ez' in fb else '')
            tb = bytearray(text.encode())
            if rng.random() < 0.6 and tb:
                k = rng.randrange(len(tb)); del tb[k:k + rng.choice([1, 1, 2, digs + 1])]
            b.append('parse %s %s %s' % (zid, hx(fb), hx(bytes(tb)))); m.append(('random', None, False, 0, fb, bytes(tb)))
        for _ in range(per // 10):
            fb = bytes(rng.choice(b'%YmdHMSzEf*:T4 -0123456789s') for _ in range(rng.randrange(1, 10)))
            ib = bytes(rng.choice(b'0123456789-+:. TZz') for _ in range(rng.randrange(0, 14)))
            b.append('parse %s %s %s' % (zid, hx(fb), hx(ib))); m.append(('random', None, False, 0, fb, ib))
        blocks.append((zn, orc, b)); meta.append(m)
    mo, io = run_fmt_blocks(chk, exe, [b for _, _, b in blocks], 'parse')
    good = 0
    for (zn, orc, b), m, out, mout in zip(blocks, meta, io, mo):
        for l, mm, o, mod in zip(b[1:], m[1:], out[1:], mout[1:]):
            if o.startswith('UB') or o.startswith('CRASH'):
                chk.report('parse(%r, %r) is undefined behaviour: %s' % (mm[4], mm[5], o), {'op': l, 'implementation': o}, sig='parse %s' % site_sig(o)); continue
            kind, fields, use_off, off, fmt_b, text_b = mm
            chk.count('inputs:' + kind)
            if kind in ('random', 'edited'):
                # no independent expectation for unstructured input: the model (whose acceptance conditions are the
                # proved ones) is the reference; a deviation is reported with the input as the replay
                if canon(o) != mod:
                    what = 'accepts input that the documented rules reject' if (o.startswith('ok') and mod == 'fail') else 'deviates from the documented rules'
                    chk.report('parse(%r, %r) = `%s` %s (the model gives `%s`)' % (fmt_b, text_b, o, what, mod), {'op': l, 'implementation': o, 'model': mod}, sig='parse deviates')
                else:
                    good += 1
                continue
            if kind == 'must-fail-percent-s':
                if o != 'fail':
                    chk.report('parse(%r, %r) = `%s` although the date / time in the text does not exist (a %%s in the format makes parse ignore everything else)' % (fmt_b, text_b, o),
                               {'op': l, 'implementation': o}, sig='parse %s ignores invalid fields')
                else: good += 1
                continue
            if kind in ('out-of-range', 'must-fail'):
                if o != 'fail':
                    chk.report('parse(%r, %r) = `%s` although a field is outside its documented range / the date does not exist / the value does not fit' % (fmt_b, text_b, o), {'op': l, 'implementation': o}, sig='parse accepts out-of-range')
                else: good += 1
                continue
            if kind == 'percent-s':
                want = 'ok %d 0' % fields
            elif kind == 'extreme':
                y = int(text_b.split(b'-')[0] if not text_b.startswith(b'-') else b'-' + text_b[1:].split(b'-')[0])
                rest = text_b[len(str(y)):]
                mth, dd, hh, mi, ss = int(rest[1:3]), int(rest[4:6]), int(rest[7:9]), int(rest[10:12]), int(rest[13:15])
                x = C.sec_num((y, mth, dd, hh, mi, ss))
                want = 'ok %d 0' % x if I64MIN <= x <= I64MAX else 'fail'
            else:
                fl = list(fields)
                if not re.search(r'%(O|E(\*|\d+))?S', fmt_b.decode()): fl[5] = 0
                x = C.sec_num(tuple(fl))
                if kind == 'leap': x += 1
                if use_off:
                    inst = x - off
                else:
                    k, pre, tr, post = orc.lookup(C.civil_of_sec(x))
                    if k.startswith('?'): chk.count('oracle-undecided'); continue
                    inst = pre
                want = 'ok %d 0' % inst if I64MIN <= inst <= I64MAX else 'fail'
            if o != want:
                chk.report('parse(%r, %r) in %s = `%s`; the parsed fields denote `%s`' % (fmt_b, text_b, zn.name, o, want), {'op': l, 'zone': zn.name, 'implementation': o, 'specification': want}, sig='parse value')
            else: good += 1
    # parse() into a time_point coarser than a second (the public template): the floor of the instant the text denotes,
    # or failure when that does not fit — at the ends of the second range, around the epoch, and a sample
    from .common import correspond
    cl = []; cm = []
    for (Num, rep, lo, hi) in ((60, 'i64', I64MIN, I64MAX), (3600, 'i64', I64MIN, I64MAX), (86400, 'i64', I64MIN, I64MAX), (60, 'i32', -2**31, 2**31 - 1), (1, 'i64', I64MIN, I64MAX)):
        secs = [I64MIN, I64MIN + 1, I64MIN + Num - 2, I64MIN + Num - 1, I64MIN + Num, I64MAX, I64MAX - 1, I64MAX - Num + 1, I64MAX - Num,
                -1, -Num + 1, -Num, -Num - 1, 0, 1, Num - 1, Num] + [rng.randrange(-3 * Num, 3 * Num + 1) for _ in range(20)] + \
               [rng.randrange(I64MIN, I64MIN + 2 * Num) for _ in range(6)] + [rng.randrange(I64MAX - 2 * Num, I64MAX + 1) for _ in range(6)]
        for sec in secs:
            if not (I64MIN <= sec <= I64MAX): continue
            # -292277022657-01-27 08:29:52 … 292277026596-12-04 15:30:07 are the civil seconds (UTC) of the int64 limits
            txt = '%d-%02d-%02d %02d:%02d:%02d' % C.civil_of_sec(sec)
            cl.append('subparse %d %d %d %s %s' % (Num, lo, hi, rep, txt.encode().hex())); cm.append((Num, lo, hi, sec, txt))
    cmo, cio, cmism = correspond(chk, cl, exe, 'coarse-target')
    for i, (Num, lo, hi, sec, txt) in enumerate(cm):
        q = sec // Num
        want = 'ok %d' % q if lo <= q <= hi else 'false'
        if cio[i] != want:
            chk.report('parse("%%Y-%%m-%%d %%H:%%M:%%S", "%s", utc) into a time_point of %d-second ticks = `%s`; the text denotes the instant %d, whose tick is `%s`' % (txt, Num, cio[i], sec, want),
                       {'op': cl[i], 'implementation': cio[i], 'model': cmo[i], 'specification': want}, sig='parse coarse target %s' % site_sig(cio[i]))
        else: good += 1
    for i in cmism[:10]:
        chk.broken.append('correspondence: op `%s` model=`%s` implementation=`%s`' % (cl[i], cmo[i], cio[i]))
    chk.cov['distinct_nontrivial'] = good
    chk.cov['rule'] = ('inputs built from chosen field values (random valid dates, civil seconds within 2 h of a transition of the zone so that skipped/repeated times occur) in five field layouts, with or without a UTC offset in five spellings; '
                       '30% with one field pushed just outside its range or a non-existent day (must fail), 15% with one character inserted/deleted/replaced or harmless whitespace, :60 seconds, %s and %Y at the int64 limits and beyond '
                       '(must fail), the ends of the civil range with :60 / an offset that would leave it (must fail, no UB), 12-hour clock with %p and O-modified conversions in every order, unstructured random pairs; implementation (ASan+UBSan) vs model (strptime via the real C library) and vs the instant the fields denote computed by the independent zone oracle (pre reading); '
                       'non-trivial = inputs whose outcome matched the oracle')
    chk.assumptions.append('strptime is a parameter of the model; the comparer answers its queries with the C library of this host')
    chk.sample({'op': blocks[0][2][1][:200], 'model': mo[0][1], 'implementation': io[0][1]})
    return chk.finish()


REGISTRY = {'C07': run_C07, 'C08': run_C08, 'C09': run_C09}
