"""The C library's strftime / strptime through ctypes (the parameters of the format/parse model)."""
import ctypes, ctypes.util

libc = ctypes.CDLL(ctypes.util.find_library('c') or 'libc.so.6', use_errno=True)


class TM(ctypes.Structure):
    _fields_ = [('tm_sec', ctypes.c_int), ('tm_min', ctypes.c_int), ('tm_hour', ctypes.c_int), ('tm_mday', ctypes.c_int),
                ('tm_mon', ctypes.c_int), ('tm_year', ctypes.c_int), ('tm_wday', ctypes.c_int), ('tm_yday', ctypes.c_int),
                ('tm_isdst', ctypes.c_int), ('tm_gmtoff', ctypes.c_long), ('tm_zone', ctypes.c_char_p)]


libc.strftime.argtypes = [ctypes.c_char_p, ctypes.c_size_t, ctypes.c_char_p, ctypes.POINTER(TM)]
libc.strftime.restype = ctypes.c_size_t
libc.strptime.argtypes = [ctypes.c_void_p, ctypes.c_char_p, ctypes.POINTER(TM)]
libc.strptime.restype = ctypes.c_void_p


def mk_tm(v):
    t = TM()
    (t.tm_sec, t.tm_min, t.tm_hour, t.tm_mday, t.tm_mon, t.tm_year, t.tm_wday, t.tm_yday, t.tm_isdst) = [int(x) for x in v]
    t.tm_gmtoff = 0; t.tm_zone = None
    return t


def tm_list(t):
    return [t.tm_sec, t.tm_min, t.tm_hour, t.tm_mday, t.tm_mon, t.tm_year, t.tm_wday, t.tm_yday, t.tm_isdst]


def format_tm(run, tmv):
    """what cctz's FormatTM appends for the run `run` (bytes, may contain NULs) and tm values `tmv`"""
    t = mk_tm(tmv)
    fmt = run.split(b'\0')[0]
    for i in (2, 4, 8, 16):
        size = len(run) * i
        buf = ctypes.create_string_buffer(max(size, 1))
        n = libc.strftime(buf, size, fmt, ctypes.byref(t)) if size else 0
        if n: return buf.raw[:n]
    return b''


def strptime(data, spec, tmv):
    """(consumed, tm values) or None"""
    t = mk_tm(tmv)
    buf = ctypes.create_string_buffer(data.split(b'\0')[0])
    r = libc.strptime(ctypes.addressof(buf), spec.split(b'\0')[0], ctypes.byref(t))
    if not r: return None
    return r - ctypes.addressof(buf), tm_list(t)
