"""
Reference recogniser for POSIX-TZ rule strings, written from the statement of C16 (not from the
code):  std offset [dst [offset] , date[/time] , date[/time]]
  abbreviation: <...> (anything but '>' between the brackets) or three or more characters that are
                not digits, sign or comma
  offset:       [+-]h[:m[:s]], hours 0-24, minutes/seconds 0-59; POSIX sign: positive = west, so
                utc_offset = -value
  dst offset:   defaults to std + 1h
  date:         Jn (1-365) | n (0-365) | Mm.w.d (1-12, 1-5, 0-6)
  time:         [+-]h[:m[:s]], hours 0-167 (sign allowed), default 02:00:00
  nothing may follow.  A NUL byte cannot be part of a rule string; a leading ':' selects an
  implementation-defined format and is rejected.
Also evaluates a rule on the proleptic Gregorian calendar (for the zone oracles).
"""
from . import civil as C


class P:
    def __init__(self, s): self.s = s; self.i = 0
    def peek(self): return self.s[self.i] if self.i < len(self.s) else -1
    def eof(self): return self.i >= len(self.s)


def _int(p, lo, hi):
    j = p.i
    while j < len(p.s) and 48 <= p.s[j] <= 57: j += 1
    if j == p.i: return None
    v = int(p.s[p.i:j])
    if v > 2**31 - 1: return None
    if v < lo or v > hi: return None
    p.i = j
    return v


def _abbr(p):
    if p.peek() == 60:  # '<'
        j = p.s.find(b'>', p.i + 1)
        if j < 0: return None
        a = p.s[p.i + 1:j]
        p.i = j + 1
        return a
    j = p.i
    while j < len(p.s) and not (48 <= p.s[j] <= 57 or p.s[j] in b'+-,'): j += 1
    if j - p.i < 3: return None
    a = p.s[p.i:j]
    p.i = j
    return a


def _hms(p, maxh):
    sign = 1
    if p.peek() in (43, 45):
        if p.peek() == 45: sign = -1
        p.i += 1
    h = _int(p, 0, maxh)
    if h is None: return None
    m = s = 0
    if p.peek() == 58:
        p.i += 1
        m = _int(p, 0, 59)
        if m is None: return None
        if p.peek() == 58:
            p.i += 1
            s = _int(p, 0, 59)
            if s is None: return None
    return sign * ((h * 60 + m) * 60 + s)


def _datetime(p):
    if p.peek() != 44: return None
    p.i += 1
    c = p.peek()
    if c == 77:  # M
        p.i += 1
        m = _int(p, 1, 12)
        if m is None or p.peek() != 46: return None
        p.i += 1
        w = _int(p, 1, 5)
        if w is None or p.peek() != 46: return None
        p.i += 1
        d = _int(p, 0, 6)
        if d is None: return None
        date = ('M', m, w, d)
    elif c == 74:  # J
        p.i += 1
        n = _int(p, 1, 365)
        if n is None: return None
        date = ('J', n)
    else:
        n = _int(p, 0, 365)
        if n is None: return None
        date = ('N', n)
    t = 7200
    if p.peek() == 47:
        p.i += 1
        t = _hms(p, 167)
        if t is None: return None
    return date, t


def parse(spec):
    """None if `spec` (bytes) is not a POSIX-TZ rule string, else its fully determined meaning"""
    if b'\x00' in spec: return None
    p = P(spec)
    if p.peek() == 58: return None
    std = _abbr(p)
    if std is None: return None
    v = _hms(p, 24)
    if v is None: return None
    r = {'std_abbr': std, 'std_offset': -v, 'dst_abbr': b''}
    if p.eof(): return r
    dst = _abbr(p)
    if dst is None: return None
    r['dst_abbr'] = dst
    r['dst_offset'] = r['std_offset'] + 3600
    if p.peek() != 44:
        v = _hms(p, 24)
        if v is None: return None
        r['dst_offset'] = -v
    a = _datetime(p)
    if a is None: return None
    b = _datetime(p)
    if b is None: return None
    if not p.eof(): return None
    r['start'], r['end'] = a, b
    return r


def render(r):
    """the line the driver/harness print for an accepted spec"""
    from binascii import hexlify
    hx = lambda b: hexlify(b).decode() if b else '-'
    def tr(x):
        d, t = x
        if d[0] == 'M': return 'M %d %d %d %d' % (d[1], d[2], d[3], t)
        return '%s %d - - %d' % (d[0], d[1], t)
    if not r['dst_abbr']:
        return 'ok %s %d -' % (hx(r['std_abbr']), r['std_offset'])
    return 'ok %s %d %s %d %s %s' % (hx(r['std_abbr']), r['std_offset'], hx(r['dst_abbr']), r['dst_offset'], tr(r['start']), tr(r['end']))


# ----------------------------------------------------------------------------- rule evaluation

def rule_day(date, y):
    """0-based day of year `y` selected by a date form, found by searching the days of the year"""
    if date[0] == 'J':     # Julian day n (1-365), Feb 29 never counted
        n = date[1]
        k = 0
        for doy in range(366 if C.is_leap(y) else 365):
            m, d = month_day(y, doy)
            if (m, d) == (2, 29): continue
            k += 1
            if k == n: return doy
        raise AssertionError
    if date[0] == 'N':     # zero-based day n (0-365), Feb 29 counted
        return date[1]
    _, m, w, wd = date     # the w-th (5 = last) weekday wd (0 = Sunday) of month m
    first = C.day_num(y, m, 1) - C.day_num(y, 1, 1)
    hits = [first + d - 1 for d in range(1, C.dim(y, m) + 1) if (C.weekday(y, m, d) + 1) % 7 == wd]
    return hits[-1] if w == 5 else hits[w - 1]


def month_day(y, doy):
    m = 1
    while doy >= C.dim(y, m):
        doy -= C.dim(y, m); m += 1
    return m, doy + 1


def rule_instants(r, y):
    """(dst_start_instant, dst_end_instant) of year y as unix seconds"""
    jan1 = C.day_num(y, 1, 1) * 86400
    s = jan1 + rule_day(r['start'][0], y) * 86400 + r['start'][1] - r['std_offset']
    e = jan1 + rule_day(r['end'][0], y) * 86400 + r['end'][1] - r['dst_offset']
    return s, e


def is_all_year_dst(r):
    return (r['start'][0] == ('N', 0) and r['start'][1] == 0 and r['end'][0] == ('J', 365)
            and r['end'][1] + (r['std_offset'] - r['dst_offset']) == 86400)


def eval_rule(r, t):
    """(offset, is_dst, abbr) the rule assigns to instant t: DST holds iff the latest rule instant
    <= t (over all years) is a start"""
    if not r['dst_abbr']:
        return r['std_offset'], False, r['std_abbr']
    if is_all_year_dst(r):
        return r['dst_offset'], True, r['dst_abbr']
    y = C.civil_of_sec(t)[0]
    ev = []
    for yy in (y - 2, y - 1, y, y + 1, y + 2):
        s, e = rule_instants(r, yy)
        ev.append((s, 1)); ev.append((e, 0))
    ev = [x for x in ev if x[0] <= t]
    last = max(ev)  # ties: a start and an end at the same instant -> treat start as later
    if last[1]:
        return r['dst_offset'], True, r['dst_abbr']
    return r['std_offset'], False, r['std_abbr']
