"""
Shared machinery of the checks: building the tie (extractor, Lean library + driver,
axiom audit, harness from /repo's current working tree), running the correspondence,
reporting violations / known findings, writing evidence.
"""
import os, sys, json, time, hashlib, subprocess, re, random, fcntl, shutil, glob, tempfile

VERIF = os.path.dirname(os.path.dirname(os.path.abspath(__file__)))
REPO = os.environ.get('VERIF_REPO', '/repo')
LEAN = os.path.join(VERIF, 'lean')
CACHE = os.path.join(VERIF, '.cache')
EVID = os.environ.get('VERIF_EVIDENCE_DIR') or os.path.join(VERIF, 'evidence')   # development runs (seeded changes, other seeds) redirect it
REPLAYS = os.path.join(VERIF, 'replays')
MODEL_EXE = os.path.join(LEAN, '.lake/build/bin/cctz_model')
GUARD = 'GOOGLE_CCTZ_VERIF'
NCPU = os.cpu_count() or 4

ALLOWED_AXIOMS = {'propext', 'Classical.choice', 'Quot.sound'}
FORBIDDEN = re.compile(r'\bsorry\b|\badmit\b|^axiom\s|\bnative_decide\b|\bbv_decide\b|\bimplemented_by\b|\bunsafe\s|maxHeartbeats\s+0\b|\bextern\b', re.M)

REPO_SOURCES = ['src/time_zone_fixed.cc', 'src/time_zone_format.cc', 'src/time_zone_if.cc',
                'src/time_zone_impl.cc', 'src/time_zone_info.cc', 'src/time_zone_libc.cc',
                'src/time_zone_lookup.cc', 'src/time_zone_posix.cc', 'src/civil_time_detail.cc',
                'src/zone_info_source.cc']

I64MIN = -2**63
I64MAX = 2**63 - 1


def log(*a):
    print(*a, file=sys.stderr, flush=True)


def sh(cmd, cwd=None, env=None, timeout=None, inp=None):
    e = dict(os.environ)
    if env: e.update(env)
    p = subprocess.run(cmd, cwd=cwd, env=e, input=inp, stdout=subprocess.PIPE, stderr=subprocess.STDOUT,
                       timeout=timeout, shell=isinstance(cmd, str))
    return p.returncode, p.stdout.decode('utf-8', 'replace')


class Lock:
    def __init__(self, name):
        os.makedirs(CACHE, exist_ok=True)
        self.path = os.path.join(CACHE, name + '.lock')
    def __enter__(self):
        self.f = open(self.path, 'w')
        fcntl.flock(self.f, fcntl.LOCK_EX)
        return self
    def __exit__(self, *a):
        fcntl.flock(self.f, fcntl.LOCK_UN)
        self.f.close()


# --------------------------------------------------------------------------- model side

def strip_lean_comments(src):
    # nested block comments
    out = []; i = 0; depth = 0; n = len(src)
    while i < n:
        if src.startswith('/-', i):
            depth += 1; i += 2; continue
        if depth and src.startswith('-/', i):
            depth -= 1; i += 2; continue
        if depth:
            if src[i] == '\n': out.append('\n')
            i += 1; continue
        if src.startswith('--', i):
            while i < n and src[i] != '\n': i += 1
            continue
        out.append(src[i]); i += 1
    return ''.join(out)


def grep_forbidden():
    hits = []
    files = glob.glob(os.path.join(LEAN, 'Cctz', '**', '*.lean'), recursive=True) + \
            [os.path.join(LEAN, 'Cctz.lean'), os.path.join(LEAN, 'Driver.lean')]
    for f in files:
        if not os.path.exists(f): continue
        s = strip_lean_comments(open(f).read())
        # string literals cannot hide tactics; keep it simple
        for m in FORBIDDEN.finditer(s):
            line = s.count('\n', 0, m.start()) + 1
            hits.append('%s:%d:%s' % (os.path.relpath(f, LEAN), line, m.group(0).strip()))
    return hits


# which parts of the source (extract.py areas) the model of each property depends on
ALL_AREAS = {'civil', 'fixed', 'tz', 'posix', 'format'}
_ZONE = {'civil', 'fixed', 'tz', 'posix'}
AREAS = {
    'C04': {'civil'}, 'C05': {'civil'}, 'C17': {'civil'},
    'C15': {'civil', 'fixed', 'tz'}, 'C16': {'posix'},
    'C18': {'civil', 'format', 'tz', 'fixed'},
    'C01': _ZONE, 'C02': _ZONE, 'C03': _ZONE, 'C06': _ZONE, 'C10': _ZONE, 'C11': _ZONE,
    'C12': _ZONE, 'C13': _ZONE, 'C19': _ZONE, 'C20': _ZONE,
    'C14': ALL_AREAS, 'C07': ALL_AREAS, 'C08': ALL_AREAS, 'C09': ALL_AREAS,
}


def run_extract():
    rc, out = sh([sys.executable, os.path.join(VERIF, 'gen/extract.py'), '--repo', REPO])
    facts = {}
    fp = os.path.join(CACHE, 'facts.json')
    if os.path.exists(fp):
        facts = json.load(open(fp))
    return rc, out, facts


def lake_build(targets):
    rc, out = sh(['lake', 'build'] + targets, cwd=LEAN, timeout=3600)
    return rc, out


def audit_axioms(module, theorems):
    """#print axioms for every listed theorem; returns (ok, {thm: [axioms]}, raw)"""
    os.makedirs(os.path.join(CACHE, 'audit'), exist_ok=True)
    modules = [module] if isinstance(module, str) else list(module)
    f = os.path.join(CACHE, 'audit', modules[0].replace('.', '_') + '_%d.lean' % os.getpid())
    with open(f, 'w') as h:
        for mm in modules: h.write('import %s\n' % mm)
        for t in theorems:
            h.write('#print axioms %s\n' % t)
    rc, out = sh(['lake', 'env', 'lean', f], cwd=LEAN, timeout=1800)
    os.unlink(f)
    res = {}
    # output: "'Name' depends on axioms: [a, b]" or "'Name' does not depend on any axioms"
    flat = re.sub(r'\s+', ' ', out)
    for t in theorems:
        m = re.search(r"'" + re.escape(t) + r"' depends on axioms: \[([^\]]*)\]", flat)
        if m:
            res[t] = [a.strip() for a in m.group(1).split(',') if a.strip()]
        elif re.search(r"'" + re.escape(t) + r"' does not depend on any axioms", flat):
            res[t] = []
        else:
            res[t] = None
    ok = rc == 0 and all(v is not None and set(v) <= ALLOWED_AXIOMS for v in res.values())
    return ok, res, out


# --------------------------------------------------------------------------- implementation side

HARNESS_VARIANTS = {
    # name: (compiler, flags)
    'san': ('g++', ['-O1', '-g', '-fsanitize=address,undefined', '-fsanitize-recover=undefined',
                    '-fno-sanitize=vptr', '-fno-omit-frame-pointer', '-DNDEBUG']),
    'san_assert': ('g++', ['-O1', '-g', '-fsanitize=address,undefined', '-fsanitize-recover=undefined',
                           '-fno-sanitize=vptr', '-fno-omit-frame-pointer', '-UNDEBUG']),
    'ubsan': ('g++', ['-O1', '-g', '-fsanitize=undefined', '-fsanitize-recover=undefined', '-fno-sanitize=vptr']),
    'tsan': ('g++', ['-O1', '-g', '-fsanitize=thread']),
    'plain': ('g++', ['-O2', '-g']),
}


def _hash_files(paths, extra=''):
    h = hashlib.sha256()
    h.update(extra.encode())
    for p in sorted(paths):
        h.update(p.encode()); h.update(b'\0')
        try:
            h.update(open(p, 'rb').read())
        except OSError:
            h.update(b'<missing>')
    return h.hexdigest()[:24]


class BuildError(Exception):
    pass


def build_harness(variant='san', main='harness.cc', defines=()):
    """Compile the cctz sources of /repo's *current working tree* plus the harness with
    -DGOOGLE_CCTZ_VERIF; objects are cached under .cache/h/<hash of every input file + flags>."""
    comp, flags = HARNESS_VARIANTS[variant]
    flags = list(flags) + ['-D' + GUARD] + ['-D' + d for d in defines]
    hsrc = glob.glob(os.path.join(VERIF, 'harness', '*'))
    rsrc = glob.glob(os.path.join(REPO, 'src', '*')) + glob.glob(os.path.join(REPO, 'include', 'cctz', '*'))
    key = _hash_files(hsrc + rsrc, ' '.join([comp] + flags + [main]))
    d = os.path.join(CACHE, 'h', key)
    exe = os.path.join(d, 'harness')
    with Lock('harness_' + key):
        if os.path.exists(exe):
            os.utime(d)
            return exe
        os.makedirs(d, exist_ok=True)
        inc = ['-I' + os.path.join(REPO, 'include'), '-I' + os.path.join(REPO, 'src'), '-I' + os.path.join(VERIF, 'harness')]
        units = [os.path.join(REPO, s) for s in REPO_SOURCES] + \
                [os.path.join(VERIF, 'harness', main), os.path.join(VERIF, 'harness', 'ub.cc')]
        procs = []
        objs = []
        for u in units:
            o = os.path.join(d, os.path.basename(u) + '.o')
            objs.append(o)
            procs.append((u, subprocess.Popen([comp] + flags + inc + ['-c', u, '-o', o],
                                              stdout=subprocess.PIPE, stderr=subprocess.STDOUT)))
        errs = []
        for u, p in procs:
            out, _ = p.communicate()
            if p.returncode != 0:
                errs.append('%s:\n%s' % (u, out.decode('utf-8', 'replace')[-3000:]))
        if errs:
            shutil.rmtree(d, ignore_errors=True)
            raise BuildError('\n'.join(errs))
        rc, out = sh([comp] + flags + objs + ['-o', exe + '.tmp', '-lpthread'])
        if rc != 0:
            shutil.rmtree(d, ignore_errors=True)
            raise BuildError(out[-3000:])
        os.rename(exe + '.tmp', exe)
        for o in objs:
            try: os.unlink(o)
            except OSError: pass
    prune_cache()
    return exe


def prune_cache(keep=6):
    base = os.path.join(CACHE, 'h')
    if not os.path.isdir(base): return
    ds = sorted((os.path.getmtime(os.path.join(base, x)), x) for x in os.listdir(base))
    for _, x in ds[:-keep]:
        shutil.rmtree(os.path.join(base, x), ignore_errors=True)


SAN_ENV = {'ASAN_OPTIONS': 'detect_leaks=0:abort_on_error=0:exitcode=66:allocator_may_return_null=1:max_allocation_size_mb=512',
           'UBSAN_OPTIONS': 'print_stacktrace=0'}


DEF_OPS = ('zone ', 'fixzone ', 'namezone ')


def _run_linebuf(exe, data, env, quiet_limit):
    """Run the harness line-buffered and read its answers as they come.  The deadline is per line:
    the run is only given up when no complete answer arrived for `quiet_limit` seconds, so a slow
    but progressing run (a loaded machine) is never mistaken for a hang.  Returns (lines, rc, stderr);
    rc = -999 for a hang."""
    import tempfile, select
    with tempfile.TemporaryFile() as fin, tempfile.TemporaryFile() as ferr:
        fin.write(data); fin.flush(); fin.seek(0)
        p = subprocess.Popen([exe], stdin=fin, stdout=subprocess.PIPE, stderr=ferr, env=env)
        fd = p.stdout.fileno()
        buf = b''
        rc = None
        last = time.time()
        seen = 0
        while True:
            r, _, _ = select.select([fd], [], [], 1.0)
            if r:
                chunk = os.read(fd, 1 << 16)
                if not chunk: break
                buf += chunk
                k = buf.count(b'\n')
                if k != seen: seen = k; last = time.time()
            elif time.time() - last > quiet_limit:
                p.kill(); rc = -999
                break
        p.wait()
        if rc is None: rc = p.returncode
        ferr.seek(0)
        err = 'timeout' if rc == -999 else ferr.read().decode('utf-8', 'replace')
    outs = buf.decode('utf-8', 'replace').split('\n')
    if outs and not buf.endswith(b'\n'): outs[-1] = ''
    return outs, rc, err


def run_lines(exe, lines, env=None, timeout=900, per_line_timeout=10, block_starts=None):
    """Feed op lines; returns list of output lines (same length).  A crash (ASan report,
    abort, timeout) on line k yields 'CRASH <reason>' for that line and the run resumes after it;
    the zone definitions of the block containing k are replayed first (their output discarded)."""
    import bisect as _b
    res = []
    e = dict(SAN_ENV)
    if env: e.update(env)
    start = 0
    n = len(lines)
    linebuf = False
    prefix = []
    hangs = 0
    crashes = 0
    t_begin = time.time()
    while start < n:
        ee = dict(e)
        if linebuf: ee['HARNESS_LINEBUF'] = '1'
        data = ('\n'.join(prefix + lines[start:]) + '\n').encode()
        if linebuf:
            outs, rc, err = _run_linebuf(exe, data, {**os.environ, **ee}, max(30, per_line_timeout * 3))
        else:
            try:
                p = subprocess.run([exe], input=data, stdout=subprocess.PIPE, stderr=subprocess.PIPE,
                                   env={**os.environ, **ee},
                                   timeout=min(timeout, max(30, per_line_timeout * 3) + 0.01 * (n - start)))
                outs = p.stdout.decode('utf-8', 'replace').split('\n')
                rc = p.returncode
                err = p.stderr.decode('utf-8', 'replace')
            except subprocess.TimeoutExpired as t:
                outs = (t.stdout or b'').decode('utf-8', 'replace').split('\n')
                if outs and not (t.stdout or b'').endswith(b'\n'): outs[-1] = ''   # partial line
                rc = -999
                err = 'timeout'
        if outs and outs[-1] == '': outs.pop()
        outs = outs[len(prefix):] if len(outs) >= len(prefix) else []
        if rc == 0 and len(outs) == n - start:
            res.extend(outs)
            break
        if not linebuf:
            if rc == 0:
                raise RuntimeError('harness produced %d lines for %d ops' % (len(outs), n - start))
            linebuf = True      # re-run the remainder line-buffered so that the crashing line is identified
            continue
        res.extend(outs[:n - start])
        k = start + len(outs)
        if k < n:
            reason = 'timeout' if rc == -999 else ('asan' if 'AddressSanitizer' in err else 'exit%d' % rc)
            m = re.search(r'ERROR: AddressSanitizer: (\S+)', err)
            if m: reason = 'asan:' + m.group(1)
            m2 = re.search(r'#\d+ 0x[0-9a-f]+ in (\S+) .*?/(src|include/cctz)/', err)
            if m2: reason += ':' + m2.group(1)
            if 'Assertion' in err:
                m3 = re.search(r"Assertion `([^']*)' failed", err)
                reason = 'assert:' + (m3.group(1).replace(' ', '') if m3 else '?')
            res.append('CRASH ' + reason)
            crashes += 1
            if reason == 'timeout':
                hangs += 1
                if hangs >= 6:
                    # the implementation keeps hanging: do not spend 30 s on each of the remaining ops
                    res.extend(['CRASH timeout-not-run'] * (n - k - 1))
                    break
            elif crashes >= 12 and time.time() - t_begin > 120:
                # the implementation keeps dying and every death is slow (e.g. memory exhaustion): the violations found
                # so far are reported; the remaining ops are marked as not run instead of spending minutes on each
                res.extend(['CRASH not-run'] * (n - k - 1))
                break
            start = k + 1
            s0 = 0
            if block_starts:
                j = _b.bisect_right(block_starts, k) - 1
                s0 = block_starts[j] if j >= 0 else 0
                prefix = [l for l in lines[s0:k] if l.startswith(DEF_OPS)]
            else:
                prefix = []
        else:
            break
        linebuf = False
    return res


def run_model(lines, timeout=1200):
    data = ('\n'.join(lines) + '\n').encode()
    p = subprocess.run([MODEL_EXE], input=data, stdout=subprocess.PIPE, stderr=subprocess.PIPE, timeout=timeout)
    outs = p.stdout.decode('utf-8', 'replace').split('\n')
    if outs and outs[-1] == '': outs.pop()
    if p.returncode != 0 or len(outs) != len(lines):
        raise RuntimeError('model driver failed rc=%d lines=%d/%d: %s' % (p.returncode, len(outs), len(lines), p.stderr.decode()[-500:]))
    return outs


USES_ZONE_ID = {'bt', 'mt', 'cv', 'nt', 'pt', 'drop', 'reload', 'preds', 'hints', 'ntchain', 'ptchain', 'fmt', 'parse', 'subtr'}


def run_parallel(fn, lines, chunks=NCPU):
    """split lines into chunks, run fn(chunk) in threads, concatenate"""
    import concurrent.futures
    if len(lines) < 2000 or chunks <= 1:
        return fn(lines)
    sz = (len(lines) + chunks - 1) // chunks
    # a chunk must not start with an op that refers to a zone defined by an earlier line
    cuts = [0]
    i = sz
    while i < len(lines):
        while i < len(lines) and lines[i].split(' ', 1)[0] in USES_ZONE_ID: i += 1
        if i < len(lines): cuts.append(i)
        i += sz
    cuts.append(len(lines))
    parts = [lines[a:b] for a, b in zip(cuts, cuts[1:]) if a < b]
    with concurrent.futures.ThreadPoolExecutor(max_workers=chunks) as ex:
        outs = list(ex.map(fn, parts))
    r = []
    for o in outs: r.extend(o)
    return r


WILD = {'n': 0}


def align_zone_lines(mo, io):
    """`zone` answers carry the table sizes read from time_zone::description(), whose content the library calls
    unspecified: when a tree words it differently the harness prints `ok - - -` and only the success of the load
    is compared (counted, so that the evidence says how often the structural comparison was lost)"""
    for k, (a, c) in enumerate(zip(mo, io)):
        if isinstance(c, str) and c.startswith('ok - - -') and isinstance(a, str) and a.startswith('ok '):
            mo[k] = c
            WILD['n'] += 1


def canon(out):
    """strip the '@file:line(what)' location from an implementation UB line"""
    if out.startswith('UB'):
        return out.split(' @')[0].strip()
    return out


def ub_site(out):
    m = re.search(r'@(\S+?):(\d+)', out)
    return (m.group(1), int(m.group(2))) if m else None


_func_index = {}

def enclosing_function(fname, line):
    """best-effort name of the function containing <file>:<line> in /repo (for finding signatures
    that survive line-number drift)"""
    path = None
    for cand in (os.path.join(REPO, 'src', fname), os.path.join(REPO, 'include/cctz', fname)):
        if os.path.exists(cand): path = cand
    if not path: return '?'
    if path not in _func_index:
        idx = []
        pat = re.compile(r'^(?:[\w:<>\*&~ ,]+?[ \*&])?((?:\w+::)*\w+)\s*\([^;{}]*$|^(?:[\w:<>\*&~ ,]+?[ \*&])?((?:\w+::)*\w+)\s*\(.*\)\s*(?:const\s*)?(?:noexcept\s*)?\{\s*$')
        for i, l in enumerate(open(path, errors='replace').read().split('\n'), 1):
            if l and not l[0].isspace() and not l.startswith(('#', '//', '}', 'namespace', 'using', 'struct', 'class', 'template', 'static_assert')):
                m = pat.match(l)
                if m:
                    idx.append((i, (m.group(1) or m.group(2)).split('::')[-1]))
        _func_index[path] = idx
    name = '?'
    for i, nme in _func_index[path]:
        if i <= line: name = nme
        else: break
    return name


# --------------------------------------------------------------------------- reporting

def load_known():
    p = os.path.join(VERIF, 'KNOWN_FINDINGS.json')
    if not os.path.exists(p): return {'findings': [], 'fixed': []}
    return json.load(open(p))


class Check:
    """One run of one property's check."""
    def __init__(self, pid, tier, seed):
        self.pid = pid; self.tier = tier; self.seed = seed
        self.rng = random.Random((seed << 8) ^ int(hashlib.sha256(pid.encode()).hexdigest()[:8], 16))
        self.t0 = time.time()
        self.violations = []      # (summary, replay dict)
        self.known_hits = {}      # finding id -> count
        self.broken = []          # names of theorems / correspondences that no longer check
        self.degraded = []        # translator patterns lost for this property's areas (model kept on pinned values)
        self.cov = {'evaluations': 0, 'distinct_nontrivial': 0, 'samples': [], 'rule': '',
                    'obligations': 0, 'discharged': 0, 'checker_cmd': '', 'trusted_base': [],
                    'traces_validated_against_impl': 0}
        self.assumptions = []
        self.dist = {}
        self.known = [f for f in load_known().get('findings', []) if f.get('property') == pid]
        self.notes = []

    def count(self, key, n=1):
        self.dist[key] = self.dist.get(key, 0) + n

    def sample(self, s, cap=12):
        if len(self.cov['samples']) < cap: self.cov['samples'].append(s)

    # -- the tie
    def prepare_model(self, module, theorems):
        """extract tables, build property module(s) + driver, audit axioms.  Returns True when the
        proof side is intact; otherwise records what is broken (the caller then searches)."""
        modules = [module] if isinstance(module, str) else list(module)
        module = ' '.join(modules)
        with Lock('lake'):
            rc, out, facts = run_extract()
            self.facts = facts
            if rc != 0:
                # a lost pattern breaks the tie only for the properties whose model uses that
                # part of the source (extract.py keeps the model on the pinned values there)
                lost = [m for m in facts.get('missing', []) if m.split(':', 1)[0] in AREAS.get(self.pid, ALL_AREAS)]
                self.cov['extractor_lost'] = facts.get('missing', [])
                if not facts.get('missing'):
                    self.broken.append('extractor: ' + out.strip()[-300:])
                elif lost:
                    # the translator half of the tie is lost for these values; the model keeps the pinned
                    # tree's values and the correspondence half is run at the thorough scale instead
                    self.degraded = lost
            rc, out = lake_build(modules + ['cctz_model'])
            build_ok = rc == 0
            if not build_ok:
                errs = re.findall(r'error: ([^\n]*)', out)
                self.broken.append('lake build %s failed: %s' % (module, '; '.join(errs[:6])))
                # the driver may still be buildable (needed for the search)
                rc2, out2 = lake_build(['cctz_model'])
                self.driver_ok = rc2 == 0 and os.path.exists(MODEL_EXE)
            else:
                self.driver_ok = True
            self.cov['obligations'] = len(theorems)
            discharged = 0
            axioms = {}
            if build_ok:
                ok, res, raw = audit_axioms(modules, theorems)
                axioms = res
                for t, ax in res.items():
                    if ax is not None and set(ax) <= ALLOWED_AXIOMS: discharged += 1
                    else: self.broken.append('axiom audit: %s -> %s' % (t, ax))
            hits = grep_forbidden()
            if hits:
                self.broken.append('forbidden tokens: ' + ', '.join(hits[:10]))
                discharged = 0
            self.cov['discharged'] = discharged
            self.cov['axioms'] = {k: v for k, v in axioms.items()}
            self.cov['theorems'] = theorems
            self.cov['checker_cmd'] = 'cd lean && lake build %s && lake env lean <#print axioms of each theorem>' % module
            if self.tier == 'thorough' and build_ok:
                rc, out = 0, ''
                for mm in modules:
                    rc1, out1 = sh(['lake', 'env', 'leanchecker', mm], cwd=LEAN, timeout=3600)
                    rc = rc or rc1; out += out1
                self.cov['leanchecker'] = 'ok' if rc == 0 else 'FAILED: ' + out[-300:]
                if rc != 0: self.broken.append('leanchecker ' + module)
                self.cov['checker_cmd'] += ' && lake env leanchecker ' + module
        self.cov['trusted_base'] = [
            'Lean 4.33.0 kernel; axioms propext, Classical.choice, Quot.sound only (audited per theorem on this run)',
            'no sorry/admit/native_decide/bv_decide/implemented_by/unsafe in lean/ (grepped on this run)',
            'gen/extract.py (tables and constants regenerated from the current sources)',
            'correspondence harness + generators (differential testing bounds what the tie sees)',
            'specification layer lean/Cctz/Spec (short, executable, cross-checked by the Python oracle in this run)',
        ]
        return not self.broken

    def harness(self, variant='san', **kw):
        try:
            return build_harness(variant, **kw)
        except BuildError as e:
            self.broken.append('harness does not build from the current tree: ' + str(e)[-400:])
            return None

    # -- findings
    def match_known(self, sig):
        for f in self.known:
            if re.search(f['signature'], sig):
                return f
        return None

    def report(self, summary, replay, sig=None):
        """a property failure on the implementation: known finding or violation"""
        f = self.match_known(sig or summary)
        if f:
            self.known_hits.setdefault(f['id'], [f, 0])[1] += 1
            return False
        if len(self.violations) < 50:
            self.violations.append((summary, replay))
        return True

    def finish(self, level='proof', explanation=None):
        os.makedirs(EVID, exist_ok=True); os.makedirs(REPLAYS, exist_ok=True)
        rc = 0
        for fid, (f, n) in sorted(self.known_hits.items()):
            print('KNOWN-FINDING: property=%s %s [%s, seen %d times in this run]' % (self.pid, f['what'], fid, n))
        out_lines = []
        if self.violations:
            rc = 1
            for summary, replay in self.violations[:5]:
                h = hashlib.sha256(json.dumps(replay, sort_keys=True, default=str).encode()).hexdigest()[:12]
                path = os.path.join(REPLAYS, '%s-%s.json' % (self.pid, h))
                json.dump({'property': self.pid, 'summary': summary, 'replay': replay, 'broken': self.broken,
                           'seed': self.seed, 'tier': self.tier}, open(path, 'w'), indent=1, default=str)
                out_lines.append('VIOLATION property=%s replay=%s' % (self.pid, path))
                log('  violation: ' + summary)
        elif self.broken:
            rc = 1
            path = os.path.join(REPLAYS, '%s-broken.json' % self.pid)
            json.dump({'property': self.pid, 'summary': 'the proof or the model/code correspondence no longer checks and no failing input was found',
                       'no_longer_checks': self.broken, 'seed': self.seed, 'tier': self.tier}, open(path, 'w'), indent=1)
            out_lines.append('VIOLATION property=%s replay=%s no-failing-input-found' % (self.pid, path))
            for b in self.broken: log('  broken: ' + b)
        if self.degraded:
            note = ('translator patterns not found in the current sources (%s); the model was kept on the values of the pinned tree for them and the '
                    'correspondence run was scaled up to the thorough sizes' % '; '.join(self.degraded))
            self.assumptions.append(note)
            print('NOTE: property=%s %s%s' % (self.pid, note, '' if rc else ': model and implementation still agree'))
        if WILD['n']:
            note = ('time_zone::description() is not in the form the harness reads (%d loads): table sizes and footer of loaded zones were not compared, only the success of the load' % WILD['n'])
            self.assumptions.append(note); print('NOTE: property=%s %s' % (self.pid, note))
        for l in out_lines: print(l)
        cov = dict(self.cov)
        if level == 'proof' and cov.get('obligations', 0) < 1:
            # no property theorem registered yet for this check: do not claim a proof
            level = 'other'
            explanation = (explanation or '') + ' No property theorem is registered for this check yet; this run is the model/implementation correspondence and the property oracle only.'
        cov['distribution'] = self.dist
        if explanation: cov['explanation'] = explanation
        cov['known_findings_seen'] = {k: v[1] for k, v in self.known_hits.items()}
        cov['broken'] = self.broken
        if self.notes: cov['notes'] = self.notes
        ev = {'property_id': self.pid, 'tier': self.tier, 'seed': self.seed, 'level': level,
              'coverage': cov, 'assumptions': self.assumptions,
              'wall_s': round(time.time() - self.t0, 2), 'violations': len(self.violations) + (1 if (self.broken and not self.violations) else 0)}
        json.dump(ev, open(os.path.join(EVID, self.pid + '.json'), 'w'), indent=1, default=str)
        log('%s %s: %s in %.1fs (evaluations=%d, theorems %d/%d)' % (self.pid, self.tier, 'OK' if rc == 0 else 'FAIL',
            time.time() - self.t0, cov['evaluations'], cov['discharged'], cov['obligations']))
        return rc


def correspond(chk, lines, exe, label, classify=None, on_mismatch=None):
    """run model and implementation on the same op lines; returns (model_out, impl_out, mismatch indices)"""
    mo = run_parallel(run_model, lines)
    io = run_parallel(lambda ls: run_lines(exe, ls), lines)
    mism = [i for i in range(len(lines)) if canon(io[i]) != mo[i]]
    chk.cov['evaluations'] += len(lines)
    chk.cov['traces_validated_against_impl'] += len(lines)
    chk.count(label + ':ops', len(lines))
    chk.count(label + ':mismatch', len(mism))
    return mo, io, mism
