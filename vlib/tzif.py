"""
TZif reader / writer and the zone semantics oracle ("offset in force at instant t"), written
from RFC 8536 / tzfile(5) and the POSIX rule semantics — independent of cctz and of the Lean model.
"""
import struct, os, glob
from . import posix_oracle as PO
from . import civil as C
from .common import REPO, I64MIN, I64MAX


class TZif:
    def __init__(self, version, times, idxs, types, abbrs, footer):
        self.version = version      # 1..4
        self.times = list(times)    # transition instants (data block that a v2+ reader uses)
        self.idxs = list(idxs)
        self.types = list(types)    # (utoff, isdst, abbrind)
        self.abbrs = abbrs          # bytes
        self.footer = footer        # bytes or None (version 1)

    def abbr(self, i):
        a = self.abbrs[self.types[i][2]:]
        j = a.find(b'\0')
        return a if j < 0 else a[:j]


def _block(times, idxs, types, abbrs, tlen, ttisstd=b'', ttisut=b'', leaps=b'', leapcnt=0):
    out = b''
    for t in times: out += struct.pack('>q' if tlen == 8 else '>i', t)
    out += bytes(idxs)
    for (off, dst, ai) in types: out += struct.pack('>iBB', off, 1 if dst else 0, ai)
    out += abbrs + leaps + ttisstd + ttisut
    return out


def _header(version, timecnt, typecnt, charcnt, leapcnt=0, isstd=0, isut=0):
    v = b'\0' if version == 1 else bytes([48 + version])
    return b'TZif' + v + b'\0' * 15 + struct.pack('>6i', isut, isstd, leapcnt, timecnt, typecnt, charcnt)


def write(z, v1_times=None, indicators=False, counts=None):
    """serialise; for version ≥ 2 the v1 block holds the 32-bit-representable transitions
    (or `v1_times`, a list of (time, idx)) like zic -b fat, or nothing like -b slim when v1_times == []"""
    n = len(z.types)
    # indicators: True (both arrays), 'std' (standard/wall only, what zic writes for "2:00s" rules without
    # UT rules), 'ut' (UT/local only); the two counts are independent in the header
    isstd = (bytes([1]) * n if indicators == 'std' else bytes(n)) if indicators in (True, 'std') else b''
    isut = bytes(n) if indicators in (True, 'ut') else b''
    if z.version == 1:
        return _header(1, len(z.times), n, len(z.abbrs), 0, len(isstd), len(isut)) + _block(z.times, z.idxs, z.types, z.abbrs, 4, isstd, isut)
    if v1_times is None:
        v1 = [(t, i) for t, i in zip(z.times, z.idxs) if -2**31 <= t < 2**31]
    else:
        v1 = v1_times
    b1 = _header(z.version, len(v1), n, len(z.abbrs), 0, len(isstd), len(isut)) + _block([t for t, _ in v1], [i for _, i in v1], z.types, z.abbrs, 4, isstd, isut)
    b2 = _header(z.version, len(z.times), n, len(z.abbrs), 0, len(isstd), len(isut)) + _block(z.times, z.idxs, z.types, z.abbrs, 8, isstd, isut)
    return b1 + b2 + b'\n' + (z.footer or b'') + b'\n'


def parse(data):
    """RFC 8536 reader: returns TZif or None for data this reader does not accept.  Only used on
    files we generate or ship, so it is strict."""
    def hdr(off):
        if data[off:off + 4] != b'TZif' or len(data) < off + 44: return None
        ver = data[off + 4]
        isut, isstd, leap, timecnt, typecnt, charcnt = struct.unpack('>6i', data[off + 20:off + 44])
        return ver, isut, isstd, leap, timecnt, typecnt, charcnt
    h = hdr(0)
    if h is None: return None
    ver, isut, isstd, leap, timecnt, typecnt, charcnt = h
    off = 44
    tlen = 4
    if ver != 0:
        off += timecnt * 5 + typecnt * 6 + charcnt + leap * 8 + isstd + isut
        h = hdr(off)
        if h is None: return None
        ver, isut, isstd, leap, timecnt, typecnt, charcnt = h
        off += 44
        tlen = 8
    if leap: return None
    p = off
    times = [struct.unpack('>q' if tlen == 8 else '>i', data[p + i * tlen:p + (i + 1) * tlen])[0] for i in range(timecnt)]
    p += timecnt * tlen
    idxs = list(data[p:p + timecnt]); p += timecnt
    types = []
    for i in range(typecnt):
        o, d, a = struct.unpack('>iBB', data[p:p + 6]); p += 6
        types.append((o, bool(d), a))
    abbrs = data[p:p + charcnt]; p += charcnt + isstd + isut
    footer = None
    version = 1
    if ver != 0:
        version = ver - 48
        if data[p:p + 1] != b'\n': return None
        e = data.find(b'\n', p + 1)
        if e < 0: return None
        footer = data[p + 1:e]
    return TZif(version, times, idxs, types, abbrs, footer)


# ------------------------------------------------------------------------------ semantics

def default_type(z):
    """the type in force before the first transition: type 0 unless a transition uses type 0 (files
    older than zic 2018f), in which case — as tzcode's localtime.c does — the earliest standard-time
    type at or below the first transition's type, else the first standard-time type"""
    if not z.times or 0 not in z.idxs: return 0
    i = 0
    if z.types[0][1]:
        i = z.idxs[0]
        while i != 0 and z.types[i][1]: i -= 1
    while i != len(z.types) and z.types[i][1]: i += 1
    return i if i != len(z.types) else 0


def offset_at(z, t, rule=None):
    """(utoff, isdst, abbr) in force at instant t"""
    if not z.times or t < z.times[0]:
        i = default_type(z)
        return z.types[i][0], z.types[i][1], z.abbr(i)
    if t >= z.times[-1] and z.footer:
        r = rule if rule is not None else PO.parse(z.footer)
        if r is not None and r['dst_abbr'] and not PO.is_all_year_dst(r):
            return PO.eval_rule(r, t)
    # latest transition at or before t
    lo, hi = 0, len(z.times)
    while lo < hi:
        mid = (lo + hi) // 2
        if z.times[mid] <= t: lo = mid + 1
        else: hi = mid
    i = z.idxs[lo - 1]
    return z.types[i][0], z.types[i][1], z.abbr(i)


def changes(z, y_lo=None, y_hi=None):
    """all instants at which the (offset, dst, abbr) triple may change: recorded transitions and,
    if the footer has a rule, its instants for the years y_lo..y_hi"""
    ev = list(z.times)
    if z.footer:
        r = PO.parse(z.footer)
        if r is not None and r['dst_abbr'] and not PO.is_all_year_dst(r) and y_lo is not None:
            last = z.times[-1] if z.times else I64MIN
            for y in range(y_lo, y_hi + 1):
                for t in PO.rule_instants(r, y):
                    if t > last: ev.append(t)
    return sorted(set(ev))


# ------------------------------------------------------------------------------ corpus

_shipped = None

def shipped_zones():
    """[(name, bytes)] of every TZif file under /repo/testdata/zoneinfo"""
    global _shipped
    if _shipped is None:
        base = os.path.join(REPO, 'testdata/zoneinfo')
        out = []
        for root, _, files in os.walk(base):
            for f in files:
                p = os.path.join(root, f)
                try:
                    b = open(p, 'rb').read()
                except OSError:
                    continue
                if b[:4] == b'TZif':
                    out.append((os.path.relpath(p, base), b))
        out.sort()
        _shipped = out
    return _shipped


def make_rule_zone(footer, version=3, first_year=1990, last_year=2037, lmt=(-17762, b'LMT'), extra_prefix=(), slim=True, bigbang=None, start_year=1900):
    """a synthetic zone: LMT until 1900, then the footer's rule applied to [first_year, last_year]
    (recorded transitions), then the footer itself"""
    r = PO.parse(footer)
    assert r is not None, footer
    abbrs = b''
    types = []
    def add_type(off, dst, name):
        nonlocal abbrs
        i = abbrs.find(name + b'\0')
        if i < 0:
            i = len(abbrs); abbrs += name + b'\0'
        t = (off, dst, i)
        if t not in types: types.append(t)
        return types.index(t)
    lmt_i = add_type(lmt[0], False, lmt[1])
    std_i = add_type(r['std_offset'], False, r['std_abbr'])
    times = []; idxs = []
    if bigbang is not None:
        times.append(-2**59); idxs.append(bigbang if bigbang < 2 else lmt_i)
    times.append(C.day_num(start_year, 1, 1) * 86400 - lmt[0]); idxs.append(std_i)
    for (t, name, off, dst) in extra_prefix:
        times.append(t); idxs.append(add_type(off, dst, name))
    if r['dst_abbr'] and not PO.is_all_year_dst(r):
        dst_i = add_type(r['dst_offset'], True, r['dst_abbr'])
        ev = []
        for y in range(first_year, last_year + 1):
            s, e = PO.rule_instants(r, y)
            ev.append((s, dst_i)); ev.append((e, std_i))
        ev.sort()
        for t, i in ev:
            if t > times[-1]:
                times.append(t); idxs.append(i)
    elif r['dst_abbr']:
        dst_i = add_type(r['dst_offset'], True, r['dst_abbr'])
        times.append(C.day_num(first_year, 1, 1) * 86400); idxs.append(dst_i)
    z = TZif(version, times, idxs, types, abbrs, footer if version >= 2 else None)
    return z
