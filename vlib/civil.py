"""
Python oracle for the proleptic Gregorian calendar (independent of cctz and of the Lean model:
it leans on CPython's datetime for one 400-year cycle and on exact integers for the rest),
and the input generators of C04 / C05 / C17.
"""
import datetime
from .common import I64MIN, I64MAX

TAGS = ['second', 'minute', 'hour', 'day', 'month', 'year']
_ORD2000 = datetime.date(2000, 1, 1).toordinal()
_OFF2000 = 10957  # days from 1970-01-01 to 2000-01-01
CYCLE = 146097


def is_leap(y):
    return y % 4 == 0 and (y % 100 != 0 or y % 400 == 0)


def dim(y, m):
    return [31, 29 if is_leap(y) else 28, 31, 30, 31, 30, 31, 31, 30, 31, 30, 31][m - 1]


def day_num(y, m, d):
    """days since 1970-01-01 of the valid date y-m-d (any integer year)"""
    y0 = 2000 + (y % 400)
    return datetime.date(y0, m, d).toordinal() - _ORD2000 + _OFF2000 + ((y - y0) // 400) * CYCLE


def civil_of_day(n):
    k = n - _OFF2000
    c, r = divmod(k, CYCLE)
    dt = datetime.date.fromordinal(_ORD2000 + r)
    return (dt.year + 400 * c, dt.month, dt.day)


def valid(f):
    y, m, d, hh, mm, ss = f
    return 1 <= m <= 12 and 1 <= d <= dim(y, m) and 0 <= hh <= 23 and 0 <= mm <= 59 and 0 <= ss <= 59


def sec_num(f):
    y, m, d, hh, mm, ss = f
    return day_num(y, m, d) * 86400 + hh * 3600 + mm * 60 + ss


def civil_of_sec(s):
    n, r = divmod(s, 86400)
    y, m, d = civil_of_day(n)
    return (y, m, d, r // 3600, (r % 3600) // 60, r % 60)


def unnorm_sec(y, m, d, hh, mm, ss):
    """C04: months are carried into the year first, then days are counted from the first of that month"""
    y2 = y + (m - 1) // 12
    m2 = (m - 1) % 12 + 1
    return (day_num(y2, m2, 1) + d - 1) * 86400 + hh * 3600 + mm * 60 + ss


def align(tag, f):
    y, m, d, hh, mm, ss = f
    return {'second': (y, m, d, hh, mm, ss), 'minute': (y, m, d, hh, mm, 0), 'hour': (y, m, d, hh, 0, 0),
            'day': (y, m, d, 0, 0, 0), 'month': (y, m, 1, 0, 0, 0), 'year': (y, 1, 1, 0, 0, 0)}[tag]


def spec_new(tag, args):
    return align(tag, civil_of_sec(unnorm_sec(*args)))


def tdiv(a, b):
    q = abs(a) // abs(b)
    return q if (a >= 0) == (b >= 0) else -q


def in64(x):
    return I64MIN <= x <= I64MAX


def new_in_bound(args):
    """the representability bound of C04 (as read in DESIGN.md §6 C04 item 5)"""
    y, m = args[0], args[1]
    if not all(in64(a) for a in args): return False
    if not in64(y + tdiv(m, 12)): return False
    if not in64(y + (m - 1) // 12): return False
    return in64(spec_new('second', args)[0])


def unit_num(tag, f):
    y, m, d, hh, mm, ss = f
    if tag == 'second': return sec_num(f)
    if tag == 'minute': return sec_num(f) // 60
    if tag == 'hour': return sec_num(f) // 3600
    if tag == 'day': return day_num(y, m, d)
    if tag == 'month': return 12 * y + (m - 1)
    return y


def of_unit(tag, n):
    if tag == 'second': return civil_of_sec(n)
    if tag == 'minute': return civil_of_sec(n * 60)
    if tag == 'hour': return civil_of_sec(n * 3600)
    if tag == 'day': return civil_of_day(n) + (0, 0, 0)
    if tag == 'month': return (n // 12, n % 12 + 1, 1, 0, 0, 0)
    return (n, 1, 1, 0, 0, 0)


def weekday(y, m, d):
    """Monday = 0"""
    return (day_num(y, m, d) + 3) % 7


def yearday(y, m, d):
    return day_num(y, m, d) - day_num(y, 1, 1) + 1


# ----------------------------------------------------------------------------- generators

MAGS = [0, 1, 2, 11, 12, 13, 23, 24, 25, 27, 28, 29, 30, 31, 32, 59, 60, 61, 365, 366, 367, 1460, 1461, 1462,
        36523, 36524, 36525, 146096, 146097, 146098, 2 * 146097, 86399, 86400, 86401, 2**31 - 1, 2**31, 2**31 + 1, 2**62]


def pick_field(rng):
    r = rng.random()
    if r < 0.55:
        v = rng.choice(MAGS) + rng.choice([0, 0, 1, -1, 7])
        return v if rng.random() < 0.5 else -v
    if r < 0.70:
        return rng.choice([I64MAX, I64MAX - 1, I64MIN, I64MIN + 1, I64MAX - rng.randrange(1000), I64MIN + rng.randrange(1000)])
    if r < 0.85:
        return rng.randrange(I64MIN, I64MAX + 1)
    return rng.randrange(-70, 70)


def pick_year(rng):
    r = rng.random()
    if r < 0.35: return rng.randrange(-500, 2500)
    if r < 0.5: return rng.choice([-1, 0, 1, 4, 100, 400, 1600, 1900, 1970, 2000, 2024, 2100, 2400, -400, -401, -399])
    if r < 0.7:
        base = rng.choice([I64MAX, I64MIN, 2**40, -2**40, 2**62, -2**62, 0])
        y = base + rng.randrange(-900, 900)
        return min(max(y, I64MIN), I64MAX)
    if r < 0.8: return rng.choice([I64MAX, I64MAX - 1, I64MIN, I64MIN + 1, I64MAX - 399, I64MIN + 400])
    return rng.randrange(I64MIN, I64MAX + 1)


def cycle_day(i):
    """i-th day (0 ≤ i < 146097) of the 400-year cycle starting 2000-01-01"""
    dt = datetime.date.fromordinal(_ORD2000 + i)
    return dt.year, dt.month, dt.day


def valid_fields(rng, year=None):
    y = pick_year(rng) if year is None else year
    m = rng.randrange(1, 13)
    r = rng.random()
    d = dim(y, m) if r < 0.25 else (1 if r < 0.4 else rng.randrange(1, dim(y, m) + 1))
    if rng.random() < 0.3:
        hh, mm, ss = rng.choice([(0, 0, 0), (23, 59, 59), (0, 0, 1), (23, 59, 58), (12, 0, 0)])
    else:
        hh, mm, ss = rng.randrange(24), rng.randrange(60), rng.randrange(60)
    return (y, m, d, hh, mm, ss)


def fmt(f):
    return ' '.join(str(x) for x in f)


def parse_fields(s):
    p = s.split()
    if len(p) != 6: return None
    try:
        return tuple(int(x) for x in p)
    except ValueError:
        return None
