"""Check C15 (fixed-offset zones and names)."""
import binascii
from .common import Check, correspond, canon, I64MIN, I64MAX
from . import civil as C

THEOREMS = {'C15': ['Cctz.C15.toName', 'Cctz.C15.toAbbr', 'Cctz.C15.fromName_toName', 'Cctz.C15.fromName_iff', 'Cctz.C15.constants']}
PREFIX = b'Fixed/UTC'


def hx(b):
    return binascii.hexlify(b).decode() if b else '-'


def spec_name(off):
    """the documented canonical name of fixed_time_zone(off)"""
    if off == 0 or abs(off) > 86400: return b'UTC'
    a = abs(off)
    return PREFIX + (b'+' if off > 0 else b'-') + b'%02d:%02d:%02d' % (a // 3600, a // 60 % 60, a % 60)


def spec_abbr(off):
    """sign and two-digit hours, followed by minutes, and by seconds, only as far as they are non-zero"""
    if off == 0 or abs(off) > 86400: return b'UTC'
    a = abs(off)
    s = (b'+' if off > 0 else b'-') + b'%02d' % (a // 3600)
    if a % 3600 == 0: return s
    s += b'%02d' % (a // 60 % 60)
    if a % 60 == 0: return s
    return s + b'%02d' % (a % 60)


def spec_from_name(name):
    """a string is a fixed-offset name only if it is 'UTC', 'UTC0' or has exactly the canonical shape
    and spells a total of at most 24 hours"""
    if name in (b'UTC', b'UTC0'): return 0
    if len(name) != len(PREFIX) + 9 or not name.startswith(PREFIX): return None
    r = name[len(PREFIX):]
    if r[0:1] not in (b'+', b'-') or r[3:4] != b':' or r[6:7] != b':': return None
    ds = r[1:3] + r[4:6] + r[7:9]
    if not all(48 <= c <= 57 for c in ds): return None
    h, m, s = int(r[1:3]), int(r[4:6]), int(r[7:9])
    total = (h * 60 + m) * 60 + s
    if total > 86400: return None
    return -total if r[0:1] == b'-' else total


INSTANTS = [I64MIN, I64MIN + 1, -2**59, -2**59 - 1, -2**31, -1, 0, 1, 1420070400, 1735689599, 1735689600, 2**31 - 1, 2**59, I64MAX - 86400, I64MAX]


def mutate_name(rng, name):
    b = bytearray(name)
    r = rng.random()
    if r < 0.25 and b:
        i = rng.randrange(len(b)); b[i] = rng.choice(b'0123456789:+-/ \x00\x01\xffAz') if rng.random() < 0.8 else rng.randrange(256)
    elif r < 0.4 and b:
        del b[rng.randrange(len(b))]
    elif r < 0.55:
        b.insert(rng.randrange(len(b) + 1), rng.choice(b'0123456789:+-\x00 '))
    elif r < 0.7 and len(b) >= 18:
        # digit fields beyond their ranges
        for pos in rng.sample([10, 11, 13, 14, 16, 17], rng.randrange(1, 3)):
            b[pos] = rng.choice(b'0123456789')
    elif r < 0.8:
        b = bytearray(PREFIX + rng.choice([b'+', b'-']) + rng.choice([b'24:00:00', b'24:00:01', b'23:59:60', b'23:60:00', b'00:00:00', b'99:99:99', b'25:00:00', b'24:59:59']))
    elif r < 0.9:
        b = bytearray(name.lower() if rng.random() < 0.5 else name.upper())
    else:
        b = bytearray(rng.choice([b'UTC', b'UTC0', b'UTC1', b'utc', b'UTC+0', b'', b'Fixed/UTC', b'GMT', b'UTC\x00', b'UTC0\x00']))
    return bytes(b)


def run_C15(chk):
    chk.prepare_model(['Cctz.Properties.C15', 'Cctz.Properties.C01'], THEOREMS['C15'] + ['Cctz.C01.fixed_table', 'Cctz.C01.fixed_lookup'])
    exe = chk.harness('san')
    scale = chk.tier if not (chk.broken or chk.degraded) else 'thorough'
    if exe is None or not getattr(chk, 'driver_ok', False):
        return chk.finish()
    rng = chk.rng
    lines = []; meta = []
    offs = list(range(-90000, 90001))
    # far beyond 24 h, in particular values whose low 32 bits spell an offset within 24 h
    big = []
    for k in (1, -1, 2, -2, 3, 2**20, -2**20, 2**30, -2**30, 2**31 - 1, -2**31):
        for sv in (0, 1, -1, 3600, -3600, 86399, -86399, 86400, -86400, 19800, rng.randrange(-86400, 86401)):
            v = k * 2**32 + sv
            if I64MIN <= v <= I64MAX: big.append(v)
    big += [2**31 - 1, 2**31, -2**31, -2**31 - 1, 2**31 + 3600, -2**31 + 3600, I64MAX, I64MIN, I64MAX - 86399, I64MIN + 86399, I64MIN + 86400, 2**32, -2**32, 2**32 + 3600]
    offs += sorted(set(big))
    for off in offs:
        lines.append('fixname %d' % off); meta.append(('name', off))
        lines.append('fixabbr %d' % off); meta.append(('abbr', off))
        lines.append('fixfrom ' + hx(spec_name(off))); meta.append(('from', spec_name(off)))
    # lookups: zone per offset
    if scale == 'quick':
        zoffs = sorted(set(big + [o for o in offs if o % 900 == 0] + [86400, -86400, 86399, -86399, 86401, -86401, 1, -1, 59, -59, 60, -60, 3599, -3599, 3601]
                           + [rng.randrange(-90000, 90001) for _ in range(1500)]))
    else:
        zoffs = offs
    for off in zoffs:
        lines.append('fixid %d' % off); meta.append(('id', off))
        zid = 'f%d' % off
        lines.append('fixzone %s %d' % (zid, off)); meta.append(('zone', off))
        for t in (INSTANTS if scale != 'quick' else rng.sample(INSTANTS, 6) + [I64MIN, I64MAX]):
            lines.append('bt %s %d' % (zid, t)); meta.append(('bt', (off, t)))
        lines.append('nt %s %d' % (zid, rng.choice(INSTANTS))); meta.append(('tr', off))
        lines.append('pt %s %d' % (zid, rng.choice(INSTANTS))); meta.append(('tr', off))
        # the built-in table has yearly entries that change nothing (2015…2025): a transition query right after a lookup in the same year
        for yy in rng.sample(range(2015, 2026), 3):
            tt = C.day_num(yy, 1, 1) * 86400
            lines.append('bt %s %d' % (zid, tt + 100)); meta.append(('bt', (off, tt + 100)))
            lines.append('nt %s %d' % (zid, tt + 200)); meta.append(('tr', off))
            lines.append('bt %s %d' % (zid, tt + 300)); meta.append(('bt', (off, tt + 300)))
            lines.append('pt %s %d' % (zid, tt + 86400 * 400)); meta.append(('tr', off))
        lines.append('drop %s' % zid); meta.append(('drop', off))
    # name mutations
    for _ in range(100000 if scale == 'quick' else 1500000):
        nm = mutate_name(rng, spec_name(rng.choice([rng.randrange(-86400, 86401), 86400, -86400, 3600, -1, 19800])))
        lines.append('fixfrom ' + hx(nm)); meta.append(('from', nm))
    mo, io, mism = correspond(chk, lines, exe, 'fixed')
    nontriv = set()
    for i, (kind, a) in enumerate(meta):
        out = io[i]
        bad = None
        if kind == 'name':
            want = hx(spec_name(a))
            if out != want: bad = 'FixedOffsetToName(%d) = %s, documented name is %s' % (a, out, want)
        elif kind == 'abbr':
            want = hx(spec_abbr(a))
            if out != want: bad = 'abbreviation of offset %d is %s, documented form is %s' % (a, out, want)
        elif kind == 'from':
            w = spec_from_name(a)
            want = 'none' if w is None else str(w)
            chk.count('fromName:' + ('accept' if w is not None else 'reject'))
            if out != want:
                bad = 'FixedOffsetFromName(%r) = %s, the documented shape says %s' % (a, out, want)
        elif kind == 'id':
            eff = a if abs(a) <= 86400 else 0
            want = 'ok %d' % eff
            if out != want: bad = 'fixed_time_zone(%d): name round trip / identity gives `%s`, expected `%s`' % (a, out, want)
        elif kind == 'zone':
            want = 'ok ' + hx(spec_name(a))
            if out != want: bad = 'fixed_time_zone(%d).name() = %s, expected %s' % (a, out, want)
        elif kind == 'bt':
            off, t = a
            eff = off if abs(off) <= 86400 else 0
            cs = C.civil_of_sec(t + eff)
            want = '%s %d 0 %s' % (C.fmt(cs), eff, hx(spec_abbr(off)))
            if out != want: bad = 'fixed_time_zone(%d).lookup(%d) = `%s`, expected `%s`' % (off, t, out, want)
        elif kind == 'tr':
            if out != 'none': bad = 'fixed_time_zone(%d) reports a transition: %s' % (a, out)
        if bad:
            sig = '%s %r' % (kind, a) if kind == 'from' else kind
            chk.report(bad, {'op': lines[i], 'implementation': out, 'model': mo[i]}, sig=bad)
        elif kind != 'drop':
            nontriv.add(lines[i])
    for i in mism[:20]:
        chk.broken.append('correspondence: op `%s` model=`%s` implementation=`%s`' % (lines[i], mo[i], io[i]))
    chk.cov['distinct_nontrivial'] = len(nontriv)
    chk.cov['exhaustive'] = (scale != 'quick')
    chk.cov['rule'] = ('every offset in [-90000, 90000]: FixedOffsetToName, FixedOffsetToAbbr, FixedOffsetFromName(canonical name); '
                       'for %s: fixed_time_zone(off) name/identity round trip via load_time_zone (no data source consulted), lookup at instants spread over int64, '
                       'next/prev_transition; 10^5+ mutated names (width, sign, separators, digits > 59, 24:00:01, case, NUL bytes); each compared model vs implementation '
                       'and against the documented forms written independently in Python; non-trivial = distinct ops that agreed with the documented form') % (
                        'offsets that are multiples of 15 min, the +-24h edge and 1500 random ones (quick)' if scale == 'quick' else 'every offset')
    for i in (0, 1, 2, len(lines) // 2, len(lines) - 1):
        chk.sample({'op': lines[i], 'model': mo[i], 'implementation': io[i]})
    return chk.finish()


REGISTRY = {'C15': run_C15}
