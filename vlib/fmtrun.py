"""Evaluating the format/parse ops of the model, whose strftime/strptime parameters are answered by the
real C library (ctypes): strftime runs are rendered by the comparer, strptime queries are answered
through an oracle table appended to the op line (a `MISS` answer adds an entry and re-runs)."""
from .common import run_model
from . import cfmt
from .zones import hx


def unhex(s):
    return b'' if s == '-' else bytes.fromhex(s)


def render_fmt(model_out):
    """'F <tm> <segs…>' -> 'F <hex of the rendered string>' (other outputs unchanged)"""
    p = model_out.split()
    if not p or p[0] != 'F': return model_out
    tm = p[1].split(',')
    out = b''
    for sg in p[2:]:
        body = unhex(sg[1:])
        out += body if sg[0] == 'L' else cfmt.format_tm(body, tm)
    return 'F ' + hx(out)


def run_model_fmt(lines, max_rounds=8):
    """run_model for blocks containing fmt/parse ops; returns outputs with fmt rendered and parse resolved"""
    lines = list(lines)
    for _ in range(max_rounds):
        mo = run_model(lines)
        again = False
        for i, o in enumerate(mo):
            if o.startswith('MISS '):
                _, spec, data, tm = o.split()
                r = cfmt.strptime(unhex(data), unhex(spec), tm.split(','))
                if r is None: ent = '%s:%s:%s:-1:0' % (spec, data, tm)
                else: ent = '%s:%s:%s:%d:%s' % (spec, data, tm, r[0], ','.join(str(x) for x in r[1]))
                lines[i] += ' ' + ent
                again = True
        if not again: break
    return [render_fmt(o) for o in mo]
