"""Check C18 (sub-second time points floor toward the past)."""
from fractions import Fraction
from .common import Check, correspond, canon, I64MIN, I64MAX

THEOREMS = {'C18': ['Cctz.C18.split_floor', 'Cctz.C18.split_ok', 'Cctz.C18.join_coarse', 'Cctz.C18.join_rep', 'Cctz.C18.femto',
                    'Cctz.C18Join.join_fine_floor', 'Cctz.C18Join.join_fine_ok', 'Cctz.C18Join.split_join', 'Cctz.C18Join.join_fine_monotone']}

# (N, D, rep tag, rep min, rep max)
PANEL = [(1, 10**9, 'i64', I64MIN, I64MAX), (1, 10**6, 'i64', I64MIN, I64MAX), (1, 10**3, 'i64', I64MIN, I64MAX),
         (1, 1, 'i64', I64MIN, I64MAX), (60, 1, 'i32', -2**31, 2**31 - 1), (3600, 1, 'i32', -2**31, 2**31 - 1),
         (1, 1, 'i8', -128, 127), (1, 1, 'i16', -2**15, 2**15 - 1), (60, 1, 'i8', -128, 127), (60, 1, 'i16', -2**15, 2**15 - 1),
         (1, 3, 'i64', I64MIN, I64MAX), (1, 10**15, 'i64', I64MIN, I64MAX)]
JOIN_COARSE = [(1, 'i64', I64MIN, I64MAX), (60, 'i32', -2**31, 2**31 - 1), (3600, 'i32', -2**31, 2**31 - 1), (1, 'i8', -128, 127),
               (1, 'i16', -2**15, 2**15 - 1), (60, 'i8', -128, 127), (60, 'i16', -2**15, 2**15 - 1), (60, 'i64', I64MIN, I64MAX),
               (1, 'i32', -2**31, 2**31 - 1), (86400, 'i64', I64MIN, I64MAX), (3600, 'i16', -2**15, 2**15 - 1)]


def pick_count(rng, lo, hi, D):
    r = rng.random()
    if r < 0.3:
        k = rng.randrange(-5, 6) * D + rng.choice([0, 1, -1, D - 1, -(D - 1), D // 2, D // 3, D + 1])
    elif r < 0.5:
        k = rng.choice([lo, hi, lo + 1, hi - 1, lo + rng.randrange(0, 5 * D + 5), hi - rng.randrange(0, 5 * D + 5)])
    elif r < 0.8:
        k = rng.randrange(max(lo, -10**6 * D), min(hi, 10**6 * D) + 1)
    else:
        k = rng.randrange(lo, hi + 1)
    return min(max(k, lo), hi)


def subapi_want(N, D, c):
    """what the `subapi` op must print for a time_point of c ticks of N/D s (exact rational arithmetic); None: outside the second range"""
    from . import civil as CV
    x = Fraction(c * N, D)
    sec = x.numerator // x.denominator
    if not (I64MIN + 1 <= sec <= I64MAX): return None
    fs = (x - sec) * 10**15
    fs = fs.numerator // fs.denominator
    cs = CV.civil_of_sec(sec)
    frac = ('%015d' % fs).rstrip('0')
    ys = ('-' if cs[0] < 0 else '') + str(abs(cs[0]))
    txt = '%s-%02d-%02d %02d:%02d:%02d%s' % (ys, cs[1], cs[2], cs[3], cs[4], cs[5], ('.' + frac) if frac else '')
    d15 = '%015d' % fs
    txt += '|%02d.%s|%s|%02d.%s|%d' % (cs[5], d15, d15[:12], cs[5], d15[:3], sec)
    return 'S %s | %s | %s' % (CV.fmt(cs), CV.fmt(cs), txt.encode().hex())


def run_C18(chk):
    chk.prepare_model(['Cctz.Properties.C18', 'Cctz.Properties.C18Join', 'Cctz.Properties.C07Whole'], THEOREMS['C18'] + ['Cctz.C07Whole.frac_truncated', 'Cctz.C07Whole.frac_star'])
    exe = chk.harness('san')
    scale = chk.tier if not (chk.broken or chk.degraded) else 'thorough'
    if exe is None or not getattr(chk, 'driver_ok', False):
        return chk.finish()
    rng = chk.rng
    per = 20000 if scale == 'quick' else 200000
    lines = []; meta = []
    for (N, D, rep, lo, hi) in PANEL:
        for _ in range(per):
            c = pick_count(rng, lo, hi, D)
            lines.append('split %d %d %d %s' % (N, D, c, rep)); meta.append(('split', N, D, c))
        if D > 1:   # every remainder class near the epoch for small D, sampled for large
            for c in (range(-3 * D, 3 * D + 1) if D <= 1000 else [rng.randrange(-3 * D, 3 * D + 1) for _ in range(4000)]):
                lines.append('split %d %d %d %s' % (N, D, c, rep)); meta.append(('split', N, D, c))
    # the public templates (lookup / convert / format of a time_point<D>) must use the same floor
    for (N, D, rep, lo, hi) in PANEL:
        for _ in range(per // 10):
            c = pick_count(rng, lo, hi, D)
            if D >= 1000 and rng.random() < 0.3:
                # a fraction with few significant digits: x·10^k ticks past a whole second (every "last non-zero digit" position)
                k = rng.randrange(0, len(str(D)) - 1)
                c = rng.randrange(-3, 4) * D + rng.choice([-1, 1]) * rng.randrange(1, 1000) * 10**k
                c = min(max(c, lo), hi)
            lines.append('subapi %d %d %d %s' % (N, D, c, rep)); meta.append(('subapi', N, D, c))
    for (Num, rep, lo, hi) in JOIN_COARSE:
        for _ in range(per // 2):
            r = rng.random()
            if r < 0.4: sec = rng.choice([lo, hi, lo - 1, hi + 1]) * Num + rng.randrange(-Num - 1, Num + 2)
            elif r < 0.7: sec = rng.randrange(-5 * Num, 5 * Num + 1)
            else: sec = rng.randrange(I64MIN, I64MAX + 1)
            sec = min(max(sec, I64MIN), I64MAX)
            # the femtosecond remainder parse() hands over is non-negative and must not influence the floor
            jfs = rng.choice([0, 0, 1, 500000000000000, 999999999999999, rng.randrange(10**15)])
            if rng.random() < 0.4 and Num > 1 and I64MIN <= (sec // Num) * Num: sec = (sec // Num) * Num      # exactly on a tick boundary
            lines.append('joinc %d %d %d %d %s %d' % (Num, lo, hi, sec, rep, jfs)); meta.append(('joinc', Num, lo, hi, sec))
    # the public parse() template into those targets: text -> detail::parse -> join_seconds, with the seconds
    # field at 59 / 60 / 00 around tick boundaries and around the limits of the representation
    from . import civil as CV
    for (Num, rep, lo, hi) in JOIN_COARSE:
        for _ in range(per // 20):
            r = rng.random()
            if r < 0.4: sec = rng.choice([lo, hi, lo - 1, hi + 1, lo + 1, hi - 1]) * Num + rng.choice([-61, -60, -2, -1, 0, 1, 59, 60, Num - 1, Num, Num + 1])
            elif r < 0.7: sec = rng.randrange(-3 * Num - 120, 3 * Num + 121)
            else: sec = rng.randrange(-10**11, 10**11)
            if not (-10**15 < sec < 10**15): sec = rng.randrange(-10**9, 10**9)
            leap = rng.random() < 0.5           # spell the second as :60 of the minute before when it is a :00
            cs = CV.civil_of_sec(sec)
            if leap and cs[5] == 0:
                c1 = CV.civil_of_sec(sec - 1)
                txt = '%d-%02d-%02d %02d:%02d:60' % c1[:5]
            else:
                txt = '%d-%02d-%02d %02d:%02d:%02d' % cs
            lines.append('subparse %d %d %d %s %s' % (Num, lo, hi, rep, txt.encode().hex())); meta.append(('subparse', Num, lo, hi, sec, txt))
    # floating-point representations with a period of one second or coarser: values num / 2^e, exact in float and double
    for (N, rep) in ((1, 'f64'), (60, 'f64'), (3600, 'f64'), (86400, 'f64'), (1, 'f32'), (3600, 'f32')):
        for _ in range(per // 40):
            e = rng.choice([1, 2, 3, 4, 8, 10])
            num = rng.choice([-1, 1, -3, 3, rng.randrange(-2000, 2000), rng.randrange(-2**20, 2**20) if rep == 'f64' else rng.randrange(-2**12, 2**12)])
            lines.append('subfloat %d %d %d %s' % (N, num, e, rep)); meta.append(('subfloat', N, num, e))
    for D in (10**3, 10**6, 10**9, 10**15):
        for _ in range(per // 4):
            lim = I64MAX // D
            sec = rng.choice([rng.randrange(-lim - 3, lim + 4), rng.randrange(-1000, 1000), lim, -lim, lim + 1, -lim - 1])
            fs = rng.choice([0, 1, 10**15 - 1, rng.randrange(10**15), (10**15 // D) * rng.randrange(D)])
            lines.append('joinf %d %d %d' % (D, sec, fs)); meta.append(('joinf', D, sec, fs))
    mo, io, mism = correspond(chk, lines, exe, 'split')
    nontriv = set()
    for i, m in enumerate(meta):
        out = io[i]
        if m[0] == 'split':
            _, N, D, c = m
            x = Fraction(c * N, D)
            sec = x.numerator // x.denominator
            if not (I64MIN + 1 <= sec <= I64MAX): 
                chk.count('split:outside-second-range'); continue
            sub_ticks = (x - sec) / Fraction(N, D)
            fs = (x - sec) * 10**15
            want_sub = sub_ticks.numerator // sub_ticks.denominator
            want_fs = fs.numerator // fs.denominator
            want = '%d %d %d' % (sec, want_sub, want_fs)
            chk.count('split:%s' % ('negative-fraction' if c < 0 and (c * N) % D else 'other'))
            if out != want:
                chk.report('split_seconds of %d ticks of %d/%d s = `%s`; floor semantics give `%s` (second, remainder ticks, femtoseconds)' % (c, N, D, out, want),
                           {'op': lines[i], 'implementation': out, 'model': mo[i], 'specification': want}, sig='split ' + canon(out)[:6])
            else: nontriv.add(lines[i])
        elif m[0] == 'subapi':
            _, N, D, c = m
            want = subapi_want(N, D, c)
            if want is None: continue
            chk.count('subapi')
            if out != want:
                chk.report('lookup/convert/format of a time_point of %d ticks of %d/%d s give `%s`; the whole second at or below the instant and the truncated fraction give `%s`' % (c, N, D, out, want),
                           {'op': lines[i], 'implementation': out, 'model': mo[i], 'specification': want}, sig='subapi')
            else: nontriv.add(lines[i])
        elif m[0] == 'joinc':
            _, Num, lo, hi, sec = m
            q = sec // Num
            want = 'ok %d' % q if lo <= q <= hi else 'false'
            chk.count('joinc:' + want.split()[0])
            if out != want:
                chk.report('join_seconds(%d s) into %d-second ticks of range [%d,%d] = `%s`, expected `%s`' % (sec, Num, lo, hi, out, want),
                           {'op': lines[i], 'implementation': out, 'model': mo[i], 'specification': want})
            else: nontriv.add(lines[i])
        elif m[0] == 'subfloat':
            _, N, num, e = m
            sec = (num * N) // 2**e
            cs = CV.civil_of_sec(sec)
            want = 'S %s | %s' % (CV.fmt(cs), CV.fmt(cs))
            chk.count('subfloat:%s' % ('negative-fraction' if num < 0 and (num * N) % 2**e else 'other'))
            if out != want:
                chk.report('lookup/convert of a floating-point time_point of %d/2^%d ticks of %d s give `%s`; the whole second at or below the instant is `%s`' % (num, e, N, out, want),
                           {'op': lines[i], 'implementation': out, 'model': mo[i], 'specification': want}, sig='subfloat')
            else: nontriv.add(lines[i])
        elif m[0] == 'subparse':
            _, Num, lo, hi, sec, txt = m
            q = sec // Num
            want = 'ok %d' % q if lo <= q <= hi else 'false'
            chk.count('subparse:' + want.split()[0] + (':60' if txt.endswith(':60') else ''))
            if out != want:
                chk.report('parse("%%Y-%%m-%%d %%H:%%M:%%S", "%s") into %d-second ticks of range [%d,%d] = `%s`, expected `%s` (floor, failure when it does not fit)' % (txt, Num, lo, hi, out, want),
                           {'op': lines[i], 'implementation': out, 'model': mo[i], 'specification': want}, sig='subparse')
            else: nontriv.add(lines[i])
        else:
            _, D, sec, fs = m
            v = sec * D + fs * D // 10**15
            if not (I64MIN <= sec * D <= I64MAX and I64MIN <= v <= I64MAX):
                chk.count('joinf:unrepresentable'); continue   # outside C18 (sub-second targets are not range-checked)
            want = 'ok %d' % v
            chk.count('joinf:ok')
            if out != want:
                chk.report('join_seconds(%d s, %d fs) into 1/%d-second ticks = `%s`, expected `%s`' % (sec, fs, D, out, want),
                           {'op': lines[i], 'implementation': out, 'model': mo[i], 'specification': want})
            else: nontriv.add(lines[i])
    for i in mism[:20]:
        chk.broken.append('correspondence: op `%s` model=`%s` implementation=`%s`' % (lines[i], mo[i], io[i]))
    chk.cov['distinct_nontrivial'] = len(nontriv)
    chk.cov['rule'] = ('split_seconds instantiated for the panel of the property (int64 nano/micro/milli/seconds, int32 minutes/hours, int8/int16 seconds/minutes, 1/3-second, femtosecond ticks): '
                       'counts at every remainder class around the epoch, at each representation limit, random; join_seconds for whole-second-or-coarser targets (floor + range check) and sub-second targets; '
                       'the public parse() template into the same targets (seconds field 59/60/00 around tick boundaries and limits); compared model vs implementation (value and UB flag) and against exact rational arithmetic in Python; non-trivial = distinct ops that matched the exact value')
    chk.assumptions.append("libstdc++ duration_cast/time_point_cast follow the standard's formula (modelled, not verified)")
    for i in (0, per, len(lines) // 2, len(lines) - 1):
        chk.sample({'op': lines[i], 'model': mo[i], 'implementation': io[i]})
    return chk.finish()


REGISTRY = {'C18': run_C18}
