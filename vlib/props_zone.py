"""Checks on loaded zones: C01, C02, C03, C06, C10, C11, C14."""
import os
import bisect, concurrent.futures
from .common import (align_zone_lines, Check, canon, ub_site, enclosing_function, run_model, run_lines, I64MIN, I64MAX, NCPU, log)
from . import civil as C
from . import zones as Z
from . import tzif as T

THEOREMS = {'C01': ['Cctz.C01.breakTime_table', 'Cctz.C01.breakTime_shift', 'Cctz.C01.fixed_table', 'Cctz.C01.fixed_lookup',
                    'Cctz.C01Rule.tables', 'Cctz.C01Rule.transOffset', 'Cctz.C01Rule.ruleDay_periodic', 'Cctz.C01Rule.ruleInstant_periodic',
                    'Cctz.C01Rule.extendLoop_state', 'Cctz.C01Rule.extendLoop_trans',
                    'Cctz.C01Decode.decode', 'Cctz.C01Decode.load_decodes', 'Cctz.C01Decode.isTzif_unique', 'Cctz.C01Decode.load_content',
                    'Cctz.C01Decode.load_rejects', 'Cctz.C01Decode.load_accepts',
                    'Cctz.C01Glue.lookup_follows_rule', 'Cctz.C01Glue.regular_of_civilYear', 'Cctz.C01Glue.regular_needed',
                    'Cctz.C01Glue.first_wording_false', 'Cctz.C01Glue.extendedBy_degenerate'],
            'C02': ['Cctz.C02.farApart_separated', 'Cctz.C02.makeTime', 'Cctz.C02.shift', 'Cctz.C02.makeTime_needs_TimesInRange', 'Cctz.C02.shift_needs_after_last',
                    'Cctz.Seam.offFull_hint', 'Cctz.Seam.offFull_table', 'Cctz.Seam.offFull_period', 'Cctz.Seam.makeTime_full', 'Cctz.Seam.makeTime_clamped',
                    'Cctz.Seam.seamOKb_iff', 'Cctz.Seam.seamOK_notExtended', 'Cctz.Seam.seamOK_of_rule', 'Cctz.Seam.makeTime_full_needs_SeamOK'],
            'C03': ['Cctz.C03.roundtrip', 'Cctz.C03.converse', 'Cctz.Seam.roundtrip_full', 'Cctz.Seam.roundtrip_full_needs_SeamOK', 'Cctz.Seam.roundtrip_full_needs_ShiftRoom'],
            'C06': ['Cctz.C06.convert_monotone', 'Cctz.C06.convert_def', 'Cctz.C06.convert_monotone_needs_TimesInRange', 'Cctz.C06.convert_monotone_needs_FirstEntryRoom',
                    'Cctz.Seam.convert_monotone_full', 'Cctz.Seam.convert_monotone_needs_SeamOK', 'Cctz.Seam.convert_monotone_needs_below'],
            'C10': ['Cctz.C10.saturate_max', 'Cctz.C10.saturate_max_small', 'Cctz.C10.saturate_min', 'Cctz.C10.saturate_min_small',
                    'Cctz.C10.max_roundtrip', 'Cctz.C10.min_roundtrip', 'Cctz.C10.saturate_max_needs_time_bound',
                    'Cctz.C10Safe.makeTime_ok', 'Cctz.C10Safe.convert_ok', 'Cctz.C10Safe.transitions_ok', 'Cctz.C10Safe.results_in_range',
                    'Cctz.C10Safe.breakTime_ok_partial', 'Cctz.C10Safe.breakTime_ok_below_max', 'Cctz.C10Safe.breakTime_ok_nonextended', 'Cctz.C10Safe.breakTime_ok_counterexample',
                    'Cctz.C10Check.checker_sound', 'Cctz.C10Check.checker_complete', 'Cctz.C10Check.checked_zone_safe', 'Cctz.C10Check.checked_zone_results_in_range'],
            'C11': ['Cctz.C11.nextTransition_spec', 'Cctz.C11.prevTransition_spec', 'Cctz.C11.ends', 'Cctz.C11.no_change', 'Cctz.C11.chain', 'Cctz.C11.constants',
                    'Cctz.C11Sub.order', 'Cctz.C11Sub.nextSub_spec', 'Cctz.C11Sub.prevSub_spec', 'Cctz.C11Sub.floor_alone_misses'],
            'C14': ['Cctz.C14.breakTime_hint_irrelevant', 'Cctz.C14.makeTime_hint_irrelevant', 'Cctz.C14.convert_hint_irrelevant', 'Cctz.C14.history_irrelevant']}
K400 = Z.K400


def clamp(t):
    return min(max(t, I64MIN), I64MAX)


def run_blocks(chk, exe, blocks, label):
    """blocks: list of lists of op lines (each block self-contained: starts with its `zone` line).
    Returns (model outputs, implementation outputs) as lists parallel to blocks."""
    groups = [[] for _ in range(min(NCPU, max(1, len(blocks))))]
    sizes = [0] * len(groups)
    for bi in sorted(range(len(blocks)), key=lambda i: -len(blocks[i])):
        g = sizes.index(min(sizes)); groups[g].append(bi); sizes[g] += len(blocks[bi])
    def work(g):
        lines = []; starts = []
        for bi in g:
            starts.append(len(lines)); lines.extend(blocks[bi])
        if not lines: return [], []
        m, i = run_model(lines), run_lines(exe, lines, block_starts=starts)
        align_zone_lines(m, i)
        return m, i
    mo = [None] * len(blocks); io = [None] * len(blocks)
    with concurrent.futures.ThreadPoolExecutor(max_workers=len(groups)) as ex:
        for g, (m, i) in zip(groups, ex.map(work, groups)):
            p = 0
            for bi in g:
                n = len(blocks[bi]); mo[bi] = m[p:p + n]; io[bi] = i[p:p + n]; p += n
    n = sum(len(b) for b in blocks)
    chk.cov['evaluations'] += n
    chk.cov['traces_validated_against_impl'] += n
    chk.count(label + ':ops', n)
    return mo, io


def note_mismatches(chk, blocks, mo, io, label, limit=20, report_what=None):
    """model/implementation disagreements.  Ops on a zone whose load already raised undefined
    behaviour (on either side) are not comparable — the C++ continues with wrapped values — and are skipped."""
    k = 0
    for b, m, i in zip(blocks, mo, io):
        tainted = set()
        for l, a, c in zip(b, m, i):
            p = l.split()
            if l.startswith(('zone ', 'fixzone ', 'namezone ')) and (a.startswith('UB') or c.startswith('UB')):
                tainted.add(p[1])
                if canon(c).split()[:1] != a.split()[:1]:
                    pass
            elif len(p) > 1 and p[1] in tainted:
                chk.count(label + ':skipped-after-UB-load')
                continue
            if p and p[0] == 'preds':
                # model-only: which theorem hypotheses hold of this zone (recorded in the evidence)
                for kv in a.split():
                    if '=' in kv: chk.count('hypothesis:' + kv)
                continue
            if canon(c) != a:
                k += 1
                if len([x for x in chk.broken if x.startswith('correspondence')]) < limit:
                    chk.broken.append('correspondence: zone block `%s` op `%s` model=`%s` implementation=`%s`' % (b[0][:40], l[:100], a[:160], c[:160]))
                if report_what and not (c.startswith('UB') or c.startswith('CRASH')) and k <= 50:
                    # no independent expectation for this op: the model, whose behaviour here is the proved one, is the
                    # reference; the deviating input is the replay
                    chk.report('%s: `%s` = `%s`, but %s gives `%s`' % (b[0].split()[1], ' '.join(l.split()[:1] + l.split()[2:]), c, report_what, a),
                               {'zone_definition': b[0][:20000], 'op': l, 'implementation': c, 'model': a}, sig='deviates from the model')
    chk.count(label + ':mismatch', k)
    return k


def site_sig(out):
    s = ub_site(out)
    if not s: return canon(out)
    return '%s in %s' % (canon(out), enclosing_function(*s))


def zid(i): return 'z%d' % i


def load_line(i, zone, mode='loose'):
    return 'zone %s %s %s' % (zid(i), mode, Z.hx(zone.data))


def preds_line(i):
    return 'preds %s' % zid(i)


def pick_corpus(chk, scale):
    return Z.corpus(chk.rng, n_real=150 if scale == 'quick' else None)


def parse_bt(out):
    p = out.split()
    if len(p) != 9: return None
    try:
        return tuple(int(x) for x in p[:6]), int(p[6]), p[7] == '1', p[8]
    except ValueError:
        return None


def parse_mt(out):
    p = out.split()
    if len(p) != 4 or p[0] not in ('UNIQUE', 'SKIPPED', 'REPEATED'): return None
    try:
        return p[0], int(p[1]), int(p[2]), int(p[3])
    except ValueError:
        return None


def expected_bt(zone, t):
    off, dst, abbr = zone.offset_at(t)
    cs = C.civil_of_sec(t + off)
    return '%s %d %d %s' % (C.fmt(cs), off, 1 if dst else 0, Z.hx(abbr))


# ------------------------------------------------------------------------------------ C01

def run_C01(chk):
    chk.prepare_model(['Cctz.Properties.C01', 'Cctz.Properties.C01Rule', 'Cctz.Properties.C01Decode', 'Cctz.Properties.C01Glue'], THEOREMS['C01'])
    exe = chk.harness('san')
    scale = chk.tier if not (chk.broken or chk.degraded) else 'thorough'
    if exe is None or not getattr(chk, 'driver_ok', False):
        return chk.finish()
    zones = pick_corpus(chk, scale) + Z.untame_zones() + Z.irregular_zones()
    blocks = []; meta = []
    for i, zn in enumerate(zones):
        ts = Z.probe_instants(zn, chk.rng, per_transition=3 if scale == 'quick' else 8, n_random=60 if scale == 'quick' else 400)
        blocks.append([load_line(i, zn)] + ['bt %s %d' % (zid(i), t) for t in ts] + [preds_line(i)]); meta.append(ts)
    mo, io = run_blocks(chk, exe, blocks, 'lookup')
    note_mismatches(chk, blocks, mo, io, 'lookup')
    good = 0
    for zn, b, m, i, ts in zip(zones, blocks, mo, io, meta):
        chk.count('zones:' + zn.kind)
        if not i[0].startswith('ok'):
            chk.report('zone file %s (a file of the kind zic produces) does not load: %s' % (zn.name, i[0]),
                       {'zone': zn.name, 'tzif_hex': Z.hx(zn.data), 'implementation': i[0], 'model': m[0]}, sig='load ' + zn.name)
            continue
        for t, out in zip(ts, i[1:]):
            want = expected_bt(zn, t)
            if out != want:
                chk.report('%s: lookup(%d) = `%s`; the TZif data assigns `%s` (civil fields, offset, dst, abbreviation hex)' % (zn.name, t, out, want),
                           {'zone': zn.name, 'tzif_hex': Z.hx(zn.data), 'op': 'bt %d' % t, 'implementation': out, 'specification': want},
                           sig='%s bt %s' % (zn.name, site_sig(out)))
            else:
                good += 1
                if zn.z.times and t >= zn.z.times[-1]: chk.count('instants:after-last-recorded')
                elif zn.z.times and t < zn.z.times[0]: chk.count('instants:before-first')
                else: chk.count('instants:recorded-part')
    chk.cov['distinct_nontrivial'] = good
    chk.cov['zones'] = len(zones)
    chk.cov['rule'] = ('zones: %s shipped TZif files plus a synthetic family written by our own TZif writer (Mm.w.d / Jn / n dates, negative and >24h rule times, southern order, '
                       'all-year DST, no footer, version 1, fat/slim, sub-minute offsets, big-bang entry, no-op / isdst-only / abbreviation-only transitions); instants: each transition +-k, first/last, '
                       'the last-recorded-year seam, rule instants of generated years, the same + k*400 years up to max(), min(), max(), +-2^59, +-2^31, random; each lookup compared model vs implementation and '
                       'against an independent TZif reader + POSIX-rule evaluator in Python; non-trivial = distinct (zone, instant) pairs that matched the specification') % (
                        '150 (rotating by seed, a fixed set of edge-case zones always)' if scale == 'quick' else 'all')
    for bi in (0, len(blocks) // 2, len(blocks) - 1):
        chk.sample({'zone': zones[bi].name, 'op': blocks[bi][5], 'model': mo[bi][5], 'implementation': io[bi][5]})
    return chk.finish()


# ------------------------------------------------------------------------------------ C02 oracle

class CivilOracle:
    """which instants of a zone display a civil second, from the zone semantics alone"""
    def __init__(self, zone):
        self.zone = zone
        self.ch = zone.change_instants()
        self.offs = sorted(set(t[0] for t in zone.z.types) | ({zone.rule['std_offset'], zone.rule['dst_offset']} if zone.has_rule else
                                                              ({zone.rule['std_offset']} if zone.rule else set())))
        self.win_end = self.ch[-1] if (zone.has_rule and self.ch) else None

    def changes_near(self, x, lo_off, hi_off):
        """change instants T with x - hi_off - 1 <= T <= x - lo_off + 1: recorded ones, and beyond the last recorded one
        the rule instants of the civil years around x (any year: the calendar repeats every 400 years)"""
        zn = self.zone
        lo_t, hi_t = x - hi_off - 1, x - lo_off + 1
        rec = zn.z.times
        out = set(rec[bisect.bisect_left(rec, lo_t):bisect.bisect_right(rec, hi_t)])
        if zn.has_rule:
            last = rec[-1] if rec else I64MIN
            y = C.civil_of_sec(x)[0]
            for yy in (y - 1, y, y + 1):
                for T in zn.rule_instants(yy):
                    if lo_t <= T <= hi_t and T > last: out.add(T)
        return sorted(out)

    def lookup(self, cs):
        x = C.sec_num(cs)
        zn = self.zone
        shows = sorted(set(x - o for o in self.offs if zn.offset_at(x - o)[0] == o))
        lo, hi = min(self.offs), max(self.offs)
        if len(shows) == 1:
            return ('UNIQUE', clamp(shows[0]), clamp(shows[0]), clamp(shows[0]))
        for Tc in self.changes_near(x, lo, hi):
            ob = zn.offset_at(Tc - 1)[0]; oa = zn.offset_at(Tc)[0]
            if ob == oa: continue
            if ob < oa and Tc + ob <= x < Tc + oa and len(shows) == 0:
                return ('SKIPPED', clamp(x - ob), clamp(Tc), clamp(x - oa))
            if oa < ob and Tc + oa <= x < Tc + ob and len(shows) == 2:
                return ('REPEATED', clamp(x - ob), clamp(Tc), clamp(x - oa))
        return ('?%d' % len(shows), 0, 0, 0)


def civil_blocks(chk, zones, scale, op='mt', shuffle_too=False):
    """per zone: the civil probes in sorted order and (shuffle_too) once more in random order, so that the
    lookups run from many different hidden hint states"""
    blocks = []; meta = []
    for i, zn in enumerate(zones):
        cs = Z.civil_probes(zn, chk.rng, n_random=40 if scale == 'quick' else 300)
        if shuffle_too:
            sh = list(cs); chk.rng.shuffle(sh)
            cs = cs + sh
        blocks.append([load_line(i, zn)] + ['%s %s %s' % (op, zid(i), C.fmt(c)) for c in cs] + [preds_line(i)]); meta.append(cs)
    return blocks, meta


def run_C02(chk):
    chk.prepare_model(['Cctz.Properties.C02', 'Cctz.Properties.Seam'], THEOREMS['C02'])
    exe = chk.harness('san')
    scale = chk.tier if not (chk.broken or chk.degraded) else 'thorough'
    if exe is None or not getattr(chk, 'driver_ok', False):
        return chk.finish()
    zones = pick_corpus(chk, scale) + Z.seam_zones() + Z.close_zones() + Z.rejected_zones()     # rejected files: nothing is asked of them unless a tree loads them
    blocks, meta = civil_blocks(chk, zones, scale, shuffle_too=True)
    mo, io = run_blocks(chk, exe, blocks, 'civil-lookup')
    note_mismatches(chk, blocks, mo, io, 'civil-lookup')
    good = 0
    for zn, i, css in zip(zones, io, meta):
        if not i[0].startswith('ok'): continue
        orc = CivilOracle(zn)
        for cs, out in zip(css, i[1:]):
            want = orc.lookup(cs)
            if want[0].startswith('?'):
                chk.count('oracle-undecided'); continue
            ws = '%s %d %d %d' % want
            chk.count('kind:' + want[0])
            if want[1] in (I64MIN, I64MAX) or want[3] in (I64MIN, I64MAX): chk.count('saturated')
            if out != ws:
                chk.report('%s: lookup(civil %s) = `%s`; counting the instants that display it gives `%s`' % (zn.name, C.fmt(cs), out, ws),
                           {'zone': zn.name, 'tzif_hex': Z.hx(zn.data), 'op': 'mt ' + C.fmt(cs), 'implementation': out, 'specification': ws},
                           sig='%s mt %s' % (zn.name, site_sig(out)))
            else:
                good += 1
                k, pre, tr, post = want
                if k == 'SKIPPED' and not (pre >= tr > post) and I64MIN < post and pre < I64MAX: chk.report('%s: documented inequality pre >= trans > post fails for %s' % (zn.name, C.fmt(cs)), {'zone': zn.name, 'out': out})
                if k == 'REPEATED' and not (pre < tr <= post) and I64MIN < pre and post < I64MAX: chk.report('%s: documented inequality pre < trans <= post fails for %s' % (zn.name, C.fmt(cs)), {'zone': zn.name, 'out': out})
    chk.cov['distinct_nontrivial'] = good
    chk.cov['zones'] = len(zones)
    chk.cov['rule'] = ('per zone: civil seconds at and around both edges of every gap and overlap (a sample of them second by second), before the first and after the last recorded change, '
                       'in rule-generated years, in 400-year-shifted years up to the range limit, civil_second::min()/max() and the last representable civil seconds; lookup(cs) compared model vs '
                       'implementation and against an oracle that counts, from the zone semantics alone, the instants displaying cs and derives pre/trans/post with clamping; '
                       'non-trivial = distinct (zone, civil second) pairs that matched')
    for bi in (0, len(blocks) // 2, len(blocks) - 1):
        chk.sample({'zone': zones[bi].name, 'op': blocks[bi][3], 'model': mo[bi][3], 'implementation': io[bi][3]})
    return chk.finish()


# ------------------------------------------------------------------------------------ C03

def run_C03(chk):
    chk.prepare_model(['Cctz.Properties.C03', 'Cctz.Properties.Seam'], THEOREMS['C03'])
    exe = chk.harness('san')
    scale = chk.tier if not (chk.broken or chk.degraded) else 'thorough'
    if exe is None or not getattr(chk, 'driver_ok', False):
        return chk.finish()
    zones = pick_corpus(chk, scale) + Z.seam_zones() + Z.close_zones() + Z.rejected_zones()     # rejected files: nothing is asked of them unless a tree loads them
    blocks = []; meta = []
    for i, zn in enumerate(zones):
        ts = [t for t in Z.probe_instants(zn, chk.rng, per_transition=3 if scale == 'quick' else 8, n_random=50 if scale == 'quick' else 300)
              if I64MIN + 86400 <= t <= I64MAX - 86400]
        blocks.append([load_line(i, zn)] + ['bt %s %d' % (zid(i), t) for t in ts]); meta.append(ts)
    mo, io = run_blocks(chk, exe, blocks, 'forward')
    note_mismatches(chk, blocks, mo, io, 'forward')
    # second pass: look the reported civil second up again
    blocks2 = []; meta2 = []
    for i, (zn, out, ts) in enumerate(zip(zones, io, meta)):
        b = [load_line(i, zn)]; m = []
        if out[0].startswith('ok'):
            for t, o in zip(ts, out[1:]):
                r = parse_bt(o)
                if r is None:
                    chk.report('%s: lookup(%d) gives %s' % (zn.name, t, o), {'zone': zn.name, 'op': 'bt %d' % t, 'implementation': o}, sig='%s bt %s' % (zn.name, site_sig(o)))
                    continue
                b.append('mt %s %s' % (zid(i), C.fmt(r[0]))); m.append((t, r[0]))
        blocks2.append(b); meta2.append(m)
    mo2, io2 = run_blocks(chk, exe, blocks2, 'backward')
    note_mismatches(chk, blocks2, mo2, io2, 'backward')
    good = 0
    blocks3 = []; meta3 = []
    for i, (zn, out, m) in enumerate(zip(zones, io2, meta2)):
        b = [load_line(i, zn)]; mm = []
        for (t, cs), o in zip(m, out[1:]):
            r = parse_mt(o)
            ok = r is not None and ((r[0] == 'UNIQUE' and r[1] == t) or (r[0] == 'REPEATED' and t in (r[1], r[3])))
            chk.count('roundtrip:' + (r[0] if r else 'bad'))
            if not ok:
                chk.report('%s: instant %d shows civil %s, but looking that civil second up gives `%s` (expected UNIQUE with pre == t, or REPEATED with t in {pre, post})' % (zn.name, t, C.fmt(cs), o),
                           {'zone': zn.name, 'tzif_hex': Z.hx(zn.data), 'ops': ['bt %d' % t, 'mt ' + C.fmt(cs)], 'implementation': o},
                           sig='%s roundtrip %s' % (zn.name, site_sig(o)))
            else:
                good += 1
                for u in {r[1], r[3]}:
                    if I64MIN < u < I64MAX:
                        b.append('bt %s %d' % (zid(i), u)); mm.append((u, cs))
        blocks3.append(b); meta3.append(mm)
    mo3, io3 = run_blocks(chk, exe, blocks3, 'converse')
    note_mismatches(chk, blocks3, mo3, io3, 'converse')
    for zn, out, mm in zip(zones, io3, meta3):
        for (u, cs), o in zip(mm, out[1:]):
            r = parse_bt(o)
            if r is None or r[0] != cs:
                chk.report('%s: lookup(civil %s) returned instant %d, which displays `%s`' % (zn.name, C.fmt(cs), u, o),
                           {'zone': zn.name, 'tzif_hex': Z.hx(zn.data), 'ops': ['mt ' + C.fmt(cs), 'bt %d' % u], 'implementation': o}, sig='%s converse' % zn.name)
            else: good += 1
    chk.cov['distinct_nontrivial'] = good
    chk.cov['zones'] = len(zones)
    chk.cov['rule'] = ('the probe instants of C01 restricted to [min()+1day, max()-1day]: lookup(t) on the implementation, then lookup(reported civil second) (must be UNIQUE with pre == t or REPEATED with t in {pre, post}), '
                       'then lookup of every unsaturated instant returned (must display that civil second); every step also compared with the model; non-trivial = round trips that closed')
    for bi in (0, len(blocks) - 1):
        if len(blocks[bi]) > 4 and len(blocks2[bi]) > 4 and len(io2[bi]) > 4:
            chk.sample({'zone': zones[bi].name, 'forward': blocks[bi][4] + ' -> ' + io[bi][4], 'backward': blocks2[bi][4] + ' -> ' + io2[bi][4]})
    return chk.finish()


# ------------------------------------------------------------------------------------ C06

def run_C06(chk):
    chk.prepare_model(['Cctz.Properties.C06', 'Cctz.Properties.Seam'], THEOREMS['C06'])
    exe = chk.harness('san')
    scale = chk.tier if not (chk.broken or chk.degraded) else 'thorough'
    if exe is None or not getattr(chk, 'driver_ok', False):
        return chk.finish()
    zones = pick_corpus(chk, scale) + Z.seam_zones() + Z.close_zones() + Z.rejected_zones()     # rejected files: nothing is asked of them unless a tree loads them
    blocks, meta = civil_blocks(chk, zones, scale, op='cv', shuffle_too=True)
    mo, io = run_blocks(chk, exe, blocks, 'convert')
    note_mismatches(chk, blocks, mo, io, 'convert')
    good = 0
    for zn, out, css in zip(zones, io, meta):
        if not out[0].startswith('ok'): continue
        # the probes were converted twice: in sorted order and in random order (other hidden hint states);
        # both passes must be monotone along the sorted order, and agree with each other
        n = len(css) // 2
        first = list(zip(css[:n], out[1:1 + n]))
        second = sorted(zip(css[n:], out[1 + n:1 + 2 * n]))
        for (c1, o1), (c2, o2) in zip(first, second):
            if c1 == c2 and o1 != o2:
                chk.report('%s: convert(%s) = %s when called in ascending order but %s after other calls' % (zn.name, C.fmt(c1), o1, o2),
                           {'zone': zn.name, 'tzif_hex': Z.hx(zn.data), 'op': 'cv ' + C.fmt(c1), 'implementation': [o1, o2]}, sig='%s convert history' % zn.name)
        prev = None
        for cs, o in first + [(None, None)] + second:
            if cs is None:
                prev = None; continue
            try: v = int(o)
            except ValueError:
                chk.report('%s: convert(%s) gives %s' % (zn.name, C.fmt(cs), o), {'zone': zn.name, 'op': 'cv ' + C.fmt(cs), 'implementation': o}, sig='%s cv %s' % (zn.name, site_sig(o)))
                prev = None; continue
            if prev is not None and v < prev[1]:
                chk.report('%s: convert is not monotone: convert(%s) = %d > convert(%s) = %d' % (zn.name, C.fmt(prev[0]), prev[1], C.fmt(cs), v),
                           {'zone': zn.name, 'tzif_hex': Z.hx(zn.data), 'ops': ['cv ' + C.fmt(prev[0]), 'cv ' + C.fmt(cs)], 'implementation': [prev[1], v]}, sig='%s monotone' % zn.name)
            elif prev is not None:
                good += 1
                if v == prev[1]: chk.count('pairs:equal')
                else: chk.count('pairs:increasing')
            prev = (cs, v)
    # the zones answered by the C library ("libc:UTC"; "libc:localtime" under a POSIX $TZ): the same order property, around the
    # ends of the time_point range, the limits of int tm_year, the year's DST changes and the epoch
    rng = chk.rng
    for tzs in (None, 'UTC0', 'EST5', 'EST5EDT,M3.2.0,M11.1.0'):
        seq = set()
        for base in (C.civil_of_sec(I64MAX), C.civil_of_sec(I64MIN)):
            v0 = C.sec_num(base)
            for d in list(range(-70, 71)) + [rng.randrange(-40 * 86400, 40 * 86400) for _ in range(60)] + [k * 86400 for k in range(-30, 31)]: seq.add(C.civil_of_sec(v0 + d))
        for y in (-2147483648 + 1900, 2147483647 + 1900, -2147483648, 2147483647, -2147483648 - 1900):
            for dy in (-2, -1, 0, 1, 2):
                seq.update([(y + dy, 1, 1, 0, 0, 0), (y + dy, 12, 31, 23, 59, 59), (y + dy, 6, 15, 12, 0, 0)])
        for t0 in (0, 1710054000, 1730613600, 951782400):        # epoch, 2024-03-10 07:00Z, 2024-11-03 06:00Z, 2000-02-29
            for d in list(range(-5, 6)) + [rng.randrange(-8000, 8000) for _ in range(40)] + [-18000, 18000, -3600, 3600, 3599, -3601]: seq.add(C.civil_of_sec(t0 + d))
        for _ in range(100): seq.add(C.civil_of_sec(rng.randrange(-2**40, 2**40)))
        seq = sorted(c for c in seq if C.in64(c[0]))
        ll = ['libczone L' + (' local' if tzs else '')] + ['cv L %s' % C.fmt(c) for c in seq]
        lo = run_lines(exe, ll, timeout=300, env=({'TZ': tzs} if tzs else None))
        chk.cov['evaluations'] += len(ll); chk.cov['traces_validated_against_impl'] += len(ll)
        zname = 'libc:UTC' if tzs is None else 'libc:localtime (TZ=%s)' % tzs
        if not lo[0].startswith('ok'):
            chk.report('%s does not load: %s' % (zname, lo[0]), {'op': ll[0], 'implementation': lo[0]}, sig='libc load'); continue
        prev = None
        for cs, o in zip(seq, lo[1:]):
            try: v = int(o)
            except ValueError:
                chk.report('%s: convert(%s) gives %s' % (zname, C.fmt(cs), o), {'ops': [ll[0], 'cv L ' + C.fmt(cs)], 'env': tzs and 'TZ=' + tzs, 'implementation': o}, sig='%s cv %s' % (zname, site_sig(o)))
                prev = None; continue
            if prev is not None and v < prev[1]:
                chk.report('%s: convert is not monotone: convert(%s) = %d > convert(%s) = %d' % (zname, C.fmt(prev[0]), prev[1], C.fmt(cs), v),
                           {'ops': [ll[0], 'cv L ' + C.fmt(prev[0]), 'cv L ' + C.fmt(cs)], 'env': tzs and 'TZ=' + tzs, 'implementation': [prev[1], v]}, sig='%s monotone' % zname)
            elif prev is not None:
                good += 1; chk.count('libc-pairs')
            prev = (cs, v)
    chk.cov['distinct_nontrivial'] = good
    chk.cov['zones'] = len(zones)
    chk.cov['rule'] = ('per zone one sorted sequence of civil seconds containing the neighbourhood of every (sampled) gap and overlap, the extension seam, far-future 400-year-shifted years and '
                       'civil_second::min()/max(); convert(cs) on the implementation must be non-decreasing along it; each value also compared with the model; non-trivial = adjacent pairs checked')
    for bi in (0, len(blocks) - 1):
        chk.sample({'zone': zones[bi].name, 'ops': blocks[bi][3:6], 'implementation': io[bi][3:6]})
    return chk.finish()


# ------------------------------------------------------------------------------------ C11

def run_C11(chk):
    chk.prepare_model(['Cctz.Properties.C11', 'Cctz.Properties.C11Sub'], THEOREMS['C11'])
    exe = chk.harness('san')
    scale = chk.tier if not (chk.broken or chk.degraded) else 'thorough'
    if exe is None or not getattr(chk, 'driver_ok', False):
        return chk.finish()
    zones = pick_corpus(chk, scale)
    # files that must be rejected (two changes at one instant, changes that cross in civil time): while they are rejected nothing is
    # asked of them; a tree that loads them has to enumerate them consistently
    zones = zones + Z.rejected_zones()
    # what the zone's data says: recorded + generated changes that alter something
    blocks = []; meta = []
    for i, zn in enumerate(zones):
        ch = zn.change_instants()
        real = [t for t in ch if zn.offset_at(t - 1) != zn.offset_at(t)]
        if real and real[0] <= -2**59: real = real[1:]
        # the model of "recorded": cctz stops at the end of its generated table
        qs = set([I64MIN, I64MAX, I64MIN + 1, I64MAX - 1, 0])
        pick = real if len(real) <= 50 else ([real[0], real[-1]] + chk.rng.sample(real, 48))
        for t in pick: qs.update([t - 1, t, t + 1])
        noop = [t for t in ch if t not in set(real)]
        for t in noop[:20]: qs.update([t - 1, t, t + 1])
        qs = sorted(q for q in qs if I64MIN <= q <= I64MAX)
        b = [load_line(i, zn)]
        for q in qs: b += ['nt %s %d' % (zid(i), q), 'pt %s %d' % (zid(i), q)]
        # the public templates on sub-second time points: "strictly after / before" an instant with a fraction
        sub = []
        cand = [t for t in real if abs(t) < 2**50]
        for t in (cand[:2] + cand[-2:] + (chk.rng.sample(cand, min(4, len(cand))) if cand else [])):
            for D in (1000, 3):
                for r in (-(D - 1), -1, 0, 1, D - 1):
                    sub.append((D, t * D + r))
        # floating-point time points (exact quarters of a second / of a millisecond), within the exactly representable range
        for t in [t for t in (cand[:1] + cand[-2:]) if abs(t) < 2**38]:
            for D in (-4, -4000):
                for r in (-3, -1, 0, 1, 2, 3): sub.append((D, t * -D + r))
        sub = sorted(set(sub))
        for D, c in sub: b.append('subtr %s %d %d' % (zid(i), D, c))
        # the same queries right after a lookup that primed the table position for the interval starting / ending there
        primed = []
        for t in (cand[:2] + cand[-3:]):
            primed += [('pt', t, t + 1), ('pt', t, t), ('nt', t, t - 1), ('nt', t - 1, t - 1), ('pt', t + 1, t + 1)]
        for kind, q, prime in primed:
            b.append('bt %s %d' % (zid(i), prime)); b.append('%s %s %d' % (kind, zid(i), q))
        b += [preds_line(i), 'ntchain %s' % zid(i), 'ptchain %s' % zid(i)]
        blocks.append(b); meta.append((qs, real, sub, primed))
    # zones without transitions (UTC and fixed offsets: their built-in table only has entries that change nothing, one per
    # year 2015…2025) always answer false, also right after a lookup that primed the table position
    fblocks = []
    for k, off in enumerate((0, 3600, -86400, 45)):
        fb = ['fixzone fx%d %d' % (k, off)]
        for yy in range(2014, 2027):
            tt = C.day_num(yy, 1, 1) * 86400
            fb += ['bt fx%d %d' % (k, tt + 100), 'nt fx%d %d' % (k, tt + 200), 'pt fx%d %d' % (k, tt + 300), 'nt fx%d %d' % (k, tt - 1), 'pt fx%d %d' % (k, tt + 86400 * 500)]
        fb += ['nt fx%d %d' % (k, I64MIN), 'pt fx%d %d' % (k, I64MAX), 'ntchain fx%d' % k, 'ptchain fx%d' % k]
        fblocks.append(fb)
    fmo, fio = run_blocks(chk, exe, fblocks, 'fixed-transitions')
    note_mismatches(chk, fblocks, fmo, fio, 'fixed-transitions')
    for fb, fo in zip(fblocks, fio):
        for l, o in zip(fb[1:], fo[1:]):
            if l.split()[0] in ('nt', 'pt') and o != 'none':
                chk.report('%s: `%s` = `%s` in a zone without any change of offset, flag or abbreviation (expected false)' % (fb[0], l, o), {'ops': [fb[0], l], 'implementation': o}, sig='fixed zone transition')
    mo, io = run_blocks(chk, exe, blocks, 'transitions')
    note_mismatches(chk, blocks, mo, io, 'transitions')
    good = 0
    for zn, out, (qs, real, sub, primed) in zip(zones, io, meta):
        if not out[0].startswith('ok'): continue
        def want(T):
            if T is None: return 'none'
            ob = zn.offset_at(T - 1)[0]; oa = zn.offset_at(T)[0]
            return '%s %s' % (C.fmt(C.civil_of_sec(T - 1 + ob + 1)), C.fmt(C.civil_of_sec(T + oa)))
        # the chains from min() and from max() enumerate the same finite set (count and order-free hash), of the expected size
        fc, bc = out[-2].split(), out[-1].split()
        if out[-2] != out[-1] or not fc or fc[0] != str(len(real)):
            chk.report('%s: the chain of next_transition from min() visits %s changes (hash %s), the chain of prev_transition from max() %s (hash %s); the zone has %d real changes' % (
                       zn.name, fc[0] if fc else '?', fc[1] if len(fc) > 1 else '?', bc[0] if bc else '?', bc[1] if len(bc) > 1 else '?', len(real)),
                       {'zone': zn.name, 'tzif_hex': Z.hx(zn.data), 'ops': ['ntchain', 'ptchain'], 'implementation': [out[-2], out[-1]], 'expected_count': len(real)}, sig='%s chain' % zn.name)
        else:
            good += 1; chk.count('chains:ok')
        for k, q in enumerate(qs):
            j = bisect.bisect_right(real, q)
            nxt = real[j] if j < len(real) else None
            j2 = bisect.bisect_left(real, q)
            prv = real[j2 - 1] if j2 > 0 else None
            for kind, T, o in (('next', nxt, out[1 + 2 * k]), ('prev', prv, out[2 + 2 * k])):
                w = want(T)
                if o != w:
                    chk.report('%s: %s_transition(%d) = `%s`; the %s real change %s t is %s' % (zn.name, kind, q, o, 'earliest' if kind == 'next' else 'latest',
                               'after' if kind == 'next' else 'before', ('at %d: `%s`' % (T, w)) if T is not None else 'none'),
                               {'zone': zn.name, 'tzif_hex': Z.hx(zn.data), 'op': '%s %d' % ('nt' if kind == 'next' else 'pt', q), 'implementation': o, 'specification': w},
                               sig='%s %s %s' % (zn.name, kind, site_sig(o)))
                else:
                    good += 1
                    chk.count(kind + (':none' if T is None else ':found'))
        for j, (D, c) in enumerate(sub):
            o = out[1 + 2 * len(qs) + j]
            D0, D = D, abs(D)
            fl = c // D                      # floor
            ce = -((-c) // D)                # ceiling
            jn = bisect.bisect_right(real, fl); nxt = real[jn] if jn < len(real) else None            # T > c/D  <=>  T > floor
            jp = bisect.bisect_left(real, ce); prv = real[jp - 1] if jp > 0 else None                  # T < c/D  <=>  T < ceiling
            w = 'N %s | P %s' % (want(nxt), want(prv))
            if o != w:
                chk.report('%s: next/prev_transition of the instant %d/%d s = `%s`; the earliest real change strictly after and the latest strictly before that instant are `%s`' % (zn.name, c, D, o, w),
                           {'zone': zn.name, 'tzif_hex': Z.hx(zn.data), 'op': 'subtr %d %d' % (D0, c), 'implementation': o, 'specification': w},
                           sig='%s subsecond %s' % (zn.name, 'prev' if o.split(' | ')[0] == w.split(' | ')[0] else 'next'))
            else:
                good += 1; chk.count('subsecond:ok')
        for j, (kind, q, prime) in enumerate(primed):
            o = out[1 + 2 * len(qs) + len(sub) + 2 * j + 1]
            if kind == 'nt':
                jn = bisect.bisect_right(real, q); T = real[jn] if jn < len(real) else None
            else:
                jp = bisect.bisect_left(real, q); T = real[jp - 1] if jp > 0 else None
            w = want(T)
            if o != w:
                chk.report('%s: %s_transition(%d) right after lookup(%d) = `%s`; expected `%s`' % (zn.name, 'next' if kind == 'nt' else 'prev', q, prime, o, w),
                           {'zone': zn.name, 'tzif_hex': Z.hx(zn.data), 'ops': ['bt %d' % prime, '%s %d' % (kind, q)], 'implementation': o, 'specification': w}, sig='%s primed %s' % (zn.name, kind))
            else:
                good += 1; chk.count('primed:ok')
    chk.cov['distinct_nontrivial'] = good
    chk.cov['zones'] = len(zones)
    chk.cov['rule'] = ('per zone: query instants equal to each (sampled) real change, one second either side, at no-op entries, min() and max(); next_transition / prev_transition compared with the model and with the '
                       'list of instants at which (offset, dst, abbreviation) really changes according to the zone semantics (independent reader), including the 401 rule-generated years; '
                       '`from`/`to` recomputed from the offsets before and after; the public templates on millisecond and third-of-a-second time points one tick either side of sampled changes; non-trivial = answers that matched')
    for bi in (0, len(blocks) - 1):
        chk.sample({'zone': zones[bi].name, 'ops': blocks[bi][1:5], 'implementation': io[bi][1:5]})
    return chk.finish()



# ------------------------------------------------------------------------------------ C10

def fixed_line(i, off):
    return 'fixzone %s %d' % (zid(i), off)


def extreme_instants(rng, n):
    ts = set([I64MIN, I64MIN + 1, I64MAX - 1, I64MAX, -2**59, -2**59 - 1, -2**59 + 1, 2**59 - 1, 2**59, 2**59 + 1, -2**31, -2**31 - 1, 2**31 - 1, 2**31,
              I64MAX - (I64MAX % K400), I64MAX - (I64MAX % K400) - 1, I64MAX - (I64MAX % K400) + 1, I64MAX - (I64MAX % K400) - K400,
              I64MIN - (I64MIN % K400) + K400, I64MIN - (I64MIN % K400) + K400 - 1, 7161147007, 7161147006, 7161147008])
    for _ in range(n):
        ts.add(I64MAX - rng.randrange(0, 2 * 86400)); ts.add(I64MIN + rng.randrange(0, 2 * 86400))
    return sorted(ts)


def extreme_civils(rng, n):
    base = [(I64MAX, 12, 31, 23, 59, 59), (I64MIN, 1, 1, 0, 0, 0), (I64MAX, 1, 1, 0, 0, 0), (I64MIN, 12, 31, 23, 59, 59),
            (292277026596, 12, 4, 15, 30, 7), (292277026596, 12, 4, 15, 30, 8), (-292277022657, 1, 27, 8, 29, 52), (-292277022657, 1, 27, 8, 29, 51),
            (292277026597, 1, 1, 0, 0, 0), (-292277022658, 12, 31, 23, 59, 59), (2**62, 6, 15, 12, 0, 0), (-2**62, 6, 15, 12, 0, 0)]
    out = set(base)
    for _ in range(n):
        out.add(C.civil_of_sec(I64MAX + rng.randrange(-3 * 86400, 3 * 86400)))
        out.add(C.civil_of_sec(I64MIN + rng.randrange(-3 * 86400, 3 * 86400)))
    return sorted(out)


def run_C10(chk):
    chk.prepare_model(['Cctz.Properties.C10', 'Cctz.Properties.C10Safe', 'Cctz.Properties.C10Check'], THEOREMS['C10'])
    exe = chk.harness('san')
    scale = chk.tier if not (chk.broken or chk.degraded) else 'thorough'
    if exe is None or not getattr(chk, 'driver_ok', False):
        return chk.finish()
    zones = pick_corpus(chk, scale) + Z.untame_zones()
    fixed = [86400, -86400, 86399, -86399, 0, 3600, -1]
    blocks = []; meta = []
    n = 150 if scale == 'quick' else 3000
    for i, zn in enumerate(zones):
        ts = extreme_instants(chk.rng, n)
        if zn.kind == 'untame': ts = sorted(set(ts + Z.probe_instants(zn, chk.rng, n_random=30)))
        cs = sorted(set(extreme_civils(chk.rng, n // 3) + Z.last_year_civils(zn)))
        b = [load_line(i, zn)]
        for t in ts: b += ['bt %s %d' % (zid(i), t), 'nt %s %d' % (zid(i), t), 'pt %s %d' % (zid(i), t)]
        for c in cs: b += ['mt %s %s' % (zid(i), C.fmt(c)), 'cv %s %s' % (zid(i), C.fmt(c))]
        b.append(preds_line(i))
        blocks.append(b); meta.append((zn, ts, cs))
    for k, off in enumerate(fixed):
        i = len(zones) + k
        ts = extreme_instants(chk.rng, n); cs = extreme_civils(chk.rng, n // 3)
        b = [fixed_line(i, off)]
        for t in ts: b += ['bt %s %d' % (zid(i), t), 'nt %s %d' % (zid(i), t), 'pt %s %d' % (zid(i), t)]
        for c in cs: b += ['mt %s %s' % (zid(i), C.fmt(c)), 'cv %s %s' % (zid(i), C.fmt(c))]
        blocks.append(b); meta.append((off, ts, cs))
    mo, io = run_blocks(chk, exe, blocks, 'extremes')
    note_mismatches(chk, blocks, mo, io, 'extremes', report_what='the documented saturation / exact conversion (model, theorems C10.*)')
    good = 0
    # pass 2: the civil second shown at max()/min() converts back exactly
    blocks2 = []; meta2 = []
    for bi, ((zn, ts, cs), b, out) in enumerate(zip(meta, blocks, io)):
        name = zn.name if hasattr(zn, 'name') else 'fixed%+d' % zn
        untame = hasattr(zn, 'kind') and zn.kind == 'untame'
        if not out[0].startswith('ok'):
            continue
        b2 = [b[0]]; m2 = []
        for l, o in zip(b[1:], out[1:]):
            if o.startswith('UB') or o.startswith('CRASH'):
                chk.report('%s: `%s` is undefined behaviour: %s' % (name, l.split(' ', 2)[0] + ' ' + l.split(' ', 2)[2], o),
                           {'zone': name, 'tzif_hex': Z.hx(zn.data) if hasattr(zn, 'data') else None, 'op': l, 'implementation': o},
                           sig='%s%s %s' % ('untame ' if untame else '', l.split()[0], site_sig(o)))
                continue
            good += 1
            p = l.split()
            if p[0] == 'bt' and int(p[2]) in (I64MAX, I64MIN):
                r = parse_bt(o)
                if r:
                    b2.append('cv %s %s' % (p[1], C.fmt(r[0]))); m2.append(('exact', int(p[2]), r[0]))
                    beyond = C.civil_of_sec(C.sec_num(r[0]) + (1 if int(p[2]) == I64MAX else -1))
                    if C.in64(beyond[0]):
                        b2.append('cv %s %s' % (p[1], C.fmt(beyond))); m2.append(('beyond', int(p[2]), beyond))
        blocks2.append(b2); meta2.append((name, untame, m2, zn))
    mo2, io2 = run_blocks(chk, exe, blocks2, 'saturation')
    note_mismatches(chk, blocks2, mo2, io2, 'saturation')
    def shows(zn, o, cs):
        # inside an overlap that straddles the limit the civil second is also shown by an earlier (later)
        # representable instant, and convert() rightly returns that one
        try:
            r = int(o)
            off = zn.offset_at(r)[0] if hasattr(zn, 'offset_at') else zn
            return I64MIN <= r <= I64MAX and r + off == C.sec_num(cs)
        except Exception:
            return False
    for (name, untame, m2, zn), out in zip(meta2, io2):
        for (kind, lim, cs), o in zip(m2, out[1:]):
            if o != str(lim) and not shows(zn, o, cs):
                what = ('the civil second shown at %s does not convert back to it' if kind == 'exact' else 'a civil second beyond the one shown at %s does not saturate to it') % ('max()' if lim == I64MAX else 'min()')
                chk.report('%s: %s: convert(%s) = %s' % (name, what, C.fmt(cs), o), {'zone': name, 'op': 'cv ' + C.fmt(cs), 'implementation': o, 'expected': lim},
                           sig='%ssaturation %s %s' % ('untame ' if untame else '', kind, site_sig(o)))
            else:
                good += 1; chk.count('saturation:' + kind)
    # "libc:UTC": the C-library implementation of UTC.  It is not part of the Lean model (runs only, judged by the documented
    # behaviour): conversions of civil seconds are exact and saturate like UTC's; lookup(t) is exact while gmtime() can represent
    # the year (int tm_year) and otherwise reports the saturated civil second with abbreviation "-00"; no transitions.
    ll = ['libczone L']
    lts = extreme_instants(chk.rng, 40) + [0, -1, 1, 2**31, -2**31 - 1, 67767976233532799, 67767976233532800, -67768040609740800, -67768040609740801,
                                            67768036191676799, 67768036191676800, 10**12, -10**12]
    lcs = extreme_civils(chk.rng, 40) + [(2147485547, 12, 31, 23, 59, 59), (2147485548, 1, 1, 0, 0, 0), (-2147481748, 1, 1, 0, 0, 0), (-2147481749, 12, 31, 23, 59, 59),
                                         (1970, 1, 1, 0, 0, 0), (1969, 12, 31, 23, 59, 59), (3000000000, 6, 1, 12, 0, 0), (-3000000000, 6, 1, 12, 0, 0)]
    for t in lts: ll += ['bt L %d' % t, 'nt L %d' % t, 'pt L %d' % t]
    for c in lcs: ll += ['mt L %s' % C.fmt(c), 'cv L %s' % C.fmt(c)]
    lo = run_lines(exe, ll, timeout=300)
    if lo[0] != 'ok ' + b'libc:UTC'.hex():
        chk.report('load_time_zone("libc:UTC") gives `%s`' % lo[0], {'op': ll[0], 'implementation': lo[0]}, sig='libc load')
    else:
        for l, o in zip(ll[1:], lo[1:]):
            p = l.split()
            if p[0] in ('nt', 'pt'): want = 'none'
            elif p[0] == 'bt':
                t = int(p[2]); cs = C.civil_of_sec(t)
                if -2**31 + 1900 <= cs[0] <= 2**31 - 1 + 1900: want = '%s 0 0 %s' % (C.fmt(cs), b'UTC'.hex())
                else: want = '%s 0 0 %s' % (C.fmt((I64MIN, 1, 1, 0, 0, 0) if t < 0 else (I64MAX, 12, 31, 23, 59, 59)), b'-00'.hex())
            else:
                cs = tuple(int(x) for x in p[2:8])
                v = clamp(C.sec_num(cs)) if C.in64(cs[0]) else None
                if v is None: continue
                want = ('UNIQUE %d %d %d' % (v, v, v)) if p[0] == 'mt' else str(v)
            chk.cov['evaluations'] += 1
            if o != want:
                chk.report('libc:UTC: `%s` = `%s`; the documented behaviour of the C-library UTC zone gives `%s`' % (' '.join(p[:1] + p[2:]), o, want),
                           {'op': l, 'implementation': o, 'specification': want}, sig='libc:UTC %s %s' % (p[0], site_sig(o)))
            else:
                good += 1; chk.count('libc-utc:ok')
    # "libc:localtime" with TZ=UTC0 in the environment (no zone data involved): mktime()/localtime() of the C library; around the
    # epoch (mktime's -1 is also its error value) every civil second converts exactly and round-trips
    l2 = ['libczone M local']
    pts = [-1, 0, 1, -2, 3599, 3600, -3600, 86399, -86400, 2**31 - 1, -2**31, 951782400, 1709164800]
    for t in pts: l2 += ['bt M %d' % t, 'mt M %s' % C.fmt(C.civil_of_sec(t)), 'cv M %s' % C.fmt(C.civil_of_sec(t))]
    lo2 = run_lines(exe, l2, timeout=300, env={'TZ': 'UTC0'})
    if not lo2[0].startswith('ok'):
        chk.report('load_time_zone("libc:localtime") gives `%s`' % lo2[0], {'op': l2[0], 'implementation': lo2[0]}, sig='libc load')
    else:
        for l, o in zip(l2[1:], lo2[1:]):
            p = l.split()
            if p[0] == 'bt':
                t = int(p[2]); want = '%s 0 0 %s' % (C.fmt(C.civil_of_sec(t)), b'UTC'.hex())
            else:
                v = C.sec_num(tuple(int(x) for x in p[2:8]))
                want = ('UNIQUE %d %d %d' % (v, v, v)) if p[0] == 'mt' else str(v)
            chk.cov['evaluations'] += 1
            if o != want:
                chk.report('libc:localtime (TZ=UTC0): `%s` = `%s`; expected `%s`' % (' '.join(p[:1] + p[2:]), o, want), {'op': l, 'env': 'TZ=UTC0', 'implementation': o, 'specification': want},
                           sig='libc:localtime %s' % p[0])
            else:
                good += 1; chk.count('libc-local:ok')
    # the same with fixed non-zero offsets (POSIX TZ strings without a rule: no zone data, no DST): time_t -1 is a real instant there too;
    # and civil years around the limits of int tm_year, which must saturate
    for tzs, off in (('EST5', -18000), ('IST-5:30', 19800), ('XXX-14', 50400), ('YYY12', -43200)):
        l3 = ['libczone N local']
        m3 = []
        for t in [-1, 0, 1, -2, 3599, -3600, off, -off, -1 - off, 86399, 2**31 - 1, -2**31, 1709164800]:
            l3 += ['bt N %d' % t, 'mt N %s' % C.fmt(C.civil_of_sec(t + off)), 'cv N %s' % C.fmt(C.civil_of_sec(t + off))]; m3 += [('bt', t), ('mt', t), ('cv', t)]
        for y, lim in ((-2147481749, I64MIN), (-2147483648 - 1900, I64MIN), (-2147483648 - 1899, I64MIN), (-2147481748 - 5, I64MIN), (-3000000000, I64MIN), (2147485548 + 5, I64MAX), (3000000000, I64MAX)):
            l3 += ['cv N %s' % C.fmt((y, 12, 31, 23, 59, 59)), 'cv N %s' % C.fmt((y, 1, 1, 0, 0, 0))]; m3 += [('sat', lim), ('sat', lim)]
        # … and the outermost years that int tm_year (= year - 1900) still holds: exact, not saturated (seeded change C02O)
        for y in (2147485547, 2147485546, 2147483648, 2147483647, 2147484000, -2147481748, -2147481747, -2147481000):
            # (not within two days of the very ends: glibc's mktime() probes neighbouring instants whose local year no longer fits
            # tm_year and fails there, and cctz documents that it saturates when mktime fails — the C library's behaviour, not cctz's)
            for c in ((y, 12, 29, 23, 59, 59), (y, 1, 3, 0, 0, 0), (y, 6, 15, 12, 30, 0)):
                l3 += ['cv N %s' % C.fmt(c)]; m3 += [('cv', C.sec_num(c) - off)]
        lo3 = run_lines(exe, l3, timeout=300, env={'TZ': tzs})
        if not lo3[0].startswith('ok'):
            chk.report('load_time_zone("libc:localtime") with TZ=%s gives `%s`' % (tzs, lo3[0]), {'op': l3[0], 'implementation': lo3[0]}, sig='libc load'); continue
        for l, (kind, t), o in zip(l3[1:], m3, lo3[1:]):
            if kind == 'bt': want = None if not o else '%s %d 0' % (C.fmt(C.civil_of_sec(t + off)), off)
            elif kind == 'mt': want = 'UNIQUE %d %d %d' % (t, t, t)
            elif kind == 'cv': want = str(t)
            else: want = str(t)
            ok = o.startswith(want + ' ') if kind == 'bt' else o == want
            chk.cov['evaluations'] += 1
            if not ok:
                chk.report('libc:localtime (TZ=%s): `%s` = `%s`; expected `%s`' % (tzs, ' '.join(l.split()[:1] + l.split()[2:]), o, want), {'op': l, 'env': 'TZ=' + tzs, 'implementation': o, 'specification': want},
                           sig='libc:localtime %s' % kind)
            else:
                good += 1; chk.count('libc-local:ok')
    chk.cov['distinct_nontrivial'] = good
    chk.cov['zones'] = len(zones) + len(fixed)
    chk.cov['rule'] = ('every zone of the corpus plus fixed offsets of +-24h, +-(24h-1s), 0, +1h, -1s plus well-formed zones outside the tameness hypothesis: lookup / next_transition / prev_transition at the outermost '
                       '2 days of the time_point range (sampled), +-2^59 (the internal sentinel), +-2^31, the 400-year multiples nearest the limits; lookup(civil) and convert at civil_second::min()/max() and around '
                       'the last representable civil seconds; the harness (ASan+UBSan with own handlers) must report no undefined behaviour, the model no flag; then the civil second shown at max()/min() must convert '
                       'back exactly and one second beyond must saturate; non-trivial = ops without UB that matched the model, plus saturation checks')
    for bi in (0, len(blocks) - 1):
        chk.sample({'block': blocks[bi][0][:40], 'ops': blocks[bi][1:4], 'implementation': io[bi][1:4]})
    return chk.finish()


# ------------------------------------------------------------------------------------ C14

def run_C14(chk):
    chk.prepare_model('Cctz.Properties.C14', THEOREMS['C14'])
    exe = chk.harness('san')
    scale = chk.tier if not (chk.broken or chk.degraded) else 'thorough'
    if exe is None or not getattr(chk, 'driver_ok', False):
        return chk.finish()
    rng = chk.rng
    zones = Z.corpus(rng, n_real=20 if scale == 'quick' else 120)
    # files that Load() rejects because their civil-time index would not be ordered: as long as they are
    # rejected every copy answers like UTC; a tree that accepts them answers by hint
    zones += Z.rejected_zones()
    blocks = []; meta = []
    for i, zn in enumerate(zones):
        if not zn.z.times: continue
        a, f = 'h%d' % i, 'f%d' % i       # a: copy with history, f: copy queried in a fixed order only
        probes_t = rng.sample(Z.probe_instants(zn, rng, n_random=10), 10)
        probes_c = rng.sample(Z.civil_probes(zn, rng, n_random=10), 8)
        panel = ['bt {z} %d' % t for t in probes_t] + ['mt {z} %s' % C.fmt(c) for c in probes_c] + \
                ['cv {z} %s' % C.fmt(probes_c[0]), 'nt {z} %d' % probes_t[0], 'pt {z} %d' % probes_t[1]]
        b = ['zone %s loose %s' % (a, Z.hx(zn.data)), 'zone %s loose %s' % (f, Z.hx(zn.data))]
        m = [None, None]
        times = zn.z.times
        idxs = range(len(times)) if (scale != 'quick' or len(times) <= 24) else sorted(rng.sample(range(len(times)), 24))
        # transition queries at the very instant the preceding lookup was about
        at = {k: ['pt {z} %d' % times[k], 'nt {z} %d' % times[k], 'pt {z} %d' % (times[k] + 1), 'nt {z} %d' % (times[k] - 1)] for k in idxs}
        # reference answers from the copy without history
        for q in panel + [q for k in idxs for q in at[k]]: b.append(q.format(z=f)); m.append(('ref', q))
        # every hidden state: one preceding query per table index sets the hint, then the panel
        for k in idxs:
            t = times[k]
            o = zn.offset_at(t)[0]
            b.append('bt %s %d' % (a, t)); m.append(('set', None))
            for q in at[k]:
                b.append(q.format(z=a)); m.append(('probe', q))
                b.append('bt %s %d' % (a, t)); m.append(('set', None))
            b.append('mt %s %s' % (a, C.fmt(C.civil_of_sec(t + o + 1)))); m.append(('set', None))
            sub = panel if len(idxs) <= 30 else rng.sample(panel, 6)
            for q in sub: b.append(q.format(z=a)); m.append(('probe', q))
        # long random call sequence against the history-free copy
        for _ in range(200 if scale == 'quick' else 3000):
            q = rng.choice(panel)
            b.append(q.format(z=a)); m.append(('probe', q))
        b.append('reload %s' % a); m.append(('reload', None))
        b.append('reload %s' % f); m.append(('reload', None))
        blocks.append(b); meta.append((zn, m))
    # names that failed to load keep failing
    bad = ['zone bad%d loose %s' % (k, Z.hx(bytes(rng.randrange(256) for _ in range(rng.randrange(0, 200))))) for k in range(30)]
    bb = []
    for l in bad: bb += [l, 'reload ' + l.split()[1], 'reload ' + l.split()[1]]
    blocks.append(bb); meta.append((None, None))
    mo, io = run_blocks(chk, exe, blocks, 'history')
    note_mismatches(chk, blocks, mo, io, 'history')
    good = 0
    for (zn, m), b, out in zip(meta, blocks, io):
        if zn is None:
            for l, o in zip(b, out):
                if l.startswith('reload'):
                    if o != 'fail utc=1 factory=0' and not (o.startswith('ok') and False):
                        # a random byte string that happens to load is reported by its own `zone` line as ok
                        if not out[b.index(l) - 1 if b[b.index(l) - 1].startswith('zone') else b.index(l) - 2].startswith('ok'):
                            chk.report('a name that failed to load does not keep failing with UTC and without consulting the data source again: %s' % o, {'ops': [l], 'implementation': o}, sig='reload-failed')
                    else: good += 1
            continue
        ref = {}
        for (kind, q), l, o in zip(m[2:], b[2:], out[2:]):
            if kind == 'ref': ref[q] = o
            elif kind == 'probe':
                if ref.get(q) != o:
                    chk.report('%s: the answer to `%s` depends on earlier calls: `%s` after other queries, `%s` on a copy without that history' % (zn.name, q.format(z=''), o, ref.get(q)),
                               {'zone': zn.name, 'tzif_hex': Z.hx(zn.data), 'op': l, 'with_history': o, 'fresh': ref.get(q)}, sig='%s history' % zn.name)
                else: good += 1
            elif kind == 'reload':
                if o != ('ok equal=1 factory=0' if out[0].startswith('ok') else 'fail utc=1 factory=0'):
                    chk.report('%s: loading the same name again: %s (expected an equal zone and no access to the data source)' % (zn.name, o), {'zone': zn.name, 'op': l, 'implementation': o}, sig='reload')
                else: good += 1
    # format() and parse(): the same call gives the same text / instant whether it is the first thing the process
    # does or comes after calls with much longer formats, wide field widths, other zones (buffers, flags and
    # locale state must not leak from one call into the next)
    zl = 'zone fz loose %s' % Z.hx(zones[0].data)
    wide = [b'%100A', b'%90a|%H', b'%Y-%m-%d %90a|%H', b'%200Y', b'%64B %d', b'%50Z|%z', b'%c', b'%x %X', b'%EY %Ey', b'%A %B %p', b'%80p', b'%33j%33U',
            b'%H:%M:%E*S', b'%E15S %E*f', b'%Y-%m-%dT%H:%M:%S%Ez', b'%a, %d %b %Y %T %z', b'%79A', b'%80A', b'%81A', b'%1024Y', b'%E4Y %ET %E*z', b'%s %%', b'%G-%V-%u', b'%k %l %P']
    fprobes = []
    for f in wide:
        for t in (0, 1700000000 + rng.randrange(10**6), -rng.randrange(10**9)):
            fprobes.append('fmt fz %d %d %s' % (t, rng.choice([0, 5 * 10**14, 123456789]), Z.hx(f)))
    for f, txt in ((b'%Y-%m-%d %H:%M:%S', b'2024-02-29 23:59:59'), (b'%p %I:%M', b'PM 03:30'), (b'%I:%M %p', b'03:30 PM'), (b'%Y-%m-%d %H:%M:%E*S %Ez', b'1969-12-31 23:59:59.75 -05:00'),
                   (b'%a %d %b %Y', b'Thu 29 Feb 2024'), (b'%s', b'-1'), (b'%H:%M', b'25:00'), (b'%Y-%m-%d', b'2023-02-29'), (b'%I %M', b'11 07')):
        fprobes.append('parse fz %s %s' % (Z.hx(f), Z.hx(txt)))
    fresh = {}
    for q in fprobes:
        fresh[q] = run_lines(exe, [zl, q])[1]               # a process of its own: no history at all
    hist = [zl]
    longs = [Z.hx(b'%A' + b'.' * 400), Z.hx(b'%c ' * 60), Z.hx(b'%1000Y'), Z.hx(b'%Y' * 300), Z.hx(b'%500A%500B'), Z.hx(b'x' * 5000 + b'%Z')]
    for rnd in range(3):
        order = fprobes[:]; rng.shuffle(order)
        for q in order:
            if rng.random() < 0.5: hist.append('fmt fz %d 0 %s' % (rng.randrange(-10**9, 10**10), rng.choice(longs)))
            if rng.random() < 0.2: hist.append('parse fz %s %s' % (Z.hx(b'%p %I:%M:%S %Y'), Z.hx(b'PM 11:59:60 1999')))
            hist.append(q)
    ho = run_lines(exe, hist)
    chk.cov['evaluations'] += len(hist) + len(fprobes); chk.cov['traces_validated_against_impl'] += len(hist) + len(fprobes)
    chk.count('format-history:calls', len(hist))
    for hi_, (q, o) in enumerate(zip(hist, ho)):
        if q not in fresh: continue
        if o != fresh[q]:
            chk.report('the result of `%s` depends on earlier calls: `%s` after other format/parse calls, `%s` as the first call of a process' % (q[:120], o[:200], fresh[q][:200]),
                       {'ops': hist[:hi_ + 1], 'with_history': o, 'fresh': fresh[q], 'note': 'the last op, run as the first call of a process (after the zone line), gives the `fresh` answer'}, sig='format history')
        else: good += 1
    # "loading a name again returns a time_zone equal to the first one without consulting the data source
    # again" also when the first loads raced: the schedules of C13, judged by the re-load that follows each
    from .props_loader import run_sched_part
    good += run_sched_part(chk, 'C14', exe, 'quick')
    # …and when the zone map's mutex is contended: everything already loaded, loaded again by several threads
    import subprocess
    from .common import SAN_ENV, REPO
    env = dict(os.environ); env.update({'TZDIR': os.path.join(REPO, 'testdata/zoneinfo')}); env.update(SAN_ENV)
    for r, (kk, iters) in enumerate(((8, 150), (16, 80))):
        line = 'stress %d %d %d' % (kk, iters, chk.seed * 100 + 50 + r)
        p = subprocess.run([exe], input=(line + '\n').encode(), stdout=subprocess.PIPE, stderr=subprocess.PIPE, env=env, timeout=3000)
        o = p.stdout.decode().strip()
        if 'refactory=' in o or not o.startswith('stress threads='):
            chk.report('loading names again that are already in the zone map consulted the data source again under contention: %s' % o, {'op': line, 'implementation': o}, sig='stress refactory')
        elif 'differing=0' not in o:
            chk.report('answers under concurrent use differ from a single-threaded replay of the same calls: %s' % o, {'op': line, 'implementation': o}, sig='stress differing')
        else: good += 1
    chk.cov['distinct_nontrivial'] = good
    chk.cov['zones'] = len(zones)
    chk.cov['rule'] = ('per zone two copies of the same bytes loaded under different names: on one, every reachable hidden state is set up (one lookup(t) and one lookup(civil) per table index, all indexes for small tables '
                       'and 24 sampled ones otherwise in quick) followed by a probe panel (lookups both ways, convert, next/prev_transition), then a long random call sequence; every answer must equal the '
                       'answer of the other copy, which only ever sees the panel once; loading a name again must give an equal zone with zero data-source accesses (counting factory), and names that failed keep '
                       'failing with UTC; every op also compared with the model (whose hints are explicit state); after every start/release schedule of 2-3 racing first loads each name is loaded once more (equal zone, no data-source access); non-trivial = probe answers and schedules that agreed')
    chk.sample({'zone': zones[0].name, 'ops': blocks[0][2:6], 'implementation': io[0][2:6]})
    return chk.finish()


REGISTRY = {'C01': run_C01, 'C02': run_C02, 'C03': run_C03, 'C06': run_C06, 'C11': run_C11, 'C10': run_C10, 'C14': run_C14}
