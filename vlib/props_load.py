"""Check C12: loading arbitrary bytes as zone data is memory-safe, terminating, deterministic."""
import struct
from .common import Check, canon, ub_site, enclosing_function, I64MIN, I64MAX
from . import zones as Z
from . import tzif as T
from . import civil as C
from . import posix_oracle as PO
from . import props_posix as PP
from .props_zone import run_blocks, note_mismatches, site_sig

THEOREMS = {'C12': ['Cctz.C12.constants', 'Cctz.C12.extend_no_unset', 'Cctz.C12.builtin_shape', 'Cctz.C12.load_safe', 'Cctz.C12.load_shape',
                    'Cctz.C12.queries_safe', 'Cctz.C12.queries_safe_counterexample',
                    'Cctz.C12Tables.checkers_sound', 'Cctz.C12Tables.load_columns', 'Cctz.C12Tables.load_times', 'Cctz.C12Tables.load_wf',
                    'Cctz.C12Tables.load_sentinels', 'Cctz.C12Tables.builtin_columns']}
CAP = 16 * 1024 * 1024


def declared(data):
    """(data length the header(s) declare for the block cctz reads, decoded times, footer) — lenient"""
    def hdr(off):
        if len(data) < off + 44 or data[off:off + 4] != b'TZif': return None
        return data[off + 4], struct.unpack('>6i', data[off + 20:off + 44])
    h = hdr(0)
    if h is None: return None
    ver, (isut, isstd, leap, timecnt, typecnt, charcnt) = h
    if min(isut, isstd, leap, timecnt, typecnt, charcnt) < 0: return None
    tlen = 4; off = 44
    if ver != 0:
        off += 5 * timecnt + 6 * typecnt + charcnt + 8 * leap + isstd + isut
        h = hdr(off)
        if h is None: return (0, [], None)
        ver2, (isut, isstd, leap, timecnt, typecnt, charcnt) = h
        if min(isut, isstd, leap, timecnt, typecnt, charcnt) < 0: return None
        tlen = 8; off += 44
    ln = (tlen + 1) * timecnt + 6 * typecnt + charcnt + (tlen + 4) * leap + isstd + isut
    times = []
    if ln <= CAP and len(data) >= off + tlen * timecnt:
        for i in range(timecnt):
            times.append(struct.unpack('>q' if tlen == 8 else '>i', data[off + i * tlen:off + (i + 1) * tlen])[0])
    footer = None
    p = off + ln
    if ver != 0 and data[p:p + 1] == b'\n':
        e = data.find(b'\n', p + 1)
        if e >= 0: footer = data[p + 1:e]
    return (ln, times, footer)


def untame(data):
    """outside the tameness hypothesis of the theorems: a recorded time beyond +-2^59, or a DST rule
    footer although the records end before 1800"""
    d = declared(data)
    if not d: return False
    ln, times, footer = d
    if any(abs(t) > 2**59 for t in times): return True
    if footer:
        r = PO.parse(footer)
        if r and r['dst_abbr'] and not PO.is_all_year_dst(r):
            last = times[-1] if times else -2**59
            if last < C.day_num(1800, 1, 1) * 86400: return True
    return False


def mutate(rng, base, others):
    b = bytearray(base)
    r = rng.random()
    n = len(b)
    if n < 50: r = 0.97          # nothing left to mutate: fall through to the structured generator
    v2 = b.find(b'TZif', 4)
    if r < 0.18:      # bit flips
        for _ in range(rng.choice([1, 1, 2, 3, 8])):
            i = rng.randrange(n); b[i] ^= 1 << rng.randrange(8)
    elif r < 0.30:    # truncation (a third of them inside the footer / the last bytes)
        del b[(n - rng.randrange(1, 40)) if (rng.random() < 0.35 and n > 40) else rng.randrange(n):]
    elif r < 0.40:    # splice with another file
        o = rng.choice(others)
        i = rng.randrange(n); j = rng.randrange(len(o))
        b = bytearray(b[:i] + o[j:j + rng.randrange(1, 400)] + b[i + rng.randrange(0, 200):])
    elif r < 0.58:    # header-count edits
        off = (v2 if (v2 > 0 and rng.random() < 0.7) else 0) + 20 + 4 * rng.randrange(6)
        val = rng.choice([0, 1, 2, 255, 256, 257, 300, 65535, 2**31 - 1, 2**32 - 1, 2**31, rng.randrange(0, 2000)])
        if rng.random() < 0.5:
            cur = struct.unpack('>I', bytes(b[off:off + 4]))[0] if off + 4 <= n else 0
            val = (cur + rng.choice([-2, -1, 1, 2, 3])) % 2**32
        b[off:off + 4] = struct.pack('>I', val)
    elif r < 0.68:    # type-index / isdst / abbrind edits: any byte in the back half of the data block
        for _ in range(rng.choice([1, 2, 4])):
            i = rng.randrange(n // 3, n); b[i] = rng.choice([0, 1, 2, 3, 5, 7, 8, 50, 127, 128, 254, 255, rng.randrange(256)])
    elif r < 0.80:    # 8-byte time edits
        if v2 > 0 and v2 + 44 + 8 <= n:
            tc = struct.unpack('>I', bytes(b[v2 + 32:v2 + 36]))[0]
            if 0 < tc < 5000:
                k = rng.randrange(tc)
                off = v2 + 44 + 8 * k
                val = rng.choice([I64MAX, I64MIN, I64MAX - 1, 2**62, -2**62, -2**59, -2**59 - 1, 2**59, 0, -1, 2**31, 7161147007, rng.randrange(I64MIN, I64MAX),
                                  rng.randrange(-2**40, 2**40)])
                b[off:off + 8] = struct.pack('>q', val)
    elif r < 0.95:    # footer replacement from the POSIX-TZ grammar and its near misses
        e = bytes(b).rfind(b'\n', 0, n - 1)
        if e > 0 and b[-1:] == b'\n':
            f = PP.gen_sentence(rng)
            if rng.random() < 0.5: f = PP.mutate(rng, f)
            f = f.replace(b'\n', b' ')
            b = bytearray(bytes(b[:e + 1]) + f + b'\n')
    else:             # structured: many types, all DST (8-bit default-type index), transition to type 0
        tcnt = rng.choice([255, 256, 257, 300])
        types = [(rng.choice([3600, 7200, -3600]), rng.random() < rng.choice([0.0, 0.5, 1.0, 1.0]) , 0) for _ in range(tcnt)]
        times = sorted(rng.sample(range(-2**31, 2**31), 3))
        idxs = [rng.choice([0, 1, 255, 5]), 0, rng.randrange(256)]
        z = T.TZif(2, times, idxs, types, b'XXX\0', rng.choice([b'', b'XXX-1']))
        raw = T._header(2, 0, 1, 4) + T._block([], [], [(0, False, 0)], b'UTC\0', 4) if False else None
        b1 = T._header(2, 0, tcnt, 4) + T._block([], [], types, b'XXX\0', 4)
        b2 = T._header(2, 3, tcnt, 4) + T._block(times, idxs, types, b'XXX\0', 8)
        b = bytearray(b1 + b2 + b'\n' + z.footer + b'\n')
    return bytes(b)


def run_C12(chk):
    chk.prepare_model(['Cctz.Properties.C12', 'Cctz.Properties.C12Tables'], THEOREMS['C12'])
    exe = chk.harness('san')
    scale = chk.tier if not (chk.broken or chk.degraded) else 'thorough'
    if exe is None or not getattr(chk, 'driver_ok', False):
        return chk.finish()
    rng = chk.rng
    shipped = [b for _, b in T.shipped_zones()]
    small = [b for b in shipped if len(b) < 2500]
    synth = [z.data for z in Z.synthetic_zones()]
    n = 20000 if scale == 'quick' else 400000
    inputs = []
    skipped_large = 0
    seen = set()
    # corpus first: minimised past findings
    d = C.day_num
    for fixed in [bytes.fromhex(x) for x in CORPUS]:
        inputs.append(fixed)
    while len(inputs) < n:
        base = rng.choice(small if rng.random() < 0.7 else (synth if rng.random() < 0.5 else shipped))
        m = mutate(rng, base, small)
        if rng.random() < 0.15: m = mutate(rng, m, small)
        if len(m) > 65536 or m in seen: continue
        dl = declared(m)
        if dl and dl[0] > CAP:
            skipped_large += 1; continue
        seen.add(m); inputs.append(m)
    probes_t = [I64MIN, -2**59, -2**31, -1, 0, 1700000000, 2**31, 7161147007, 2**40, 2**59, I64MAX - 1, I64MAX]
    probes_c = [(1950, 6, 1, 12, 0, 0), (2024, 3, 10, 2, 30, 0), (2500, 7, 1, 0, 0, 0), (I64MAX, 12, 31, 23, 59, 59), (I64MIN, 1, 1, 0, 0, 0)]
    # civil years at and just beyond the ends of the instant range: where MakeTime's 400-year shift stops fitting and its guard decides
    probes_far = [(292277026596, 12, 4, 15, 30, 7), (292277026597, 1, 1, 0, 0, 0), (292277030000, 7, 1, 12, 0, 0), (292277026403, 3, 1, 0, 0, 0), (292300000000, 1, 1, 0, 0, 0),
                  (292471210000, 1, 1, 0, 0, 0), (292471210400, 6, 1, 0, 0, 0), (-292277022657, 1, 27, 8, 29, 52), (-292277022658, 12, 31, 0, 0, 0), (-292277030000, 7, 1, 12, 0, 0)]
    blocks = []
    for k, m in enumerate(inputs):
        mode = 'strict' if k % 5 == 4 else 'loose'
        a, b2 = 'a%d' % k, 'b%d' % k
        blk = ['zone %s %s %s' % (a, mode, Z.hx(m)), 'zone %s %s %s' % (b2, mode, Z.hx(m))]
        ts = rng.sample(probes_t, 6) + [rng.randrange(-2**33, 2**34)]
        for t in ts: blk.append('bt %s %d' % (a, t))
        for c in rng.sample(probes_c, 2): blk.append('mt %s %s' % (a, C.fmt(c)))
        blk.append('mt %s %s' % (a, C.fmt(rng.choice(probes_far))))
        blk += ['nt %s %d' % (a, rng.choice(probes_t)), 'pt %s %d' % (a, rng.choice(probes_t)), 'bt %s %d' % (b2, ts[0]), 'mt %s %s' % (b2, C.fmt(probes_c[1]))]
        blocks.append(blk)
    mo, io = run_blocks(chk, exe, blocks, 'load')
    # the model's `UB fuel` (a loop of the C++ without a variant) corresponds to a hang of the implementation
    for m, i in zip(mo, io):
        for j in range(len(m)):
            if 'fuel' in m[j] and i[j].startswith('CRASH timeout'): i[j] = m[j] + ' @hang'
    note_mismatches(chk, blocks, mo, io, 'load')
    good = 0; loaded = 0
    for k, (m, blk, out) in enumerate(zip(inputs, blocks, io)):
        ut = 'untame ' if untame(m) else ''
        if out[0].startswith('ok'): loaded += 1
        chk.count('outcome:' + out[0].split()[0])
        bad = False
        for l, o in zip(blk, out):
            opn = l.split()[0]
            if o.startswith('UB') or o.startswith('CRASH') or o == 'fail-but-not-utc' or o == 'NONDETERMINISTIC':
                bad = True
                what = 'does not terminate' if ('hang' in o or 'timeout' in o) else ('is undefined behaviour / crashes: ' + o)
                chk.report('%s on a %d-byte input %s' % ('load_time_zone' if opn == 'zone' else {'bt': 'lookup', 'mt': 'lookup(civil)', 'nt': 'next_transition', 'pt': 'prev_transition'}.get(opn, opn) + ' on the loaded zone', len(m), what),
                           {'tzif_hex': Z.hx(m), 'op': l if opn != 'zone' else 'zone <hex>', 'implementation': o, 'model': None},
                           sig='%s%s %s' % (ut, 'load' if opn == 'zone' else 'query', site_sig(o) if not ('hang' in o or 'timeout' in o) else 'hang'))
        # determinism: the same bytes loaded twice give the same answers
        if out[0] != out[1] or (out[0].startswith('ok') and (out[2] != out[-2] or False)):
            chk.report('outcome is not a function of the bytes: two loads of the same %d bytes answer `%s` / `%s`, lookups `%s` / `%s`' % (len(m), out[0], out[1], out[2], out[-2]),
                       {'tzif_hex': Z.hx(m), 'implementation': [out[0], out[1], out[2], out[-2]]}, sig='nondeterministic')
            bad = True
        if not bad: good += 1
    chk.cov['distinct_nontrivial'] = good
    chk.cov['loaded'] = loaded
    chk.cov['skipped_declared_over_16MiB'] = skipped_large
    chk.cov['rule'] = ('distinct byte strings <= 64 KiB: mutations of shipped and synthetic TZif files (bit flips, truncation, splices, header-count edits with the declared data length capped at 16 MiB, '
                       'type-index/isdst/abbreviation-index edits, 8-byte time edits incl. the int64 limits, footer replacement from the POSIX-TZ grammar and its near misses, files with >= 255 all-DST types), '
                       'preceded by a corpus of minimised past findings; each is loaded twice (through a ZoneInfoSource whose Skip past the end succeeds / fails) under ASan+UBSan with a per-input timeout and queried '
                       '(lookup both ways, next/prev_transition); outcome and every answer compared with the model (its overflow / out-of-range / unset-read / fuel flags against the sanitizers and the timeout); '
                       'the two loads must agree; non-trivial = inputs with no report at all')
    chk.assumptions.append('memory safety of the C++ beyond what the model flags express is supported by the ASan run only')
    chk.sample({'input_hex_prefix': Z.hx(inputs[len(CORPUS)])[:80], 'ops': blocks[len(CORPUS)][2:5], 'model': mo[len(CORPUS)][:5], 'implementation': io[len(CORPUS)][:5]})
    return chk.finish()


# minimised inputs of past findings (run first on every tier)
CORPUS = [open(__import__('os').path.join(__import__('os').path.dirname(__import__('os').path.dirname(__import__('os').path.abspath(__file__))), 'corpus', 'C12', f)).read().strip() for f in sorted(__import__('os').listdir(__import__('os').path.join(__import__('os').path.dirname(__import__('os').path.dirname(__import__('os').path.abspath(__file__))), 'corpus', 'C12')))]

REGISTRY = {'C12': run_C12}
