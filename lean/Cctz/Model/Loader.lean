/-
  Model of src/time_zone_impl.cc (`time_zone::Impl::LoadTimeZone`, the name → Impl cache) as a
  state machine over threads, at the granularity of its critical sections, plus the name
  resolution of src/time_zone_lookup.cc / time_zone_info.cc (`FileZoneInfoSource::Open`,
  `local_time_zone`).

  Atomicity assumptions (what the C++ gets from `std::mutex` / function-local statics; recorded in
  DESIGN.md as the trusted base of C13): each of `lookup` and `insert` is one atomic step (it runs
  under `TimeZoneMutex()`); the build (`new Impl(name)`) runs outside the lock and is split into
  `enter` (up to the call of the user's factory) and `leave` (the factory has returned and the
  data has been parsed) so that overlapping factory invocations are visible.
  Parameters: `data : Name → Option Bytes` is what the data source (factory / file system) holds;
  parsing is `Tz.load`.
-/
import Cctz.Model.Tz

namespace Cctz.Loader
open Cctz Bytes

abbrev Name := Bytes

/-- identity of a `time_zone::Impl` object: the UTC singleton, or the object created by the
`gen`-th build -/
inductive Ident
  | utc
  | impl (gen : Nat)
deriving DecidableEq, Repr, Inhabited

inductive PC
  | init                              -- load_time_zone(name) called, nothing done yet
  | missed                            -- first critical section found no entry
  | inFactory                         -- inside the user's zone_info_source_factory
  | built (ok : Bool) (gen : Nat)     -- `new Impl(name)` finished; `ok` = zone_ is non-null
  | done (ok : Bool) (id : Ident)     -- load_time_zone returned
deriving DecidableEq, Repr, Inhabited

structure Thread where
  name : Name
  pc : PC := .init
deriving DecidableEq, Repr, Inhabited

structure LState where
  map : List (Name × Ident) := []        -- time_zone_map
  nextGen : Nat := 0
  log : List (Nat × Name) := []          -- factory invocations (thread, name), oldest first
  active : List Nat := []                -- threads currently inside the factory
  maxActive : Nat := 0                   -- high-water mark of `active.length`
  threads : List Thread := []
deriving Repr, Inhabited

/-- the data world: what the source returns for a name, and whether those bytes load -/
structure World where
  data : Name → Option Bytes
  cfg : Tz.LoadCfg := {}

def World.loads (w : World) (n : Name) : Bool :=
  match w.data n with
  | none => false
  | some b => match (Tz.load w.cfg b).val with
    | .ok _ => true
    | _ => false

/-- `FixedOffsetFromName(name, &offset) && offset == 0`: UTC is never a key of the map -/
def isUtcName (n : Name) : Bool := Fixed.fromName n == some 0
/-- names that `TimeZoneInfo::Load(name)` resolves internally, without the factory -/
def isFixedName (n : Name) : Bool := (Fixed.fromName n).isSome

def setThread (s : LState) (τ : Nat) (t : Thread) : LState :=
  { s with threads := s.threads.set τ t }

/-- one atomic step of thread `τ`; a thread that is done (or out of range) does not move -/
def step (w : World) (s : LState) (τ : Nat) : LState :=
  match s.threads[τ]? with
  | none => s
  | some t =>
    match t.pc with
    | .init =>
      -- zero short-circuit, then the first critical section
      if isUtcName t.name then setThread s τ { t with pc := .done true .utc }
      else match s.map.lookup t.name with
        | some id => setThread s τ { t with pc := .done (id != .utc) id }
        | none => setThread s τ { t with pc := .missed }
    | .missed =>
      -- new Impl(name) outside the lock: TimeZoneIf::Make -> TimeZoneInfo::Load(name)
      if isFixedName t.name then
        setThread { s with nextGen := s.nextGen + 1 } τ { t with pc := .built true s.nextGen }
      else
        let act := s.active ++ [τ]
        setThread { s with log := s.log ++ [(τ, t.name)], active := act,
                           maxActive := max s.maxActive act.length } τ { t with pc := .inFactory }
    | .inFactory =>
      setThread { s with active := s.active.filter (· != τ), nextGen := s.nextGen + 1 } τ
        { t with pc := .built (w.loads t.name) s.nextGen }
    | .built ok gen =>
      -- second critical section: insert-if-absent
      match s.map.lookup t.name with
      | some id => setThread s τ { t with pc := .done (id != .utc) id }
      | none =>
        let id := if ok then Ident.impl gen else Ident.utc
        setThread { s with map := s.map ++ [(t.name, id)] } τ { t with pc := .done (id != .utc) id }
    | .done _ _ => s

def run (w : World) (s : LState) (sched : List Nat) : LState := sched.foldl (step w) s

def initState (names : List Name) : LState := { threads := names.map fun n => { name := n } }

/-- what a single-threaded execution returns for a name: success flag -/
def seqOk (w : World) (n : Name) : Bool :=
  isUtcName n || isFixedName n || w.loads n

/-! ## name resolution (C19) -/

/-- `FileZoneInfoSource::Open(name)`: the path that is opened.  `tzdir` is `getenv("TZDIR")`. -/
def openPath (name : Name) (tzdir : Option Bytes) : Bytes :=
  let filePrefix := ofString "file:"
  let pos := if name.take 5 = filePrefix then 5 else 0
  let rest := name.drop pos
  if pos = name.length ∨ rest.headD 0 ≠ 47 then   -- not absolute
    let dir := match tzdir with
      | some d => if cstr d ≠ [] then cstr d else ofString "/usr/share/zoneinfo"
      | none => ofString "/usr/share/zoneinfo"
    dir ++ [47] ++ rest
  else rest

/-- `local_time_zone()`: the name handed to load_time_zone.  `tz` is `getenv("TZ")`,
`localtime` is `getenv("LOCALTIME")` (Linux branch of the code) -/
def localZoneName (tz localtime : Option Bytes) : Name :=
  let zone := match tz with
    | some v => cstr v
    | none => ofString ":localtime"
  let zone := if zone.headD 0 = 58 then zone.drop 1 else zone
  if zone = ofString "localtime" then
    match localtime with
    | some l => cstr l
    | none => ofString "/etc/localtime"
  else zone

/-- `TimeZoneIf::Make`: names starting with "libc:" select the C-library implementation (not modelled) -/
def isLibcName (n : Name) : Bool := n.take 5 = ofString "libc:"

end Cctz.Loader
