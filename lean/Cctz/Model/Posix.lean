/-
  Model of src/time_zone_posix.cc: the POSIX-TZ rule parser.

  A `const char* p` into the NUL-terminated `spec.c_str()` is the list of remaining bytes of
  `cstr spec` (bytes before the first NUL); `*p` at the end reads 0.  `nullptr` is `none`.
  Fields of `PosixTimeZone` that the C++ leaves unwritten are `none` ("unset": the C++ object
  is default-initialised, its integers and the date union are indeterminate).
-/
import Cctz.Model.Bytes
import Cctz.Gen.Tables

namespace Cctz.Posix
open Cctz Bytes

inductive DateFmt | J | N | M
deriving DecidableEq, Repr, Inhabited

/-- the union `{j.day | n.day | m.{month,week,weekday}}` tagged by `fmt` -/
structure Date where
  fmt : DateFmt
  a : Int            -- j.day / n.day / m.month
  b : Int := 0       -- m.week
  c : Int := 0       -- m.weekday
deriving DecidableEq, Repr, Inhabited

structure Transition where
  date : Option Date := none
  time : Option Int := none
deriving DecidableEq, Repr, Inhabited

structure TimeZone where
  stdAbbr : Bytes := []
  stdOffset : Option Int := none
  dstAbbr : Bytes := []
  dstOffset : Option Int := none
  dstStart : Transition := {}
  dstEnd : Transition := {}
deriving DecidableEq, Repr, Inhabited

def kMaxInt : Int := 2147483647

/-- the digit loop of `ParseInt`: returns `none` for the `nullptr` (overflow) exits, otherwise the
remaining input, the value and whether at least one character was consumed -/
def parseIntLoop : Bytes → Int → Bool → Option (Bytes × Int × Bool)
  | [], v, any => some ([], v, any)
  | c :: rest, v, any =>
    if isDigit c then
      let d : Int := c.toNat - 48
      if v > cdiv kMaxInt 10 then none
      else
        let v10 := v * 10
        if v10 > kMaxInt - d then none
        else parseIntLoop rest (v10 + d) true
    else some (c :: rest, v, any)

/-- `ParseInt(p, min, max, &v)` -/
def parseInt (p : Bytes) (min max : Int) : Option (Bytes × Int) :=
  match parseIntLoop p 0 false with
  | none => none
  | some (rest, v, any) => if !any || v < min || v > max then none else some (rest, v)

/-- `ParseAbbr(p, &abbr)` -/
def parseAbbr (p : Bytes) : Option (Bytes × Bytes) :=
  if peek p = 60 then          -- '<'
    let inner := (p.drop 1).takeWhile (· ≠ 62)
    let after := (p.drop 1).dropWhile (· ≠ 62)
    match after with
    | [] => none                -- reached NUL before '>'
    | _ :: rest => some (rest, inner)
  else
    let stop (c : UInt8) : Bool := c = 45 || c = 43 || c = 44 || isDigit c
    let abbr := p.takeWhile (fun c => !stop c)
    let rest := p.dropWhile (fun c => !stop c)
    if abbr.length < 3 then none else some (rest, abbr)

/-- `ParseOffset(p, min_hour, max_hour, sign, &offset)` -/
def parseOffset (p : Option Bytes) (minHour maxHour sign : Int) : Option (Bytes × Int) := do
  let p ← p
  let (p, sign) := if peek p = 43 then (p.drop 1, sign) else if peek p = 45 then (p.drop 1, -sign) else (p, sign)
  let (p, hours) ← parseInt p minHour maxHour
  if peek p = 58 then
    let (p, minutes) ← parseInt (p.drop 1) Gen.posix_minutes_lo Gen.posix_minutes_hi
    if peek p = 58 then
      let (p, seconds) ← parseInt (p.drop 1) Gen.posix_seconds_lo Gen.posix_seconds_hi
      pure (p, sign * ((((hours * 60) + minutes) * 60) + seconds))
    else pure (p, sign * ((((hours * 60) + minutes) * 60) + 0))
  else pure (p, sign * ((((hours * 60) + 0) * 60) + 0))

/-- `ParseDateTime(p, res)`: returns the new `p` (`none` = nullptr) and the updated `res` -/
def parseDateTime (p : Option Bytes) (res : Transition) : Option Bytes × Transition :=
  let (p, res) : Option Bytes × Transition :=
    match p with
    | none => (none, res)
    | some q =>
      if peek q = 44 then        -- ','
        let q := q.drop 1
        if peek q = 77 then      -- 'M'
          match parseInt (q.drop 1) Gen.posix_month_lo Gen.posix_month_hi with
          | none => (none, res)
          | some (q1, month) =>
            if peek q1 = 46 then
              match parseInt (q1.drop 1) Gen.posix_week_lo Gen.posix_week_hi with
              | none => (none, res)
              | some (q2, week) =>
                if peek q2 = 46 then
                  match parseInt (q2.drop 1) Gen.posix_weekday_lo Gen.posix_weekday_hi with
                  | none => (none, res)
                  | some (q3, weekday) => (some q3, { res with date := some ⟨.M, month, week, weekday⟩ })
                else (none, res)        -- `p = nullptr`: missing ".weekday"
            else (none, res)            -- `p = nullptr`: missing ".week.weekday"
        else if peek q = 74 then -- 'J'
          match parseInt (q.drop 1) Gen.posix_jday_lo Gen.posix_jday_hi with
          | none => (none, res)
          | some (q1, day) => (some q1, { res with date := some ⟨.J, day, 0, 0⟩ })
        else
          match parseInt q Gen.posix_nday_lo Gen.posix_nday_hi with
          | none => (none, res)
          | some (q1, day) => (some q1, { res with date := some ⟨.N, day, 0, 0⟩ })
      else (none, res)                  -- `p = nullptr`: the ",date" part is not optional
  match p with
  | none => (none, res)
  | some q =>
    let res := { res with time := some Gen.posix_default_time }
    if peek q = 47 then        -- '/'
      match parseOffset (some (q.drop 1)) Gen.posix_time_lo Gen.posix_time_hi Gen.posix_time_sign with
      | none => (none, res)    -- ParseOffset does not write on failure; the default stays
      | some (q1, off) => (some q1, { res with time := some off })
    else (some q, res)

/-- `ParsePosixSpec(spec, &res)`; `res` starts default-constructed -/
def parsePosixSpec (spec : Bytes) : Option TimeZone :=
  let p := cstr spec
  if peek p = 58 then none else       -- ':'
  if spec.contains 0 then none else   -- spec.find('\0') != npos
  let res : TimeZone := {}
  -- p = ParseAbbr(p, &res->std_abbr); p = ParseOffset(p, 0, 24, -1, &res->std_offset);
  match parseAbbr p with
  | none => none
  | some (p, stdAbbr) =>
    let res := { res with stdAbbr := stdAbbr }
    match parseOffset (some p) Gen.posix_stdoff_lo Gen.posix_stdoff_hi Gen.posix_stdoff_sign with
    | none => none
    | some (p, stdOff) =>
      let res := { res with stdOffset := some stdOff }
      if peek p = 0 then some res else
      match parseAbbr p with
      | none => none
      | some (p, dstAbbr) =>
        let res := { res with dstAbbr := dstAbbr, dstOffset := some (stdOff + Gen.posix_default_dst_shift) }
        let r : Option (Bytes × TimeZone) :=
          if peek p ≠ 44 then
            match parseOffset (some p) Gen.posix_dstoff_lo Gen.posix_dstoff_hi Gen.posix_dstoff_sign with
            | none => none
            | some (p, dstOff) => some (p, { res with dstOffset := some dstOff })
          else some (p, res)
        -- p = ParseDateTime(p, &res->dst_start); p = ParseDateTime(p, &res->dst_end);
        let (p1, res) : Option Bytes × TimeZone :=
          match r with
          | none => (none, res)
          | some (p, res) => let (p', s) := parseDateTime (some p) res.dstStart; (p', { res with dstStart := s })
        let (p2, e) := parseDateTime p1 res.dstEnd
        let res := { res with dstEnd := e }
        match p2 with
        | none => none
        | some p => if peek p = 0 then some res else none

end Cctz.Posix
