/-
  Model of src/time_zone_fixed.cc: names and abbreviations of fixed-offset zones.
-/
import Cctz.Model.Bytes
import Cctz.Gen.Tables

namespace Cctz.Fixed
open Cctz Bytes

def prefixBytes : Bytes := Gen.kFixedZonePrefix.map fun n => UInt8.ofNat n.toNat

/-- `Format02d(p, v)`: `kDigits[(v / 10) % 10]`, `kDigits[v % 10]` -/
def format02d (v : Int) : Ck Bytes := do
  let a ← digitChar (cmod (cdiv v 10) 10)
  let b ← digitChar (cmod v 10)
  pure [a, b]

/-- `Parse02d(p)`; `strchr` also matches the terminating NUL (index 10), which the code rejects
explicitly (`v < 10 && w < 10`) -/
def parse02d (p : Bytes) : Int :=
  match digitIdx (peek p) with
  | some v =>
    match digitIdx (peek (p.drop 1)) with
    | some w => if v < 10 ∧ w < 10 then v * 10 + w else -1
    | none => -1
  | none => -1

/-- `FixedOffsetToName(offset)` -/
def toName (off : Int) : Ck Bytes :=
  if off == 0 then pure (ofString "UTC")
  else if off < -86400 ∨ off > 86400 then pure (ofString "UTC")
  else do
    let neg := decide (off < 0)
    let mins0 := cdiv off 60
    let secs0 := cmod off 60
    let (secs1, mins1) := if neg then
        (let (s, m) := if secs0 > 0 then (secs0 - 60, mins0 + 1) else (secs0, mins0)
         (-s, -m))
      else (secs0, mins0)
    let hours := cdiv mins1 60
    let mins2 := cmod mins1 60
    let h ← format02d hours
    let m ← format02d mins2
    let s ← format02d secs1
    pure (prefixBytes ++ [if neg then 45 else 43] ++ h ++ [58] ++ m ++ [58] ++ s)

/-- `FixedOffsetFromName(name, &offset)`; `name` is a `std::string` (may contain NULs) -/
def fromName (name : Bytes) : Option Int :=
  if name = ofString "UTC" ∨ name = ofString "UTC0" then some 0
  else
    let pl := prefixBytes.length
    if name.length ≠ pl + 9 then none
    else if name.take pl ≠ prefixBytes then none
    else
      let np := name.drop pl
      let c0 := np.getD 0 0
      if c0 ≠ 43 ∧ c0 ≠ 45 then none
      else if np.getD 3 0 ≠ 58 ∨ np.getD 6 0 ≠ 58 then none
      else
        let hours := parse02d (np.drop 1)
        if hours == -1 then none else
        let mins := parse02d (np.drop 4)
        if mins == -1 then none else
        let secs := parse02d (np.drop 7)
        if secs == -1 then none else
        let total := secs + ((hours * 60) + mins) * 60
        if total > 24 * 60 * 60 then none
        else some (total * (if c0 = 45 then -1 else 1))

/-- `FixedOffsetToAbbr(offset)` -/
def toAbbr (off : Int) : Ck Bytes := do
  let name ← toName off
  let pl := prefixBytes.length
  if name.length = pl + 9 then
    let a := name.drop pl                       -- +99:99:99
    let a := a.take 6 ++ a.drop 7               -- +99:9999
    let a := a.take 3 ++ a.drop 4               -- +999999
    if a.getD 5 0 = 48 ∧ a.getD 6 0 = 48 then   -- +999900
      let a := a.take 5                         -- +9999
      if a.getD 3 0 = 48 ∧ a.getD 4 0 = 48 then pure (a.take 3) else pure a
    else pure a
  else pure name

end Cctz.Fixed
