/-
  Executable (Bool) versions of the table predicates of `Cctz.Spec` so that the driver can evaluate,
  on every zone used in a run, whether the hypotheses of the table-level theorems hold
  (`preds` op; the evidence records how many zones satisfy each).  Soundness theorems
  (`…b z = true → …`) are in Cctz/Proofs/TableCheckSound.lean.
-/
import Cctz.Spec.TableSem
import Cctz.Spec.TableTame

namespace Cctz.TableCheck
open Cctz Cctz.Tz Cctz.Spec

def allIdx (n : Nat) (p : Nat → Bool) : Bool := (List.range n).all p

def tableWFb (z : Zone) : Bool :=
  decide (0 < z.transitions.size) &&
  allIdx (z.transitions.size - 1) (fun i => decide ((trn z i).unixTime < (trn z (i + 1)).unixTime)) &&
  allIdx z.transitions.size (fun i => decide ((trn z i).typeIndex < z.types.size)) &&
  decide (z.defaultType < z.types.size)

def civilSortedb (z : Zone) : Bool :=
  allIdx (z.transitions.size - 1) (fun i => Civil.lt (trn z i).civilSec (trn z (i + 1)).civilSec)

def civilColsb (z : Zone) : Bool :=
  allIdx z.transitions.size (fun i =>
    decide (Valid (trn z i).civilSec) && decide (secNum (trn z i).civilSec = timeOf z i + offOf z i) &&
    decide (Valid (trn z i).prevCivilSec) && decide (secNum (trn z i).prevCivilSec = timeOf z i + offBefore z i - 1)) &&
  allIdx z.types.size (fun k =>
    decide (Valid (typ z k).civilMax) && decide (secNum (typ z k).civilMax = i64max + (typ z k).utcOffset) &&
    decide (Valid (typ z k).civilMin) && decide (secNum (typ z k).civilMin = i64min + (typ z k).utcOffset))

def separatedb (z : Zone) : Bool :=
  allIdx (z.transitions.size - 1) (fun i =>
    decide (timeOf z i + offOf z i < timeOf z (i + 1) + offOf z (i + 1)) &&
    decide (timeOf z i + offBefore z i ≤ timeOf z (i + 1) + offBefore z (i + 1)) &&
    decide (timeOf z i + offBefore z i - 1 < timeOf z (i + 1) + offOf z (i + 1)))

def timesInRangeb (z : Zone) : Bool := allIdx z.transitions.size (fun i => decide (inI64 (timeOf z i)))

def firstEntryRoomb (z : Zone) : Bool := decide (i64min ≤ timeOf z 0 + offOf z 0 - offBefore z 0)

/-- recorded times within ±2^59 and the last generated entry late enough (strictly after
INT64_MAX mod kSecsPer400Years = 7161147007, see `C10Safe.breakTime_ok_counterexample`) for the
400-year shift of lookups up to max() not to overflow (`Qo.Tame'` of the C10 theorems) -/
def tameb (z : Zone) : Bool :=
  allIdx z.transitions.size (fun i => decide (-576460752303423488 ≤ timeOf z i ∧ timeOf z i ≤ 576460752303423488)) &&
  (!z.extended || decide (7161147008 ≤ timeOf z (z.transitions.size - 1)))

end Cctz.TableCheck
