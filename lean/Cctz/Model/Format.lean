/-
  Model of `cctz::detail::format` (src/time_zone_format.cc).

  `strftime` is a parameter: `sf run tm` is what the C library renders for the format `run` and
  the broken-down time `tm` given an unlimited buffer.  `formatTM` adds the code's growing-buffer
  rule (tried with 2×, 4×, 8×, 16× the length of the run; an empty or too long result appends
  nothing).  The format string is NUL-terminated (`c_str()`): reading at `end` yields 0.
-/
import Cctz.Model.Civil
import Cctz.Model.Tz

namespace Cctz.Format
open Cctz Bytes

/-- `std::tm` as filled by `ToTM` -/
structure Tm where
  sec : Int
  min : Int
  hour : Int
  mday : Int
  mon : Int
  year : Int
  wday : Int
  yday : Int
  isdst : Int
deriving DecidableEq, Repr, Inhabited

abbrev Strftime := Bytes → Tm → Bytes

/-- `ToTmWday(get_weekday(cs))`: model weekday Monday = 0 … Sunday = 6 → tm_wday Sunday = 0 -/
def toTmWday (wd : Int) : Int := if wd == 6 then 0 else wd + 1

/-- `ToTM(al)` -/
def toTM (al : Tz.AbsLookup) : Ck Tm := do
  let cs := al.cs
  let year ← (if cs.y < i32min + 1900 then pure i32min
    else do
      let d ← chk64 (cs.y - 1900)
      if d > i32max then pure i32max else pure d : Ck Int)
  let wd ← Civil.getWeekday cs
  let yd ← Civil.getYearday cs
  pure ⟨cs.ss, cs.mm, cs.hh, cs.d, cs.m - 1, year, toTmWday wd, yd - 1, if al.isDst then 1 else 0⟩

/-- `ToWeek(cd, week_start)`; `weekStart` in model weekday numbering -/
def toWeek (cs : Fields) (weekStart : Int) : Ck Int := do
  let d ← Civil.civilNew .day (cmod cs.y 400) cs.m cs.d 0 0 0
  let jan1 := Civil.align .year d
  let p ← Civil.prevWeekday jan1 weekStart
  let diff ← Civil.difference .day d p
  pure (cdiv diff 7)

/-- decimal digits of a natural number, most significant first -/
def natDigits (n : Nat) : Bytes := (Nat.toDigits 10 n).map fun c => UInt8.ofNat c.toNat

/-- `Format64(ep, width, v)`: the characters it writes (it works backwards from `ep`) -/
def format64 (width : Int) (v : Int) : Bytes :=
  let neg := decide (v < 0)
  let digits := natDigits v.natAbs
  let w := (if neg then width - 1 else width).toNat
  let padded := List.replicate (w - digits.length) (48 : UInt8) ++ digits
  if neg then 45 :: padded else padded

/-- `Format02d(ep, v)`: `kDigits[(v / 10) % 10]`, `kDigits[v % 10]` -/
def format02d (v : Int) : Ck Bytes := do
  let a ← digitChar (cmod (cdiv v 10) 10)
  let b ← digitChar (cmod v 10)
  pure [a, b]

/-- `FormatOffset(ep, offset, mode)`; `mode` is "" | ":" | ":*" | ":*:" -/
def formatOffset (offset : Int) (mode : Bytes) : Ck Bytes := do
  let neg := decide (offset < 0)
  let off ← (if neg then chk32 (-offset) else pure offset : Ck Int)
  let seconds := cmod off 60
  let off1 := cdiv off 60
  let minutes := cmod off1 60
  let hours := cdiv off1 60
  let sep := mode.headD 0
  let ext := sep ≠ 0 ∧ mode.getD 1 0 = 42
  let ccc := ext ∧ mode.getD 2 0 = 58
  -- built back to front
  let (tailS, sign0) ← (if ext ∧ (!ccc ∨ seconds ≠ 0) then do
      let s ← format02d seconds
      pure (sep :: s, neg)
    else pure ([], if hours = 0 ∧ minutes = 0 then false else neg) : Ck (Bytes × Bool))
  let tailM ← (if !ccc ∨ minutes ≠ 0 ∨ seconds ≠ 0 then do
      let m ← format02d minutes
      pure ((if sep ≠ 0 then [sep] else []) ++ m)
    else pure [] : Ck Bytes)
  let h ← format02d hours
  pure ([if sign0 then 45 else 43] ++ h ++ tailM ++ tailS)

/-- `FormatTM(&result, run, tm)` -/
def formatTM (sf : Strftime) (run : Bytes) (tm : Tm) : Bytes :=
  let out := sf (cstr run) tm
  if out.length ≠ 0 ∧ out.length + 1 ≤ 16 * run.length then out else []

/-- a conversion written into the 21-byte scratch buffer: longer output would run off its start -/
def scratch (b : Bytes) : Ck Bytes :=
  if (b.length : Int) ≤ Gen.formatBufSize then pure b else ⟨b, flagOob⟩

/-- `ParseInt(cur, 0, 0, 1024, &n)` on the format string: digits from `i`; returns the value and the
index after the digits, or none (no digit, overflow of `int`, value > 1024) -/
def parseWidth (fmt : Array UInt8) (i : Nat) : Option (Int × Nat) :=
  let rec go (j : Nat) (v : Int) (fuel : Nat) : Option (Int × Nat) :=
    match fuel with
    | 0 => some (v, j)
    | fuel + 1 =>
      let c := fmt.getD j 0
      if isDigit c then
        let d : Int := c.toNat - 48
        -- value accumulates negatively in `int`: erange when it would pass INT_MIN
        if -v < cdiv i32min 10 then none
        else
          let v10 := v * 10
          if -v10 < i32min + d then none else go (j + 1) (v10 + d) fuel
      else some (v, j)
  match go i 0 (fmt.size + 1 - i) with
  | none => none
  | some (v, j) => if j = i ∨ v > 1024 then none else some (v, j)

/-- a piece of the output: text produced by the library itself, or a run of the format string that
is handed to strftime -/
inductive Seg
  | lit (b : Bytes)
  | run (r : Bytes)
deriving DecidableEq, Repr, Inhabited

structure St where
  out : List Seg := []
  pending : Nat := 0
  cur : Nat := 0

/-- the output string: library text verbatim, strftime runs through `formatTM` -/
def render (sf : Strftime) (tm : Tm) (segs : List Seg) : Bytes :=
  segs.flatMap fun s => match s with
    | .lit b => b
    | .run r => formatTM sf r tm

/-- the body of `format()` after `al`, `tm` have been computed -/
def formatLoop (fmt : Array UInt8) (al : Tz.AbsLookup) (tm : Tm) (t fs : Int) :
    Nat → St → Ck (List Seg)
  | 0, st => ⟨st.out, flagFuel⟩
  | fuel + 1, st => do
    let fin := fmt.size
    let chAt (i : Nat) : UInt8 := fmt.getD i 0
    let slice (a b : Nat) : Bytes := (fmt.extract a b).toList
    if st.cur = fin then
      -- formats any remaining data
      return (if fin ≠ st.pending then st.out ++ [.run (slice st.pending fin)] else st.out)
    let start := st.cur
    -- moves cur to the next percent sign
    let rec skipTo (i : Nat) (pct : Bool) (f : Nat) : Nat :=
      match f with
      | 0 => i
      | f + 1 => if i ≠ fin ∧ (decide (chAt i = 37) == pct) then skipTo (i + 1) pct f else i
    let cur1 := skipTo st.cur false (fin + 1)
    let (out1, pending1, start1) :=
      if cur1 ≠ start ∧ st.pending = start then (st.out ++ [.lit (slice st.pending cur1)], cur1, cur1) else (st.out, st.pending, start)
    let percent := cur1
    let cur2 := skipTo cur1 true (fin + 1)
    let (out2, pending2) :=
      if cur2 ≠ start1 ∧ pending1 = start1 then
        let escaped := (cur2 - pending1) / 2
        let o := out1 ++ [.lit (slice pending1 (pending1 + escaped))]
        let p := pending1 + escaped * 2
        if p ≠ cur2 ∧ cur2 = fin then (o ++ [.lit [chAt p]], p + 1) else (o, p)
      else (out1, pending1)
    if cur2 = fin ∨ (cur2 - percent) % 2 = 0 then
      return ← formatLoop fmt al tm t fs fuel { out := out2, pending := pending2, cur := cur2 }
    let c := chAt cur2
    let flush (upto : Nat) (o : List Seg) : List Seg := if upto ≠ pending2 then o ++ [.run (slice pending2 upto)] else o
    -- simple specifiers (strchr also matches the terminating NUL character)
    if c = 0 ∨ (Gen.formatSimpleSpecs.contains (c.toNat : Int)) then
      let o := flush (cur2 - 1) out2
      let piece ← (
        if c = 89 then scratch (format64 0 al.cs.y)                                     -- Y
        else if c = 109 then do let b ← format02d al.cs.m; scratch b                     -- m
        else if c = 100 then do let b ← format02d al.cs.d; scratch b                     -- d
        else if c = 101 then do                                                          -- e
          let b ← format02d al.cs.d
          scratch (if b.headD 0 = 48 then 32 :: b.drop 1 else b)
        else if c = 85 then do let w ← toWeek al.cs 6; let b ← format02d w; scratch b    -- U (weeks start Sunday)
        else if c = 117 then scratch (format64 0 (if tm.wday ≠ 0 then tm.wday else 7))   -- u
        else if c = 87 then do let w ← toWeek al.cs 0; let b ← format02d w; scratch b    -- W (Monday)
        else if c = 119 then scratch (format64 0 tm.wday)                                -- w
        else if c = 72 then do let b ← format02d al.cs.hh; scratch b                     -- H
        else if c = 77 then do let b ← format02d al.cs.mm; scratch b                     -- M
        else if c = 83 then do let b ← format02d al.cs.ss; scratch b                     -- S
        else if c = 122 then do let b ← formatOffset al.offset []; scratch b             -- z
        else if c = 90 then pure al.abbr                                                 -- Z
        else if c = 115 then scratch (format64 0 t)                                      -- s
        else if c = 37 then pure [37]
        else pure [] : Ck Bytes)
      return ← formatLoop fmt al tm t fs fuel { out := o ++ [.lit piece], pending := cur2 + 1, cur := cur2 + 1 }
    -- %:z %::z %:::z
    if c = 58 ∧ cur2 + 1 ≠ fin then
      if chAt (cur2 + 1) = 122 then
        let b ← formatOffset al.offset [58]
        let b ← scratch b
        return ← formatLoop fmt al tm t fs fuel { out := flush (cur2 - 1) out2 ++ [.lit b], pending := cur2 + 2, cur := cur2 + 2 }
      if chAt (cur2 + 1) = 58 ∧ cur2 + 2 ≠ fin then
        if chAt (cur2 + 2) = 122 then
          let b ← formatOffset al.offset [58, 42]
          let b ← scratch b
          return ← formatLoop fmt al tm t fs fuel { out := flush (cur2 - 1) out2 ++ [.lit b], pending := cur2 + 3, cur := cur2 + 3 }
        if chAt (cur2 + 2) = 58 ∧ cur2 + 3 ≠ fin then
          if chAt (cur2 + 3) = 122 then
            let b ← formatOffset al.offset [58, 42, 58]
            let b ← scratch b
            return ← formatLoop fmt al tm t fs fuel { out := flush (cur2 - 1) out2 ++ [.lit b], pending := cur2 + 4, cur := cur2 + 4 }
    -- loop if there is no E modifier
    if c ≠ 69 ∨ cur2 + 1 = fin then
      return ← formatLoop fmt al tm t fs fuel { out := out2, pending := pending2, cur := if c ≠ 69 then cur2 else cur2 + 1 }
    let cur3 := cur2 + 1
    let e := chAt cur3
    let fl (o : List Seg) : List Seg := if cur3 - 2 ≠ pending2 then o ++ [.run (slice pending2 (cur3 - 2))] else o
    if e = 84 then        -- %ET
      return ← formatLoop fmt al tm t fs fuel { out := fl out2 ++ [.lit [84]], pending := cur3 + 1, cur := cur3 + 1 }
    if e = 122 then       -- %Ez
      let b ← formatOffset al.offset [58]
      let b ← scratch b
      return ← formatLoop fmt al tm t fs fuel { out := fl out2 ++ [.lit b], pending := cur3 + 1, cur := cur3 + 1 }
    if e = 42 ∧ cur3 + 1 ≠ fin ∧ chAt (cur3 + 1) = 122 then     -- %E*z
      let b ← formatOffset al.offset [58, 42]
      let b ← scratch b
      return ← formatLoop fmt al tm t fs fuel { out := fl out2 ++ [.lit b], pending := cur3 + 2, cur := cur3 + 2 }
    if e = 42 ∧ cur3 + 1 ≠ fin ∧ (chAt (cur3 + 1) = 83 ∨ chAt (cur3 + 1) = 102) then   -- %E*S %E*f
      let digits := format64 15 fs
      -- strip trailing zeros
      let stripped := (digits.reverse.dropWhile (· = 48)).reverse
      let piece ← (if chAt (cur3 + 1) = 83 then do
          let s ← format02d al.cs.ss
          pure (s ++ (if stripped.isEmpty then [] else 46 :: stripped))
        else pure (if stripped.isEmpty then [48] else stripped) : Ck Bytes)
      -- the scratch buffer holds the 15 digits before stripping plus '.' and two second digits
      let _ ← scratch (digits ++ [46, 48, 48])
      return ← formatLoop fmt al tm t fs fuel { out := fl out2 ++ [.lit piece], pending := cur3 + 2, cur := cur3 + 2 }
    if e = 52 ∧ cur3 + 1 ≠ fin ∧ chAt (cur3 + 1) = 89 then      -- %E4Y
      let b ← scratch (format64 4 al.cs.y)
      return ← formatLoop fmt al tm t fs fuel { out := fl out2 ++ [.lit b], pending := cur3 + 2, cur := cur3 + 2 }
    if isDigit e then
      match parseWidth fmt cur3 with
      | some (n, np) =>
        let x := chAt np
        if x = 83 ∨ x = 102 then
          let frac ← (if n > 0 then do
              let n' := if n > Gen.kDigits10_64 then Gen.kDigits10_64 else n
              let v ← (if n' > 15 then do
                  let k ← getC Gen.kExp10 (n' - 15) 1
                  chk64 (fs * k)
                else do
                  let k ← getC Gen.kExp10 (15 - n') 1
                  pure (cdiv fs k) : Ck Int)
              let d := format64 n' v
              pure (if x = 83 then 46 :: d else d)
            else pure [] : Ck Bytes)
          let piece ← (if x = 83 then do let s ← format02d al.cs.ss; pure (s ++ frac) else pure frac : Ck Bytes)
          let piece ← scratch piece
          return ← formatLoop fmt al tm t fs fuel { out := fl out2 ++ [.lit piece], pending := np + 1, cur := np + 1 }
        else
          return ← formatLoop fmt al tm t fs fuel { out := out2, pending := pending2, cur := cur3 }
      | none => return ← formatLoop fmt al tm t fs fuel { out := out2, pending := pending2, cur := cur3 }
    formatLoop fmt al tm t fs fuel { out := out2, pending := pending2, cur := cur3 }

/-- `detail::format(format, tp, fs, tz)` given what `tz.lookup(tp)` returned -/
def formatSegs (fmt : Bytes) (al : Tz.AbsLookup) (t fs : Int) : Ck (Tm × List Seg) := do
  let tm ← toTM al
  let segs ← formatLoop fmt.toArray al tm t fs (fmt.length + 2) {}
  pure (tm, segs)

def format (sf : Strftime) (fmt : Bytes) (al : Tz.AbsLookup) (t fs : Int) : Ck Bytes :=
  (fun (p : Tm × List Seg) => render sf p.1 p.2) <$> formatSegs fmt al t fs

end Cctz.Format
