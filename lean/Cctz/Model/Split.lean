/-
  Model of include/cctz/time_zone.h: detail::split_seconds and detail::join_seconds, for a
  duration type `std::chrono::duration<Rep, std::ratio<N, D>>` (N, D > 0, gcd 1) holding `c` ticks.
  libstdc++'s duration_cast / time_point_cast are modelled by the standard's formula
  (truncation toward zero, computed in the common type); `Rep` is given by its range.
-/
import Cctz.Model.Ck

namespace Cctz.Split
open Cctz

/-- `split_seconds(tp)` for a tick type of period `N/D` seconds: `(sec, sub)` where `sub` is
counted in the tick type.  `sec = time_point_cast<seconds>(tp)` truncates toward zero; the
remainder `tp - sec` is formed in the common type (period `1/D` when `N = 1`, seconds when
`D = 1`); a negative remainder borrows one second. -/
def splitSeconds (N D c : Int) : Ck (Int × Int) := do
  -- duration_cast<seconds>: c * N / D toward zero
  let num ← chk64 (c * N)
  let sec := cdiv num D
  -- sub = tp - sec in the common type: period gcd(N,1)/lcm(D,1) = 1/D
  let tpC ← chk64 (c * N)
  let secC ← chk64 (sec * D)
  let sub ← chk64 (tpC - secC)
  let (sec, sub) ← (if sub < 0 then do
      let s ← chk64 (sec - 1)
      let u ← chk64 (sub + D)
      pure (s, u)
    else pure (sec, sub) : Ck (Int × Int))
  -- duration_cast<D>(sub): from period 1/D to period N/D
  pure (sec, cdiv sub N)

/-- femtoseconds handed to `detail::format`: `duration_cast<femtoseconds>(p.second)` for a tick
period `N/D`: conversion factor `(N/D)/(1/10^15)` reduced to lowest terms, `sub * num / den`
toward zero in 64-bit arithmetic -/
def subToFemto (N D sub : Int) : Ck Int := do
  let g : Int := Int.gcd (N * 1000000000000000) D
  let num := N * 1000000000000000 / g
  let den := D / g
  let a ← chk64 (sub * num)
  pure (cdiv a den)

/-- `join_seconds(sec, fs, &tp)` for `Rep` with range `[lo, hi]` and period `Num/1`, `Num ≥ 1`:
`none` = returns false -/
def joinCoarse (Num lo hi sec : Int) : Option Int :=
  let count := if sec ≥ 0 ∨ cmod sec Num = 0 then cdiv sec Num else cdiv sec Num - 1
  if count > hi then none else if count < lo then none else some count

/-- the `ratio<1,1>` overload for a narrower `Rep` -/
def joinSecondsRep (lo hi sec : Int) : Option Int :=
  if sec > hi then none else if sec < lo then none else some sec

/-- the `ratio<1, Denom>` overload: `time_point_cast<D>(sec) + duration_cast<D>(fs)`; always
returns true; overflows (undefined) when the count does not fit -/
def joinFine (Denom sec fs : Int) : Ck Int := do
  let a ← chk64 (sec * Denom)
  -- duration_cast<D>(fs): fs * Denom / 10^15 toward zero (common-type arithmetic)
  let b := if Denom ≤ 1000000000000000 then cdiv fs (1000000000000000 / Denom) else fs * (Denom / 1000000000000000)
  chk64 (a + b)

end Cctz.Split
