/-
  Complete executable (Bool) checker for the hypothesis `Qo.Tame'` of the C10 theorems
  (`Spec.Tame` of Cctz/Spec/TableTame.lean plus the strict bound `extStrict` of
  Cctz/Proofs/QoTame.lean): one Bool check per clause.  Soundness and completeness
  (`tameFullb z = true ↔ Qo.Tame' z`) are proved in Cctz/Proofs/TameCheckSound.lean and registered
  in Cctz/Properties/C10Check.lean.  This file imports nothing from Cctz/Proofs so that the driver
  can link it.
-/
import Cctz.Model.TableCheck

namespace Cctz.TameCheck
open Cctz Cctz.Tz Cctz.Spec Cctz.TableCheck

/-- `Tame.offs`: every type's offset strictly within ±90000 s -/
def offsb (z : Zone) : Bool :=
  allIdx z.types.size (fun k => decide (-90000 < (typ z k).utcOffset) && decide ((typ z k).utcOffset < 90000))

/-- `Tame.times`: every table time within ±2^60 -/
def timesb (z : Zone) : Bool :=
  allIdx z.transitions.size (fun i =>
    decide (-1152921504606846976 ≤ timeOf z i) && decide (timeOf z i ≤ 1152921504606846976))

/-- `Tame.halves`: the first entry is negative, the last is not -/
def halvesb (z : Zone) : Bool :=
  decide (timeOf z 0 < 0) && decide (0 ≤ timeOf z (z.transitions.size - 1))

/-- `Tame.ext` together with `Tame'.extStrict`: a rule-extended table records its last year, ends
strictly after `INT64_MAX mod kSecsPer400Years = 7161147007`, and its last civil year is at most one
beyond the recorded last year -/
def extb (z : Zone) : Bool :=
  !z.extended ||
  (match z.lastYear with
   | some ly =>
     decide (7161147008 ≤ timeOf z (z.transitions.size - 1)) &&
     decide (-40000000000 ≤ ly) && decide (ly ≤ 40000000000) &&
     decide ((trn z (z.transitions.size - 1)).civilSec.y ≤ ly + 1)
   | none => false)

/-- all clauses of `Qo.Tame'` -/
def tameFullb (z : Zone) : Bool :=
  tableWFb z && civilColsb z && civilSortedb z && offsb z && timesb z && halvesb z && extb z

end Cctz.TameCheck
