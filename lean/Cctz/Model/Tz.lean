/-
  Model of src/time_zone_info.cc: the TZif loader, `ExtendTransitions`, `ResetToBuiltinUTC`,
  `BreakTime`, `MakeTime`, `NextTransition`, `PrevTransition` (with their hints as explicit state).

  Not modelled (parameters / outside the model): the file system and the factory (the loader takes
  the byte string a `ZoneInfoSource` would deliver), `version_`, libstdc++ containers.
  `std::upper_bound` / `lower_bound` are modelled by binary searches over `Array`.
-/
import Cctz.Model.Civil
import Cctz.Model.Fixed
import Cctz.Model.Posix

namespace Cctz.Tz
open Cctz Bytes

structure Transition where
  unixTime : Int
  typeIndex : Nat
  civilSec : Fields := ⟨1970, 1, 1, 0, 0, 0⟩
  prevCivilSec : Fields := ⟨1970, 1, 1, 0, 0, 0⟩
deriving DecidableEq, Repr, Inhabited

structure TransitionType where
  utcOffset : Int
  civilMax : Fields := ⟨1970, 1, 1, 0, 0, 0⟩
  civilMin : Fields := ⟨1970, 1, 1, 0, 0, 0⟩
  isDst : Bool
  abbrIndex : Nat
deriving DecidableEq, Repr, Inhabited

structure Zone where
  transitions : Array Transition := #[]
  types : Array TransitionType := #[]
  defaultType : Nat := 0
  abbreviations : Bytes := []
  futureSpec : Bytes := []
  extended : Bool := false
  lastYear : Option Int := none     -- `last_year_` is written only by ExtendTransitions
deriving Repr, Inhabited

structure AbsLookup where
  cs : Fields
  offset : Int
  isDst : Bool
  abbr : Bytes
deriving DecidableEq, Repr, Inhabited

inductive Kind | unique | skipped | repeated
deriving DecidableEq, Repr, Inhabited

structure CivilLookup where
  kind : Kind
  pre : Int
  trans : Int
  post : Int
deriving DecidableEq, Repr, Inhabited

def epoch : Fields := ⟨1970, 1, 1, 0, 0, 0⟩

/-! ## small helpers -/

def isLeap (y : Int) : Bool := cmod y 4 == 0 && (cmod y 100 != 0 || cmod y 400 == 0)

/-- `ToPosixWeekday(get_weekday(cs))`: 0 = Sunday … 6 = Saturday (model weekday: Monday = 0) -/
def toPosixWeekday (wd : Int) : Int := if wd == 6 then 0 else wd + 1

/-- the C string `&abbreviations_[i]` -/
def abbrAt (abbrs : Bytes) (i : Nat) : Bytes := cstr (abbrs.drop i)

def getType (z : Zone) (i : Nat) : Ck TransitionType :=
  match z.types[i]? with
  | some t => pure t
  | none => ⟨default, flagOob⟩

def getTrans (z : Zone) (i : Nat) : Ck Transition :=
  match z.transitions[i]? with
  | some t => pure t
  | none => ⟨default, flagOob⟩

/-- `LocalTime(unix_time, tt)` : `(civil_second() + unix_time) + tt.utc_offset` -/
def localTimeTT (abbrs : Bytes) (unixTime : Int) (tt : TransitionType) : Ck AbsLookup := do
  let a ← Civil.civilAdd .second epoch unixTime
  let b ← Civil.civilAdd .second a tt.utcOffset
  pure ⟨b, tt.utcOffset, tt.isDst, abbrAt abbrs tt.abbrIndex⟩

/-- `LocalTime(unix_time, tr)` : `tr.civil_sec + (unix_time - tr.unix_time)` -/
def localTimeTr (z : Zone) (unixTime : Int) (tr : Transition) : Ck AbsLookup := do
  let tt ← getType z tr.typeIndex
  let d ← chk64 (unixTime - tr.unixTime)
  let c ← Civil.civilAdd .second tr.civilSec d
  pure ⟨c, tt.utcOffset, tt.isDst, abbrAt z.abbreviations tt.abbrIndex⟩

/-! ## decoding -/

def decodeBE (bs : Bytes) : Nat := bs.foldl (fun acc b => acc * 256 + b.toNat) 0

/-- `Decode32(cp)`: big-endian two's complement -/
def decode32 (bs : Bytes) : Int :=
  let v := decodeBE (bs.take 4)
  if v ≤ 0x7fffffff then v else (v : Int) - 0x100000000

/-- `Decode64(cp)` -/
def decode64 (bs : Bytes) : Int :=
  let v := decodeBE (bs.take 8)
  if v ≤ 0x7fffffffffffffff then v else (v : Int) - 0x10000000000000000

structure Header where
  timecnt : Nat
  typecnt : Nat
  charcnt : Nat
  leapcnt : Nat
  ttisstdcnt : Nat
  ttisutcnt : Nat
deriving Repr, Inhabited

/-- `Header::Build(tzh)`; `h` is the 44-byte header -/
def Header.build (h : Bytes) : Option Header :=
  let f (off : Nat) : Int := decode32 (h.drop off)
  let timecnt := f 32; let typecnt := f 36; let charcnt := f 40
  let leapcnt := f 28; let isstd := f 24; let isut := f 20
  if timecnt < 0 then none else if typecnt < 0 then none else if charcnt < 0 then none
  else if leapcnt < 0 then none else if isstd < 0 then none else if isut < 0 then none
  else some ⟨timecnt.toNat, typecnt.toNat, charcnt.toNat, leapcnt.toNat, isstd.toNat, isut.toNat⟩

def Header.dataLength (h : Header) (timeLen : Nat) : Nat :=
  (timeLen + 1) * h.timecnt + (4 + 1 + 1) * h.typecnt + 1 * h.charcnt +
  (timeLen + 4) * h.leapcnt + 1 * h.ttisstdcnt + 1 * h.ttisutcnt

def magic : Bytes := [84, 90, 105, 102]   -- "TZif"

/-! ## ExtendTransitions -/

/-- `GetTransitionType(utc_offset, is_dst, abbr, &index)`; returns the (possibly grown) zone and
the index, or `none` when no 8-bit index space is left -/
def getTransitionType (z : Zone) (utcOffset : Int) (isDst : Bool) (abbr : Bytes) : Option (Zone × Nat) :=
  let rec go (i : Nat) (abbrIndex : Nat) (fuel : Nat) : Nat × Nat :=
    match fuel with
    | 0 => (i, abbrIndex)
    | fuel + 1 =>
      match z.types[i]? with
      | none => (i, abbrIndex)
      | some tt =>
        let abbrIndex := if abbrAt z.abbreviations tt.abbrIndex = abbr then tt.abbrIndex else abbrIndex
        if tt.utcOffset = utcOffset ∧ tt.isDst = isDst ∧ abbrIndex = tt.abbrIndex then (i, abbrIndex)
        else go (i + 1) abbrIndex fuel
  let (ti, ai) := go 0 z.abbreviations.length (z.types.size + 1)
  if ti > 255 ∨ ai > 255 then none
  else if ti = z.types.size then
    let abbrs := if ai = z.abbreviations.length then z.abbreviations ++ abbr ++ [0] else z.abbreviations
    some ({ z with types := z.types.push { utcOffset := utcOffset, isDst := isDst, abbrIndex := ai },
                   abbreviations := abbrs }, ti)
  else some (z, ti)

/-- `EquivTransitions(tt1_index, tt2_index)` -/
def equivTransitions (z : Zone) (i j : Nat) : Ck Bool :=
  if i = j then pure true
  else do
    let a ← getType z i
    let b ← getType z j
    pure (a.utcOffset == b.utcOffset && a.isDst == b.isDst && a.abbrIndex == b.abbrIndex)

/-- read of `posix.dst_start.date` etc.: a field the parser never wrote is an uninitialised read -/
def rd (o : Option α) (dflt : α) : Ck α :=
  match o with
  | some v => pure v
  | none => ⟨dflt, flagUnset⟩

/-- `AllYearDST(posix)` -/
def allYearDST (p : Posix.TimeZone) : Ck Bool := do
  let sd ← rd p.dstStart.date ⟨.N, 0, 0, 0⟩
  if sd.fmt ≠ .N then return false
  if sd.a ≠ 0 then return false
  let st ← rd p.dstStart.time 0
  if st ≠ 0 then return false
  let ed ← rd p.dstEnd.date ⟨.J, 0, 0, 0⟩
  if ed.fmt ≠ .J then return false
  if ed.a ≠ Gen.kDaysPerYear.getD 0 0 then return false
  let so ← rd p.stdOffset 0
  let dof ← rd p.dstOffset 0
  let offset ← chk64 (so - dof)
  let et ← rd p.dstEnd.time 0
  let s ← chk64 (et + offset)
  if s ≠ Gen.kSecsPerDay then return false
  return true

/-- `TransOffset(leap_year, jan1_weekday, pt)` -/
def transOffset (leap : Bool) (jan1Weekday : Int) (pt : Posix.Transition) : Ck Int := do
  let date ← rd pt.date ⟨.N, 0, 0, 0⟩
  let days ← (match date.fmt with
    | .J => do
        let d := date.a
        let lim ← getC Gen.kMonthOffsets1 3 0
        if !leap || d < lim then chk64 (d - 1) else pure d
    | .N => pure date.a
    | .M => do
        let lastWeek := date.b == 5
        let tbl := if leap then Gen.kMonthOffsets1 else Gen.kMonthOffsets0
        let d0 ← getC tbl (date.a + b2i lastWeek) 0
        let s ← chk64 (jan1Weekday + d0)
        let weekday := cmod s 7
        if lastWeek then do
          let a ← chk64 (weekday + 7)
          let b ← chk64 (a - 1)
          let c ← chk64 (b - date.c)
          let e ← chk64 (cmod c 7 + 1)
          chk64 (d0 - e)
        else do
          let a ← chk64 (date.c + 7)
          let b ← chk64 (a - weekday)
          let d1 ← chk64 (d0 + cmod b 7)
          let w ← chk64 (date.b - 1)
          let w7 ← chk64 (w * 7)
          chk64 (d1 + w7) : Ck Int)
  let t ← rd pt.time 0
  let s ← chk64 (days * Gen.kSecsPerDay)
  chk64 (s + t)

structure ExtState where
  trans : Array Transition
  lastYear : Int
  jan1Time : Int
  jan1Weekday : Int
  leap : Bool

/-- the year loop of `ExtendTransitions`; `n` iterations remain after this one -/
def extendLoop (posix : Posix.TimeZone) (dstTi stdTi : Nat) (lastTime : Int) (stdOff dstOff : Int) :
    Nat → ExtState → Ck ExtState
  | n, s => do
    let dstTransOff ← transOffset s.leap s.jan1Weekday posix.dstStart
    let stdTransOff ← transOffset s.leap s.jan1Weekday posix.dstEnd
    let a ← chk64 (s.jan1Time + dstTransOff)
    let dstTime ← chk64 (a - stdOff)
    let b ← chk64 (s.jan1Time + stdTransOff)
    let stdTime ← chk64 (b - dstOff)
    let dst : Transition := { unixTime := dstTime, typeIndex := dstTi }
    let std : Transition := { unixTime := stdTime, typeIndex := stdTi }
    let (ta, tb) := if dstTime < stdTime then (dst, std) else (std, dst)
    let trans :=
      if lastTime < tb.unixTime then
        (if lastTime < ta.unixTime then s.trans.push ta else s.trans).push tb
      else s.trans
    match n with
    | 0 => pure { s with trans := trans }
    | n + 1 => do
      let spy ← getC Gen.kSecsPerYear (b2i s.leap) 0
      let jt ← chk64 (s.jan1Time + spy)
      let dpy ← getC Gen.kDaysPerYear (b2i s.leap) 0
      let jw ← chk64 (s.jan1Weekday + dpy)
      let ny ← chk64 (s.lastYear + 1)
      let leap := !s.leap && isLeap ny
      extendLoop posix dstTi stdTi lastTime stdOff dstOff n
        { trans := trans, lastYear := ny, jan1Time := jt, jan1Weekday := cmod jw 7, leap := leap }

/-- `ExtendTransitions()`: `none` = return false -/
def extendTransitions (z : Zone) : Ck (Option Zone) := do
  let z := { z with extended := false }
  if z.futureSpec.isEmpty then return some z
  match Posix.parsePosixSpec z.futureSpec with
  | none => return none
  | some posix =>
    let stdOff ← rd posix.stdOffset 0
    match getTransitionType z stdOff false posix.stdAbbr with
    | none => return none
    | some (z, stdTi) =>
      let back ← getTrans z (z.transitions.size - 1)
      if posix.dstAbbr.isEmpty then
        let e ← equivTransitions z back.typeIndex stdTi
        return (if e then some z else none)
      let dstOff ← rd posix.dstOffset 0
      match getTransitionType z dstOff true posix.dstAbbr with
      | none => return none
      | some (z, dstTi) =>
        if (← allYearDST posix) then
          let e ← equivTransitions z back.typeIndex dstTi
          return (if e then some z else none)
        let lastTime := back.unixTime
        let lastTT ← getType z back.typeIndex
        let lt ← localTimeTT z.abbreviations lastTime lastTT
        let lastYear := lt.cs.y
        let leap := isLeap lastYear
        let jan1 ← Civil.civilNew .second lastYear 1 1 0 0 0
        let jan1Time ← Civil.difference .second jan1 epoch
        let wd ← Civil.getWeekday jan1
        let s0 : ExtState := { trans := z.transitions, lastYear := lastYear, jan1Time := jan1Time,
                               jan1Weekday := toPosixWeekday wd, leap := leap }
        let s ← extendLoop posix dstTi stdTi lastTime stdOff dstOff Gen.extendYears.toNat s0
        return some { z with transitions := s.trans, extended := true, lastYear := some s.lastYear }

/-! ## Load -/

/-- the search for the before-first-transition type: a `std::size_t` index over the at most 256
types an 8-bit type index can name (`typecnt = min(hdr.typecnt, 256)`).  The loops have the
obvious variants; the model still counts fuel so that "fuel is never exhausted" is a theorem. -/
def defaultTypeSearch (types : Array TransitionType) (hdrTypecnt : Nat) (first : Nat) : Ck (Nat × Nat) :=
  let typecnt := min hdrTypecnt 256
  let isDst (i : Nat) : Bool := (types[i]?.map (·.isDst)).getD false
  let rec down (i : Nat) (fuel : Nat) : Nat :=
    match fuel with
    | 0 => i
    | fuel + 1 => if i ≠ 0 ∧ isDst i then down (i - 1) fuel else i
  let rec up (i : Nat) (fuel : Nat) : Ck Nat :=
    match fuel with
    | 0 => ⟨i, flagFuel⟩
    | fuel + 1 => if i ≠ typecnt ∧ isDst i then up (i + 1) fuel else pure i
  (if isDst 0 then up (down first 256) 1024 else up 0 1024).bind' fun idx => pure (idx, typecnt)

structure LoadCfg where
  /-- what the source's `Skip` answers when asked to skip past the end of the data:
  `true` = succeeds (stdio `fseek`), `false` = reports an error -/
  skipPastEndOk : Bool := true
  /-- inputs declaring more data than this are not run (the property assumes enough memory) -/
  maxDataLen : Nat := 67108864

inductive LoadResult
  | fail
  | tooLarge
  | ok (z : Zone)
deriving Repr, Inhabited

def decodeTimes (bp : Bytes) (timeLen : Nat) : Nat → List Int
  | 0 => []
  | n + 1 => (if timeLen = 4 then decode32 bp else decode64 bp) :: decodeTimes (bp.drop timeLen) timeLen n

def strictlyIncreasing : List Int → Bool
  | a :: b :: rest => a < b && strictlyIncreasing (b :: rest)
  | _ => true

def decodeTypes (bp : Bytes) (charcnt : Nat) : Nat → Option (List TransitionType)
  | 0 => some []
  | n + 1 =>
    let off := decode32 bp
    if off ≥ Gen.kSecsPerDay ∨ off ≤ -Gen.kSecsPerDay then none
    else
      let isDst := (bp.drop 4).headD 0 != 0
      let ai := ((bp.drop 5).headD 0).toNat
      if ai ≥ charcnt then none
      else (decodeTypes (bp.drop 6) charcnt n).map fun r =>
        { utcOffset := off, isDst := isDst, abbrIndex := ai } :: r

/-- the civil-second columns: `prev_civil_sec`, `civil_sec`, and the `ByCivilTime` order check -/
def fillCivil (z : Zone) : Ck (Option Zone) := do
  let rec go (i : Nat) (ttIdx : Nat) (acc : Array Transition) (fuel : Nat) : Ck (Option (Array Transition)) :=
    match fuel with
    | 0 => pure (some acc)
    | fuel + 1 =>
      match z.transitions[i]? with
      | none => pure (some acc)
      | some tr => do
        let tt0 ← getType z ttIdx
        let l0 ← localTimeTT z.abbreviations tr.unixTime tt0
        let prev ← Civil.civilSub .second l0.cs 1
        let tt1 ← getType z tr.typeIndex
        let l1 ← localTimeTT z.abbreviations tr.unixTime tt1
        let tr' := { tr with prevCivilSec := prev, civilSec := l1.cs }
        if i ≠ 0 ∧ !(Civil.lt (acc[i - 1]?.map (·.civilSec) |>.getD epoch) tr'.civilSec) then pure none
        else go (i + 1) tr.typeIndex (acc.push tr') fuel
  match ← go 0 z.defaultType #[] z.transitions.size with
  | none => pure none
  | some trs => pure (some { z with transitions := trs })

def fillTypes (z : Zone) : Ck Zone := do
  let rec go (l : List TransitionType) : Ck (List TransitionType) :=
    match l with
    | [] => pure []
    | tt :: rest => do
      let mx ← localTimeTT z.abbreviations i64max tt
      let mn ← localTimeTT z.abbreviations i64min tt
      let r ← go rest
      pure ({ tt with civilMax := mx.cs, civilMin := mn.cs } :: r)
  let ts ← go z.types.toList
  pure { z with types := ts.toArray }

/-- `TimeZoneInfo::Load(ZoneInfoSource*)` over the bytes the source delivers -/
def load (cfg : LoadCfg) (src : Bytes) : Ck LoadResult := do
  -- first header
  let h1 := src.take 44
  if h1.length ≠ 44 then return .fail
  if h1.take 4 ≠ magic then return .fail
  match Header.build h1 with
  | none => return .fail
  | some hdr1 =>
  let rest := src.drop 44
  let v1 := h1.getD 4 0
  let r : Option (Header × Nat × Bytes × UInt8) :=
    if v1 ≠ 0 then
      let skip := hdr1.dataLength 4
      if skip > rest.length ∧ !cfg.skipPastEndOk then none
      else
        let rest := rest.drop skip
        let h2 := rest.take 44
        if h2.length ≠ 44 then none
        else if h2.take 4 ≠ magic then none
        else if h2.getD 4 0 = 0 then none
        else match Header.build h2 with
          | none => none
          | some hdr2 => some (hdr2, 8, rest.drop 44, h2.getD 4 0)
    else some (hdr1, 4, rest, v1)
  match r with
  | none => return .fail
  | some (hdr, timeLen, rest, version) =>
  if hdr.typecnt = 0 then return .fail
  if hdr.leapcnt ≠ 0 then return .fail
  if hdr.ttisstdcnt ≠ 0 ∧ hdr.ttisstdcnt ≠ hdr.typecnt then return .fail
  if hdr.ttisutcnt ≠ 0 ∧ hdr.ttisutcnt ≠ hdr.typecnt then return .fail
  let len := hdr.dataLength timeLen
  if len > cfg.maxDataLen then return .tooLarge
  let tbuf := rest.take len
  if tbuf.length ≠ len then return .fail
  let rest := rest.drop len
  -- transitions
  let times := decodeTimes tbuf timeLen hdr.timecnt
  if !strictlyIncreasing times then return .fail
  let bp := tbuf.drop (timeLen * hdr.timecnt)
  let idxs := (bp.take hdr.timecnt).map (·.toNat)
  if idxs.any (· ≥ hdr.typecnt) then return .fail
  let seenType0 := idxs.any (· = 0)
  let bp := bp.drop hdr.timecnt
  -- types
  match decodeTypes bp hdr.charcnt hdr.typecnt with
  | none => return .fail
  | some types =>
  let types := types.toArray
  let bp := bp.drop (6 * hdr.typecnt)
  let trans : Array Transition := (List.zipWith (fun t i => ({ unixTime := t, typeIndex := i } : Transition)) times idxs).toArray
  let defaultType ← (if seenType0 ∧ hdr.timecnt ≠ 0 then do
      let (idx, typecnt) ← defaultTypeSearch types hdr.typecnt (idxs.headD 0)
      pure (if idx ≠ typecnt then idx else 0)
    else pure 0 : Ck Nat)
  let abbrs := bp.take hdr.charcnt
  -- footer
  let fr : Option Bytes :=
    if version ≠ 0 then
      match rest with
      | 10 :: r =>
        let spec := r.takeWhile (· ≠ 10)
        if (r.dropWhile (· ≠ 10)).isEmpty then none else some spec
      | _ => none
    else some []
  match fr with
  | none => return .fail
  | some spec =>
  -- first-half sentinel
  let trans :=
    if trans.isEmpty ∨ ((trans[0]?.map (·.unixTime)).getD 0 : Int) ≥ 0 then
      #[({ unixTime := Gen.sentinelFirst, typeIndex := defaultType } : Transition)] ++ trans
    else trans
  let z : Zone := { transitions := trans, types := types, defaultType := defaultType,
                    abbreviations := abbrs, futureSpec := spec }
  match ← extendTransitions z with
  | none => return .fail
  | some z =>
  -- second-half sentinel
  let last ← getTrans z (z.transitions.size - 1)
  let z := if last.unixTime < 0 then
      { z with transitions := z.transitions.push { unixTime := Gen.sentinelSecond, typeIndex := last.typeIndex } }
    else z
  match ← fillCivil z with
  | none => return .fail
  | some z =>
  let z ← fillTypes z
  return .ok z

/-- `ResetToBuiltinUTC(offset)` -/
def resetToBuiltinUTC (offset : Int) : Ck Zone := do
  let abbr ← Fixed.toAbbr offset
  let abbrs := abbr ++ [0]
  let tt : TransitionType := { utcOffset := offset, isDst := false, abbrIndex := 0 }
  let rec go (l : List Int) : Ck (List Transition) :=
    match l with
    | [] => pure []
    | t :: rest => do
      let lt ← localTimeTT abbrs t tt
      let prev ← Civil.civilSub .second lt.cs 1
      let r ← go rest
      pure ({ unixTime := t, typeIndex := 0, civilSec := lt.cs, prevCivilSec := prev } :: r)
  let trs ← go Gen.builtinUtcTransitions
  let mx ← localTimeTT abbrs i64max tt
  let mn ← localTimeTT abbrs i64min tt
  pure { transitions := trs.toArray, types := #[{ tt with civilMax := mx.cs, civilMin := mn.cs }],
         defaultType := 0, abbreviations := abbrs, futureSpec := [], extended := false }

/-! ## BreakTime / MakeTime -/

/-- number of transitions with `unix_time ≤ t` in a table sorted by `unix_time`
(`std::upper_bound(begin, end, target, ByUnixTime) - begin`), by bisection on `[lo, hi)` -/
def upperBoundTime (a : Array Transition) (t : Int) : Nat :=
  let rec go (lo hi : Nat) (fuel : Nat) : Nat :=
    match fuel with
    | 0 => lo
    | fuel + 1 =>
      if lo < hi then
        let mid := lo + (hi - lo) / 2
        if t < (a[mid]?.map (·.unixTime)).getD 0 then go lo mid fuel else go (mid + 1) hi fuel
      else lo
  go 0 a.size (a.size + 1)

/-- `std::lower_bound(begin + from, end, target, ByUnixTime) - begin`: first index `≥ from`
whose `unix_time` is not `< t` -/
def lowerBoundTimeFrom (a : Array Transition) (from' : Nat) (t : Int) : Nat :=
  let rec go (lo hi : Nat) (fuel : Nat) : Nat :=
    match fuel with
    | 0 => lo
    | fuel + 1 =>
      if lo < hi then
        let mid := lo + (hi - lo) / 2
        if (a[mid]?.map (·.unixTime)).getD 0 < t then go (mid + 1) hi fuel else go lo mid fuel
      else lo
  go from' a.size (a.size + 1)

def upperBoundTimeFrom (a : Array Transition) (from' : Nat) (t : Int) : Nat :=
  let rec go (lo hi : Nat) (fuel : Nat) : Nat :=
    match fuel with
    | 0 => lo
    | fuel + 1 =>
      if lo < hi then
        let mid := lo + (hi - lo) / 2
        if t < (a[mid]?.map (·.unixTime)).getD 0 then go lo mid fuel else go (mid + 1) hi fuel
      else lo
  go from' a.size (a.size + 1)

/-- `std::upper_bound(begin, end, target, ByCivilTime) - begin` -/
def upperBoundCivil (a : Array Transition) (cs : Fields) : Nat :=
  let rec go (lo hi : Nat) (fuel : Nat) : Nat :=
    match fuel with
    | 0 => lo
    | fuel + 1 =>
      if lo < hi then
        let mid := lo + (hi - lo) / 2
        if Civil.lt cs ((a[mid]?.map (·.civilSec)).getD epoch) then go lo mid fuel else go (mid + 1) hi fuel
      else lo
  go 0 a.size (a.size + 1)

/-- `YearShift(cs, shift)` -/
def yearShift (cs : Fields) (shift : Int) : Ck Fields := do
  let y ← chk64 (cs.y + shift)
  Civil.civilNew .second y cs.m cs.d cs.hh cs.mm cs.ss

/-- `BreakTime` below the last transition (no 400-year shift); returns the new hint -/
def breakTimeCore (z : Zone) (hint : Nat) (t : Int) : Ck (AbsLookup × Nat) := do
  let timecnt := z.transitions.size
  let first ← getTrans z 0
  if t < first.unixTime then
    let tt ← getType z z.defaultType
    let r ← localTimeTT z.abbreviations t tt
    return (r, hint)
  let last ← getTrans z (timecnt - 1)
  if t ≥ last.unixTime then
    let r ← localTimeTr z t last
    return (r, hint)
  if 0 < hint ∧ hint < timecnt then
    let a ← getTrans z (hint - 1)
    if a.unixTime ≤ t then
      let b ← getTrans z hint
      if t < b.unixTime then
        let r ← localTimeTr z t a
        return (r, hint)
  let i := upperBoundTime z.transitions t
  let tr ← getTrans z (i - 1)
  let r ← localTimeTr z t tr
  return (r, i)

/-- `TimeZoneInfo::BreakTime(tp)` with the hint as explicit state.  The recursive call
`BreakTime(tp - d)` lands strictly below the last transition (d > diff) unless an overflow was
flagged, so it is the non-shifting part. -/
def breakTime (z : Zone) (hint : Nat) (t : Int) : Ck (AbsLookup × Nat) := do
  let timecnt := z.transitions.size
  let last ← getTrans z (timecnt - 1)
  let first ← getTrans z 0
  if !(t < first.unixTime) ∧ t ≥ last.unixTime ∧ z.extended then
    let diff ← chk64 (t - last.unixTime)
    let shift ← chk64 (cdiv diff Gen.kSecsPer400Years + 1)
    let d ← chk64 (shift * Gen.kSecsPer400Years)
    let t' ← chk64 (t - d)
    let (al, h') ← breakTimeCore z hint t'
    let s400 ← chk64 (shift * 400)
    let cs ← yearShift al.cs s400
    return ({ al with cs := cs }, h')
  breakTimeCore z hint t

def mkUnique (t : Int) : CivilLookup := ⟨.unique, t, t, t⟩

/-- `MakeSkipped(tr, cs)` -/
def makeSkipped (tr : Transition) (cs : Fields) : Ck CivilLookup := do
  let d1 ← Civil.difference .second cs tr.prevCivilSec
  let a ← chk64 (tr.unixTime - 1)
  let pre ← chk64 (a + d1)
  let d2 ← Civil.difference .second tr.civilSec cs
  let post ← chk64 (tr.unixTime - d2)
  pure ⟨.skipped, pre, tr.unixTime, post⟩

/-- `MakeRepeated(tr, cs)` -/
def makeRepeated (tr : Transition) (cs : Fields) : Ck CivilLookup := do
  let d1 ← Civil.difference .second tr.prevCivilSec cs
  let a ← chk64 (tr.unixTime - 1)
  let pre ← chk64 (a - d1)
  let d2 ← Civil.difference .second cs tr.civilSec
  let post ← chk64 (tr.unixTime + d2)
  pure ⟨.repeated, pre, tr.unixTime, post⟩

/-- `MakeTime(cs)` without the 400-year shift: `inl` = answer, `inr shift` = the caller must take
the `TimeLocal` path with this shift -/
def makeTimeCore (z : Zone) (hint : Nat) (cs : Fields) : Ck ((CivilLookup ⊕ Int) × Nat) := do
  let timecnt := z.transitions.size
  let first ← getTrans z 0
  let last ← getTrans z (timecnt - 1)
  -- find the first transition after the target civil time
  let (tr, hint') ← (if Civil.lt cs first.civilSec then pure (0, hint)
    else if !(Civil.lt cs last.civilSec) then pure (timecnt, hint)
    else do
      let viaHint ← (if 0 < hint ∧ hint < timecnt then do
          let a ← getTrans z (hint - 1)
          if Civil.le a.civilSec cs then
            let b ← getTrans z hint
            pure (Civil.lt cs b.civilSec)
          else pure false
        else pure false : Ck Bool)
      if viaHint then pure (hint, hint)
      else
        let i := upperBoundCivil z.transitions cs
        pure (i, i) : Ck (Nat × Nat))
  if tr = 0 then
    if Civil.le cs first.prevCivilSec then
      let tt ← getType z z.defaultType
      if Civil.lt cs tt.civilMin then return (.inl (mkUnique i64min), hint')
      let base ← Civil.civilAdd .second epoch tt.utcOffset
      let d ← Civil.difference .second cs base
      return (.inl (mkUnique d), hint')
    let r ← makeSkipped first cs
    return (.inl r, hint')
  if tr = timecnt then
    if Civil.lt last.prevCivilSec cs then
      if z.extended then
        let ly ← rd z.lastYear 0
        if cs.y > ly then
          let a ← chk64 (cs.y - ly)
          let b ← chk64 (a - 1)
          let shift ← chk64 (cdiv b 400 + 1)
          return (.inr shift, hint')
      let tt ← getType z last.typeIndex
      if Civil.lt tt.civilMax cs then return (.inl (mkUnique i64max), hint')
      let d ← Civil.difference .second cs last.civilSec
      let r ← chk64 (last.unixTime + d)
      return (.inl (mkUnique r), hint')
    let r ← makeRepeated last cs
    return (.inl r, hint')
  let t ← getTrans z tr
  if Civil.lt t.prevCivilSec cs then
    let r ← makeSkipped t cs
    return (.inl r, hint')
  let p ← getTrans z (tr - 1)
  if Civil.le cs p.prevCivilSec then
    let r ← makeRepeated p cs
    return (.inl r, hint')
  let d ← Civil.difference .second cs p.civilSec
  let r ← chk64 (p.unixTime + d)
  return (.inl (mkUnique r), hint')

/-- `TimeLocal(cs, c4_shift)` applied to an already computed `MakeTime(cs)` -/
def timeLocalShift (cl : CivilLookup) (c4Shift : Int) : Ck CivilLookup := do
  if c4Shift > cdiv i64max Gen.kSecsPer400Years then
    pure { cl with pre := i64max, trans := i64max, post := i64max }
  else
    let offset ← chk64 (c4Shift * Gen.kSecsPer400Years)
    let limit ← chk64 (i64max - offset)
    let f (tp : Int) : Ck Int := if tp > limit then pure i64max else chk64 (tp + offset)
    let pre ← f cl.pre
    let trans ← f cl.trans
    let post ← f cl.post
    pure { cl with pre := pre, trans := trans, post := post }

/-- `TimeZoneInfo::MakeTime(cs)` with the hint as explicit state.  In the `TimeLocal` path the
inner `MakeTime(cs')` cannot shift again when `last_year_ - 400 < cs'.year() ≤ last_year_`
(what the C++ asserts); if it would, the model raises `fuel`. -/
def makeTime (z : Zone) (hint : Nat) (cs : Fields) : Ck (CivilLookup × Nat) := do
  let (r, h) ← makeTimeCore z hint cs
  match r with
  | .inl cl => pure (cl, h)
  | .inr shift =>
    let m ← chk64 (shift * -400)
    let cs' ← yearShift cs m
    let (r2, h2) ← makeTimeCore z h cs'
    match r2 with
    | .inl cl => do
      let cl' ← timeLocalShift cl shift
      pure (cl', h2)
    | .inr _ => ⟨(mkUnique 0, h2), flagFuel⟩

/-- `convert(cs, tz)` -/
def convert (z : Zone) (hint : Nat) (cs : Fields) : Ck (Int × Nat) := do
  let (cl, h) ← makeTime z hint cs
  pure (if cl.kind = .skipped then cl.trans else cl.pre, h)

/-! ## NextTransition / PrevTransition -/

def prevTypeIndex (z : Zone) (_beginIdx i : Nat) : Ck Nat :=
  if i = 0 then pure z.defaultType
  else do let t ← getTrans z (i - 1); pure t.typeIndex

/-- `NextTransition(tp, &trans)`: `some (from, to)` or `none` -/
def nextTransition (z : Zone) (t : Int) : Ck (Option (Fields × Fields)) := do
  if z.transitions.isEmpty then return none
  let first ← getTrans z 0
  let beginIdx := if first.unixTime ≤ Gen.bigBang then 1 else 0
  let start := upperBoundTimeFrom z.transitions beginIdx t
  let rec skip (i : Nat) (fuel : Nat) : Ck Nat :=
    match fuel with
    | 0 => pure i
    | fuel + 1 =>
      if i = z.transitions.size then pure i
      else do
        let p ← prevTypeIndex z beginIdx i
        let tr ← getTrans z i
        if !(← equivTransitions z p tr.typeIndex) then pure i else skip (i + 1) fuel
  let i ← skip start (z.transitions.size + 1)
  if i = z.transitions.size then return none
  let tr ← getTrans z i
  let from' ← Civil.civilAdd .second tr.prevCivilSec 1
  return some (from', tr.civilSec)

/-- `PrevTransition(tp, &trans)` for `time_point<seconds>` arguments (the ceiling branch of the
C++ is unreachable for whole-second time points) -/
def prevTransition (z : Zone) (t : Int) : Ck (Option (Fields × Fields)) := do
  if z.transitions.isEmpty then return none
  let first ← getTrans z 0
  let beginIdx := if first.unixTime ≤ Gen.bigBang then 1 else 0
  let start := lowerBoundTimeFrom z.transitions beginIdx t
  let rec skip (i : Nat) (fuel : Nat) : Ck Nat :=
    match fuel with
    | 0 => pure i
    | fuel + 1 =>
      if i = beginIdx then pure i
      else do
        let p ← (if i - 1 = 0 then pure z.defaultType
                 else do let t2 ← getTrans z (i - 2); pure t2.typeIndex : Ck Nat)
        let tr ← getTrans z (i - 1)
        if !(← equivTransitions z p tr.typeIndex) then pure i else skip (i - 1) fuel
  let i ← skip start (z.transitions.size + 1)
  if i = beginIdx then return none
  let tr ← getTrans z (i - 1)
  let from' ← Civil.civilAdd .second tr.prevCivilSec 1
  return some (from', tr.civilSec)

end Cctz.Tz
