/-
  Model of include/cctz/civil_time_detail.h  (namespace cctz::detail).

  Every function mirrors the C++ of the same name.  `year_t` / `diff_t` are 64-bit signed:
  every addition, subtraction and multiplication carried out in them goes through `chk64`.
  The narrow types (`month_t` … `second_t`, `int`) only ever hold small values; the
  arithmetic done in them is modelled unchecked and the casts into them as the identity
  (a mutant that makes them matter is a disagreement of the correspondence run).
  Tables come from `Cctz.Gen` (regenerated from the header on every run).
-/
import Cctz.Model.Ck
import Cctz.Gen.Tables

namespace Cctz

structure Fields where
  y : Int
  m : Int
  d : Int
  hh : Int
  mm : Int
  ss : Int
deriving DecidableEq, Repr, Inhabited

inductive Tag | second | minute | hour | day | month | year
deriving DecidableEq, Repr, Inhabited

namespace Civil

/-! ## impl:: helpers -/

def isLeapYear (y : Int) : Bool :=
  cmod y 4 == 0 && (cmod y 100 != 0 || cmod y 400 == 0)

/-- `year_index(y, m)` -/
def yearIndex (y m : Int) : Ck Int := do
  let s ← chk64 (y + b2i (decide (m > 2)))
  let yi := cmod s 400
  pure (if yi < 0 then yi + 400 else yi)

def daysPerCentury (yi : Int) : Int :=
  36524 + b2i (yi == 0 || decide (yi > 300))

def daysPer4Years (yi : Int) : Int :=
  1460 + b2i (yi == 0 || decide (yi > 300) || decide (cmod (yi - 1) 100 < 96))

def daysPerYear (y m : Int) : Ck Int := do
  let s ← chk64 (y + b2i (decide (m > 2)))
  pure (if isLeapYear s then 366 else 365)

def daysPerMonth (y m : Int) : Ck Int := do
  let k ← getC Gen.kDaysPerMonth m 0
  pure (k + b2i (m == 2 && isLeapYear y))

theorem daysPerCentury_pos (yi : Int) : 36524 ≤ daysPerCentury yi := by
  unfold daysPerCentury b2i; split <;> omega
theorem daysPer4Years_pos (yi : Int) : 1460 ≤ daysPer4Years yi := by
  unfold daysPer4Years b2i; split <;> omega
theorem daysPerYear_pos (y m : Int) : 365 ≤ (daysPerYear y m).val := by
  simp only [daysPerYear, Ck.bind_val, Ck.pure_val]; split <;> omega

/-! ## n_day and its four chunk loops -/

def centuryLoop (ey d yi : Int) : Ck (Int × Int × Int) :=
  let n := daysPerCentury yi
  if h : d ≤ n then pure (ey, d, yi)
  else
    (chk64 (d - n)).bind' fun _ =>
    (chk64 (ey + 100)).bind' fun ey' =>
      let yi1 := yi + 100
      centuryLoop ey' (d - n) (if yi1 ≥ 400 then yi1 - 400 else yi1)
termination_by d.toNat
decreasing_by
  have := daysPerCentury_pos yi
  omega

def fourLoop (ey d yi : Int) : Ck (Int × Int × Int) :=
  let n := daysPer4Years yi
  if h : d ≤ n then pure (ey, d, yi)
  else
    (chk64 (d - n)).bind' fun _ =>
    (chk64 (ey + 4)).bind' fun ey' =>
      let yi1 := yi + 4
      fourLoop ey' (d - n) (if yi1 ≥ 400 then yi1 - 400 else yi1)
termination_by d.toNat
decreasing_by
  have := daysPer4Years_pos yi
  omega

def yearLoop (m ey d : Int) : Ck (Int × Int) :=
  if h : d ≤ (daysPerYear ey m).val then (daysPerYear ey m).bind' fun _ => pure (ey, d)
  else
    (daysPerYear ey m).bind' fun n =>
    (chk64 (d - n)).bind' fun _ =>
    (chk64 (ey + 1)).bind' fun ey' =>
      yearLoop m ey' (d - (daysPerYear ey m).val)
termination_by d.toNat
decreasing_by
  have := daysPerYear_pos ey m
  omega

/-- the month loop: `n = days_per_month(ey, m)`; a table value `≤ 0` (impossible with the
shipped table, possible with a corrupted one or an out-of-range `m`) would make the C++
spin; the model raises `fuel` instead -/
def monthLoop (ey m d : Int) : Ck (Int × Int × Int) :=
  if h : d ≤ (daysPerMonth ey m).val then (daysPerMonth ey m).bind' fun _ => pure (ey, m, d)
  else if hn : (daysPerMonth ey m).val ≤ 0 then ⟨(ey, m, d), flagFuel⟩
  else
    (daysPerMonth ey m).bind' fun n =>
    (chk64 (d - n)).bind' fun _ =>
      if m + 1 > 12 then
        (chk64 (ey + 1)).bind' fun ey' => monthLoop ey' 1 (d - (daysPerMonth ey m).val)
      else monthLoop ey (m + 1) (d - (daysPerMonth ey m).val)
termination_by d.toNat
decreasing_by all_goals omega

def nDay (y m d cd hh mm ss : Int) : Ck Fields := do
  let ey0 := cmod y 400
  let oey := ey0
  let t ← chk64 (cdiv cd 146097 * 400)
  let ey1 ← chk64 (ey0 + t)
  let cd1 := cmod cd 146097
  let (ey2, cd2) ← (if cd1 < 0 then do
      let e ← chk64 (ey1 - 400); let c ← chk64 (cd1 + 146097); pure (e, c)
    else pure (ey1, cd1) : Ck (Int × Int))
  let t2 ← chk64 (cdiv d 146097 * 400)
  let ey3 ← chk64 (ey2 + t2)
  let d1 ← chk64 (cmod d 146097 + cd2)
  let (ey4, d2) ← (if d1 > 0 then
      (if d1 > 146097 then do
          let e ← chk64 (ey3 + 400); let c ← chk64 (d1 - 146097); pure (e, c)
        else pure (ey3, d1))
    else
      (if d1 > -365 then do
          let e ← chk64 (ey3 - 1)
          let n ← daysPerYear e m
          let c ← chk64 (d1 + n)
          pure (e, c)
        else do
          let e ← chk64 (ey3 - 400); let c ← chk64 (d1 + 146097); pure (e, c)) : Ck (Int × Int))
  let (ey5, d3) ← (if d2 > 365 then do
      let yi ← yearIndex ey4 m
      let (e1, dd1, yi1) ← centuryLoop ey4 d2 yi
      let (e2, dd2, _) ← fourLoop e1 dd1 yi1
      yearLoop m e2 dd2
    else pure (ey4, d2) : Ck (Int × Int))
  let (ey6, m1, d4) ← (if d3 > 28 then monthLoop ey5 m d3 else pure (ey5, m, d3) : Ck (Int × Int × Int))
  let dy ← chk64 (ey6 - oey)
  let yy ← chk64 (y + dy)
  pure ⟨yy, m1, d4, hh, mm, ss⟩

def nMon (y m d cd hh mm ss : Int) : Ck Fields := do
  if m != 12 then
    let y1 ← chk64 (y + cdiv m 12)
    let m1 := cmod m 12
    if m1 ≤ 0 then
      let y2 ← chk64 (y1 - 1)
      let m2 ← chk64 (m1 + 12)
      nDay y2 m2 d cd hh mm ss
    else nDay y1 m1 d cd hh mm ss
  else nDay y m d cd hh mm ss

def nHour (y m d cd hh mm ss : Int) : Ck Fields := do
  let cd1 ← chk64 (cd + cdiv hh 24)
  let hh1 := cmod hh 24
  if hh1 < 0 then
    let cd2 ← chk64 (cd1 - 1)
    let hh2 ← chk64 (hh1 + 24)
    nMon y m d cd2 hh2 mm ss
  else nMon y m d cd1 hh1 mm ss

def nMin (y m d hh ch mm ss : Int) : Ck Fields := do
  let ch1 ← chk64 (ch + cdiv mm 60)
  let mm1 := cmod mm 60
  let (ch2, mm2) ← (if mm1 < 0 then do
      let c ← chk64 (ch1 - 1); let m' ← chk64 (mm1 + 60); pure (c, m')
    else pure (ch1, mm1) : Ck (Int × Int))
  let a ← chk64 (cdiv hh 24 + cdiv ch2 24)
  let b ← chk64 (cmod hh 24 + cmod ch2 24)
  nHour y m d a b mm2 ss

def nSec (y m d hh mm ss : Int) : Ck Fields := do
  if 0 ≤ ss ∧ ss < 60 then
    if 0 ≤ mm ∧ mm < 60 then
      if 0 ≤ hh ∧ hh < 24 then
        if 1 ≤ d ∧ d ≤ 28 ∧ 1 ≤ m ∧ m ≤ 12 then
          pure ⟨y, m, d, hh, mm, ss⟩
        else nMon y m d 0 hh mm ss
      else nHour y m d (cdiv hh 24) (cmod hh 24) mm ss
    else nMin y m d hh (cdiv mm 60) (cmod mm 60) ss
  else
    let cm := cdiv ss 60
    let ss1 := cmod ss 60
    let (cm1, ss2) ← (if ss1 < 0 then do
        let c ← chk64 (cm - 1); let s ← chk64 (ss1 + 60); pure (c, s)
      else pure (cm, ss1) : Ck (Int × Int))
    let a ← chk64 (cdiv mm 60 + cdiv cm1 60)
    let b ← chk64 (cmod mm 60 + cmod cm1 60)
    nMin y m d hh a b ss2

/-! ## step / align / difference -/

def step (t : Tag) (f : Fields) (n : Int) : Ck Fields :=
  match t with
  | .second => do
      let a ← chk64 (f.mm + cdiv n 60)
      let b ← chk64 (f.ss + cmod n 60)
      nSec f.y f.m f.d f.hh a b
  | .minute => do
      let a ← chk64 (f.hh + cdiv n 60)
      let b ← chk64 (f.mm + cmod n 60)
      nMin f.y f.m f.d a 0 b f.ss
  | .hour => do
      let a ← chk64 (f.d + cdiv n 24)
      let b ← chk64 (f.hh + cmod n 24)
      nHour f.y f.m a 0 b f.mm f.ss
  | .day => nDay f.y f.m f.d n f.hh f.mm f.ss
  | .month => do
      let a ← chk64 (f.y + cdiv n 12)
      let b ← chk64 (f.m + cmod n 12)
      nMon a b f.d 0 f.hh f.mm f.ss
  | .year => do
      let a ← chk64 (f.y + n)
      pure ⟨a, f.m, f.d, f.hh, f.mm, f.ss⟩

def align (t : Tag) (f : Fields) : Fields :=
  match t with
  | .second => f
  | .minute => ⟨f.y, f.m, f.d, f.hh, f.mm, 0⟩
  | .hour => ⟨f.y, f.m, f.d, f.hh, 0, 0⟩
  | .day => ⟨f.y, f.m, f.d, 0, 0, 0⟩
  | .month => ⟨f.y, f.m, 1, 0, 0, 0⟩
  | .year => ⟨f.y, 1, 1, 0, 0, 0⟩

/-- `civil_time<T>(y, m, d, hh, mm, ss)` -/
def civilNew (t : Tag) (y m d hh mm ss : Int) : Ck Fields :=
  (align t) <$> nSec y m d hh mm ss

/-- `operator+(civil_time<T> a, diff_t n)` -/
def civilAdd (t : Tag) (a : Fields) (n : Int) : Ck Fields :=
  (align t) <$> step t a n

/-- `operator-(civil_time<T> a, diff_t n)` with the `INT64_MIN` split -/
def civilSub (t : Tag) (a : Fields) (n : Int) : Ck Fields :=
  if n != i64min then do
    let m ← chk64 (-n)
    (align t) <$> step t a m
  else do
    let n1 ← chk64 (n + 1)
    let m ← chk64 (-n1)
    let s1 ← step t a m
    (align t) <$> step t s1 1

def scaleAdd (v f a : Int) : Ck Int :=
  if v < 0 then do
    let v1 ← chk64 (v + 1)
    let p ← chk64 (v1 * f)
    let s ← chk64 (p + a)
    chk64 (s - f)
  else do
    let v1 ← chk64 (v - 1)
    let p ← chk64 (v1 * f)
    let s ← chk64 (p + a)
    chk64 (s + f)

def ymdOrd (y m d : Int) : Ck Int := do
  let eyear ← (if m ≤ 2 then chk64 (y - 1) else pure y : Ck Int)
  let e0 ← (if eyear ≥ 0 then pure eyear else chk64 (eyear - 399) : Ck Int)
  let era := cdiv e0 400
  let t ← chk64 (era * 400)
  let yoe ← chk64 (eyear - t)
  let doy := cdiv (153 * (m + (if m > 2 then -3 else 9)) + 2) 5 + d - 1
  let a ← chk64 (yoe * 365)
  let b ← chk64 (a + cdiv yoe 4)
  let c ← chk64 (b - cdiv yoe 100)
  let doe ← chk64 (c + doy)
  let e ← chk64 (era * 146097)
  let f ← chk64 (e + doe)
  chk64 (f - 719468)

def dayDifference (y1 m1 d1 y2 m2 d2 : Int) : Ck Int := do
  let a := cmod y1 400
  let b := cmod y2 400
  let ya ← chk64 (y1 - a)
  let yb ← chk64 (y2 - b)
  let c4 ← chk64 (ya - yb)
  let oa ← ymdOrd a m1 d1
  let ob ← ymdOrd b m2 d2
  let delta ← chk64 (oa - ob)
  let (c4', delta') ← (if c4 > 0 ∧ delta < 0 then do
      let dl ← chk64 (delta + 2 * 146097); let c ← chk64 (c4 - 2 * 400); pure (c, dl)
    else if c4 < 0 ∧ delta > 0 then do
      let dl ← chk64 (delta - 2 * 146097); let c ← chk64 (c4 + 2 * 400); pure (c, dl)
    else pure (c4, delta) : Ck (Int × Int))
  let p ← chk64 (cdiv c4' 400 * 146097)
  chk64 (p + delta')

def difference (t : Tag) (f1 f2 : Fields) : Ck Int :=
  match t with
  | .year => chk64 (f1.y - f2.y)
  | .month => do
      let v ← chk64 (f1.y - f2.y)
      scaleAdd v 12 (f1.m - f2.m)
  | .day => dayDifference f1.y f1.m f1.d f2.y f2.m f2.d
  | .hour => do
      let v ← dayDifference f1.y f1.m f1.d f2.y f2.m f2.d
      scaleAdd v 24 (f1.hh - f2.hh)
  | .minute => do
      let v ← dayDifference f1.y f1.m f1.d f2.y f2.m f2.d
      let h ← scaleAdd v 24 (f1.hh - f2.hh)
      scaleAdd h 60 (f1.mm - f2.mm)
  | .second => do
      let v ← dayDifference f1.y f1.m f1.d f2.y f2.m f2.d
      let h ← scaleAdd v 24 (f1.hh - f2.hh)
      let mi ← scaleAdd h 60 (f1.mm - f2.mm)
      scaleAdd mi 60 (f1.ss - f2.ss)

/-- `operator<` (compares all six fields, works across alignments) -/
def lt (a b : Fields) : Bool :=
  decide (a.y < b.y) || (a.y == b.y &&
    (decide (a.m < b.m) || (a.m == b.m &&
      (decide (a.d < b.d) || (a.d == b.d &&
        (decide (a.hh < b.hh) || (a.hh == b.hh &&
          (decide (a.mm < b.mm) || (a.mm == b.mm && decide (a.ss < b.ss))))))))))

def le (a b : Fields) : Bool := !lt b a
def eq (a b : Fields) : Bool :=
  a.y == b.y && a.m == b.m && a.d == b.d && a.hh == b.hh && a.mm == b.mm && a.ss == b.ss

/-! ## weekday / yearday -/

/-- `get_weekday`: Monday = 0 … Sunday = 6 -/
def getWeekday (f : Fields) : Ck Int := do
  let wd0 := 2400 + cmod f.y 400 - b2i (decide (f.m < 3))
  let wd1 := wd0 + (cdiv wd0 4 - cdiv wd0 100 + cdiv wd0 400)
  let off ← getC Gen.kWeekdayOffsets f.m 0
  let wd2 := wd1 + (off + f.d)
  getC Gen.kWeekdayByMonOff (cmod wd2 7 + 6) 0

/-- first index `i ≥ start` (trying at most `fuel` entries) with `tbl[i] = target`;
running past the table is the C++ reading out of bounds -/
def findFrom (tbl : List Int) (target : Int) (start : Nat) (fuel : Nat) : Ck Int :=
  match fuel with
  | 0 => ⟨start, flagOob⟩
  | fuel + 1 =>
    if h : start < tbl.length then
      if tbl[start] = target then pure start else findFrom tbl target (start + 1) fuel
    else ⟨start, flagOob⟩

def nextWeekday (cd : Fields) (wd : Int) : Ck Fields := do
  let base ← getWeekday cd
  let i ← findFrom Gen.kWeekdaysForw base 0 15
  let j ← findFrom Gen.kWeekdaysForw wd (i.toNat + 1) 15
  civilAdd .day cd (j - i)

def prevWeekday (cd : Fields) (wd : Int) : Ck Fields := do
  let base ← getWeekday cd
  let i ← findFrom Gen.kWeekdaysBack base 0 15
  let j ← findFrom Gen.kWeekdaysBack wd (i.toNat + 1) 15
  civilSub .day cd (j - i)

def getYearday (f : Fields) : Ck Int := do
  let k ← getC Gen.kMonthOffsetsYd f.m 0
  let feb29 := b2i (decide (f.m > 2) && isLeapYear f.y)
  pure (k + feb29 + f.d)

end Civil
end Cctz
