/-
  The public templates `time_zone::next_transition(time_point<D>)` / `prev_transition(time_point<D>)`
  of include/cctz/time_zone.h for a time_point of `c` ticks of `1/D` s (model; run by the driver's `subtr` op).
-/
import Cctz.Model.Tz
import Cctz.Model.Split

namespace Cctz.SubQuery
open Cctz Cctz.Tz

/-- the whole-second argument the template hands to `prev_transition` -/
def prevArg (sec sub : Int) : Int := if sub > 0 ∧ sec ≠ i64max then sec + 1 else sec

/-- the template `next_transition(time_point<duration<_, ratio<1,D>>>)` -/
def nextSub (z : Zone) (D c : Int) : Ck (Option (Fields × Fields)) := do
  let (sec, _) ← Split.splitSeconds 1 D c
  nextTransition z sec

/-- the template `prev_transition(time_point<duration<_, ratio<1,D>>>)` -/
def prevSub (z : Zone) (D c : Int) : Ck (Option (Fields × Fields)) := do
  let (sec, sub) ← Split.splitSeconds 1 D c
  prevTransition z (prevArg sec sub)

end Cctz.SubQuery
