/-
  Checked-arithmetic writer monad used by every model file.

  A C++ operation that can be undefined (signed overflow, out-of-range index,
  read of a never-written field, a loop with no variant) is modelled by a
  primitive that computes the mathematical value and raises a flag.  Value
  theorems ignore the flags (`bind_val`), safety theorems are statements that
  no flag is raised (`Ck.ok`).
-/
namespace Cctz

structure Flags where
  ovf   : Bool := false   -- signed 64/32-bit overflow (UBSan: signed-integer-overflow)
  oob   : Bool := false   -- index outside an array / read past a buffer
  unset : Bool := false   -- read of a field the C++ never wrote
  fuel  : Bool := false   -- a loop of the C++ that has no variant ran out of fuel
deriving DecidableEq, Repr, Inhabited

namespace Flags
def none : Flags := {}
def or (a b : Flags) : Flags :=
  { ovf := a.ovf || b.ovf, oob := a.oob || b.oob, unset := a.unset || b.unset, fuel := a.fuel || b.fuel }
def any (a : Flags) : Bool := a.ovf || a.oob || a.unset || a.fuel
@[simp] theorem none_or (a : Flags) : none.or a = a := by cases a; simp [none, or]
@[simp] theorem or_none (a : Flags) : a.or none = a := by cases a; simp [none, or]
theorem or_assoc (a b c : Flags) : (a.or b).or c = a.or (b.or c) := by
  cases a; cases b; cases c; simp [or, Bool.or_assoc]
@[simp] theorem or_eq_none (a b : Flags) : a.or b = none ↔ a = none ∧ b = none := by
  cases a; cases b; simp [or, none]; grind
end Flags

structure Ck (α : Type) where
  val : α
  flags : Flags := {}
deriving Repr

namespace Ck
@[inline] def pure' (a : α) : Ck α := ⟨a, {}⟩
@[inline] def bind' (x : Ck α) (f : α → Ck β) : Ck β :=
  let y := f x.val
  ⟨y.val, x.flags.or y.flags⟩

instance : Monad Ck where
  pure := pure'
  bind := bind'

/-- no flag raised -/
def ok (x : Ck α) : Prop := x.flags = Flags.none
instance (x : Ck α) : Decidable x.ok := by unfold ok; infer_instance

@[simp] theorem pure_val (a : α) : (pure a : Ck α).val = a := rfl
@[simp] theorem pure_flags (a : α) : (pure a : Ck α).flags = Flags.none := rfl
@[simp] theorem pure_ok (a : α) : (pure a : Ck α).ok := rfl
@[simp] theorem bind_val (x : Ck α) (f : α → Ck β) : (x >>= f).val = (f x.val).val := rfl
@[simp] theorem bind_flags (x : Ck α) (f : α → Ck β) :
    (x >>= f).flags = x.flags.or (f x.val).flags := rfl
@[simp] theorem bind_ok (x : Ck α) (f : α → Ck β) : (x >>= f).ok ↔ x.ok ∧ (f x.val).ok := by
  simp [ok]
@[simp] theorem map_val (x : Ck α) (f : α → β) : (f <$> x).val = f x.val := rfl
@[simp] theorem map_flags (x : Ck α) (f : α → β) : (f <$> x).flags = x.flags := by
  show (x.flags.or Flags.none) = _; simp
@[simp] theorem map_ok (x : Ck α) (f : α → β) : (f <$> x).ok ↔ x.ok := by simp [ok]
@[simp] theorem mk_val (a : α) (f : Flags) : (Ck.mk a f).val = a := rfl
end Ck

/-! ### integer ranges -/
def i64min : Int := -9223372036854775808
def i64max : Int := 9223372036854775807
def i32min : Int := -2147483648
def i32max : Int := 2147483647

def inI64 (x : Int) : Prop := i64min ≤ x ∧ x ≤ i64max
instance (x : Int) : Decidable (inI64 x) := by unfold inI64; infer_instance
def inI32 (x : Int) : Prop := i32min ≤ x ∧ x ≤ i32max
instance (x : Int) : Decidable (inI32 x) := by unfold inI32; infer_instance

/-- C++ `/` and `%` on signed integers: truncation toward zero. -/
@[inline] def cdiv (a b : Int) : Int := Int.tdiv a b
@[inline] def cmod (a b : Int) : Int := Int.tmod a b

/-- the value `x` produced by a 64-bit signed operation: flag `ovf` iff it does not fit -/
@[inline] def chk64 (x : Int) : Ck Int := ⟨x, { ovf := !decide (inI64 x) }⟩
/-- same for an operation carried out in `int` (32 bit) -/
@[inline] def chk32 (x : Int) : Ck Int := ⟨x, { ovf := !decide (inI32 x) }⟩

@[simp] theorem chk64_val (x : Int) : (chk64 x).val = x := rfl
@[simp] theorem chk32_val (x : Int) : (chk32 x).val = x := rfl
@[simp] theorem chk64_ok (x : Int) : (chk64 x).ok ↔ inI64 x := by
  simp [chk64, Ck.ok, Flags.none]
@[simp] theorem chk32_ok (x : Int) : (chk32 x).ok ↔ inI32 x := by
  simp [chk32, Ck.ok, Flags.none]

def flagOob : Flags := { oob := true }
def flagUnset : Flags := { unset := true }
def flagFuel : Flags := { fuel := true }

/-- checked read of `a[i]` for a C array given as a list; `dflt` is returned (and `oob`
raised) when the index is outside the array -/
def getC (a : List α) (i : Int) (dflt : α) : Ck α :=
  if 0 ≤ i ∧ i < a.length then ⟨a.getD i.toNat dflt, {}⟩ else ⟨dflt, flagOob⟩

@[simp] theorem getC_val_of_lt (a : List α) (i : Int) (dflt : α) (h : 0 ≤ i ∧ i < a.length) :
    (getC a i dflt).val = a.getD i.toNat dflt := by simp [getC, h]
theorem getC_ok (a : List α) (i : Int) (dflt : α) : (getC a i dflt).ok ↔ 0 ≤ i ∧ i < a.length := by
  unfold getC; split <;> simp_all [Ck.ok, Flags.none, flagOob]

@[inline] def b2i (b : Bool) : Int := if b then 1 else 0

end Cctz
