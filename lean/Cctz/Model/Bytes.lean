/- Byte-string helpers shared by the models (strings of the C++ are bytes; `c_str()` semantics
   are made explicit where the code relies on the terminating NUL). -/
import Cctz.Model.Ck
namespace Cctz

abbrev Bytes := List UInt8

namespace Bytes
def ofString (s : String) : Bytes := s.toUTF8.toList

/-- `*p` for a C string held as the list of its remaining bytes: the terminator reads as 0 -/
@[inline] def peek (p : Bytes) : UInt8 := p.headD 0

/-- the C string starting at `p`: bytes up to (not including) the first NUL -/
def cstr (p : Bytes) : Bytes := p.takeWhile (· ≠ 0)

/-- `strchr("0123456789", c) - kDigits` : 0..9 for digits, 10 for NUL (strchr matches the
terminator), none otherwise -/
def digitIdx (c : UInt8) : Option Int :=
  if 48 ≤ c ∧ c ≤ 57 then some (c.toNat - 48 : Int) else if c = 0 then some 10 else none

def isDigit (c : UInt8) : Bool := 48 ≤ c && c ≤ 57

/-- kDigits[i] -/
def digitChar (i : Int) : Ck UInt8 :=
  if 0 ≤ i ∧ i ≤ 9 then pure (UInt8.ofNat (48 + i.toNat)) else ⟨0, flagOob⟩

def hexDigit (n : Nat) : Char := if n < 10 then Char.ofNat (48 + n) else Char.ofNat (87 + n)
def toHex (b : Bytes) : String :=
  if b.isEmpty then "-" else String.ofList (b.flatMap fun c => [hexDigit (c.toNat / 16), hexDigit (c.toNat % 16)])
def hexVal (c : Char) : Option Nat :=
  if '0' ≤ c ∧ c ≤ '9' then some (c.toNat - 48)
  else if 'a' ≤ c ∧ c ≤ 'f' then some (c.toNat - 87)
  else if 'A' ≤ c ∧ c ≤ 'F' then some (c.toNat - 55) else none
def ofHexList : List Char → Option Bytes
  | [] => some []
  | a :: b :: rest => do
      let x ← hexVal a; let y ← hexVal b; let r ← ofHexList rest
      pure (UInt8.ofNat (x * 16 + y) :: r)
  | _ => none
def ofHex (s : String) : Option Bytes := if s = "-" then some [] else ofHexList s.toList
end Bytes
end Cctz
