/-
  Model of `cctz::detail::parse` (src/time_zone_format.cc).

  `strptime` is a parameter: `sp data spec tm = some (n, tm')` means strptime consumed `n` bytes of
  the C string `data` under the format `spec` and left `tm'`; `none` means it returned NULL.
  `input.c_str()` and `format.c_str()` are NUL-terminated: both are cut at their first NUL.
  The zone enters through `Tz.makeTime` / `Tz.breakTime` (hint 0: by C14 the hint is irrelevant).
-/
import Cctz.Model.Format

namespace Cctz.Parse
open Cctz Bytes Format

abbrev Strptime := Bytes → Bytes → Tm → Option (Nat × Tm)

/-- `std::isspace` in the C locale -/
def isSpace (c : UInt8) : Bool := c = 32 || (9 ≤ c && c ≤ 13)

def skipSpace (d : Bytes) : Bytes := d.dropWhile isSpace

/-- the digit loop of `ParseInt<T>`: value accumulates negatively; returns (rest, value, consumed
any, erange) -/
def digitLoop (kmin : Int) : Bytes → Int → Int → Bool → (Bytes × Int × Bool × Bool)
  | [], v, _, any => ([], v, any, false)
  | c :: rest, v, width, any =>
    if isDigit c then
      let d : Int := c.toNat - 48
      if v < cdiv kmin 10 then (c :: rest, v, any, true)
      else
        let v10 := v * 10
        if v10 < kmin + d then (c :: rest, v10, any, true)
        else
          let v' := v10 - d
          if width > 0 ∧ width - 1 = 0 then (rest, v', true, false)
          else digitLoop kmin rest v' (if width > 0 then width - 1 else width) true
    else (c :: rest, v, any, false)

/-- `ParseInt<T>(dp, width, min, max, &v)` for a non-null `dp`; `kmin` = numeric_limits<T>::min() -/
def parseInt (kmin : Int) (dp : Bytes) (width min max : Int) : Option (Bytes × Int) :=
  let (neg, dp1, width1, dead) :=
    if peek dp = 45 then
      if width ≤ 0 ∨ width - 1 ≠ 0 then (true, dp.drop 1, (if width ≤ 0 then width else width - 1), false)
      else (true, dp, width - 1, true)          -- width was 1: dp = nullptr
    else (false, dp, width, false)
  if dead then none else
  let (rest, value, any, erange) := digitLoop kmin dp1 0 width1 false
  if any ∧ !erange ∧ (neg ∨ value ≠ kmin) then
    if !neg ∨ value ≠ 0 then
      let v := if !neg then -value else value
      if min ≤ v ∧ v ≤ max then some (rest, v) else none
    else none
  else none

def parseInt32 := parseInt i32min
def parseInt64 := parseInt i64min

/-- `ParseOffset(dp, mode, &offset)` for a non-null `dp`; `sep` = mode[0] (0 for "") -/
def parseOffset (dp : Bytes) (sep : UInt8) : Option (Bytes × Int) :=
  let first := peek dp
  let dp := dp.drop 1
  if first = 43 ∨ first = 45 then
    let (w, lo, hi) := Gen.parseOff_hours
    match parseInt32 dp w lo hi with
    | some (ap, hours) =>
      if dp.length - ap.length ≠ 2 then none else
      let (w2, lo2, hi2) := Gen.parseOff_minutes
      let ap1 := if sep ≠ 0 ∧ peek ap = sep then ap.drop 1 else ap
      let (dpM, minutes, seconds) : Bytes × Int × Int :=
        match parseInt32 ap1 w2 lo2 hi2 with
        | some (bp, minutes) =>
          if ap1.length - bp.length = 2 then
            let (w3, lo3, hi3) := Gen.parseOff_seconds
            let bp1 := if sep ≠ 0 ∧ peek bp = sep then bp.drop 1 else bp
            match parseInt32 bp1 w3 lo3 hi3 with
            | some (cp, seconds) => if bp1.length - cp.length = 2 then (cp, minutes, seconds) else (bp, minutes, 0)
            | none => (bp, minutes, 0)
          else (ap, 0, 0)        -- a group that is not consumed does not count
        | none => (ap, 0, 0)
      let off := ((hours * 60 + minutes) * 60) + seconds
      some (dpM, if first = 45 then -off else off)
    | none => none
  else if first = 90 ∨ first = 122 then some (dp, 0)
  else none

/-- `ParseZone(dp, &zone)` -/
def parseZone (dp : Bytes) : Option Bytes :=
  let z := dp.takeWhile (fun c => !isSpace c)
  if z.isEmpty then none else some (dp.dropWhile (fun c => !isSpace c))

/-- `ParseSubSeconds(dp, &subseconds)`: digits beyond the 15th are consumed and dropped -/
def parseSubSeconds (dp : Bytes) : Option (Bytes × Int) :=
  let ds := dp.takeWhile isDigit
  if ds.isEmpty then none
  else
    let used := ds.take 15
    let v : Int := used.foldl (fun a c => a * 10 + ((c.toNat : Int) - 48)) 0
    some (dp.dropWhile isDigit, v * (Gen.kExp10.getD (15 - used.length) 1))

/-- `FromTmWday(tm_wday)` in model weekday numbering (Monday = 0) -/
def fromTmWday (w : Int) : Int := if 1 ≤ w ∧ w ≤ 6 then w - 1 else 6

structure PState where
  data : Option Bytes
  fmt : Bytes
  sawYear : Bool := false
  year : Int := 1970
  tm : Tm := ⟨0, 0, 0, 1, 0, 70, 4, 0, 0⟩
  subseconds : Int := 0
  sawOffset : Bool := false
  offset : Int := 0
  twelveHour : Bool := false
  afternoon : Bool := false
  weekNum : Int := -1
  weekStartSunday : Bool := true
  sawPercentS : Bool := false
  percentS : Int := 0
  ghost : List (UInt8 × Int) := []     -- (specifier, accepted value) in order: for the range theorems
  spQueries : List (Bytes × Bytes × Tm) := []   -- ghost: every (data, spec, tm) handed to strptime

/-- seconds + optional fraction, shared by `%E*S` and `%E#S` -/
def parseSecFrac (st : PState) (d : Bytes) : PState :=
  let (w, lo, hi) := Gen.parse_S
  match parseInt32 d w lo hi with
  | none => { st with data := none }
  | some (d1, v) =>
    let st := { st with tm := { st.tm with sec := v }, ghost := st.ghost ++ [(83, v)] }
    if peek d1 = 46 then
      match parseSubSeconds (d1.drop 1) with
      | none => { st with data := none }
      | some (d2, fsv) => { st with data := some d2, subseconds := fsv }
    else { st with data := some d1 }

def parseFrac (st : PState) (d : Bytes) : PState :=
  if isDigit (peek d) then
    match parseSubSeconds d with
    | none => { st with data := none }
    | some (d2, fsv) => { st with data := some d2, subseconds := fsv }
  else st

/-- hand the specifier `spec` to strptime (the code after the `switch`) -/
def viaStrptime (sp : Strptime) (st : PState) (d : Bytes) (spec : Bytes) (fmtRest : Bytes) : PState :=
  let st := { st with spQueries := st.spQueries ++ [(d, spec, st.tm)] }
  match sp d spec st.tm with
  | none => { st with data := none, fmt := fmtRest }
  | some (n, tm') =>
    let st := { st with data := some (d.drop n), tm := tm', fmt := fmtRest }
    if spec = [37, 112] then      -- "%p": reparse "1" ++ consumed with "%I%p"
      let test := 49 :: d.take n
      let tmp : Tm := ⟨0, 0, 0, 0, 0, 0, 0, 0, 0⟩
      let st := { st with spQueries := st.spQueries ++ [(test, [37, 73, 37, 112], tmp)] }
      match sp test [37, 73, 37, 112] tmp with
      | some (_, t2) => { st with afternoon := t2.hour == 13 }
      | none => { st with afternoon := false }
    else st

/-- one iteration of the specifier loop (`data` non-null, `*fmt != 0`) -/
def stepSpec (sp : Strptime) (st : PState) (d : Bytes) : PState :=
  let f := st.fmt
  let c0 := peek f
  if isSpace c0 then
    { st with data := some (skipSpace d), fmt := skipSpace (f.drop 1) }
  else if c0 ≠ 37 then
    if peek d = c0 ∧ d ≠ [] then { st with data := some (d.drop 1), fmt := f.drop 1 }
    else { st with data := none }
  else
    let f1 := f.drop 1
    if f1.isEmpty then { st with data := none, fmt := f1 }
    else
      let c := peek f1
      let f2 := f1.drop 1
      let int32 (tr : Int × Int × Int) (upd : PState → Int → PState) : PState :=
        match parseInt32 d tr.1 tr.2.1 tr.2.2 with
        | some (d', v) => upd { st with data := some d', fmt := f2, ghost := st.ghost ++ [(c, v)] } v
        | none => { st with data := none, fmt := f2 }
      if c = 89 then         -- Y
        match parseInt64 d 0 i64min i64max with
        | some (d', v) => { st with data := some d', fmt := f2, year := v, sawYear := true, ghost := st.ghost ++ [(c, v)] }
        | none => { st with data := none, fmt := f2 }
      else if c = 109 then   -- m
        let r := int32 Gen.parse_m fun s v => { s with tm := { s.tm with mon := v - 1 } }
        { r with weekNum := -1 }
      else if c = 100 then   -- d
        let r := int32 Gen.parse_d fun s v => { s with tm := { s.tm with mday := v } }
        { r with weekNum := -1 }
      else if c = 101 then   -- e: one padding space is accepted and counts toward the width
        let (d1, w) := if peek d = 32 ∧ d ≠ [] then (d.drop 1, Gen.parse_e.1 - 1) else (d, Gen.parse_e.1)
        let r : PState := match parseInt32 d1 w Gen.parse_e.2.1 Gen.parse_e.2.2 with
          | some (d', v) => { st with data := some d', fmt := f2, ghost := st.ghost ++ [(c, v)], tm := { st.tm with mday := v } }
          | none => { st with data := none, fmt := f2 }
        { r with weekNum := -1 }
      else if c = 85 then    -- U
        let r := int32 Gen.parse_U fun s v => { s with weekNum := v }
        { r with weekStartSunday := true }
      else if c = 87 then    -- W
        let r := int32 Gen.parse_W fun s v => { s with weekNum := v }
        { r with weekStartSunday := false }
      else if c = 117 then   -- u
        int32 Gen.parse_u fun s v => { s with tm := { s.tm with wday := cmod v 7 } }
      else if c = 119 then   -- w
        int32 Gen.parse_w fun s v => { s with tm := { s.tm with wday := v } }
      else if c = 72 then    -- H
        let r := int32 Gen.parse_H fun s v => { s with tm := { s.tm with hour := v } }
        { r with twelveHour := false }
      else if c = 77 then    -- M
        int32 Gen.parse_M fun s v => { s with tm := { s.tm with min := v } }
      else if c = 83 then    -- S
        int32 Gen.parse_S fun s v => { s with tm := { s.tm with sec := v } }
      else if c = 122 then   -- z
        match parseOffset d 0 with
        | some (d', off) => { st with data := some d', fmt := f2, offset := off, sawOffset := true }
        | none => { st with data := none, fmt := f2 }
      else if c = 90 then    -- Z
        match parseZone d with
        | some d' => { st with data := some d', fmt := f2 }
        | none => { st with data := none, fmt := f2 }
      else if c = 115 then   -- s
        match parseInt64 d 0 i64min i64max with
        | some (d', v) => { st with data := some d', fmt := f2, percentS := v, sawPercentS := true }
        | none => { st with data := none, fmt := f2 }
      else if c = 58 ∧ (peek f2 = 122 ∨ (peek f2 = 58 ∧ (peek (f2.drop 1) = 122 ∨ (peek (f2.drop 1) = 58 ∧ peek (f2.drop 2) = 122)))) then
        let k := if peek f2 = 122 then 1 else if peek (f2.drop 1) = 122 then 2 else 3
        match parseOffset d 58 with
        | some (d', off) => { st with data := some d', fmt := f2.drop k, offset := off, sawOffset := true }
        | none => { st with data := none, fmt := f2.drop k }
      else if c = 37 then    -- %%
        if peek d = 37 ∧ d ≠ [] then { st with data := some (d.drop 1), fmt := f2 } else { st with data := none, fmt := f2 }
      else if c = 69 then    -- E
        let e := peek f2
        if e = 84 then
          if (peek d = 84 ∨ peek d = 116) ∧ d ≠ [] then { st with data := some (d.drop 1), fmt := f2.drop 1 }
          else { st with data := none, fmt := f2 }
        else if e = 122 ∨ (e = 42 ∧ peek (f2.drop 1) = 122) then
          let k := if e = 122 then 1 else 2
          match parseOffset d 58 with
          | some (d', off) => { st with data := some d', fmt := f2.drop k, offset := off, sawOffset := true }
          | none => { st with data := none, fmt := f2.drop k }
        else if e = 42 ∧ peek (f2.drop 1) = 83 then
          { parseSecFrac st d with fmt := f2.drop 2 }
        else if e = 42 ∧ peek (f2.drop 1) = 102 then
          { parseFrac st d with fmt := f2.drop 2 }
        else if e = 52 ∧ peek (f2.drop 1) = 89 then
          let (w, lo, hi) := Gen.parse_E4Y
          match parseInt64 d w lo hi with
          | some (d', v) =>
            if d.length - d'.length = 4 then
              { st with data := some d', fmt := f2.drop 2, year := v, sawYear := true, ghost := st.ghost ++ [(52, v)] }
            else { st with data := none, fmt := f2.drop 2, year := v }
          | none => { st with data := none, fmt := f2.drop 2 }
        else
          let viaDigits : Option PState :=
            if isDigit e then
              let ds := f2.takeWhile isDigit
              let np := f2.dropWhile isDigit
              -- ParseInt(fmt, 0, 0, 1024, &n) on the format: fails on overflow / > 1024
              match parseInt32 f2 0 0 1024 with
              | some (_, _) =>
                if peek np = 83 then some { parseSecFrac st d with fmt := np.drop 1 }
                else if peek np = 102 then some { parseFrac st d with fmt := np.drop 1 }
                else none
              | none => let _ := ds; none
            else none
          match viaDigits with
          | some r => r
          | none =>
            let st := if e = 99 ∨ e = 88 then { st with twelveHour := false } else st
            let f3 := if e ≠ 0 ∧ !f2.isEmpty then f2.drop 1 else f2
            viaStrptime sp st d (f.take (f.length - f3.length)) f3
      else if c = 79 then    -- O
        let e := peek f2
        let st := if e = 72 then { st with twelveHour := false } else if e = 73 then { st with twelveHour := true } else st
        let f3 := if !f2.isEmpty then f2.drop 1 else f2
        viaStrptime sp st d (f.take (f.length - f3.length)) f3
      else
        let st :=
          if c = 73 ∨ c = 108 ∨ c = 114 then { st with twelveHour := true }
          else if c = 82 ∨ c = 84 ∨ c = 99 ∨ c = 88 then { st with twelveHour := false }
          else st
        viaStrptime sp st d (f.take (f.length - f2.length)) f2

def specLoop (sp : Strptime) : Nat → PState → PState
  | 0, st => st
  | fuel + 1, st =>
    match st.data with
    | none => st
    | some d => if st.fmt.isEmpty then st else specLoop sp fuel (stepSpec sp st d)

/-- `FromWeek(week_num, week_start, &year, &tm)`: `none` = returns false -/
def fromWeek (weekNum : Int) (startSunday : Bool) (year : Int) (tm : Tm) : Ck (Option (Int × Tm)) := do
  let y ← Civil.civilNew .year (cmod year 400) 1 1 0 0 0
  let yd := Civil.align .day y
  let cd0 ← Civil.prevWeekday yd (if startSunday then 6 else 0)
  let cdm1 ← Civil.civilSub .day cd0 1
  let nw ← Civil.nextWeekday cdm1 (fromTmWday tm.wday)
  let w7 ← chk32 (weekNum * 7)
  let cd ← Civil.civilAdd .day nw w7
  let shift ← chk64 (cd.y - y.y)
  if shift ≠ 0 then
    if shift > 0 then
      if year > i64max - shift then return none
    else
      if year < i64min - shift then return none
    let y' ← chk64 (year + shift)
    return some (y', { tm with mon := cd.m - 1, mday := cd.d })
  return some (year, { tm with mon := cd.m - 1, mday := cd.d })

inductive Result
  | fail
  | ok (sec fs : Int)
deriving DecidableEq, Repr, Inhabited

/-- `detail::parse(format, input, tz, &sec, &fs)`; `z` is the zone passed in -/
structure Ghost where
  fields : List (UInt8 × Int)
  spQueries : List (Bytes × Bytes × Tm)

def parse (sp : Strptime) (fmt input : Bytes) (z : Tz.Zone) : Ck (Result × Ghost) := do
  let data := skipSpace (cstr input)
  let st0 : PState := { data := some data, fmt := cstr fmt }
  let st := specLoop sp (fmt.length + input.length + 2) st0
  let tm := if st.twelveHour ∧ st.afternoon ∧ st.tm.hour < 12 then { st.tm with hour := st.tm.hour + 12 } else st.tm
  match st.data with
  | none => return (.fail, ⟨st.ghost, st.spQueries⟩)
  | some d =>
  if !(skipSpace d).isEmpty then return (.fail, ⟨st.ghost, st.spQueries⟩)
  if st.sawPercentS then return (.ok st.percentS 0, ⟨st.ghost, st.spQueries⟩)
  let utc ← Tz.resetToBuiltinUTC 0
  let ptz := if st.sawOffset then utc else z
  let (tm, offset, subseconds) ← (if tm.sec == 60 then do
      let o ← chk32 (st.offset - 1)
      pure ({ tm with sec := 59 }, o, 0)
    else pure (tm, st.offset, st.subseconds) : Ck (Tm × Int × Int))
  -- a seconds value beyond the leap second (strptime may let 61 through) is not normalized
  if tm.sec > 59 then return (.fail, ⟨st.ghost, st.spQueries⟩)
  let yr ← (if !st.sawYear then
      (if tm.year > i64max - 1900 then pure none else do let y ← chk64 (tm.year + 1900); pure (some y))
    else pure (some st.year) : Ck (Option Int))
  match yr with
  | none => return (.fail, ⟨st.ghost, st.spQueries⟩)
  | some year =>
  let wk ← (if st.weekNum ≠ -1 then fromWeek st.weekNum st.weekStartSunday year tm else pure (some (year, tm)) : Ck (Option (Int × Tm)))
  match wk with
  | none => return (.fail, ⟨st.ghost, st.spQueries⟩)
  | some (year, tm) =>
  let month ← chk32 (tm.mon + 1)
  let cs ← Civil.civilNew .second year month tm.mday tm.hour tm.min tm.sec
  if cs.m ≠ month ∨ cs.d ≠ tm.mday then return (.fail, ⟨st.ghost, st.spQueries⟩)
  -- offset adjustment guard
  let cmax ← Civil.civilNew .second i64max 12 31 23 59 59
  let cmin ← Civil.civilNew .second i64min 1 1 0 0 0
  let guard ← (if offset < 0 then do
      let lim ← Civil.civilAdd .second cmax offset
      pure (Civil.lt lim cs)
    else if offset > 0 then do
      let lim ← Civil.civilAdd .second cmin offset
      pure (Civil.lt cs lim)
    else pure false : Ck Bool)
  if guard then return (.fail, ⟨st.ghost, st.spQueries⟩)
  let cs ← Civil.civilSub .second cs offset
  let (cl, _) ← Tz.makeTime ptz 0 cs
  let tp := cl.pre
  if tp = i64max then
    let (al, _) ← Tz.breakTime ptz 0 i64max
    if Civil.lt al.cs cs then return (.fail, ⟨st.ghost, st.spQueries⟩)
  if tp = i64min then
    let (al, _) ← Tz.breakTime ptz 0 i64min
    if Civil.lt cs al.cs then return (.fail, ⟨st.ghost, st.spQueries⟩)
  return (.ok tp subseconds, ⟨st.ghost, st.spQueries⟩)

end Cctz.Parse
