/-
  Specification: what a TZif byte string MEANS according to tzfile(5) / RFC 8536 (trusted; short).

  The file is described as a CONCATENATION of parts with given lengths, not by a cursor that walks
  over it: a 44-byte header, a data block whose layout the header's six counts determine, and for
  version 2+ files a second header and block (64-bit times) followed by a newline-enclosed footer.
  `IsTzif b hdr d` says "the byte string `b` is a TZif file whose used block has header `hdr` and
  content `d`"; `Acceptable hdr d` is what cctz additionally requires of that content; `tableOf`
  and `specDefaultType` say which table cctz is documented to build from it.
-/
import Cctz.Model.Bytes

namespace Cctz.Spec
open Cctz

/-! ### big-endian two's-complement integers -/

/-- unsigned big-endian value of a byte string: every byte weighs 256 times the byte after it -/
def beNat : Bytes → Nat
  | [] => 0
  | x :: rest => x.toNat * 256 ^ rest.length + beNat rest

/-- two's-complement reading of a `bits`-bit pattern `v` (`v < 2^bits`) -/
def twos (bits : Nat) (v : Nat) : Int := if v < 2 ^ (bits - 1) then (v : Int) else (v : Int) - 2 ^ bits

/-- the first four bytes as a signed 32-bit big-endian integer -/
def be32 (b : Bytes) : Int := twos 32 (beNat (b.take 4))
/-- the first eight bytes as a signed 64-bit big-endian integer -/
def be64 (b : Bytes) : Int := twos 64 (beNat (b.take 8))

/-! ### the content of a TZif file -/

/-- the data cctz uses of a TZif file -/
structure TzData where
  /-- transition times (seconds since the epoch), in file order -/
  times : List Int
  /-- for each transition time the index of the local time type in force from then on -/
  idxs : List Nat
  /-- local time type records: (utoff, isdst, index of the abbreviation in `abbrs`) -/
  types : List (Int × Bool × Nat)
  /-- the time zone designations (NUL-terminated strings, concatenated) -/
  abbrs : Bytes
  /-- the footer: a POSIX-TZ string without the enclosing newlines (`[]` for a version-1 file) -/
  footer : Bytes
  /-- version byte of the header of the block that is used (0 for a version-1 file) -/
  version : UInt8

/-- the six counts of a header -/
structure Hdr where
  isutcnt : Nat
  isstdcnt : Nat
  leapcnt : Nat
  timecnt : Nat
  typecnt : Nat
  charcnt : Nat

/-- "TZif" -/
def tzMagic : Bytes := [0x54, 0x5a, 0x69, 0x66]

/-- `h` is a 44-byte header with version byte `version` and counts `hdr`: magic (4 bytes), version
(1 byte), 15 unused bytes, then six big-endian 32-bit counts, each non-negative (a `Nat`) -/
def IsHeader (h : Bytes) (hdr : Hdr) (version : UInt8) : Prop :=
  h.length = 44 ∧ h.take 4 = tzMagic ∧ h.getD 4 0 = version ∧
  be32 (h.drop 20) = hdr.isutcnt ∧ be32 (h.drop 24) = hdr.isstdcnt ∧ be32 (h.drop 28) = hdr.leapcnt ∧
  be32 (h.drop 32) = hdr.timecnt ∧ be32 (h.drop 36) = hdr.typecnt ∧ be32 (h.drop 40) = hdr.charcnt

/-- length of the data block that follows a header; `timeLen` is 4 in the first block, 8 in the second -/
def blockLen (timeLen : Nat) (hdr : Hdr) : Nat :=
  (timeLen + 1) * hdr.timecnt + 6 * hdr.typecnt + hdr.charcnt + (timeLen + 4) * hdr.leapcnt +
  hdr.isstdcnt + hdr.isutcnt

/-- `blk` is a data block for `hdr` with content `d`: `timecnt` times of `timeLen` bytes each,
`timecnt` one-byte type indices, `typecnt` six-byte type records (4-byte utoff, isdst byte,
designation-index byte), `charcnt` designation bytes, then the leap-second records and the
standard/wall and UT/local indicators (not interpreted here) -/
def IsBlock (timeLen : Nat) (hdr : Hdr) (blk : Bytes) (d : TzData) : Prop :=
  blk.length = blockLen timeLen hdr ∧
  ∃ (ts : List Bytes) (ix : Bytes) (tys : List Bytes) (leap isstd isut : Bytes),
    blk = ts.flatten ++ ix ++ tys.flatten ++ d.abbrs ++ leap ++ isstd ++ isut ∧
    ts.length = hdr.timecnt ∧ (∀ t ∈ ts, t.length = timeLen) ∧
    d.times = ts.map (if timeLen = 4 then be32 else be64) ∧
    ix.length = hdr.timecnt ∧ d.idxs = ix.map (·.toNat) ∧
    tys.length = hdr.typecnt ∧ (∀ r ∈ tys, r.length = 6) ∧
    d.types = tys.map (fun r => (be32 r, r.getD 4 0 != 0, (r.getD 5 0).toNat)) ∧
    d.abbrs.length = hdr.charcnt ∧
    leap.length = (timeLen + 4) * hdr.leapcnt ∧ isstd.length = hdr.isstdcnt ∧
    isut.length = hdr.isutcnt

/-- `b` is a TZif file; `hdr`, `d` are the header and content of the block a 64-bit reader uses.
Either a version-1 file (header, 32-bit block, anything after it is ignored), or a version-2+ file:
first header with a non-zero version byte, a 32-bit block of the length that header declares
(content ignored), second header with a non-zero version byte, 64-bit block, newline, footer without
a newline, newline (anything after it is ignored). -/
def IsTzif (b : Bytes) (hdr : Hdr) (d : TzData) : Prop :=
  (∃ h1 blk trailing : Bytes,
    b = h1 ++ blk ++ trailing ∧ IsHeader h1 hdr 0 ∧ IsBlock 4 hdr blk d ∧
    d.footer = [] ∧ d.version = 0)
  ∨
  (∃ (h1 : Bytes) (hdr1 : Hdr) (v1 : UInt8) (blk1 h2 blk2 footer trailing : Bytes),
    b = h1 ++ blk1 ++ h2 ++ blk2 ++ [10] ++ footer ++ [10] ++ trailing ∧
    IsHeader h1 hdr1 v1 ∧ v1 ≠ 0 ∧ blk1.length = blockLen 4 hdr1 ∧
    IsHeader h2 hdr d.version ∧ d.version ≠ 0 ∧ IsBlock 8 hdr blk2 d ∧
    10 ∉ footer ∧ d.footer = footer)

/-- what cctz additionally requires of the content (else it refuses the file): at least one type, no
leap-second records, indicator counts 0 or `typecnt`, strictly increasing times, type indices that
name a type record, offsets of less than a day, designation indices inside the designations -/
structure Acceptable (hdr : Hdr) (d : TzData) : Prop where
  typecnt_pos : 1 ≤ hdr.typecnt
  no_leap : hdr.leapcnt = 0
  isstd : hdr.isstdcnt = 0 ∨ hdr.isstdcnt = hdr.typecnt
  isut : hdr.isutcnt = 0 ∨ hdr.isutcnt = hdr.typecnt
  increasing : d.times.Pairwise (· < ·)
  idx_lt : ∀ i ∈ d.idxs, i < hdr.typecnt
  utoff_lt : ∀ t ∈ d.types, -86400 < t.1 ∧ t.1 < 86400
  abbr_lt : ∀ t ∈ d.types, t.2.2 < hdr.charcnt

/-! ### the table cctz builds from the content -/

/-- the (time, type index) table before any extension by the footer rule: the file's pairs, preceded
by a sentinel entry at `-2^59` of the before-first-transition type when the file has no transition
or its first transition is not before the epoch -/
def tableOf (d : TzData) (defaultType : Nat) : List (Int × Nat) :=
  let pairs := d.times.zip d.idxs
  if d.times.isEmpty ∨ d.times.headD 0 ≥ 0 then (-(2 : Int) ^ 59, defaultType) :: pairs else pairs

/-- is type `i` a DST type? (`false` outside the table) -/
def TzData.isDst (d : TzData) (i : Nat) : Bool := (d.types[i]?.map (·.2.1)).getD false

/-- the type in force before the first transition.  Type 0, unless some transition uses type 0
(then type 0 is not "the type that is otherwise unused"): in that case the first non-DST type at or
after `i0`, among the at most 256 types an 8-bit index can name, and type 0 if there is none; where
`i0` is 0 when type 0 is standard time, and otherwise the nearest non-DST type at or before the type
of the first transition (0 if there is none). -/
def specDefaultType (d : TzData) : Nat :=
  if d.idxs.all (· ≠ 0) then 0
  else
    let n := min d.types.length 256
    let i0 :=
      if d.isDst 0 then
        ((List.range (d.idxs.headD 0 + 1)).reverse.find? fun j => !d.isDst j).getD 0
      else 0
    ((List.range' i0 (n - i0)).find? fun i => !d.isDst i).getD 0

/-! ### the civil-order condition -/

/-- the whole table of a file without a footer rule: `tableOf`, followed by a sentinel entry at
`2^31 - 1` of the last type when the last time is negative -/
def fullTable (d : TzData) : List (Int × Nat) :=
  let t := tableOf d (specDefaultType d)
  match t.getLast? with
  | some last => if last.1 < 0 then t ++ [(2147483647, last.2)] else t
  | none => t

/-- utoff of type `i` (0 outside the table) -/
def TzData.utoff (d : TzData) (i : Nat) : Int := (d.types[i]?.map (·.1)).getD 0

/-- the local civil seconds shown at the entries of the table are strictly increasing: an offset
change never crosses the next one (`time + utoff` of each entry is below that of the next; since `<`
is transitive this is the same as the list being pairwise increasing) -/
def CivilOrderOK (d : TzData) : Prop :=
  ((fullTable d).map fun p => p.1 + d.utoff p.2).Pairwise (· < ·)

end Cctz.Spec
