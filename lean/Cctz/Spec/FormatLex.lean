/-
  Specification: how `format()` reads a format string (trusted; meant to be read).

  The format string is cut, left to right, into
    * text without '%',
    * runs of percent signs ("%%" stands for one '%'),
    * conversions the library renders itself (`lib`): %Y %m %d %e %U %u %W %w %H %M %S %z %Z %s,
      %:z %::z %:::z, %ET %Ez %E*z %E*S %E*f %E4Y, %E<digits>S %E<digits>f (digits: a number ≤ 1024
      that fits an int), and "%" followed by a NUL byte (renders nothing: `strchr` finds the terminator),
    * everything else that starts with '%' — left to the C library.
  Text the library renders is emitted at once.  The first conversion left to the C library opens a
  *run*: from there on text, "%%" pairs and further such conversions are collected verbatim, and
  the run is handed to strftime as one format string when the next `lib` conversion, or the end of
  the string, is reached.  (So "%a, %d" is one strftime call for "%a, " followed by the day.)
-/
import Cctz.Model.Format
import Cctz.Spec.FormatSpec
import Cctz.Spec.Gregorian

namespace Cctz.Spec.Lex
open Cctz Bytes Cctz.Format Cctz.Spec

/-- the conversions the library renders itself -/
inductive Conv
  | nul                         -- "%\0"
  | simple (c : UInt8)          -- %Y %m %d %e %U %u %W %w %H %M %S %z %Z %s
  | colonZ (n : Nat)            -- %:z (1), %::z (2), %:::z (3)
  | eT | eZ | eStarZ | eStarS | eStarF | e4Y
  | eDigS (n : Nat) | eDigF (n : Nat)
deriving DecidableEq, Repr

def simpleSet : List UInt8 := [89, 109, 100, 101, 85, 117, 87, 119, 72, 77, 83, 122, 90, 115]

/-- the decimal number spelled by the digits at the head of `s`, and what follows them -/
def spanDigits (s : Bytes) : Bytes × Bytes := (s.takeWhile isDigit, s.dropWhile isDigit)
def digitsVal (ds : Bytes) : Nat := ds.foldl (fun v c => v * 10 + (c.toNat - 48)) 0

/-- the conversion that starts right after a '%' (the bytes after it), and the rest of the
format string behind it; `none`: not one of the library's own -/
def conv (s : Bytes) : Option (Conv × Bytes) :=
  match s with
  | [] => none                                        -- the '%' was the last character
  | 0 :: r => some (.nul, r)
  | 58 :: 122 :: r => some (.colonZ 1, r)
  | 58 :: 58 :: 122 :: r => some (.colonZ 2, r)
  | 58 :: 58 :: 58 :: 122 :: r => some (.colonZ 3, r)
  | 69 :: 84 :: r => some (.eT, r)
  | 69 :: 122 :: r => some (.eZ, r)
  | 69 :: 42 :: 122 :: r => some (.eStarZ, r)
  | 69 :: 42 :: 83 :: r => some (.eStarS, r)
  | 69 :: 42 :: 102 :: r => some (.eStarF, r)
  | 69 :: 52 :: 89 :: r => some (.e4Y, r)
  | 69 :: r =>
    let (ds, r') := spanDigits r
    -- a width is a non-empty digit string (leading zeros allowed) whose value is at most 1024
    if ds ≠ [] ∧ digitsVal ds ≤ 1024 then
      match r' with
      | 83 :: r'' => some (.eDigS (digitsVal ds), r'')
      | 102 :: r'' => some (.eDigF (digitsVal ds), r'')
      | _ => none
    else none
  | c :: r => if c ∈ simpleSet then some (.simple c, r) else none

/-- tm_wday of the civil day (0 = Sunday) and the 0-based day of the year, from the calendar -/
def wday (cs : Fields) : Int := (weekdayOfDay (dayNum cs.y cs.m cs.d) + 1) % 7
def yday (cs : Fields) : Int := dayNum cs.y cs.m cs.d - dayNum cs.y 1 1

/-- `n` digits of the fraction: the first 15 from the femtoseconds (truncated), zeros beyond; at
most 18 digits are ever produced -/
def frac (n : Nat) (fs : Int) : Bytes :=
  let n' := min n 18
  if n' ≤ 15 then fracDigits n' fs else decPad 15 fs.toNat ++ List.replicate (n' - 15) 48

/-- the documented rendering of a library conversion -/
def renderConv (c : Conv) (al : Tz.AbsLookup) (t fs : Int) : Bytes :=
  let cs := al.cs
  match c with
  | .nul => []
  | .simple 89 => decInt cs.y
  | .simple 109 => decPad 2 cs.m.toNat
  | .simple 100 => decPad 2 cs.d.toNat
  | .simple 101 => if cs.d < 10 then 32 :: decNat cs.d.toNat else decNat cs.d.toNat
  | .simple 85 => decPad 2 ((yday cs + 7 - wday cs) / 7).toNat                 -- weeks start on Sunday
  | .simple 117 => decNat (if wday cs = 0 then 7 else wday cs).toNat
  | .simple 87 => decPad 2 ((yday cs + 7 - (wday cs + 6) % 7) / 7).toNat       -- weeks start on Monday
  | .simple 119 => decNat (wday cs).toNat
  | .simple 72 => decPad 2 cs.hh.toNat
  | .simple 77 => decPad 2 cs.mm.toNat
  | .simple 83 => decPad 2 cs.ss.toNat
  | .simple 122 => offHM false al.offset
  | .simple 90 => al.abbr
  | .simple 115 => decInt t
  | .simple _ => []
  | .colonZ 1 => offHM true al.offset
  | .colonZ 2 => offHMS al.offset
  | .colonZ _ => offMin al.offset
  | .eT => [84]
  | .eZ => offHM true al.offset
  | .eStarZ => offHMS al.offset
  | .eStarS => decPad 2 cs.ss.toNat ++ (if fracStar fs = [] then [] else 46 :: fracStar fs)
  | .eStarF => if fracStar fs = [] then [48] else fracStar fs
  | .e4Y => year4 cs.y
  | .eDigS n => decPad 2 cs.ss.toNat ++ (if n = 0 then [] else 46 :: frac n fs)
  | .eDigF n => if n = 0 then [] else frac n fs

def pcts (k : Nat) : Bytes := List.replicate k 37

/-- the pieces of the output.  `run = none`: no strftime run is open; `run = some r`: `r` is the
text collected for strftime so far.  `fuel` bounds the recursion (the length of the string is enough). -/
def segs (al : Tz.AbsLookup) (t fs : Int) : Nat → Option Bytes → Bytes → List Seg
  | 0, run, _ => (match run with | some r => [.run r] | none => [])
  | fuel + 1, run, s =>
    if s = [] then (match run with | some r => [.run r] | none => [])
    else
      let text := s.takeWhile (· ≠ 37)
      let s1 := s.dropWhile (· ≠ 37)
      let k := (s1.takeWhile (· = 37)).length
      let s2 := s1.dropWhile (· = 37)
      match run with
      | none =>
        let pre : List Seg := [.lit text, .lit (pcts (k / 2))]
        if k % 2 = 0 then pre ++ segs al t fs fuel none s2
        else if s2 = [] then pre ++ [.lit [37]]                           -- a lone '%' at the very end
        else match conv s2 with
          | some (c, r) => pre ++ [.lit (renderConv c al t fs)] ++ segs al t fs fuel none r
          | none => pre ++ segs al t fs fuel (some [37]) s2                -- opens a run at this '%'
      | some r0 =>
        if k % 2 = 0 ∨ s2 = [] then segs al t fs fuel (some (r0 ++ text ++ pcts k)) s2
        else match conv s2 with
          | some (c, r) => [.run (r0 ++ text ++ pcts (k - 1)), .lit (renderConv c al t fs)] ++ segs al t fs fuel none r
          | none => segs al t fs fuel (some (r0 ++ text ++ pcts k)) s2

/-- the specification of `format()`'s output, given what lookup() reported -/
def formatSpec (sf : Strftime) (tm : Tm) (fmt : Bytes) (al : Tz.AbsLookup) (t fs : Int) : Bytes :=
  render sf tm (segs al t fs (fmt.length + 1) none fmt)

end Cctz.Spec.Lex
