/-
  Range facts about a loaded table that the civil → instant theorems (C02, C06) need in addition
  to `TableWF` / `CivilCols`.  They hold for every table the C++ can hold or build in practice but
  are not consequences of the order/index facts, and the theorems are false without them
  (see `makeTime_needs_TimesInRange`, `convert_monotone_needs_FirstEntryRoom`).
-/
import Cctz.Model.Tz
import Cctz.Spec.TableSem

namespace Cctz.Spec
open Cctz Cctz.Tz

/-- every `unix_time` of the table is an `int64` value.  Always true in the C++ (the field is a
`std::int_least64_t`); the model's `Int` field needs it said.  Without it a UNIQUE answer of
`MakeTime` before the first / inside the table can lie outside the `time_point` range without
being clamped. -/
def TimesInRange (z : Zone) : Prop := ∀ i, i < z.transitions.size → inI64 (timeOf z i)

/-- the first table entry does not sit within its own (backward) jump of `int64` min: the instant
`timeOf 0 + (offOf 0 - offBefore 0)`, which is the `pre` that `MakeRepeated` computes for the first
civil second of an overlap at entry 0, is representable.  Load prepends a sentinel at -2^59 unless
the file's first transition is negative, so only a file whose first transition is within a day of
-2^63 and sets the clock back violates it; there `MakeRepeated` overflows (`unix_time - 1 - diff`)
and `convert` is not monotone. -/
def FirstEntryRoom (z : Zone) : Prop := i64min ≤ timeOf z 0 + offOf z 0 - offBefore z 0

end Cctz.Spec

namespace Cctz.Spec
open Cctz Cctz.Tz

/-- A tame table: what `load` produces from data whose recorded transition times lie within ±2^59
(the range the code's own sentinels assume) and whose rule-generated part, if any, reaches the year
2196 (so that the 400-year shift of lookups up to max() stays representable).  All shipped zones
and the synthetic corpus satisfy it (the driver evaluates `TableCheck.tameb` and friends on every
zone of a run); the well-formed files that do not are the known findings F4/F7/F9/F13. -/
structure Tame (z : Zone) : Prop where
  wf : TableWF z
  cols : CivilCols z
  sorted : CivilSorted z
  offs : ∀ k, k < z.types.size → -90000 < (typ z k).utcOffset ∧ (typ z k).utcOffset < 90000
  times : ∀ i, i < z.transitions.size → -1152921504606846976 ≤ timeOf z i ∧ timeOf z i ≤ 1152921504606846976
  halves : timeOf z 0 < 0 ∧ 0 ≤ timeOf z (z.transitions.size - 1)
  ext : z.extended = true → ∃ ly, z.lastYear = some ly ∧ 7161147007 ≤ timeOf z (z.transitions.size - 1) ∧
          -40000000000 ≤ ly ∧ ly ≤ 40000000000 ∧ (trn z (z.transitions.size - 1)).civilSec.y ≤ ly + 1

end Cctz.Spec
