/-
  Specification: what a POSIX-TZ rule means on the proleptic Gregorian calendar (trusted; short).
  Each date form is defined by SEARCHING the days of the year, not by the arithmetic the code uses.
  Day numbers within a year are 0-based (Jan 1 = 0).  POSIX weekdays: 0 = Sunday … 6 = Saturday.
-/
import Cctz.Model.Posix
import Cctz.Spec.Gregorian

namespace Cctz.Spec
open Cctz

def yearLen (y : Int) : Nat := if isLeap y then 366 else 365

/-- is 0-based day `d` of year `y` February 29th? -/
def isFeb29 (y : Int) (d : Nat) : Bool := isLeap y && d == 59

/-- POSIX weekday (0 = Sunday) of 0-based day `d` of year `y` -/
def posixWeekday (y : Int) (d : Nat) : Int := (weekdayOfDay (dayNum y 1 1 + d) + 1) % 7

/-- month (1..12) containing 0-based day `d` of year `y`: the month whose days start at or before d -/
def monthOfYearDay (y : Int) (d : Nat) : Int :=
  (((List.range 12).filter fun (k : Nat) => decide (daysBeforeMonth y ((k : Int) + 1) ≤ (d : Int))).length : Nat)

/-- `Jn` (1 ≤ n ≤ 365): the n-th day of the year, February 29th never being counted -/
def julianDay (y n : Int) : Option Nat :=
  ((List.range (yearLen y)).filter fun d => !isFeb29 y d)[(n - 1).toNat]?

/-- `n` (0 ≤ n ≤ 365): the zero-based day, February 29th being counted (day 365 of a 365-day year is
the first day of the next year) -/
def zeroBasedDay (n : Int) : Option Nat := if 0 ≤ n then some n.toNat else none

/-- `Mm.w.d`: the w-th day of month m that falls on POSIX weekday d; w = 5 means the last one -/
def monthWeekDay (y m w wd : Int) : Option Nat :=
  let hits := (List.range (yearLen y)).filter fun d => monthOfYearDay y d == m && posixWeekday y d == wd
  if w = 5 then hits.getLast? else hits[(w - 1).toNat]?

def ruleDay (date : Posix.Date) (y : Int) : Option Nat :=
  match date.fmt with
  | .J => julianDay y date.a
  | .N => zeroBasedDay date.a
  | .M => monthWeekDay y date.a date.b date.c

/-- the instant of a rule transition in year `y`: local time `time` on the selected day, read with
the offset in force before it -/
def ruleInstant (date : Posix.Date) (time offsetBefore : Int) (y : Int) : Option Int :=
  (ruleDay date y).map fun d => (dayNum y 1 1 + d) * 86400 + time - offsetBefore

/-- the date lies within the bounds of the grammar -/
def DateInGrammar (d : Posix.Date) : Prop :=
  match d.fmt with
  | .J => 1 ≤ d.a ∧ d.a ≤ 365
  | .N => 0 ≤ d.a ∧ d.a ≤ 365
  | .M => 1 ≤ d.a ∧ d.a ≤ 12 ∧ 1 ≤ d.b ∧ d.b ≤ 5 ∧ 0 ≤ d.c ∧ d.c ≤ 6

end Cctz.Spec
