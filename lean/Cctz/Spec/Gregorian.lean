/-
  Specification: the proleptic Gregorian calendar.

  This file is part of the trusted base: it says what "the calendar" means in the property
  theorems.  It is short and executable; `Cctz/Proofs/SpecSanity.lean` checks the closed form
  `dayNum` against the schoolbook successor function `nextDay`, and every run cross-checks the
  model against an independent Python oracle built on CPython's `datetime`.
  `/` and `%` here are Lean's `Int` floor division and non-negative remainder (divisors are
  positive literals).
-/
import Cctz.Model.Civil

namespace Cctz.Spec

def isLeap (y : Int) : Bool := y % 4 = 0 ∧ (y % 100 ≠ 0 ∨ y % 400 = 0)

def daysInMonth (y m : Int) : Int :=
  if m = 2 then (if isLeap y then 29 else 28)
  else if m = 4 ∨ m = 6 ∨ m = 9 ∨ m = 11 then 30 else 31

def daysInYear (y : Int) : Int := if isLeap y then 366 else 365

/-- a valid civil second -/
def Valid (f : Fields) : Prop :=
  1 ≤ f.m ∧ f.m ≤ 12 ∧ 1 ≤ f.d ∧ f.d ≤ daysInMonth f.y f.m ∧
  0 ≤ f.hh ∧ f.hh ≤ 23 ∧ 0 ≤ f.mm ∧ f.mm ≤ 59 ∧ 0 ≤ f.ss ∧ f.ss ≤ 59

instance (f : Fields) : Decidable (Valid f) := by unfold Valid; infer_instance

/-- number of leap years among the years `1 … y` (extended to all integers) -/
def leapsThrough (y : Int) : Int := y / 4 - y / 100 + y / 400

/-- days from 1970-01-01 to January 1st of year `y` -/
def daysBeforeYear (y : Int) : Int := 365 * (y - 1970) + (leapsThrough (y - 1) - leapsThrough 1969)

/-- days from January 1st to the first of month `m` in a non-leap year -/
def cumDays (m : Int) : Int :=
  if m ≤ 1 then 0 else if m = 2 then 31 else if m = 3 then 59 else if m = 4 then 90
  else if m = 5 then 120 else if m = 6 then 151 else if m = 7 then 181 else if m = 8 then 212
  else if m = 9 then 243 else if m = 10 then 273 else if m = 11 then 304 else 334

def daysBeforeMonth (y m : Int) : Int := cumDays m + (if m > 2 ∧ isLeap y then 1 else 0)

/-- day number of the date `y-m-d`; 1970-01-01 ↦ 0 -/
def dayNum (y m d : Int) : Int := daysBeforeYear y + daysBeforeMonth y m + (d - 1)

/-- second number of a civil second; 1970-01-01 00:00:00 ↦ 0 -/
def secNum (f : Fields) : Int := dayNum f.y f.m f.d * 86400 + f.hh * 3600 + f.mm * 60 + f.ss

/-- the schoolbook successor of a date -/
def nextDay (y m d : Int) : Int × Int × Int :=
  if d < daysInMonth y m then (y, m, d + 1) else if m < 12 then (y, m + 1, 1) else (y + 1, 1, 1)

/-- Monday = 0 … Sunday = 6; 1970-01-01 (day 0) is a Thursday -/
def weekdayOfDay (n : Int) : Int := (n + 3) % 7

/-- What six unnormalised fields denote (C04): months are carried into the year first, then
days are counted from the first of that month, then hours, minutes and seconds are added. -/
def unnormSec (y m d hh mm ss : Int) : Int :=
  (dayNum (y + (m - 1) / 12) ((m - 1) % 12 + 1) 1 + (d - 1)) * 86400 + hh * 3600 + mm * 60 + ss

/-- `f` is aligned to `t`: every field below the unit of `t` is at its minimum -/
def Aligned (t : Tag) (f : Fields) : Prop :=
  match t with
  | .second => True
  | .minute => f.ss = 0
  | .hour => f.ss = 0 ∧ f.mm = 0
  | .day => f.ss = 0 ∧ f.mm = 0 ∧ f.hh = 0
  | .month => f.ss = 0 ∧ f.mm = 0 ∧ f.hh = 0 ∧ f.d = 1
  | .year => f.ss = 0 ∧ f.mm = 0 ∧ f.hh = 0 ∧ f.d = 1 ∧ f.m = 1

instance (t : Tag) (f : Fields) : Decidable (Aligned t f) := by unfold Aligned; cases t <;> infer_instance

/-- position of an aligned civil time counted in its own unit -/
def unitNum (t : Tag) (f : Fields) : Int :=
  match t with
  | .second => secNum f
  | .minute => dayNum f.y f.m f.d * 1440 + f.hh * 60 + f.mm
  | .hour => dayNum f.y f.m f.d * 24 + f.hh
  | .day => dayNum f.y f.m f.d
  | .month => 12 * f.y + (f.m - 1)
  | .year => f.y

/-- are the fields of `f` and `g` at and above the unit of `t` equal? -/
def SameAbove (t : Tag) (f g : Fields) : Prop :=
  match t with
  | .second => f = g
  | .minute => f.y = g.y ∧ f.m = g.m ∧ f.d = g.d ∧ f.hh = g.hh ∧ f.mm = g.mm
  | .hour => f.y = g.y ∧ f.m = g.m ∧ f.d = g.d ∧ f.hh = g.hh
  | .day => f.y = g.y ∧ f.m = g.m ∧ f.d = g.d
  | .month => f.y = g.y ∧ f.m = g.m
  | .year => f.y = g.y

end Cctz.Spec
