/-
  Specification: documented renderings of the library-defined format specifiers (trusted; short).
  Everything is a function of what lookup() reports — civil fields, UTC offset, abbreviation — plus
  the instant (for %s) and the femtosecond remainder.
-/
import Cctz.Model.Format
import Cctz.Spec.Gregorian

namespace Cctz.Spec
open Cctz Bytes

/-- decimal digits of a natural number -/
def decNat (n : Nat) : Bytes := (Nat.toDigits 10 n).map fun c => UInt8.ofNat c.toNat

/-- `n` rendered with at least `w` digits (zero padded on the left) -/
def decPad (w : Nat) (n : Nat) : Bytes := List.replicate (w - (decNat n).length) 48 ++ decNat n

/-- signed decimal: '-' then the magnitude -/
def decInt (v : Int) : Bytes := if v < 0 then 45 :: decNat v.natAbs else decNat v.natAbs

/-- four-character year of %E4Y: -999 … -001, 0000 … 9999 (wider outside that range) -/
def year4 (y : Int) : Bytes := if y < 0 then 45 :: decPad 3 y.natAbs else decPad 4 y.natAbs

/-- UTC offset as ±hh:mm:ss, ±hh:mm, ±hhmm; when the seconds are not shown a sub-minute negative
offset is given a positive sign -/
def offHMS (off : Int) : Bytes :=
  let a := off.natAbs
  [if off < 0 then 45 else 43] ++ decPad 2 (a / 3600) ++ [58] ++ decPad 2 (a / 60 % 60) ++ [58] ++ decPad 2 (a % 60)
def offHM (sep : Bool) (off : Int) : Bytes :=
  let a := off.natAbs
  [if off < 0 ∧ ¬ (a / 60 = 0) then 45 else 43] ++ decPad 2 (a / 3600) ++ (if sep then [58] else []) ++ decPad 2 (a / 60 % 60)
/-- %:::z : ±hh[:mm[:ss]], as short as possible -/
def offMin (off : Int) : Bytes :=
  let a := off.natAbs
  if a % 60 ≠ 0 then offHMS off
  else if a / 60 % 60 ≠ 0 then offHM true off
  else [if off < 0 ∧ a / 3600 ≠ 0 then 45 else 43] ++ decPad 2 (a / 3600)

/-- the first `n` digits (n ≤ 15) of the fraction `fs` femtoseconds, truncated, never rounded -/
def fracDigits (n : Nat) (fs : Int) : Bytes := decPad n (fs.toNat / 10 ^ (15 - n))

/-- the fraction with trailing zeros removed (empty when fs = 0) -/
def fracStar (fs : Int) : Bytes := ((decPad 15 fs.toNat).reverse.dropWhile (· = 48)).reverse

end Cctz.Spec
