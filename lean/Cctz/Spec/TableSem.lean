/-
  Specification vocabulary for a loaded zone table (trusted: says what the table-level theorems
  mean).  A `Tz.Zone` is the in-memory table cctz builds; the predicates below are the facts
  `TimeZoneInfo::Load` establishes about it and that the query functions rely on.
-/
import Cctz.Model.Tz
import Cctz.Spec.Gregorian

namespace Cctz.Spec
open Cctz Cctz.Tz

/-- i-th transition / type (total accessors; only used below the sizes) -/
def trn (z : Zone) (i : Nat) : Transition := z.transitions.getD i default
def typ (z : Zone) (i : Nat) : TransitionType := z.types.getD i default

/-- order and index-range facts about the table -/
structure TableWF (z : Zone) : Prop where
  nonempty : 0 < z.transitions.size
  timeSorted : ∀ i j, i < j → j < z.transitions.size → (trn z i).unixTime < (trn z j).unixTime
  typeIdx : ∀ i, i < z.transitions.size → (trn z i).typeIndex < z.types.size
  defaultIdx : z.defaultType < z.types.size

/-- the civil-second column is strictly increasing (Load's `ByCivilTime` check) -/
def CivilSorted (z : Zone) : Prop :=
  ∀ i j, i < j → j < z.transitions.size → Civil.lt (trn z i).civilSec (trn z j).civilSec = true

/-- index of the type in force just before table entry `i` -/
def prevType (z : Zone) (i : Nat) : Nat := if i = 0 then z.defaultType else (trn z (i - 1)).typeIndex

/-- do two types agree in offset, DST flag and abbreviation index? -/
def sameType (z : Zone) (a b : Nat) : Prop :=
  a = b ∨ ((typ z a).utcOffset = (typ z b).utcOffset ∧ (typ z a).isDst = (typ z b).isDst ∧
           (typ z a).abbrIndex = (typ z b).abbrIndex)

/-- table entry `i` is a real change: it is not the pre-2018 "big bang" sentinel at the head of the
table and the type it switches to differs from the type in force before it -/
def RealChange (z : Zone) (i : Nat) : Prop :=
  i < z.transitions.size ∧ ¬ (i = 0 ∧ (trn z 0).unixTime ≤ -576460752303423488) ∧
  ¬ sameType z (prevType z i) (trn z i).typeIndex

/-- what next/prev_transition report for entry `i`: `from` is one more than the civil second shown
just before the change, `to` the civil second shown at it -/
def reportOf (z : Zone) (i : Nat) : Fields × Fields :=
  ((Civil.civilAdd .second (trn z i).prevCivilSec 1).val, (trn z i).civilSec)

/-- the answer a stateless `lookup(t)` gives -/
def lookupT (z : Zone) (t : Int) : AbsLookup := (breakTime z 0 t).val.1
/-- the answer a stateless `lookup(cs)` gives -/
def lookupC (z : Zone) (cs : Fields) : CivilLookup := (makeTime z 0 cs).val.1

/-- a call on a zone and its answer, for statements about call histories -/
inductive Call
  | lookupT (t : Int)
  | lookupC (cs : Fields)

inductive Answer
  | abs (a : AbsLookup)
  | civ (c : CivilLookup)
deriving DecidableEq

/-- one API call against the hidden hint state `(BreakTime hint, MakeTime hint)` -/
def stepCall (z : Zone) (h : Nat × Nat) (c : Call) : Answer × (Nat × Nat) :=
  match c with
  | .lookupT t => let r := (breakTime z h.1 t).val; (.abs r.1, (r.2, h.2))
  | .lookupC cs => let r := (makeTime z h.2 cs).val; (.civ r.1, (h.1, r.2))

/-- answers of a sequence of calls starting from hint state `h` -/
def runCalls (z : Zone) (h : Nat × Nat) : List Call → List Answer
  | [] => []
  | c :: cs => let r := stepCall z h c; r.1 :: runCalls z r.2 cs

/-- the stateless answer of one call -/
def stateless (z : Zone) : Call → Answer
  | .lookupT t => .abs (lookupT z t)
  | .lookupC cs => .civ (lookupC z cs)

end Cctz.Spec

namespace Cctz.Spec
open Cctz Cctz.Tz

/-- index-range facts about a table (no ordering assumed): what makes every array access of the
query functions fall inside the arrays -/
structure TableIdx (z : Zone) : Prop where
  nonempty : 0 < z.transitions.size
  typeIdx : ∀ i, i < z.transitions.size → (trn z i).typeIndex < z.types.size
  defaultIdx : z.defaultType < z.types.size
  lastYearSet : z.extended = true → z.lastYear.isSome = true

/-- none of the flags that stand for memory errors, uninitialised reads or non-termination -/
def MemSafe (f : Flags) : Prop := f.oob = false ∧ f.unset = false ∧ f.fuel = false

end Cctz.Spec
