/-
  Specification vocabulary for a loaded zone table (trusted: says what the table-level theorems
  mean).  A `Tz.Zone` is the in-memory table cctz builds; the predicates below are the facts
  `TimeZoneInfo::Load` establishes about it and that the query functions rely on.
-/
import Cctz.Model.Tz
import Cctz.Spec.Gregorian

namespace Cctz.Spec
open Cctz Cctz.Tz

/-- i-th transition / type (total accessors; only used below the sizes) -/
def trn (z : Zone) (i : Nat) : Transition := z.transitions.getD i default
def typ (z : Zone) (i : Nat) : TransitionType := z.types.getD i default

/-- order and index-range facts about the table -/
structure TableWF (z : Zone) : Prop where
  nonempty : 0 < z.transitions.size
  timeSorted : ∀ i j, i < j → j < z.transitions.size → (trn z i).unixTime < (trn z j).unixTime
  typeIdx : ∀ i, i < z.transitions.size → (trn z i).typeIndex < z.types.size
  defaultIdx : z.defaultType < z.types.size

/-- the civil-second column is strictly increasing (Load's `ByCivilTime` check) -/
def CivilSorted (z : Zone) : Prop :=
  ∀ i j, i < j → j < z.transitions.size → Civil.lt (trn z i).civilSec (trn z j).civilSec = true

/-- index of the type in force just before table entry `i` -/
def prevType (z : Zone) (i : Nat) : Nat := if i = 0 then z.defaultType else (trn z (i - 1)).typeIndex

/-- do two types agree in offset, DST flag and abbreviation index? -/
def sameType (z : Zone) (a b : Nat) : Prop :=
  a = b ∨ ((typ z a).utcOffset = (typ z b).utcOffset ∧ (typ z a).isDst = (typ z b).isDst ∧
           (typ z a).abbrIndex = (typ z b).abbrIndex)

/-- table entry `i` is a real change: it is not the pre-2018 "big bang" sentinel at the head of the
table and the type it switches to differs from the type in force before it -/
def RealChange (z : Zone) (i : Nat) : Prop :=
  i < z.transitions.size ∧ ¬ (i = 0 ∧ (trn z 0).unixTime ≤ -576460752303423488) ∧
  ¬ sameType z (prevType z i) (trn z i).typeIndex

/-- what next/prev_transition report for entry `i`: `from` is one more than the civil second shown
just before the change, `to` the civil second shown at it -/
def reportOf (z : Zone) (i : Nat) : Fields × Fields :=
  ((Civil.civilAdd .second (trn z i).prevCivilSec 1).val, (trn z i).civilSec)

/-- the answer a stateless `lookup(t)` gives -/
def lookupT (z : Zone) (t : Int) : AbsLookup := (breakTime z 0 t).val.1
/-- the answer a stateless `lookup(cs)` gives -/
def lookupC (z : Zone) (cs : Fields) : CivilLookup := (makeTime z 0 cs).val.1

/-- a call on a zone and its answer, for statements about call histories -/
inductive Call
  | lookupT (t : Int)
  | lookupC (cs : Fields)

inductive Answer
  | abs (a : AbsLookup)
  | civ (c : CivilLookup)
deriving DecidableEq

/-- one API call against the hidden hint state `(BreakTime hint, MakeTime hint)` -/
def stepCall (z : Zone) (h : Nat × Nat) (c : Call) : Answer × (Nat × Nat) :=
  match c with
  | .lookupT t => let r := (breakTime z h.1 t).val; (.abs r.1, (r.2, h.2))
  | .lookupC cs => let r := (makeTime z h.2 cs).val; (.civ r.1, (h.1, r.2))

/-- answers of a sequence of calls starting from hint state `h` -/
def runCalls (z : Zone) (h : Nat × Nat) : List Call → List Answer
  | [] => []
  | c :: cs => let r := stepCall z h c; r.1 :: runCalls z r.2 cs

/-- the stateless answer of one call -/
def stateless (z : Zone) : Call → Answer
  | .lookupT t => .abs (lookupT z t)
  | .lookupC cs => .civ (lookupC z cs)

end Cctz.Spec

namespace Cctz.Spec
open Cctz Cctz.Tz

/-- index-range facts about a table (no ordering assumed): what makes every array access of the
query functions fall inside the arrays -/
structure TableIdx (z : Zone) : Prop where
  nonempty : 0 < z.transitions.size
  typeIdx : ∀ i, i < z.transitions.size → (trn z i).typeIndex < z.types.size
  defaultIdx : z.defaultType < z.types.size
  lastYearSet : z.extended = true → z.lastYear.isSome = true

/-- none of the flags that stand for memory errors, uninitialised reads or non-termination -/
def MemSafe (f : Flags) : Prop := f.oob = false ∧ f.unset = false ∧ f.fuel = false

end Cctz.Spec

namespace Cctz.Spec
open Cctz Cctz.Tz

/-! ### the table read as a piecewise-constant offset function -/

def timeOf (z : Zone) (i : Nat) : Int := (trn z i).unixTime
/-- offset in force from table entry `i` on -/
def offOf (z : Zone) (i : Nat) : Int := (typ z (trn z i).typeIndex).utcOffset
/-- offset in force just before table entry `i` -/
def offBefore (z : Zone) (i : Nat) : Int := (typ z (prevType z i)).utcOffset

/-- number of table entries at or before instant `t` -/
def segIndex (z : Zone) (t : Int) : Nat :=
  ((List.range z.transitions.size).filter fun i => decide (timeOf z i ≤ t)).length

/-- index of the type in force at `t` according to the table alone (no 400-year extension):
the default type before the first entry, else the type of the latest entry at or before `t` -/
def typeAt (z : Zone) (t : Int) : Nat :=
  if segIndex z t = 0 then z.defaultType else (trn z (segIndex z t - 1)).typeIndex

def offAt (z : Zone) (t : Int) : Int := (typ z (typeAt z t)).utcOffset

/-- instant `t` displays the civil second numbered `x` -/
def shows (z : Zone) (t x : Int) : Prop := t + offAt z t = x

/-- the civil-second columns are what they are documented to be: `civil_sec` is the local civil
second at the transition, `prev_civil_sec` the one shown one second earlier, `civil_max/min` the
civil seconds at the ends of the time_point range for each type -/
structure CivilCols (z : Zone) : Prop where
  civ : ∀ i, i < z.transitions.size →
    Valid (trn z i).civilSec ∧ secNum (trn z i).civilSec = timeOf z i + offOf z i
  prev : ∀ i, i < z.transitions.size →
    Valid (trn z i).prevCivilSec ∧ secNum (trn z i).prevCivilSec = timeOf z i + offBefore z i - 1
  tmax : ∀ k, k < z.types.size → Valid (typ z k).civilMax ∧ secNum (typ z k).civilMax = i64max + (typ z k).utcOffset
  tmin : ∀ k, k < z.types.size → Valid (typ z k).civilMin ∧ secNum (typ z k).civilMin = i64min + (typ z k).utcOffset

/-- offset changes are farther apart than they are large: with `c i` the civil second shown at
change `i` and `p i` the one shown just before it, `c i < c (i+1)`, `p i ≤ p (i+1)`, `p i < c (i+1)`.
(All real data satisfies this; Load checks only the first.) -/
def Separated (z : Zone) : Prop :=
  ∀ i, i + 1 < z.transitions.size →
    timeOf z i + offOf z i < timeOf z (i + 1) + offOf z (i + 1) ∧
    timeOf z i + offBefore z i ≤ timeOf z (i + 1) + offBefore z (i + 1) ∧
    timeOf z i + offBefore z i - 1 < timeOf z (i + 1) + offOf z (i + 1)

/-- the property's own wording: consecutive changes farther apart than the sum of their sizes -/
def FarApart (z : Zone) : Prop :=
  ∀ i, i + 1 < z.transitions.size →
    (offOf z i - offBefore z i).natAbs + (offOf z (i + 1) - offBefore z (i + 1)).natAbs
      < timeOf z (i + 1) - timeOf z i

/-- the civil second does not take the 400-year shift path of MakeTime -/
def NoShift (z : Zone) (cs : Fields) : Prop :=
  z.extended = false ∨ ∃ ly, z.lastYear = some ly ∧ cs.y ≤ ly

def clamp64 (x : Int) : Int := if x < i64min then i64min else if x > i64max then i64max else x

end Cctz.Spec
