/-
  Declarative grammar of POSIX-TZ rule strings (C16), written from the documented format, not
  from the parser:

      std offset [ dst [ offset ] , date [ / time ] , date [ / time ] ]      nothing following

  Every relation below says that a byte string *is the concatenation of* parts of a given shape
  (existence of a decomposition); there is no cursor and no left-to-right state.  Relations that
  describe a part of the string take the text `t` of the part and the text `rest` that follows
  it, because the grammar is "maximal munch": a numeral is never followed by a further digit, an
  unquoted abbreviation never by a further abbreviation character, and a `:` after hours
  (minutes) commits to minutes (seconds).

  All numeric bounds are literals here; `C16.parse_iff` ties the constants extracted from the
  C++ (`Gen.posix_*`) to them.
-/
import Cctz.Model.Posix

namespace Cctz.Spec
open Cctz

/-- ASCII decimal digit `'0'..'9'` -/
def IsDigit (c : UInt8) : Prop := 48 ≤ c ∧ c ≤ 57

/-- value of a decimal numeral, most significant digit first -/
def numVal (ds : Bytes) : Int := ds.foldl (fun v c => v * 10 + ((c.toNat : Int) - 48)) 0

/-- `ds` is a non-empty decimal numeral (leading zeros allowed) whose value `v` lies in
`[lo, hi]` -/
def IsNum (ds : Bytes) (lo hi v : Int) : Prop :=
  ds ≠ [] ∧ (∀ c ∈ ds, IsDigit c) ∧ v = numVal ds ∧ lo ≤ v ∧ v ≤ hi

/-- the byte that follows (if there is one) satisfies `P` -/
def NextIs (P : UInt8 → Prop) (rest : Bytes) : Prop := ∀ c, rest.head? = some c → P c

/-- the byte that follows (if there is one) does not satisfy `P` -/
def NextNot (P : UInt8 → Prop) (rest : Bytes) : Prop := ∀ c, rest.head? = some c → ¬ P c

/-- `h[:m[:s]]` with hours `0..maxH`, minutes and seconds `0..59`; `v` is the number of seconds
spelled.  `rest` is what follows: not a digit (maximal munch of the last numeral), and not a `:`
unless the seconds are already present (a `:` after the hours makes the minutes mandatory, a
`:` after the minutes makes the seconds mandatory). -/
def IsHms (maxH : Int) (t rest : Bytes) (v : Int) : Prop :=
  (∃ h, IsNum t 0 maxH h ∧ v = h * 3600 ∧
      NextNot IsDigit rest ∧ NextNot (· = 58) rest) ∨
  (∃ hs ms h m, t = hs ++ 58 :: ms ∧ IsNum hs 0 maxH h ∧ IsNum ms 0 59 m ∧ v = (h * 60 + m) * 60 ∧
      NextNot IsDigit rest ∧ NextNot (· = 58) rest) ∨
  (∃ hs ms ss h m s, t = hs ++ 58 :: (ms ++ 58 :: ss) ∧
      IsNum hs 0 maxH h ∧ IsNum ms 0 59 m ∧ IsNum ss 0 59 s ∧ v = (h * 60 + m) * 60 + s ∧
      NextNot IsDigit rest)

/-- `[+|-] h[:m[:s]]`; `v` is the signed number of seconds spelled -/
def IsSignedHms (maxH : Int) (t rest : Bytes) (v : Int) : Prop :=
  IsHms maxH t rest v ∨
  (∃ b, t = 43 :: b ∧ IsHms maxH b rest v) ∨
  (∃ b w, t = 45 :: b ∧ IsHms maxH b rest w ∧ v = -w)

/-- the bytes that cannot be part of an unquoted abbreviation: digits, `+`, `-`, `,` -/
def IsStop (c : UInt8) : Prop := IsDigit c ∨ c = 43 ∨ c = 45 ∨ c = 44

/-- an abbreviation with text `t` and name `a`: either `<a>` with no `>` in `a` (possibly
empty), or `a` itself: three or more bytes, none a digit, sign or comma, the first not `<`, and
as long as possible (what follows is a digit, sign or comma, or nothing).  (NUL bytes are
excluded for the whole string in `IsPosixSpec`.) -/
def IsAbbr (t rest a : Bytes) : Prop :=
  (t = 60 :: (a ++ [62]) ∧ ∀ c ∈ a, c ≠ 62) ∨
  (t = a ∧ 3 ≤ a.length ∧ (∀ c ∈ a, ¬ IsStop c) ∧ a.head? ≠ some 60 ∧ NextIs IsStop rest)

/-- `Jn` (1 ≤ n ≤ 365) | `n` (0 ≤ n ≤ 365) | `Mm.w.d` (1 ≤ m ≤ 12, 1 ≤ w ≤ 5, 0 ≤ d ≤ 6) -/
def IsDate (t rest : Bytes) (d : Posix.Date) : Prop :=
  (∃ ds n, t = 74 :: ds ∧ IsNum ds 1 365 n ∧ d = ⟨.J, n, 0, 0⟩ ∧ NextNot IsDigit rest) ∨
  (∃ n, IsNum t 0 365 n ∧ d = ⟨.N, n, 0, 0⟩ ∧ NextNot IsDigit rest) ∨
  (∃ ms ws ds m w wd, t = 77 :: (ms ++ 46 :: (ws ++ 46 :: ds)) ∧
      IsNum ms 1 12 m ∧ IsNum ws 1 5 w ∧ IsNum ds 0 6 wd ∧ d = ⟨.M, m, w, wd⟩ ∧
      NextNot IsDigit rest)

/-- `,date[/time]`; the time is `[+|-]h[:m[:s]]` with hours `0..167`, by default 02:00:00 -/
def IsDateTime (t rest : Bytes) (d : Posix.Date) (tm : Int) : Prop :=
  (∃ dt, t = 44 :: dt ∧ IsDate dt rest d ∧ tm = 7200) ∨
  (∃ dt tt, t = 44 :: (dt ++ 47 :: tt) ∧ IsDate dt (47 :: tt ++ rest) d ∧ IsSignedHms 167 tt rest tm)

/-- `dst [offset] ,date[/time] ,date[/time]` and nothing more.  Offsets are stored with the
POSIX sign reversed (positive = west of Greenwich); the dst offset defaults to one hour ahead of
standard time when the abbreviation is directly followed by the `,` of the first date. -/
def IsDstPart (t : Bytes) (stdOff : Int) (abbr : Bytes) (off : Int) (s e : Posix.Transition) : Prop :=
  ∃ ta to ts te d1 t1 d2 t2,
    t = ta ++ (to ++ (ts ++ te)) ∧
    IsAbbr ta (to ++ (ts ++ te)) abbr ∧
    ((to = [] ∧ off = stdOff + 3600) ∨ (∃ v, IsSignedHms 24 to (ts ++ te) v ∧ off = -v)) ∧
    IsDateTime ts te d1 t1 ∧ IsDateTime te [] d2 t2 ∧
    s = ⟨some d1, some t1⟩ ∧ e = ⟨some d2, some t2⟩

/-- `s` is a POSIX-TZ rule string and `r` is what it means.  Without a dst part the dst fields
of `r` stay at their defaults (empty abbreviation, nothing set). -/
def IsPosixSpec (s : Bytes) (r : Posix.TimeZone) : Prop :=
  (∀ c ∈ s, c ≠ 0) ∧ s.head? ≠ some 58 ∧
  ∃ ta to rest stdAbbr v,
    s = ta ++ (to ++ rest) ∧
    IsAbbr ta (to ++ rest) stdAbbr ∧ IsSignedHms 24 to rest v ∧
    ((rest = [] ∧ r = { stdAbbr := stdAbbr, stdOffset := some (-v) }) ∨
     (∃ dstAbbr dstOff st en, IsDstPart rest (-v) dstAbbr dstOff st en ∧
        r = { stdAbbr := stdAbbr, stdOffset := some (-v), dstAbbr := dstAbbr,
              dstOffset := some dstOff, dstStart := st, dstEnd := en }))

end Cctz.Spec
