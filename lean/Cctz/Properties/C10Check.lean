/-
  C10 (run-time hypothesis check) — the executable checker `TameCheck.tameFullb` that the driver
  evaluates on every zone of a run decides exactly the hypothesis `Qo.Tame'` of the C10 theorems
  (Cctz/Properties/C10Safe.lean).  Hence "the checker answered `true` on this zone" implies, by
  theorem, that no query on that zone raises a flag (no signed overflow, no out-of-range index).
-/
import Cctz.Model.Tz
import Cctz.Model.TameCheck
import Cctz.Spec.TableSem
import Cctz.Spec.TableTame
import Cctz.Proofs.TameCheckSound
import Cctz.Properties.C10Safe
import Cctz.Properties.C12Tables

namespace Cctz.C10Check
open Cctz Cctz.Tz Cctz.Spec

/-- soundness of the checker -/
def checker_sound_statement : Prop := ∀ z, TameCheck.tameFullb z = true → Qo.Tame' z

/-- completeness of the checker: it rejects no tame table -/
def checker_complete_statement : Prop := ∀ z, Qo.Tame' z → TameCheck.tameFullb z = true

/-- a zone that passed the check is safe for every query on every int64 instant and every valid
civil second with an int64 year -/
def checked_zone_safe_statement : Prop :=
  ∀ z h t cs, TameCheck.tameFullb z = true → inI64 t → Spec.Valid cs → inI64 cs.y →
    (Tz.breakTime z h t).ok ∧ (Tz.makeTime z h cs).ok ∧ (Tz.convert z h cs).ok ∧
    (Tz.nextTransition z t).ok ∧ (Tz.prevTransition z t).ok

/-- and the instants `MakeTime` returns for it are `time_point` values -/
def checked_zone_results_in_range_statement : Prop :=
  ∀ z h cs, TameCheck.tameFullb z = true → Spec.Valid cs → inI64 cs.y →
    inI64 (makeTime z h cs).val.1.pre ∧ inI64 (makeTime z h cs).val.1.trans ∧
    inI64 (makeTime z h cs).val.1.post


/-! ## proofs -/

theorem checker_sound : checker_sound_statement := fun z h => TameCheck.tameFullb_sound z h

theorem checker_complete : checker_complete_statement := fun z h => TameCheck.tameFullb_complete z h

theorem checked_zone_safe : checked_zone_safe_statement := fun z h t cs hb ht vcs hy =>
  have tm' : Qo.Tame' z := checker_sound z hb
  have tm : Tame z := tm'.toTame
  ⟨C10Safe.breakTime_ok_partial z h t tm' ht,
   C10Safe.makeTime_ok z h cs tm vcs hy,
   C10Safe.convert_ok z h cs tm vcs hy,
   (C10Safe.transitions_ok z t tm ht).1,
   (C10Safe.transitions_ok z t tm ht).2⟩

theorem checked_zone_results_in_range : checked_zone_results_in_range_statement :=
  fun z h cs hb vcs hy => C10Safe.results_in_range z h cs (checker_sound z hb).toTame vcs hy


/-! ## the hypotheses are satisfiable: concrete tables on which the checker answers `true` -/

/-- the built-in fixed-offset table for UTC+1 (12 entries, one type) -/
example : TameCheck.tameFullb (resetToBuiltinUTC 3600).val = true := by decide +kernel

/-- the two-entry rule-extended table `Qo.zBeyond` (exercises the `extb` clause), and the table
`Qo.zBoundary` one second earlier is rejected -/
example : TameCheck.tameFullb Qo.zBeyond = true ∧ TameCheck.tameFullb Qo.zBoundary = false := by
  decide +kernel

/-- the table loaded from the TZif bytes `C12Tables.sampleFile` (sentinel plus two transitions) -/
example : (match (load {} C12Tables.sampleFile).val with
     | .ok z => TameCheck.tameFullb z
     | _ => false) = true := by decide +kernel

/-- `Qo.boundaryFile` with the footer's last time moved one second later
(`AAA0BBB,J60/0,J338/16:30:08`): `load` yields an 804-entry rule-extended table with
`lastYear = some 2196`, first entry -5517331200 and last entry 7161147008, and `tameFullb` answers
`true` on it, while it answers `false` on the table of `Qo.boundaryFile` itself (checked with `#eval`;
`example : (match (load {} beyondFile).val with | .ok z => TameCheck.tameFullb z | _ => false) = true
:= by decide +kernel` is accepted too, with `maxRecDepth 100000`, but takes about 11 minutes, so it is
not part of the build). -/
def beyondFile : Bytes := Qo.boundaryFile.set 154 56

example : beyondFile.length = 156 ∧ beyondFile.drop 150 = [51, 48, 58, 48, 56, 10] := by
  decide +kernel

/-- so `checked_zone_safe` applies, e.g. at `max()` and at the last civil second of the
largest int64 year -/
example : TameCheck.tameFullb (resetToBuiltinUTC 3600).val = true ∧ inI64 i64max ∧
    Valid ⟨i64max, 12, 31, 23, 59, 59⟩ ∧ inI64 (⟨i64max, 12, 31, 23, 59, 59⟩ : Fields).y :=
  ⟨by decide +kernel, by decide, by decide, by decide⟩

end Cctz.C10Check
