/-
  C20 — Custom zone-data factory: called on the caller's thread, never for UTC / fixed-offset
  names, at most once per name and serially — the last two only when first loads do not race
  (the documented contract does NOT hold for racing first loads: `contract_counterexample`,
  known finding F3 in DESIGN.md).
-/
import Cctz.Model.Loader
import Cctz.Proofs.LoaderInv
import Cctz.Proofs.LoSeq

namespace Cctz.C20
open Cctz Cctz.Loader

def reach (w : World) (names : List Name) (sched : List Nat) : LState := run w (initState names) sched

/-- every invocation is logged by the thread that called load_time_zone for that very name -/
def factory_on_caller_thread_statement : Prop :=
  ∀ (w : World) (names : List Name) (sched : List Nat) (τ : Nat) (n : Name),
    (τ, n) ∈ (reach w names sched).log → ∃ t, (reach w names sched).threads[τ]? = some t ∧ t.name = n

/-- never for UTC, UTC0 or fixed-offset names -/
def factory_never_for_fixed_statement : Prop :=
  ∀ (w : World) (names : List Name) (sched : List Nat) (τ : Nat) (n : Name),
    (τ, n) ∈ (reach w names sched).log → isFixedName n = false ∧ isUtcName n = false

/-- a schedule in which every thread runs its whole load before the next one starts -/
def sequentialSchedule (order : List Nat) : List Nat := order.flatMap fun τ => [τ, τ, τ, τ]

/-- when loads do not overlap the contract holds: at most one invocation per name, never two at once -/
def factory_once_sequential_statement : Prop :=
  ∀ (w : World) (names : List Name) (order : List Nat) (n : Name), order.Nodup →
    (((reach w names (sequentialSchedule order)).log.filter fun e => e.2 == n).length ≤ 1) ∧
    (reach w names (sequentialSchedule order)).maxActive ≤ 1

/-- a repeat load (the name is already in the cache) returns the cached zone in one step and does
not consult the factory — also the cache half of C14 -/
def cached_load_statement : Prop :=
  ∀ (w : World) (s : LState) (τ : Nat) (t : Thread) (id : Ident),
    s.threads[τ]? = some t → t.pc = .init → isUtcName t.name = false → s.map.lookup t.name = some id →
    (step w s τ).log = s.log ∧ (step w s τ).map = s.map ∧
    ((step w s τ).threads[τ]?.map (·.pc)) = some (.done (id != .utc) id)

/-- a name that failed to load keeps failing with UTC, without consulting the factory again -/
def failed_stays_failed_statement : Prop :=
  ∀ (w : World) (s : LState) (τ : Nat) (t : Thread),
    s.threads[τ]? = some t → t.pc = .init → isUtcName t.name = false → s.map.lookup t.name = some .utc →
    (step w s τ).log = s.log ∧ ((step w s τ).threads[τ]?.map (·.pc)) = some (.done false .utc)

/-- the documented clauses "only once for any zone name" and "serially" fail for racing first
loads: two threads loading the same name, both past the first critical section before either
inserts: two invocations for one name, both in progress at once -/
def contract_counterexample_statement : Prop :=
  ∃ (w : World) (names : List Name) (sched : List Nat) (n : Name),
    ((reach w names sched).log.filter fun e => e.2 == n).length = 2 ∧ (reach w names sched).maxActive = 2

/-! ## proofs -/

theorem factory_on_caller_thread : factory_on_caller_thread_statement := by
  intro w names sched τ n h
  exact ((inv_reach w names sched).log τ n h).2

theorem factory_never_for_fixed : factory_never_for_fixed_statement := by
  intro w names sched τ n h
  have hf := ((inv_reach w names sched).log τ n h).1
  exact ⟨hf, isFixed_false_isUtc hf⟩

/-- `order.Nodup` is not even needed: a second block of the same thread is a no-op -/
theorem factory_once_sequential_any_order (w : World) (names : List Name) (order : List Nat)
    (n : Name) :
    (((reach w names (sequentialSchedule order)).log.filter fun e => e.2 == n).length ≤ 1) ∧
    (reach w names (sequentialSchedule order)).maxActive ≤ 1 := by
  have Q := Quiet_sequential w order (Quiet_init names)
  exact ⟨Q.once n, Q.maxA⟩

theorem factory_once_sequential : factory_once_sequential_statement := by
  intro w names order n _
  exact factory_once_sequential_any_order w names order n

theorem cached_load : cached_load_statement := by
  intro w s τ t id h hp hu hl
  have e : step w s τ = setThread s τ { t with pc := .done (id != .utc) id } := by
    unfold step; rw [h]; simp only [hp, hu, hl, Bool.false_eq_true, if_false]
  rw [e]
  refine ⟨rfl, rfl, ?_⟩
  show ((s.threads.set τ _)[τ]?.map (·.pc)) = _
  rw [set_get_self _ h]; rfl

theorem failed_stays_failed : failed_stays_failed_statement := by
  intro w s τ t h hp hu hl
  obtain ⟨a, _, c⟩ := cached_load w s τ t .utc h hp hu hl
  exact ⟨a, c⟩

theorem contract_counterexample : contract_counterexample_statement := by
  refine ⟨{ data := fun _ => none }, [[120], [120]], [0, 1, 0, 1], [120], ?_⟩
  decide +kernel

/-- the hypotheses of `cached_load` / `failed_stays_failed` are satisfiable: after thread 0 has
failed to load "x", thread 1 is at `.init` with the name cached as UTC -/
example : ∃ t, (reach { data := fun _ => none } [[120], [120]] [0, 0, 0, 0]).threads[1]? = some t ∧
    t.pc = .init ∧ isUtcName t.name = false ∧
    List.lookup t.name (reach { data := fun _ => none } [[120], [120]] [0, 0, 0, 0]).map = some .utc := by
  refine ⟨⟨[120], .init⟩, ?_⟩
  decide +kernel

/-- a non-trivial sequential schedule: the factory is consulted exactly once for "x" -/
example : ((reach { data := fun _ => none } [[120], [120], [121]] (sequentialSchedule [2, 0, 1])).log.filter
    fun e => e.2 == [120]).length = 1 := by decide +kernel

end Cctz.C20
