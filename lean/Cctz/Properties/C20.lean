/-
  C20 — Custom zone-data factory: called on the caller's thread, never for UTC / fixed-offset
  names, at most once per name and serially — the last two only when first loads do not race
  (the documented contract does NOT hold for racing first loads: `contract_counterexample`,
  known finding F3 in DESIGN.md).
-/
import Cctz.Model.Loader
import Cctz.Proofs.LoaderInv

namespace Cctz.C20
open Cctz Cctz.Loader

def reach (w : World) (names : List Name) (sched : List Nat) : LState := run w (initState names) sched

/-- every invocation is logged by the thread that called load_time_zone for that very name -/
def factory_on_caller_thread_statement : Prop :=
  ∀ (w : World) (names : List Name) (sched : List Nat) (τ : Nat) (n : Name),
    (τ, n) ∈ (reach w names sched).log → ∃ t, (reach w names sched).threads[τ]? = some t ∧ t.name = n

/-- never for UTC, UTC0 or fixed-offset names -/
def factory_never_for_fixed_statement : Prop :=
  ∀ (w : World) (names : List Name) (sched : List Nat) (τ : Nat) (n : Name),
    (τ, n) ∈ (reach w names sched).log → isFixedName n = false ∧ isUtcName n = false

/-- a schedule in which every thread runs its whole load before the next one starts -/
def sequentialSchedule (order : List Nat) : List Nat := order.flatMap fun τ => [τ, τ, τ, τ]

/-- when loads do not overlap the contract holds: at most one invocation per name, never two at once -/
def factory_once_sequential_statement : Prop :=
  ∀ (w : World) (names : List Name) (order : List Nat) (n : Name), order.Nodup →
    (((reach w names (sequentialSchedule order)).log.filter fun e => e.2 == n).length ≤ 1) ∧
    (reach w names (sequentialSchedule order)).maxActive ≤ 1

/-- a repeat load (the name is already in the cache) returns the cached zone in one step and does
not consult the factory — also the cache half of C14 -/
def cached_load_statement : Prop :=
  ∀ (w : World) (s : LState) (τ : Nat) (t : Thread) (id : Ident),
    s.threads[τ]? = some t → t.pc = .init → isUtcName t.name = false → s.map.lookup t.name = some id →
    (step w s τ).log = s.log ∧ (step w s τ).map = s.map ∧
    ((step w s τ).threads[τ]?.map (·.pc)) = some (.done (id != .utc) id)

/-- a name that failed to load keeps failing with UTC, without consulting the factory again -/
def failed_stays_failed_statement : Prop :=
  ∀ (w : World) (s : LState) (τ : Nat) (t : Thread),
    s.threads[τ]? = some t → t.pc = .init → isUtcName t.name = false → s.map.lookup t.name = some .utc →
    (step w s τ).log = s.log ∧ ((step w s τ).threads[τ]?.map (·.pc)) = some (.done false .utc)

/-- the documented clauses "only once for any zone name" and "serially" fail for racing first
loads: two threads loading the same name, both past the first critical section before either
inserts: two invocations for one name, both in progress at once -/
def contract_counterexample_statement : Prop :=
  ∃ (w : World) (names : List Name) (sched : List Nat) (n : Name),
    ((reach w names sched).log.filter fun e => e.2 == n).length = 2 ∧ (reach w names sched).maxActive = 2

end Cctz.C20
