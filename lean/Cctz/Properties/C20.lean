import Cctz.Model.Loader
namespace Cctz.C20
end Cctz.C20
