/-
  C16 — POSIX-TZ rule strings: the parser accepts exactly the strings of the documented grammar
  (`Cctz.Spec.IsPosixSpec`, a declarative decomposition of the byte string) and assigns them the
  documented meaning; every field the rule evaluation reads is determined by an accepted string.
-/
import Cctz.Model.Posix
import Cctz.Spec.PosixGrammar
import Cctz.Proofs.PosixParse

namespace Cctz.C16
open Cctz Cctz.Bytes

/-- the parser is the grammar: it accepts `s` with result `r` iff `s` is a rule string meaning `r`
(this also ties the bounds extracted from the C++, `Gen.posix_*`, to the documented ones) -/
def parse_iff_statement : Prop :=
  ∀ (s : Bytes) (r : Posix.TimeZone), Posix.parsePosixSpec s = some r ↔ Spec.IsPosixSpec s r

/-- an accepted string leaves no field unset that is read afterwards: the standard offset always,
and with a dst abbreviation also the dst offset and both transitions (date and time) -/
def parse_determined_statement : Prop :=
  ∀ s r, Posix.parsePosixSpec s = some r →
    r.stdOffset.isSome ∧
    (r.dstAbbr ≠ [] → r.dstOffset.isSome ∧ r.dstStart.date.isSome ∧ r.dstStart.time.isSome ∧
      r.dstEnd.date.isSome ∧ r.dstEnd.time.isSome)

/-- documented meanings on concrete rule strings: `M`, `J` and zero-based dates, the 02:00:00
default time, a negative time, quoted abbreviations, the default and an explicit dst offset, the
reversed sign of offsets; and some rejected strings -/
def defaults_statement : Prop :=
  Posix.parsePosixSpec (ofString "EST5EDT,M3.2.0,M11.1.0") =
    some { stdAbbr := ofString "EST", stdOffset := some (-18000), dstAbbr := ofString "EDT",
           dstOffset := some (-14400),
           dstStart := ⟨some ⟨.M, 3, 2, 0⟩, some 7200⟩, dstEnd := ⟨some ⟨.M, 11, 1, 0⟩, some 7200⟩ } ∧
  Posix.parsePosixSpec (ofString "CET-1CEST,J60,J300/3") =
    some { stdAbbr := ofString "CET", stdOffset := some 3600, dstAbbr := ofString "CEST",
           dstOffset := some 7200,
           dstStart := ⟨some ⟨.J, 60, 0, 0⟩, some 7200⟩, dstEnd := ⟨some ⟨.J, 300, 0, 0⟩, some 10800⟩ } ∧
  Posix.parsePosixSpec (ofString "EST5EDT4,0/0,J365/25") =
    some { stdAbbr := ofString "EST", stdOffset := some (-18000), dstAbbr := ofString "EDT",
           dstOffset := some (-14400),
           dstStart := ⟨some ⟨.N, 0, 0, 0⟩, some 0⟩, dstEnd := ⟨some ⟨.J, 365, 0, 0⟩, some 90000⟩ } ∧
  Posix.parsePosixSpec (ofString "<-03>3<-02>,M3.5.0/-2,M10.5.0/-1") =
    some { stdAbbr := ofString "-03", stdOffset := some (-10800), dstAbbr := ofString "-02",
           dstOffset := some (-7200),
           dstStart := ⟨some ⟨.M, 3, 5, 0⟩, some (-7200)⟩, dstEnd := ⟨some ⟨.M, 10, 5, 0⟩, some (-3600)⟩ } ∧
  Posix.parsePosixSpec (ofString "NST3:30NDT1:30:15,M3.2.0/0:01,M11.1.0/+0:01:02") =
    some { stdAbbr := ofString "NST", stdOffset := some (-12600), dstAbbr := ofString "NDT",
           dstOffset := some (-5415),
           dstStart := ⟨some ⟨.M, 3, 2, 0⟩, some 60⟩, dstEnd := ⟨some ⟨.M, 11, 1, 0⟩, some 62⟩ } ∧
  Posix.parsePosixSpec (ofString "<+0530>-5:30") =
    some { stdAbbr := ofString "+0530", stdOffset := some 19800 } ∧
  Posix.parsePosixSpec (ofString "UTC0") = some { stdAbbr := ofString "UTC", stdOffset := some 0 } ∧
  Posix.parsePosixSpec (ofString ":EST5") = none ∧
  Posix.parsePosixSpec (ofString "ES5") = none ∧
  Posix.parsePosixSpec (ofString "EST25") = none ∧
  Posix.parsePosixSpec (ofString "EST5EDT") = none ∧
  Posix.parsePosixSpec (ofString "EST5EDT,M3.2.0") = none ∧
  Posix.parsePosixSpec (ofString "EST5EDT,M13.2.0,M11.1.0") = none ∧
  Posix.parsePosixSpec (ofString "EST5EDT,J0,J300") = none ∧
  Posix.parsePosixSpec (ofString "EST5EDT,M3.2.0/168,M11.1.0") = none ∧
  Posix.parsePosixSpec (ofString "EST5EDT,M3.2.0,M11.1.0 ") = none ∧
  Posix.parsePosixSpec (ofString "EST5:DT,M3.2.0,M11.1.0") = none ∧
  Posix.parsePosixSpec (ofString "EST5:00:DT,M3.2.0,M11.1.0") = none ∧
  Posix.parsePosixSpec (ofString "EST5" ++ [0]) = none

theorem parse_iff : parse_iff_statement :=
  fun s r => ⟨Posix.parse_sound s r, Posix.parse_complete s r⟩

theorem parse_determined : parse_determined_statement := by
  intro s r h
  obtain ⟨_, _, ta, to, rest, stdAbbr, v, _, _, _, hr⟩ := Posix.parse_sound s r h
  rcases hr with ⟨_, rfl⟩ | ⟨dstAbbr, dstOff, st, en, ⟨_, _, _, _, d1, t1, d2, t2, _, _, _, _, _, rfl, rfl⟩, rfl⟩
  · exact ⟨rfl, fun hne => absurd rfl hne⟩
  · exact ⟨rfl, fun _ => ⟨rfl, rfl, rfl, rfl, rfl⟩⟩

theorem defaults : defaults_statement := by
  unfold defaults_statement
  decide +kernel

/-- A `:` directly after a complete `h:m:s` offset is not part of the offset: it starts the
(unquoted) dst abbreviation.  (After `h` or `h:m` a `:` commits to minutes / seconds, see the two
rejected strings in `defaults_statement`.) -/
theorem colon_after_seconds_example :
    Posix.parsePosixSpec (ofString "EST5:00:00:DT,M3.2.0,M11.1.0") =
      some { stdAbbr := ofString "EST", stdOffset := some (-18000), dstAbbr := ofString ":DT",
             dstOffset := some (-14400),
             dstStart := ⟨some ⟨.M, 3, 2, 0⟩, some 7200⟩, dstEnd := ⟨some ⟨.M, 11, 1, 0⟩, some 7200⟩ } := by
  decide +kernel

/-- the grammar relation is inhabited on a non-trivial string (and the hypothesis of
`parse_determined` is satisfiable, with a dst part) -/
example : Spec.IsPosixSpec (ofString "EST5EDT,M3.2.0,M11.1.0")
    { stdAbbr := ofString "EST", stdOffset := some (-18000), dstAbbr := ofString "EDT",
      dstOffset := some (-14400),
      dstStart := ⟨some ⟨.M, 3, 2, 0⟩, some 7200⟩, dstEnd := ⟨some ⟨.M, 11, 1, 0⟩, some 7200⟩ } :=
  (parse_iff _ _).mp (by decide +kernel)

end Cctz.C16
