import Cctz.Model.Posix
namespace Cctz.C16
end Cctz.C16
