/-
  C05 — Civil-time arithmetic and difference are exact inverses in the aligned unit.
-/
import Cctz.Model.Civil
import Cctz.Spec.Gregorian
import Cctz.Proofs.CivilArith

namespace Cctz.C05
open Cctz.Spec

/-- adding `n` moves a civil time by exactly `n` units of its alignment -/
def add_exact_statement : Prop :=
  ∀ (t : Tag) (a : Fields) (n : Int), Valid a → Aligned t a →
    let r := (Civil.civilAdd t a n).val
    Valid r ∧ Aligned t r ∧ unitNum t r = unitNum t a + n

def sub_exact_statement : Prop :=
  ∀ (t : Tag) (a : Fields) (n : Int), Valid a → Aligned t a →
    let r := (Civil.civilSub t a n).val
    Valid r ∧ Aligned t r ∧ unitNum t r = unitNum t a - n

/-- `a - b` is exactly the number of units from `b` to `a` -/
def difference_exact_statement : Prop :=
  ∀ (t : Tag) (a b : Fields), Valid a → Valid b → Aligned t a → Aligned t b →
    (Civil.difference t a b).val = unitNum t a - unitNum t b

/-- the two are inverse -/
def inverse_statement : Prop :=
  ∀ (t : Tag) (a b : Fields) (n : Int), Valid a → Valid b → Aligned t a → Aligned t b →
    (Civil.difference t (Civil.civilAdd t a n).val a).val = n ∧
    (Civil.civilAdd t b (Civil.difference t a b).val).val = a

/-- comparison is the order of the denoted seconds, for any two alignments -/
def lt_iff_statement : Prop :=
  ∀ a b : Fields, Valid a → Valid b →
    (Civil.lt a b = true ↔ secNum a < secNum b) ∧
    (Civil.le a b = true ↔ secNum a ≤ secNum b) ∧
    (Civil.eq a b = true ↔ secNum a = secNum b)

/-- and agrees with the sign of the difference -/
def lt_iff_difference_statement : Prop :=
  ∀ (t : Tag) (a b : Fields), Valid a → Valid b → Aligned t a → Aligned t b →
    (Civil.lt a b = true ↔ (Civil.difference t a b).val < 0)

/-- no avoidable intermediate overflow: when the operands are int64 and the exact result is
representable, no flag is raised (includes `n = INT64_MIN`, years `INT64_MIN/MAX`, differences
equal to `INT64_MIN/MAX`) -/
def add_no_overflow_statement : Prop :=
  ∀ (t : Tag) (a : Fields) (n : Int), Valid a → Aligned t a → inI64 a.y → inI64 n →
    inI64 (Civil.civilAdd t a n).val.y → (Civil.civilAdd t a n).ok

def sub_no_overflow_statement : Prop :=
  ∀ (t : Tag) (a : Fields) (n : Int), Valid a → Aligned t a → inI64 a.y → inI64 n →
    inI64 (Civil.civilSub t a n).val.y → (Civil.civilSub t a n).ok

def difference_no_overflow_statement : Prop :=
  ∀ (t : Tag) (a b : Fields), Valid a → Valid b → Aligned t a → Aligned t b → inI64 a.y → inI64 b.y →
    inI64 (unitNum t a - unitNum t b) → (Civil.difference t a b).ok

/-! ## proofs -/

theorem add_exact : add_exact_statement := by
  intro t a n va ha
  exact civilAdd_spec t a n va ha

theorem sub_exact : sub_exact_statement := by
  intro t a n va ha
  exact civilSub_spec t a n va ha

theorem difference_exact : difference_exact_statement := by
  intro t a b va vb ha hb
  exact difference_val t a b va vb ha hb

theorem inverse : inverse_statement := by
  intro t a b n va vb ha hb
  obtain ⟨v1, al1, u1⟩ := civilAdd_spec t a n va ha
  obtain ⟨v2, al2, u2⟩ := civilAdd_spec t b (Civil.difference t a b).val vb hb
  constructor
  · rw [difference_val t _ a v1 va al1 ha, u1]; omega
  · apply unitNum_inj t v2 va al2 ha
    rw [u2, difference_val t a b va vb ha hb]; omega

theorem lt_iff : lt_iff_statement := by
  intro a b va vb
  exact ⟨lt_iff_secNum va vb, le_iff_secNum va vb, eq_iff_secNum va vb⟩

theorem lt_iff_difference : lt_iff_difference_statement := by
  intro t a b va vb ha hb
  rw [difference_val t a b va vb ha hb, lt_iff_lex, ← unitNum_lt_iff_lex t va vb ha hb]
  omega

theorem add_no_overflow : add_no_overflow_statement := by
  intro t a n va ha hy hn hres
  exact civilAdd_ok t a n va ha hy hn hres

theorem sub_no_overflow : sub_no_overflow_statement := by
  intro t a n va ha hy hn hres
  exact civilSub_ok t a n va ha hy hn hres

theorem difference_no_overflow : difference_no_overflow_statement := by
  intro t a b va vb ha hb hya hyb hr
  exact difference_ok t a b va vb ha hb hya hyb hr

/-- the hypotheses of the no-overflow theorems are satisfiable at the edges of the range -/
example : Valid ⟨9223372036854775807, 12, 31, 23, 59, 59⟩ ∧
    inI64 (Civil.civilSub .second ⟨9223372036854775807, 12, 31, 23, 59, 59⟩ 9223372036854775807).val.y ∧
    inI64 (Civil.civilAdd .day ⟨-9223372036854775808, 1, 1, 0, 0, 0⟩ 9223372036854775807).val.y ∧
    ¬ inI64 (Civil.civilSub .day ⟨9223372036854775807, 1, 1, 0, 0, 0⟩ (-9223372036854775808)).val.y ∧
    inI64 (unitNum .month ⟨384307168202282325, 1, 1, 0, 0, 0⟩ -
      unitNum .month ⟨-384307168202282325, 1, 1, 0, 0, 0⟩) := by
  decide +kernel

/-- the hypotheses are satisfiable on non-trivial values -/
example : Valid ⟨2024, 2, 29, 13, 0, 0⟩ ∧ Aligned .hour ⟨2024, 2, 29, 13, 0, 0⟩ ∧
    Valid ⟨1969, 12, 1, 0, 0, 0⟩ ∧ Aligned .month ⟨1969, 12, 1, 0, 0, 0⟩ := by decide

end Cctz.C05
