/-
  C02 — Civil → instant conversion: UNIQUE / SKIPPED / REPEATED and pre/trans/post (table level,
  the path that takes no 400-year shift; the shift path is `shift_statement`).
-/
import Cctz.Model.Tz
import Cctz.Spec.TableSem
import Cctz.Spec.TableTame
import Cctz.Proofs.TableCivil

namespace Cctz.C02
open Cctz Cctz.Tz Cctz.Spec

/-- the property's wording implies the predicate the case analysis needs -/
def farApart_separated_statement : Prop :=
  ∀ z : Zone, TableWF z → FarApart z →
    (∀ i, i + 1 < z.transitions.size → timeOf z i + offOf z i < timeOf z (i + 1) + offOf z (i + 1)) →
    Separated z

/-- lookup(cs) classifies by the number of instants (over all integers) that display cs, and its
three fields are those instants / the responsible change, clamped to the time_point range.
(`TimesInRange`: the table's instants are int64 values — see `makeTime_needs_TimesInRange`.) -/
def makeTime_statement : Prop :=
  ∀ (z : Zone) (h : Nat) (cs : Fields), TableWF z → CivilCols z → Separated z → TimesInRange z →
    Valid cs → NoShift z cs →
    let r := (makeTime z h cs).val.1
    let x := secNum cs
    match r.kind with
    | .unique => ∃ t, (∀ u, shows z u x ↔ u = t) ∧
        r.pre = clamp64 t ∧ r.trans = clamp64 t ∧ r.post = clamp64 t
    | .skipped => (∀ u, ¬ shows z u x) ∧ ∃ i, i < z.transitions.size ∧
        r.trans = timeOf z i ∧ r.pre = x - offBefore z i ∧ r.post = x - offOf z i ∧
        r.pre ≥ r.trans ∧ r.trans > r.post
    | .repeated => ∃ i, i < z.transitions.size ∧
        (∀ u, shows z u x ↔ u = x - offBefore z i ∨ u = x - offOf z i) ∧
        r.trans = timeOf z i ∧ r.pre = x - offBefore z i ∧ r.post = x - offOf z i ∧
        r.pre < r.trans ∧ r.trans ≤ r.post

/-- the shift path: a civil second after the last generated year (and not before the civil second
of the last table entry — see `shift_needs_after_last`) is looked up 400·s years
earlier and the three instants are moved forward by s cycles with saturation at max() -/
def shift_statement : Prop :=
  ∀ (z : Zone) (h : Nat) (cs : Fields) (ly : Int), TableWF z → CivilSorted z → Valid cs →
    z.extended = true → z.lastYear = some ly → cs.y > ly →
    Civil.lt (trn z (z.transitions.size - 1)).prevCivilSec cs = true →
    Civil.lt cs (trn z (z.transitions.size - 1)).civilSec = false →
    let s := (cs.y - ly - 1) / 400 + 1
    let cs' : Fields := { cs with y := cs.y - 400 * s }
    let r' := (makeTime z h cs').val.1
    let r := (makeTime z h cs).val.1
    ly - 400 < cs'.y ∧ cs'.y ≤ ly ∧ r.kind = r'.kind ∧
    r.pre = (if s > 730692561 ∨ r'.pre + s * 12622780800 > i64max then i64max else r'.pre + s * 12622780800) ∧
    r.trans = (if s > 730692561 ∨ r'.trans + s * 12622780800 > i64max then i64max else r'.trans + s * 12622780800) ∧
    r.post = (if s > 730692561 ∨ r'.post + s * 12622780800 > i64max then i64max else r'.post + s * 12622780800)

end Cctz.C02

namespace Cctz.C02
open Cctz Cctz.Tz Cctz.Spec Cctz.Tc

theorem farApart_separated : farApart_separated_statement := by
  intro z _ far hc i hi
  have h := far i hi
  have hs := offBefore_succ z i
  refine ⟨hc i hi, ?_, ?_⟩ <;> omega

theorem makeTime : makeTime_statement := by
  intro z h cs wf cols sep tir vcs ns
  have ho := makeTime_outcome z h cs wf cols sep vcs ns
  intro r x
  cases ho with
  | unique k hk h1 h2 hr =>
    have hr' : r = mkUnique (uval z k x) := hr
    rw [hr']
    refine ⟨x - offBefore z k, unique_shows wf sep hk h1 h2, ?_⟩
    have := uval_eq_clamp wf tir hk (fun h => (h1 h).1) (fun h => (h2 h).2)
    exact ⟨this, this, this⟩
  | skipped k hk h1 h2 hr =>
    have hr' : r = ⟨.skipped, x - offBefore z k, timeOf z k, x - offOf z k⟩ := hr
    rw [hr']
    refine ⟨skipped_shows wf sep hk h1 h2, k, hk, rfl, rfl, rfl, ?_, ?_⟩
    · show x - offBefore z k ≥ timeOf z k; omega
    · show timeOf z k > x - offOf z k; omega
  | repeated i hi h1 h2 hr =>
    have hr' : r = ⟨.repeated, x - offBefore z i, timeOf z i, x - offOf z i⟩ := hr
    rw [hr']
    refine ⟨i, hi, repeated_shows wf sep hi h1 h2, rfl, rfl, rfl, ?_, ?_⟩
    · show x - offBefore z i < timeOf z i; omega
    · show timeOf z i ≤ x - offOf z i; omega

end Cctz.C02
