/-
  C02 — Civil → instant conversion: UNIQUE / SKIPPED / REPEATED and pre/trans/post (table level,
  the path that takes no 400-year shift; the shift path is `shift_statement`).
-/
import Cctz.Model.Tz
import Cctz.Spec.TableSem
import Cctz.Spec.TableTame
import Cctz.Proofs.TableCivil

namespace Cctz.C02
open Cctz Cctz.Tz Cctz.Spec

/-- the property's wording implies the predicate the case analysis needs -/
def farApart_separated_statement : Prop :=
  ∀ z : Zone, TableWF z → FarApart z →
    (∀ i, i + 1 < z.transitions.size → timeOf z i + offOf z i < timeOf z (i + 1) + offOf z (i + 1)) →
    Separated z

/-- lookup(cs) classifies by the number of instants (over all integers) that display cs, and its
three fields are those instants / the responsible change, clamped to the time_point range.
(`TimesInRange`: the table's instants are int64 values — see `makeTime_needs_TimesInRange`.) -/
def makeTime_statement : Prop :=
  ∀ (z : Zone) (h : Nat) (cs : Fields), TableWF z → CivilCols z → Separated z → TimesInRange z →
    Valid cs → NoShift z cs →
    let r := (makeTime z h cs).val.1
    let x := secNum cs
    match r.kind with
    | .unique => ∃ t, (∀ u, shows z u x ↔ u = t) ∧
        r.pre = clamp64 t ∧ r.trans = clamp64 t ∧ r.post = clamp64 t
    | .skipped => (∀ u, ¬ shows z u x) ∧ ∃ i, i < z.transitions.size ∧
        r.trans = timeOf z i ∧ r.pre = x - offBefore z i ∧ r.post = x - offOf z i ∧
        r.pre ≥ r.trans ∧ r.trans > r.post
    | .repeated => ∃ i, i < z.transitions.size ∧
        (∀ u, shows z u x ↔ u = x - offBefore z i ∨ u = x - offOf z i) ∧
        r.trans = timeOf z i ∧ r.pre = x - offBefore z i ∧ r.post = x - offOf z i ∧
        r.pre < r.trans ∧ r.trans ≤ r.post

/-- the shift path: a civil second after the last generated year (and not before the civil second
of the last table entry — see `shift_needs_after_last`) is looked up 400·s years
earlier and the three instants are moved forward by s cycles with saturation at max() -/
def shift_statement : Prop :=
  ∀ (z : Zone) (h : Nat) (cs : Fields) (ly : Int), TableWF z → CivilSorted z → Valid cs →
    z.extended = true → z.lastYear = some ly → cs.y > ly →
    Civil.lt (trn z (z.transitions.size - 1)).prevCivilSec cs = true →
    Civil.lt cs (trn z (z.transitions.size - 1)).civilSec = false →
    let s := (cs.y - ly - 1) / 400 + 1
    let cs' : Fields := { cs with y := cs.y - 400 * s }
    let r' := (makeTime z h cs').val.1
    let r := (makeTime z h cs).val.1
    ly - 400 < cs'.y ∧ cs'.y ≤ ly ∧ r.kind = r'.kind ∧
    r.pre = (if s > 730692561 ∨ r'.pre + s * 12622780800 > i64max then i64max else r'.pre + s * 12622780800) ∧
    r.trans = (if s > 730692561 ∨ r'.trans + s * 12622780800 > i64max then i64max else r'.trans + s * 12622780800) ∧
    r.post = (if s > 730692561 ∨ r'.post + s * 12622780800 > i64max then i64max else r'.post + s * 12622780800)

end Cctz.C02

namespace Cctz.C02
open Cctz Cctz.Tz Cctz.Spec Cctz.Tc

theorem farApart_separated : farApart_separated_statement := by
  intro z _ far hc i hi
  have h := far i hi
  have hs := offBefore_succ z i
  refine ⟨hc i hi, ?_, ?_⟩ <;> omega

theorem makeTime : makeTime_statement := by
  intro z h cs wf cols sep tir vcs ns
  have ho := makeTime_outcome z h cs wf cols sep vcs ns
  intro r x
  cases ho with
  | unique k hk h1 h2 hr =>
    have hr' : r = mkUnique (uval z k x) := hr
    rw [hr']
    refine ⟨x - offBefore z k, unique_shows wf sep hk h1 h2, ?_⟩
    have := uval_eq_clamp wf tir hk (fun h => (h1 h).1) (fun h => (h2 h).2)
    exact ⟨this, this, this⟩
  | skipped k hk h1 h2 hr =>
    have hr' : r = ⟨.skipped, x - offBefore z k, timeOf z k, x - offOf z k⟩ := hr
    rw [hr']
    refine ⟨skipped_shows wf sep hk h1 h2, k, hk, rfl, rfl, rfl, ?_, ?_⟩
    · show x - offBefore z k ≥ timeOf z k; omega
    · show timeOf z k > x - offOf z k; omega
  | repeated i hi h1 h2 hr =>
    have hr' : r = ⟨.repeated, x - offBefore z i, timeOf z i, x - offOf z i⟩ := hr
    rw [hr']
    refine ⟨i, hi, repeated_shows wf sep hi h1 h2, rfl, rfl, rfl, ?_, ?_⟩
    · show x - offBefore z i < timeOf z i; omega
    · show timeOf z i ≤ x - offOf z i; omega

theorem shift : shift_statement := by
  intro z h cs ly wf cso v hext hly hy hp hl s cs' r' r
  have hcore : (makeTimeCore z h cs).val = (.inr s, h) := core_shift z h cs ly wf cso hext hly hy hp hl
  have hy1 : ly - 400 < cs'.y := by
    show ly - 400 < cs.y - 400 * ((cs.y - ly - 1) / 400 + 1); omega
  have hy2 : cs'.y ≤ ly := by
    show cs.y - 400 * ((cs.y - ly - 1) / 400 + 1) ≤ ly; omega
  have hrd : (rd z.lastYear 0).val = ly := by simp only [hly, rd, Ck.pure_val]
  obtain ⟨cl, h2, hcl⟩ := core_inl z h cs' (by rw [hrd]; omega)
  have e' : r' = cl := by
    show (Tz.makeTime z h cs').val.1 = cl
    rw [makeTime_of_core z h cs' cl h2 hcl]
  have e : r = (timeLocalShift cl s).val := by
    show (Tz.makeTime z h cs).val.1 = _
    rw [makeTime_of_shift z h cs v s cl h2 hcore hcl]
  rw [e, e', timeLocalShift_val]
  exact ⟨hy1, hy2, rfl, rfl, rfl, rfl⟩

/-! ### the hypotheses are satisfiable, and the added ones are needed -/

/-- an ordinary table (gap at 1000000, overlap at 2000000) has every hypothesis, and all three
kinds of answer occur on it -/
example : TableWF zEx ∧ CivilCols zEx ∧ Separated zEx ∧ FarApart zEx ∧ TimesInRange zEx ∧
    Valid ⟨1970, 1, 12, 14, 0, 0⟩ ∧ NoShift zEx ⟨1970, 1, 12, 14, 0, 0⟩ :=
  ⟨zEx_wf, zEx_cols, zEx_sep, zEx_far, zEx_tir, by decide, Or.inl rfl⟩
example : (Tz.makeTime zEx 0 ⟨1970, 1, 12, 14, 0, 0⟩).val.1 = ⟨.skipped, 1000800, 1000000, 997200⟩ := by
  decide +kernel
example : (Tz.makeTime zEx 7 ⟨1970, 1, 24, 4, 0, 0⟩).val.1 = ⟨.repeated, 1998000, 2000000, 2001600⟩ := by
  decide +kernel
example : (Tz.makeTime zEx 1 ⟨1970, 1, 20, 0, 0, 0⟩).val.1 = mkUnique 1638000 := by decide +kernel

/-- the statement without `TimesInRange` fails: on a table whose only entry is at 2^63 + 10 the
civil second just before it is UNIQUE with an instant above max() that is not clamped -/
theorem makeTime_needs_TimesInRange :
    ¬ (∀ (z : Zone) (h : Nat) (cs : Fields), TableWF z → CivilCols z → Separated z → Valid cs → NoShift z cs →
      let r := (Tz.makeTime z h cs).val.1
      let x := secNum cs
      match r.kind with
      | .unique => ∃ t, (∀ u, shows z u x ↔ u = t) ∧
          r.pre = clamp64 t ∧ r.trans = clamp64 t ∧ r.post = clamp64 t
      | .skipped => (∀ u, ¬ shows z u x) ∧ ∃ i, i < z.transitions.size ∧
          r.trans = timeOf z i ∧ r.pre = x - offBefore z i ∧ r.post = x - offOf z i ∧
          r.pre ≥ r.trans ∧ r.trans > r.post
      | .repeated => ∃ i, i < z.transitions.size ∧
          (∀ u, shows z u x ↔ u = x - offBefore z i ∨ u = x - offOf z i) ∧
          r.trans = timeOf z i ∧ r.pre = x - offBefore z i ∧ r.post = x - offOf z i ∧
          r.pre < r.trans ∧ r.trans ≤ r.post) := by
  intro H
  have h := H zBig 0 ⟨292277026596, 12, 4, 15, 30, 17⟩ zBig_wf zBig_cols zBig_sep (by decide) (Or.inl rfl)
  have hr : (Tz.makeTime zBig 0 ⟨292277026596, 12, 4, 15, 30, 17⟩).val.1 = mkUnique 9223372036854775817 := by
    decide +kernel
  simp only [hr, mkUnique] at h
  obtain ⟨t, _, hpre, _⟩ := h
  have := clamp64_le t
  unfold i64max at this
  omega

/-- a table and a civil second with every hypothesis of the shift path -/
example : let z : Zone := { zEx with extended := true, lastYear := some 1970 }
    TableWF z ∧ CivilSorted z ∧ Valid ⟨2375, 6, 1, 0, 0, 0⟩ ∧ z.extended = true ∧ z.lastYear = some 1970 ∧
    (⟨2375, 6, 1, 0, 0, 0⟩ : Fields).y > 1970 ∧
    Civil.lt (trn z (z.transitions.size - 1)).prevCivilSec ⟨2375, 6, 1, 0, 0, 0⟩ = true ∧
    Civil.lt ⟨2375, 6, 1, 0, 0, 0⟩ (trn z (z.transitions.size - 1)).civilSec = false :=
  ⟨⟨zEx_wf.nonempty, zEx_wf.timeSorted, zEx_wf.typeIdx, zEx_wf.defaultIdx⟩, zEx_sorted, by decide, rfl, rfl,
    by decide, by decide, by decide⟩

/-- the statement without "cs is not before the civil second of the last entry" fails: the table
`zLate` claims to cover years up to 0 but its last entry shows year 5000 (previous: 2800); year
3000 is then SKIPPED at that entry without any shift, while 400·8 years earlier it is UNIQUE -/
theorem shift_needs_after_last :
    ¬ (∀ (z : Zone) (h : Nat) (cs : Fields) (ly : Int), TableWF z → CivilSorted z → Valid cs →
      z.extended = true → z.lastYear = some ly → cs.y > ly →
      Civil.lt (trn z (z.transitions.size - 1)).prevCivilSec cs = true →
      let s := (cs.y - ly - 1) / 400 + 1
      let cs' : Fields := { cs with y := cs.y - 400 * s }
      let r' := (Tz.makeTime z h cs').val.1
      let r := (Tz.makeTime z h cs).val.1
      ly - 400 < cs'.y ∧ cs'.y ≤ ly ∧ r.kind = r'.kind ∧
      r.pre = (if s > 730692561 ∨ r'.pre + s * 12622780800 > i64max then i64max else r'.pre + s * 12622780800) ∧
      r.trans = (if s > 730692561 ∨ r'.trans + s * 12622780800 > i64max then i64max else r'.trans + s * 12622780800) ∧
      r.post = (if s > 730692561 ∨ r'.post + s * 12622780800 > i64max then i64max else r'.post + s * 12622780800)) := by
  intro H
  have h := H zLate 0 ⟨3000, 1, 1, 0, 0, 0⟩ 0 zLate_wf zLate_sorted (by decide) rfl rfl (by decide) (by decide)
  have hk := h.2.2.1
  revert hk
  decide +kernel

end Cctz.C02
