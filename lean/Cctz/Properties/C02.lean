import Cctz.Model.Tz
namespace Cctz.C02
end Cctz.C02
