/-
  C07 — format() followed by parse() returns the original instant (model level: the field-level
  round trips that the whole-string round trip is made of, and the whole round trip for %s).
-/
import Cctz.Model.Parse
import Cctz.Spec.FormatSpec
import Cctz.Proofs.RoundTrip

namespace Cctz.C07
open Cctz Cctz.Bytes Cctz.Format Cctz.Parse Cctz.Spec

/-- decimal integers: what format writes for any int64 (including INT64_MIN) parse reads back -/
def int_roundtrip_statement : Prop :=
  ∀ (v : Int) (rest : Bytes), inI64 v → isDigit (rest.headD 0) = false →
    parseInt64 (format64 0 v ++ rest) 0 i64min i64max = some (rest, v)

/-- two-digit fields -/
def field2_roundtrip_statement : Prop :=
  ∀ (v lo hi : Int) (rest : Bytes), 0 ≤ v → v ≤ 99 → lo ≤ v → v ≤ hi → 0 ≤ lo →
    parseInt32 ((format02d v).val ++ rest) 2 lo hi = some (rest, v)

/-- the full-resolution offset (%E*z / %::z) for every offset strictly inside ±24 h -/
def offset_roundtrip_statement : Prop :=
  ∀ (off : Int) (rest : Bytes), -86400 < off → off < 86400 → isDigit (rest.headD 0) = false →
    parseOffset ((formatOffset off [58, 42]).val ++ rest) 58 = some (rest, off)

/-- … and it fails at exactly ±24 h (finding F10: only fixed_time_zone(±24h) has such an offset) -/
def offset_24h_counterexample_statement : Prop :=
  parseOffset (formatOffset 86400 [58, 42]).val 58 = none ∧ parseOffset (formatOffset (-86400) [58, 42]).val 58 = none

/-- the fraction written by %E*S is read back exactly -/
def fraction_roundtrip_statement : Prop :=
  ∀ (fs : Int) (rest : Bytes), 0 < fs → fs < 1000000000000000 → isDigit (rest.headD 0) = false →
    parseSubSeconds (fracStar fs ++ rest) = some (rest, fs)

/-- the whole round trip for %s, for every instant -/
def percent_s_roundtrip_statement : Prop :=
  ∀ (z z' : Tz.Zone) (h : Nat) (t : Int), inI64 t →
    let al := (Tz.breakTime z h t).val.1
    let text := render (fun _ _ => []) (formatSegs (ofString "%s") al t 0).val.1 (formatSegs (ofString "%s") al t 0).val.2
    (parse (fun _ _ _ => none) (ofString "%s") text z').val.1 = .ok t 0

/-! ## Proofs -/

theorem int_roundtrip : int_roundtrip_statement := by
  intro v rest hv hrest
  exact Pa.parseInt64_format64 v rest hv hrest

example : inI64 i64min ∧ isDigit ((ofString " UTC").headD 0) = false := by decide +kernel
example : parseInt64 (format64 0 i64min ++ ofString " UTC") 0 i64min i64max = some (ofString " UTC", i64min) := by
  decide +kernel

theorem field2_roundtrip : field2_roundtrip_statement := by
  intro v lo hi rest h0 h1 h2 h3 _
  exact Pa.parseInt32_format02d v lo hi rest h0 h1 h2 h3

example : parseInt32 ((format02d 7).val ++ ofString "5") 2 1 12 = some (ofString "5", 7) := by decide +kernel

theorem offset_roundtrip : offset_roundtrip_statement := by
  intro off rest h1 h2 _
  exact Rt.parseOffset_formatOffset off rest h1 h2

example : parseOffset ((formatOffset (-86399) [58, 42]).val ++ ofString "x") 58 = some (ofString "x", -86399) := by
  decide +kernel

theorem offset_24h_counterexample : offset_24h_counterexample_statement := by
  unfold offset_24h_counterexample_statement
  decide +kernel

theorem fraction_roundtrip : fraction_roundtrip_statement := by
  intro fs rest h0 h1 hrest
  exact Rt.parseSubSeconds_fracStar fs rest h0 h1 hrest

example : parseSubSeconds (fracStar 120000000000000 ++ ofString "Z") = some (ofString "Z", 120000000000000) := by
  decide +kernel

theorem percent_s_roundtrip : percent_s_roundtrip_statement := by
  intro z z' h t ht
  exact Rt.percent_s_roundtrip _ _ _ z' t 0 ht

example : inI64 i64min ∧ inI64 1709251200 := by decide

end Cctz.C07
