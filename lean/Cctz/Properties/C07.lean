import Cctz.Model.Parse
namespace Cctz.C07
end Cctz.C07
