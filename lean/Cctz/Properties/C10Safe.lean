/-
  C10 (continued) — conversions are total without undefined behaviour on tame tables: no flag at
  all (in particular no signed overflow) for every int64 instant and every civil second with an
  int64 year.  `Tame` is defined in Cctz/Spec/TableTame.lean; the excluded (untame) tables are
  exactly the known findings F4 / F9 / F13 of DESIGN.md.
-/
import Cctz.Model.Tz
import Cctz.Spec.TableSem
import Cctz.Spec.TableTame
import Cctz.Proofs.QueryOk

namespace Cctz.C10Safe
open Cctz Cctz.Tz Cctz.Spec

def breakTime_ok_statement : Prop :=
  ∀ (z : Zone) (h : Nat) (t : Int), Tame z → inI64 t → (breakTime z h t).ok

def makeTime_ok_statement : Prop :=
  ∀ (z : Zone) (h : Nat) (cs : Fields), Tame z → Valid cs → inI64 cs.y → (makeTime z h cs).ok

def convert_ok_statement : Prop :=
  ∀ (z : Zone) (h : Nat) (cs : Fields), Tame z → Valid cs → inI64 cs.y → (convert z h cs).ok

def transitions_ok_statement : Prop :=
  ∀ (z : Zone) (t : Int), Tame z → inI64 t → (nextTransition z t).ok ∧ (prevTransition z t).ok

/-- the results are time_point values: inside int64 -/
def results_in_range_statement : Prop :=
  ∀ (z : Zone) (h : Nat) (cs : Fields), Tame z → Valid cs → inI64 cs.y →
    inI64 (makeTime z h cs).val.1.pre ∧ inI64 (makeTime z h cs).val.1.trans ∧ inI64 (makeTime z h cs).val.1.post


/-! ## proofs

`Tame` is exactly one second too weak for `breakTime_ok_statement`: `Tame.ext` allows the last entry of
a rule-extended table to be *equal* to `INT64_MAX mod kSecsPer400Years = 7161147007`
(2196-12-04 15:30:07 UTC), and then `BreakTime(max())` computes `shift = 730692562` and
`shift * kSecsPer400Years` overflows.  `breakTime_ok_counterexample` exhibits such a tame table;
`breakTime_ok_partial` proves the statement for `Qo.Tame'` (strict inequality), and
`breakTime_ok_below_max` / `breakTime_ok_nonextended` show that on `Tame` tables `max()` on an extended
table is the only failing input.  The other four statements hold for `Tame` as stated. -/

/-- the tame table `Qo.zBoundary` (UTC, sentinel entry, last entry 7161147007, extended up to 2196)
raises `ovf` in `BreakTime(max())` -/
theorem breakTime_ok_counterexample : ¬ breakTime_ok_statement := fun h =>
  Qo.zBoundary_not_ok 0 (h Qo.zBoundary 0 i64max Qo.zBoundary_tame (by decide))

def breakTime_ok_partial_statement : Prop :=
  ∀ (z : Zone) (h : Nat) (t : Int), Qo.Tame' z → inI64 t → (breakTime z h t).ok

theorem breakTime_ok_partial : breakTime_ok_partial_statement := fun _ h t tm ht =>
  Qo.breakTime_ok_of tm.toTame tm.extStrict h t ht

example : Qo.Tame' Qo.zBeyond ∧ inI64 i64max := ⟨Qo.zBeyond_tame', by decide⟩

/-- with `Tame` as given: every instant except `max()` -/
def breakTime_ok_below_max_statement : Prop :=
  ∀ (z : Zone) (h : Nat) (t : Int), Tame z → inI64 t → t < i64max → (breakTime z h t).ok

theorem breakTime_ok_below_max : breakTime_ok_below_max_statement := fun _ h t tm ht hlt =>
  Qo.breakTime_ok_below tm h t ht hlt

example : Tame Qo.zBoundary ∧ inI64 (i64max - 1) ∧ i64max - 1 < i64max :=
  ⟨Qo.zBoundary_tame, by decide, by decide⟩

/-- with `Tame` as given: every instant on tables that are not rule-extended -/
def breakTime_ok_nonextended_statement : Prop :=
  ∀ (z : Zone) (h : Nat) (t : Int), Tame z → z.extended = false → inI64 t → (breakTime z h t).ok

theorem breakTime_ok_nonextended : breakTime_ok_nonextended_statement := fun _ h t tm hne ht =>
  Qo.breakTime_ok_nonext tm hne h t ht

theorem makeTime_ok : makeTime_ok_statement := fun _ h cs tm vcs hy =>
  Qo.makeTime_ok_of tm h cs vcs hy

example : Tame Qo.zBoundary ∧ Valid ⟨i64max, 12, 31, 23, 59, 59⟩ ∧
    inI64 (⟨i64max, 12, 31, 23, 59, 59⟩ : Fields).y := ⟨Qo.zBoundary_tame, by decide, by decide⟩

theorem convert_ok : convert_ok_statement := fun _ h cs tm vcs hy =>
  Qo.convert_ok_of tm h cs vcs hy

theorem transitions_ok : transitions_ok_statement := fun _ t tm _ =>
  ⟨Qo.nextTransition_ok_of tm t, Qo.prevTransition_ok_of tm t⟩

theorem results_in_range : results_in_range_statement := fun _ h cs tm vcs hy =>
  Qo.makeTime_inRange tm h cs vcs hy

end Cctz.C10Safe
