/-
  C10 (continued) — conversions are total without undefined behaviour on tame tables: no flag at
  all (in particular no signed overflow) for every int64 instant and every civil second with an
  int64 year.  `Tame` is defined in Cctz/Spec/TableTame.lean; the excluded (untame) tables are
  exactly the known findings F4 / F9 / F13 of DESIGN.md.
-/
import Cctz.Model.Tz
import Cctz.Spec.TableSem
import Cctz.Spec.TableTame
import Cctz.Proofs.QueryOk

namespace Cctz.C10Safe
open Cctz Cctz.Tz Cctz.Spec

def breakTime_ok_statement : Prop :=
  ∀ (z : Zone) (h : Nat) (t : Int), Tame z → inI64 t → (breakTime z h t).ok

def makeTime_ok_statement : Prop :=
  ∀ (z : Zone) (h : Nat) (cs : Fields), Tame z → Valid cs → inI64 cs.y → (makeTime z h cs).ok

def convert_ok_statement : Prop :=
  ∀ (z : Zone) (h : Nat) (cs : Fields), Tame z → Valid cs → inI64 cs.y → (convert z h cs).ok

def transitions_ok_statement : Prop :=
  ∀ (z : Zone) (t : Int), Tame z → inI64 t → (nextTransition z t).ok ∧ (prevTransition z t).ok

/-- the results are time_point values: inside int64 -/
def results_in_range_statement : Prop :=
  ∀ (z : Zone) (h : Nat) (cs : Fields), Tame z → Valid cs → inI64 cs.y →
    inI64 (makeTime z h cs).val.1.pre ∧ inI64 (makeTime z h cs).val.1.trans ∧ inI64 (makeTime z h cs).val.1.post

end Cctz.C10Safe
