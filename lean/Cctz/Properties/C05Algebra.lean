/-
  C05 (continued) — the algebra a caller relies on when civil-time steps are chained:
  `(a + n) + m = a + (n + m)`, `(a + n) - n = a`, `a - n = a + (-n)`, `a + 0 = a`,
  `(a + n) - (a + m) = n - m`, `b - a = -(a - b)`, the difference chain rule, and "adding is
  strictly monotone".  Each chains two or three modelled operations, so these are statements
  about the model's composition; they are corollaries of the exactness theorems in `C05.lean`
  and of the injectivity of the unit count on valid aligned fields.
-/
import Cctz.Properties.C05

namespace Cctz.C05Algebra
open Cctz.Spec

def add_add_statement : Prop :=
  ∀ (t : Tag) (a : Fields) (n m : Int), Valid a → Aligned t a →
    (Civil.civilAdd t (Civil.civilAdd t a n).val m).val = (Civil.civilAdd t a (n + m)).val

def add_sub_cancel_statement : Prop :=
  ∀ (t : Tag) (a : Fields) (n : Int), Valid a → Aligned t a →
    (Civil.civilSub t (Civil.civilAdd t a n).val n).val = a ∧
    (Civil.civilAdd t (Civil.civilSub t a n).val n).val = a

def sub_eq_add_neg_statement : Prop :=
  ∀ (t : Tag) (a : Fields) (n : Int), Valid a → Aligned t a →
    (Civil.civilSub t a n).val = (Civil.civilAdd t a (-n)).val

def add_zero_statement : Prop :=
  ∀ (t : Tag) (a : Fields), Valid a → Aligned t a →
    (Civil.civilAdd t a 0).val = a ∧ (Civil.civilSub t a 0).val = a

def difference_of_adds_statement : Prop :=
  ∀ (t : Tag) (a : Fields) (n m : Int), Valid a → Aligned t a →
    (Civil.difference t (Civil.civilAdd t a n).val (Civil.civilAdd t a m).val).val = n - m

def difference_antisymm_statement : Prop :=
  ∀ (t : Tag) (a b : Fields), Valid a → Valid b → Aligned t a → Aligned t b →
    (Civil.difference t b a).val = -(Civil.difference t a b).val ∧
    ((Civil.difference t a b).val = 0 ↔ a = b)

def difference_chain_statement : Prop :=
  ∀ (t : Tag) (a b c : Fields), Valid a → Valid b → Valid c → Aligned t a → Aligned t b → Aligned t c →
    (Civil.difference t a c).val = (Civil.difference t a b).val + (Civil.difference t b c).val

/-- adding is strictly monotone in both arguments, as seen by the library's own `<` -/
def add_monotone_statement : Prop :=
  ∀ (t : Tag) (a b : Fields) (n m : Int), Valid a → Valid b → Aligned t a → Aligned t b →
    (Civil.lt (Civil.civilAdd t a n).val (Civil.civilAdd t a m).val = true ↔ n < m) ∧
    (Civil.lt (Civil.civilAdd t a n).val (Civil.civilAdd t b n).val = true ↔ Civil.lt a b = true)

/-! ### proofs -/

theorem add_add : add_add_statement := by
  intro t a n m va ha
  obtain ⟨v1, a1, u1⟩ := C05.add_exact t a n va ha
  obtain ⟨v2, a2, u2⟩ := C05.add_exact t _ m v1 a1
  obtain ⟨v3, a3, u3⟩ := C05.add_exact t a (n + m) va ha
  apply unitNum_inj t v2 v3 a2 a3
  rw [u2, u1, u3]; omega

theorem add_sub_cancel : add_sub_cancel_statement := by
  intro t a n va ha
  obtain ⟨v1, a1, u1⟩ := C05.add_exact t a n va ha
  obtain ⟨v2, a2, u2⟩ := C05.sub_exact t _ n v1 a1
  obtain ⟨v3, a3, u3⟩ := C05.sub_exact t a n va ha
  obtain ⟨v4, a4, u4⟩ := C05.add_exact t _ n v3 a3
  constructor
  · apply unitNum_inj t v2 va a2 ha; rw [u2, u1]; omega
  · apply unitNum_inj t v4 va a4 ha; rw [u4, u3]; omega

theorem sub_eq_add_neg : sub_eq_add_neg_statement := by
  intro t a n va ha
  obtain ⟨v1, a1, u1⟩ := C05.sub_exact t a n va ha
  obtain ⟨v2, a2, u2⟩ := C05.add_exact t a (-n) va ha
  apply unitNum_inj t v1 v2 a1 a2
  rw [u1, u2]; omega

theorem add_zero : add_zero_statement := by
  intro t a va ha
  obtain ⟨v1, a1, u1⟩ := C05.add_exact t a 0 va ha
  obtain ⟨v2, a2, u2⟩ := C05.sub_exact t a 0 va ha
  constructor
  · apply unitNum_inj t v1 va a1 ha; rw [u1]; omega
  · apply unitNum_inj t v2 va a2 ha; rw [u2]; omega

theorem difference_of_adds : difference_of_adds_statement := by
  intro t a n m va ha
  obtain ⟨v1, a1, u1⟩ := C05.add_exact t a n va ha
  obtain ⟨v2, a2, u2⟩ := C05.add_exact t a m va ha
  rw [C05.difference_exact t _ _ v1 v2 a1 a2, u1, u2]; omega

theorem difference_antisymm : difference_antisymm_statement := by
  intro t a b va vb ha hb
  rw [C05.difference_exact t a b va vb ha hb, C05.difference_exact t b a vb va hb ha]
  refine ⟨by omega, ?_, ?_⟩
  · intro h; exact unitNum_inj t va vb ha hb (by omega)
  · intro h; subst h; omega

theorem difference_chain : difference_chain_statement := by
  intro t a b c va vb vc ha hb hc
  rw [C05.difference_exact t a c va vc ha hc, C05.difference_exact t a b va vb ha hb,
    C05.difference_exact t b c vb vc hb hc]
  omega

theorem add_monotone : add_monotone_statement := by
  intro t a b n m va vb ha hb
  obtain ⟨v1, a1, u1⟩ := C05.add_exact t a n va ha
  obtain ⟨v2, a2, u2⟩ := C05.add_exact t a m va ha
  obtain ⟨v3, a3, u3⟩ := C05.add_exact t b n vb hb
  constructor
  · rw [C05.lt_iff_difference t _ _ v1 v2 a1 a2, C05.difference_exact t _ _ v1 v2 a1 a2, u1, u2]; omega
  · rw [C05.lt_iff_difference t _ _ v1 v3 a1 a3, C05.difference_exact t _ _ v1 v3 a1 a3, u1, u3,
      C05.lt_iff_difference t a b va vb ha hb, C05.difference_exact t a b va vb ha hb]; omega

/-! satisfiable, and non-trivial: a month step across a year end and a leap day -/
example : Valid ⟨2023, 12, 1, 0, 0, 0⟩ ∧ Aligned .month ⟨2023, 12, 1, 0, 0, 0⟩ ∧
    (Civil.civilAdd .month (Civil.civilAdd .month ⟨2023, 12, 1, 0, 0, 0⟩ 2).val (-14)).val = ⟨2022, 12, 1, 0, 0, 0⟩ ∧
    (Civil.civilSub .day (Civil.civilAdd .day ⟨2024, 2, 28, 0, 0, 0⟩ 2).val 2).val = ⟨2024, 2, 28, 0, 0, 0⟩ := by
  decide +kernel

end Cctz.C05Algebra
