/-
  C01 (decoding) — the TZif loader decodes what tzfile(5) / RFC 8536 says the file means.

  The meaning of a TZif byte string is given declaratively in Cctz/Spec/TzifSem.lean (`IsTzif`:
  the file is a concatenation of headers, blocks and a footer; `TzData`: its content; `Acceptable`:
  what cctz requires of the content; `tableOf`, `specDefaultType`: the table cctz is documented to
  build).  The theorems relate the cursor-style loader `Tz.load` to that meaning.
-/
import Cctz.Model.Tz
import Cctz.Spec.TzifSem
import Cctz.Proofs.DecodeLemmas
import Cctz.Proofs.DcMain

namespace Cctz.C01Decode
open Cctz Cctz.Tz Cctz.Spec

/-- `Decode32/64` are the big-endian two's-complement readings of the specification (for every byte
string, also one shorter than 4/8 bytes), these are 32/64-bit values, and four given bytes have the
value the format says -/
def decode_statement : Prop :=
  (∀ b : Bytes, be32 b = decode32 b ∧ be64 b = decode64 b) ∧
  (∀ b : Bytes, -2147483648 ≤ be32 b ∧ be32 b ≤ 2147483647) ∧
  (∀ b : Bytes, -9223372036854775808 ≤ be64 b ∧ be64 b ≤ 9223372036854775807) ∧
  (∀ (a b c d : UInt8) (rest : Bytes),
    be32 (a :: b :: c :: d :: rest) =
      (a.toNat * 16777216 + b.toNat * 65536 + c.toNat * 256 + d.toNat : Nat) -
        (if a.toNat < 128 then 0 else 4294967296 : Int))

/-- a successful load decodes the file: the byte string is a TZif file in the sense of the
specification, with a content `d` cctz accepts, and the zone returned carries that content: the
footer; the type records (as the first `typecnt` entries of the type table; `ExtendTransitions` may
append up to two types); the abbreviations (as a prefix; `ExtendTransitions` may append); the
(time, type) table `tableOf d` (as a prefix: what follows are the entries generated from the footer
rule and possibly the 2^31-1 sentinel); and the before-first-transition type. -/
def load_decodes_statement : Prop :=
  ∀ (cfg : LoadCfg) (b : Bytes) (z : Zone), (load cfg b).val = .ok z →
    ∃ (hdr : Hdr) (d : TzData),
      IsTzif b hdr d ∧ Acceptable hdr d ∧
      z.futureSpec = d.footer ∧
      (z.types.toList.take d.types.length).map (fun t => (t.utcOffset, t.isDst, t.abbrIndex)) = d.types ∧
      d.abbrs <+: z.abbreviations ∧
      tableOf d z.defaultType <+: z.transitions.toList.map (fun t => (t.unixTime, t.typeIndex)) ∧
      z.defaultType = specDefaultType d

/-! ### proofs (helper lemmas: Cctz/Proofs/DecodeLemmas.lean and Cctz/Proofs/Dc*.lean) -/

theorem decode : decode_statement :=
  ⟨fun b => ⟨Dc.be32_eq b, Dc.be64_eq b⟩, Dc.be32_range, Dc.be64_range, Dc.be32_four⟩

theorem load_decodes : load_decodes_statement := Dc.load_decodes

/-! ### sanity: values, and the hypotheses are satisfiable -/

example : be32 [0xff, 0xff, 0xff, 0xfe] = -2 ∧ be32 [0, 0, 0x0e, 0x10] = 3600 ∧
    be64 [0xff, 0xff, 0xff, 0xff, 0x80, 0, 0, 0] = -2147483648 := by decide

/-- a version-2 TZif file: an (ignored) 32-bit block with one type, then a 64-bit block with two
transitions (at 3600 to a DST type of offset +1h, at 65536 back to type 0), two types, the
designations "UTC", "DST", and the footer "UTC0" -/
def sampleFile : Bytes :=
  -- first header and block (version '2'; 0 transitions, 1 type, 4 designation bytes)
  [84, 90, 105, 102, 50] ++ List.replicate 15 0 ++
  [0,0,0,0, 0,0,0,0, 0,0,0,0, 0,0,0,0, 0,0,0,1, 0,0,0,4] ++
  [0,0,0,0, 0, 0] ++ [85, 84, 67, 0] ++
  -- second header and block (2 transitions, 2 types, 8 designation bytes)
  [84, 90, 105, 102, 50] ++ List.replicate 15 0 ++
  [0,0,0,0, 0,0,0,0, 0,0,0,0, 0,0,0,2, 0,0,0,2, 0,0,0,8] ++
  [0,0,0,0,0,0,14,16, 0,0,0,0,0,1,0,0] ++ [1, 0] ++ [0,0,0,0, 0, 0] ++ [0,0,14,16, 1, 4] ++
  [85, 84, 67, 0, 68, 83, 84, 0] ++
  -- footer
  [10, 85, 84, 67, 48, 10]

/-- the hypothesis of `load_decodes` holds of it: it loads (without a flag) into a table of three
entries, the first sentinel and the two transitions -/
example : (load {} sampleFile).ok ∧
    (match (load {} sampleFile).val with
     | .ok z => z.transitions.size == 3 && z.types.size == 2 && z.futureSpec == [85, 84, 67, 48]
     | _ => false) = true := by decide +kernel

end Cctz.C01Decode
