/-
  C01 (decoding) — the TZif loader decodes what tzfile(5) / RFC 8536 says the file means.

  The meaning of a TZif byte string is given declaratively in Cctz/Spec/TzifSem.lean (`IsTzif`:
  the file is a concatenation of headers, blocks and a footer; `TzData`: its content; `Acceptable`:
  what cctz requires of the content; `tableOf`, `specDefaultType`: the table cctz is documented to
  build).  The theorems relate the cursor-style loader `Tz.load` to that meaning.
-/
import Cctz.Model.Tz
import Cctz.Spec.TzifSem
import Cctz.Proofs.DecodeLemmas
import Cctz.Proofs.DcMain
import Cctz.Proofs.DcAccept
import Cctz.Proofs.DcUnique

namespace Cctz.C01Decode
open Cctz Cctz.Tz Cctz.Spec

/-- `Decode32/64` are the big-endian two's-complement readings of the specification (for every byte
string, also one shorter than 4/8 bytes), these are 32/64-bit values, and four given bytes have the
value the format says -/
def decode_statement : Prop :=
  (∀ b : Bytes, be32 b = decode32 b ∧ be64 b = decode64 b) ∧
  (∀ b : Bytes, -2147483648 ≤ be32 b ∧ be32 b ≤ 2147483647) ∧
  (∀ b : Bytes, -9223372036854775808 ≤ be64 b ∧ be64 b ≤ 9223372036854775807) ∧
  (∀ (a b c d : UInt8) (rest : Bytes),
    be32 (a :: b :: c :: d :: rest) =
      (a.toNat * 16777216 + b.toNat * 65536 + c.toNat * 256 + d.toNat : Nat) -
        (if a.toNat < 128 then 0 else 4294967296 : Int))

/-- a successful load decodes the file: the byte string is a TZif file in the sense of the
specification, with a content `d` cctz accepts, and the zone returned carries that content: the
footer; the type records (as the first `typecnt` entries of the type table; `ExtendTransitions` may
append up to two types); the abbreviations (as a prefix; `ExtendTransitions` may append); the
(time, type) table `tableOf d` (as a prefix: what follows are the entries generated from the footer
rule and possibly the 2^31-1 sentinel); and the before-first-transition type. -/
def load_decodes_statement : Prop :=
  ∀ (cfg : LoadCfg) (b : Bytes) (z : Zone), (load cfg b).val = .ok z →
    ∃ (hdr : Hdr) (d : TzData),
      IsTzif b hdr d ∧ Acceptable hdr d ∧
      z.futureSpec = d.footer ∧
      (z.types.toList.take d.types.length).map (fun t => (t.utcOffset, t.isDst, t.abbrIndex)) = d.types ∧
      d.abbrs <+: z.abbreviations ∧
      tableOf d z.defaultType <+: z.transitions.toList.map (fun t => (t.unixTime, t.typeIndex)) ∧
      z.defaultType = specDefaultType d

/-- the specification reads a byte string in at most one way: header counts and content are
functions of the bytes (so "the content of the file" in `load_decodes` is well defined, and the
statement also holds for every reading, `load_decodes_any`) -/
def isTzif_unique_statement : Prop :=
  ∀ (b : Bytes) (hdr hdr' : Hdr) (d d' : TzData), IsTzif b hdr d → IsTzif b hdr' d' → hdr = hdr' ∧ d = d'

def load_decodes_any_statement : Prop :=
  ∀ (cfg : LoadCfg) (b : Bytes) (z : Zone) (hdr : Hdr) (d : TzData),
    (load cfg b).val = .ok z → IsTzif b hdr d →
      Acceptable hdr d ∧
      z.futureSpec = d.footer ∧
      (z.types.toList.take d.types.length).map (fun t => (t.utcOffset, t.isDst, t.abbrIndex)) = d.types ∧
      d.abbrs <+: z.abbreviations ∧
      tableOf d z.defaultType <+: z.transitions.toList.map (fun t => (t.unixTime, t.typeIndex)) ∧
      z.defaultType = specDefaultType d

/-! ### the converse direction: which files load -/

/-- the table `Load` hands to `ExtendTransitions` for a file with content `d`: `tableOf d` with the
before-first-transition type `specDefaultType d`, the file's type records, designations and footer -/
def initialZone (d : TzData) : Zone :=
  { transitions := ((tableOf d (specDefaultType d)).map fun p =>
      ({ unixTime := p.1, typeIndex := p.2 } : Transition)).toArray
    types := (d.types.map fun t =>
      ({ utcOffset := t.1, isDst := t.2.1, abbrIndex := t.2.2 } : TransitionType)).toArray
    defaultType := specDefaultType d
    abbreviations := d.abbrs
    futureSpec := d.footer }

/-- the second-half sentinel `Load` appends after `ExtendTransitions` when the last time is negative -/
def addSecondSentinel (z : Zone) : Zone :=
  let last := (getTrans z (z.transitions.size - 1)).val
  if last.unixTime < 0 then
    { z with transitions := z.transitions.push { unixTime := Gen.sentinelSecond, typeIndex := last.typeIndex } }
  else z

/-- the rest of `Load` on that table: the footer rule (`ExtendTransitions`), the second sentinel, the
civil-second columns with their order check (`fillCivil`) and the per-type columns (`fillTypes`) -/
def finish (z0 : Zone) : LoadResult :=
  match (extendTransitions z0).val with
  | none => .fail
  | some z1 =>
    match (fillCivil (addSecondSentinel z1)).val with
    | none => .fail
    | some z3 => .ok (fillTypes z3).val

/-- `ExtendTransitions` accepts the footer of `d` (it parses as a POSIX-TZ rule that agrees with the
last type of the table, and there is room for its types) -/
def FooterAccepted (d : TzData) : Prop := (extendTransitions (initialZone d)).val ≠ none

/-- the `ByCivilTime` order check on the extended table does not fail -/
def CivilOrderAccepted (d : TzData) : Prop :=
  ∀ z1, (extendTransitions (initialZone d)).val = some z1 → (fillCivil (addSecondSentinel z1)).val ≠ none

/-- the data block fits the model's memory bound (`Load` reads the 32-bit block of a version-1 file,
the 64-bit block otherwise) -/
def FitsMemory (cfg : LoadCfg) (hdr : Hdr) (d : TzData) : Prop :=
  blockLen (if d.version = 0 then 4 else 8) hdr ≤ cfg.maxDataLen

/-- the result of loading a TZif file whose content cctz accepts is a function of the content alone
(not of the bytes `Load` skips: the 32-bit block of a version-2+ file, the unused parts of the
headers and of the block, whatever follows the file; nor of what `Skip` past the end would answer) -/
def load_content_statement : Prop :=
  ∀ (cfg : LoadCfg) (b : Bytes) (hdr : Hdr) (d : TzData),
    IsTzif b hdr d → Acceptable hdr d → FitsMemory cfg hdr d →
      (load cfg b).val = finish (initialZone d)

/-- a structurally valid, acceptable file is only ever rejected because of its footer or by the
civil-order check: if `Load` fails, the byte string is not a TZif file with acceptable content whose
footer `ExtendTransitions` accepts and whose extended table passes the order check.  (Holds whatever
the source answers to a `Skip` past the end; no assumption on `cfg.skipPastEndOk` is needed.) -/
def load_rejects_statement : Prop :=
  ∀ (cfg : LoadCfg) (b : Bytes), (load cfg b).val = .fail →
    ¬ ∃ (hdr : Hdr) (d : TzData), IsTzif b hdr d ∧ Acceptable hdr d ∧ FitsMemory cfg hdr d ∧
        FooterAccepted d ∧ CivilOrderAccepted d

/-- every TZif file WITHOUT a footer rule (a version-1 file, or a version-2+ file with an empty
footer) whose content cctz accepts and whose offset changes do not cross each other
(`CivilOrderOK`, Cctz/Spec/TzifSem.lean) loads successfully.  Files with a non-empty footer are not
covered by this statement (for them see `load_rejects_statement`, which leaves the footer conditions
at the level of the model's `ExtendTransitions`). -/
def load_accepts_statement : Prop :=
  ∀ (cfg : LoadCfg) (b : Bytes) (hdr : Hdr) (d : TzData),
    IsTzif b hdr d → Acceptable hdr d → FitsMemory cfg hdr d → d.footer = [] → CivilOrderOK d →
      ∃ z, (load cfg b).val = .ok z

/-- cctz's before-first-transition type is not always RFC 8536's ("time type 0", §3.2): for the file
below, in which type 0 is a DST type used by a transition, `Load` chooses type 1 (the rule of older
tzcode `localtime.c`, and the code's documented intent) -/
def default_type_rfc_counterexample_statement : Prop :=
  ∃ (b : Bytes) (z : Zone), (load {} b).val = .ok z ∧ z.defaultType = 1

/-! ### proofs (helper lemmas: Cctz/Proofs/DecodeLemmas.lean and Cctz/Proofs/Dc*.lean) -/

theorem decode : decode_statement :=
  ⟨fun b => ⟨Dc.be32_eq b, Dc.be64_eq b⟩, Dc.be32_range, Dc.be64_range, Dc.be32_four⟩

theorem load_decodes : load_decodes_statement := Dc.load_decodes

theorem isTzif_unique : isTzif_unique_statement := Dc.isTzif_unique

theorem load_decodes_any : load_decodes_any_statement := by
  intro cfg b z hdr d hl hT
  obtain ⟨hdr', d', hT', hrest⟩ := load_decodes cfg b z hl
  obtain ⟨rfl, rfl⟩ := isTzif_unique b hdr hdr' d d' hT hT'
  exact hrest

theorem initialZone_eq (d : TzData) (hlen : d.times.length = d.idxs.length) :
    Dc.zoneOf d = initialZone d := by
  unfold Dc.zoneOf Dc.zone0 initialZone
  rw [Dc.withFirst_eq d _ hlen]
  rfl

theorem finish_eq (z0 : Zone) : Dc.finishVal z0 = finish z0 := rfl

theorem load_content : load_content_statement := by
  intro cfg b hdr d hT hA hM
  have hl := Dc.isTzif_lengths b hdr d hT
  rw [Dc.load_of_tzif cfg b hdr d hT hA hM, initialZone_eq d (hl.1.trans hl.2.1.symm), finish_eq]

theorem load_rejects : load_rejects_statement := by
  rintro cfg b hfail ⟨hdr, d, hT, hA, hM, hF, hC⟩
  rw [load_content cfg b hdr d hT hA hM] at hfail
  unfold finish at hfail
  split at hfail
  · rename_i h1; exact hF h1
  · rename_i z1 h1
    split at hfail
    · rename_i h3; exact hC z1 h1 h3
    · cases hfail

theorem load_accepts : load_accepts_statement := by
  intro cfg b hdr d hT hA hM hf hc
  have hl := Dc.isTzif_lengths b hdr d hT
  obtain ⟨z, hz⟩ := Dc.accept_nofooter d (hl.1.trans hl.2.1.symm) hf hc
  exact ⟨z, by rw [Dc.load_of_tzif cfg b hdr d hT hA hM, hz]⟩

/-- a version-1 file whose type 0 is a DST type used by the second transition -/
def dstFirstFile : Bytes :=
  [84, 90, 105, 102, 0] ++ List.replicate 15 0 ++
  [0,0,0,0, 0,0,0,0, 0,0,0,0, 0,0,0,2, 0,0,0,2, 0,0,0,8] ++
  [0,0,14,16, 0,1,0,0] ++ [1, 0] ++ [0,0,14,16, 1, 4] ++ [0,0,0,0, 0, 0] ++
  [85, 84, 67, 0, 68, 83, 84, 0]

theorem default_type_rfc_counterexample : default_type_rfc_counterexample_statement := by
  refine ⟨dstFirstFile, ?_⟩
  cases h : (load {} dstFirstFile).val with
  | ok z =>
    refine ⟨z, rfl, ?_⟩
    have : (match (load {} dstFirstFile).val with | .ok z => z.defaultType == 1 | _ => false) = true := by
      decide +kernel
    rw [h] at this
    simpa using this
  | fail =>
    have : (match (load {} dstFirstFile).val with | .ok _ => true | _ => false) = true := by
      decide +kernel
    rw [h] at this
    cases this
  | tooLarge =>
    have : (match (load {} dstFirstFile).val with | .ok _ => true | _ => false) = true := by
      decide +kernel
    rw [h] at this
    cases this

/-! ### sanity: values, and the hypotheses are satisfiable -/

example : be32 [0xff, 0xff, 0xff, 0xfe] = -2 ∧ be32 [0, 0, 0x0e, 0x10] = 3600 ∧
    be64 [0xff, 0xff, 0xff, 0xff, 0x80, 0, 0, 0] = -2147483648 := by decide

/-- a version-2 TZif file: an (ignored) 32-bit block with one type, then a 64-bit block with two
transitions (at 3600 to a DST type of offset +1h, at 65536 back to type 0), two types, the
designations "UTC", "DST", and the footer "UTC0" -/
def sampleFile : Bytes :=
  -- first header and block (version '2'; 0 transitions, 1 type, 4 designation bytes)
  [84, 90, 105, 102, 50] ++ List.replicate 15 0 ++
  [0,0,0,0, 0,0,0,0, 0,0,0,0, 0,0,0,0, 0,0,0,1, 0,0,0,4] ++
  [0,0,0,0, 0, 0] ++ [85, 84, 67, 0] ++
  -- second header and block (2 transitions, 2 types, 8 designation bytes)
  [84, 90, 105, 102, 50] ++ List.replicate 15 0 ++
  [0,0,0,0, 0,0,0,0, 0,0,0,0, 0,0,0,2, 0,0,0,2, 0,0,0,8] ++
  [0,0,0,0,0,0,14,16, 0,0,0,0,0,1,0,0] ++ [1, 0] ++ [0,0,0,0, 0, 0] ++ [0,0,14,16, 1, 4] ++
  [85, 84, 67, 0, 68, 83, 84, 0] ++
  -- footer
  [10, 85, 84, 67, 48, 10]

/-- the hypothesis of `load_decodes` holds of it: it loads (without a flag) into a table of three
entries, the first sentinel and the two transitions -/
example : (load {} sampleFile).ok ∧
    (match (load {} sampleFile).val with
     | .ok z => z.transitions.size == 3 && z.types.size == 2 && z.futureSpec == [85, 84, 67, 48]
     | _ => false) = true := by decide +kernel

/-- the content of the 64-bit block of `sampleFile`, its header, and its parts -/
def sampleData : TzData :=
  { times := [3600, 65536], idxs := [1, 0], types := [(0, false, 0), (3600, true, 4)],
    abbrs := [85, 84, 67, 0, 68, 83, 84, 0], footer := [85, 84, 67, 48], version := 50 }
def sampleHdr : Hdr := ⟨0, 0, 0, 2, 2, 8⟩
def sampleH1 : Bytes :=
  [84, 90, 105, 102, 50] ++ List.replicate 15 0 ++
  [0,0,0,0, 0,0,0,0, 0,0,0,0, 0,0,0,0, 0,0,0,1, 0,0,0,4]
def sampleH2 : Bytes :=
  [84, 90, 105, 102, 50] ++ List.replicate 15 0 ++
  [0,0,0,0, 0,0,0,0, 0,0,0,0, 0,0,0,2, 0,0,0,2, 0,0,0,8]

/-- `sampleFile` is a version-2 TZif file with content `sampleData` in the sense of the specification -/
theorem sample_isTzif : IsTzif sampleFile sampleHdr sampleData := by
  refine Or.inr ⟨sampleH1, ⟨0, 0, 0, 0, 1, 4⟩, 50, [0,0,0,0, 0, 0] ++ [85, 84, 67, 0], sampleH2,
    [0,0,0,0,0,0,14,16, 0,0,0,0,0,1,0,0] ++ [1, 0] ++ [0,0,0,0, 0, 0] ++ [0,0,14,16, 1, 4] ++
      [85, 84, 67, 0, 68, 83, 84, 0],
    [85, 84, 67, 48], [], by decide, by unfold IsHeader; decide, by decide, by decide,
    by unfold IsHeader; decide, by decide, ?_, by decide, rfl⟩
  exact ⟨by decide, [[0,0,0,0,0,0,14,16], [0,0,0,0,0,1,0,0]], [1, 0],
    [[0,0,0,0, 0, 0], [0,0,14,16, 1, 4]], [], [], [], by decide, by decide, by decide, by decide,
    by decide, by decide, by decide, by decide, by decide, by decide, by decide, by decide, by decide⟩

theorem sample_acceptable : Acceptable sampleHdr sampleData :=
  ⟨by decide, by decide, by decide, by decide, by decide, by decide, by decide, by decide⟩

/-- the hypotheses of `load_content` and the inner conditions of `load_rejects` hold of `sampleFile` -/
example : IsTzif sampleFile sampleHdr sampleData ∧ Acceptable sampleHdr sampleData ∧
    FitsMemory {} sampleHdr sampleData ∧ FooterAccepted sampleData ∧ CivilOrderAccepted sampleData := by
  refine ⟨sample_isTzif, sample_acceptable, by unfold FitsMemory; decide, ?_, ?_⟩
  · intro h
    have : (extendTransitions (initialZone sampleData)).val.isSome = true := by decide +kernel
    rw [h] at this
    cases this
  · intro z1 h1 h3
    have : (match (extendTransitions (initialZone sampleData)).val with
      | some z1 => (fillCivil (addSecondSentinel z1)).val.isSome
      | none => false) = true := by decide +kernel
    rw [h1] at this
    dsimp only at this
    rw [h3] at this
    cases this

/-- the hypothesis of `load_rejects` is satisfiable: the empty byte string is rejected -/
example : (load {} []).val = .fail := rfl

/-- the same content as a version-1 file (no footer) -/
def sampleFileV1 : Bytes :=
  [84, 90, 105, 102, 0] ++ List.replicate 15 0 ++
  [0,0,0,0, 0,0,0,0, 0,0,0,0, 0,0,0,2, 0,0,0,2, 0,0,0,8] ++
  [0,0,14,16, 0,1,0,0] ++ [1, 0] ++ [0,0,0,0, 0, 0] ++ [0,0,14,16, 1, 4] ++
  [85, 84, 67, 0, 68, 83, 84, 0]
def sampleDataV1 : TzData := { sampleData with footer := [], version := 0 }

/-- the hypotheses of `load_accepts` hold of it -/
example : IsTzif sampleFileV1 sampleHdr sampleDataV1 ∧ Acceptable sampleHdr sampleDataV1 ∧
    FitsMemory {} sampleHdr sampleDataV1 ∧ sampleDataV1.footer = [] ∧ CivilOrderOK sampleDataV1 := by
  refine ⟨Or.inl ⟨[84, 90, 105, 102, 0] ++ List.replicate 15 0 ++
      [0,0,0,0, 0,0,0,0, 0,0,0,0, 0,0,0,2, 0,0,0,2, 0,0,0,8],
    [0,0,14,16, 0,1,0,0] ++ [1, 0] ++ [0,0,0,0, 0, 0] ++ [0,0,14,16, 1, 4] ++
      [85, 84, 67, 0, 68, 83, 84, 0], [], by decide, by unfold IsHeader; decide, ?_, rfl, rfl⟩,
    ⟨by decide, by decide, by decide, by decide, by decide, by decide, by decide, by decide⟩,
    by unfold FitsMemory; decide, rfl, by unfold CivilOrderOK; decide⟩
  exact ⟨by decide, [[0,0,14,16], [0,1,0,0]], [1, 0],
    [[0,0,0,0, 0, 0], [0,0,14,16, 1, 4]], [], [], [], by decide, by decide, by decide, by decide,
    by decide, by decide, by decide, by decide, by decide, by decide, by decide, by decide, by decide⟩

end Cctz.C01Decode
