import Cctz.Model.Fixed
import Cctz.Model.Tz
namespace Cctz.C15
end Cctz.C15
