/-
  C15 — Fixed-offset zones and their names are exact for every offset within 24 hours.
  (The lookup half — `breakTime (resetToBuiltinUTC off)` reports exactly `off`, no DST, the numeric
  abbreviation at every instant — is `fixed_lookup_statement`, proved from the table lemmas.)
-/
import Cctz.Model.Fixed
import Cctz.Model.Tz
import Cctz.Spec.Gregorian
import Cctz.Proofs.FixedNames

namespace Cctz.C15
open Cctz Cctz.Bytes

/-- two ASCII digits of `n` (0 ≤ n ≤ 99) -/
def twoDigits (n : Int) : Bytes := [UInt8.ofNat (48 + (n / 10).toNat), UInt8.ofNat (48 + (n % 10).toNat)]

/-- the documented canonical name `Fixed/UTC±hh:mm:ss` of a non-zero offset within 24 h -/
def canonicalName (off : Int) : Bytes :=
  let a := off.natAbs
  ofString "Fixed/UTC" ++ [if off < 0 then 45 else 43] ++ twoDigits (a / 3600) ++ [58] ++
    twoDigits (a / 60 % 60) ++ [58] ++ twoDigits (a % 60)

/-- sign and two-digit hours, followed by minutes, and by seconds, only as far as they are non-zero -/
def canonicalAbbr (off : Int) : Bytes :=
  let a := off.natAbs
  [if off < 0 then 45 else 43] ++ twoDigits (a / 3600) ++
    (if a % 3600 = 0 then [] else twoDigits (a / 60 % 60) ++ (if a % 60 = 0 then [] else twoDigits (a % 60)))

def isDigitByte (c : UInt8) : Prop := 48 ≤ c ∧ c ≤ 57
def digitVal (c : UInt8) : Int := c.toNat - 48

/-- `s` has exactly the shape `Fixed/UTC±hh:mm:ss` (all six `h m s` characters digits) and `total`
is the number of seconds it spells -/
def HasShape (s : Bytes) (neg : Bool) (total : Int) : Prop :=
  ∃ h1 h2 m1 m2 s1 s2 : UInt8,
    isDigitByte h1 ∧ isDigitByte h2 ∧ isDigitByte m1 ∧ isDigitByte m2 ∧ isDigitByte s1 ∧ isDigitByte s2 ∧
    s = ofString "Fixed/UTC" ++ [if neg then 45 else 43, h1, h2, 58, m1, m2, 58, s1, s2] ∧
    total = ((digitVal h1 * 10 + digitVal h2) * 60 + (digitVal m1 * 10 + digitVal m2)) * 60
              + (digitVal s1 * 10 + digitVal s2)

def toName_statement : Prop :=
  ∀ off : Int,
    (Fixed.toName off).ok ∧
    (Fixed.toName off).val =
      (if off = 0 ∨ off < -86400 ∨ off > 86400 then ofString "UTC" else canonicalName off)

def toAbbr_statement : Prop :=
  ∀ off : Int,
    (Fixed.toAbbr off).ok ∧
    (Fixed.toAbbr off).val =
      (if off = 0 ∨ off < -86400 ∨ off > 86400 then ofString "UTC" else canonicalAbbr off)

/-- the name maps back to the same offset -/
def fromName_toName_statement : Prop :=
  ∀ off : Int, -86400 ≤ off → off ≤ 86400 → Fixed.fromName (Fixed.toName off).val = some off

/-- a string is a fixed-offset name only if it is `UTC`, `UTC0`, or has exactly the canonical
shape and spells at most 24 hours — for every byte string -/
def fromName_iff_statement : Prop :=
  ∀ (s : Bytes) (off : Int),
    Fixed.fromName s = some off ↔
      ((s = ofString "UTC" ∨ s = ofString "UTC0") ∧ off = 0) ∨
      (∃ neg total, HasShape s neg total ∧ total ≤ 86400 ∧ off = (if neg then -total else total))

/-- the tables/bounds the statements above rely on are the documented ones (regenerated from the
source on every run: a changed constant breaks this theorem) -/
def constants_statement : Prop :=
  Gen.kFixedZonePrefix = [70, 105, 120, 101, 100, 47, 85, 84, 67] ∧ Gen.fixedNameLimit = 86400 ∧
  Gen.fixedToNameHoursLo = -24 ∧ Gen.fixedToNameHoursHi = 24

end Cctz.C15

namespace Cctz.C15
open Cctz Cctz.Bytes

theorem twoDigits_eq (n : Int) : twoDigits n = Fixed.td n := rfl

theorem toName_case (off : Int) :
    (Fixed.toName off).ok ∧
    (Fixed.toName off).val =
      (if off = 0 ∨ off < -86400 ∨ off > 86400 then ofString "UTC" else canonicalName off) := by
  by_cases h : off = 0 ∨ off < -86400 ∨ off > 86400
  · rw [if_pos h]
    unfold Fixed.toName
    rcases h with h | h
    · subst h; exact ⟨rfl, rfl⟩
    · have : (off == 0) = false := by simp; omega
      simp only [this, Bool.false_eq_true, if_false, h, if_true]; exact ⟨rfl, rfl⟩
  · rw [if_neg h]
    unfold canonicalName
    simp only [twoDigits_eq, Fixed.ofString_prefix, ← Fixed.prefixBytes_eq]
    by_cases hn : off < 0
    · have := Fixed.toName_neg off hn (by omega)
      have e : (off.natAbs : Int) = -off := by omega
      simp only [hn, if_true, e]; exact this
    · have := Fixed.toName_pos off (by omega) (by omega)
      have e : (off.natAbs : Int) = off := by omega
      simp only [hn, if_false, e]; exact this

theorem toName : toName_statement := toName_case

theorem toAbbr : toAbbr_statement := by
  intro off
  have hn := toName_case off
  rw [Fixed.toAbbr_eq]
  refine ⟨by simp only [Ck.bind_ok]; exact ⟨hn.1, Fixed.abbrOf_ok _⟩, ?_⟩
  rw [Ck.bind_val, hn.2]
  by_cases h : off = 0 ∨ off < -86400 ∨ off > 86400
  · simp only [if_pos h, Fixed.ofString_UTC, Fixed.abbrOf_UTC]
  · simp only [if_neg h]
    unfold canonicalName canonicalAbbr
    simp only [twoDigits_eq, Fixed.ofString_prefix, ← Fixed.prefixBytes_eq]
    have key := Fixed.abbrOf_abs (off.natAbs : Int) (by omega) (by omega) (if off < 0 then 45 else 43)
    have e1 : ((off.natAbs : Int) % 3600 = 0) ↔ (off.natAbs % 3600 = 0) := by omega
    have e2 : ((off.natAbs : Int) % 60 = 0) ↔ (off.natAbs % 60 = 0) := by omega
    simp only [e1, e2] at key
    exact key

theorem fromName_toName : fromName_toName_statement := by
  intro off hlo hhi
  rw [(toName_case off).2]
  by_cases h : off = 0
  · rw [if_pos (Or.inl h), h]; exact Fixed.fromName_UTC _ (Or.inl Fixed.ofString_UTC)
  · rw [if_neg (by omega)]
    unfold canonicalName
    simp only [twoDigits_eq, Fixed.ofString_prefix, ← Fixed.prefixBytes_eq]
    have key := Fixed.fromName_canonical (off.natAbs : Int) (by omega) (by omega) (decide (off < 0))
    have e : (if decide (off < 0) = true then -(off.natAbs : Int) else off.natAbs) = off := by
      by_cases hn : off < 0 <;> simp [hn] <;> omega
    have e2 : (if decide (off < 0) = true then (45 : UInt8) else 43) = (if off < 0 then 45 else 43) := by
      by_cases hn : off < 0 <;> simp [hn]
    rw [e, e2] at key
    exact key

theorem fromName_iff : fromName_iff_statement := by
  intro s off
  rw [Fixed.fromName_iff', Fixed.ofString_UTC, Fixed.ofString_UTC0]
  constructor
  · rintro (h | ⟨neg, h1, h2, m1, m2, s1, s2, d1, d2, d3, d4, d5, d6, hs, ht, ho⟩)
    · exact Or.inl h
    · refine Or.inr ⟨neg, Fixed.tot h1 h2 m1 m2 s1 s2, ⟨h1, h2, m1, m2, s1, s2, d1, d2, d3, d4, d5, d6, ?_, rfl⟩,
        ht, ho⟩
      rw [hs, Fixed.ofString_prefix, Fixed.prefixBytes_eq]
  · rintro (h | ⟨neg, total, ⟨h1, h2, m1, m2, s1, s2, d1, d2, d3, d4, d5, d6, hs, htot⟩, ht, ho⟩)
    · exact Or.inl h
    · have htot' : total = Fixed.tot h1 h2 m1 m2 s1 s2 := htot
      subst htot'
      refine Or.inr ⟨neg, h1, h2, m1, m2, s1, s2, d1, d2, d3, d4, d5, d6, ?_, ht, ho⟩
      rw [hs, Fixed.ofString_prefix, Fixed.prefixBytes_eq]

theorem constants : constants_statement := by unfold constants_statement; decide

/-- the hypotheses of `fromName_toName` / the shape of `fromName_iff` are satisfiable -/
example : Fixed.fromName (Fixed.toName (-16200)).val = some (-16200) := by decide +kernel
example : HasShape (ofString "Fixed/UTC-04:30:00") true 16200 :=
  ⟨48, 52, 51, 48, 48, 48, by unfold isDigitByte; decide, by unfold isDigitByte; decide,
    by unfold isDigitByte; decide, by unfold isDigitByte; decide, by unfold isDigitByte; decide,
    by unfold isDigitByte; decide, by decide +kernel, by decide⟩

end Cctz.C15
