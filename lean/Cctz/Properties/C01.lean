/-
  C01 — Instant → civil conversion follows the zone's data (table level).
  What is proved here: for every table with the facts Load establishes (`TableWF`, `CivilCols`),
  every instant, every hint: lookup reports the type of the latest table entry at or before t (the
  default type before the first), and the civil second is the UTC civil second of t shifted by that
  offset; beyond an extended table the answer is the table's answer 400·s years earlier moved
  forward by exactly 400·s years.  NOT yet proved (see DESIGN.md): that `load` establishes
  `CivilCols` and that the rule-generated part of the table equals the POSIX rule evaluated on the
  calendar (`extend_spec`) — those are tied to the code by the correspondence and the independent
  Python reader/evaluator only.
-/
import Cctz.Model.Tz
import Cctz.Spec.TableSem
import Cctz.Proofs.TableLookup
import Cctz.Proofs.TlShift
import Cctz.Proofs.TlFixed

namespace Cctz.C01
open Cctz Cctz.Tz Cctz.Spec

/-- lookup(t) inside the table (or beyond a table that is not extended) -/
def breakTime_table_statement : Prop :=
  ∀ (z : Zone) (h : Nat) (t : Int), TableWF z → CivilCols z →
    (z.extended = false ∨ t < timeOf z (z.transitions.size - 1)) →
    let a := (breakTime z h t).val.1
    Valid a.cs ∧ secNum a.cs = t + offAt z t ∧ a.offset = offAt z t ∧
    a.isDst = (typ z (typeAt z t)).isDst ∧
    a.abbr = abbrAt z.abbreviations (typ z (typeAt z t)).abbrIndex

/-- lookup(t) beyond an extended table: `s = ⌊(t - last)/k400⌋ + 1` whole 400-year cycles are
removed, the table is consulted, and exactly `s · 146097` days are added back -/
def breakTime_shift_statement : Prop :=
  ∀ (z : Zone) (h : Nat) (t : Int), TableWF z → CivilCols z → z.extended = true →
    timeOf z (z.transitions.size - 1) ≤ t →
    let s := (t - timeOf z (z.transitions.size - 1)) / 12622780800 + 1
    let t' := t - s * 12622780800
    let a := (breakTime z h t).val.1
    t' < timeOf z (z.transitions.size - 1) ∧ timeOf z (z.transitions.size - 1) - 12622780800 ≤ t' ∧
    Valid a.cs ∧ secNum a.cs = t + offAt z t' ∧ a.offset = offAt z t' ∧
    a.isDst = (typ z (typeAt z t')).isDst ∧ a.abbr = abbrAt z.abbreviations (typ z (typeAt z t')).abbrIndex

/-- the built-in fixed-offset table (C15): every type is the one fixed type, so lookup reports
exactly `off`, no DST and the numeric abbreviation at every instant, for every hint -/
def fixed_lookup_statement : Prop :=
  ∀ (off : Int) (h : Nat) (t : Int), -86400 ≤ off → off ≤ 86400 →
    let z := (resetToBuiltinUTC off).val
    let a := (breakTime z h t).val.1
    Valid a.cs ∧ secNum a.cs = t + off ∧ a.offset = off ∧ a.isDst = false ∧
    a.abbr = Bytes.cstr (Fixed.toAbbr off).val

/-- … and that table has the facts the theorems above assume -/
def fixed_table_statement : Prop :=
  ∀ off : Int, -86400 ≤ off → off ≤ 86400 →
    TableWF (resetToBuiltinUTC off).val ∧ CivilCols (resetToBuiltinUTC off).val ∧
    (resetToBuiltinUTC off).val.extended = false

/-! ## proofs -/

theorem breakTime_table : breakTime_table_statement := by
  intro z h t wf cc hc
  show Tl.LookupAt z t (breakTime z h t).val.1
  rw [Tl.breakTime_noshift z h t hc]
  exact Tl.breakTimeCore_spec z wf cc h t

theorem breakTime_shift : breakTime_shift_statement := by
  intro z h t wf cc hext hlast
  have hn := wf.nonempty
  have hfirst : ¬ t < timeOf z 0 := by
    by_cases e : z.transitions.size - 1 = 0
    · rw [e] at hlast; omega
    · have := wf.timeSorted 0 (z.transitions.size - 1) (by omega) (by omega)
      unfold timeOf at *; omega
  have hts : Tl.TakesShift z t := ⟨hfirst, hlast, hext⟩
  have hd : cdiv (t - timeOf z (z.transitions.size - 1)) Gen.kSecsPer400Years + 1 =
      (t - timeOf z (z.transitions.size - 1)) / 12622780800 + 1 := by
    show cdiv _ 12622780800 + 1 = _
    rw [cdiv_pos_lit _ _ (by decide), if_pos (by omega)]
  have hv := Tl.breakTime_val z h t
  rw [if_pos hts] at hv
  simp only [hd] at hv
  show _ ∧ _ ∧ Valid (breakTime z h t).val.1.cs ∧ secNum (breakTime z h t).val.1.cs = _ ∧
    (breakTime z h t).val.1.offset = _ ∧ (breakTime z h t).val.1.isDst = _ ∧
    (breakTime z h t).val.1.abbr = _
  rw [hv]
  have hk : Gen.kSecsPer400Years = 12622780800 := rfl
  rw [hk]
  obtain ⟨v, sn, o, dst, ab⟩ := Tl.breakTimeCore_spec z wf cc h
    (t - ((t - timeOf z (z.transitions.size - 1)) / 12622780800 + 1) * 12622780800)
  obtain ⟨v', sn'⟩ := Tl.yearShift_spec _ v ((t - timeOf z (z.transitions.size - 1)) / 12622780800 + 1)
  refine ⟨by omega, by omega, v', ?_, o, dst, ab⟩
  show secNum (yearShift _ _).val = _
  rw [sn', sn]; omega

theorem fixed_table : fixed_table_statement := by
  intro off _ _
  rw [Tl.reset_val]
  exact ⟨Tl.fixed_wf off, Tl.fixed_cols off, rfl⟩

theorem fixed_lookup : fixed_lookup_statement := by
  intro off h t _ _
  show Valid (breakTime (resetToBuiltinUTC off).val h t).val.1.cs ∧ _
  rw [Tl.reset_val]
  obtain ⟨v, sn, o, dst, ab⟩ :=
    breakTime_table (Tl.fixedZone off) h t (Tl.fixed_wf off) (Tl.fixed_cols off) (Or.inl rfl)
  have ho : offAt (Tl.fixedZone off) t = off := by
    unfold offAt; rw [Tl.fixed_typeAt]; rfl
  rw [Tl.fixed_typeAt] at dst ab
  rw [ho] at sn o
  exact ⟨v, sn, o, dst, by rw [ab, Tl.fixed_abbr]⟩

/-- the hypotheses of the table theorems are satisfiable on a non-trivial table: the built-in
UTC+1 table (12 entries) and an instant inside it -/
example : TableWF (resetToBuiltinUTC 3600).val ∧ CivilCols (resetToBuiltinUTC 3600).val ∧
    (resetToBuiltinUTC 3600).val.extended = false := fixed_table 3600 (by decide) (by decide)

/-- … and the shift theorem's on a two-entry extended table -/
example : ∃ z : Zone, TableWF z ∧ CivilCols z ∧ z.extended = true ∧
    timeOf z (z.transitions.size - 1) ≤ 20000000000 := by
  refine ⟨{ (resetToBuiltinUTC 3600).val with extended := true }, ?_, ?_, rfl, by decide +kernel⟩
  · obtain ⟨⟨a, b, c, d⟩, _, _⟩ := fixed_table 3600 (by decide) (by decide)
    exact ⟨a, b, c, d⟩
  · obtain ⟨_, ⟨a, b, c, d⟩, _⟩ := fixed_table 3600 (by decide) (by decide)
    exact ⟨a, b, c, d⟩

end Cctz.C01
