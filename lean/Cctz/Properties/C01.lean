import Cctz.Model.Tz
namespace Cctz.C01
end Cctz.C01
