/-
  C01 — Instant → civil conversion follows the zone's data (table level).
  What is proved here: for every table with the facts Load establishes (`TableWF`, `CivilCols`),
  every instant, every hint: lookup reports the type of the latest table entry at or before t (the
  default type before the first), and the civil second is the UTC civil second of t shifted by that
  offset; beyond an extended table the answer is the table's answer 400·s years earlier moved
  forward by exactly 400·s years.  NOT yet proved (see DESIGN.md): that `load` establishes
  `CivilCols` and that the rule-generated part of the table equals the POSIX rule evaluated on the
  calendar (`extend_spec`) — those are tied to the code by the correspondence and the independent
  Python reader/evaluator only.
-/
import Cctz.Model.Tz
import Cctz.Spec.TableSem
import Cctz.Proofs.TableLookup

namespace Cctz.C01
open Cctz Cctz.Tz Cctz.Spec

/-- lookup(t) inside the table (or beyond a table that is not extended) -/
def breakTime_table_statement : Prop :=
  ∀ (z : Zone) (h : Nat) (t : Int), TableWF z → CivilCols z →
    (z.extended = false ∨ t < timeOf z (z.transitions.size - 1)) →
    let a := (breakTime z h t).val.1
    Valid a.cs ∧ secNum a.cs = t + offAt z t ∧ a.offset = offAt z t ∧
    a.isDst = (typ z (typeAt z t)).isDst ∧
    a.abbr = abbrAt z.abbreviations (typ z (typeAt z t)).abbrIndex

/-- lookup(t) beyond an extended table: `s = ⌊(t - last)/k400⌋ + 1` whole 400-year cycles are
removed, the table is consulted, and exactly `s · 146097` days are added back -/
def breakTime_shift_statement : Prop :=
  ∀ (z : Zone) (h : Nat) (t : Int), TableWF z → CivilCols z → z.extended = true →
    timeOf z (z.transitions.size - 1) ≤ t →
    let s := (t - timeOf z (z.transitions.size - 1)) / 12622780800 + 1
    let t' := t - s * 12622780800
    let a := (breakTime z h t).val.1
    t' < timeOf z (z.transitions.size - 1) ∧ timeOf z (z.transitions.size - 1) - 12622780800 ≤ t' ∧
    Valid a.cs ∧ secNum a.cs = t + offAt z t' ∧ a.offset = offAt z t' ∧
    a.isDst = (typ z (typeAt z t')).isDst ∧ a.abbr = abbrAt z.abbreviations (typ z (typeAt z t')).abbrIndex

/-- the built-in fixed-offset table (C15): every type is the one fixed type, so lookup reports
exactly `off`, no DST and the numeric abbreviation at every instant, for every hint -/
def fixed_lookup_statement : Prop :=
  ∀ (off : Int) (h : Nat) (t : Int), -86400 ≤ off → off ≤ 86400 →
    let z := (resetToBuiltinUTC off).val
    let a := (breakTime z h t).val.1
    Valid a.cs ∧ secNum a.cs = t + off ∧ a.offset = off ∧ a.isDst = false ∧
    a.abbr = Bytes.cstr (Fixed.toAbbr off).val

/-- … and that table has the facts the theorems above assume -/
def fixed_table_statement : Prop :=
  ∀ off : Int, -86400 ≤ off → off ≤ 86400 →
    TableWF (resetToBuiltinUTC off).val ∧ CivilCols (resetToBuiltinUTC off).val ∧
    (resetToBuiltinUTC off).val.extended = false

end Cctz.C01
