import Cctz.Model.Tz
namespace Cctz.C06
end Cctz.C06
