/-
  C06 — convert(civil, zone) preserves order (table level, no-shift path: across gaps, overlaps
  and the saturated ends; the seam to 400-year-shifted years is covered by the correspondence run).
-/
import Cctz.Model.Tz
import Cctz.Spec.TableSem
import Cctz.Spec.TableTame
import Cctz.Proofs.TableCivil

namespace Cctz.C06
open Cctz Cctz.Tz Cctz.Spec

/-- (`TimesInRange`, `FirstEntryRoom`: see `convert_monotone_needs_TimesInRange` and
`convert_monotone_needs_FirstEntryRoom`.) -/
def convert_monotone_statement : Prop :=
  ∀ (z : Zone) (h1 h2 : Nat) (cs1 cs2 : Fields), TableWF z → CivilCols z → Separated z →
    TimesInRange z → FirstEntryRoom z →
    Valid cs1 → Valid cs2 → NoShift z cs1 → NoShift z cs2 → secNum cs1 < secNum cs2 →
    (convert z h1 cs1).val.1 ≤ (convert z h2 cs2).val.1

/-- convert is `trans` across a gap and `pre` otherwise -/
def convert_def_statement : Prop :=
  ∀ (z : Zone) (h : Nat) (cs : Fields),
    (convert z h cs).val.1 =
      (if (makeTime z h cs).val.1.kind = .skipped then (makeTime z h cs).val.1.trans else (makeTime z h cs).val.1.pre)

end Cctz.C06

namespace Cctz.C06
open Cctz Cctz.Tz Cctz.Spec Cctz.Tc

theorem convert_def : convert_def_statement := by
  intro z h cs
  rfl

theorem convert_monotone : convert_monotone_statement := by
  intro z h1 h2 cs1 cs2 wf cols sep tir fer v1 v2 n1 n2 hlt
  rw [convert_val, convert_val]
  obtain ⟨a, ha, ha1, ha2⟩ := outcome_conv wf sep tir fer (makeTime_outcome z h1 cs1 wf cols sep v1 n1)
  obtain ⟨b, hb, hb1, hb2⟩ := outcome_conv wf sep tir fer (makeTime_outcome z h2 cs2 wf cols sep v2 n2)
  rw [ha, hb]
  apply clamp64_mono
  -- `a` is the first instant displaying `secNum cs1` or later; `b` displays `secNum cs2` or later
  by_cases hab : a ≤ b
  · exact hab
  · have := ha2 b (by omega)
    omega

/-! ### the hypotheses are satisfiable, and the added ones are needed -/

example : TableWF zEx ∧ CivilCols zEx ∧ Separated zEx ∧ TimesInRange zEx ∧ FirstEntryRoom zEx ∧
    Valid ⟨1970, 1, 12, 14, 0, 0⟩ ∧ Valid ⟨1970, 1, 24, 4, 0, 0⟩ ∧
    NoShift zEx ⟨1970, 1, 12, 14, 0, 0⟩ ∧ NoShift zEx ⟨1970, 1, 24, 4, 0, 0⟩ ∧
    secNum ⟨1970, 1, 12, 14, 0, 0⟩ < secNum ⟨1970, 1, 24, 4, 0, 0⟩ :=
  ⟨zEx_wf, zEx_cols, zEx_sep, zEx_tir, zEx_fer, by decide, by decide, Or.inl rfl, Or.inl rfl, by decide⟩
/-- in the gap, then in the overlap -/
example : (convert zEx 0 ⟨1970, 1, 12, 14, 0, 0⟩).val.1 = 1000000 ∧
    (convert zEx 5 ⟨1970, 1, 24, 4, 0, 0⟩).val.1 = 1998000 := by decide +kernel

/-- without `TimesInRange` (but with `FirstEntryRoom`) order is not preserved: on a table whose
only entry is at 2^63 + 10 the civil second just before the entry converts to 2^63 + 9, a later
one to max() -/
theorem convert_monotone_needs_TimesInRange :
    ¬ (∀ (z : Zone) (h1 h2 : Nat) (cs1 cs2 : Fields), TableWF z → CivilCols z → Separated z →
      FirstEntryRoom z →
      Valid cs1 → Valid cs2 → NoShift z cs1 → NoShift z cs2 → secNum cs1 < secNum cs2 →
      (convert z h1 cs1).val.1 ≤ (convert z h2 cs2).val.1) := by
  intro H
  have h := H zBig 0 0 ⟨292277026596, 12, 4, 15, 30, 17⟩ ⟨292277026596, 12, 4, 15, 31, 58⟩
    zBig_wf zBig_cols zBig_sep (by unfold FirstEntryRoom; decide +kernel) (by decide) (by decide)
    (Or.inl rfl) (Or.inl rfl) (by decide +kernel)
  revert h
  decide +kernel

/-- without `FirstEntryRoom` (but with `TimesInRange`) order is not preserved: the table `zLow`
sets the clock back an hour 100 s after min(); the last civil second before the overlap converts to
min() (saturated), the first second of the overlap to min() - 3500 (`MakeRepeated`'s `pre`, a signed
overflow in the C++) -/
theorem convert_monotone_needs_FirstEntryRoom :
    ¬ (∀ (z : Zone) (h1 h2 : Nat) (cs1 cs2 : Fields), TableWF z → CivilCols z → Separated z →
      TimesInRange z →
      Valid cs1 → Valid cs2 → NoShift z cs1 → NoShift z cs2 → secNum cs1 < secNum cs2 →
      (convert z h1 cs1).val.1 ≤ (convert z h2 cs2).val.1) := by
  intro H
  have h := H zLow 0 0 ⟨-292277022657, 1, 27, 8, 31, 31⟩ ⟨-292277022657, 1, 27, 8, 31, 32⟩
    zLow_wf zLow_cols zLow_sep zLow_tir (by decide) (by decide)
    (Or.inl rfl) (Or.inl rfl) (by decide +kernel)
  revert h
  decide +kernel

/-- … and the C++ computation of that `pre` does overflow (the model raises the flag) -/
theorem zLow_makeRepeated_overflows :
    (Tz.makeTime zLow 0 ⟨-292277022657, 1, 27, 8, 31, 32⟩).flags.ovf = true ∧
    (Tz.makeTime zLow 0 ⟨-292277022657, 1, 27, 8, 31, 32⟩).val.1 =
      ⟨.repeated, -9223372036854779308, -9223372036854775708, -9223372036854775708⟩ := by
  decide +kernel

end Cctz.C06
