/-
  C06 — convert(civil, zone) preserves order (table level, no-shift path: across gaps, overlaps
  and the saturated ends; the seam to 400-year-shifted years is covered by the correspondence run).
-/
import Cctz.Model.Tz
import Cctz.Spec.TableSem
import Cctz.Spec.TableTame
import Cctz.Proofs.TableCivil

namespace Cctz.C06
open Cctz Cctz.Tz Cctz.Spec

/-- (`TimesInRange`, `FirstEntryRoom`: see `convert_monotone_needs_TimesInRange` and
`convert_monotone_needs_FirstEntryRoom`.) -/
def convert_monotone_statement : Prop :=
  ∀ (z : Zone) (h1 h2 : Nat) (cs1 cs2 : Fields), TableWF z → CivilCols z → Separated z →
    TimesInRange z → FirstEntryRoom z →
    Valid cs1 → Valid cs2 → NoShift z cs1 → NoShift z cs2 → secNum cs1 < secNum cs2 →
    (convert z h1 cs1).val.1 ≤ (convert z h2 cs2).val.1

/-- convert is `trans` across a gap and `pre` otherwise -/
def convert_def_statement : Prop :=
  ∀ (z : Zone) (h : Nat) (cs : Fields),
    (convert z h cs).val.1 =
      (if (makeTime z h cs).val.1.kind = .skipped then (makeTime z h cs).val.1.trans else (makeTime z h cs).val.1.pre)

end Cctz.C06

namespace Cctz.C06
open Cctz Cctz.Tz Cctz.Spec Cctz.Tc

theorem convert_def : convert_def_statement := by
  intro z h cs
  rfl

theorem convert_monotone : convert_monotone_statement := by
  intro z h1 h2 cs1 cs2 wf cols sep tir fer v1 v2 n1 n2 hlt
  rw [convert_val, convert_val]
  obtain ⟨a, ha, ha1, ha2⟩ := outcome_conv wf sep tir fer (makeTime_outcome z h1 cs1 wf cols sep v1 n1)
  obtain ⟨b, hb, hb1, hb2⟩ := outcome_conv wf sep tir fer (makeTime_outcome z h2 cs2 wf cols sep v2 n2)
  rw [ha, hb]
  apply clamp64_mono
  -- `a` is the first instant displaying `secNum cs1` or later; `b` displays `secNum cs2` or later
  by_cases hab : a ≤ b
  · exact hab
  · have := ha2 b (by omega)
    omega

end Cctz.C06
