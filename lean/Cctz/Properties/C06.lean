/-
  C06 — convert(civil, zone) preserves order (table level, no-shift path: across gaps, overlaps
  and the saturated ends; the seam to 400-year-shifted years is covered by the correspondence run).
-/
import Cctz.Model.Tz
import Cctz.Spec.TableSem
import Cctz.Proofs.TableCivil

namespace Cctz.C06
open Cctz Cctz.Tz Cctz.Spec

def convert_monotone_statement : Prop :=
  ∀ (z : Zone) (h1 h2 : Nat) (cs1 cs2 : Fields), TableWF z → CivilCols z → Separated z →
    Valid cs1 → Valid cs2 → NoShift z cs1 → NoShift z cs2 → secNum cs1 < secNum cs2 →
    (convert z h1 cs1).val.1 ≤ (convert z h2 cs2).val.1

/-- convert is `trans` across a gap and `pre` otherwise -/
def convert_def_statement : Prop :=
  ∀ (z : Zone) (h : Nat) (cs : Fields),
    (convert z h cs).val.1 =
      (if (makeTime z h cs).val.1.kind = .skipped then (makeTime z h cs).val.1.trans else (makeTime z h cs).val.1.pre)

end Cctz.C06
