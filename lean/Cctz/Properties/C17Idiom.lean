/-
  C17 (continued) — the weekday idioms documented in `include/cctz/civil_time.h`:

      next_weekday(d - 1, wd)   "the following wd if d is not already wd"  (first wd on or after d)
      prev_weekday(d + 1, wd)   "the previous wd if d is not already wd"   (last wd on or before d)

  and the composition `get_weekday(next_weekday(d, wd)) == wd`.  These chain three modelled
  functions (`civilSub`/`civilAdd` on days, `nextWeekday`/`prevWeekday`, `getWeekday`), so they are
  statements about the model's *composition*, not restatements of the single-function theorems in
  `C17.lean`.  Statements first, proofs below.
-/
import Cctz.Properties.C05
import Cctz.Properties.C17
import Cctz.Properties.C04Align

namespace Cctz.C17Idiom
open Cctz.Spec

/-- `get_weekday(next_weekday(d, w)) = w` and `get_weekday(prev_weekday(d, w)) = w` -/
def weekday_of_result_statement : Prop :=
  ∀ (cd : Fields) (w : Int), Valid cd → Aligned .day cd → 0 ≤ w → w ≤ 6 →
    (Civil.getWeekday (Civil.nextWeekday cd w).val).val = w ∧
    (Civil.getWeekday (Civil.prevWeekday cd w).val).val = w

/-- `next_weekday(d - 1, w)`: the first day on or after `d` that falls on `w` (0..6 days away,
`d` itself when `d` already is a `w`) -/
def onOrAfter_statement : Prop :=
  ∀ (cd : Fields) (w : Int), Valid cd → Aligned .day cd → 0 ≤ w → w ≤ 6 →
    let r := (Civil.nextWeekday (Civil.civilSub .day cd 1).val w).val
    Valid r ∧ Aligned .day r ∧
    ∃ k : Int, 0 ≤ k ∧ k ≤ 6 ∧ dayNum r.y r.m r.d = dayNum cd.y cd.m cd.d + k ∧
      weekdayOfDay (dayNum cd.y cd.m cd.d + k) = w ∧
      ∀ j : Int, 0 ≤ j → j < k → weekdayOfDay (dayNum cd.y cd.m cd.d + j) ≠ w

/-- `prev_weekday(d + 1, w)`: the last day on or before `d` that falls on `w` -/
def onOrBefore_statement : Prop :=
  ∀ (cd : Fields) (w : Int), Valid cd → Aligned .day cd → 0 ≤ w → w ≤ 6 →
    let r := (Civil.prevWeekday (Civil.civilAdd .day cd 1).val w).val
    Valid r ∧ Aligned .day r ∧
    ∃ k : Int, 0 ≤ k ∧ k ≤ 6 ∧ dayNum r.y r.m r.d = dayNum cd.y cd.m cd.d - k ∧
      weekdayOfDay (dayNum cd.y cd.m cd.d - k) = w ∧
      ∀ j : Int, 0 ≤ j → j < k → weekdayOfDay (dayNum cd.y cd.m cd.d - j) ≠ w

/-- the two idioms leave a day that already falls on `w` where it is -/
def idiom_fixpoint_statement : Prop :=
  ∀ (cd : Fields), Valid cd → Aligned .day cd →
    let w := (Civil.getWeekday cd).val
    (Civil.nextWeekday (Civil.civilSub .day cd 1).val w).val = cd ∧
    (Civil.prevWeekday (Civil.civilAdd .day cd 1).val w).val = cd

/-- `prev_weekday(next_weekday(d, w), w')` with `w' = get_weekday(d)` returns to `d`, and
`next_weekday` then `next_weekday` with the same weekday advances exactly one week -/
def week_step_statement : Prop :=
  ∀ (cd : Fields) (w : Int), Valid cd → Aligned .day cd → 0 ≤ w → w ≤ 6 →
    let r := (Civil.nextWeekday cd w).val
    let r2 := (Civil.nextWeekday r w).val
    dayNum r2.y r2.m r2.d = dayNum r.y r.m r.d + 7

/-! ### proofs -/

private theorem wd_range (n : Int) : 0 ≤ weekdayOfDay n ∧ weekdayOfDay n ≤ 6 := by
  unfold weekdayOfDay; omega

theorem weekday_of_result : weekday_of_result_statement := by
  intro cd w hv ha hw0 hw6
  obtain ⟨_, _, _, v1, _, k, _, _, hd, hwk, _⟩ := C17.nextWeekday_spec cd w hv ha hw0 hw6
  obtain ⟨_, _, _, v2, _, k2, _, _, hd2, hwk2, _⟩ := C17.prevWeekday_spec cd w hv ha hw0 hw6
  constructor
  · rw [(C17.getWeekday_spec _ v1).2, hd]; exact hwk
  · rw [(C17.getWeekday_spec _ v2).2, hd2]; exact hwk2

theorem onOrAfter : onOrAfter_statement := by
  intro cd w hv ha hw0 hw6
  obtain ⟨v0, a0, u0⟩ := C05.sub_exact .day cd 1 hv ha
  obtain ⟨_, _, _, v1, a1, k, hk1, hk7, hd, hwk, hmin⟩ :=
    C17.nextWeekday_spec (Civil.civilSub .day cd 1).val w v0 a0 hw0 hw6
  simp only [unitNum] at u0
  refine ⟨v1, a1, k - 1, by omega, by omega, ?_, ?_, ?_⟩
  · rw [hd, u0]; omega
  · rw [u0] at hwk
    have : dayNum cd.y cd.m cd.d + (k - 1) = dayNum cd.y cd.m cd.d - 1 + k := by omega
    rw [this]; exact hwk
  · intro j hj0 hjk
    have := hmin (j + 1) (by omega) (by omega)
    rw [u0] at this
    have e : dayNum cd.y cd.m cd.d - 1 + (j + 1) = dayNum cd.y cd.m cd.d + j := by omega
    rw [e] at this; exact this

theorem onOrBefore : onOrBefore_statement := by
  intro cd w hv ha hw0 hw6
  obtain ⟨v0, a0, u0⟩ := C05.add_exact .day cd 1 hv ha
  obtain ⟨_, _, _, v1, a1, k, hk1, hk7, hd, hwk, hmin⟩ :=
    C17.prevWeekday_spec (Civil.civilAdd .day cd 1).val w v0 a0 hw0 hw6
  simp only [unitNum] at u0
  refine ⟨v1, a1, k - 1, by omega, by omega, ?_, ?_, ?_⟩
  · rw [hd, u0]; omega
  · rw [u0] at hwk
    have : dayNum cd.y cd.m cd.d - (k - 1) = dayNum cd.y cd.m cd.d + 1 - k := by omega
    rw [this]; exact hwk
  · intro j hj0 hjk
    have := hmin (j + 1) (by omega) (by omega)
    rw [u0] at this
    have e : dayNum cd.y cd.m cd.d + 1 - (j + 1) = dayNum cd.y cd.m cd.d - j := by omega
    rw [e] at this; exact this

theorem idiom_fixpoint : idiom_fixpoint_statement := by
  intro cd hv ha
  have hw := (C17.getWeekday_spec cd hv).2
  have hr := wd_range (dayNum cd.y cd.m cd.d)
  constructor
  · obtain ⟨v1, a1, k, hk0, _, hd, _, hmin⟩ :=
      onOrAfter cd (Civil.getWeekday cd).val hv ha (by rw [hw]; exact hr.1) (by rw [hw]; exact hr.2)
    have hk : k = 0 := by
      by_cases h : 0 < k
      · exact absurd (by simpa using hw.symm) (hmin 0 (by omega) h)
      · omega
    apply unitNum_inj .day v1 hv a1 ha
    simp only [unitNum]; rw [hd, hk]; omega
  · obtain ⟨v1, a1, k, hk0, _, hd, _, hmin⟩ :=
      onOrBefore cd (Civil.getWeekday cd).val hv ha (by rw [hw]; exact hr.1) (by rw [hw]; exact hr.2)
    have hk : k = 0 := by
      by_cases h : 0 < k
      · exact absurd (by simpa using hw.symm) (hmin 0 (by omega) h)
      · omega
    apply unitNum_inj .day v1 hv a1 ha
    simp only [unitNum]; rw [hd, hk]; omega

theorem week_step : week_step_statement := by
  intro cd w hv ha hw0 hw6
  obtain ⟨_, _, _, v1, a1, k, _, _, hd, hwk, _⟩ := C17.nextWeekday_spec cd w hv ha hw0 hw6
  obtain ⟨_, _, _, _, _, k2, hk1, hk7, hd2, hwk2, hmin2⟩ :=
    C17.nextWeekday_spec (Civil.nextWeekday cd w).val w v1 a1 hw0 hw6
  simp only []
  rw [hd2]
  rw [hd] at hwk2
  unfold weekdayOfDay at hwk hwk2
  omega

/-! satisfiable on non-trivial values: 2024-02-29 is a Thursday (3); the first Monday on or after
it is 2024-03-04, the last Monday on or before it 2024-02-26; asked for Thursday both stay put -/
example : (Civil.nextWeekday (Civil.civilSub .day ⟨2024, 2, 29, 0, 0, 0⟩ 1).val 0).val = ⟨2024, 3, 4, 0, 0, 0⟩ := by decide +kernel
example : (Civil.prevWeekday (Civil.civilAdd .day ⟨2024, 2, 29, 0, 0, 0⟩ 1).val 0).val = ⟨2024, 2, 26, 0, 0, 0⟩ := by decide +kernel
example : (Civil.nextWeekday (Civil.civilSub .day ⟨2024, 2, 29, 0, 0, 0⟩ 1).val 3).val = ⟨2024, 2, 29, 0, 0, 0⟩ := by decide +kernel

/-! ### the day-of-year ordinal inverts; weekdays differ as days do -/

/-- `civil_day(y, 1, 1) + (get_yearday(f) − 1)` is the day of `f`: the ordinal inverts -/
def yearday_inverse_statement : Prop :=
  ∀ f : Fields, Valid f →
    (Civil.civilAdd .day ⟨f.y, 1, 1, 0, 0, 0⟩ ((Civil.getYearday f).val - 1)).val = Civil.align .day f

/-- weekdays differ as the day difference does, modulo 7 -/
def weekday_difference_statement : Prop :=
  ∀ a b : Fields, Valid a → Valid b → Aligned .day a → Aligned .day b →
    ((Civil.getWeekday a).val - (Civil.getWeekday b).val) % 7 = (Civil.difference .day a b).val % 7

theorem yearday_inverse : yearday_inverse_statement := by
  intro f vf
  obtain ⟨_, hyd, _, _⟩ := C17.getYearday_spec f vf
  have vj : Valid ⟨f.y, 1, 1, 0, 0, 0⟩ := by
    unfold Valid daysInMonth; simp
  have aj : Aligned .day ⟨f.y, 1, 1, 0, 0, 0⟩ := ⟨rfl, rfl, rfl⟩
  obtain ⟨v1, a1, u1⟩ := C05.add_exact .day _ ((Civil.getYearday f).val - 1) vj aj
  obtain ⟨v2, a2, s2, _⟩ := C04.align_spec .day f vf
  apply unitNum_inj .day v1 v2 a1 a2
  rw [u1, hyd]
  obtain ⟨e1, e2, e3⟩ := s2
  simp only [unitNum]
  rw [e1, e2, e3]; omega

theorem weekday_difference : weekday_difference_statement := by
  intro a b va vb ha hb
  rw [(C17.getWeekday_spec a va).2, (C17.getWeekday_spec b vb).2,
    C05.difference_exact .day a b va vb ha hb]
  simp only [unitNum, weekdayOfDay]
  omega

example : (Civil.civilAdd .day ⟨2024, 1, 1, 0, 0, 0⟩ ((Civil.getYearday ⟨2024, 12, 31, 7, 8, 9⟩).val - 1)).val
    = ⟨2024, 12, 31, 0, 0, 0⟩ := by decide +kernel

end Cctz.C17Idiom
