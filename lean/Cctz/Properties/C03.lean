import Cctz.Model.Tz
namespace Cctz.C03
end Cctz.C03
