/-
  C03 — Instant → civil → instant round trip recovers the instant (table level, no-shift path).
-/
import Cctz.Model.Tz
import Cctz.Spec.TableSem
import Cctz.Proofs.TableCivil

namespace Cctz.C03
open Cctz Cctz.Tz Cctz.Spec

/-- looking up the civil second that lookup(t) reports recovers t: UNIQUE with pre = t, or REPEATED
with t one of pre/post; never SKIPPED -/
def roundtrip_statement : Prop :=
  ∀ (z : Zone) (h h' : Nat) (t : Int), TableWF z → CivilCols z → Separated z → inI64 t →
    (z.extended = false ∨ t < timeOf z (z.transitions.size - 1)) →
    let cs := (breakTime z h t).val.1.cs
    NoShift z cs →
    let r := (makeTime z h' cs).val.1
    (r.kind = .unique ∧ r.pre = t) ∨ (r.kind = .repeated ∧ (r.pre = t ∨ r.post = t))

/-- conversely every unsaturated instant returned for a UNIQUE or REPEATED civil second displays it -/
def converse_statement : Prop :=
  ∀ (z : Zone) (h : Nat) (cs : Fields), TableWF z → CivilCols z → Separated z → Valid cs → NoShift z cs →
    let r := (makeTime z h cs).val.1
    (r.kind = .unique → i64min < r.pre → r.pre < i64max → shows z r.pre (secNum cs)) ∧
    (r.kind = .repeated → shows z r.pre (secNum cs) ∧ shows z r.post (secNum cs))

end Cctz.C03
