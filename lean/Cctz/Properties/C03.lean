/-
  C03 — Instant → civil → instant round trip recovers the instant (table level, no-shift path).
-/
import Cctz.Model.Tz
import Cctz.Spec.TableSem
import Cctz.Proofs.TableCivil

namespace Cctz.C03
open Cctz Cctz.Tz Cctz.Spec

/-- looking up the civil second that lookup(t) reports recovers t: UNIQUE with pre = t, or REPEATED
with t one of pre/post; never SKIPPED -/
def roundtrip_statement : Prop :=
  ∀ (z : Zone) (h h' : Nat) (t : Int), TableWF z → CivilCols z → Separated z → inI64 t →
    (z.extended = false ∨ t < timeOf z (z.transitions.size - 1)) →
    let cs := (breakTime z h t).val.1.cs
    NoShift z cs →
    let r := (makeTime z h' cs).val.1
    (r.kind = .unique ∧ r.pre = t) ∨ (r.kind = .repeated ∧ (r.pre = t ∨ r.post = t))

/-- conversely every unsaturated instant returned for a UNIQUE or REPEATED civil second displays it -/
def converse_statement : Prop :=
  ∀ (z : Zone) (h : Nat) (cs : Fields), TableWF z → CivilCols z → Separated z → Valid cs → NoShift z cs →
    let r := (makeTime z h cs).val.1
    (r.kind = .unique → i64min < r.pre → r.pre < i64max → shows z r.pre (secNum cs)) ∧
    (r.kind = .repeated → shows z r.pre (secNum cs) ∧ shows z r.post (secNum cs))

end Cctz.C03

namespace Cctz.C03
open Cctz Cctz.Tz Cctz.Spec Cctz.Tc

theorem converse : converse_statement := by
  intro z h cs wf cols sep vcs ns
  have ho := makeTime_outcome z h cs wf cols sep vcs ns
  intro r
  cases ho with
  | unique k hk h1 h2 hr =>
    have hr' : r = mkUnique (uval z k (secNum cs)) := hr
    rw [hr']
    refine ⟨fun _ hlo hhi => ?_, fun hk => Kind.noConfusion hk⟩
    have hlo : i64min < uval z k (secNum cs) := hlo
    have hhi : uval z k (secNum cs) < i64max := hhi
    have : uval z k (secNum cs) = secNum cs - offBefore z k := by
      rcases uval_cases z k (secNum cs) with h | ⟨_, h⟩ | ⟨_, h⟩
      · exact h
      · omega
      · omega
    show shows z (uval z k (secNum cs)) (secNum cs)
    rw [this]
    exact (unique_shows wf sep hk h1 h2 _).2 rfl
  | skipped k hk h1 h2 hr =>
    have hr' : r = ⟨.skipped, secNum cs - offBefore z k, timeOf z k, secNum cs - offOf z k⟩ := hr
    rw [hr']
    exact ⟨fun hk => Kind.noConfusion hk, fun hk => Kind.noConfusion hk⟩
  | repeated i hi h1 h2 hr =>
    have hr' : r = ⟨.repeated, secNum cs - offBefore z i, timeOf z i, secNum cs - offOf z i⟩ := hr
    rw [hr']
    refine ⟨fun hk => Kind.noConfusion hk, fun _ => ⟨?_, ?_⟩⟩
    · exact (repeated_shows wf sep hi h1 h2 _).2 (Or.inl rfl)
    · exact (repeated_shows wf sep hi h1 h2 _).2 (Or.inr rfl)

end Cctz.C03

namespace Cctz.C03
open Cctz Cctz.Tz Cctz.Spec Cctz.Tc

theorem roundtrip : roundtrip_statement := by
  intro z h h' t wf cols sep ht hc cs ns
  obtain ⟨vcs, hsh⟩ := breakTime_shows z h t wf cols hc
  have ho := makeTime_outcome z h' cs wf cols sep vcs ns
  intro r
  cases ho with
  | unique k hk h1 h2 hr =>
    have hr' : r = mkUnique (uval z k (secNum cs)) := hr
    rw [hr']
    left
    refine ⟨rfl, ?_⟩
    have ht' := (unique_shows wf sep hk h1 h2 t).1 hsh
    show uval z k (secNum cs) = t
    unfold inI64 at ht
    rcases uval_cases z k (secNum cs) with e | ⟨_, e⟩ | ⟨_, e⟩ <;> omega
  | skipped k hk h1 h2 hr =>
    exact absurd hsh (skipped_shows wf sep hk h1 h2 t)
  | repeated i hi h1 h2 hr =>
    have hr' : r = ⟨.repeated, secNum cs - offBefore z i, timeOf z i, secNum cs - offOf z i⟩ := hr
    rw [hr']
    right
    refine ⟨rfl, ?_⟩
    rcases (repeated_shows wf sep hi h1 h2 t).1 hsh with e | e
    · left; exact e.symm
    · right; exact e.symm

/-! ### the hypotheses are satisfiable -/

/-- an instant inside the overlap of `zEx`: its civil second is REPEATED and the instant is `post` -/
example : TableWF zEx ∧ CivilCols zEx ∧ Separated zEx ∧ inI64 2001600 ∧
    (zEx.extended = false ∨ (2001600 : Int) < timeOf zEx (zEx.transitions.size - 1)) ∧
    NoShift zEx (breakTime zEx 0 2001600).val.1.cs :=
  ⟨zEx_wf, zEx_cols, zEx_sep, by decide, Or.inl rfl, Or.inl rfl⟩
example : (breakTime zEx 0 2001600).val.1.cs = ⟨1970, 1, 24, 4, 0, 0⟩ ∧
    (Tz.makeTime zEx 3 ⟨1970, 1, 24, 4, 0, 0⟩).val.1 = ⟨.repeated, 1998000, 2000000, 2001600⟩ := by
  decide +kernel

/-- hypotheses of `converse` on a UNIQUE civil second of `zEx` -/
example : TableWF zEx ∧ CivilCols zEx ∧ Separated zEx ∧ Valid ⟨1970, 1, 20, 0, 0, 0⟩ ∧
    NoShift zEx ⟨1970, 1, 20, 0, 0, 0⟩ ∧ (Tz.makeTime zEx 0 ⟨1970, 1, 20, 0, 0, 0⟩).val.1.kind = .unique :=
  ⟨zEx_wf, zEx_cols, zEx_sep, by decide, Or.inl rfl, by decide +kernel⟩

end Cctz.C03
