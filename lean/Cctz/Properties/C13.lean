import Cctz.Model.Loader
namespace Cctz.C13
end Cctz.C13
