/-
  C13 — Concurrent loading is schedule-independent (model level: the loader state machine of
  `Cctz.Loader` at the granularity of its critical sections; any number of threads, any schedule).
  Not a theorem: freedom from data races in the C++ memory model (supported by ThreadSanitizer runs
  and by the structural facts recorded in DESIGN.md).  That const queries return the stateless
  answer whatever hint value they read is `Cctz.C14.breakTime_hint_irrelevant` / `makeTime_…`.
-/
import Cctz.Model.Loader
import Cctz.Proofs.LoaderInv

namespace Cctz.C13
open Cctz Cctz.Loader

/-- the state reached from the start by a schedule (a list of thread indices; each occurrence lets
that thread take one atomic step) -/
def reach (w : World) (names : List Name) (sched : List Nat) : LState := run w (initState names) sched

/-- an entry of the cache, once present, never changes -/
def map_monotone_statement : Prop :=
  ∀ (w : World) (s : LState) (τ : Nat) (n : Name) (id : Ident),
    s.map.lookup n = some id → (step w s τ).map.lookup n = some id

/-- all threads that load the same name obtain the same zone and the same success flag,
whichever thread's load finishes first -/
def same_name_same_identity_statement : Prop :=
  ∀ (w : World) (names : List Name) (sched : List Nat) (i j : Nat) (ti tj : Thread) (ok1 ok2 : Bool) (id1 id2 : Ident),
    (reach w names sched).threads[i]? = some ti → (reach w names sched).threads[j]? = some tj →
    ti.name = tj.name → ti.pc = .done ok1 id1 → tj.pc = .done ok2 id2 → id1 = id2 ∧ ok1 = ok2

/-- every value returned under any interleaving is what a single-threaded execution returns:
the success flag is the sequential one, and the zone is UTC exactly for UTC names and failures -/
def result_is_sequential_statement : Prop :=
  ∀ (w : World) (names : List Name) (sched : List Nat) (i : Nat) (t : Thread) (ok : Bool) (id : Ident),
    (reach w names sched).threads[i]? = some t → t.pc = .done ok id →
    ok = seqOk w t.name ∧ (id = .utc ↔ (isUtcName t.name = true ∨ seqOk w t.name = false)) ∧ (ok = true ↔ id ≠ .utc ∨ isUtcName t.name = true)

/-- different names never share a (non-UTC) zone object -/
def distinct_names_distinct_zones_statement : Prop :=
  ∀ (w : World) (names : List Name) (sched : List Nat) (i j : Nat) (ti tj : Thread) (ok1 ok2 : Bool) (g1 g2 : Nat),
    (reach w names sched).threads[i]? = some ti → (reach w names sched).threads[j]? = some tj →
    ti.name ≠ tj.name → ti.pc = .done ok1 (.impl g1) → tj.pc = .done ok2 (.impl g2) → g1 ≠ g2

/-- no thread can be blocked by another: four of its own steps always finish a load -/
def progress_statement : Prop :=
  ∀ (w : World) (s : LState) (τ : Nat) (t : Thread), s.threads[τ]? = some t →
    ∃ ok id, ((run w s [τ, τ, τ, τ]).threads[τ]?.map (·.pc)) = some (.done ok id)

/-! ## proofs -/

theorem map_monotone : map_monotone_statement := by
  intro w s τ n id h
  exact step_map_mono w s τ n id h

/-- what the invariant says about a finished thread -/
theorem done_spec (w : World) (names : List Name) (sched : List Nat) (i : Nat) (t : Thread)
    (ok : Bool) (id : Ident) (h : (reach w names sched).threads[i]? = some t)
    (hp : t.pc = .done ok id) :
    (isUtcName t.name = true ∧ ok = true ∧ id = .utc) ∨
    (isUtcName t.name = false ∧ List.lookup t.name (reach w names sched).map = some id ∧
      ok = (id != .utc)) := by
  have I := inv_reach w names sched
  have := I.thr i t h
  rw [hp] at this
  exact this

theorem same_name_same_identity : same_name_same_identity_statement := by
  intro w names sched i j ti tj ok1 ok2 id1 id2 hi hj hn hp1 hp2
  rcases done_spec w names sched i ti ok1 id1 hi hp1 with ⟨u1, a1, b1⟩ | ⟨u1, a1, b1⟩
  · rcases done_spec w names sched j tj ok2 id2 hj hp2 with ⟨u2, a2, b2⟩ | ⟨u2, a2, b2⟩
    · exact ⟨by rw [b1, b2], by rw [a1, a2]⟩
    · rw [hn, u2] at u1; cases u1
  · rcases done_spec w names sched j tj ok2 id2 hj hp2 with ⟨u2, a2, b2⟩ | ⟨u2, a2, b2⟩
    · rw [hn, u2] at u1; cases u1
    · rw [hn, a2] at a1
      have e : id2 = id1 := Option.some.inj a1
      subst e
      exact ⟨rfl, by rw [b1, b2]⟩

theorem result_is_sequential : result_is_sequential_statement := by
  intro w names sched i t ok id h hp
  have I := inv_reach w names sched
  rcases done_spec w names sched i t ok id h hp with ⟨u, a, b⟩ | ⟨u, a, b⟩
  · subst a; subst b
    simp [seqOk, u]
  · obtain ⟨_, m⟩ := I.mapUtc t.name id a
    subst b
    cases id with
    | utc =>
      have := m.mp rfl
      simp [this, u]
    | impl g =>
      have : seqOk w t.name = true := by
        cases e : seqOk w t.name with
        | true => rfl
        | false => exact absurd (m.mpr e) (by simp)
      simp [this, u]

theorem distinct_names_distinct_zones : distinct_names_distinct_zones_statement := by
  intro w names sched i j ti tj ok1 ok2 g1 g2 hi hj hn hp1 hp2 e
  have I := inv_reach w names sched
  subst e
  rcases done_spec w names sched i ti ok1 _ hi hp1 with ⟨_, _, b1⟩ | ⟨_, a1, _⟩
  · cases b1
  · rcases done_spec w names sched j tj ok2 _ hj hp2 with ⟨_, _, b2⟩ | ⟨_, a2, _⟩
    · cases b2
    · exact hn (I.mapInj _ _ _ a1 a2)

theorem progress : progress_statement := by
  intro w s τ t h
  obtain ⟨t', ok, id, h', _, hp⟩ := block_done w h
  exact ⟨ok, id, by rw [h']; simp [hp]⟩

/-- the hypotheses of the statements above are satisfiable: two threads racing on the same
(unloadable) name both finish with UTC / failure -/
example : ∃ ti tj, (reach { data := fun _ => none } [[120], [120]] [0, 1, 0, 1, 0, 1, 0, 1]).threads[0]? = some ti ∧
    (reach { data := fun _ => none } [[120], [120]] [0, 1, 0, 1, 0, 1, 0, 1]).threads[1]? = some tj ∧
    ti.name = tj.name ∧ ti.pc = .done false .utc ∧ tj.pc = .done false .utc := by
  refine ⟨⟨[120], .done false .utc⟩, ⟨[120], .done false .utc⟩, ?_⟩
  decide +kernel

end Cctz.C13
