/-
  C13 — Concurrent loading is schedule-independent (model level: the loader state machine of
  `Cctz.Loader` at the granularity of its critical sections; any number of threads, any schedule).
  Not a theorem: freedom from data races in the C++ memory model (supported by ThreadSanitizer runs
  and by the structural facts recorded in DESIGN.md).  That const queries return the stateless
  answer whatever hint value they read is `Cctz.C14.breakTime_hint_irrelevant` / `makeTime_…`.
-/
import Cctz.Model.Loader
import Cctz.Proofs.LoaderInv

namespace Cctz.C13
open Cctz Cctz.Loader

/-- the state reached from the start by a schedule (a list of thread indices; each occurrence lets
that thread take one atomic step) -/
def reach (w : World) (names : List Name) (sched : List Nat) : LState := run w (initState names) sched

/-- an entry of the cache, once present, never changes -/
def map_monotone_statement : Prop :=
  ∀ (w : World) (s : LState) (τ : Nat) (n : Name) (id : Ident),
    s.map.lookup n = some id → (step w s τ).map.lookup n = some id

/-- all threads that load the same name obtain the same zone and the same success flag,
whichever thread's load finishes first -/
def same_name_same_identity_statement : Prop :=
  ∀ (w : World) (names : List Name) (sched : List Nat) (i j : Nat) (ti tj : Thread) (ok1 ok2 : Bool) (id1 id2 : Ident),
    (reach w names sched).threads[i]? = some ti → (reach w names sched).threads[j]? = some tj →
    ti.name = tj.name → ti.pc = .done ok1 id1 → tj.pc = .done ok2 id2 → id1 = id2 ∧ ok1 = ok2

/-- every value returned under any interleaving is what a single-threaded execution returns:
the success flag is the sequential one, and the zone is UTC exactly for UTC names and failures -/
def result_is_sequential_statement : Prop :=
  ∀ (w : World) (names : List Name) (sched : List Nat) (i : Nat) (t : Thread) (ok : Bool) (id : Ident),
    (reach w names sched).threads[i]? = some t → t.pc = .done ok id →
    ok = seqOk w t.name ∧ (id = .utc ↔ (isUtcName t.name = true ∨ seqOk w t.name = false)) ∧ (ok = true ↔ id ≠ .utc ∨ isUtcName t.name = true)

/-- different names never share a (non-UTC) zone object -/
def distinct_names_distinct_zones_statement : Prop :=
  ∀ (w : World) (names : List Name) (sched : List Nat) (i j : Nat) (ti tj : Thread) (ok1 ok2 : Bool) (g1 g2 : Nat),
    (reach w names sched).threads[i]? = some ti → (reach w names sched).threads[j]? = some tj →
    ti.name ≠ tj.name → ti.pc = .done ok1 (.impl g1) → tj.pc = .done ok2 (.impl g2) → g1 ≠ g2

/-- no thread can be blocked by another: four of its own steps always finish a load -/
def progress_statement : Prop :=
  ∀ (w : World) (s : LState) (τ : Nat) (t : Thread), s.threads[τ]? = some t →
    ∃ ok id, ((run w s [τ, τ, τ, τ]).threads[τ]?.map (·.pc)) = some (.done ok id)

end Cctz.C13
