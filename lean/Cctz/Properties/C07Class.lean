/-
  C07 (continued) — format() followed by parse() returns the original instant for a whole CLASS of
  format strings, not just for "%Y-%m-%d%ET%H:%M:%E*S%E*z" (C07Whole).

  The class (`Rtc.Lossless`, a decidable predicate on the bytes of the format string; definitions in
  `Cctz/Proofs/RtClassDefs.lean`) — a format is a sequence of items, each one of
    * a literal byte other than '%' and NUL (white space allowed anywhere),
    * "%%",
    * %Y %m %d %e %H %M %S  %E*S %E<n>S  %E*f %E<n>f (15 ≤ n ≤ 1024)  %E*z %::z %:::z  %ET
  such that
    FOLLOW  %Y, %E*S, %E<n>S, %E*f, %E<n>f and %:::z are not directly followed by an item whose text may
            begin with a digit (a digit literal, or any conversion except the offsets, %ET and %%);
            the same for a %e at the beginning of the format or directly behind white space;
            %E*S is not directly followed by a literal '.', %:::z not by a literal ':'.
            Reason: parse() reads these with unlimited width — a signed decimal, all digits of a
            fraction, further groups of an offset; `%e` is read with width 2 once its padding blank was
            skipped with the white space before it (the text's leading white space is skipped too).
            The two-digit conversions and the offsets that always show their seconds are read with a
            fixed width: "%H%M%S" and "%m%d%Y" are in the class.  `%E*S` writes no fraction for whole
            seconds, so a '.' behind it would be taken for its own.  A '-' before a signed field is
            harmless ("%m-%Y" reads "03--5" back).
    FIELDS  year (%Y), month (%m), day (%d or %e), hour (%H), minute (%M), second (%S, %E*S, %E<n>S),
            the fraction in full (%E*S, %E<n>S, %E*f, %E<n>f with n ≥ 15) and the offset in full
            (%E*z, %::z, %:::z) each occur at least once (repetitions are fine: they read the same value).
    NO %s   parse() returns the %s value with a ZERO fraction, whatever else the text says: formats
            with %s form the separate class `Rtc.LosslessS`, whose round trip returns (t, 0).
  The EXTENDED class `Rtc.LosslessX` also contains %Ez %:z %z (followed neither by a digit item nor,
  for %Ez %:z, by ':') and %E4Y; they are exact under a hypothesis on the instant: the offset is a whole
  number of minutes (`usesMinutes`), the year is one of −999 … 9999 (`usesYear4`).
  `Lossless f ↔ LosslessX f ∧ ¬ usesMinutes f ∧ ¬ usesYear4 f`.
  Not in any class: %Z and everything left to strftime (not lossless / not library-defined).
-/
import Cctz.Model.Parse
import Cctz.Spec.FormatSpec
import Cctz.Spec.FormatLex
import Cctz.Proofs.RtClassDefs
import Cctz.Proofs.RtClassMain

namespace Cctz.C07Class
open Cctz Cctz.Bytes Cctz.Format Cctz.Parse Cctz.Spec Cctz.Rtc

/-! ## Statements -/

/-- format then parse returns the original instant and femtoseconds — for EVERY format of the class,
every lookup result that shows the civil second of instant `t` under an offset strictly inside
±24 h (what `lookup(t)` reports in any zone — C01), every femtosecond remainder, any
strftime/strptime, and ANY zone handed to parse (the offset in the text decides) -/
def class_roundtrip_statement : Prop :=
  ∀ (fmt : Bytes) (al : Tz.AbsLookup) (t fs : Int) (z' : Tz.Zone) (sf : Strftime) (sp : Strptime),
    Lossless fmt →
    Valid al.cs → secNum al.cs = t + al.offset → -86400 < al.offset → al.offset < 86400 →
    inI64 t → i64min + 86400 ≤ t → t ≤ i64max - 86400 → 0 ≤ fs → fs < 1000000000000000 →
    (parse sp fmt (format sf fmt al t fs).val z').val.1 = .ok t fs

/-- the extended class: with %Ez/%:z/%z the offset must be whole minutes, with %E4Y the year must
have four characters -/
def class_roundtrip_ext_statement : Prop :=
  ∀ (fmt : Bytes) (al : Tz.AbsLookup) (t fs : Int) (z' : Tz.Zone) (sf : Strftime) (sp : Strptime),
    LosslessX fmt →
    (usesMinutes fmt = true → al.offset % 60 = 0) →
    (usesYear4 fmt = true → -999 ≤ al.cs.y ∧ al.cs.y ≤ 9999) →
    Valid al.cs → secNum al.cs = t + al.offset → -86400 < al.offset → al.offset < 86400 →
    inI64 t → i64min + 86400 ≤ t → t ≤ i64max - 86400 → 0 ≤ fs → fs < 1000000000000000 →
    (parse sp fmt (format sf fmt al t fs).val z').val.1 = .ok t fs

/-- … in particular: offsets without seconds, for instants whose offset is whole minutes -/
def class_roundtrip_minutes_statement : Prop :=
  ∀ (fmt : Bytes) (al : Tz.AbsLookup) (t fs : Int) (z' : Tz.Zone) (sf : Strftime) (sp : Strptime),
    LosslessX fmt → usesYear4 fmt = false → al.offset % 60 = 0 →
    Valid al.cs → secNum al.cs = t + al.offset → -86400 < al.offset → al.offset < 86400 →
    inI64 t → i64min + 86400 ≤ t → t ≤ i64max - 86400 → 0 ≤ fs → fs < 1000000000000000 →
    (parse sp fmt (format sf fmt al t fs).val z').val.1 = .ok t fs

/-- … and %E4Y, for the years it writes with four characters -/
def class_roundtrip_year4_statement : Prop :=
  ∀ (fmt : Bytes) (al : Tz.AbsLookup) (t fs : Int) (z' : Tz.Zone) (sf : Strftime) (sp : Strptime),
    LosslessX fmt → usesMinutes fmt = false → -999 ≤ al.cs.y → al.cs.y ≤ 9999 →
    Valid al.cs → secNum al.cs = t + al.offset → -86400 < al.offset → al.offset < 86400 →
    inI64 t → i64min + 86400 ≤ t → t ≤ i64max - 86400 → 0 ≤ fs → fs < 1000000000000000 →
    (parse sp fmt (format sf fmt al t fs).val z').val.1 = .ok t fs

/-- formats with `%s` (and anything of the extended class around it that reads back): parse()
returns the instant — and a zero fraction, even when the format carries the fraction in full -/
def class_roundtrip_s_statement : Prop :=
  ∀ (fmt : Bytes) (al : Tz.AbsLookup) (t fs : Int) (z' : Tz.Zone) (sf : Strftime) (sp : Strptime),
    LosslessS fmt →
    (usesMinutes fmt = true → al.offset % 60 = 0) →
    (usesYear4 fmt = true → -999 ≤ al.cs.y ∧ al.cs.y ≤ 9999) →
    Valid al.cs → secNum al.cs = t + al.offset → -86400 < al.offset → al.offset < 86400 →
    inI64 t → i64min + 86400 ≤ t → t ≤ i64max - 86400 → 0 ≤ fs → fs < 1000000000000000 →
    (parse sp fmt (format sf fmt al t fs).val z').val.1 = .ok t 0

/-- the text written for a format made of items is the concatenation of the items' documented
renderings (no strftime involved) -/
def class_text_statement : Prop :=
  ∀ (fmt : Bytes) (l : List Item) (al : Tz.AbsLookup) (t fs : Int) (sf : Strftime),
    itemsOf fmt = some l →
    Valid al.cs → inI64 al.cs.y → -86400 < al.offset → al.offset < 86400 → inI64 t → 0 ≤ fs →
    fs < 1000000000000000 →
    (format sf fmt al t fs).val = renderAll al t fs l

/-- the class, read off the items of the format string (`itemsOf f = some l` implies that `l` spells
`f` and is well formed: `Rtc.itemsOf_sound`) -/
def lossless_iff_statement : Prop :=
  ∀ (f : Bytes), Lossless f ↔
    ∃ l, itemsOf f = some l ∧ followOk true l = true ∧ allFields l = true ∧ hasFld l .unix = false ∧
      l.any Item.wholeMinutes = false ∧ l.any Item.fourCharYear = false

/-! ## The classes contain / reject -/

example : Lossless (ofString "%Y-%m-%d%ET%H:%M:%E*S%E*z") := by decide +kernel
example : Lossless (ofString "%Y-%m-%d %H:%M:%E*S %E*z") := by decide +kernel
example : Lossless (ofString "%d/%m/%Y %H.%M.%E*S%::z") := by decide +kernel
example : Lossless (ofString "%E*z %E*S:%M:%H %d.%m.%Y") := by decide +kernel
example : Lossless (ofString "%Y-%m-%e %H:%M:%E15S%E*z") := by decide +kernel
example : Lossless (ofString "  %m-%d-%Y\t%H%M%S.%E*f%%%::z\n") := by decide +kernel
example : Lossless (ofString "%m%d%H%M%E*S%E*z%Y") := by decide +kernel       -- fixed-width fields may touch
example : Lossless (ofString "x%e%H:%M:%E*S%E*z %Y-%m") := by decide +kernel   -- %e behind a literal
example : Lossless (ofString "%Y-%m-%d %H:%M:%E*S %:::z") := by decide +kernel
example : LosslessX (ofString "%E4Y%m%d%H%M%E*S%Ez") := by decide +kernel
example : usesMinutes (ofString "%E4Y%m%d%H%M%E*S%Ez") = true ∧ usesYear4 (ofString "%E4Y%m%d%H%M%E*S%Ez") = true := by
  decide +kernel
example : LosslessS (ofString "x%sy") := by decide +kernel
example : LosslessS (ofString "%s.%E*f") := by decide +kernel
example : losslessb (ofString "%E4Y%m%d") = false ∧ losslessXb (ofString "%E4Y%m%d") = false := by
  decide +kernel                                                               -- no time of day, no offset
example : losslessb (ofString "%Y%m%d %H:%M:%E*S%E*z") = false := by decide +kernel   -- %Y then a digit
example : losslessb (ofString "%Y-%m-%d %H:%M:%E*S.%E*z") = false := by decide +kernel -- %E*S then '.'
example : losslessb (ofString "%e%H:%M:%E*S%E*z %Y-%m") = false := by decide +kernel   -- leading %e then a digit
example : losslessb (ofString "%Y-%m-%d %H:%M:%S%E*z") = false := by decide +kernel    -- no fraction
example : losslessb (ofString "%Y-%m-%d %H:%M:%E3S%E*z") = false := by decide +kernel  -- fraction cut
example : losslessb (ofString "%Y-%m-%d %H:%M:%E*S%Ez") = false := by decide +kernel   -- offset cut
example : losslessXb (ofString "%Y-%m %H:%M:%E*S%Ez%d") = false := by decide +kernel   -- %Ez then a digit
example : losslessb (ofString "%Y-%m-%d %H:%M:%E*S%E*z %Z") = false := by decide +kernel
example : losslessb (ofString "%a %Y-%m-%d %H:%M:%E*S%E*z") = false := by decide +kernel

/-! ## Proofs (helper lemmas in `Cctz/Proofs/RtClass*.lean`) -/

theorem class_roundtrip_ext : class_roundtrip_ext_statement := by
  intro fmt al t fs z' sf sp hL hm hy hv hsec ho1 ho2 _ ht1 ht2 h0 h1
  exact (roundtrip_ext sp sf z' al t fs fmt hm hy hv hsec ho1 ho2 ht1 ht2 h0 h1).1 hL

theorem class_roundtrip : class_roundtrip_statement := by
  intro fmt al t fs z' sf sp hL hv hsec ho1 ho2 ht ht1 ht2 h0 h1
  obtain ⟨hX, hm, hy⟩ := lossless_split fmt hL
  exact class_roundtrip_ext fmt al t fs z' sf sp hX (fun h => by rw [hm] at h; cases h)
    (fun h => by rw [hy] at h; cases h) hv hsec ho1 ho2 ht ht1 ht2 h0 h1

theorem class_roundtrip_minutes : class_roundtrip_minutes_statement := by
  intro fmt al t fs z' sf sp hX hy hmin hv hsec ho1 ho2 ht ht1 ht2 h0 h1
  exact class_roundtrip_ext fmt al t fs z' sf sp hX (fun _ => hmin) (fun h => by rw [hy] at h; cases h)
    hv hsec ho1 ho2 ht ht1 ht2 h0 h1

theorem class_roundtrip_year4 : class_roundtrip_year4_statement := by
  intro fmt al t fs z' sf sp hX hm hy1 hy2 hv hsec ho1 ho2 ht ht1 ht2 h0 h1
  exact class_roundtrip_ext fmt al t fs z' sf sp hX (fun h => by rw [hm] at h; cases h) (fun _ => ⟨hy1, hy2⟩)
    hv hsec ho1 ho2 ht ht1 ht2 h0 h1

theorem class_roundtrip_s : class_roundtrip_s_statement := by
  intro fmt al t fs z' sf sp hL hm hy hv hsec ho1 ho2 _ ht1 ht2 h0 h1
  exact (roundtrip_ext sp sf z' al t fs fmt hm hy hv hsec ho1 ho2 ht1 ht2 h0 h1).2 hL

theorem lossless_iff : lossless_iff_statement := by
  intro f
  unfold Lossless losslessb losslessXb usesMinutes usesYear4
  cases h : itemsOf f with
  | none => simp
  | some l => simp [Bool.and_assoc]

theorem class_text : class_text_statement := by
  intro fmt l al t fs sf hl hv hy ho1 ho2 ht h0 h1
  obtain ⟨rfl, hvl⟩ := itemsOf_sound fmt l hl
  exact format_items sf ⟨hv, hy, ho1, ho2, ht, h0, h1⟩ l hvl

/-! ## The hypotheses are satisfiable; concrete round trips

Year −5 (6 BC), March 5th 07:08:09.5 at UTC−03:30:15 is the instant −62319504096;
2024-02-29 23:59:58.5 at UTC+05:30 is the instant 1709231398. -/

def exAl : Tz.AbsLookup := ⟨⟨-5, 3, 5, 7, 8, 9⟩, -12615, false, ofString "X"⟩
def exT : Int := -62319504096
def exFs : Int := 500000000000000
def exAlM : Tz.AbsLookup := ⟨⟨2024, 2, 29, 23, 59, 58⟩, 19800, false, ofString "IST"⟩
def exTM : Int := 1709231398

example : Valid exAl.cs ∧ secNum exAl.cs = exT + exAl.offset ∧ -86400 < exAl.offset ∧ exAl.offset < 86400 ∧
    inI64 exT ∧ i64min + 86400 ≤ exT ∧ exT ≤ i64max - 86400 ∧ 0 ≤ exFs ∧ exFs < 1000000000000000 := by
  decide +kernel
example : Valid exAlM.cs ∧ secNum exAlM.cs = exTM + exAlM.offset ∧ -86400 < exAlM.offset ∧ exAlM.offset < 86400 ∧
    inI64 exTM ∧ i64min + 86400 ≤ exTM ∧ exTM ≤ i64max - 86400 ∧ exAlM.offset % 60 = 0 ∧
    -999 ≤ exAlM.cs.y ∧ exAlM.cs.y ≤ 9999 := by
  decide +kernel

/-- format, then parse (in the zone with an empty table; no strftime/strptime): the text and the result -/
def rt (al : Tz.AbsLookup) (t : Int) (f : String) (fs : Int) : Bytes × Result :=
  let text := (format (fun _ _ => []) (ofString f) al t fs).val
  (text, (parse (fun _ _ _ => none) (ofString f) text {}).val.1)
def exRt (f : String) (fs : Int) : Bytes × Result := rt exAl exT f fs
def exRtM (f : String) (fs : Int) : Bytes × Result := rt exAlM exTM f fs

example : exRt "%d/%m/%Y %H.%M.%E*S%::z" exFs =
    (ofString "05/03/-5 07.08.09.5-03:30:15", .ok exT exFs) := by decide +kernel
example : exRt "%E*z %E*S:%M:%H %e.%m.%Y" exFs =
    (ofString "-03:30:15 09.5:08:07  5.03.-5", .ok exT exFs) := by decide +kernel
example : exRt "%m-%d-%Y%ET%H%M%E18S%:::z" 5 =
    (ofString "03-05--5T070809.000000000000005000-03:30:15", .ok exT 5) := by decide +kernel
example : exRt "x%sy" exFs = (ofString "x-62319504096y", .ok exT 0) := by decide +kernel
example : exRtM "%E4Y%m%d%H%M%E*S%Ez" exFs = (ofString "20240229235958.5+05:30", .ok exTM exFs) := by
  decide +kernel
example : exRtM "%Y-%m-%d %H:%M:%E*S %:::z" exFs = (ofString "2024-02-29 23:59:58.5 +05:30", .ok exTM exFs) := by
  decide +kernel

/-! ## The side conditions matter (formats outside the class on which the round trip fails) -/

/-- FOLLOW, `%Y`: "%Y%m%d" — the year swallows the digits of the month and the day -/
theorem follow_needs_nondigit_after_Y :
    exRt "%Y%m%d %H:%M:%E*S%E*z" exFs = (ofString "-50305 07:08:09.5-03:30:15", .fail) := by decide +kernel

/-- FOLLOW, `%E*S`: a literal '.' behind it is taken for the fraction's when the seconds are whole -/
theorem follow_needs_no_dot_after_EstarS :
    exRt "%Y-%m-%d %H:%M:%E*S.%E*z" 0 = (ofString "-5-03-05 07:08:09.-03:30:15", .fail) := by decide +kernel

/-- FOLLOW, `%E*S`: digits behind it are swallowed by the fraction -/
theorem follow_needs_nondigit_after_EstarS :
    exRt "%Y-%m-%d %M:%E*S%H%E*z" exFs = (ofString "-5-03-05 08:09.507-03:30:15", .fail) := by decide +kernel

/-- FOLLOW, `%e`: at the beginning of the text (or behind white space) the padding blank of a day
below 10 is skipped as white space, `%e` is then read with width 2 and takes a digit of the next field -/
theorem follow_needs_nondigit_after_leading_e :
    exRt "%e%H:%M:%E*S%E*z %Y-%m" exFs = (ofString " 507:08:09.5-03:30:15 -5-03", .fail) ∧
    exRt "%Y-%m %e%H:%M:%E*S%E*z" exFs = (ofString "-5-03  507:08:09.5-03:30:15", .fail) := by decide +kernel

/-- … while behind a literal the blank is still there and the same pair reads back (in the class) -/
theorem e_after_literal_reads_back :
    exRt "x%e%H:%M:%E*S%E*z %Y-%m" exFs = (ofString "x 507:08:09.5-03:30:15 -5-03", .ok exT exFs) := by
  decide +kernel

/-- FOLLOW, `%Ez` (extended class): digits behind the minutes are read as the offset's seconds -/
theorem follow_needs_nondigit_after_Ez :
    exRtM "%Y-%m %H:%M:%E*S%Ez%d" exFs = (ofString "2024-02 23:59:58.5+05:3029", .fail) := by decide +kernel

/-- FIELDS: without the fraction in full the femtoseconds are lost … -/
theorem fields_needs_fraction :
    exRt "%Y-%m-%d %H:%M:%S%E*z" exFs = (ofString "-5-03-05 07:08:09-03:30:15", .ok exT 0) ∧
    exRt "%Y-%m-%d %H:%M:%E3S%E*z" 123456789012345 =
      (ofString "-5-03-05 07:08:09.123-03:30:15", .ok exT 123000000000000) := by decide +kernel

/-- … and without the seconds of the offset the instant is off by them (so `usesMinutes` formats
need the whole-minutes hypothesis) -/
theorem minutes_needs_whole_minutes :
    exRt "%Y-%m-%d %H:%M:%E*S%Ez" exFs = (ofString "-5-03-05 07:08:09.5-03:30", .ok (exT - 15) exFs) := by
  decide +kernel

/-- `%E4Y` is exact only for years −999 … 9999 (parse() insists on four characters) -/
theorem year4_needs_four_characters :
    rt ⟨⟨12024, 2, 29, 23, 59, 58⟩, 0, false, []⟩ 317278771198 "%E4Y-%m-%d %H:%M:%E*S%E*z" 0 =
      (ofString "12024-02-29 23:59:58+00:00:00", .fail) := by decide +kernel

/-- `%s` wins over everything else in the text, and its fraction is zero: "%s.%E*f" does not return
the femtoseconds it wrote -/
theorem percent_s_drops_fraction :
    exRt "%s.%E*f" exFs = (ofString "-62319504096.5", .ok exT 0) := by decide +kernel

/-- a defect of `ParseOffset` found on the way and repaired in /repo (finding F17, commit "fix: ParseOffset
counted a one-digit minutes/seconds group it did not consume"): a minutes/seconds group of ONE digit was not
consumed, but its value still entered the offset — "+05:30" followed by the literal text "7x" parsed with an
offset of +05:30:07 (the instant came back 7 s early).  With the repair (and the model following it) the
instant is the right one: -/
theorem offset_partial_group_does_not_leak :
    exRtM "%Y-%m-%d %H:%M:%E*S%Ez7x" exFs =
      (ofString "2024-02-29 23:59:58.5+05:307x", .ok exTM exFs) := by decide +kernel

end Cctz.C07Class
