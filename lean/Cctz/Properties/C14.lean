/-
  C14 — Results never depend on call history (hints are invisible).
  The hidden state of a zone is one remembered table index per direction; the theorems hold for
  EVERY natural number as hint value, reachable or not — which also covers relaxed-atomic reads of
  a hint written by another thread (C13).
  (The cache half of C14 — loading a name again returns the first zone without consulting the data
  source — is `Cctz.C13`/`Cctz.C20`'s loader state machine: `cached_load_statement` there.)
-/
import Cctz.Model.Tz
import Cctz.Spec.TableSem
import Cctz.Proofs.Hints

namespace Cctz.C14
open Cctz Cctz.Tz Cctz.Spec

/-- lookup(t) returns the same answer and raises the same flags whatever the hint -/
def breakTime_hint_irrelevant_statement : Prop :=
  ∀ (z : Zone) (h : Nat) (t : Int), TableWF z →
    (breakTime z h t).val.1 = (breakTime z 0 t).val.1 ∧ (breakTime z h t).flags = (breakTime z 0 t).flags

/-- lookup(cs) returns the same answer and raises the same flags whatever the hint -/
def makeTime_hint_irrelevant_statement : Prop :=
  ∀ (z : Zone) (h : Nat) (cs : Fields), TableWF z → CivilSorted z →
    (makeTime z h cs).val.1 = (makeTime z 0 cs).val.1 ∧ (makeTime z h cs).flags = (makeTime z 0 cs).flags

/-- hence convert too -/
def convert_hint_irrelevant_statement : Prop :=
  ∀ (z : Zone) (h : Nat) (cs : Fields), TableWF z → CivilSorted z →
    (convert z h cs).val.1 = (convert z 0 cs).val.1

/-- any sequence of calls, from any hidden state, returns the sequence of stateless answers -/
def history_irrelevant_statement : Prop :=
  ∀ (z : Zone) (h : Nat × Nat) (calls : List Call), TableWF z → CivilSorted z →
    runCalls z h calls = calls.map (stateless z)

end Cctz.C14
