import Cctz.Model.Tz
namespace Cctz.C14
end Cctz.C14
