/-
  C14 — Results never depend on call history (hints are invisible).
  The hidden state of a zone is one remembered table index per direction; the theorems hold for
  EVERY natural number as hint value, reachable or not — which also covers relaxed-atomic reads of
  a hint written by another thread (C13).
  (The cache half of C14 — loading a name again returns the first zone without consulting the data
  source — is `Cctz.C13`/`Cctz.C20`'s loader state machine: `cached_load_statement` there.)
-/
import Cctz.Model.Tz
import Cctz.Spec.TableSem
import Cctz.Proofs.Hints

namespace Cctz.C14
open Cctz Cctz.Tz Cctz.Spec

/-- lookup(t) returns the same answer and raises the same flags whatever the hint -/
def breakTime_hint_irrelevant_statement : Prop :=
  ∀ (z : Zone) (h : Nat) (t : Int), TableWF z →
    (breakTime z h t).val.1 = (breakTime z 0 t).val.1 ∧ (breakTime z h t).flags = (breakTime z 0 t).flags

/-- lookup(cs) returns the same answer and raises the same flags whatever the hint -/
def makeTime_hint_irrelevant_statement : Prop :=
  ∀ (z : Zone) (h : Nat) (cs : Fields), TableWF z → CivilSorted z →
    (makeTime z h cs).val.1 = (makeTime z 0 cs).val.1 ∧ (makeTime z h cs).flags = (makeTime z 0 cs).flags

/-- hence convert too -/
def convert_hint_irrelevant_statement : Prop :=
  ∀ (z : Zone) (h : Nat) (cs : Fields), TableWF z → CivilSorted z →
    (convert z h cs).val.1 = (convert z 0 cs).val.1

/-- any sequence of calls, from any hidden state, returns the sequence of stateless answers -/
def history_irrelevant_statement : Prop :=
  ∀ (z : Zone) (h : Nat × Nat) (calls : List Call), TableWF z → CivilSorted z →
    runCalls z h calls = calls.map (stateless z)

/-! ### proofs (helper lemmas in `Cctz/Proofs/TbSearch.lean`, `Cctz/Proofs/Hints.lean`) -/

theorem breakTime_hint_irrelevant : breakTime_hint_irrelevant_statement :=
  fun _ h t wf => Tb.breakTime_hint wf h t

theorem makeTime_hint_irrelevant : makeTime_hint_irrelevant_statement :=
  fun _ h cs wf cso => Tb.makeTime_hint wf cso h 0 cs

theorem convert_hint_irrelevant : convert_hint_irrelevant_statement :=
  fun _ h cs wf cso => Tb.convert_hint wf cso h 0 cs

theorem history_irrelevant : history_irrelevant_statement :=
  fun _ h calls wf cso => Tb.runCalls_stateless wf cso calls h

/-! the hypotheses are satisfiable on a non-trivial table (three transitions, two types), and
the hinted path is really taken there: hint 1 brackets `t = 5` / `1970-01-01 00:00:05` -/
def exZone : Zone :=
  { transitions := #[
      { unixTime := 0, typeIndex := 0, civilSec := ⟨1970, 1, 1, 0, 0, 0⟩, prevCivilSec := ⟨1969, 12, 31, 23, 59, 59⟩ },
      { unixTime := 10, typeIndex := 1, civilSec := ⟨1970, 1, 1, 1, 0, 10⟩, prevCivilSec := ⟨1970, 1, 1, 0, 0, 9⟩ },
      { unixTime := 20, typeIndex := 0, civilSec := ⟨1970, 1, 1, 1, 0, 20⟩, prevCivilSec := ⟨1970, 1, 1, 1, 0, 19⟩ }],
    types := #[{ utcOffset := 0, isDst := false, abbrIndex := 0 }, { utcOffset := 3600, isDst := true, abbrIndex := 4 }],
    defaultType := 0, abbreviations := [85, 84, 67, 0, 68, 83, 84, 0] }

theorem exZone_wf : TableWF exZone where
  nonempty := by decide
  timeSorted := by
    intro i j hij hj
    have hj' : j < 3 := hj
    have : (i = 0 ∧ j = 1) ∨ (i = 0 ∧ j = 2) ∨ (i = 1 ∧ j = 2) := by omega
    rcases this with ⟨rfl, rfl⟩ | ⟨rfl, rfl⟩ | ⟨rfl, rfl⟩ <;> decide
  typeIdx := by
    intro i hi
    have hi' : i < 3 := hi
    have : i = 0 ∨ i = 1 ∨ i = 2 := by omega
    rcases this with rfl | rfl | rfl <;> decide
  defaultIdx := by decide

theorem exZone_civilSorted : CivilSorted exZone := by
  intro i j hij hj
  have hj' : j < 3 := hj
  have : (i = 0 ∧ j = 1) ∨ (i = 0 ∧ j = 2) ∨ (i = 1 ∧ j = 2) := by omega
  rcases this with ⟨rfl, rfl⟩ | ⟨rfl, rfl⟩ | ⟨rfl, rfl⟩ <;> decide

example : (breakTime exZone 1 5).val = (breakTime exZone 0 5).val := by decide
example : (breakTime exZone 2 5).val.1 = (breakTime exZone 0 5).val.1 ∧
    (breakTime exZone 2 5).val.2 ≠ 2 := by decide

end Cctz.C14
