/-
  C18 — Sub-second time points floor toward the past, never toward zero.
  `/` and `%` in the statements are floor division and non-negative remainder.
-/
import Cctz.Model.Split
import Cctz.Proofs.SplitJoin

namespace Cctz.C18
open Cctz

/-- split_seconds of a tick count `c` of period `N/D` seconds (all panel types have `N = 1` or
`D = 1`): the whole second at or below the instant (`⌊c·N/D⌋`, not the truncation toward zero)
and the non-negative remainder, with `sec · 1s + sub · (N/D)s = c · (N/D)s` exactly -/
def split_floor_statement : Prop :=
  ∀ N D c : Int, 0 < N → 0 < D → (N = 1 ∨ D = 1) →
    let r := (Split.splitSeconds N D c).val
    r.1 = (c * N) / D ∧ 0 ≤ r.2 ∧ r.2 * N < D ∧ r.1 * D + r.2 * N = c * N

/-- no undefined operation when the tick count and the values formed from it fit int64 -/
def split_ok_statement : Prop :=
  ∀ N D c : Int, 0 < N → 0 < D → (N = 1 ∨ D = 1) → inI64 c → inI64 (c * N) → inI64 D →
    inI64 ((c * N) / D - 1) → inI64 (((c * N) / D + 1) * D) →
    (Split.splitSeconds N D c).ok

/-- join_seconds into a type of whole `Num`-second ticks (`Num ≥ 1`) with representation range
`[lo, hi]`: the floor of `sec / Num` when it fits, failure (never a wrapped value) otherwise -/
def join_coarse_statement : Prop :=
  ∀ Num lo hi sec : Int, 1 ≤ Num →
    Split.joinCoarse Num lo hi sec = (if lo ≤ sec / Num ∧ sec / Num ≤ hi then some (sec / Num) else none)

def join_rep_statement : Prop :=
  ∀ lo hi sec : Int,
    Split.joinSecondsRep lo hi sec = (if lo ≤ sec ∧ sec ≤ hi then some sec else none)

/-- the femtosecond remainder handed to format for decimal sub-second ticks (`N = 1`, `D` a
divisor of 10^15): exact, in `[0, 10^15)` -/
def femto_statement : Prop :=
  ∀ D sub : Int, 0 < D → 1000000000000000 % D = 0 → 0 ≤ sub → sub < D →
    (Split.subToFemto 1 D sub).val = sub * (1000000000000000 / D) ∧
    0 ≤ (Split.subToFemto 1 D sub).val ∧ (Split.subToFemto 1 D sub).val < 1000000000000000

end Cctz.C18

namespace Cctz.C18
open Cctz

theorem split_floor : split_floor_statement := by
  intro N D c hN hD hND
  rcases hND with h | h
  · subst h
    have hm := Int.emod_nonneg c (by omega : D ≠ 0)
    have hl := Int.emod_lt_of_pos c hD
    have e := Split.sub_ediv_mul c D
    simp only [Split.splitSeconds_N1_val D c hD, Int.mul_one]
    refine ⟨trivial, hm, hl, ?_⟩
    omega
  · subst h
    simp only [Split.splitSeconds_D1_val N c hN, Int.mul_one, Int.ediv_one, Int.zero_mul]
    refine ⟨trivial, ?_, ?_, ?_⟩ <;> omega

theorem split_ok : split_ok_statement := by
  intro N D c hN hD hND hc hcN hD2 h4 h5
  rcases hND with h | h
  · subst h
    rw [Int.mul_one] at h4 h5
    exact Split.splitSeconds_N1_ok D c hD hc hD2 h4 h5
  · subst h
    exact Split.splitSeconds_D1_ok N c hcN

/-- the hypotheses of `split_ok` are satisfiable (nanosecond ticks, a negative count) -/
example : inI64 (-1500000000 : Int) ∧ inI64 ((-1500000000 : Int) * 1) ∧ inI64 (1000000000 : Int) ∧
    inI64 (((-1500000000 : Int) * 1) / 1000000000 - 1) ∧
    inI64 ((((-1500000000 : Int) * 1) / 1000000000 + 1) * 1000000000) ∧
    (Split.splitSeconds 1 1000000000 (-1500000000)).val = (-2, 500000000) := by decide

theorem join_coarse : join_coarse_statement := by
  intro Num lo hi sec hNum
  unfold Split.joinCoarse
  simp only [Split.joinCoarse_count Num sec hNum]
  by_cases h1 : sec / Num > hi
  · rw [if_pos h1, if_neg (by omega)]
  · rw [if_neg h1]
    by_cases h2 : sec / Num < lo
    · rw [if_pos h2, if_neg (by omega)]
    · rw [if_neg h2, if_pos (by omega)]

theorem join_rep : join_rep_statement := by
  intro lo hi sec
  unfold Split.joinSecondsRep
  by_cases h1 : sec > hi
  · rw [if_pos h1, if_neg (by omega)]
  · rw [if_neg h1]
    by_cases h2 : sec < lo
    · rw [if_pos h2, if_neg (by omega)]
    · rw [if_neg h2, if_pos (by omega)]

theorem femto : femto_statement := by
  intro D sub hD hdvd h0 h1
  rw [Split.subToFemto_val D sub hD hdvd]
  exact ⟨rfl, Split.femto_bounds D sub hD hdvd h0 h1⟩

/-- the hypotheses of `femto` are satisfiable (millisecond ticks) -/
example : (0 : Int) < 1000 ∧ (1000000000000000 : Int) % 1000 = 0 ∧
    (Split.subToFemto 1 1000 999).val = 999000000000000 := by decide

end Cctz.C18
