/-
  The seam — C02 / C03 / C06 for EVERY valid civil second and every int64 instant: across the seam
  between recorded and rule-generated transitions, in years reached through the 400-year shift of
  `MakeTime` (`TimeLocal`), and at the saturated ends.  No `NoShift` hypothesis.

  Semantics: the zone's FULL offset function `offFull z t` is what the model's own `BreakTime`
  reports at `t`, 400-year shift included (`Cctz/Proofs/SeamDefs.lean`); `showsFull z t x` says
  instant `t` displays the civil second numbered `x`.  `offFull` is the table below the last entry
  and for tables that are not extended, does not depend on the hint, and is k400-periodic from
  `last − k400` on (`offFull_…` below).

  `MakeTime` shifts by civil YEAR (years after `lastYear` are looked up 400·s years earlier),
  `BreakTime` by INSTANT (instants at or after the last entry are looked up s cycles earlier), and
  the two agree only on tables that are consistent around the seam: `SeamOK` (four clauses, see
  `Seam.SeamAt` in Cctz/Proofs/SeamDefs.lean; vacuous for tables that are not extended; decided by
  `seamOKb` of Cctz/Proofs/SeamCheck.lean, theorem `seamOKb_iff`).  The statements are false without
  it (`convert_monotone_needs_SeamOK`, `makeTime_full_needs_SeamOK`, `roundtrip_full_needs_SeamOK`,
  `convert_monotone_needs_below`), and the round trip also needs `ShiftRoom`
  (`roundtrip_full_needs_ShiftRoom`).  `SeamOK` holds for the tables `ExtendTransitions` builds
  whenever every instant of the footer rule lies inside its own civil year on both clocks
  (`seamOK_of_rule`); a well-formed TZif file whose footer violates that (daylight time starting at
  `J1` minus one hour, `Seam.newYearTzif`) loads into a table on which `convert` is NOT monotone and
  a skipped civil second is reported UNIQUE — in the model and in the C++ alike.
  `seamOKb` and `shiftRoomb` answer `true` on all 598 shipped zones of testdata/zoneinfo (199 of
  them extended), evaluated with `#eval` over `Tz.load`.

  Vocabulary (Cctz/Proofs/SeamDefs.lean): `k400`, `offFull`, `showsFull`, `lastT`, `lastOff`,
  `lastOffBefore`, `yearStart`, `SeamAt`, `SeamOK`, `ShiftRoom`, `cycles`, `moved`.
-/
import Cctz.Model.Tz
import Cctz.Spec.TableSem
import Cctz.Spec.TableTame
import Cctz.Proofs.SeamDefs
import Cctz.Proofs.SeamSem
import Cctz.Proofs.SeamPath
import Cctz.Proofs.SeamMono
import Cctz.Proofs.SeamClass
import Cctz.Proofs.SeamCheck
import Cctz.Proofs.SeamCheckSound
import Cctz.Proofs.SeamWitness
import Cctz.Proofs.TcWitness
import Cctz.Proofs.SeamRule
import Cctz.Proofs.SeamNY
import Cctz.Proofs.SeamNY2
import Cctz.Properties.C01Glue

namespace Cctz.Seam
open Cctz Cctz.Tz Cctz.Spec

/-! ## statements -/

/-- the full semantics does not depend on the hint, and `BreakTime` reports the civil second
`t + offFull t` -/
def offFull_hint_statement : Prop :=
  ∀ (z : Zone) (h : Nat) (t : Int), TableWF z → CivilCols z →
    let a := (breakTime z h t).val.1
    a.offset = offFull z t ∧ Valid a.cs ∧ showsFull z t (secNum a.cs)

/-- below the last entry, and everywhere on a table that is not extended, it is the table -/
def offFull_table_statement : Prop :=
  ∀ (z : Zone) (t : Int), TableWF z → CivilCols z → (z.extended = false ∨ t < lastT z) →
    offFull z t = offAt z t

/-- at or after the last entry of an extended table it is the table's offset a whole number of
cycles earlier, inside `[last − k400, last)`; hence it is periodic from `last − k400` on -/
def offFull_period_statement : Prop :=
  ∀ (z : Zone) (t : Int), TableWF z → CivilCols z → z.extended = true →
    (lastT z ≤ t → offFull z t = offAt z (t - ((t - lastT z) / k400 + 1) * k400)) ∧
    (lastT z - k400 ≤ t → offFull z (t + k400) = offFull z t)

/-- What lookup(cs) must answer, in the full semantics.  With `s = cycles z cs` (0 on the table
path, the number of 400-year cycles `MakeTime` moves `cs` back otherwise) and `moved s` the code's
forward move with saturation at max() (`moved 0 v = v`):
 * UNIQUE iff exactly one integer instant `t` displays `cs` in the full semantics; the three fields
   are `t` moved back, clamped to int64 (the table path's saturation at the ends), moved forward;
 * SKIPPED iff no instant displays `cs`; `trans` is the table transition `i` moved forward by `s`
   cycles, `pre`/`post` are `x − offset before/after` (moved back and forward again, i.e. saturated);
 * REPEATED iff exactly the two instants `x − offset before/after transition i` display `cs`. -/
def ClassifiedFull (z : Zone) (h : Nat) (cs : Fields) : Prop :=
  let r := (makeTime z h cs).val.1
  let x := secNum cs
  let s := cycles z cs
  match r.kind with
  | .unique => ∃ t, (∀ u, showsFull z u x ↔ u = t) ∧
      r.pre = moved s (clamp64 (t - s * k400)) ∧ r.trans = moved s (clamp64 (t - s * k400)) ∧
      r.post = moved s (clamp64 (t - s * k400))
  | .skipped => (∀ u, ¬ showsFull z u x) ∧ ∃ i, i < z.transitions.size ∧
      r.trans = moved s (timeOf z i) ∧ r.pre = moved s (x - s * k400 - offBefore z i) ∧
      r.post = moved s (x - s * k400 - offOf z i) ∧
      x - offBefore z i ≥ timeOf z i + s * k400 ∧ timeOf z i + s * k400 > x - offOf z i
  | .repeated => ∃ i, i < z.transitions.size ∧
      (∀ u, showsFull z u x ↔ u = x - offBefore z i ∨ u = x - offOf z i) ∧
      r.trans = moved s (timeOf z i) ∧ r.pre = moved s (x - s * k400 - offBefore z i) ∧
      r.post = moved s (x - s * k400 - offOf z i) ∧
      x - offBefore z i < timeOf z i + s * k400 ∧ timeOf z i + s * k400 ≤ x - offOf z i

/-- C02 for every valid civil second (no `NoShift`) -/
def makeTime_full_statement : Prop :=
  ∀ (z : Zone) (h : Nat) (cs : Fields), TableWF z → CivilCols z → Separated z → TimesInRange z →
    SeamOK z → Valid cs → ClassifiedFull z h cs

/-- … and with `ShiftRoom` (the last entry is not before 2196-12-05) the saturation is plain
clamping of the documented instants to the int64 range: `t` for UNIQUE, the transition moved
forward and `x − offset before` for SKIPPED, the transition moved forward and both instants for
REPEATED (`post` of SKIPPED, which lies before the transition by the size of the gap, is left as in
`makeTime_full_statement`: offsets are not bounded by the hypotheses) -/
def makeTime_clamped_statement : Prop :=
  ∀ (z : Zone) (h : Nat) (cs : Fields), TableWF z → CivilCols z → Separated z → TimesInRange z →
    SeamOK z → ShiftRoom z → Valid cs → 1 ≤ cycles z cs →
    let r := (makeTime z h cs).val.1
    let x := secNum cs
    let s := cycles z cs
    match r.kind with
    | .unique => ∃ t, (∀ u, showsFull z u x ↔ u = t) ∧
        r.pre = clamp64 t ∧ r.trans = clamp64 t ∧ r.post = clamp64 t
    | .skipped => (∀ u, ¬ showsFull z u x) ∧ ∃ i, i < z.transitions.size ∧
        r.trans = clamp64 (timeOf z i + s * k400) ∧ r.pre = clamp64 (x - offBefore z i)
    | .repeated => ∃ i, i < z.transitions.size ∧
        (∀ u, showsFull z u x ↔ u = x - offBefore z i ∨ u = x - offOf z i) ∧
        r.trans = clamp64 (timeOf z i + s * k400) ∧ r.pre = clamp64 (x - offBefore z i) ∧
        r.post = clamp64 (x - offOf z i)

/-- looking up the civil second that lookup(t) reports recovers t: UNIQUE with pre = t, or REPEATED
with t one of pre/post; never SKIPPED -/
def RoundTrips (z : Zone) (h h' : Nat) (t : Int) : Prop :=
  let cs := (breakTime z h t).val.1.cs
  let r := (makeTime z h' cs).val.1
  (r.kind = .unique ∧ r.pre = t) ∨ (r.kind = .repeated ∧ (r.pre = t ∨ r.post = t))

/-- C03 for every int64 instant (no `t < last` restriction, no `NoShift`) -/
def roundtrip_full_statement : Prop :=
  ∀ (z : Zone) (h h' : Nat) (t : Int), TableWF z → CivilCols z → Separated z → SeamOK z →
    ShiftRoom z → inI64 t → RoundTrips z h h' t

/-- C06 for all valid civil seconds: `convert` preserves order on the table, across the seam, in
shifted years and at the saturated ends -/
def convert_monotone_full_statement : Prop :=
  ∀ (z : Zone) (h1 h2 : Nat) (cs1 cs2 : Fields), TableWF z → CivilCols z → Separated z →
    TimesInRange z → FirstEntryRoom z → SeamOK z →
    Valid cs1 → Valid cs2 → secNum cs1 < secNum cs2 →
    (convert z h1 cs1).val.1 ≤ (convert z h2 cs2).val.1

/-- `seamOKb` (Cctz/Proofs/SeamCheck.lean, one linear scan per clause) decides `SeamOK` -/
def seamOKb_iff_statement : Prop := ∀ z : Zone, TableWF z → (seamOKb z = true ↔ SeamOK z)

/-- nothing is asked of a table that is not extended -/
def seamOK_notExtended_statement : Prop := ∀ z : Zone, z.extended = false → SeamOK z ∧ ShiftRoom z

/-- every instant of the footer rule lies, on the standard and on the daylight clock, inside the
civil year it is computed for -/
def RuleInYear (r : C01Glue.Rule) : Prop :=
  ∀ y a kind, C01Glue.IsRuleInstant r y a kind →
    yearStart y ≤ a + r.stdOff ∧ yearStart y ≤ a + r.dstOff ∧
    a + r.stdOff ≤ yearStart (y + 1) ∧ a + r.dstOff ≤ yearStart (y + 1)

/-- `SeamOK` for the tables `ExtendTransitions` builds (`C01Glue.ExtendedKeys`: the recorded
entries followed by the rule instants of the years y0 … y0+401; `lastYear = y0 + 401`), `Regular`
as in `C01Glue.lookup_follows_rule`: it holds when the last recorded type has one of the rule's two
offsets, the recorded part shows no civil year after y0+1, and the rule has `RuleInYear`.
(`RuleInYear` is what the footer of `newYearTzif` lacks: its `J1` at `-1` instant lies in the year
before.) -/
def seamOK_of_rule_statement : Prop :=
  ∀ (z : Zone) (r : C01Glue.Rule) (rec : List Transition) (y0 : Int) (dstTi stdTi : Nat),
    TableWF z → C01Glue.ExtendedKeys z r rec y0 dstTi stdTi →
    C01Glue.Regular r y0 ((rec.getLast?.map (·.unixTime)).getD 0) →
    z.lastYear = some (y0 + 401) →
    ((typ z ((rec.getLast?.map (·.typeIndex)).getD 0)).utcOffset = r.stdOff ∨
     (typ z ((rec.getLast?.map (·.typeIndex)).getD 0)).utcOffset = r.dstOff) →
    (∀ u, u < (rec.getLast?.map (·.unixTime)).getD 0 → u + offAt z u < yearStart (y0 + 2)) →
    RuleInYear r → SeamOK z

end Cctz.Seam

namespace Cctz.Seam
open Cctz Cctz.Tz Cctz.Spec Cctz.Tc

/-! ## proofs (helpers: Cctz/Proofs/SeamSem.lean, SeamPath.lean, SeamMono.lean, SeamClass.lean,
SeamCheckSound.lean, SeamRule.lean; concrete tables: SeamWitness.lean, SeamNY.lean, SeamNY2.lean) -/

theorem offFull_hint : offFull_hint_statement := by
  intro z h t wf cc
  exact ⟨breakTime_offset_hint z wf cc h t, breakTime_showsFull z wf cc h t⟩

theorem offFull_table : offFull_table_statement := by
  intro z t wf cc hc
  rw [offFull_eq z wf cc]
  rcases hc with hc | hc
  · exact offExt_notExt z hc t
  · exact offExt_below z hc

theorem offFull_period : offFull_period_statement := by
  intro z t wf cc hx
  refine ⟨fun h => ?_, fun h => ?_⟩
  · rw [offFull_eq z wf cc]; exact offExt_above z hx h
  · rw [offFull_eq z wf cc, offFull_eq z wf cc]; exact offExt_period z hx h

theorem makeTime_full : makeTime_full_statement := by
  intro z h cs wf cols sep tir so vcs
  obtain ⟨r', ho, hr, hs0, hsh, _⟩ := makeTime_unified z h cs wf cols sep so vcs
  unfold ClassifiedFull
  intro r x s
  have hr0 : r = ⟨r'.kind, moved s r'.pre, moved s r'.trans, moved s r'.post⟩ := hr
  have hsh0 : ∀ u, showsFull z u x ↔ shows z (u - s * k400) (x - s * k400) := hsh
  have ho0 : Outcome z (x - s * k400) r' := ho
  clear_value r x s
  rw [hr0]
  cases ho0 with
  | unique k hk h1 h2 hr' =>
    subst hr'
    show ∃ t, (∀ u, showsFull z u x ↔ u = t) ∧ _
    have hu := unique_shows wf sep hk h1 h2
    have hv := uval_eq_clamp wf tir hk (fun h => (h1 h).1) (fun h => (h2 h).2)
    refine ⟨x - s * k400 - offBefore z k + s * k400, ?_, ?_⟩
    · intro u
      rw [hsh0, hu]
      omega
    · rw [show x - s * k400 - offBefore z k + s * k400 - s * k400 = x - s * k400 - offBefore z k by omega,
        ← hv]
      exact ⟨rfl, rfl, rfl⟩
  | skipped k hk h1 h2 hr' =>
    subst hr'
    show (∀ u, ¬ showsFull z u x) ∧ _
    refine ⟨fun u hu => skipped_shows wf sep hk h1 h2 _ ((hsh0 u).1 hu), k, hk, rfl, rfl, rfl, ?_, ?_⟩
    · omega
    · omega
  | repeated i hi h1 h2 hr' =>
    subst hr'
    show ∃ i, _
    refine ⟨i, hi, ?_, rfl, rfl, rfl, ?_, ?_⟩
    · intro u
      rw [hsh0, repeated_shows wf sep hi h1 h2]
      omega
    · omega
    · omega

theorem makeTime_clamped : makeTime_clamped_statement := by
  intro z h cs wf cols sep tir so room vcs hs1
  obtain ⟨r', ho, hr, hs0, hsh, hlow⟩ := makeTime_unified z h cs wf cols sep so vcs
  have hx : z.extended = true := by
    cases hx : z.extended with
    | true => rfl
    | false =>
      have : cycles z cs = 0 := by unfold cycles; rw [hx]; simp
      omega
  have hroom := room hx
  have hlow' := hlow hs1
  intro r x s
  have hr0 : r = ⟨r'.kind, moved s r'.pre, moved s r'.trans, moved s r'.post⟩ := hr
  have hsh0 : ∀ u, showsFull z u x ↔ shows z (u - s * k400) (x - s * k400) := hsh
  have ho0 : Outcome z (x - s * k400) r' := ho
  have hs1' : 1 ≤ s := hs1
  have hlow1 : ∀ u, u < lastT z - k400 → u + offAt z u < x - s * k400 := hlow'
  have hlow0 : ∀ u, shows z u (x - s * k400) → lastT z - k400 ≤ u := by
    intro u hu
    unfold shows at hu
    rcases Int.lt_or_le u (lastT z - k400) with hb | hb
    · have := hlow1 u hb; omega
    · exact hb
  have hK : k400 = 12622780800 := rfl
  clear_value r x s
  rw [hr0]
  cases ho0 with
  | unique k hk h1 h2 hr' =>
    subst hr'
    show ∃ t, (∀ u, showsFull z u x ↔ u = t) ∧ _
    have hu := unique_shows wf sep hk h1 h2
    have hv := uval_eq_clamp wf tir hk (fun h => (h1 h).1) (fun h => (h2 h).2)
    have hb := hlow0 _ ((hu _).2 rfl)
    refine ⟨x - s * k400 - offBefore z k + s * k400, ?_, ?_⟩
    · intro u
      rw [hsh0, hu]
      omega
    · have : moved s (uval z k (x - s * k400)) = clamp64 (x - s * k400 - offBefore z k + s * k400) := by
        rw [hv]; exact moved_clamp_eq_clamp (by omega) (by omega)
      exact ⟨this, this, this⟩
  | skipped k hk h1 h2 hr' =>
    subst hr'
    show (∀ u, ¬ showsFull z u x) ∧ _
    -- the transition itself is not before `last − k400`: it shows a second after `x − s·k400`
    have hb : lastT z - k400 ≤ timeOf z k := by
      rcases Int.lt_or_le (timeOf z k) (lastT z - k400) with hb | hb
      · have := hlow1 _ hb
        rw [offAt_entry wf hk] at this
        omega
      · exact hb
    refine ⟨fun u hu => skipped_shows wf sep hk h1 h2 _ ((hsh0 u).1 hu), k, hk, ?_, ?_⟩
    · exact moved_eq_clamp (v := timeOf z k) hs1' (by omega)
    · have := moved_eq_clamp (v := x - s * k400 - offBefore z k) hs1' (by omega)
      rw [show x - s * k400 - offBefore z k + s * k400 = x - offBefore z k by omega] at this
      exact this
  | repeated i hi h1 h2 hr' =>
    subst hr'
    show ∃ i, _
    have hrep := repeated_shows wf sep hi h1 h2
    have hb1 := hlow0 _ ((hrep _).2 (Or.inl rfl))
    have hb2 := hlow0 _ ((hrep _).2 (Or.inr rfl))
    refine ⟨i, hi, ?_, ?_, ?_, ?_⟩
    · intro u
      rw [hsh0, hrep]
      omega
    · exact moved_eq_clamp (v := timeOf z i) hs1' (by omega)
    · have := moved_eq_clamp (v := x - s * k400 - offBefore z i) hs1' (by omega)
      rw [show x - s * k400 - offBefore z i + s * k400 = x - offBefore z i by omega] at this
      exact this
    · have := moved_eq_clamp (v := x - s * k400 - offOf z i) hs1' (by omega)
      rw [show x - s * k400 - offOf z i + s * k400 = x - offOf z i by omega] at this
      exact this

theorem roundtrip_full : roundtrip_full_statement := by
  intro z h h' t wf cols sep so room ht
  unfold RoundTrips
  intro cs
  obtain ⟨vcs, hsh⟩ := breakTime_showsFull z wf cols h t
  obtain ⟨r', ho, hr, hs0, hshw, hlow⟩ := makeTime_unified z h' cs wf cols sep so vcs
  intro r
  have hr0 : r = ⟨r'.kind, moved (cycles z cs) r'.pre, moved (cycles z cs) r'.trans,
    moved (cycles z cs) r'.post⟩ := hr
  have ht' := (hshw t).1 hsh
  -- the moved-back instant is not before `last − k400` when there is a shift
  have hb : 1 ≤ cycles z cs → -5461633793 ≤ t - cycles z cs * k400 := by
    intro hs1
    have hx : z.extended = true := by
      rcases Bool.eq_false_or_eq_true z.extended with hx | hx
      · exact hx
      · have := cycles_notExt (by rw [hx]; simp) cs; omega
    have hroom := room hx
    rcases Int.lt_or_le (t - cycles z cs * k400) (lastT z - k400) with hb | hb
    · have := hlow hs1 _ hb
      unfold shows at ht'; omega
    · unfold k400 at *; omega
  generalize cycles z cs = s at *
  generalize secNum cs = x at *
  unfold inI64 at ht
  have key : moved s (t - s * k400) = t := by
    rw [moved_exact hs0 hb (by omega)]; omega
  clear_value r
  rw [hr0]
  cases ho with
  | unique k hk h1 h2 hr' =>
    subst hr'
    left
    refine ⟨rfl, ?_⟩
    have e := (unique_shows wf sep hk h1 h2 _).1 ht'
    show moved s (uval z k (x - s * k400)) = t
    rcases uval_cases z k (x - s * k400) with e' | ⟨e1, _⟩ | ⟨e1, _⟩
    · rw [e', ← e]; exact key
    · exfalso
      rcases Int.lt_or_le s 1 with h0 | h0
      · have : s = 0 := by omega
        subst this; omega
      · have := hb h0; unfold i64min at e1; omega
    · exfalso
      have : 0 ≤ s * k400 := Int.mul_nonneg hs0 (by decide)
      omega
  | skipped k hk h1 h2 hr' =>
    exact absurd ht' (skipped_shows wf sep hk h1 h2 _)
  | repeated i hi h1 h2 hr' =>
    subst hr'
    right
    refine ⟨rfl, ?_⟩
    rcases (repeated_shows wf sep hi h1 h2 _).1 ht' with e | e
    · left; show moved s (x - s * k400 - offBefore z i) = t; rw [← e]; exact key
    · right; show moved s (x - s * k400 - offOf z i) = t; rw [← e]; exact key

theorem convert_monotone_full : convert_monotone_full_statement := by
  intro z h1 h2 cs1 cs2 wf cols sep tir fer so v1 v2 hlt
  obtain ⟨a, ha, fa, sa0, ea⟩ := convert_first z h1 cs1 wf cols sep tir fer so v1
  obtain ⟨b, hb, fb, sb0, eb⟩ := convert_first z h2 cs2 wf cols sep tir fer so v2
  rw [ha, hb]
  by_cases hx : z.extended = true
  · obtain ⟨ly, hly, sm, a1, a2⟩ := ea hx
    obtain ⟨ly', hly', _, b1, b2⟩ := eb hx
    have : ly' = ly := by rw [hly] at hly'; exact (Option.some.inj hly').symm
    subst this
    have hy := yearStart_window ly'
    generalize cycles z cs1 = s1 at *
    generalize cycles z cs2 = s2 at *
    have hs : s1 ≤ s2 := by
      rcases Int.lt_or_le s2 s1 with h | h
      · have := a2 (by omega)
        unfold k400 at *; omega
      · exact h
    apply moved_clamp_le sa0 hs
    rcases Int.lt_or_le s1 s2 with h | h
    · have := firstAt_seam wf sm fa fb a1 (b2 (by omega))
      unfold k400 at *; omega
    · have : s1 = s2 := by omega
      subst this
      have := firstAt_mono fa fb (by omega)
      omega
  · rw [cycles_notExt hx cs1] at *
    rw [cycles_notExt hx cs2] at *
    apply moved_clamp_le (Int.le_refl _) (Int.le_refl _)
    have := firstAt_mono fa fb (by omega)
    omega

theorem seamOKb_iff : seamOKb_iff_statement := fun z wf => seamOKb_spec z wf

theorem seamOK_notExtended : seamOK_notExtended_statement := by
  intro z hx
  exact ⟨fun h => by rw [hx] at h; exact absurd h (by simp), fun h => by rw [hx] at h; exact absurd h (by simp)⟩

theorem seamOK_of_rule : seamOK_of_rule_statement := by
  intro z r rec y0 dstTi stdTi wf hx hreg hly hro hshow hiy _
  obtain ⟨hrec, _, ⟨gen, hl, hkeys⟩, hdo, _, hso, _, gs, ge⟩ := hx
  rw [C01Glue.yearPairs_eq r gs ge] at hkeys
  have ps := Rg.inst_per r.sd r.st r.stdOff gs
  have pe := Rg.inst_per r.ed r.et r.dstOff ge
  have rg := Rg.reg_of_regular gs ge ((C01Glue.regular_iff r y0 _).1 hreg)
  have c := chain_of_table wf ps pe hl hkeys rg
  refine ⟨y0 + 401, hly, seamAt_of_rule wf hrec ps pe hl hkeys rg c hso hdo hro hshow ?_⟩
  intro y a ha
  rcases ha with ha | ha
  · exact hiy y a true ((C01Glue.isRuleInstant_iff r gs ge y a true).2 (Or.inl ⟨rfl, ha⟩))
  · exact hiy y a false ((C01Glue.isRuleInstant_iff r gs ge y a false).2 (Or.inr ⟨rfl, ha⟩))

end Cctz.Seam

namespace Cctz.Seam
open Cctz Cctz.Tz Cctz.Spec Cctz.Tc

/-! ## the hypotheses are satisfiable -/

/-- `zYear` (Cctz/Proofs/SeamWitness.lean): an extended table with `lastYear = 2402`, +1 h standard
time, +2 h daylight time from 2002-03-31 to 2002-10-27 and again from 2402-03-31 to 2402-10-27 (the
last entry).  Every hypothesis of the three theorems holds on it, for civil seconds ON the shift path
(year 2900: two cycles; year 2802: one cycle) and at the seam (December 2402, after the last entry,
where `BreakTime` shifts and `MakeTime` does not). -/
example : TableWF zYear ∧ CivilCols zYear ∧ Separated zYear ∧ TimesInRange zYear ∧
    FirstEntryRoom zYear ∧ SeamOK zYear ∧ ShiftRoom zYear ∧ zYear.extended = true ∧
    Valid ⟨2900, 7, 1, 12, 0, 0⟩ ∧ cycles zYear ⟨2900, 7, 1, 12, 0, 0⟩ = 2 ∧
    Valid ⟨2402, 12, 25, 12, 0, 0⟩ ∧ cycles zYear ⟨2402, 12, 25, 12, 0, 0⟩ = 0 ∧
    lastT zYear < 13663594800 ∧ inI64 29348888400 :=
  ⟨zYear_wf, zYear_cols, zYear_sep, zYear_tir, zYear_fer, zYear_seam, zYear_room, rfl,
    by decide, by decide +kernel, by decide, by decide +kernel, by decide +kernel, by decide⟩

/-- all three kinds of answer occur on the shift path (year 2802 is looked up in 2402 and moved
forward one cycle): UNIQUE in 2900, the gap of 2802-03-31, the overlap of 2802-10-27 -/
example : (Tz.makeTime zYear 0 ⟨2900, 7, 1, 12, 0, 0⟩).val.1 = mkUnique 29363684400 ∧
    (Tz.makeTime zYear 5 ⟨2802, 3, 31, 2, 30, 0⟩).val.1 = ⟨.skipped, 26263099800, 26263098000, 26263096200⟩ ∧
    (Tz.makeTime zYear 1 ⟨2802, 10, 27, 2, 30, 0⟩).val.1 = ⟨.repeated, 26281240200, 26281242000, 26281243800⟩ ∧
    (Tz.makeTime zYear 0 ⟨2402, 12, 25, 12, 0, 0⟩).val.1 = mkUnique 13663594800 := by
  decide +kernel

/-- an instant of year 2900 and its round trip -/
example : (breakTime zYear 0 29348888400).val.1.cs = ⟨2900, 1, 11, 6, 0, 0⟩ ∧
    (Tz.makeTime zYear 3 ⟨2900, 1, 11, 6, 0, 0⟩).val.1 = mkUnique 29348888400 := by decide +kernel

/-- a table that is not extended has `SeamOK` and `ShiftRoom` for free: the example table of C02 / C06 -/
example : TableWF zEx ∧ CivilCols zEx ∧ Separated zEx ∧ TimesInRange zEx ∧ FirstEntryRoom zEx ∧
    SeamOK zEx ∧ ShiftRoom zEx :=
  ⟨zEx_wf, zEx_cols, zEx_sep, zEx_tir, zEx_fer, (seamOK_notExtended zEx rfl).1, (seamOK_notExtended zEx rfl).2⟩

/-! ### New York

`nyZ` (Cctz/Proofs/SeamNY.lean) is the table `Rg.nyZone` of Cctz/Proofs/RgExample.lean — the two 2007
transitions of New York followed by the 802 rule instants of 2008 … 2408 — with the `lastYear = 2408`
that `ExtendTransitions` records for it.  Every hypothesis holds on it: `SeamOK` by
`seamAt_of_rule` (the rule `M3.2.0/2,M11.1.0/2` has `InYear`), `Separated` because two rule
instants are more than an hour apart.  (`seamOKb nyZ = true` by `#eval` as well; with `lastYear`
2407 or 2409, i.e. the shift window moved by a year, it answers `false`.  The kernel cannot evaluate
the 804 entries in reasonable time, so the facts below are proved, not decided.) -/
example : TableWF nyZ ∧ CivilCols nyZ ∧ Separated nyZ ∧ TimesInRange nyZ ∧ FirstEntryRoom nyZ ∧
    SeamOK nyZ ∧ ShiftRoom nyZ ∧ nyZ.extended = true ∧ nyZ.lastYear = some 2408 ∧
    Valid ⟨2900, 7, 1, 12, 0, 0⟩ ∧ cycles nyZ ⟨2900, 7, 1, 12, 0, 0⟩ = 2 ∧
    Valid ⟨2408, 12, 25, 12, 0, 0⟩ ∧ cycles nyZ ⟨2408, 12, 25, 12, 0, 0⟩ = 0 :=
  ⟨nyZ_wf, nyZ_cols, nyZ_sep, nyZ_tir, nyZ_fer, nyZ_seamOK, nyZ_room, rfl, rfl,
    by decide, by decide +kernel, by decide, by decide +kernel⟩

/-- so, e.g., `convert` is monotone in New York from Christmas 2408 (table path, after the last
entry) over New Year 2409 (first shifted second) to 2900, whatever the hints, … -/
example (h1 h2 h3 : Nat) :
    (convert nyZ h1 ⟨2408, 12, 25, 12, 0, 0⟩).val.1 ≤ (convert nyZ h2 ⟨2409, 1, 1, 0, 0, 0⟩).val.1 ∧
    (convert nyZ h2 ⟨2409, 1, 1, 0, 0, 0⟩).val.1 ≤ (convert nyZ h3 ⟨2900, 7, 1, 12, 0, 0⟩).val.1 :=
  ⟨convert_monotone_full nyZ h1 h2 _ _ nyZ_wf nyZ_cols nyZ_sep nyZ_tir nyZ_fer nyZ_seamOK
      (by decide) (by decide) (by decide +kernel),
   convert_monotone_full nyZ h2 h3 _ _ nyZ_wf nyZ_cols nyZ_sep nyZ_tir nyZ_fer nyZ_seamOK
      (by decide) (by decide) (by decide +kernel)⟩

/-- … and every int64 instant round-trips, e.g. 2900-01-01 00:00:00 UTC and max() -/
example (h h' : Nat) : RoundTrips nyZ h h' 29348006400 ∧ RoundTrips nyZ h h' i64max :=
  ⟨roundtrip_full nyZ h h' _ nyZ_wf nyZ_cols nyZ_sep nyZ_seamOK nyZ_room (by decide),
   roundtrip_full nyZ h h' _ nyZ_wf nyZ_cols nyZ_sep nyZ_seamOK nyZ_room (by decide)⟩

/-! ## `SeamOK` and `ShiftRoom` are needed -/

/-- `zNewYear` (Cctz/Proofs/SeamWitness.lean) has the shape `Load` gives the 148-byte file
`newYearTzif`, whose footer rule `XST-1XDT,J1/` `-1,J180` starts daylight time one hour BEFORE New
Year: entries 2002-12-31 22:00 UTC → +2 h, 2003-06-29 00:00 UTC → +1 h, … , 2401-12-31 22:00 UTC
→ +2 h, 2402-06-29 00:00 UTC → +1 h, `lastYear = 2402`.  The start that belongs to rule year 2403
happens on 2402-12-31 and is not tabulated; `MakeTime` answers the rest of civil year 2402 with the
last entry's +1 h, `BreakTime` finds +2 h four hundred years earlier.  Every hypothesis except
`SeamOK` (clause `window`) holds, and `convert` goes backwards across New Year 2403:
2402-12-31 23:30:00 ↦ 13664154600, 2403-01-01 00:10:00 ↦ 13664153400. -/
theorem convert_monotone_needs_SeamOK :
    ¬ (∀ (z : Zone) (h1 h2 : Nat) (cs1 cs2 : Fields), TableWF z → CivilCols z → Separated z →
      TimesInRange z → FirstEntryRoom z →
      Valid cs1 → Valid cs2 → secNum cs1 < secNum cs2 →
      (convert z h1 cs1).val.1 ≤ (convert z h2 cs2).val.1) := by
  intro H
  have h := H zNewYear 0 0 ⟨2402, 12, 31, 23, 30, 0⟩ ⟨2403, 1, 1, 0, 10, 0⟩ zNewYear_wf zNewYear_cols
    zNewYear_sep zNewYear_tir zNewYear_fer (by decide) (by decide) (by decide +kernel)
  revert h
  decide +kernel

/-- clause `below` alone is needed too: on `zBelow` the other three clauses of `SeamAt` hold
(`zBelow_clauses`), the instants just before `last − k400` show the first hours of 2003, and
2402-12-31 23:55:00 ↦ 13664156100 while 2403-01-01 00:30:00 ↦ 13664151000 -/
theorem convert_monotone_needs_below :
    ¬ (∀ (z : Zone) (h1 h2 : Nat) (cs1 cs2 : Fields) (ly : Int), TableWF z → CivilCols z → Separated z →
      TimesInRange z → FirstEntryRoom z → z.extended = true → z.lastYear = some ly →
      lastT z + lastOff z ≤ yearStart (ly + 1) → lastT z + lastOffBefore z ≤ yearStart (ly + 1) →
      (∀ t, lastT z - k400 ≤ t → t < lastT z →
        (t + lastOff z < yearStart (ly - 399) ∨ t + offAt z t < yearStart (ly - 399)) →
        offAt z t = lastOff z) →
      Valid cs1 → Valid cs2 → secNum cs1 < secNum cs2 →
      (convert z h1 cs1).val.1 ≤ (convert z h2 cs2).val.1) := by
  intro H
  have h := H zBelow 0 0 ⟨2402, 12, 31, 23, 55, 0⟩ ⟨2403, 1, 1, 0, 30, 0⟩ 2402 zBelow_wf zBelow_cols
    zBelow_sep zBelow_tir zBelow_fer rfl rfl zBelow_clauses.1 zBelow_clauses.2.1
    (window_of_check zBelow_wf 2402 (Lt.allIdx_sound zBelow_clauses.2.2.2))
    (by decide) (by decide) (by decide +kernel)
  revert h
  decide +kernel

/-- … and the civil second 2402-12-31 23:30:00, which no instant displays (daylight time has
started at 23:00), is reported UNIQUE at an instant that displays 2403-01-01 00:30:00 -/
theorem makeTime_full_needs_SeamOK :
    ¬ (∀ (z : Zone) (h : Nat) (cs : Fields), TableWF z → CivilCols z → Separated z → TimesInRange z →
      Valid cs → ClassifiedFull z h cs) := by
  intro H
  have h := H zNewYear 0 ⟨2402, 12, 31, 23, 30, 0⟩ zNewYear_wf zNewYear_cols zNewYear_sep zNewYear_tir
    (by decide)
  have hr : (Tz.makeTime zNewYear 0 ⟨2402, 12, 31, 23, 30, 0⟩).val.1 = mkUnique 13664154600 := by
    decide +kernel
  have hc : cycles zNewYear ⟨2402, 12, 31, 23, 30, 0⟩ = 0 := by decide +kernel
  have hx : secNum ⟨2402, 12, 31, 23, 30, 0⟩ = 13664158200 := by decide +kernel
  unfold ClassifiedFull at h
  simp only [hr, mkUnique, hc, hx, moved_zero, Int.zero_mul, Int.sub_zero] at h
  obtain ⟨t, hsh, hpre, _⟩ := h
  have ht : t = 13664154600 := by
    unfold clamp64 i64min i64max at hpre
    split at hpre
    · omega
    · split at hpre <;> omega
  subst ht
  have := (hsh 13664154600).2 rfl
  unfold showsFull at this
  have ho : offFull zNewYear 13664154600 = 7200 := by decide +kernel
  omega

/-- `zStuck`: daylight time over the whole window `[last − k400, last)`, standard time from the last
entry (2402-06-29) on, `lastYear = 2402`.  `BreakTime` reports daylight time 1000 s after the last
entry, `MakeTime` looks the reported civil second up in standard time: the round trip is an hour off -/
theorem roundtrip_full_needs_SeamOK :
    ¬ (∀ (z : Zone) (h h' : Nat) (t : Int), TableWF z → CivilCols z → Separated z →
      ShiftRoom z → inI64 t → RoundTrips z h h' t) := by
  intro H
  have h := H zStuck 0 0 13648090600 zStuck_wf zStuck_cols zStuck_sep zStuck_room (by decide)
  revert h
  unfold RoundTrips
  decide +kernel

/-- `zEarly`: an extended UTC table whose only entry is at 0 (`SeamOK` holds).  One second below
max() `BreakTime` removes 730692562 cycles; `MakeTime` sees a shift count above `INT64_MAX / k400`
and answers max() -/
theorem roundtrip_full_needs_ShiftRoom :
    ¬ (∀ (z : Zone) (h h' : Nat) (t : Int), TableWF z → CivilCols z → Separated z → SeamOK z →
      inI64 t → RoundTrips z h h' t) := by
  intro H
  have h := H zEarly 0 0 9223372036854775806 zEarly_wf zEarly_cols zEarly_sep zEarly_seam (by decide)
  revert h
  unfold RoundTrips
  decide +kernel

end Cctz.Seam
