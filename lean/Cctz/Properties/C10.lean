/-
  C10 — Saturation at the ends of the time_point range (table level, the path of MakeTime that
  takes no 400-year shift).  A civil second beyond the `civil_max` of the last entry's type
  converts to max(), one below the `civil_min` of the default type to min(); and the civil seconds
  that lookup(max()) / lookup(min()) report convert back to exactly max() / min().

  Hypotheses beyond `TableWF`/`CivilCols`: the table's instants lie inside int64 where that
  matters (`TableWF` speaks about arbitrary integers; the C++ cannot hold others) — see
  `saturate_max_needs_time_bound` for why the bound cannot be dropped.
-/
import Cctz.Model.Tz
import Cctz.Spec.TableSem
import Cctz.Proofs.TlSaturate
import Cctz.Proofs.TlFixed

namespace Cctz.C10
open Cctz Cctz.Tz Cctz.Spec

/-- every offset is below a day in size (Load rejects the others) -/
def OffsetsSmall (z : Zone) : Prop :=
  ∀ k, k < z.types.size → -86400 < (typ z k).utcOffset ∧ (typ z k).utcOffset < 86400

/-- a civil second after the last entry's `prev_civil_sec` and beyond the `civil_max` of its type
converts to max(), for every hint -/
def saturate_max_statement : Prop :=
  ∀ (z : Zone) (h : Nat) (cs : Fields), TableWF z → CivilCols z → CivilSorted z → Valid cs →
    NoShift z cs → timeOf z (z.transitions.size - 1) ≤ i64max →
    Civil.lt (trn z (z.transitions.size - 1)).prevCivilSec cs = true →
    Civil.lt (typ z (trn z (z.transitions.size - 1)).typeIndex).civilMax cs = true →
    (makeTime z h cs).val.1 = ⟨.unique, i64max, i64max, i64max⟩

/-- with offsets below a day and the last entry two days or more before max(), being beyond
`civil_max` alone is enough -/
def saturate_max_small_statement : Prop :=
  ∀ (z : Zone) (h : Nat) (cs : Fields), TableWF z → CivilCols z → CivilSorted z → OffsetsSmall z →
    Valid cs → NoShift z cs → timeOf z (z.transitions.size - 1) ≤ i64max - 172800 →
    Civil.lt (typ z (trn z (z.transitions.size - 1)).typeIndex).civilMax cs = true →
    (makeTime z h cs).val.1 = ⟨.unique, i64max, i64max, i64max⟩

/-- a civil second before the first entry's civil second, at or before its `prev_civil_sec`, and
below the `civil_min` of the default type converts to min(), for every hint -/
def saturate_min_statement : Prop :=
  ∀ (z : Zone) (h : Nat) (cs : Fields),
    Civil.lt cs (trn z 0).civilSec = true →
    Civil.le cs (trn z 0).prevCivilSec = true →
    Civil.lt cs (typ z z.defaultType).civilMin = true →
    (makeTime z h cs).val.1 = ⟨.unique, i64min, i64min, i64min⟩

/-- with offsets below a day and the first entry two days or more after min(), being below the
default type's `civil_min` alone is enough -/
def saturate_min_small_statement : Prop :=
  ∀ (z : Zone) (h : Nat) (cs : Fields), TableWF z → CivilCols z → OffsetsSmall z → Valid cs →
    i64min + 172800 ≤ timeOf z 0 →
    Civil.lt cs (typ z z.defaultType).civilMin = true →
    (makeTime z h cs).val.1 = ⟨.unique, i64min, i64min, i64min⟩

/-- the civil second lookup(max()) reports converts back to exactly max() (table not extended) -/
def max_roundtrip_statement : Prop :=
  ∀ (z : Zone) (h h' : Nat), TableWF z → CivilCols z → CivilSorted z → OffsetsSmall z →
    z.extended = false → timeOf z (z.transitions.size - 1) ≤ i64max - 172800 →
    (makeTime z h' (breakTime z h i64max).val.1.cs).val.1 = ⟨.unique, i64max, i64max, i64max⟩

/-- the civil second lookup(min()) reports converts back to exactly min() -/
def min_roundtrip_statement : Prop :=
  ∀ (z : Zone) (h h' : Nat), TableWF z → CivilCols z → OffsetsSmall z →
    i64min + 172800 ≤ timeOf z 0 →
    (makeTime z h' (breakTime z h i64min).val.1.cs).val.1 = ⟨.unique, i64min, i64min, i64min⟩

/-! ## proofs -/

theorem saturate_max : saturate_max_statement := by
  intro z h cs wf cc cso v hns hlast h3 h4
  rw [Tl.makeTime_max z h cs wf cc cso v hns hlast h3 h4]; rfl

theorem saturate_max_small : saturate_max_small_statement := by
  intro z h cs wf cc cso os v hns hlast h4
  rw [Tl.makeTime_max_small z h cs wf cc cso os v hns hlast h4]; rfl

theorem saturate_min : saturate_min_statement := by
  intro z h cs h1 h3 h4
  rw [Tl.makeTime_min z h cs h1 h3 h4]; rfl

theorem saturate_min_small : saturate_min_small_statement := by
  intro z h cs wf cc os v hfirst h4
  rw [Tl.makeTime_min_small z h cs wf cc os v hfirst h4]; rfl

theorem max_roundtrip : max_roundtrip_statement := by
  intro z h h' wf cc cso os hext hlast
  rw [Tl.max_roundtrip z h h' wf cc cso os hext hlast]; rfl

theorem min_roundtrip : min_roundtrip_statement := by
  intro z h h' wf cc os hfirst
  rw [Tl.min_roundtrip z h h' wf cc os hfirst]; rfl

/-! ## the hypotheses are satisfiable: the built-in UTC+1 table -/

example : ∃ (z : Zone) (cs cs' : Fields), TableWF z ∧ CivilCols z ∧ CivilSorted z ∧ OffsetsSmall z ∧
    z.extended = false ∧ Valid cs ∧ NoShift z cs ∧ Valid cs' ∧
    timeOf z (z.transitions.size - 1) ≤ i64max - 172800 ∧ i64min + 172800 ≤ timeOf z 0 ∧
    Civil.lt (trn z (z.transitions.size - 1)).prevCivilSec cs = true ∧
    Civil.lt (typ z (trn z (z.transitions.size - 1)).typeIndex).civilMax cs = true ∧
    Civil.lt cs' (trn z 0).civilSec = true ∧ Civil.le cs' (trn z 0).prevCivilSec = true ∧
    Civil.lt cs' (typ z z.defaultType).civilMin = true := by
  refine ⟨Tl.fixedZone 3600, ⟨300000000000, 1, 1, 0, 0, 0⟩, ⟨-300000000000, 1, 1, 0, 0, 0⟩,
    Tl.fixed_wf _, Tl.fixed_cols _, Tl.fixed_civilSorted _, ?_, rfl, by decide, Or.inl rfl, by decide,
    by decide +kernel, by decide +kernel, by decide +kernel, by decide +kernel, by decide +kernel,
    by decide +kernel, by decide +kernel⟩
  intro k hk
  have : k = 0 := by
    have : (Tl.fixedZone 3600).types.size = 1 := rfl
    omega
  subst this
  decide

/-! ## why `saturate_max` bounds the last instant

`TableWF` allows instants outside int64.  With the bound dropped the statement is false: a single
entry at max() + 10000 that moves the offset from 0 to +3600 leaves a gap; a civil second inside
the gap is after `prev_civil_sec` and beyond `civil_max`, and MakeTime answers SKIPPED.  (No C++
object can hold such a table; the fault is in the unbounded statement, not the code.) -/

def saturate_max_unbounded_statement : Prop :=
  ∀ (z : Zone) (h : Nat) (cs : Fields), TableWF z → CivilCols z → CivilSorted z → Valid cs →
    NoShift z cs →
    Civil.lt (trn z (z.transitions.size - 1)).prevCivilSec cs = true →
    Civil.lt (typ z (trn z (z.transitions.size - 1)).typeIndex).civilMax cs = true →
    (makeTime z h cs).val.1 = ⟨.unique, i64max, i64max, i64max⟩

def zBeyond : Zone :=
  { transitions := #[{ unixTime := 9223372036854785807, typeIndex := 1,
                       civilSec := ⟨292277026596, 12, 4, 19, 16, 47⟩,
                       prevCivilSec := ⟨292277026596, 12, 4, 18, 16, 46⟩ }],
    types := #[{ utcOffset := 0, isDst := false, abbrIndex := 0,
                 civilMax := ⟨292277026596, 12, 4, 15, 30, 7⟩,
                 civilMin := ⟨-292277022657, 1, 27, 8, 29, 52⟩ },
               { utcOffset := 3600, isDst := false, abbrIndex := 0,
                 civilMax := ⟨292277026596, 12, 4, 16, 30, 7⟩,
                 civilMin := ⟨-292277022657, 1, 27, 9, 29, 52⟩ }],
    defaultType := 0, abbreviations := [0] }

theorem saturate_max_needs_time_bound : ¬ saturate_max_unbounded_statement := by
  intro H
  have wf : TableWF zBeyond := by
    refine ⟨by decide, ?_, ?_, by decide⟩
    · intro i j hij hj
      have : zBeyond.transitions.size = 1 := rfl
      omega
    · intro i hi
      have : zBeyond.transitions.size = 1 := rfl
      have : i = 0 := by omega
      subst this; decide
  have cc : CivilCols zBeyond := by
    refine ⟨?_, ?_, ?_, ?_⟩
    · intro i hi
      have : zBeyond.transitions.size = 1 := rfl
      have : i = 0 := by omega
      subst this; decide +kernel
    · intro i hi
      have : zBeyond.transitions.size = 1 := rfl
      have : i = 0 := by omega
      subst this; decide +kernel
    · intro k hk
      have : zBeyond.types.size = 2 := rfl
      have : k = 0 ∨ k = 1 := by omega
      rcases this with h | h <;> subst h <;> decide +kernel
    · intro k hk
      have : zBeyond.types.size = 2 := rfl
      have : k = 0 ∨ k = 1 := by omega
      rcases this with h | h <;> subst h <;> decide +kernel
  have cso : CivilSorted zBeyond := by
    intro i j hij hj
    have : zBeyond.transitions.size = 1 := rfl
    omega
  have := H zBeyond 0 ⟨292277026596, 12, 4, 18, 46, 47⟩ wf cc cso (by decide) (Or.inl rfl)
    (by decide +kernel) (by decide +kernel)
  revert this
  decide +kernel

end Cctz.C10
