import Cctz.Model.Tz
namespace Cctz.C10
end Cctz.C10
