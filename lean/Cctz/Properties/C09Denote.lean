/-
  C09Denote — what a successful parse() MEANS (model level; strptime is a parameter).

  C09.lean says which inputs are accepted field by field; this file says what the result of an
  accepted parse is.  Throughout, `st` is the state the specifier loop of `Parse.parse` ends in,

      st := specLoop sp (fmt.length + input.length + 2) { data := some (skipSpace (cstr input)), fmt := cstr fmt }

  (written `final sp fmt input` below), and the vocabulary of Cctz/Proofs/PdDefs.lean is used:

    Pd.adjTm st    `st.tm` after the 12-hour adjustment (`tm_hour += 12` for an afternoon `%I`)
    Pd.yearOf st   `st.year` if a `%Y`/`%E4Y` was seen, else `tm_year + 1900`
    Pd.fieldsOf st the six fields ⟨year, tm_mon + 1, tm_mday, tm_hour, tm_min, min tm_sec 59⟩
    Pd.xOf st      `secNum (fieldsOf st) + (if tm_sec = 60 then 1 else 0)`: the number of the civil
                   second the text denotes, ":60" being the second after hh:mm:59
    Pd.fsOf st     `st.subseconds`, or 0 when `tm_sec = 60`
    Pd.TodOK tm    0 ≤ tm_hour ≤ 23, 0 ≤ tm_min ≤ 59, 0 ≤ tm_sec ≤ 60
    Pd.SpTod sp    strptime never turns an in-range time of day into an out-of-range one
    Pd.TmOK tm     TodOK, 0 ≤ tm_mon ≤ 11, 1 ≤ tm_mday ≤ 31, tm_year an int  (TmOK61: tm_sec ≤ 61;
                   TmLo: no upper bound on tm_sec)
    Pd.SpTm sp     strptime keeps a tm within TmOK
    Pd.weekDate w sundayStart year wday   (year, month, day) FromWeek computes, `none` = returns false
    Pd.IsWeekDay w ws target J D          day D is weekday `target` in week `w` of the year starting
                                          on day J, weeks starting on weekday `ws`

  `Spec.secNum` / `Spec.Valid` are the proleptic Gregorian calendar of Cctz/Spec/Gregorian.lean;
  `Spec.lookupC z C` is the stateless `z.lookup(civil C)` and `Spec.lookupT z t` the stateless
  `z.lookup(time_point t)` (C01/C02/Seam say what they are).

  History (finding F20, "fix: parse() normalized a seconds value of 61 let through by strptime()"):
  hour, minute and second written by strptime were never range-checked by parse() — only month and
  day are compared after normalisation — so with glibc's strptime (whose `%S`/`%T`/`%OS` accept 61)
  "12:00:61" was accepted as 12:01:01, and at the year INT64_MAX the carry overflowed (undefined
  behaviour).  parse() now returns false when tm_sec > 59 after the ":60" step, the model follows,
  and the former witness theorems `instant_needs_tod` / `flag_witness` are replaced by
  `seconds_61_rejected` / `seconds_61_no_overflow`.  Consequences proved here: a successful parse has
  tm_sec ≤ 60 (`seconds_le_60`), so the seconds part of `TodOK st.tm` follows from success
  (`tod_of_success`), and (5) needs no bound on the seconds any more (`no_flags_final`).
  The hour/minute part of `TodOK st.tm` is still an assumption about strptime (`date_exists_needs_hm`:
  a strptime storing tm_min = 60 — none does — would be accepted with the minute carried); it holds
  for every format that does not reach strptime and for every strptime that keeps the fields in
  range (`tod_invariant`).
  The week-number path (`%U`/`%W`, `st.weekNum ≠ -1`) is covered by `fromWeek_date`, `week_date` and
  `week_instant`: FromWeek replaces year, month and day by the day of weekday `tm_wday` in that week
  and the rest is as without a week number.  The other statements assume `st.weekNum = -1`
  (`%m`/`%d`/`%e` after a `%U`/`%W` reset it, as in the C++).
-/
import Cctz.Model.Parse
import Cctz.Spec.Gregorian
import Cctz.Spec.TableSem
import Cctz.Spec.TableTame
import Cctz.Proofs.PdTop
import Cctz.Proofs.PdFlags
import Cctz.Proofs.PdWeek
import Cctz.Proofs.TcWitness

namespace Cctz.C09Denote
open Cctz Cctz.Bytes Cctz.Format Cctz.Parse Cctz.Spec Cctz.Tz Cctz.Pd

/-- the state the specifier loop of `parse sp fmt input _` ends in -/
def final (sp : Strptime) (fmt input : Bytes) : PState :=
  specLoop sp (fmt.length + input.length + 2) { data := some (skipSpace (cstr input)), fmt := cstr fmt }

/-- the loop ended with the whole format used and nothing but white space left of the input -/
def Consumed (st : PState) : Prop := (∃ d, st.data = some d ∧ skipSpace d = []) ∧ st.fmt = []

/-! ## Statements -/

/-- (1) parse() returns true only if the whole format was used and the whole input was consumed up
to trailing white space -/
def consumed_statement : Prop :=
  ∀ (sp : Strptime) (fmt input : Bytes) (z : Zone) (t fs : Int),
    (parse sp fmt input z).val.1 = .ok t fs → Consumed (final sp fmt input)

/-- (2) with `%s` everything else is ignored: the instant is the parsed integer, sub-seconds 0 -/
def percent_s_statement : Prop :=
  ∀ (sp : Strptime) (fmt input : Bytes) (z : Zone) (t fs : Int),
    (parse sp fmt input z).val.1 = .ok t fs → (final sp fmt input).sawPercentS = true →
    t = (final sp fmt input).percentS ∧ fs = 0

/-- the time-of-day hypothesis of (3)/(4) holds whenever strptime keeps hour/minute/second in range;
in particular for `fun _ _ _ => none`, i.e. for every format that never reaches strptime -/
def tod_invariant_statement : Prop :=
  ∀ (sp : Strptime) (fmt input : Bytes), SpTod sp → TodOK (final sp fmt input).tm

/-- (3a) the date exists: the fields of a successful parse form a valid civil second — month 1..12,
day ≤ the length of that month in that year, hour ≤ 23, minute, second ≤ 59 (60 shown as 59).
Nothing was normalised. -/
def date_exists_statement : Prop :=
  ∀ (sp : Strptime) (fmt input : Bytes) (z : Zone) (t fs : Int),
    let st := final sp fmt input
    (parse sp fmt input z).val.1 = .ok t fs → st.sawPercentS = false → st.weekNum = -1 → TodOK st.tm →
    Valid (fieldsOf st)

/-- (3b, offset) with a parsed UTC offset the instant is exactly the civil second the fields
denote, read in that offset; it is an int64 value -/
def instant_offset_statement : Prop :=
  ∀ (sp : Strptime) (fmt input : Bytes) (z : Zone) (t fs : Int),
    let st := final sp fmt input
    (parse sp fmt input z).val.1 = .ok t fs → st.sawPercentS = false → st.weekNum = -1 → TodOK st.tm →
    st.sawOffset = true →
    t = xOf st - st.offset ∧ inI64 t ∧ -86400 < st.offset ∧ st.offset < 86400

/-- (3b, zone) without an offset the instant is the `pre` reading of lookup(C) in the supplied
zone, `C` being the (unique) valid civil second numbered `xOf st`.  When that reading is the
saturated max()/min(), the civil second does not lie beyond the one displayed at max()/min(). -/
def instant_zone_statement : Prop :=
  ∀ (sp : Strptime) (fmt input : Bytes) (z : Zone) (t fs : Int),
    let st := final sp fmt input
    (parse sp fmt input z).val.1 = .ok t fs → st.sawPercentS = false → st.weekNum = -1 → TodOK st.tm →
    st.sawOffset = false →
    st.offset = 0 ∧
    ∃ C, Valid C ∧ secNum C = xOf st ∧ t = (lookupC z C).pre ∧
      (t = i64max → Civil.lt (lookupT z i64max).cs C = false) ∧
      (t = i64min → Civil.lt C (lookupT z i64min).cs = false)

/-- (4, zone) the two saturation checks in table terms (tables that are not rule-extended; C01 says
what lookup(max()/min()) shows): max() is returned only for a civil second not after the one shown
at max(), min() only for one not before the one shown at min() -/
def zone_saturation_statement : Prop :=
  ∀ (sp : Strptime) (fmt input : Bytes) (z : Zone) (t fs : Int),
    let st := final sp fmt input
    (parse sp fmt input z).val.1 = .ok t fs → st.sawPercentS = false → st.weekNum = -1 → TodOK st.tm →
    st.sawOffset = false → TableWF z → CivilCols z → z.extended = false →
    (t = i64max → xOf st ≤ i64max + offAt z i64max) ∧ (t = i64min → i64min + offAt z i64min ≤ xOf st)

/-- (3c) the sub-second part: the parsed fraction truncated to femtoseconds, or 0 after ":60" -/
def subseconds_statement : Prop :=
  ∀ (sp : Strptime) (fmt input : Bytes) (z : Zone) (t fs : Int),
    let st := final sp fmt input
    (parse sp fmt input z).val.1 = .ok t fs → st.sawPercentS = false → st.weekNum = -1 →
    fs = fsOf st ∧ 0 ≤ fs ∧ fs < 1000000000000000

/-- (3d) the instant returned in the zone case is an int64 value on tame tables (what `load`
produces, Cctz/Spec/TableTame.lean) when the year read is an int64 -/
def instant_zone_range_statement : Prop :=
  ∀ (sp : Strptime) (fmt input : Bytes) (z : Zone) (t fs : Int),
    let st := final sp fmt input
    (parse sp fmt input z).val.1 = .ok t fs → st.sawPercentS = false → st.weekNum = -1 → TodOK st.tm →
    st.sawOffset = false → Tame z → i64min ≤ yearOf st → inI64 t

/-- (3+4, offset) complete characterisation with a parsed offset: after a loop that consumed
everything, parse() returns true exactly when the date exists and the instant denoted fits int64,
and then returns that instant -/
def offset_complete_statement : Prop :=
  ∀ (sp : Strptime) (fmt input : Bytes) (z : Zone) (t fs : Int),
    let st := final sp fmt input
    Consumed st → st.sawPercentS = false → st.weekNum = -1 → TodOK st.tm → st.sawOffset = true →
    ((parse sp fmt input z).val.1 = .ok t fs ↔
      Valid (fieldsOf st) ∧ inI64 (xOf st - st.offset) ∧ t = xOf st - st.offset ∧ fs = fsOf st)

/-- (4, offset) out of range → false: an existing date whose instant does not fit
time_point<seconds> is rejected — not wrapped, not saturated -/
def out_of_range_statement : Prop :=
  ∀ (sp : Strptime) (fmt input : Bytes) (z : Zone),
    let st := final sp fmt input
    Consumed st → st.sawPercentS = false → st.weekNum = -1 → TodOK st.tm → st.sawOffset = true →
    ¬ inI64 (xOf st - st.offset) → (parse sp fmt input z).val.1 = .fail

/-- (3+4, zone) complete characterisation without an offset: parse() returns true exactly when
the date exists, the civil second denoted is not beyond civil_second::max(), and the `pre` reading
of its lookup is not a saturated value standing for a civil second beyond the one displayed at
max()/min() -/
def zone_complete_statement : Prop :=
  ∀ (sp : Strptime) (fmt input : Bytes) (z : Zone) (t fs : Int),
    let st := final sp fmt input
    Consumed st → st.sawPercentS = false → st.weekNum = -1 → TodOK st.tm → st.sawOffset = false →
    ((parse sp fmt input z).val.1 = .ok t fs ↔
      Valid (fieldsOf st) ∧ xOf st ≤ secNum ⟨i64max, 12, 31, 23, 59, 59⟩ ∧
      ∃ C, Valid C ∧ secNum C = xOf st ∧ t = (lookupC z C).pre ∧ fs = fsOf st ∧
        ¬ (t = i64max ∧ Civil.lt (lookupT z i64max).cs C = true) ∧
        ¬ (t = i64min ∧ Civil.lt C (lookupT z i64min).cs = true))

/-- (3, any strptime) without the time-of-day hypothesis: the fields are normalised by the
civil-second constructor (`Spec.unnormSec`, C04), month and day are unchanged by it, and the
instant is the `pre` reading of the resulting civil second minus the offset, in UTC if an offset
was parsed, else in the supplied zone -/
def instant_general_statement : Prop :=
  ∀ (sp : Strptime) (fmt input : Bytes) (z : Zone) (t fs : Int),
    let st := final sp fmt input
    let tm := adjTm st
    (parse sp fmt input z).val.1 = .ok t fs → st.sawPercentS = false → st.weekNum = -1 →
    ∃ C, Valid C ∧
      secNum C = unnormSec (yearOf st) (tm.mon + 1) tm.mday tm.hour tm.min tm.sec - st.offset ∧
      t = (lookupC (if st.sawOffset then (resetToBuiltinUTC 0).val else z) C).pre ∧
      (st.sawOffset = true → t = secNum C ∧ inI64 t)

/-- (5) no undefined behaviour: no flag is raised — no signed overflow, no out-of-range index, no
unset read, no unbounded loop — for every format and input, on every tame table (`Qo.Tame'`, the
hypothesis of the C10 theorems, decided by `TameCheck.tameFullb`), provided strptime keeps the
fields of `tm` in their POSIX ranges (`Pd.SpTm`: hour ≤ 23, minute ≤ 59, second ≤ 60, month 0..11,
day 1..31, `tm_year` an int).  No bound on the year is needed — every int64 year is safe — and the
week-number path is included.  Since the repair F20 the bound on the seconds is no longer needed
(`no_flags_final`); some condition on strptime still is at model level (`no_flags_needs_SpTm`: a
negative tm_sec); the zone condition is C10's. -/
def no_flags_statement : Prop :=
  ∀ (sp : Strptime) (fmt input : Bytes) (z : Zone), SpTm sp → Qo.Tame' z → (parse sp fmt input z).ok

/-- (5') the same from facts about the final state alone, allowing the seconds value 61 that
glibc's strptime can store (`Pd.TmOK61`), for a year read within ±10^15.  (Stated before the repair
F20, when a year next to INT64_MAX overflowed; still true, and now subsumed by `no_flags_final`.) -/
def no_flags_bounded_statement : Prop :=
  ∀ (sp : Strptime) (fmt input : Bytes) (z : Zone),
    let st := final sp fmt input
    Qo.Tame' z → TmOK61 st.tm →
    (st.tm.sec ≤ 60 ∨ (-1000000000000000 ≤ yearOf st ∧ yearOf st ≤ 1000000000000000)) →
    (parse sp fmt input z).ok

/-- (5'', after F20) no flag whatever seconds value strptime stores, for every int64 year: only
hour, minute, month and day of the final `tm` need to lie in their POSIX ranges, the seconds be
non-negative and `tm_year` be an int (`Pd.TmLo`) -/
def no_flags_final_statement : Prop :=
  ∀ (sp : Strptime) (fmt input : Bytes) (z : Zone),
    Qo.Tame' z → TmLo (final sp fmt input).tm → (parse sp fmt input z).ok

/-- (after F20) a successful parse (without `%s`) never carries a seconds value above the leap
second: tm_sec ≤ 60 in the final state, whatever strptime did -/
def seconds_le_60_statement : Prop :=
  ∀ (sp : Strptime) (fmt input : Bytes) (z : Zone) (t fs : Int),
    (parse sp fmt input z).val.1 = .ok t fs → (final sp fmt input).sawPercentS = false →
    (final sp fmt input).tm.sec ≤ 60

/-- (after F20) … so the hypothesis `TodOK st.tm` of (3)/(4)/(6c) reduces, for a successful parse, to
hour and minute in range and non-negative seconds -/
def tod_of_success_statement : Prop :=
  ∀ (sp : Strptime) (fmt input : Bytes) (z : Zone) (t fs : Int),
    let st := final sp fmt input
    (parse sp fmt input z).val.1 = .ok t fs → st.sawPercentS = false →
    0 ≤ st.tm.hour → st.tm.hour ≤ 23 → 0 ≤ st.tm.min → st.tm.min ≤ 59 → 0 ≤ st.tm.sec → TodOK st.tm

/-- (6a) `FromWeek(week_num, week_start, &year, &tm)` changes only the year, `tm_mon` and `tm_mday`,
and what it writes depends only on the year, the week number and `tm_wday` (`Pd.weekDate`) -/
def fromWeek_date_statement : Prop :=
  ∀ (weekNum : Int) (startSunday : Bool) (year : Int) (tm : Tm),
    (fromWeek weekNum startSunday year tm).val =
      (weekDate weekNum startSunday year tm.wday).map
        (fun p => (p.1, { tm with mon := p.2.1 - 1, mday := p.2.2 }))

/-- (6b) the date FromWeek computes exists, its year fits int64, and it is the day of weekday
`tm_wday` (`fromTmWday`: Monday = 0 … Sunday = 6) in week `weekNum` of `year`, weeks starting on
Sunday for `%U` and on Monday for `%W`, week 0 starting on the last such day STRICTLY before January
1st: `IsWeekDay weekNum ws target J D` says `D = W0 + k + 7·weekNum` with `W0` the last day `< J` of
weekday `ws` and `0 ≤ k ≤ 6` the distance to weekday `target`.  (So week 53 — and 52 — may name a
day of the following year and week 0 a day of the preceding one: the year is changed accordingly.) -/
def week_date_statement : Prop :=
  ∀ (weekNum : Int) (startSunday : Bool) (year wday y' m' d' : Int), inI64 year →
    weekDate weekNum startSunday year wday = some (y', m', d') →
    inI64 y' ∧ 1 ≤ m' ∧ m' ≤ 12 ∧ 1 ≤ d' ∧ d' ≤ daysInMonth y' m' ∧
    IsWeekDay weekNum (if startSunday then 6 else 0) (fromTmWday wday) (dayNum year 1 1) (dayNum y' m' d')

/-- (6c) a successful parse through `%U`/`%W`: FromWeek succeeded with a week number in 0..53, the
date it computed together with the parsed time of day is a valid civil second, and the instant is
the one that civil second denotes — exactly as in (3b), with FromWeek's date in place of
year/month/day.  (`i64min ≤ yearOf st` always holds in the C++, where `tm_year` is an `int`.) -/
def week_instant_statement : Prop :=
  ∀ (sp : Strptime) (fmt input : Bytes) (z : Zone) (t fs : Int),
    let st := final sp fmt input
    (parse sp fmt input z).val.1 = .ok t fs → st.sawPercentS = false → st.weekNum ≠ -1 → TodOK st.tm →
    i64min ≤ yearOf st →
    ∃ y' m' d', weekDate st.weekNum st.weekStartSunday (yearOf st) st.tm.wday = some (y', m', d') ∧
      0 ≤ st.weekNum ∧ st.weekNum ≤ 53 ∧
      Valid ⟨y', m', d', (adjTm st).hour, (adjTm st).min, min (adjTm st).sec 59⟩ ∧ fs = fsOf st ∧
      (st.sawOffset = true →
        t = secNum ⟨y', m', d', (adjTm st).hour, (adjTm st).min, min (adjTm st).sec 59⟩ +
              (if (adjTm st).sec = 60 then 1 else 0) - st.offset ∧ inI64 t) ∧
      (st.sawOffset = false → ∃ C, Valid C ∧
        secNum C = secNum ⟨y', m', d', (adjTm st).hour, (adjTm st).min, min (adjTm st).sec 59⟩ +
              (if (adjTm st).sec = 60 then 1 else 0) ∧
        t = (lookupC z C).pre)

/-! ## Proofs -/

theorem final_eq (sp : Strptime) (fmt input : Bytes) : final sp fmt input = Pa.loopEnd sp fmt input := rfl

theorem consumed : consumed_statement := by
  intro sp fmt input z t fs h
  obtain ⟨d, h1, h2, _⟩ := (parse_ok sp fmt input z t fs).1 h
  exact ⟨⟨d, h1, h2⟩, loopEnd_fmt sp fmt input d h1⟩

theorem percent_s : percent_s_statement := by
  intro sp fmt input z t fs h hs
  obtain ⟨d, _, _, h3⟩ := (parse_ok sp fmt input z t fs).1 h
  rw [final_eq] at hs
  rw [if_pos hs] at h3
  exact h3

theorem tod_invariant : tod_invariant_statement := fun sp fmt input h => tod_final sp fmt input h

/-- the hypothesis of `tod_invariant` is satisfiable: a format that never reaches strptime -/
example : SpTod (fun _ _ _ => none) := fun _ _ _ _ _ _ h => (by cases h)

theorem offset_complete : offset_complete_statement := by
  intro sp fmt input z t fs st hc hs hw htod hso
  obtain ⟨⟨d, h1, h2⟩, _⟩ := hc
  rw [parse_of_consumed sp fmt input z d h1 h2 hs]
  exact offset_iff sp _ z (loopEnd_inv sp fmt input) hw (adjTm_tod _ htod) hso t fs

theorem zone_complete : zone_complete_statement := by
  intro sp fmt input z t fs st hc hs hw htod hso
  obtain ⟨⟨d, h1, h2⟩, _⟩ := hc
  rw [parse_of_consumed sp fmt input z d h1 h2 hs]
  exact zone_iff sp _ z (loopEnd_inv sp fmt input) hw (adjTm_tod _ htod) hso t fs

theorem date_exists : date_exists_statement := by
  intro sp fmt input z t fs st h hs hw htod
  have hc := consumed sp fmt input z t fs h
  by_cases hso : st.sawOffset = true
  · exact ((offset_complete sp fmt input z t fs hc hs hw htod hso).1 h).1
  · exact ((zone_complete sp fmt input z t fs hc hs hw htod (by simpa using hso)).1 h).1

theorem instant_offset : instant_offset_statement := by
  intro sp fmt input z t fs st h hs hw htod hso
  have hc := consumed sp fmt input z t fs h
  obtain ⟨_, hin, ht, _⟩ := (offset_complete sp fmt input z t fs hc hs hw htod hso).1 h
  have hr := (loopEnd_inv sp fmt input).offR
  exact ⟨ht, ht ▸ hin, hr.1, hr.2⟩

theorem instant_zone : instant_zone_statement := by
  intro sp fmt input z t fs st h hs hw htod hso
  have hc := consumed sp fmt input z t fs h
  obtain ⟨_, _, C, vC, sC, ht, _, h1, h2⟩ := (zone_complete sp fmt input z t fs hc hs hw htod hso).1 h
  refine ⟨(loopEnd_inv sp fmt input).off0 hso, C, vC, sC, ht, fun e => ?_, fun e => ?_⟩
  · cases hl : Civil.lt (lookupT z i64max).cs C
    · rfl
    · exact absurd ⟨e, hl⟩ h1
  · cases hl : Civil.lt C (lookupT z i64min).cs
    · rfl
    · exact absurd ⟨e, hl⟩ h2

theorem zone_saturation : zone_saturation_statement := by
  intro sp fmt input z t fs st h hs hw htod hso wf cc hext
  obtain ⟨_, C, vC, sC, _, h1, h2⟩ := instant_zone sp fmt input z t fs h hs hw htod hso
  obtain ⟨vmax, smax, _⟩ := C01.breakTime_table z 0 i64max wf cc (Or.inl hext)
  obtain ⟨vmin, smin, _⟩ := C01.breakTime_table z 0 i64min wf cc (Or.inl hext)
  constructor
  · intro e
    have := (Tl.lt_false_iff vmax vC).1 (h1 e)
    rw [sC] at this; rw [← smax]; exact this
  · intro e
    have := (Tl.lt_false_iff vC vmin).1 (h2 e)
    rw [sC] at this; rw [← smin]; exact this

theorem subseconds : subseconds_statement := by
  intro sp fmt input z t fs st h hs hw
  have hst : st = Pa.loopEnd sp fmt input := rfl
  clear_value st; subst hst
  have ha := parse_afterS sp fmt input z t fs h hs
  obtain ⟨_, _, C, _, _, _, hfs, _⟩ := general_denote _ z hw t fs ha
  have hsub := (loopEnd_inv sp fmt input).sub
  refine ⟨hfs, ?_⟩
  rw [hfs]; unfold fsOf
  split <;> omega

theorem instant_zone_range : instant_zone_range_statement := by
  intro sp fmt input z t fs st h hs hw htod hso tz hy
  have ha := parse_afterS sp fmt input z t fs h hs
  exact zone_range sp _ z (loopEnd_inv sp fmt input) hw (adjTm_tod _ htod) hso t fs ha tz hy

theorem out_of_range : out_of_range_statement := by
  intro sp fmt input z st hc hs hw htod hso hout
  cases hr : (parse sp fmt input z).val.1 with
  | fail => rfl
  | ok t fs => exact absurd ((offset_complete sp fmt input z t fs hc hs hw htod hso).1 hr).2.1 hout

theorem instant_general : instant_general_statement := by
  intro sp fmt input z t fs st tm h hs hw
  have hst : st = Pa.loopEnd sp fmt input := rfl
  have htm : tm = adjTm st := rfl
  clear_value tm; subst htm
  clear_value st; subst hst
  have ha := parse_afterS sp fmt input z t fs h hs
  obtain ⟨_, _, C, vC, sC, ht, _, _, _⟩ := general_denote _ z hw t fs ha
  refine ⟨C, vC, sC, ?_, fun hso => ?_⟩
  · rw [ht, Tl.reset_val]; rfl
  · have hp : ptzOf (Pa.loopEnd sp fmt input) z = Tl.fixedZone 0 := by
      unfold ptzOf; rw [if_pos hso]
    obtain ⟨_, _, C', vC', sC', ht', hfs', hmx, hmn⟩ := general_denote _ z hw t fs ha
    have hf : finish (Tl.fixedZone 0) C' (fsOf (Pa.loopEnd sp fmt input)) = .ok t fs := by
      rw [finish_ok, ← hp]; exact ⟨ht', hfs', hmx, hmn⟩
    rw [finish_utc _ _ vC'] at hf
    have hCC : C = C' := secNum_inj vC vC' (by rw [sC, sC'])
    subst hCC
    split at hf
    · rename_i hin
      simp only [Result.ok.injEq] at hf
      exact ⟨hf.1.symm, hf.1 ▸ hin⟩
    · cases hf

theorem no_flags : no_flags_statement := fun sp fmt input z hsp tz => parse_flags sp fmt input z hsp tz

theorem no_flags_bounded : no_flags_bounded_statement :=
  fun sp fmt input z tz htm _ => parse_flags_core sp fmt input z tz (tmLo_of_tmOK61 _ htm)

theorem no_flags_final : no_flags_final_statement :=
  fun sp fmt input z tz htm => parse_flags_core sp fmt input z tz htm

theorem seconds_le_60 : seconds_le_60_statement := by
  intro sp fmt input z t fs h hs
  have ha := parse_afterS sp fmt input z t fs h hs
  have := afterS_sec _ z t fs ha
  unfold adjTm at this
  split at this <;> exact this

theorem tod_of_success : tod_of_success_statement := by
  intro sp fmt input z t fs st h hs h1 h2 h3 h4 h5
  exact ⟨h1, h2, h3, h4, h5, seconds_le_60 sp fmt input z t fs h hs⟩

theorem fromWeek_date : fromWeek_date_statement := fun weekNum startSunday year tm => by
  rw [fromWeek_val, fromWeekVal_eq]

theorem week_date : week_date_statement := by
  intro weekNum startSunday year wday y' m' d' hy h
  obtain ⟨h1, ⟨a1, a2, a3, a4⟩, h3⟩ := weekDate_some _ _ _ _ _ _ _ hy h
  exact ⟨h1, a1, a2, a3, a4, h3⟩

theorem week_instant : week_instant_statement := by
  intro sp fmt input z t fs st h hs hw htod hylo
  have ha := parse_afterS sp fmt input z t fs h hs
  exact Pd.week_instant sp _ z (loopEnd_inv sp fmt input) hw htod hylo t fs ha

/-- the hypotheses of `no_flags` are satisfiable: no strptime at all, the built-in UTC table -/
example : SpTm (fun _ _ _ => none) ∧ Qo.Tame' (resetToBuiltinUTC 0).val :=
  ⟨fun _ _ _ _ _ _ h => (by cases h), (by rw [Tl.reset_val]; exact utc_tame')⟩

/-! ## Examples: the hypotheses are satisfiable and the results are the expected instants -/

/-- a strptime that is never reached (formats made of the conversions parse() handles itself) -/
def noSp : Strptime := fun _ _ _ => none
/-- UTC as a supplied zone -/
def utc : Zone := (resetToBuiltinUTC 0).val

/-- 'Sep 31' is an error, 'Sep 30' is not -/
example : (parse noSp (ofString "%Y-%m-%d") (ofString "2013-09-31") utc).val.1 = .fail := by decide +kernel
example : (parse noSp (ofString "%Y-%m-%d") (ofString "2013-09-30") utc).val.1 = .ok 1380499200 0 := by
  decide +kernel
/-- … and so is February 29 of a non-leap year, while 2024-02-29 exists -/
example : (parse noSp (ofString "%Y-%m-%d") (ofString "2023-02-29") utc).val.1 = .fail := by decide +kernel
example : (parse noSp (ofString "%Y-%m-%d") (ofString "2024-02-29") utc).val.1 = .ok 1709164800 0 := by
  decide +kernel

/-- ":60" rolls to the next minute: 2016-12-31 23:59:60 +00:00 is 2017-01-01 00:00:00 = 1483228800,
and the fraction is dropped -/
example : (parse noSp (ofString "%Y-%m-%d %H:%M:%E*S %Ez") (ofString "2016-12-31 23:59:60.75 +00:00") utc).val.1 =
    .ok 1483228800 0 := by decide +kernel
example : secNum ⟨2017, 1, 1, 0, 0, 0⟩ = 1483228800 := by decide
/-- the same text read at +05:30 is 19800 seconds earlier: t = x − offset -/
example : (parse noSp (ofString "%Y-%m-%d %H:%M:%S %Ez") (ofString "2016-12-31 23:59:60 +05:30") utc).val.1 =
    .ok (1483228800 - 19800) 0 := by decide +kernel

/-- the state behind the last example has every hypothesis of `instant_offset` / `offset_complete` -/
example :
    let st := final noSp (ofString "%Y-%m-%d %H:%M:%S %Ez") (ofString "2016-12-31 23:59:60 +05:30")
    Consumed st ∧ st.sawPercentS = false ∧ st.weekNum = -1 ∧ TodOK st.tm ∧ st.sawOffset = true ∧
    fieldsOf st = ⟨2016, 12, 31, 23, 59, 59⟩ ∧ xOf st = 1483228800 ∧ st.offset = 19800 ∧ fsOf st = 0 := by
  refine ⟨⟨⟨[], ?_, ?_⟩, ?_⟩, ?_, ?_, ?_, ?_, ?_, ?_, ?_, ?_⟩ <;> decide +kernel

/-- digits beyond femtoseconds are dropped -/
example : (parse noSp (ofString "%Y-%m-%d %H:%M:%E*S%Ez") (ofString "1970-01-01 00:00:01.1234567890123456789Z") utc).val.1 =
    .ok 1 123456789012345 := by decide +kernel

/-- without an offset the supplied zone decides; `Tc.zEx` jumps from +0 to +1h at 1000000
(civil 13:46:40 → 14:46:40 on 1970-01-12) and back at 2000000.  A skipped civil time gets the
'pre' reading (the instant it would be in the offset before the gap) … -/
example : (parse noSp (ofString "%Y-%m-%d %H:%M:%S") (ofString "1970-01-12 14:00:00") Tc.zEx).val.1 =
    .ok 1000800 0 ∧ (lookupC Tc.zEx ⟨1970, 1, 12, 14, 0, 0⟩) = ⟨.skipped, 1000800, 1000000, 997200⟩ := by
  decide +kernel
/-- … and a repeated one the earlier of its two instants -/
example : (parse noSp (ofString "%Y-%m-%d %H:%M:%S") (ofString "1970-01-24 04:00:00") Tc.zEx).val.1 =
    .ok 1998000 0 ∧ (lookupC Tc.zEx ⟨1970, 1, 24, 4, 0, 0⟩) = ⟨.repeated, 1998000, 2000000, 2001600⟩ := by
  decide +kernel
example :
    let st := final noSp (ofString "%Y-%m-%d %H:%M:%S") (ofString "1970-01-12 14:00:00")
    Consumed st ∧ st.sawPercentS = false ∧ st.weekNum = -1 ∧ TodOK st.tm ∧ st.sawOffset = false ∧
    fieldsOf st = ⟨1970, 1, 12, 14, 0, 0⟩ := by
  refine ⟨⟨⟨[], ?_, ?_⟩, ?_⟩, ?_, ?_, ?_, ?_, ?_⟩ <;> decide +kernel
/-- the table hypotheses of `zone_saturation` hold for that zone, those of `instant_zone_range`
(`Tame`) for the built-in UTC table -/
example : TableWF Tc.zEx ∧ CivilCols Tc.zEx ∧ Tc.zEx.extended = false := ⟨Tc.zEx_wf, Tc.zEx_cols, rfl⟩
example : Tame utc := by
  show Tame (resetToBuiltinUTC 0).val
  rw [Tl.reset_val]; exact utc_tame'.toTame
/-- in the zone case too the last representable second parses and the next is rejected -/
example : (parse noSp (ofString "%Y-%m-%d %H:%M:%S") (ofString "292277026596-12-04 15:30:07") utc).val.1 =
    .ok i64max 0 ∧
    (parse noSp (ofString "%Y-%m-%d %H:%M:%S") (ofString "292277026596-12-04 15:30:08") utc).val.1 = .fail := by
  decide +kernel

/-- the last representable second parses, the next one is rejected (not wrapped, not saturated) -/
example : (parse noSp (ofString "%Y-%m-%d %H:%M:%S %z") (ofString "292277026596-12-04 15:30:07 +0000") utc).val.1 =
    .ok i64max 0 := by decide +kernel
example : (parse noSp (ofString "%Y-%m-%d %H:%M:%S %z") (ofString "292277026596-12-04 15:30:08 +0000") utc).val.1 =
    .fail := by decide +kernel
example : (parse noSp (ofString "%Y-%m-%d %H:%M:%S %z") (ofString "292277026596-12-04 15:30:08 +0000") utc).ok := by
  decide +kernel

/-! ### week numbers -/

/-- `%W`: Monday-based weeks.  2024-01-01 is a Monday, so week 9, Thursday (`%u` = 4) is 2024-02-29 -/
example : (parse noSp (ofString "%Y-W%W-%u") (ofString "2024-W09-4") utc).val.1 = .ok 1709164800 0 ∧
    weekDate 9 false 2024 4 = some (2024, 2, 29) ∧ secNum ⟨2024, 2, 29, 0, 0, 0⟩ = 1709164800 := by
  decide +kernel
/-- week 53 of a year that has no such week names a day of the next year: "2018 53 1" under
"%Y %U %w" is Monday 2019-01-07 (the real code agrees); week 0 can name a day of the year before:
"2017 0 0" is Sunday 2016-12-25 -/
example : (parse noSp (ofString "%Y %U %w") (ofString "2018 53 1") utc).val.1 = .ok 1546819200 0 ∧
    weekDate 53 true 2018 1 = some (2019, 1, 7) ∧ secNum ⟨2019, 1, 7, 0, 0, 0⟩ = 1546819200 := by
  decide +kernel
example : (parse noSp (ofString "%Y %U %w") (ofString "2017 0 0") utc).val.1 = .ok 1482624000 0 ∧
    weekDate 0 true 2017 0 = some (2016, 12, 25) := by
  decide +kernel
/-- the hypotheses of `week_instant` on the first of these -/
example :
    let st := final noSp (ofString "%Y-W%W-%u") (ofString "2024-W09-4")
    st.sawPercentS = false ∧ st.weekNum ≠ -1 ∧ TodOK st.tm ∧ i64min ≤ yearOf st ∧ st.sawOffset = false := by
  decide +kernel
/-- FromWeek fails (parse returns false) when the day lies in a year beyond int64 -/
example : weekDate 53 true i64max 6 = none ∧
    (parse noSp (ofString "%Y %U %w") (ofString "9223372036854775807 53 6") utc).val.1 = .fail := by
  decide +kernel

/-! ## `%s` switches the date check off -/

/-- (3a) needs `sawPercentS = false`: with a `%s` in the format the other fields are read and
range-checked one by one, but the date they form is never looked at — "2013-09-31 5" under
"%Y-%m-%d %s" returns true with the instant 5 (the real code agrees).  By design ("if we saw %s then
we ignore anything else"), but 'Sep 31' is accepted there. -/
theorem date_exists_needs_no_percent_s :
    (parse noSp (ofString "%Y-%m-%d %s") (ofString "2013-09-31 5") utc).val.1 = .ok 5 0 ∧
    ¬ Valid (fieldsOf (final noSp (ofString "%Y-%m-%d %s") (ofString "2013-09-31 5"))) := by
  decide +kernel

/-! ## Seconds above the leap second are rejected (repair F20) -/

/-- a strptime that behaves like glibc's on `%T`: it accepts a seconds value of 61 -/
def sp61 : Strptime := fun d spec tm =>
  if spec = ofString "%T" ∧ d.take 8 = ofString "12:00:61" then some (8, { tm with hour := 12, min := 0, sec := 61 })
  else none

/-- Replaces `instant_needs_tod` (finding F20, "fix: parse() normalized a seconds value of 61 let
through by strptime()").  Before the repair "2016-12-31 12:00:61 +00:00" under "%Y-%m-%d %T %Ez" was
accepted with that strptime and returned 2016-12-31 12:01:01 (1483185661): seconds outside 0..60,
normalised.  Now the same format and input give `false`, no flag is raised, and the final state
does carry tm_sec = 61 (so it is the new check that rejects it). -/
theorem seconds_61_rejected :
    (parse sp61 (ofString "%Y-%m-%d %T %Ez") (ofString "2016-12-31 12:00:61 +00:00") utc).val.1 = .fail ∧
    (parse sp61 (ofString "%Y-%m-%d %T %Ez") (ofString "2016-12-31 12:00:61 +00:00") utc).ok ∧
    (let st := final sp61 (ofString "%Y-%m-%d %T %Ez") (ofString "2016-12-31 12:00:61 +00:00")
     Consumed st ∧ st.tm.sec = 61 ∧ TmLo st.tm ∧ yearOf st = 2016) := by
  refine ⟨by decide +kernel, by decide +kernel, ⟨⟨[], ?_, ?_⟩, ?_⟩, ?_, ?_, ?_⟩ <;> decide +kernel

/-- a strptime that, like glibc's, reads "23:59:61" under `%T` as tm_hour = 23, tm_min = 59,
tm_sec = 61 (and rejects everything else) -/
def spMax : Strptime := fun d spec tm =>
  if spec = ofString "%T" ∧ d.take 8 = ofString "23:59:61" then some (8, { tm with hour := 23, min := 59, sec := 61 })
  else none

/-- Replaces `flag_witness` (finding F20).  Before the repair the format "%Y-%m-%d %T" and the input
"9223372036854775807-12-31 23:59:61" made the civil-second constructor carry 61 seconds out of the
last minute of the year INT64_MAX: the model raised `ovf`, and in the C++ `y + (ey - oey)` in `n_day`
overflowed (UBSan: civil_time_detail.h, "signed integer overflow: 1 + 9223372036854775807",
reproduced with glibc's strptime).  Now the same pair is rejected before the constructor runs: the
result is `false` and no flag is raised. -/
theorem seconds_61_no_overflow :
    (parse spMax (ofString "%Y-%m-%d %T") (ofString "9223372036854775807-12-31 23:59:61") utc).val.1 = .fail ∧
    (parse spMax (ofString "%Y-%m-%d %T") (ofString "9223372036854775807-12-31 23:59:61") utc).ok ∧
    Qo.Tame' utc := by
  refine ⟨by decide +kernel, by decide +kernel, ?_⟩
  show Qo.Tame' (resetToBuiltinUTC 0).val
  rw [Tl.reset_val]; exact utc_tame'

/-! ## What is still assumed about strptime (model level only: no real strptime does this) -/

/-- a strptime storing tm_min = 60 for "12:60" under `%R` -/
def spMin60 : Strptime := fun d spec tm =>
  if spec = ofString "%R" ∧ d.take 5 = ofString "12:60" then some (5, { tm with hour := 12, min := 60 })
  else none

/-- (3a) still needs the hour/minute part of `TodOK`: parse() range-checks neither, so with that
strptime "2016-12-31 12:60 +00:00" is accepted as 13:00:00 although ⟨…, 12, 60, 0⟩ is not a valid
civil second.  (POSIX and glibc keep tm_min within 0..59, so this is about the model's parameter,
not about the real code.) -/
theorem date_exists_needs_hm :
    (parse spMin60 (ofString "%Y-%m-%d %R %Ez") (ofString "2016-12-31 12:60 +00:00") utc).val.1 =
      .ok 1483189200 0 ∧
    ¬ Valid (fieldsOf (final spMin60 (ofString "%Y-%m-%d %R %Ez") (ofString "2016-12-31 12:60 +00:00"))) := by
  decide +kernel

/-- a strptime storing a negative tm_sec -/
def spNeg : Strptime := fun d spec tm =>
  if spec = ofString "%T" ∧ d.take 8 = ofString "00:00:-1" then some (8, { tm with hour := 0, min := 0, sec := -1 })
  else none

/-- (5)/(5'') still need a lower bound on what strptime stores: a negative tm_sec at the first second
of the year INT64_MIN makes the constructor borrow below the year range (`ovf`).  Same remark: no
real strptime stores a negative tm_sec. -/
theorem no_flags_needs_SpTm :
    ¬ (∀ (sp : Strptime) (fmt input : Bytes) (z : Zone), Qo.Tame' z → (parse sp fmt input z).ok) := by
  intro H
  have h := H spNeg (ofString "%Y-%m-%d %T") (ofString "-9223372036854775808-01-01 00:00:-1") utc
    seconds_61_no_overflow.2.2
  revert h
  decide +kernel

end Cctz.C09Denote
