/-
  C01 (continued) — the rule-generated part of the table is the POSIX-TZ footer rule evaluated on
  the proleptic Gregorian calendar.
-/
import Cctz.Model.Tz
import Cctz.Spec.PosixRule
import Cctz.Spec.TableSem
import Cctz.Proofs.RuleExtend

namespace Cctz.C01Rule
open Cctz Cctz.Tz Cctz.Spec

/-- POSIX weekday of January 1st as the code computes it (`ToPosixWeekday(get_weekday(jan1))`) -/
def jan1Weekday (y : Int) : Int := posixWeekday y 0

/-- the year-relative offset of a rule transition is the declaratively selected day plus the time of
day, for every date form, every year -/
def transOffset_statement : Prop :=
  ∀ (date : Posix.Date) (time : Int) (y : Int), DateInGrammar date →
    ∃ d, ruleDay date y = some d ∧
      (transOffset (Spec.isLeap y) (jan1Weekday y) ⟨some date, some time⟩).val = (d : Int) * 86400 + time ∧
      MemSafe (transOffset (Spec.isLeap y) (jan1Weekday y) ⟨some date, some time⟩).flags

/-- rule days repeat with the 400-year cycle of the calendar -/
def ruleDay_periodic_statement : Prop :=
  ∀ (date : Posix.Date) (y : Int), DateInGrammar date → ruleDay date (y + 400) = ruleDay date y

/-- hence rule instants repeat shifted by exactly 146097 days -/
def ruleInstant_periodic_statement : Prop :=
  ∀ (date : Posix.Date) (time off : Int) (y : Int), DateInGrammar date →
    ruleInstant date time off (y + 400) = (ruleInstant date time off y).map (· + 12622780800)

/-- the loop's running quantities are their calendar definitions in every iteration: after `k`
iterations the state holds year `y0 + k`, the instant of its January 1st 00:00 UTC, that day's POSIX
weekday and its leap flag -/
def extendLoop_state_statement : Prop :=
  ∀ (posix : Posix.TimeZone) (dstTi stdTi : Nat) (lastTime stdOff dstOff : Int) (n : Nat) (y0 : Int) (tr : Array Transition),
    let s := (extendLoop posix dstTi stdTi lastTime stdOff dstOff n
                { trans := tr, lastYear := y0, jan1Time := dayNum y0 1 1 * 86400, jan1Weekday := jan1Weekday y0, leap := Spec.isLeap y0 }).val
    s.lastYear = y0 + n

/-- the transitions one iteration (one year) appends: the two rule instants of that year, earlier
one first (the end-of-DST instant first on a tie), each only if later than the last recorded time -/
def yearPair (posix : Posix.TimeZone) (dstTi stdTi : Nat) (lastTime stdOff dstOff : Int) (y : Int) : List Transition :=
  match posix.dstStart.date, posix.dstStart.time, posix.dstEnd.date, posix.dstEnd.time with
  | some sd, some st, some ed, some et =>
    match ruleInstant sd st stdOff y, ruleInstant ed et dstOff y with
    | some a, some b =>
      let dst : Transition := { unixTime := a, typeIndex := dstTi }
      let std : Transition := { unixTime := b, typeIndex := stdTi }
      let (ta, tb) := if a < b then (dst, std) else (std, dst)
      if lastTime < tb.unixTime then (if lastTime < ta.unixTime then [ta, tb] else [tb]) else []
    | _, _ => []
  | _, _, _, _ => []

/-- the whole loop appends exactly the year pairs of the years y0 … y0 + n, in order -/
def extendLoop_trans_statement : Prop :=
  ∀ (posix : Posix.TimeZone) (dstTi stdTi : Nat) (lastTime stdOff dstOff : Int) (n : Nat) (y0 : Int) (tr : Array Transition)
    (sd ed : Posix.Date) (st et : Int),
    posix.dstStart = ⟨some sd, some st⟩ → posix.dstEnd = ⟨some ed, some et⟩ → DateInGrammar sd → DateInGrammar ed →
    let s := (extendLoop posix dstTi stdTi lastTime stdOff dstOff n
                { trans := tr, lastYear := y0, jan1Time := dayNum y0 1 1 * 86400, jan1Weekday := jan1Weekday y0, leap := Spec.isLeap y0 }).val
    s.trans.toList = tr.toList ++ (List.range (n + 1)).flatMap fun (k : Nat) => yearPair posix dstTi stdTi lastTime stdOff dstOff (y0 + (k : Int))

/-- the month-offset tables are the calendar's cumulative month lengths -/
def tables_statement : Prop :=
  (∀ m : Nat, 1 ≤ m → m ≤ 13 → Gen.kMonthOffsets0.getD m 0 = (if m = 13 then 365 else daysBeforeMonth 1970 m)) ∧
  (∀ m : Nat, 1 ≤ m → m ≤ 13 → Gen.kMonthOffsets1.getD m 0 = (if m = 13 then 366 else daysBeforeMonth 1972 m))

end Cctz.C01Rule

/-! ## proofs (helper lemmas: Cctz/Proofs/RuleExtend.lean, RuMonth.lean, RuMonthTable.lean) -/

namespace Cctz.C01Rule
open Cctz Cctz.Tz Cctz.Spec

theorem tables : tables_statement := ⟨Ru.tables0, Ru.tables1⟩

theorem transOffset : transOffset_statement := by
  intro date time y hg
  exact Ru.transOffset_spec date time y hg

example : DateInGrammar ⟨.M, 3, 2, 0⟩ := by unfold DateInGrammar; decide
example : DateInGrammar ⟨.J, 60, 0, 0⟩ := by unfold DateInGrammar; decide
example : DateInGrammar ⟨.N, 365, 0, 0⟩ := by unfold DateInGrammar; decide

theorem ruleDay_periodic : ruleDay_periodic_statement := by
  intro date y _
  exact Ru.ruleDay_add_400 date y

theorem ruleInstant_periodic : ruleInstant_periodic_statement := by
  intro date time off y _
  exact Ru.ruleInstant_add_400 date time off y

theorem inv_init (tr : Array Transition) (y0 : Int) :
    Ru.Inv { trans := tr, lastYear := y0, jan1Time := dayNum y0 1 1 * 86400,
             jan1Weekday := jan1Weekday y0, leap := Spec.isLeap y0 } y0 :=
  ⟨rfl, rfl, rfl, rfl⟩

theorem extendLoop_state : extendLoop_state_statement := by
  intro posix dstTi stdTi lastTime stdOff dstOff n y0 tr
  exact Ru.extendLoop_lastYear posix dstTi stdTi lastTime stdOff dstOff n _ _ (inv_init tr y0)

theorem yearPair_eq (posix : Posix.TimeZone) (dstTi stdTi : Nat) (lastTime stdOff dstOff : Int)
    (sd ed : Posix.Date) (st et : Int) (hs : posix.dstStart = ⟨some sd, some st⟩)
    (he : posix.dstEnd = ⟨some ed, some et⟩) (y : Int) :
    yearPair posix dstTi stdTi lastTime stdOff dstOff y =
      Ru.yearPairL sd st ed et dstTi stdTi lastTime stdOff dstOff y := by
  unfold yearPair Ru.yearPairL
  rw [hs, he]
  rfl

theorem extendLoop_trans : extendLoop_trans_statement := by
  intro posix dstTi stdTi lastTime stdOff dstOff n y0 tr sd ed st et hs he gs ge
  have h := Ru.extendLoop_trans_list posix dstTi stdTi lastTime stdOff dstOff sd ed st et hs he gs ge n
    _ _ (inv_init tr y0)
  simp only [yearPair_eq posix dstTi stdTi lastTime stdOff dstOff sd ed st et hs he]
  exact h

/-- the hypotheses of `extendLoop_trans` hold for the US rule `M3.2.0/2,M11.1.0/2`, and the year
pair of 2024 under EST/EDT is 2024-03-10 07:00:00 UTC and 2024-11-03 06:00:00 UTC -/
def usRule : Posix.TimeZone :=
  { dstStart := ⟨some ⟨.M, 3, 2, 0⟩, some 7200⟩, dstEnd := ⟨some ⟨.M, 11, 1, 0⟩, some 7200⟩ }

example : usRule.dstStart = ⟨some ⟨.M, 3, 2, 0⟩, some 7200⟩ ∧
    usRule.dstEnd = ⟨some ⟨.M, 11, 1, 0⟩, some 7200⟩ ∧
    DateInGrammar ⟨.M, 3, 2, 0⟩ ∧ DateInGrammar ⟨.M, 11, 1, 0⟩ :=
  ⟨rfl, rfl, by unfold DateInGrammar; decide, by unfold DateInGrammar; decide⟩

example : yearPair usRule 1 0 0 (-18000) (-14400) 2024 =
    [{ unixTime := 1710054000, typeIndex := 1 }, { unixTime := 1730613600, typeIndex := 0 }] := by
  decide +kernel

end Cctz.C01Rule
