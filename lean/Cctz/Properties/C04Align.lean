/-
  C04 (continued) — conversions between alignments (`civil_day(cs)`, `civil_month(cd)`, …):
  consequences of `C04.align_spec` that callers rely on when they truncate civil times.

  * `align_monotone`  — truncation never reorders: `a ≤ b → T(a) ≤ T(b)`;
  * `align_fix` / `align_idem` — an aligned value is left alone, truncating twice is truncating once;
  * `align_floor`   — for the fixed-length units the truncation is the floor of the second count:
                      `civil_minute(cs)` is minute `⌊s/60⌋`, `civil_hour` `⌊s/3600⌋`, `civil_day` `⌊s/86400⌋`
                      (negative counts — dates before 1970 — included: toward the past, never toward zero);
  * `align_month_year` — month and year truncation count months / years: `12·y + (m−1)` and `y`;
  * `align_lt_next` — `f` lies strictly before the next aligned value: `T(f) ≤ f < T(f) + 1`.
-/
import Cctz.Properties.C04
import Cctz.Properties.C05

namespace Cctz.C04Align
open Cctz.Spec

def align_monotone_statement : Prop :=
  ∀ (t : Tag) (a b : Fields), Valid a → Valid b → secNum a ≤ secNum b →
    secNum (Civil.align t a) ≤ secNum (Civil.align t b)

def align_fix_statement : Prop :=
  ∀ (t : Tag) (f : Fields), Valid f → Aligned t f → Civil.align t f = f

def align_idem_statement : Prop :=
  ∀ (t : Tag) (f : Fields), Valid f → Civil.align t (Civil.align t f) = Civil.align t f

def align_floor_statement : Prop :=
  ∀ f : Fields, Valid f →
    unitNum .minute (Civil.align .minute f) = secNum f / 60 ∧
    unitNum .hour (Civil.align .hour f) = secNum f / 3600 ∧
    unitNum .day (Civil.align .day f) = secNum f / 86400

def align_month_year_statement : Prop :=
  ∀ f : Fields, Valid f →
    unitNum .month (Civil.align .month f) = 12 * f.y + (f.m - 1) ∧
    unitNum .year (Civil.align .year f) = f.y

/-- `T(f) ≤ f < T(f) + 1` in seconds, for every alignment (the step is the model's own `+ 1`) -/
def align_lt_next_statement : Prop :=
  ∀ (t : Tag) (f : Fields), Valid f →
    secNum (Civil.align t f) ≤ secNum f ∧
    secNum f < secNum (Civil.civilAdd t (Civil.align t f) 1).val

/-! ### proofs -/

theorem align_monotone : align_monotone_statement := by
  intro t a b va vb hle
  obtain ⟨v1, a1, _, le1, _, _⟩ := C04.align_spec t a va
  obtain ⟨_, _, _, _, gr2, _⟩ := C04.align_spec t b vb
  exact gr2 _ v1 a1 (by omega)

theorem align_fix : align_fix_statement := by
  intro t f vf af
  obtain ⟨v1, _, _, le1, gr1, _⟩ := C04.align_spec t f vf
  have := gr1 f vf af (by omega)
  exact secNum_inj v1 vf (by omega)

theorem align_idem : align_idem_statement := by
  intro t f vf
  obtain ⟨v1, a1, _, _, _, _⟩ := C04.align_spec t f vf
  exact align_fix t _ v1 a1

theorem align_floor : align_floor_statement := by
  intro f vf
  obtain ⟨_, _, _, _, h0, h23, m0, m59, s0, s59⟩ := vf
  refine ⟨?_, ?_, ?_⟩
  · show dayNum f.y f.m f.d * 1440 + f.hh * 60 + f.mm = secNum f / 60
    unfold secNum; omega
  · show dayNum f.y f.m f.d * 24 + f.hh = secNum f / 3600
    unfold secNum; omega
  · show dayNum f.y f.m f.d = secNum f / 86400
    unfold secNum; omega

theorem align_month_year : align_month_year_statement := by
  intro f _
  exact ⟨rfl, rfl⟩

theorem align_lt_next : align_lt_next_statement := by
  intro t f vf
  obtain ⟨v1, a1, _, le1, gr1, _⟩ := C04.align_spec t f vf
  refine ⟨le1, ?_⟩
  obtain ⟨v2, a2, u2⟩ := C05.add_exact t _ 1 v1 a1
  -- if the next aligned value were not after `f`, it would be an aligned value ≤ f above T(f)
  by_cases h : secNum f < secNum (Civil.civilAdd t (Civil.align t f) 1).val
  · exact h
  · exfalso
    have hle := gr1 _ v2 a2 (by omega)
    have hlt : unitNum t (Civil.align t f) < unitNum t (Civil.civilAdd t (Civil.align t f) 1).val := by omega
    have := (unitNum_lt_iff_lex t v1 v2 a1 a2).mp hlt
    have := (secNum_lt_iff_lex v1 v2).mpr this
    omega

/-! non-trivial values: one second before the epoch truncates to the *previous* day/hour/minute -/
example : Valid ⟨1969, 12, 31, 23, 59, 59⟩ ∧ secNum ⟨1969, 12, 31, 23, 59, 59⟩ = -1 ∧
    unitNum .day (Civil.align .day ⟨1969, 12, 31, 23, 59, 59⟩) = -1 ∧
    unitNum .minute (Civil.align .minute ⟨1969, 12, 31, 23, 59, 59⟩) = -1 := by decide +kernel

end Cctz.C04Align
