/-
  C18 (continued) — `join_seconds` into a sub-second time point (the `ratio<1, Denom>` overload,
  `Split.joinFine`), and the round trip `split_seconds` → femtoseconds → `join_seconds` that
  `convert`/`format`/`parse` on sub-second time points rest on.

  * `join_fine_floor`   — for a decimal tick (`Denom` divides 10^15) and a femtosecond remainder in
                          `[0, 10^15)`: the tick count is `sec·Denom + ⌊fs / (10^15/Denom)⌋` — the
                          fraction is cut toward the past, never rounded up into the next tick;
  * `join_fine_ok`      — no overflow flag when the two values it forms fit int64;
  * `split_join`        — for every tick count `c` (negative ones included):
                          `join(split(c).sec, femto(split(c).sub)) = c`;
  * `join_fine_monotone`— more femtoseconds never give an earlier tick.
-/
import Cctz.Properties.C18

namespace Cctz.C18Join
open Cctz

def join_fine_floor_statement : Prop :=
  ∀ Denom sec fs : Int, 0 < Denom → 1000000000000000 % Denom = 0 → 0 ≤ fs → fs < 1000000000000000 →
    let r := (Split.joinFine Denom sec fs).val
    r = sec * Denom + fs / (1000000000000000 / Denom) ∧
    sec * Denom ≤ r ∧ r < (sec + 1) * Denom

def join_fine_ok_statement : Prop :=
  ∀ Denom sec fs : Int, 0 < Denom → 1000000000000000 % Denom = 0 → 0 ≤ fs → fs < 1000000000000000 →
    inI64 (sec * Denom) → inI64 (sec * Denom + fs / (1000000000000000 / Denom)) →
    (Split.joinFine Denom sec fs).ok

def split_join_statement : Prop :=
  ∀ D c : Int, 0 < D → 1000000000000000 % D = 0 →
    let p := (Split.splitSeconds 1 D c).val
    (Split.joinFine D p.1 (Split.subToFemto 1 D p.2).val).val = c

def join_fine_monotone_statement : Prop :=
  ∀ Denom sec fs fs' : Int, 0 < Denom → 1000000000000000 % Denom = 0 → 0 ≤ fs → fs ≤ fs' →
    fs' < 1000000000000000 →
    (Split.joinFine Denom sec fs).val ≤ (Split.joinFine Denom sec fs').val

/-! ### proofs -/

private theorem K_facts (D : Int) (hD : 0 < D) (hdvd : 1000000000000000 % D = 0) :
    0 < 1000000000000000 / D ∧ D * (1000000000000000 / D) = 1000000000000000 ∧ D ≤ 1000000000000000 := by
  have hd : D ∣ 1000000000000000 := Int.dvd_of_emod_eq_zero hdvd
  have hk : D * (1000000000000000 / D) = 1000000000000000 := Int.mul_ediv_cancel' hd
  have hm : 0 < 1000000000000000 / D := Int.ediv_pos_of_pos_of_dvd (by omega) (by omega) hd
  refine ⟨hm, hk, ?_⟩
  exact Int.le_of_dvd (by omega) hd

private theorem joinFine_val (Denom sec fs : Int) (hD : 0 < Denom)
    (hdvd : 1000000000000000 % Denom = 0) (h0 : 0 ≤ fs) :
    (Split.joinFine Denom sec fs).val = sec * Denom + fs / (1000000000000000 / Denom) := by
  obtain ⟨hm, _, hle⟩ := K_facts Denom hD hdvd
  unfold Split.joinFine
  simp only [Ck.bind_val, chk64_val, if_pos hle]
  rcases Split.cdiv_var fs (1000000000000000 / Denom) hm with ⟨h, _⟩ | ⟨_, hneg, _⟩
  · rw [h]
  · omega

theorem join_fine_floor : join_fine_floor_statement := by
  intro Denom sec fs hD hdvd h0 h1
  obtain ⟨hm, hk, _⟩ := K_facts Denom hD hdvd
  simp only [joinFine_val Denom sec fs hD hdvd h0]
  have q0 : 0 ≤ fs / (1000000000000000 / Denom) := Int.ediv_nonneg h0 (by omega)
  have q1 : fs / (1000000000000000 / Denom) < Denom := by
    apply Int.ediv_lt_of_lt_mul hm
    rw [hk]; exact h1
  refine ⟨trivial, by omega, ?_⟩
  rw [Int.add_mul]; omega

theorem join_fine_ok : join_fine_ok_statement := by
  intro Denom sec fs hD hdvd h0 _ ha hb
  obtain ⟨hm, _, hle⟩ := K_facts Denom hD hdvd
  have hc : cdiv fs (1000000000000000 / Denom) = fs / (1000000000000000 / Denom) := by
    rcases Split.cdiv_var fs (1000000000000000 / Denom) hm with ⟨h, _⟩ | ⟨_, hneg, _⟩
    · exact h
    · omega
  unfold Split.joinFine
  simp only [if_pos hle, hc]
  rw [Ck.bind_ok]
  exact ⟨(chk64_ok _).mpr ha, (chk64_ok _).mpr hb⟩

theorem split_join : split_join_statement := by
  intro D c hD hdvd
  obtain ⟨hm, hk, _⟩ := K_facts D hD hdvd
  simp only [Split.splitSeconds_N1_val D c hD, Split.subToFemto_val D _ hD hdvd]
  have hm0 := Int.emod_nonneg c (by omega : D ≠ 0)
  rw [joinFine_val D _ _ hD hdvd (Int.mul_nonneg hm0 (by omega))]
  rw [Int.mul_ediv_cancel _ (by omega : (1000000000000000 / D) ≠ 0)]
  have := Split.sub_ediv_mul c D
  omega

theorem join_fine_monotone : join_fine_monotone_statement := by
  intro Denom sec fs fs' hD hdvd h0 hle _
  obtain ⟨hm, _, _⟩ := K_facts Denom hD hdvd
  rw [joinFine_val Denom sec fs hD hdvd h0, joinFine_val Denom sec fs' hD hdvd (by omega)]
  have := Int.ediv_le_ediv hm hle
  omega

/-! satisfiable on non-trivial values: −1.5 s in milliseconds is second −2 plus 500 ms, and joins back -/
example : (Split.splitSeconds 1 1000 (-1500)).val = (-2, 500) ∧
    (Split.subToFemto 1 1000 500).val = 500000000000000 ∧
    (Split.joinFine 1000 (-2) 500000000000000).val = -1500 ∧
    (Split.joinFine 1000 (-2) 500999999999999).val = -1500 := by decide +kernel

end Cctz.C18Join
