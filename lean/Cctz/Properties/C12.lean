import Cctz.Model.Tz
namespace Cctz.C12
end Cctz.C12
