/-
  C12 — Loading arbitrary bytes as zone data is memory-safe, terminating, deterministic (model level).
  `Tz.load` is a total Lean function of the bytes (termination and determinism of the model are
  Lean's own guarantees); what is proved here is that for EVERY byte string no array index leaves
  its array, no never-written field is read, and no loop runs out of fuel — and that the zone a
  successful load yields keeps every later query inside its arrays.  The `ovf` flag (signed
  overflow) can be raised for untame data: see DESIGN.md findings F8/F9 and `C10`.
  Memory safety of the C++ itself is supported by the ASan run of the correspondence, not proved.
-/
import Cctz.Model.Tz
import Cctz.Spec.TableSem
import Cctz.Proofs.LoadSafe
import Cctz.Proofs.LdExtend
import Cctz.Proofs.LdLoad
import Cctz.Proofs.LdBuiltin
import Cctz.Proofs.LdQuery

namespace Cctz.C12
open Cctz Cctz.Tz Cctz.Spec

/-- for every byte string and either `Skip` behaviour of the source -/
def load_safe_statement : Prop :=
  ∀ (cfg : LoadCfg) (b : Bytes), MemSafe (load cfg b).flags

/-- a successful load yields a table whose indices are all in range -/
def load_shape_statement : Prop :=
  ∀ (cfg : LoadCfg) (b : Bytes) (z : Zone), (load cfg b).val = .ok z → TableIdx z

/-- the built-in fixed-offset zones too -/
def builtin_shape_statement : Prop :=
  ∀ off : Int, MemSafe (resetToBuiltinUTC off).flags ∧ TableIdx (resetToBuiltinUTC off).val

/-- on such a table every query stays inside the arrays, for every argument and every hint -/
/- NOTE: this first wording quantifies over unnormalised field values that no C++ civil_second can hold
   and is FALSE for them (`queries_safe_counterexample`); the property theorem is
   `queries_safe : queries_safe_statement` below, for valid civil seconds. -/
def queries_safe_unnormalised_statement : Prop :=
  ∀ (z : Zone), TableIdx z → ∀ (h : Nat) (t : Int) (cs : Fields),
    MemSafe (breakTime z h t).flags ∧ MemSafe (makeTime z h cs).flags ∧ MemSafe (convert z h cs).flags ∧
    MemSafe (nextTransition z t).flags ∧ MemSafe (prevTransition z t).flags

/-- the footer parser's result is fully determined before ExtendTransitions reads it: no `unset`
read for any zone and any footer (this was false before the repair of F1) -/
def extend_no_unset_statement : Prop :=
  ∀ (z : Zone), (extendTransitions z).flags.unset = false

/-- the sentinels and limits are the documented ones -/
def constants_statement : Prop :=
  Gen.sentinelFirst = -576460752303423488 ∧ Gen.sentinelSecond = 2147483647 ∧ Gen.extendYears = 401 ∧
  Gen.kSecsPerDay = 86400 ∧ Gen.kSecsPer400Years = 12622780800 ∧ Gen.kDaysPerYear = [365, 366] ∧
  Gen.kSecsPerYear = [31536000, 31622400] ∧
  Gen.kMonthOffsets0 = [-1, 0, 31, 59, 90, 120, 151, 181, 212, 243, 273, 304, 334, 365] ∧
  Gen.kMonthOffsets1 = [-1, 0, 31, 60, 91, 121, 152, 182, 213, 244, 274, 305, 335, 366]

/-! ## proofs -/

theorem constants : constants_statement := by
  unfold constants_statement
  decide

theorem extend_no_unset : extend_no_unset_statement :=
  fun z => Ld.extendTransitions_nu z

theorem builtin_shape : builtin_shape_statement := by
  intro off
  have h := Ld.builtin_spec off
  exact ⟨(Ld.memSafe_iff_safe _).2 h.1, h.2⟩

theorem load_safe : load_safe_statement :=
  fun cfg b => (Ld.memSafe_iff_safe _).2 (Ld.load_spec cfg b).1

theorem load_shape : load_shape_statement :=
  fun cfg b z h => (Ld.load_spec cfg b).2 z h

/-! ### `queries_safe_unnormalised_statement` is false as stated

The statement quantifies over every `cs : Fields`, including field values no `civil_second` object
of the C++ can hold (its constructor normalises).  On an extended zone, `MakeTime` of a civil
second whose *unnormalised* month field carries more than 400 years — here year 1971, "month"
4813 on a zone with `last_year_ = 1970` — takes the `TimeLocal` path, whose year shift
`YearShift(cs, -400)` re-normalises the fields to 1972-01-01, still beyond `last_year_`: the inner
`MakeTime` asks for a second shift, which the C++ excludes by `assert` and the model reports as
the `fuel` flag.  No array access is involved. -/

/-- a one-entry extended table with all indices in range -/
def cexZone : Zone :=
  { transitions := #[{ unixTime := 0, typeIndex := 0 }],
    types := #[{ utcOffset := 0, isDst := false, abbrIndex := 0 }],
    defaultType := 0, abbreviations := [85, 84, 67, 0], futureSpec := [],
    extended := true, lastYear := some 1970 }

/-- year 1971, month field 4813 (= 1971 + 401 years, January): not a normalised civil second -/
def cexCs : Fields := ⟨1971, 4813, 1, 0, 0, 0⟩

theorem cexZone_tableIdx : TableIdx cexZone := by
  refine ⟨by decide, ?_, by decide, fun _ => rfl⟩
  intro i hi
  have : i = 0 := by
    have : cexZone.transitions.size = 1 := rfl
    omega
  subst this
  decide

theorem cex_makeTime_fuel : (makeTime cexZone 0 cexCs).flags.fuel = true := by decide +kernel

theorem queries_safe_counterexample : ¬ queries_safe_unnormalised_statement := by
  intro h
  have h2 := (h cexZone cexZone_tableIdx 0 0 cexCs).2.1.2.2
  rw [cex_makeTime_fuel] at h2
  cases h2

/-- the same with the missing hypothesis made explicit: `MakeTime` and `convert` are given a
valid (normalised) civil second, which is all a `civil_second` of the C++ can be.  `BreakTime`,
`NextTransition` and `PrevTransition` need nothing beyond `TableIdx`; no sortedness of the table
is needed for any of the five. -/
def queries_safe_statement : Prop :=
  ∀ (z : Zone), TableIdx z → ∀ (h : Nat) (t : Int) (cs : Fields),
    MemSafe (breakTime z h t).flags ∧
    (Spec.Valid cs → MemSafe (makeTime z h cs).flags ∧ MemSafe (convert z h cs).flags) ∧
    MemSafe (nextTransition z t).flags ∧ MemSafe (prevTransition z t).flags

theorem queries_safe : queries_safe_statement := by
  intro z hz h t cs
  refine ⟨(Ld.memSafe_iff_safe _).2 (Ld.breakTime_safe z hz h t), fun hcs => ⟨?_, ?_⟩,
    (Ld.memSafe_iff_safe _).2 (Ld.nextTransition_safe z hz t),
    (Ld.memSafe_iff_safe _).2 (Ld.prevTransition_safe z hz t)⟩
  · exact (Ld.memSafe_iff_safe _).2 (Ld.makeTime_safe z hz h cs hcs)
  · exact (Ld.memSafe_iff_safe _).2 (Ld.convert_safe z hz h cs hcs)

/-- the hypotheses of `queries_safe` are satisfiable on a non-trivial value: the extended
zone above and a valid civil second beyond `last_year_` (so the `TimeLocal` path is taken) -/
example : TableIdx cexZone ∧ Spec.Valid ⟨2400, 2, 29, 23, 59, 59⟩ ∧
    (makeTimeCore cexZone 0 ⟨2400, 2, 29, 23, 59, 59⟩).val.1 = .inr 2 :=
  ⟨cexZone_tableIdx, by decide, by decide +kernel⟩

/-- `load_shape` is not vacuous: a minimal version-1 TZif file (one type, no transitions) loads,
and the table gets its two sentinels -/
example : (match (load {} ([84, 90, 105, 102, 0] ++ List.replicate 15 0 ++
      [0,0,0,0, 0,0,0,0, 0,0,0,0, 0,0,0,0, 0,0,0,1, 0,0,0,4] ++ [0,0,0,0, 0, 0] ++ [85, 84, 67, 0])).val with
    | .ok z => z.transitions.size == 2
    | _ => false) = true := by decide +kernel

end Cctz.C12
