/-
  C12 — Loading arbitrary bytes as zone data is memory-safe, terminating, deterministic (model level).
  `Tz.load` is a total Lean function of the bytes (termination and determinism of the model are
  Lean's own guarantees); what is proved here is that for EVERY byte string no array index leaves
  its array, no never-written field is read, and no loop runs out of fuel — and that the zone a
  successful load yields keeps every later query inside its arrays.  The `ovf` flag (signed
  overflow) can be raised for untame data: see DESIGN.md findings F8/F9 and `C10`.
  Memory safety of the C++ itself is supported by the ASan run of the correspondence, not proved.
-/
import Cctz.Model.Tz
import Cctz.Spec.TableSem
import Cctz.Proofs.LoadSafe

namespace Cctz.C12
open Cctz Cctz.Tz Cctz.Spec

/-- for every byte string and either `Skip` behaviour of the source -/
def load_safe_statement : Prop :=
  ∀ (cfg : LoadCfg) (b : Bytes), MemSafe (load cfg b).flags

/-- a successful load yields a table whose indices are all in range -/
def load_shape_statement : Prop :=
  ∀ (cfg : LoadCfg) (b : Bytes) (z : Zone), (load cfg b).val = .ok z → TableIdx z

/-- the built-in fixed-offset zones too -/
def builtin_shape_statement : Prop :=
  ∀ off : Int, MemSafe (resetToBuiltinUTC off).flags ∧ TableIdx (resetToBuiltinUTC off).val

/-- on such a table every query stays inside the arrays, for every argument and every hint -/
def queries_safe_statement : Prop :=
  ∀ (z : Zone), TableIdx z → ∀ (h : Nat) (t : Int) (cs : Fields),
    MemSafe (breakTime z h t).flags ∧ MemSafe (makeTime z h cs).flags ∧ MemSafe (convert z h cs).flags ∧
    MemSafe (nextTransition z t).flags ∧ MemSafe (prevTransition z t).flags

/-- the footer parser's result is fully determined before ExtendTransitions reads it: no `unset`
read for any zone and any footer (this was false before the repair of F1) -/
def extend_no_unset_statement : Prop :=
  ∀ (z : Zone), (extendTransitions z).flags.unset = false

/-- the sentinels and limits are the documented ones -/
def constants_statement : Prop :=
  Gen.sentinelFirst = -576460752303423488 ∧ Gen.sentinelSecond = 2147483647 ∧ Gen.extendYears = 401 ∧
  Gen.kSecsPerDay = 86400 ∧ Gen.kSecsPer400Years = 12622780800 ∧ Gen.kDaysPerYear = [365, 366] ∧
  Gen.kSecsPerYear = [31536000, 31622400] ∧
  Gen.kMonthOffsets0 = [-1, 0, 31, 59, 90, 120, 151, 181, 212, 243, 273, 304, 334, 365] ∧
  Gen.kMonthOffsets1 = [-1, 0, 31, 60, 91, 121, 152, 182, 213, 244, 274, 305, 335, 366]

end Cctz.C12
