/-
  C11 (sub-second time points) — the public templates `next_transition(time_point<D>)` /
  `prev_transition(time_point<D>)` answer for the *instant*, not for its whole second:
  "strictly after" / "strictly before" the instant of `c` ticks of `1/D` s.

  The templates in `include/cctz/time_zone.h` (after the repair F16):
    next: `next_transition(split_seconds(tp).first)`
    prev: `prev_transition(split.first + 1s)` when there is a fraction (and the second is not the
          last representable one), `prev_transition(split.first)` otherwise.
  A change happens at a whole second `T`; it is after the instant iff `c < T·D`, before it iff `T·D < c`.
-/
import Cctz.Model.SubQuery
import Cctz.Spec.TableSem
import Cctz.Properties.C11
import Cctz.Properties.C18

namespace Cctz.C11Sub
open Cctz Cctz.Tz Cctz.Spec Cctz.SubQuery

/-- whole seconds against a sub-second instant: `T` is after the instant iff it is after its floor;
before the instant iff it is before the floor plus one when there is a fraction, before the floor otherwise -/
def order_statement : Prop :=
  ∀ D c T : Int, 0 < D →
    let r := (Split.splitSeconds 1 D c).val
    (c < T * D ↔ r.1 < T) ∧ (T * D < c ↔ T < (if r.2 > 0 then r.1 + 1 else r.1))

/-- next_transition of a sub-second instant: the earliest real change strictly after the instant -/
def nextSub_statement : Prop :=
  ∀ (z : Zone) (D c : Int), TableWF z → 0 < D →
    match (nextSub z D c).val with
    | none => ∀ i, RealChange z i → (trn z i).unixTime * D ≤ c
    | some r => ∃ i, RealChange z i ∧ c < (trn z i).unixTime * D ∧ r = reportOf z i ∧
        ∀ j, RealChange z j → c < (trn z j).unixTime * D → (trn z i).unixTime ≤ (trn z j).unixTime

/-- prev_transition of a sub-second instant: the latest real change strictly before the instant
(the whole second of the instant is not the last representable one) -/
def prevSub_statement : Prop :=
  ∀ (z : Zone) (D c : Int), TableWF z → 0 < D → (Split.splitSeconds 1 D c).val.1 ≠ i64max →
    match (prevSub z D c).val with
    | none => ∀ i, RealChange z i → c ≤ (trn z i).unixTime * D
    | some r => ∃ i, RealChange z i ∧ (trn z i).unixTime * D < c ∧ r = reportOf z i ∧
        ∀ j, RealChange z j → (trn z j).unixTime * D < c → (trn z j).unixTime ≤ (trn z i).unixTime

/-- why the repair F16 was needed: flooring alone misses a change at the floor of an instant with
a fraction (change at second 10, instant 10.5 s: 10 < 10.5 but not 10 < 10) -/
def floor_alone_misses_statement : Prop :=
  ∃ D c T : Int, 0 < D ∧ T * D < c ∧ ¬ T < (Split.splitSeconds 1 D c).val.1

end Cctz.C11Sub

namespace Cctz.C11Sub
open Cctz Cctz.Tz Cctz.Spec Cctz.SubQuery

private theorem arith (D a s T : Int) (hD : 0 < D) (h0 : 0 ≤ s) (h1 : s < D) :
    (a * D + s < T * D ↔ a < T) ∧ (T * D < a * D + s ↔ T < (if s > 0 then a + 1 else a)) := by
  have m1 : ∀ x y : Int, x ≤ y → x * D ≤ y * D := fun x y h => Int.mul_le_mul_of_nonneg_right h (Int.le_of_lt hD)
  have e1 : (a + 1) * D = a * D + D := by rw [Int.add_mul, Int.one_mul]
  have e2 : (T + 1) * D = T * D + D := by rw [Int.add_mul, Int.one_mul]
  refine ⟨⟨fun h => ?_, fun h => ?_⟩, ?_⟩
  · apply Classical.byContradiction; intro hn
    have := m1 T a (by omega); omega
  · have := m1 (a + 1) T (by omega); omega
  · by_cases hs : s > 0
    · rw [if_pos hs]
      refine ⟨fun h => ?_, fun h => ?_⟩
      · apply Classical.byContradiction; intro hn
        have := m1 (a + 1) T (by omega); omega
      · have := m1 T a (by omega); omega
    · rw [if_neg hs]
      have hs0 : s = 0 := by omega
      refine ⟨fun h => ?_, fun h => ?_⟩
      · apply Classical.byContradiction; intro hn
        have := m1 a T (by omega); omega
      · have := m1 (T + 1) a (by omega); omega

theorem order : order_statement := by
  intro D c T hD
  have h := C18.split_floor 1 D c (by omega) hD (Or.inl rfl)
  simp only [Int.mul_one] at h
  obtain ⟨_, h0, h1, h2⟩ := h
  have := arith D (Split.splitSeconds 1 D c).val.1 (Split.splitSeconds 1 D c).val.2 T hD h0 h1
  rw [h2] at this
  exact this

theorem nextSub_val (z : Zone) (D c : Int) :
    (nextSub z D c).val = (nextTransition z (Split.splitSeconds 1 D c).val.1).val := rfl

theorem prevSub_val (z : Zone) (D c : Int) :
    (prevSub z D c).val =
      (prevTransition z (prevArg (Split.splitSeconds 1 D c).val.1 (Split.splitSeconds 1 D c).val.2)).val := rfl

theorem nextSub_spec : nextSub_statement := by
  intro z D c wf hD
  have hn := (C11.nextTransition_spec z (Split.splitSeconds 1 D c).val.1 wf).2
  rw [nextSub_val]
  have ord := fun T => (order D c T hD).1
  cases hv : (nextTransition z (Split.splitSeconds 1 D c).val.1).val with
  | none =>
    rw [hv] at hn
    intro i hi
    have h1 := hn i hi
    have h2 := ord (trn z i).unixTime
    apply Classical.byContradiction; intro hc
    have : (Split.splitSeconds 1 D c).val.1 < (trn z i).unixTime := h2.mp (by omega)
    omega
  | some r =>
    rw [hv] at hn
    obtain ⟨i, hi, hlt, hr, hmin⟩ := hn
    refine ⟨i, hi, (ord _).mpr hlt, hr, ?_⟩
    intro j hj hcj
    exact hmin j hj ((ord _).mp hcj)

theorem prevSub_spec : prevSub_statement := by
  intro z D c wf hD hmax
  rw [prevSub_val]
  have harg : prevArg (Split.splitSeconds 1 D c).val.1 (Split.splitSeconds 1 D c).val.2 =
      (if (Split.splitSeconds 1 D c).val.2 > 0 then (Split.splitSeconds 1 D c).val.1 + 1 else (Split.splitSeconds 1 D c).val.1) := by
    unfold prevArg
    by_cases h : (Split.splitSeconds 1 D c).val.2 > 0
    · rw [if_pos ⟨h, hmax⟩, if_pos h]
    · rw [if_neg (fun hh => h hh.1), if_neg h]
  have ord := fun T => (order D c T hD).2
  rw [harg]
  have hp := (C11.prevTransition_spec z (if (Split.splitSeconds 1 D c).val.2 > 0 then (Split.splitSeconds 1 D c).val.1 + 1 else (Split.splitSeconds 1 D c).val.1) wf).2
  cases hv : (prevTransition z (if (Split.splitSeconds 1 D c).val.2 > 0 then (Split.splitSeconds 1 D c).val.1 + 1 else (Split.splitSeconds 1 D c).val.1)).val with
  | none =>
    rw [hv] at hp
    intro i hi
    have h1 := hp i hi
    apply Classical.byContradiction; intro hc
    have := (ord (trn z i).unixTime).mp (by omega)
    omega
  | some r =>
    rw [hv] at hp
    obtain ⟨i, hi, hlt, hr, hmax'⟩ := hp
    refine ⟨i, hi, (ord _).mpr hlt, hr, ?_⟩
    intro j hj hcj
    exact hmax' j hj ((ord _).mp hcj)

theorem floor_alone_misses : floor_alone_misses_statement :=
  ⟨2, 21, 10, by decide, by decide, by decide⟩

/-- the hypotheses are satisfiable and the templates say something on a concrete table: see
`C11.lean`'s examples for `TableWF`; here the arithmetic side: 10.5 s (D = 2, c = 21) splits into (10, 1),
a change at second 10 is before it, a change at second 11 after it -/
example : (Split.splitSeconds 1 2 21).val = (10, 1) := by decide
example : (Split.splitSeconds 1 2 (-21)).val = (-11, 1) := by decide
example : prevArg 10 1 = 11 ∧ prevArg 10 0 = 10 ∧ prevArg i64max 1 = i64max := by decide

end Cctz.C11Sub
