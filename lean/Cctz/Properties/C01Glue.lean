/-
  C01 (continued) — gluing: for an extended table, lookup(t) at ANY instant after the recorded
  transitions reports the footer rule evaluated on the proleptic Gregorian calendar at t itself
  (arbitrarily far into the future), although the code only tabulates 402 years and shifts by
  multiples of 400 years.

  The first wording of this property (kept below as `lookup_follows_rule_first_wording`) was FALSE
  and nearly vacuous; see `first_wording_false` and `extendedBy_degenerate`.  The statement now
  takes the generated part of the table column-wise (`ExtendedKeys`) and assumes `Regular`; that
  clause 1 of `Regular` cannot be dropped even when `y0` is the civil year of the last recorded
  transition is `regular_needed` (a table on which `BreakTime` disagrees with the rule).
-/
import Cctz.Model.Tz
import Cctz.Spec.PosixRule
import Cctz.Spec.TableSem
import Cctz.Properties.C01
import Cctz.Properties.C01Rule
import Cctz.Proofs.RuleGlue
import Cctz.Proofs.RgExample
import Cctz.Proofs.RgWitness

namespace Cctz.C01Glue
open Cctz Cctz.Tz Cctz.Spec

/-- a rule: both dates and times, the two offsets -/
structure Rule where
  sd : Posix.Date
  st : Int
  ed : Posix.Date
  et : Int
  stdOff : Int
  dstOff : Int

/-- `a` is a rule instant of year `y`: a start of DST (`kind = true`) or an end (`kind = false`) -/
def IsRuleInstant (r : Rule) (y : Int) (a : Int) (kind : Bool) : Prop :=
  (kind = true ∧ ruleInstant r.sd r.st r.stdOff y = some a) ∨
  (kind = false ∧ ruleInstant r.ed r.et r.dstOff y = some a)

/-- the rule says DST is in force at `t` iff the latest rule instant at or before `t`, over the
years from `y0` on, is a start; `none` when there is no rule instant in `(lastRec, t]` at all -/
def RuleKindAt (r : Rule) (y0 : Int) (lastRec t : Int) (k : Option Bool) : Prop :=
  match k with
  | none => ∀ y a kind, y0 ≤ y → IsRuleInstant r y a kind → ¬ (lastRec < a ∧ a ≤ t)
  | some kind => ∃ y a, y0 ≤ y ∧ IsRuleInstant r y a kind ∧ lastRec < a ∧ a ≤ t ∧
      ∀ y' b kind', y0 ≤ y' → IsRuleInstant r y' b kind' → b ≤ t → b ≤ a ∧ (b = a → kind' = kind)

/-- the two columns `ExtendTransitions` writes -/
def cols (x : Transition) : Int × Nat := (x.unixTime, x.typeIndex)

/-- the shape `ExtendTransitions` gives the table (theorem `C01Rule.extendLoop_trans`): the
recorded entries followed by entries that agree, in the time and type columns, with the year pairs
of the years y0 … y0+401 (`Load` fills the civil columns of all entries afterwards) -/
def ExtendedKeys (z : Zone) (r : Rule) (rec : List Transition) (y0 : Int) (dstTi stdTi : Nat) : Prop :=
  rec ≠ [] ∧ z.extended = true ∧
  (∃ gen : List Transition, z.transitions.toList = rec ++ gen ∧
    gen.map cols = ((List.range 402).flatMap (fun (k : Nat) =>
      C01Rule.yearPair { dstStart := ⟨some r.sd, some r.st⟩, dstEnd := ⟨some r.ed, some r.et⟩ } dstTi stdTi
        ((rec.getLast?.map (·.unixTime)).getD 0) r.stdOff r.dstOff (y0 + (k : Int)))).map cols) ∧
  (typ z dstTi).utcOffset = r.dstOff ∧ (typ z dstTi).isDst = true ∧
  (typ z stdTi).utcOffset = r.stdOff ∧ (typ z stdTi).isDst = false ∧
  DateInGrammar r.sd ∧ DateInGrammar r.ed

/-- Regularity of the recorded part (last recorded transition at `L`) against the rule tabulated
from year `y0` on:
 1. at least one rule instant of year `y0+1` is later than `L`.  Otherwise the 400-year window
    `[last - k400, last)` into which `BreakTime` maps later instants starts inside the recorded
    part, and the recorded types, not the rule, answer for the instants between the later rule
    instant of year `y0+401` and `L + k400` (`regular_needed`).
 2. every rule instant of the years `y0+2 … y0+401` is later than `L`.  Otherwise the copy, 400
    years on, of a dropped instant lies inside the tabulated range without being in the table.
 With `y0` the civil year of `L` (as `ExtendTransitions` takes it) clause 2 always holds for
 offsets and rule times within the grammar, and clause 1 holds unless both rule instants of year
 `y0+1` fall, by negative rule times, into the last days of civil year `y0` before `L`
 (`regular_of_civilYear`). -/
def Regular (r : Rule) (y0 L : Int) : Prop :=
  (∃ a kind, IsRuleInstant r (y0 + 1) a kind ∧ L < a) ∧
  (∀ y a kind, y0 + 2 ≤ y → y ≤ y0 + 401 → IsRuleInstant r y a kind → L < a)

/-- lookup(t) beyond the recorded transitions follows the rule at t itself, for every int64 t and
every hint: the type of the last recorded transition until the first rule instant after it, then
DST exactly when the latest rule instant at or before t is a start -/
def lookup_follows_rule_statement : Prop :=
  ∀ (z : Zone) (r : Rule) (rec : List Transition) (y0 : Int) (dstTi stdTi : Nat) (h : Nat) (t : Int),
    TableWF z → CivilCols z → ExtendedKeys z r rec y0 dstTi stdTi →
    Regular r y0 ((rec.getLast?.map (·.unixTime)).getD 0) →
    (rec.getLast?.map (·.unixTime)).getD 0 ≤ t →
    ∃ k, RuleKindAt r y0 ((rec.getLast?.map (·.unixTime)).getD 0) t k ∧
      let a := (breakTime z h t).val.1
      match k with
      | none => a.offset = (typ z ((rec.getLast?.map (·.typeIndex)).getD 0)).utcOffset ∧
                a.isDst = (typ z ((rec.getLast?.map (·.typeIndex)).getD 0)).isDst
      | some true => a.offset = r.dstOff ∧ a.isDst = true
      | some false => a.offset = r.stdOff ∧ a.isDst = false

/-- `Regular` in the terms of `ExtendTransitions`: the last recorded transition lies, in the local
time `offL` of its type, before the end of civil year `y0`; the rule times net of the offset
differences are less than 365 days negative and at least one of them is not negative -/
def regular_of_civilYear_statement : Prop :=
  ∀ (r : Rule) (y0 L offL : Int), DateInGrammar r.sd → DateInGrammar r.ed →
    L + offL < dayNum (y0 + 1) 1 1 * 86400 →
    -31536000 ≤ r.st - r.stdOff + offL → -31536000 ≤ r.et - r.dstOff + offL →
    (0 ≤ r.st - r.stdOff + offL ∨ 0 ≤ r.et - r.dstOff + offL) →
    Regular r y0 L

/-- clause 1 of `Regular` cannot be dropped: there is a table with all the other hypotheses, `y0`
the civil year of its last recorded transition, rule times within the ±167 h of the grammar and
clause 2 of `Regular`, and an instant at which the answer of `BreakTime` is not the rule's -/
def regular_needed_statement : Prop :=
  ∃ (z : Zone) (r : Rule) (rec : List Transition) (y0 : Int) (dstTi stdTi : Nat) (h : Nat) (t : Int),
    TableWF z ∧ CivilCols z ∧ ExtendedKeys z r rec y0 dstTi stdTi ∧
    dayNum y0 1 1 * 86400 ≤ (rec.getLast?.map (·.unixTime)).getD 0 +
      (typ z ((rec.getLast?.map (·.typeIndex)).getD 0)).utcOffset ∧
    (rec.getLast?.map (·.unixTime)).getD 0 +
      (typ z ((rec.getLast?.map (·.typeIndex)).getD 0)).utcOffset < dayNum (y0 + 1) 1 1 * 86400 ∧
    -601200 ≤ r.st ∧ r.st ≤ 601200 ∧ -601200 ≤ r.et ∧ r.et ≤ 601200 ∧
    (∀ y a kind, y0 + 2 ≤ y → y ≤ y0 + 401 → IsRuleInstant r y a kind →
      (rec.getLast?.map (·.unixTime)).getD 0 < a) ∧
    (rec.getLast?.map (·.unixTime)).getD 0 ≤ t ∧
    ¬ ∃ k, RuleKindAt r y0 ((rec.getLast?.map (·.unixTime)).getD 0) t k ∧
      let a := (breakTime z h t).val.1
      match k with
      | none => a.offset = (typ z ((rec.getLast?.map (·.typeIndex)).getD 0)).utcOffset ∧
                a.isDst = (typ z ((rec.getLast?.map (·.typeIndex)).getD 0)).isDst
      | some true => a.offset = r.dstOff ∧ a.isDst = true
      | some false => a.offset = r.stdOff ∧ a.isDst = false

/-! ## the first wording (false, and vacuous on real tables) -/

/-- first wording of the table shape: the generated entries are literally the `yearPair` values,
civil columns included (which are the 1970-01-01 defaults there) -/
def ExtendedBy (z : Zone) (r : Rule) (rec : List Transition) (y0 : Int) (dstTi stdTi : Nat) : Prop :=
  rec ≠ [] ∧ z.extended = true ∧
  z.transitions.toList = rec ++ (List.range 402).flatMap (fun (k : Nat) =>
    C01Rule.yearPair { dstStart := ⟨some r.sd, some r.st⟩, dstEnd := ⟨some r.ed, some r.et⟩ } dstTi stdTi
      ((rec.getLast?.map (·.unixTime)).getD 0) r.stdOff r.dstOff (y0 + (k : Int))) ∧
  (typ z dstTi).utcOffset = r.dstOff ∧ (typ z dstTi).isDst = true ∧
  (typ z stdTi).utcOffset = r.stdOff ∧ (typ z stdTi).isDst = false ∧
  DateInGrammar r.sd ∧ DateInGrammar r.ed

/-- first wording of the property: no regularity assumption, literal table shape -/
def lookup_follows_rule_first_wording : Prop :=
  ∀ (z : Zone) (r : Rule) (rec : List Transition) (y0 : Int) (dstTi stdTi : Nat) (h : Nat) (t : Int),
    TableWF z → CivilCols z → ExtendedBy z r rec y0 dstTi stdTi →
    (rec.getLast?.map (·.unixTime)).getD 0 ≤ t →
    ∃ k, RuleKindAt r y0 ((rec.getLast?.map (·.unixTime)).getD 0) t k ∧
      let a := (breakTime z h t).val.1
      match k with
      | none => a.offset = (typ z ((rec.getLast?.map (·.typeIndex)).getD 0)).utcOffset ∧
                a.isDst = (typ z ((rec.getLast?.map (·.typeIndex)).getD 0)).isDst
      | some true => a.offset = r.dstOff ∧ a.isDst = true
      | some false => a.offset = r.stdOff ∧ a.isDst = false

/-- the literal shape implies the column-wise one -/
def extendedBy_keys_statement : Prop :=
  ∀ (z : Zone) (r : Rule) (rec : List Transition) (y0 : Int) (dstTi stdTi : Nat),
    ExtendedBy z r rec y0 dstTi stdTi → ExtendedKeys z r rec y0 dstTi stdTi

/-- with the literal shape and `CivilCols`, two generated entries of the same type coincide: the
first wording speaks about tables with at most two generated entries only -/
def extendedBy_degenerate_statement : Prop :=
  ∀ (z : Zone) (r : Rule) (rec : List Transition) (y0 : Int) (dstTi stdTi : Nat),
    TableWF z → CivilCols z → ExtendedBy z r rec y0 dstTi stdTi →
    ∀ x y, x ∈ z.transitions.toList.drop rec.length → y ∈ z.transitions.toList.drop rec.length →
      x.typeIndex = y.typeIndex → x = y

/-! ## proofs (helper lemmas: Cctz/Proofs/RuleGlue.lean, RgOrder.lean, RgTable.lean, RgZone.lean,
RgCounter.lean, RgExample.lean, RgWitness.lean) -/

theorem isRuleInstant_iff (r : Rule) (gs : DateInGrammar r.sd) (ge : DateInGrammar r.ed)
    (y a : Int) (kind : Bool) :
    IsRuleInstant r y a kind ↔
      Rg.IsK (Rg.inst r.sd r.st r.stdOff) (Rg.inst r.ed r.et r.dstOff) y a kind := by
  unfold IsRuleInstant Rg.IsK
  rw [Rg.ruleInstant_some _ _ _ _ gs, Rg.ruleInstant_some _ _ _ _ ge]
  simp only [Option.some.injEq]
  rw [eq_comm (b := a), eq_comm (b := a)]

theorem ruleKindAt_iff (r : Rule) (gs : DateInGrammar r.sd) (ge : DateInGrammar r.ed)
    (y0 L t : Int) (k : Option Bool) :
    RuleKindAt r y0 L t k ↔
      Rg.KindAt (Rg.inst r.sd r.st r.stdOff) (Rg.inst r.ed r.et r.dstOff) y0 L t k := by
  unfold RuleKindAt Rg.KindAt
  cases k <;> simp only [isRuleInstant_iff r gs ge]

/-- `Regular` over the raw rule fields -/
theorem regular_iff (r : Rule) (y0 L : Int) :
    Regular r y0 L ↔ Rg.Regular r.sd r.st r.ed r.et r.stdOff r.dstOff y0 L := by
  unfold Regular Rg.Regular IsRuleInstant
  constructor
  · rintro ⟨⟨a, kind, hk, hL⟩, h2⟩
    refine ⟨⟨a, ?_, hL⟩, ?_⟩
    · rcases hk with hk | hk
      · exact Or.inl hk.2
      · exact Or.inr hk.2
    · intro y a h1 h1' ha
      rcases ha with ha | ha
      · exact h2 y a true h1 h1' (Or.inl ⟨rfl, ha⟩)
      · exact h2 y a false h1 h1' (Or.inr ⟨rfl, ha⟩)
  · rintro ⟨⟨a, ha, hL⟩, h2⟩
    refine ⟨?_, ?_⟩
    · rcases ha with ha | ha
      · exact ⟨a, true, Or.inl ⟨rfl, ha⟩, hL⟩
      · exact ⟨a, false, Or.inr ⟨rfl, ha⟩, hL⟩
    · intro y a kind h1 h1' hk
      rcases hk with hk | hk
      · exact h2 y a h1 h1' (Or.inl hk.2)
      · exact h2 y a h1 h1' (Or.inr hk.2)

/-- the year pairs over the total instant functions -/
theorem yearPairs_eq (r : Rule) (gs : DateInGrammar r.sd) (ge : DateInGrammar r.ed)
    (rec : List Transition) (y0 : Int) (dstTi stdTi : Nat) :
    ((List.range 402).flatMap (fun (k : Nat) =>
      C01Rule.yearPair { dstStart := ⟨some r.sd, some r.st⟩, dstEnd := ⟨some r.ed, some r.et⟩ } dstTi stdTi
        ((rec.getLast?.map (·.unixTime)).getD 0) r.stdOff r.dstOff (y0 + (k : Int)))) =
    Rg.genList (Rg.inst r.sd r.st r.stdOff) (Rg.inst r.ed r.et r.dstOff) dstTi stdTi (Rg.lastTime rec) y0 := by
  unfold Rg.genList
  congr 1
  funext k
  rw [C01Rule.yearPair_eq _ dstTi stdTi _ r.stdOff r.dstOff r.sd r.ed r.st r.et rfl rfl]
  unfold Ru.yearPairL
  rw [Rg.ruleInstant_some _ _ _ _ gs, Rg.ruleInstant_some _ _ _ _ ge]
  rfl

theorem lookup_follows_rule : lookup_follows_rule_statement := by
  intro z r rec y0 dstTi stdTi h t wf cc hx hreg ht
  obtain ⟨hrec, hext, ⟨gen, hl, hkeys⟩, hdo, hdd, hso, hsd, gs, ge⟩ := hx
  rw [yearPairs_eq r gs ge] at hkeys
  obtain ⟨k, hk, ho, hd⟩ := Rg.glue_core z rec _ _ (Rg.inst_per r.sd r.st r.stdOff gs)
    (Rg.inst_per r.ed r.et r.dstOff ge) y0 dstTi stdTi h t wf cc hrec hext gen hl hkeys
    (Rg.reg_of_regular gs ge ((regular_iff r y0 _).1 hreg)) ht
  refine ⟨k, (ruleKindAt_iff r gs ge _ _ _ _).2 hk, ?_⟩
  match k with
  | none => exact ⟨ho, hd⟩
  | some true => exact ⟨by rw [ho]; exact hdo, by rw [hd]; exact hdd⟩
  | some false => exact ⟨by rw [ho]; exact hso, by rw [hd]; exact hsd⟩

theorem regular_of_civilYear : regular_of_civilYear_statement := by
  intro r y0 L offL gs ge hy hs he h1
  exact (regular_iff r y0 L).2 (Rg.regular_of_civilYear offL gs ge hy hs he h1)

/-! ### the hypotheses are satisfiable: New York after the 2007 transitions -/

/-- `EST5EDT,M3.2.0/2,M11.1.0/2` -/
def nyRule : Rule := ⟨Rg.nySd, 7200, Rg.nyEd, 7200, -18000, -14400⟩

theorem ny_extendedKeys : ExtendedKeys Rg.nyZone nyRule (Rg.fill Rg.nyTypes 0 Rg.nyRec) 2007 2 1 := by
  refine ⟨by decide, rfl, ?_, Rg.off_mkZone Rg.nyTypes 0 _ 2, Rg.dst_mkZone Rg.nyTypes 0 _ 2 (by decide),
    Rg.off_mkZone Rg.nyTypes 0 _ 1, Rg.dst_mkZone Rg.nyTypes 0 _ 1 (by decide), Rg.nySd_g, Rg.nyEd_g⟩
  rw [yearPairs_eq nyRule Rg.nySd_g Rg.nyEd_g]
  exact Rg.keys_mkZone_ext Rg.nyTypes 0 Rg.nyRec Rg.nyS Rg.nyE 2 1 1194156000 2007

theorem ny_regular : Regular nyRule 2007 1194156000 :=
  regular_of_civilYear nyRule 2007 1194156000 (-18000) Rg.nySd_g Rg.nyEd_g (by decide) (by decide)
    (by decide) (Or.inl (by decide))

/-- the hypotheses of `lookup_follows_rule` hold for the table made of the two 2007 transitions of
New York followed by the 804 rule instants of 2008 … 2408 (y0 = 2007, L = 2007-11-04 06:00:00 UTC) -/
example : TableWF Rg.nyZone ∧ CivilCols Rg.nyZone ∧
    ExtendedKeys Rg.nyZone nyRule (Rg.fill Rg.nyTypes 0 Rg.nyRec) 2007 2 1 ∧
    Regular nyRule 2007 (((Rg.fill Rg.nyTypes 0 Rg.nyRec).getLast?.map (·.unixTime)).getD 0) ∧
    ((Rg.fill Rg.nyTypes 0 Rg.nyRec).getLast?.map (·.unixTime)).getD 0 ≤ 4102444800 :=
  ⟨Rg.ny_wf, Rg.ny_cols, ny_extendedKeys, ny_regular, by decide⟩

/-! ### clause 1 of `Regular` is needed -/

/-- the POSIX string `XST0XDT,J1/` `-48,J2/` `-30` (start: January 1st minus 48 h, end: January 2nd minus 30 h) -/
def wRule : Rule := ⟨Rg.wSd, -172800, Rg.wEd, -108000, 0, 3600⟩

theorem w_extendedKeys : ExtendedKeys Rg.wZone wRule (Rg.fill Rg.wTypes 0 Rg.wRec) 2007 2 1 := by
  refine ⟨by decide, rfl, ?_, Rg.off_mkZone Rg.wTypes 0 _ 2, Rg.dst_mkZone Rg.wTypes 0 _ 2 (by decide),
    Rg.off_mkZone Rg.wTypes 0 _ 1, Rg.dst_mkZone Rg.wTypes 0 _ 1 (by decide), Rg.wSd_g, Rg.wEd_g⟩
  rw [yearPairs_eq wRule Rg.wSd_g Rg.wEd_g]
  exact Rg.w_keys

theorem regular_needed : regular_needed_statement := by
  refine ⟨Rg.wZone, wRule, Rg.fill Rg.wTypes 0 Rg.wRec, 2007, 2, 1, 0, 13821901200,
    Rg.w_wf, Rg.w_cols, w_extendedKeys, ?_, ?_, by decide, by decide, by decide, by decide, ?_,
    by decide, ?_⟩
  · show dayNum 2007 1 1 * 86400 ≤ 1199131200 + (typ Rg.wZone 1).utcOffset
    rw [Rg.w_off1]; decide
  · show 1199131200 + (typ Rg.wZone 1).utcOffset < dayNum (2007 + 1) 1 1 * 86400
    rw [Rg.w_off1]; decide
  · have h2 := Rg.regular2_of_civilYear (sd := Rg.wSd) (st := -172800) (ed := Rg.wEd) (et := -108000)
      (stdOff := 0) (dstOff := 3600) (y0 := 2007) (L := 1199131200) 0 Rg.wSd_g Rg.wEd_g
      (by decide) (by decide) (by decide)
    intro y a kind h1 h1' hk
    rcases hk with hk | hk
    · exact h2 y a h1 h1' (Or.inl hk.2)
    · exact h2 y a h1 h1' (Or.inr hk.2)
  · rintro ⟨k, hk, ha⟩
    have hk' := (ruleKindAt_iff wRule Rg.wSd_g Rg.wEd_g 2007 _ _ k).1 hk
    have := Rg.w_verdict k hk'
    subst this
    have h1 : (breakTime Rg.wZone 0 13821901200).val.1.offset = 0 := ha.1
    rw [Rg.w_answer] at h1
    exact absurd h1 (by decide)

/-! ### the first wording -/

theorem extendedBy_keys : extendedBy_keys_statement := by
  intro z r rec y0 dstTi stdTi ⟨h1, h2, h3, h4⟩
  exact ⟨h1, h2, ⟨_, h3, rfl⟩, h4⟩

theorem extendedBy_degenerate : extendedBy_degenerate_statement := by
  intro z r rec y0 dstTi stdTi wf cc hx x y hxm hym hty
  obtain ⟨_, _, hl, _, _, _, _, gs, ge⟩ := hx
  rw [yearPairs_eq r gs ge] at hl
  rw [hl, List.drop_left] at hxm hym
  -- a generated entry has the default civil column, whose second number is 0
  have key : ∀ w, w ∈ Rg.genList (Rg.inst r.sd r.st r.stdOff) (Rg.inst r.ed r.et r.dstOff) dstTi stdTi
      (Rg.lastTime rec) y0 → w.unixTime + (typ z w.typeIndex).utcOffset = 0 ∧
        w = { unixTime := w.unixTime, typeIndex := w.typeIndex } := by
    intro w hw
    obtain ⟨i, hi, e⟩ := Rg.mem_trn z w (by rw [hl]; exact List.mem_append_right _ hw)
    have hc := (cc.civ i hi).2
    unfold timeOf offOf at hc
    rw [e] at hc
    obtain ⟨yy, _, _, hh | hh⟩ := (Rg.mem_genList _ _ _ _ _ _ _).1 hw
    · rw [hh.1] at hc ⊢
      exact ⟨by have : secNum (⟨1970, 1, 1, 0, 0, 0⟩ : Fields) = 0 := by decide
                rw [this] at hc; omega, rfl⟩
    · rw [hh.1] at hc ⊢
      exact ⟨by have : secNum (⟨1970, 1, 1, 0, 0, 0⟩ : Fields) = 0 := by decide
                rw [this] at hc; omega, rfl⟩
  obtain ⟨hx0, hxe⟩ := key x hxm
  obtain ⟨hy0, hye⟩ := key y hym
  rw [hxe, hye]
  rw [hty] at hx0
  have : x.unixTime = y.unixTime := by omega
  rw [this, hty]

/-- the rule of the counterexample: `N0/0,N100/0`, standard offset 0, daylight offset 3600 -/
def ceRule : Rule := ⟨Rg.ce1Start, 0, Rg.ce1End, 0, 0, 3600⟩

/-- the hypotheses of the first wording hold for the one-entry table `Rg.ce1` with the years
1000 … 1401 tabulated (nothing is generated) -/
theorem ce_extendedBy : ExtendedBy Rg.ce1 ceRule (Rg.fill Rg.ce1Types 0 [(0, 1)]) 1000 2 1 := by
  refine ⟨by decide, rfl, ?_, rfl, rfl, rfl, rfl, ?_, ?_⟩
  · show Rg.ce1.transitions.toList = _ ++ (List.range 402).flatMap fun (k : Nat) =>
      C01Rule.yearPair { dstStart := ⟨some Rg.ce1Start, some 0⟩, dstEnd := ⟨some Rg.ce1End, some 0⟩ } 2 1
        0 0 3600 (1000 + (k : Int))
    rw [Rg.ce1_gen_empty, List.append_nil, Rg.ce1_list]
  · show DateInGrammar Rg.ce1Start
    unfold DateInGrammar Rg.ce1Start; decide
  · show DateInGrammar Rg.ce1End
    unfold DateInGrammar Rg.ce1End; decide

/-- the first wording is false: nothing ties `y0` to the last recorded transition, so all 402
tabulated years can lie before it; then nothing is generated and `BreakTime` maps every later
instant back before the first entry, i.e. to the default type -/
theorem first_wording_false : ¬ lookup_follows_rule_first_wording := by
  intro hst
  obtain ⟨k, hk, ha⟩ := hst Rg.ce1 ceRule (Rg.fill Rg.ce1Types 0 [(0, 1)]) 1000 2 1 0 1000000000
    Rg.ce1_wf Rg.ce1_cols ce_extendedBy (by decide)
  have hoff := Rg.ce1_answer
  match k with
  | none =>
    exact hk 2000 946684800 true (by decide) (Or.inl ⟨rfl, Rg.ce1_instant⟩) ⟨by decide, by decide⟩
  | some true =>
    have h1 : (breakTime Rg.ce1 0 1000000000).val.1.offset = 3600 := ha.1
    rw [hoff] at h1
    exact absurd h1 (by decide)
  | some false =>
    have h1 : (breakTime Rg.ce1 0 1000000000).val.1.offset = 0 := ha.1
    rw [hoff] at h1
    exact absurd h1 (by decide)

end Cctz.C01Glue
