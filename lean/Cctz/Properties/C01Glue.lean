/-
  C01 (continued) — gluing: for an extended table, lookup(t) at ANY instant after the recorded
  transitions reports the footer rule evaluated on the proleptic Gregorian calendar at t itself
  (arbitrarily far into the future), although the code only tabulates 402 years and shifts by
  multiples of 400 years.
-/
import Cctz.Model.Tz
import Cctz.Spec.PosixRule
import Cctz.Spec.TableSem
import Cctz.Properties.C01
import Cctz.Properties.C01Rule
import Cctz.Proofs.RuleGlue

namespace Cctz.C01Glue
open Cctz Cctz.Tz Cctz.Spec

/-- a rule: both dates and times, the two offsets -/
structure Rule where
  sd : Posix.Date
  st : Int
  ed : Posix.Date
  et : Int
  stdOff : Int
  dstOff : Int

/-- `a` is a rule instant of year `y`: a start of DST (`kind = true`) or an end (`kind = false`) -/
def IsRuleInstant (r : Rule) (y : Int) (a : Int) (kind : Bool) : Prop :=
  (kind = true ∧ ruleInstant r.sd r.st r.stdOff y = some a) ∨
  (kind = false ∧ ruleInstant r.ed r.et r.dstOff y = some a)

/-- the rule says DST is in force at `t` iff the latest rule instant at or before `t`, over the
years from `y0` on, is a start; `none` when there is no rule instant in `(lastRec, t]` at all -/
def RuleKindAt (r : Rule) (y0 : Int) (lastRec t : Int) (k : Option Bool) : Prop :=
  match k with
  | none => ∀ y a kind, y0 ≤ y → IsRuleInstant r y a kind → ¬ (lastRec < a ∧ a ≤ t)
  | some kind => ∃ y a, y0 ≤ y ∧ IsRuleInstant r y a kind ∧ lastRec < a ∧ a ≤ t ∧
      ∀ y' b kind', y0 ≤ y' → IsRuleInstant r y' b kind' → b ≤ t → b ≤ a ∧ (b = a → kind' = kind)

/-- the shape `ExtendTransitions` gives the table (theorem `C01Rule.extendLoop_trans`): the
recorded entries followed by the year pairs of the years y0 … y0+401 -/
def ExtendedBy (z : Zone) (r : Rule) (rec : List Transition) (y0 : Int) (dstTi stdTi : Nat) : Prop :=
  rec ≠ [] ∧ z.extended = true ∧
  z.transitions.toList = rec ++ (List.range 402).flatMap (fun (k : Nat) =>
    C01Rule.yearPair { dstStart := ⟨some r.sd, some r.st⟩, dstEnd := ⟨some r.ed, some r.et⟩ } dstTi stdTi
      ((rec.getLast?.map (·.unixTime)).getD 0) r.stdOff r.dstOff (y0 + (k : Int))) ∧
  (typ z dstTi).utcOffset = r.dstOff ∧ (typ z dstTi).isDst = true ∧
  (typ z stdTi).utcOffset = r.stdOff ∧ (typ z stdTi).isDst = false ∧
  DateInGrammar r.sd ∧ DateInGrammar r.ed

/-- lookup(t) beyond the recorded transitions follows the rule at t itself, for every int64 t and
every hint: the type of the last recorded transition until the first rule instant after it, then
DST exactly when the latest rule instant at or before t is a start -/
def lookup_follows_rule_statement : Prop :=
  ∀ (z : Zone) (r : Rule) (rec : List Transition) (y0 : Int) (dstTi stdTi : Nat) (h : Nat) (t : Int),
    TableWF z → CivilCols z → ExtendedBy z r rec y0 dstTi stdTi →
    (rec.getLast?.map (·.unixTime)).getD 0 ≤ t →
    ∃ k, RuleKindAt r y0 ((rec.getLast?.map (·.unixTime)).getD 0) t k ∧
      let a := (breakTime z h t).val.1
      match k with
      | none => a.offset = (typ z ((rec.getLast?.map (·.typeIndex)).getD 0)).utcOffset ∧
                a.isDst = (typ z ((rec.getLast?.map (·.typeIndex)).getD 0)).isDst
      | some true => a.offset = r.dstOff ∧ a.isDst = true
      | some false => a.offset = r.stdOff ∧ a.isDst = false

/-! ## what can be proved

The statement above is FALSE (`lookup_follows_rule_counterexample`: nothing ties `y0` to the last
recorded transition, so the 402 tabulated years can all lie before it) and, where it is not false,
nearly VACUOUS (`extendedBy_degenerate`: `ExtendedBy` makes the generated entries literal
`yearPair` values, whose civil columns are the 1970-01-01 defaults, so `CivilCols` forces every
generated entry of a type to the one instant `-offset`: at most two generated entries).  Proved
instead: the same conclusion for tables whose generated part agrees with the year pairs in the two
columns `ExtendTransitions` writes (`ExtendedKeys`), under the assumption `Rg.Regular`. -/

/-- the two columns `ExtendTransitions` writes -/
def cols (x : Transition) : Int × Nat := (x.unixTime, x.typeIndex)

/-- `ExtendedBy` with the generated part compared in the time and type columns only (`Load` fills
the civil columns of all entries after `ExtendTransitions`) -/
def ExtendedKeys (z : Zone) (r : Rule) (rec : List Transition) (y0 : Int) (dstTi stdTi : Nat) : Prop :=
  rec ≠ [] ∧ z.extended = true ∧
  (∃ gen : List Transition, z.transitions.toList = rec ++ gen ∧
    gen.map cols = ((List.range 402).flatMap (fun (k : Nat) =>
      C01Rule.yearPair { dstStart := ⟨some r.sd, some r.st⟩, dstEnd := ⟨some r.ed, some r.et⟩ } dstTi stdTi
        ((rec.getLast?.map (·.unixTime)).getD 0) r.stdOff r.dstOff (y0 + (k : Int)))).map cols) ∧
  (typ z dstTi).utcOffset = r.dstOff ∧ (typ z dstTi).isDst = true ∧
  (typ z stdTi).utcOffset = r.stdOff ∧ (typ z stdTi).isDst = false ∧
  DateInGrammar r.sd ∧ DateInGrammar r.ed

/-- lookup(t) beyond the recorded transitions follows the rule at t itself, under the regularity
assumption `Rg.Regular` (Cctz/Proofs/RuleGlue.lean): at least one rule instant of year y0+1 and
every rule instant of the years y0+2 … y0+401 is later than the last recorded transition -/
def lookup_follows_rule_partial_statement : Prop :=
  ∀ (z : Zone) (r : Rule) (rec : List Transition) (y0 : Int) (dstTi stdTi : Nat) (h : Nat) (t : Int),
    TableWF z → CivilCols z → ExtendedKeys z r rec y0 dstTi stdTi →
    Rg.Regular r.sd r.st r.ed r.et r.stdOff r.dstOff y0 ((rec.getLast?.map (·.unixTime)).getD 0) →
    (rec.getLast?.map (·.unixTime)).getD 0 ≤ t →
    ∃ k, RuleKindAt r y0 ((rec.getLast?.map (·.unixTime)).getD 0) t k ∧
      let a := (breakTime z h t).val.1
      match k with
      | none => a.offset = (typ z ((rec.getLast?.map (·.typeIndex)).getD 0)).utcOffset ∧
                a.isDst = (typ z ((rec.getLast?.map (·.typeIndex)).getD 0)).isDst
      | some true => a.offset = r.dstOff ∧ a.isDst = true
      | some false => a.offset = r.stdOff ∧ a.isDst = false

/-- the literal shape implies the column-wise one -/
def extendedBy_keys_statement : Prop :=
  ∀ (z : Zone) (r : Rule) (rec : List Transition) (y0 : Int) (dstTi stdTi : Nat),
    ExtendedBy z r rec y0 dstTi stdTi → ExtendedKeys z r rec y0 dstTi stdTi

/-- with the literal shape and `CivilCols`, two generated entries of the same type coincide -/
def extendedBy_degenerate_statement : Prop :=
  ∀ (z : Zone) (r : Rule) (rec : List Transition) (y0 : Int) (dstTi stdTi : Nat),
    TableWF z → CivilCols z → ExtendedBy z r rec y0 dstTi stdTi →
    ∀ x y, x ∈ z.transitions.toList.drop rec.length → y ∈ z.transitions.toList.drop rec.length →
      x.typeIndex = y.typeIndex → x = y

/-! ## proofs (helper lemmas: Cctz/Proofs/RuleGlue.lean, RgOrder.lean, RgTable.lean) -/

theorem isRuleInstant_iff (r : Rule) (gs : DateInGrammar r.sd) (ge : DateInGrammar r.ed)
    (y a : Int) (kind : Bool) :
    IsRuleInstant r y a kind ↔
      Rg.IsK (Rg.inst r.sd r.st r.stdOff) (Rg.inst r.ed r.et r.dstOff) y a kind := by
  unfold IsRuleInstant Rg.IsK
  rw [Rg.ruleInstant_some _ _ _ _ gs, Rg.ruleInstant_some _ _ _ _ ge]
  simp only [Option.some.injEq]
  rw [eq_comm (b := a), eq_comm (b := a)]

theorem ruleKindAt_iff (r : Rule) (gs : DateInGrammar r.sd) (ge : DateInGrammar r.ed)
    (y0 L t : Int) (k : Option Bool) :
    RuleKindAt r y0 L t k ↔
      Rg.KindAt (Rg.inst r.sd r.st r.stdOff) (Rg.inst r.ed r.et r.dstOff) y0 L t k := by
  unfold RuleKindAt Rg.KindAt
  cases k <;> simp only [isRuleInstant_iff r gs ge]

/-- the year pairs over the total instant functions -/
theorem yearPairs_eq (r : Rule) (gs : DateInGrammar r.sd) (ge : DateInGrammar r.ed)
    (rec : List Transition) (y0 : Int) (dstTi stdTi : Nat) :
    ((List.range 402).flatMap (fun (k : Nat) =>
      C01Rule.yearPair { dstStart := ⟨some r.sd, some r.st⟩, dstEnd := ⟨some r.ed, some r.et⟩ } dstTi stdTi
        ((rec.getLast?.map (·.unixTime)).getD 0) r.stdOff r.dstOff (y0 + (k : Int)))) =
    Rg.genList (Rg.inst r.sd r.st r.stdOff) (Rg.inst r.ed r.et r.dstOff) dstTi stdTi (Rg.lastTime rec) y0 := by
  unfold Rg.genList
  congr 1
  funext k
  rw [C01Rule.yearPair_eq _ dstTi stdTi _ r.stdOff r.dstOff r.sd r.ed r.st r.et rfl rfl]
  unfold Ru.yearPairL
  rw [Rg.ruleInstant_some _ _ _ _ gs, Rg.ruleInstant_some _ _ _ _ ge]
  rfl

theorem extendedBy_keys : extendedBy_keys_statement := by
  intro z r rec y0 dstTi stdTi ⟨h1, h2, h3, h4⟩
  exact ⟨h1, h2, ⟨_, h3, rfl⟩, h4⟩

theorem lookup_follows_rule_partial : lookup_follows_rule_partial_statement := by
  intro z r rec y0 dstTi stdTi h t wf cc hx hreg ht
  obtain ⟨hrec, hext, ⟨gen, hl, hkeys⟩, hdo, hdd, hso, hsd, gs, ge⟩ := hx
  rw [yearPairs_eq r gs ge] at hkeys
  obtain ⟨k, hk, ho, hd⟩ := Rg.glue_core z rec _ _ (Rg.inst_per r.sd r.st r.stdOff gs)
    (Rg.inst_per r.ed r.et r.dstOff ge) y0 dstTi stdTi h t wf cc hrec hext gen hl hkeys
    (Rg.reg_of_regular gs ge hreg) ht
  refine ⟨k, (ruleKindAt_iff r gs ge _ _ _ _).2 hk, ?_⟩
  match k with
  | none => exact ⟨ho, hd⟩
  | some true => exact ⟨by rw [ho]; exact hdo, by rw [hd]; exact hdd⟩
  | some false => exact ⟨by rw [ho]; exact hso, by rw [hd]; exact hsd⟩

theorem extendedBy_degenerate : extendedBy_degenerate_statement := by
  intro z r rec y0 dstTi stdTi wf cc hx x y hxm hym hty
  obtain ⟨_, _, hl, _, _, _, _, gs, ge⟩ := hx
  rw [yearPairs_eq r gs ge] at hl
  rw [hl, List.drop_left] at hxm hym
  -- a generated entry has the default civil column, whose second number is 0
  have key : ∀ w, w ∈ Rg.genList (Rg.inst r.sd r.st r.stdOff) (Rg.inst r.ed r.et r.dstOff) dstTi stdTi
      (Rg.lastTime rec) y0 → w.unixTime + (typ z w.typeIndex).utcOffset = 0 ∧
        w = { unixTime := w.unixTime, typeIndex := w.typeIndex } := by
    intro w hw
    obtain ⟨i, hi, e⟩ := Rg.mem_trn z w (by rw [hl]; exact List.mem_append_right _ hw)
    have hc := (cc.civ i hi).2
    unfold timeOf offOf at hc
    rw [e] at hc
    obtain ⟨yy, _, _, hh | hh⟩ := (Rg.mem_genList _ _ _ _ _ _ _).1 hw
    · rw [hh.1] at hc ⊢
      exact ⟨by have : secNum (⟨1970, 1, 1, 0, 0, 0⟩ : Fields) = 0 := by decide
                rw [this] at hc; omega, rfl⟩
    · rw [hh.1] at hc ⊢
      exact ⟨by have : secNum (⟨1970, 1, 1, 0, 0, 0⟩ : Fields) = 0 := by decide
                rw [this] at hc; omega, rfl⟩
  obtain ⟨hx0, hxe⟩ := key x hxm
  obtain ⟨hy0, hye⟩ := key y hym
  rw [hxe, hye]
  rw [hty] at hx0
  have : x.unixTime = y.unixTime := by omega
  rw [this, hty]

/-! ## the full statement is false -/

/-- the rule of the counterexample: `N0/0,N100/0`, standard offset 0, daylight offset 3600 -/
def ceRule : Rule := ⟨Rg.ce1Start, 0, Rg.ce1End, 0, 0, 3600⟩

/-- the hypotheses of the full statement hold for the one-entry table `Rg.ce1` with the years
1000 … 1401 tabulated (nothing is generated) -/
theorem ce_extendedBy : ExtendedBy Rg.ce1 ceRule (Rg.fill Rg.ce1Types 0 [(0, 1)]) 1000 2 1 := by
  refine ⟨by decide, rfl, ?_, rfl, rfl, rfl, rfl, ?_, ?_⟩
  · show Rg.ce1.transitions.toList = _ ++ (List.range 402).flatMap fun (k : Nat) =>
      C01Rule.yearPair { dstStart := ⟨some Rg.ce1Start, some 0⟩, dstEnd := ⟨some Rg.ce1End, some 0⟩ } 2 1
        0 0 3600 (1000 + (k : Int))
    rw [Rg.ce1_gen_empty, List.append_nil, Rg.ce1_list]
  · show DateInGrammar Rg.ce1Start
    unfold DateInGrammar Rg.ce1Start; decide
  · show DateInGrammar Rg.ce1End
    unfold DateInGrammar Rg.ce1End; decide

theorem lookup_follows_rule_counterexample : ¬ lookup_follows_rule_statement := by
  intro hst
  obtain ⟨k, hk, ha⟩ := hst Rg.ce1 ceRule (Rg.fill Rg.ce1Types 0 [(0, 1)]) 1000 2 1 0 1000000000
    Rg.ce1_wf Rg.ce1_cols ce_extendedBy (by decide)
  have hoff := Rg.ce1_answer
  match k with
  | none =>
    exact hk 2000 946684800 true (by decide) (Or.inl ⟨rfl, Rg.ce1_instant⟩) ⟨by decide, by decide⟩
  | some true =>
    have h1 : (breakTime Rg.ce1 0 1000000000).val.1.offset = 3600 := ha.1
    rw [hoff] at h1
    exact absurd h1 (by decide)
  | some false =>
    have h1 : (breakTime Rg.ce1 0 1000000000).val.1.offset = 0 := ha.1
    rw [hoff] at h1
    exact absurd h1 (by decide)

end Cctz.C01Glue
