/-
  C01 (continued) — gluing: for an extended table, lookup(t) at ANY instant after the recorded
  transitions reports the footer rule evaluated on the proleptic Gregorian calendar at t itself
  (arbitrarily far into the future), although the code only tabulates 402 years and shifts by
  multiples of 400 years.
-/
import Cctz.Model.Tz
import Cctz.Spec.PosixRule
import Cctz.Spec.TableSem
import Cctz.Properties.C01
import Cctz.Properties.C01Rule
import Cctz.Proofs.RuleGlue

namespace Cctz.C01Glue
open Cctz Cctz.Tz Cctz.Spec

/-- a rule: both dates and times, the two offsets -/
structure Rule where
  sd : Posix.Date
  st : Int
  ed : Posix.Date
  et : Int
  stdOff : Int
  dstOff : Int

/-- `a` is a rule instant of year `y`: a start of DST (`kind = true`) or an end (`kind = false`) -/
def IsRuleInstant (r : Rule) (y : Int) (a : Int) (kind : Bool) : Prop :=
  (kind = true ∧ ruleInstant r.sd r.st r.stdOff y = some a) ∨
  (kind = false ∧ ruleInstant r.ed r.et r.dstOff y = some a)

/-- the rule says DST is in force at `t` iff the latest rule instant at or before `t`, over the
years from `y0` on, is a start; `none` when there is no rule instant in `(lastRec, t]` at all -/
def RuleKindAt (r : Rule) (y0 : Int) (lastRec t : Int) (k : Option Bool) : Prop :=
  match k with
  | none => ∀ y a kind, y0 ≤ y → IsRuleInstant r y a kind → ¬ (lastRec < a ∧ a ≤ t)
  | some kind => ∃ y a, y0 ≤ y ∧ IsRuleInstant r y a kind ∧ lastRec < a ∧ a ≤ t ∧
      ∀ y' b kind', y0 ≤ y' → IsRuleInstant r y' b kind' → b ≤ t → b ≤ a ∧ (b = a → kind' = kind)

/-- the shape `ExtendTransitions` gives the table (theorem `C01Rule.extendLoop_trans`): the
recorded entries followed by the year pairs of the years y0 … y0+401 -/
def ExtendedBy (z : Zone) (r : Rule) (rec : List Transition) (y0 : Int) (dstTi stdTi : Nat) : Prop :=
  rec ≠ [] ∧ z.extended = true ∧
  z.transitions.toList = rec ++ (List.range 402).flatMap (fun (k : Nat) =>
    C01Rule.yearPair { dstStart := ⟨some r.sd, some r.st⟩, dstEnd := ⟨some r.ed, some r.et⟩ } dstTi stdTi
      ((rec.getLast?.map (·.unixTime)).getD 0) r.stdOff r.dstOff (y0 + (k : Int))) ∧
  (typ z dstTi).utcOffset = r.dstOff ∧ (typ z dstTi).isDst = true ∧
  (typ z stdTi).utcOffset = r.stdOff ∧ (typ z stdTi).isDst = false ∧
  DateInGrammar r.sd ∧ DateInGrammar r.ed

/-- lookup(t) beyond the recorded transitions follows the rule at t itself, for every int64 t and
every hint: the type of the last recorded transition until the first rule instant after it, then
DST exactly when the latest rule instant at or before t is a start -/
def lookup_follows_rule_statement : Prop :=
  ∀ (z : Zone) (r : Rule) (rec : List Transition) (y0 : Int) (dstTi stdTi : Nat) (h : Nat) (t : Int),
    TableWF z → CivilCols z → ExtendedBy z r rec y0 dstTi stdTi →
    (rec.getLast?.map (·.unixTime)).getD 0 ≤ t →
    ∃ k, RuleKindAt r y0 ((rec.getLast?.map (·.unixTime)).getD 0) t k ∧
      let a := (breakTime z h t).val.1
      match k with
      | none => a.offset = (typ z ((rec.getLast?.map (·.typeIndex)).getD 0)).utcOffset ∧
                a.isDst = (typ z ((rec.getLast?.map (·.typeIndex)).getD 0)).isDst
      | some true => a.offset = r.dstOff ∧ a.isDst = true
      | some false => a.offset = r.stdOff ∧ a.isDst = false

end Cctz.C01Glue
