import Cctz.Model.Parse
namespace Cctz.C09
end Cctz.C09
