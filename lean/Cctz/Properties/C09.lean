/-
  C09 — parse() accepts only well-formed in-range input (model level; strptime is a parameter).
-/
import Cctz.Model.Parse
import Cctz.Spec.FormatSpec
import Cctz.Spec.PosixGrammar
import Cctz.Proofs.ParseLemmas

namespace Cctz.C09
open Cctz Cctz.Bytes Cctz.Format Cctz.Parse Cctz.Spec

/-- the integer reader: on success the value is the decimal value of the digits it consumed (with
sign), lies in [min, max], at least one digit was consumed, and at most `width` characters when a
width is given -/
/- NOTE: this first wording (with `kmin < v`) is FALSE — the reader accepts `kmin` itself after a '-'
   (that is how "-9223372036854775808" parses); kept only as the subject of `parseInt_counterexample`.
   The property theorem is `parseInt : parseInt_statement` below. -/
def parseInt_strict_statement : Prop :=
  ∀ (kmin : Int) (dp rest : Bytes) (width min max v : Int), kmin < 0 →
    parseInt kmin dp width min max = some (rest, v) →
    min ≤ v ∧ v ≤ max ∧ kmin < v ∧ v ≤ -(kmin + 1) ∧
    ∃ used : Bytes, dp = used ++ rest ∧ used ≠ [] ∧ (width > 0 → (used.length : Int) ≤ width) ∧
      ((∃ ds, used = ds ∧ ds ≠ [] ∧ (∀ c ∈ ds, isDigit c = true) ∧ v = numVal ds) ∨
       (∃ ds, used = 45 :: ds ∧ ds ≠ [] ∧ (∀ c ∈ ds, isDigit c = true) ∧ v = -numVal ds ∧ v ≠ 0))

/-- every numeric field a successful parse accepted lies in its documented range (the bounds are
those extracted from the C++ on every run) -/
def field_ranges_statement : Prop :=
  ∀ (sp : Strptime) (fmt input : Bytes) (z : Tz.Zone) (sec fsv : Int),
    (parse sp fmt input z).val.1 = .ok sec fsv →
    ∀ c v, (c, v) ∈ (parse sp fmt input z).val.2.fields →
      (c = 109 → 1 ≤ v ∧ v ≤ 12) ∧ ((c = 100 ∨ c = 101) → 1 ≤ v ∧ v ≤ 31) ∧ (c = 72 → 0 ≤ v ∧ v ≤ 23) ∧
      (c = 77 → 0 ≤ v ∧ v ≤ 59) ∧ (c = 83 → 0 ≤ v ∧ v ≤ 60) ∧ ((c = 85 ∨ c = 87) → 0 ≤ v ∧ v ≤ 53) ∧
      (c = 117 → 1 ≤ v ∧ v ≤ 7) ∧ (c = 119 → 0 ≤ v ∧ v ≤ 6) ∧ (c = 52 → -999 ≤ v ∧ v ≤ 9999) ∧ (c = 89 → inI64 v)

/-- the sub-second reader: digits beyond femtoseconds are dropped, not rounded -/
def subseconds_statement : Prop :=
  ∀ (dp rest : Bytes) (v : Int), parseSubSeconds dp = some (rest, v) →
    0 ≤ v ∧ v < 1000000000000000 ∧
    ∃ ds, dp = ds ++ rest ∧ ds ≠ [] ∧ (∀ c ∈ ds, isDigit c = true) ∧ (rest.headD 0 |> isDigit) = false ∧
      v = numVal (ds.take 15) * 10 ^ (15 - (ds.take 15).length)

/-- the offset reader accepts only ±hh[[:]mm[[:]ss]] with hh ≤ 23, mm, ss ≤ 59 (or Z/z) -/
def offset_statement : Prop :=
  ∀ (dp rest : Bytes) (sep : UInt8) (off : Int), parseOffset dp sep = some (rest, off) →
    -86400 < off ∧ off < 86400

/-- with %s everything else is ignored and the value is returned as is, with zero sub-seconds -/
def percent_s_statement : Prop :=
  ∀ (z : Tz.Zone) (t : Int), inI64 t →
    (parse (fun _ _ _ => none) (ofString "%s") (decInt t) z).val.1 = .ok t 0

/-- no (format, input) pair makes the specifier loop run out of fuel: it always ends with the input
rejected or the whole format consumed -/
def parse_safe_statement : Prop :=
  ∀ (sp : Strptime) (fmt input : Bytes), 
    let st := specLoop sp (fmt.length + input.length + 2) { data := some (skipSpace (cstr input)), fmt := cstr fmt }
    st.data = none ∨ st.fmt = []

/-- the extracted bounds are the documented ones -/
def constants_statement : Prop :=
  Gen.parse_m = (2, 1, 12) ∧ Gen.parse_d = (2, 1, 31) ∧ Gen.parse_e = (2, 1, 31) ∧ Gen.parse_H = (2, 0, 23) ∧
  Gen.parse_M = (2, 0, 59) ∧ Gen.parse_S = (2, 0, 60) ∧ Gen.parse_U = (0, 0, 53) ∧ Gen.parse_W = (0, 0, 53) ∧
  Gen.parse_u = (0, 1, 7) ∧ Gen.parse_w = (0, 0, 6) ∧ Gen.parse_E4Y = (4, -999, 9999) ∧
  Gen.parseOff_hours = (2, 0, 23) ∧ Gen.parseOff_minutes = (2, 0, 59) ∧ Gen.parseOff_seconds = (2, 0, 59)

/-! ## Proofs -/

theorem constants : constants_statement := by
  unfold constants_statement
  decide

/-- `parseInt_strict_statement` is FALSE as written: after a '-' the reader accepts `kmin` itself
(that is how "-9223372036854775808" parses), so `kmin < v` cannot hold.  Witness: kmin = -10 and
the text "-10". -/
theorem parseInt_counterexample : ¬ parseInt_strict_statement := by
  intro h
  have h1 : parseInt (-10) [45, 49, 48] 0 (-100) 100 = some ([], -10) := by decide +kernel
  have := h (-10) [45, 49, 48] [] 0 (-100) 100 (-10) (by decide) h1
  omega

/-- the same failure at the type the C++ instantiates: INT64_MIN is accepted by `ParseInt<int64>` -/
theorem parseInt_counterexample_i64 :
    parseInt64 (ofString "-9223372036854775808") 0 i64min i64max = some ([], i64min) := by
  decide +kernel

/-- corrected statement: `kmin ≤ v`, and `v = kmin` only behind a '-' sign; everything else as in
`parseInt_strict_statement` -/
def parseInt_statement : Prop :=
  ∀ (kmin : Int) (dp rest : Bytes) (width min max v : Int), kmin < 0 →
    parseInt kmin dp width min max = some (rest, v) →
    min ≤ v ∧ v ≤ max ∧ kmin ≤ v ∧ (v = kmin → dp.headD 0 = 45) ∧ v ≤ -(kmin + 1) ∧
    ∃ used : Bytes, dp = used ++ rest ∧ used ≠ [] ∧ (width > 0 → (used.length : Int) ≤ width) ∧
      ((∃ ds, used = ds ∧ ds ≠ [] ∧ (∀ c ∈ ds, isDigit c = true) ∧ v = numVal ds) ∨
       (∃ ds, used = 45 :: ds ∧ ds ≠ [] ∧ (∀ c ∈ ds, isDigit c = true) ∧ v = -numVal ds ∧ v ≠ 0))

theorem parseInt_spec : parseInt_statement := by
  intro kmin dp rest width min max v hk h
  exact Pa.parseInt_sound kmin dp rest width min max v hk h

/-- the hypotheses are satisfiable on non-trivial values -/
example : parseInt32 (ofString "-07x") 3 (-99) 99 = some (ofString "x", -7) := by decide +kernel
example : parseInt32 (ofString "2024-") 4 (-999) 9999 = some (ofString "-", 2024) := by decide +kernel

theorem field_ranges : field_ranges_statement := by
  intro sp fmt input z sec fsv _ c v hm
  exact Pa.parse_fields_range sp fmt input z (c, v) hm

/-- the hypothesis is satisfiable: a successful parse with six accepted fields (leap second) -/
example :
    (parse (fun _ _ _ => none) (ofString "%Y-%m-%d %H:%M:%S") (ofString "2024-02-29 23:59:60")
      (Tz.resetToBuiltinUTC 0).val).val.1 = .ok 1709251200 0 ∧
    (parse (fun _ _ _ => none) (ofString "%Y-%m-%d %H:%M:%S") (ofString "2024-02-29 23:59:60")
      (Tz.resetToBuiltinUTC 0).val).val.2.fields =
        [(89, 2024), (109, 2), (100, 29), (72, 23), (77, 59), (83, 60)] := by
  decide +kernel

theorem subseconds : subseconds_statement := by
  intro dp rest v h
  exact Pa.parseSubSeconds_sound dp rest v h

example : parseSubSeconds (ofString "1234567890123456789Z") = some (ofString "Z", 123456789012345) := by
  decide +kernel

theorem offset : offset_statement := by
  intro dp rest sep off h
  exact Pa.parseOffset_range dp rest sep off h

example : parseOffset (ofString "-23:59:59") 58 = some ([], -86399) := by decide +kernel

theorem percent_s : percent_s_statement := by
  intro z t ht
  exact Pa.parse_percent_s _ z t ht

example : inI64 i64min ∧ inI64 (-1) ∧ inI64 i64max := by decide

theorem parse_safe : parse_safe_statement := by
  intro sp fmt input
  apply Pa.specLoop_safe
  have : (cstr fmt).length ≤ fmt.length := Pa.length_takeWhile_le fmt
  show (cstr fmt).length + 1 ≤ _
  omega

end Cctz.C09
