/-
  C09 — parse() accepts only well-formed in-range input (model level; strptime is a parameter).
-/
import Cctz.Model.Parse
import Cctz.Spec.FormatSpec
import Cctz.Spec.PosixGrammar
import Cctz.Proofs.ParseLemmas

namespace Cctz.C09
open Cctz Cctz.Bytes Cctz.Format Cctz.Parse Cctz.Spec

/-- the integer reader: on success the value is the decimal value of the digits it consumed (with
sign), lies in [min, max], at least one digit was consumed, and at most `width` characters when a
width is given -/
def parseInt_statement : Prop :=
  ∀ (kmin : Int) (dp rest : Bytes) (width min max v : Int), kmin < 0 →
    parseInt kmin dp width min max = some (rest, v) →
    min ≤ v ∧ v ≤ max ∧ kmin < v ∧ v ≤ -(kmin + 1) ∧
    ∃ used : Bytes, dp = used ++ rest ∧ used ≠ [] ∧ (width > 0 → (used.length : Int) ≤ width) ∧
      ((∃ ds, used = ds ∧ ds ≠ [] ∧ (∀ c ∈ ds, isDigit c = true) ∧ v = numVal ds) ∨
       (∃ ds, used = 45 :: ds ∧ ds ≠ [] ∧ (∀ c ∈ ds, isDigit c = true) ∧ v = -numVal ds ∧ v ≠ 0))

/-- every numeric field a successful parse accepted lies in its documented range (the bounds are
those extracted from the C++ on every run) -/
def field_ranges_statement : Prop :=
  ∀ (sp : Strptime) (fmt input : Bytes) (z : Tz.Zone) (sec fsv : Int),
    (parse sp fmt input z).val.1 = .ok sec fsv →
    ∀ c v, (c, v) ∈ (parse sp fmt input z).val.2.fields →
      (c = 109 → 1 ≤ v ∧ v ≤ 12) ∧ ((c = 100 ∨ c = 101) → 1 ≤ v ∧ v ≤ 31) ∧ (c = 72 → 0 ≤ v ∧ v ≤ 23) ∧
      (c = 77 → 0 ≤ v ∧ v ≤ 59) ∧ (c = 83 → 0 ≤ v ∧ v ≤ 60) ∧ ((c = 85 ∨ c = 87) → 0 ≤ v ∧ v ≤ 53) ∧
      (c = 117 → 1 ≤ v ∧ v ≤ 7) ∧ (c = 119 → 0 ≤ v ∧ v ≤ 6) ∧ (c = 52 → -999 ≤ v ∧ v ≤ 9999) ∧ (c = 89 → inI64 v)

/-- the sub-second reader: digits beyond femtoseconds are dropped, not rounded -/
def subseconds_statement : Prop :=
  ∀ (dp rest : Bytes) (v : Int), parseSubSeconds dp = some (rest, v) →
    0 ≤ v ∧ v < 1000000000000000 ∧
    ∃ ds, dp = ds ++ rest ∧ ds ≠ [] ∧ (∀ c ∈ ds, isDigit c = true) ∧ (rest.headD 0 |> isDigit) = false ∧
      v = numVal (ds.take 15) * 10 ^ (15 - (ds.take 15).length)

/-- the offset reader accepts only ±hh[[:]mm[[:]ss]] with hh ≤ 23, mm, ss ≤ 59 (or Z/z) -/
def offset_statement : Prop :=
  ∀ (dp rest : Bytes) (sep : UInt8) (off : Int), parseOffset dp sep = some (rest, off) →
    -86400 < off ∧ off < 86400

/-- with %s everything else is ignored and the value is returned as is, with zero sub-seconds -/
def percent_s_statement : Prop :=
  ∀ (z : Tz.Zone) (t : Int), inI64 t →
    (parse (fun _ _ _ => none) (ofString "%s") (decInt t) z).val.1 = .ok t 0

/-- no (format, input) pair makes the specifier loop run out of fuel: it always ends with the input
rejected or the whole format consumed -/
def parse_safe_statement : Prop :=
  ∀ (sp : Strptime) (fmt input : Bytes), 
    let st := specLoop sp (fmt.length + input.length + 2) { data := some (skipSpace (cstr input)), fmt := cstr fmt }
    st.data = none ∨ st.fmt = []

/-- the extracted bounds are the documented ones -/
def constants_statement : Prop :=
  Gen.parse_m = (2, 1, 12) ∧ Gen.parse_d = (2, 1, 31) ∧ Gen.parse_e = (2, 1, 31) ∧ Gen.parse_H = (2, 0, 23) ∧
  Gen.parse_M = (2, 0, 59) ∧ Gen.parse_S = (2, 0, 60) ∧ Gen.parse_U = (0, 0, 53) ∧ Gen.parse_W = (0, 0, 53) ∧
  Gen.parse_u = (0, 1, 7) ∧ Gen.parse_w = (0, 0, 6) ∧ Gen.parse_E4Y = (4, -999, 9999) ∧
  Gen.parseOff_hours = (2, 0, 23) ∧ Gen.parseOff_minutes = (2, 0, 59) ∧ Gen.parseOff_seconds = (2, 0, 59)

end Cctz.C09
