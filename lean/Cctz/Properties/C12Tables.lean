/-
  C12 (continued) — what a successful load establishes about the table, i.e. the hypotheses of the
  table-level theorems (C01, C02, C03, C06, C10, C11, C14) hold of every zone `load` returns; and
  the executable checkers the driver evaluates on every zone of a run are sound.
-/
import Cctz.Model.Tz
import Cctz.Model.TableCheck
import Cctz.Spec.TableSem
import Cctz.Spec.TableTame
import Cctz.Proofs.LoadTables

namespace Cctz.C12Tables
open Cctz Cctz.Tz Cctz.Spec Cctz.TableCheck

/-- the Bool checkers imply the predicates they stand for -/
def checkers_sound_statement : Prop :=
  ∀ z : Zone,
    (tableWFb z = true → TableWF z) ∧ (civilSortedb z = true → CivilSorted z) ∧
    (civilColsb z = true → CivilCols z) ∧ (separatedb z = true → Separated z) ∧
    (timesInRangeb z = true → TimesInRange z) ∧ (firstEntryRoomb z = true → FirstEntryRoom z)

/-- every zone a load returns has exact civil-second columns and a strictly increasing civil column
(for every byte string; the values of the model are exact integers whatever flags were raised) -/
def load_columns_statement : Prop :=
  ∀ (cfg : LoadCfg) (b : Bytes) (z : Zone), (load cfg b).val = .ok z → CivilCols z ∧ CivilSorted z

/-- when no flag was raised all table instants are int64 values -/
def load_times_statement : Prop :=
  ∀ (cfg : LoadCfg) (b : Bytes) (z : Zone), (load cfg b).val = .ok z → (load cfg b).ok → TimesInRange z

/-- a table that was not extended by a footer rule is fully well-formed (the recorded times are
strictly increasing and the two sentinels keep them so); for extended tables `tableWFb` decides it -/
def load_wf_statement : Prop :=
  ∀ (cfg : LoadCfg) (b : Bytes) (z : Zone), (load cfg b).val = .ok z → z.extended = false → TableWF z

/-- the sentinels: the first entry is in the first half of the time line and the last in the second -/
def load_sentinels_statement : Prop :=
  ∀ (cfg : LoadCfg) (b : Bytes) (z : Zone), (load cfg b).val = .ok z →
    timeOf z 0 < 0 ∧ 0 ≤ timeOf z (z.transitions.size - 1)

/-- same facts for the built-in fixed-offset tables -/
def builtin_columns_statement : Prop :=
  ∀ off : Int, -86400 ≤ off → off ≤ 86400 →
    CivilSorted (resetToBuiltinUTC off).val ∧ Separated (resetToBuiltinUTC off).val ∧
    TimesInRange (resetToBuiltinUTC off).val ∧ FirstEntryRoom (resetToBuiltinUTC off).val

end Cctz.C12Tables
