/-
  C12 (continued) — what a successful load establishes about the table, i.e. the hypotheses of the
  table-level theorems (C01, C02, C03, C06, C10, C11, C14) hold of every zone `load` returns; and
  the executable checkers the driver evaluates on every zone of a run are sound.
-/
import Cctz.Model.Tz
import Cctz.Model.TableCheck
import Cctz.Spec.TableSem
import Cctz.Spec.TableTame
import Cctz.Proofs.LoadTables

namespace Cctz.C12Tables
open Cctz Cctz.Tz Cctz.Spec Cctz.TableCheck

/-- the Bool checkers imply the predicates they stand for -/
def checkers_sound_statement : Prop :=
  ∀ z : Zone,
    (tableWFb z = true → TableWF z) ∧ (civilSortedb z = true → CivilSorted z) ∧
    (civilColsb z = true → CivilCols z) ∧ (separatedb z = true → Separated z) ∧
    (timesInRangeb z = true → TimesInRange z) ∧ (firstEntryRoomb z = true → FirstEntryRoom z)

/-- every zone a load returns has exact civil-second columns and a strictly increasing civil column
(for every byte string; the values of the model are exact integers whatever flags were raised) -/
def load_columns_statement : Prop :=
  ∀ (cfg : LoadCfg) (b : Bytes) (z : Zone), (load cfg b).val = .ok z → CivilCols z ∧ CivilSorted z

/-- when no flag was raised all table instants are int64 values -/
def load_times_statement : Prop :=
  ∀ (cfg : LoadCfg) (b : Bytes) (z : Zone), (load cfg b).val = .ok z → (load cfg b).ok → TimesInRange z

/-- a table that was not extended by a footer rule is fully well-formed (the recorded times are
strictly increasing and the two sentinels keep them so); for extended tables `tableWFb` decides it -/
def load_wf_statement : Prop :=
  ∀ (cfg : LoadCfg) (b : Bytes) (z : Zone), (load cfg b).val = .ok z → z.extended = false → TableWF z

/-- the sentinels: the first entry is in the first half of the time line and the last in the second -/
def load_sentinels_statement : Prop :=
  ∀ (cfg : LoadCfg) (b : Bytes) (z : Zone), (load cfg b).val = .ok z →
    timeOf z 0 < 0 ∧ 0 ≤ timeOf z (z.transitions.size - 1)

/-- same facts for the built-in fixed-offset tables -/
def builtin_columns_statement : Prop :=
  ∀ off : Int, -86400 ≤ off → off ≤ 86400 →
    CivilSorted (resetToBuiltinUTC off).val ∧ Separated (resetToBuiltinUTC off).val ∧
    TimesInRange (resetToBuiltinUTC off).val ∧ FirstEntryRoom (resetToBuiltinUTC off).val

/-! ### proofs (helper lemmas: Cctz/Proofs/LoadTables.lean and Cctz/Proofs/Lt*.lean) -/

theorem checkers_sound : checkers_sound_statement := fun z =>
  ⟨Lt.tableWFb_sound z, Lt.civilSortedb_sound z, Lt.civilColsb_sound z, Lt.separatedb_sound z,
   Lt.timesInRangeb_sound z, Lt.firstEntryRoomb_sound z⟩

theorem load_columns : load_columns_statement := Lt.load_columns

theorem load_times : load_times_statement := Lt.load_times

theorem load_wf : load_wf_statement := Lt.load_wf

theorem load_sentinels : load_sentinels_statement := Lt.load_sentinels

theorem builtin_columns : builtin_columns_statement := fun off _ _ => Lt.builtin_columns off

/-! ### the hypotheses are satisfiable -/

/-- a version-1 TZif file with two transitions (at 3600 to a DST type of offset +1h, at 65536 back
to type 0) and two types -/
def sampleFile : Bytes :=
  [84, 90, 105, 102, 0] ++ List.replicate 15 0 ++
  [0,0,0,0, 0,0,0,0, 0,0,0,0, 0,0,0,2, 0,0,0,2, 0,0,0,8] ++
  [0,0,14,16, 0,1,0,0] ++ [1, 0] ++ [0,0,0,0, 0, 0] ++ [0,0,14,16, 1, 4] ++
  [85, 84, 67, 0, 68, 83, 84, 0]

/-- the hypotheses of `load_columns`, `load_times`, `load_wf`, `load_sentinels` hold of it: it loads
without a flag into a table of three entries (the first sentinel and the two transitions) that is
not extended -/
example : (load {} sampleFile).ok ∧
    (match (load {} sampleFile).val with
     | .ok z => z.transitions.size == 3 && !z.extended && z.types.size == 2
     | _ => false) = true := by decide +kernel

/-- and the checkers of `checkers_sound` answer `true` on that table -/
example : (match (load {} sampleFile).val with
     | .ok z => tableWFb z && civilSortedb z && civilColsb z && separatedb z && timesInRangeb z &&
         firstEntryRoomb z
     | _ => false) = true := by decide +kernel

/-- the hypotheses of `builtin_columns` are satisfiable -/
example : (-86400 : Int) ≤ 3600 ∧ (3600 : Int) ≤ 86400 := by decide

end Cctz.C12Tables
