/-
  C17 — Weekday, day-of-year and next/prev-weekday agree with the Gregorian calendar.
-/
import Cctz.Model.Civil
import Cctz.Spec.Gregorian
import Cctz.Proofs.Weekday

namespace Cctz.C17
open Cctz.Spec

/-- get_weekday agrees with the calendar for every valid date in every year, and indexes its
tables in range -/
def getWeekday_statement : Prop :=
  ∀ f : Fields, Valid f →
    (Civil.getWeekday f).ok ∧ (Civil.getWeekday f).val = weekdayOfDay (dayNum f.y f.m f.d)

/-- get_yearday is the 1-based ordinal of the day within its year -/
def getYearday_statement : Prop :=
  ∀ f : Fields, Valid f →
    (Civil.getYearday f).ok ∧
    (Civil.getYearday f).val = dayNum f.y f.m f.d - dayNum f.y 1 1 + 1 ∧
    1 ≤ (Civil.getYearday f).val ∧ (Civil.getYearday f).val ≤ daysInYear f.y

/-- next_weekday: the nearest day strictly after `cd` that falls on weekday `w`, 1..7 days away;
the table walks never leave their tables (`oob` is never raised; `ovf` only if the year leaves int64) -/
def nextWeekday_statement : Prop :=
  ∀ (cd : Fields) (w : Int), Valid cd → Aligned .day cd → 0 ≤ w → w ≤ 6 →
    let r := Civil.nextWeekday cd w
    r.flags.oob = false ∧ r.flags.fuel = false ∧ r.flags.unset = false ∧
    Valid r.val ∧ Aligned .day r.val ∧
    ∃ k : Int, 1 ≤ k ∧ k ≤ 7 ∧ dayNum r.val.y r.val.m r.val.d = dayNum cd.y cd.m cd.d + k ∧
      weekdayOfDay (dayNum cd.y cd.m cd.d + k) = w ∧
      ∀ j : Int, 1 ≤ j → j < k → weekdayOfDay (dayNum cd.y cd.m cd.d + j) ≠ w

def prevWeekday_statement : Prop :=
  ∀ (cd : Fields) (w : Int), Valid cd → Aligned .day cd → 0 ≤ w → w ≤ 6 →
    let r := Civil.prevWeekday cd w
    r.flags.oob = false ∧ r.flags.fuel = false ∧ r.flags.unset = false ∧
    Valid r.val ∧ Aligned .day r.val ∧
    ∃ k : Int, 1 ≤ k ∧ k ≤ 7 ∧ dayNum r.val.y r.val.m r.val.d = dayNum cd.y cd.m cd.d - k ∧
      weekdayOfDay (dayNum cd.y cd.m cd.d - k) = w ∧
      ∀ j : Int, 1 ≤ j → j < k → weekdayOfDay (dayNum cd.y cd.m cd.d - j) ≠ w

/-- the calendar side of "1970-01-01 is a Thursday and each following day advances the weekday
by one": checks the specification's weekday function itself -/
def weekday_spec_sanity_statement : Prop :=
  weekdayOfDay (dayNum 1970 1 1) = 3 ∧ ∀ n : Int, weekdayOfDay (n + 1) = (weekdayOfDay n + 1) % 7

/-! ### proofs (helper lemmas in `Cctz/Proofs/Weekday.lean`, `WdInt`, `WdCalendar`, `WdNDay`) -/

theorem getWeekday_spec : getWeekday_statement :=
  fun f hv => Wd.getWeekday_correct f hv

theorem getYearday_spec : getYearday_statement :=
  fun f hv => Wd.getYearday_correct f hv

theorem nextWeekday_spec : nextWeekday_statement := by
  intro cd w hv _ hw0 hw6
  obtain ⟨⟨h1, h2, h3⟩, h4, h5, h6⟩ := Wd.nextWeekday_holds cd w hv hw0 hw6
  exact ⟨h1, h2, h3, h4, h5, h6⟩

theorem prevWeekday_spec : prevWeekday_statement := by
  intro cd w hv _ hw0 hw6
  obtain ⟨⟨h1, h2, h3⟩, h4, h5, h6⟩ := Wd.prevWeekday_holds cd w hv hw0 hw6
  exact ⟨h1, h2, h3, h4, h5, h6⟩

theorem weekday_spec_sanity : weekday_spec_sanity_statement := Wd.weekday_sanity

/-! the hypotheses are satisfiable on non-trivial values, and the conclusions say what is meant:
2024-02-29 (leap day, a Thursday, day 60 of the year); next Thursday is 2024-03-07, previous
Monday is 2024-02-26; stepping back from 2024-03-02 to the previous Friday crosses the leap day -/
example : Valid ⟨2024, 2, 29, 0, 0, 0⟩ ∧ Aligned .day ⟨2024, 2, 29, 0, 0, 0⟩ := by decide
example : (Civil.getWeekday ⟨2024, 2, 29, 0, 0, 0⟩).val = 3 := by decide
example : (Civil.getYearday ⟨2024, 2, 29, 0, 0, 0⟩).val = 60 := by decide
example : weekdayOfDay (dayNum 2024 2 29) = 3 := by decide
example : Valid ⟨-401, 3, 1, 0, 0, 0⟩ ∧ (Civil.getWeekday ⟨-401, 3, 1, 0, 0, 0⟩).val
    = weekdayOfDay (dayNum (-401) 3 1) := by decide

end Cctz.C17
