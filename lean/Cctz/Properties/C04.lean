/-
  C04 — Civil-time construction normalises exactly to a valid Gregorian date-time.
  Statements only refer to the model (`Cctz.Civil`) and the specification (`Cctz.Spec`);
  helper lemmas live in `Cctz/Proofs`.
-/
import Cctz.Model.Civil
import Cctz.Spec.Gregorian
import Cctz.Proofs.CivilNorm

namespace Cctz.C04
open Cctz.Spec

/-- (1) the result of normalisation is a valid civil second, for all six integers -/
def nSec_valid_statement : Prop :=
  ∀ y m d hh mm ss : Int, Valid (Civil.nSec y m d hh mm ss).val

/-- (2) … and it denotes exactly the instant the six fields denote -/
def nSec_exact_statement : Prop :=
  ∀ y m d hh mm ss : Int, secNum (Civil.nSec y m d hh mm ss).val = unnormSec y m d hh mm ss

/-- (3) … and it is the only valid civil second that does -/
def nSec_unique_statement : Prop :=
  ∀ (y m d hh mm ss : Int) (f : Fields), Valid f → secNum f = unnormSec y m d hh mm ss →
    f = (Civil.nSec y m d hh mm ss).val

/-- (4) alignment: keeps the fields at and above the unit, resets the lower ones, stays valid, and
is the greatest aligned value not after `f`; converting between alignments never changes a
field at or above the coarser of the two units -/
def align_spec_statement : Prop :=
  ∀ (t : Tag) (f : Fields), Valid f →
    Valid (Civil.align t f) ∧ Aligned t (Civil.align t f) ∧ SameAbove t (Civil.align t f) f ∧
    secNum (Civil.align t f) ≤ secNum f ∧
    (∀ g, Valid g → Aligned t g → secNum g ≤ secNum f → secNum g ≤ secNum (Civil.align t f)) ∧
    (∀ u : Tag, SameAbove t (Civil.align u (Civil.align t f)) (Civil.align u f))

/-- the constructor of `civil_time<T>` is normalisation followed by alignment -/
def civilNew_spec_statement : Prop :=
  ∀ (t : Tag) (y m d hh mm ss : Int),
    let r := (Civil.civilNew t y m d hh mm ss).val
    Valid r ∧ Aligned t r ∧ SameAbove t r (Civil.nSec y m d hh mm ss).val

/-- (5) no intermediate overflow inside the representability bound: all six arguments are int64,
the year after the month carry alone (both the value `y + m/12` the code forms first and the
carried year) and the normalised year fit int64 -/
def nSec_no_overflow_statement : Prop :=
  ∀ y m d hh mm ss : Int, inI64 y → inI64 m → inI64 d → inI64 hh → inI64 mm → inI64 ss →
    inI64 (y + Int.tdiv m 12) → inI64 (y + (m - 1) / 12) →
    inI64 (Civil.nSec y m d hh mm ss).val.y →
    (Civil.nSec y m d hh mm ss).ok

/-! ## proofs -/

theorem nSec_valid : nSec_valid_statement := by
  intro y m d hh mm ss
  exact (nSec_norm y m d hh mm ss).valid (by omega) (by omega) (by omega)

theorem nSec_exact : nSec_exact_statement := by
  intro y m d hh mm ss
  rw [(nSec_norm y m d hh mm ss).secNum, unnormSec_eq]
  omega

theorem nSec_unique : nSec_unique_statement := by
  intro y m d hh mm ss f hf h
  exact secNum_inj hf (nSec_valid y m d hh mm ss) (by rw [h, nSec_exact])

theorem align_spec : align_spec_statement := by
  intro t f hf
  exact ⟨align_valid t f hf, align_aligned t f, align_sameAbove t f, align_le t f hf,
    fun g hg ha hle => align_greatest t f g hf hg ha hle, fun u => align_align t u f⟩

theorem civilNew_spec : civilNew_spec_statement := by
  intro t y m d hh mm ss
  show Valid (Civil.align t (Civil.nSec y m d hh mm ss).val) ∧
    Aligned t (Civil.align t (Civil.nSec y m d hh mm ss).val) ∧
    SameAbove t (Civil.align t (Civil.nSec y m d hh mm ss).val) (Civil.nSec y m d hh mm ss).val
  exact ⟨align_valid t _ (nSec_valid y m d hh mm ss), align_aligned t _, align_sameAbove t _⟩

theorem nSec_no_overflow : nSec_no_overflow_statement := by
  intro y m d hh mm ss hy _ hd hhh hmm hss hy1 hy2 hres
  exact nSec_ok y m d hh mm ss hy hd hhh hmm hss (fun _ => hy1) hy2 hres

/-- the hypotheses of `nSec_no_overflow` are satisfiable at the edge of the range -/
example : inI64 (9223372036854775807 + Int.tdiv (-5) 12) ∧
    inI64 (9223372036854775807 + ((-5) - 1) / 12) ∧
    inI64 (Civil.nSec 9223372036854775807 (-5) 400 (-30) 70 (-9223372036854775808)).val.y := by
  decide +kernel

example : Valid ⟨2024, 3, 1, 23, 59, 59⟩ ∧
    secNum ⟨2024, 3, 1, 23, 59, 59⟩ = unnormSec 2023 14 31 (-1) 59 59 := by decide

end Cctz.C04
