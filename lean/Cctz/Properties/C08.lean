/-
  C08 — format() renders exactly the fields lookup() reports (model level).
  `strftime` is a parameter of the model; these theorems concern what the library renders itself,
  which text it hands to strftime, and that no format string makes it leave its buffers.
-/
import Cctz.Model.Format
import Cctz.Spec.FormatSpec
import Cctz.Proofs.FormatLemmas

namespace Cctz.C08
open Cctz Cctz.Bytes Cctz.Format Cctz.Spec

/-- what lookup() may report: a valid civil second with an int64 year, an offset below 25 h -/
def GoodLookup (al : Tz.AbsLookup) : Prop :=
  Valid al.cs ∧ inI64 al.cs.y ∧ -90000 < al.offset ∧ al.offset < 90000

/-- the renderers -/
def format64_statement : Prop :=
  ∀ (v : Int), format64 0 v = decInt v
def format64_year4_statement : Prop :=
  ∀ (y : Int), format64 4 y = year4 y
def format02d_statement : Prop :=
  ∀ (v : Int), 0 ≤ v → v ≤ 99 → (format02d v).ok ∧ (format02d v).val = decPad 2 v.toNat
def formatOffset_statement : Prop :=
  ∀ (off : Int), -90000 < off → off < 90000 →
    (formatOffset off []).val = offHM false off ∧ (formatOffset off [58]).val = offHM true off ∧
    (formatOffset off [58, 42]).val = offHMS off ∧ (formatOffset off [58, 42, 58]).val = offMin off ∧
    (formatOffset off []).ok ∧ (formatOffset off [58]).ok ∧ (formatOffset off [58, 42]).ok ∧ (formatOffset off [58, 42, 58]).ok

/-- literal text passes through unchanged: a format without '%' is copied verbatim and strftime is
not consulted -/
def literal_statement : Prop :=
  ∀ (fmt : Bytes) (al : Tz.AbsLookup) (t fs : Int), (∀ c ∈ fmt, c ≠ 37) → fmt ≠ [] →
    (formatSegs fmt al t fs).val.2 = [Seg.lit fmt]

/-- doubled percent signs: "%%" renders "%", for any surrounding literal text -/
def percent_statement : Prop :=
  ∀ (a b : Bytes) (al : Tz.AbsLookup) (t fs : Int), (∀ c ∈ a, c ≠ 37) → (∀ c ∈ b, c ≠ 37) →
    (render (fun _ _ => []) (formatSegs (a ++ [37, 37] ++ b) al t fs).val.1 (formatSegs (a ++ [37, 37] ++ b) al t fs).val.2)
      = a ++ [37] ++ b

/-- the RFC 3339 format: every field is the documented rendering of what lookup() reports, strftime
is not consulted -/
def rfc3339_statement : Prop :=
  ∀ (al : Tz.AbsLookup) (t fs : Int), GoodLookup al → 0 ≤ fs → fs < 1000000000000000 →
    let r := formatSegs (ofString "%Y-%m-%d%ET%H:%M:%E*S%Ez") al t fs
    r.ok ∧ (∀ sg ∈ r.val.2, ∃ b, sg = Seg.lit b) ∧
    render (fun _ _ => []) r.val.1 r.val.2 =
      decInt al.cs.y ++ [45] ++ decPad 2 al.cs.m.toNat ++ [45] ++ decPad 2 al.cs.d.toNat ++ [84] ++
      decPad 2 al.cs.hh.toNat ++ [58] ++ decPad 2 al.cs.mm.toNat ++ [58] ++ decPad 2 al.cs.ss.toNat ++
      (if fracStar fs = [] then [] else 46 :: fracStar fs) ++ offHM true al.offset

/-- no format string, however malformed, makes the cursor loop run away, index outside the format
string, or overrun the 21-byte scratch buffer -/
def format_safe_statement : Prop :=
  ∀ (fmt : Bytes) (al : Tz.AbsLookup) (t fs : Int), GoodLookup al → inI64 t → 0 ≤ fs → fs < 1000000000000000 →
    (formatSegs fmt al t fs).flags.oob = false ∧ (formatSegs fmt al t fs).flags.fuel = false ∧
    (formatSegs fmt al t fs).flags.unset = false

/-- the scratch buffer size and the specifier set are the documented ones -/
def constants_statement : Prop :=
  Gen.formatBufSize = 21 ∧ Gen.kDigits10_64 = 18 ∧
  Gen.formatSimpleSpecs = [89, 109, 100, 101, 85, 117, 87, 119, 72, 77, 83, 122, 90, 115, 37] ∧
  Gen.kExp10.length = 19 ∧ Gen.formatEDigits = (0, 0, 1024)

/-! ### proofs (helper lemmas in `Cctz/Proofs/FormatLemmas.lean` and `Cctz/Proofs/Fm*.lean`) -/

theorem constants : constants_statement := ⟨rfl, rfl, rfl, rfl, rfl⟩

theorem format64 : format64_statement := Fm.format64_zero

theorem format64_year4 : format64_year4_statement := Fm.format64_four

theorem format02d : format02d_statement := Fm.format02d_spec

theorem formatOffset : formatOffset_statement := by
  intro off h1 h2
  obtain ⟨a, b, c, d⟩ := Fm.formatOffset_val off h1 h2
  exact ⟨a, b, c, d, Fm.formatOffset_ok off _ h1 h2, Fm.formatOffset_ok off _ h1 h2,
    Fm.formatOffset_ok off _ h1 h2, Fm.formatOffset_ok off _ h1 h2⟩

/-! the renderers on concrete values: -1:00:30 shows the sign rules of the four offset forms -/
example : Cctz.Format.format64 0 (-42) = ofString "-42" ∧ Cctz.Format.format64 4 (-42) = ofString "-042"
    ∧ Cctz.Format.format64 4 12345 = ofString "12345" := by decide +kernel
example : (0 : Int) ≤ 7 ∧ (7 : Int) ≤ 99 ∧ (Cctz.Format.format02d 7).val = ofString "07" := by decide +kernel
example : (-90000 : Int) < -30 ∧ (-30 : Int) < 90000 ∧
    (Cctz.Format.formatOffset (-30) []).val = ofString "+0000" ∧
    (Cctz.Format.formatOffset (-30) [58, 42]).val = ofString "-00:00:30" ∧
    (Cctz.Format.formatOffset (-3600) [58, 42, 58]).val = ofString "-01" := by decide +kernel

theorem literal : literal_statement :=
  fun fmt al t fs h37 hne => Fm.literal_segs fmt al t fs h37 hne

theorem percent : percent_statement :=
  fun a b al t fs ha hb => Fm.percent_segs a b al t fs ha hb

/-! hypotheses satisfiable: "a-b" has no percent sign; "50%%!" renders "50%!" -/
example : (∀ c ∈ ofString "a-b", c ≠ 37) ∧ ofString "a-b" ≠ [] := by decide +kernel
example : (∀ c ∈ ofString "50", c ≠ 37) ∧ (∀ c ∈ ofString "!", c ≠ 37) ∧
    ofString "50" ++ [37, 37] ++ ofString "!" = ofString "50%%!" := by decide +kernel

theorem rfc3339 : rfc3339_statement := by
  intro al t fs hg h0 h1
  obtain ⟨hv, hy, ho1, ho2⟩ := hg
  exact Fm.rfc_segs al t fs hv hy ho1 ho2 h0 h1

/-! hypotheses satisfiable: 2024-02-29 23:59:58 at UTC-03:30 with half a second -/
example : GoodLookup ⟨⟨2024, 2, 29, 23, 59, 58⟩, -12600, false, ofString "NST"⟩ ∧
    (0 : Int) ≤ 500000000000000 ∧ (500000000000000 : Int) < 1000000000000000 := by
  unfold GoodLookup; decide +kernel

theorem format_safe : format_safe_statement := by
  intro fmt al t fs hg ht h0 h1
  obtain ⟨hv, hy, ho1, ho2⟩ := hg
  exact Fm.formatSegs_safe fmt al t fs hv hy ho1 ho2 ht h0 h1

/-! hypotheses satisfiable, on a format that ends inside a specifier and asks for a too wide
fraction: "%E99S%E*" -/
example : GoodLookup ⟨⟨-1, 12, 31, 23, 59, 59⟩, 89999, true, []⟩ ∧ inI64 (-62135596801) ∧
    (0 : Int) ≤ 999999999999999 ∧ (999999999999999 : Int) < 1000000000000000 := by
  unfold GoodLookup; decide +kernel
example :
    let r := formatSegs (ofString "%E99S%E*") ⟨⟨-1, 12, 31, 23, 59, 59⟩, 89999, true, []⟩ (-62135596801) 999999999999999
    r.flags = Flags.none ∧
    render (fun _ _ => []) r.val.1 r.val.2 = ofString "59.999999999999999000" := by decide +kernel

end Cctz.C08
