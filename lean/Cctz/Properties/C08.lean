import Cctz.Model.Parse
namespace Cctz.C08
end Cctz.C08
