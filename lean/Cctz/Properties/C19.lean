/-
  C19 — Zone names resolve as documented (decision logic of the model of
  `FileZoneInfoSource::Open`, `local_time_zone` and the loader; the file system is a parameter).
-/
import Cctz.Model.Loader
import Cctz.Proofs.LoaderInv
import Cctz.Proofs.LoNames

namespace Cctz.C19
open Cctz Cctz.Bytes Cctz.Loader

/-- names beginning with '/' (after an optional "file:" prefix) are file paths, whatever TZDIR is -/
def absolute_statement : Prop :=
  ∀ (rest : Bytes) (tzdir : Option Bytes),
    openPath (47 :: rest) tzdir = 47 :: rest ∧
    openPath (ofString "file:" ++ 47 :: rest) tzdir = 47 :: rest

/-- all other names are relative to $TZDIR, default /usr/share/zoneinfo (an empty TZDIR is ignored) -/
def relative_statement : Prop :=
  ∀ (name : Bytes) (dir : Bytes), name.headD 0 ≠ 47 → name.take 5 ≠ ofString "file:" →
    openPath name none = ofString "/usr/share/zoneinfo" ++ 47 :: name ∧
    openPath name (some []) = ofString "/usr/share/zoneinfo" ++ 47 :: name ∧
    (dir.headD 0 ≠ 0 → (∀ c ∈ dir, c ≠ 0) → openPath name (some dir) = dir ++ 47 :: name)

/-- local_time_zone(): follows $TZ ignoring one leading ':'; "localtime" maps to $LOCALTIME or else
/etc/localtime; with TZ unset the name is "localtime" -/
def local_statement : Prop :=
  (∀ lt, localZoneName none lt = localZoneName (some (ofString "localtime")) lt) ∧
  (∀ lt, localZoneName (some (ofString ":localtime")) lt = localZoneName (some (ofString "localtime")) lt) ∧
  localZoneName (some (ofString "localtime")) none = ofString "/etc/localtime" ∧
  (∀ p : Bytes, (∀ c ∈ p, c ≠ 0) → localZoneName (some (ofString "localtime")) (some p) = p) ∧
  (∀ z : Bytes, (∀ c ∈ z, c ≠ 0) → z.headD 0 ≠ 58 → z ≠ ofString "localtime" → ∀ lt, localZoneName (some z) lt = z) ∧
  (∀ z : Bytes, (∀ c ∈ z, c ≠ 0) → z ≠ ofString "localtime" → ∀ lt, localZoneName (some (58 :: z)) lt = z)

/-- UTC, UTC0 and fixed-offset names are resolved internally: the loader never reaches the data
source for them, and they always succeed -/
def internal_names_statement : Prop :=
  ∀ (w : World) (n : Name), isFixedName n = true → seqOk w n = true ∧
    ∀ (names : List Name) (sched : List Nat) (τ : Nat), (τ, n) ∉ (run w (initState names) sched).log

/-- a name that cannot be resolved, or whose data is rejected, fails — and the result is UTC -/
def failure_is_utc_statement : Prop :=
  ∀ (w : World) (names : List Name) (sched : List Nat) (i : Nat) (t : Thread) (id : Ident),
    (run w (initState names) sched).threads[i]? = some t → t.pc = .done false id → id = .utc

/-! ## proofs -/

theorem absolute : absolute_statement := by
  intro rest tzdir
  constructor
  · unfold openPath
    simp only [ofString_file]
    have h1 : ¬ List.take 5 (47 :: rest) = [102, 105, 108, 101, 58] := by
      intro e; simp [List.take] at e
    simp
  · unfold openPath
    simp only [ofString_file]
    simp

theorem relative : relative_statement := by
  intro name dir h1 h2
  have hc : ∀ tz : Option Bytes, openPath name tz =
      (match tz with
        | some d => if cstr d ≠ [] then cstr d else ofString "/usr/share/zoneinfo"
        | none => ofString "/usr/share/zoneinfo") ++ [47] ++ name := by
    intro tz
    unfold openPath
    simp only [if_neg h2, List.drop_zero]
    rw [if_pos (Or.inr h1)]
    cases tz <;> rfl
  refine ⟨?_, ?_, ?_⟩
  · rw [hc]; simp
  · rw [hc]; simp [cstr]
  · intro hd hnz
    rw [hc]
    have : dir ≠ [] := by intro e; subst e; exact hd rfl
    simp only [cstr_of_nz dir hnz, ne_eq, this, not_false_eq_true, if_true]
    simp

/-- (`local` is a Lean keyword: the name needs guillemets; `local_resolution` below is an alias) -/
theorem «local» : local_statement := by
  have c1 : cstr (ofString "localtime") = ofString "localtime" := by
    rw [ofString_localtime]; decide
  have c2 : cstr (ofString ":localtime") = ofString ":localtime" := by
    rw [ofString_colon_localtime]; decide
  have key : ∀ lt, localZoneName (some (ofString "localtime")) lt =
      match lt with
      | some l => cstr l
      | none => ofString "/etc/localtime" := by
    intro lt
    unfold localZoneName
    simp only [c1]
    have : ¬ (ofString "localtime").headD 0 = 58 := by rw [ofString_localtime]; decide
    simp only [if_neg this, if_true]
    cases lt <;> rfl
  refine ⟨?_, ?_, ?_, ?_, ?_, ?_⟩
  · intro lt
    rw [key]
    unfold localZoneName
    have : (ofString ":localtime").headD 0 = 58 := by rw [ofString_colon_localtime]; decide
    have d : (ofString ":localtime").drop 1 = ofString "localtime" := by
      rw [ofString_colon_localtime, ofString_localtime]; rfl
    simp only [if_pos this, d, if_true]
    cases lt <;> rfl
  · intro lt
    rw [key]
    unfold localZoneName
    have : (ofString ":localtime").headD 0 = 58 := by rw [ofString_colon_localtime]; decide
    have d : (ofString ":localtime").drop 1 = ofString "localtime" := by
      rw [ofString_colon_localtime, ofString_localtime]; rfl
    simp only [c2, if_pos this, d, if_true]
    cases lt <;> rfl
  · rw [key]
  · intro p hp; rw [key]; exact cstr_of_nz p hp
  · intro z hz h58 hne lt
    unfold localZoneName
    simp only [cstr_of_nz z hz, if_neg h58, if_neg hne]
  · intro z hz hne lt
    unfold localZoneName
    have : cstr (58 :: z) = 58 :: z := by
      apply cstr_of_nz
      intro c hc
      rcases List.mem_cons.mp hc with e | e
      · subst e; decide
      · exact hz c e
    simp only [this, List.headD_cons, if_true, List.drop_succ_cons, List.drop_zero, if_neg hne]

theorem local_resolution : local_statement := «local»

theorem internal_names : internal_names_statement := by
  intro w n hf
  refine ⟨by simp [seqOk, hf], ?_⟩
  intro names sched τ hm
  have := ((inv_reach w names sched).log τ n hm).1
  rw [hf] at this; cases this

theorem failure_is_utc : failure_is_utc_statement := by
  intro w names sched i t id h hp
  have := (inv_reach w names sched).thr i t h
  rw [hp] at this
  rcases this with ⟨_, a, _⟩ | ⟨_, _, c⟩
  · cases a
  · cases id with
    | utc => rfl
    | impl g => cases c

/-- the hypotheses of `relative` / `local` are satisfiable -/
example : ([120] : Bytes).headD 0 ≠ 47 ∧ ([120] : Bytes).take 5 ≠ ofString "file:" ∧
    ([47, 116] : Bytes).headD 0 ≠ 0 ∧ (∀ c ∈ ([47, 116] : Bytes), c ≠ 0) := by decide +kernel

example : isFixedName (ofString "UTC") = true := by decide +kernel

end Cctz.C19
