/-
  C19 — Zone names resolve as documented (decision logic of the model of
  `FileZoneInfoSource::Open`, `local_time_zone` and the loader; the file system is a parameter).
-/
import Cctz.Model.Loader
import Cctz.Proofs.LoaderInv

namespace Cctz.C19
open Cctz Cctz.Bytes Cctz.Loader

/-- names beginning with '/' (after an optional "file:" prefix) are file paths, whatever TZDIR is -/
def absolute_statement : Prop :=
  ∀ (rest : Bytes) (tzdir : Option Bytes),
    openPath (47 :: rest) tzdir = 47 :: rest ∧
    openPath (ofString "file:" ++ 47 :: rest) tzdir = 47 :: rest

/-- all other names are relative to $TZDIR, default /usr/share/zoneinfo (an empty TZDIR is ignored) -/
def relative_statement : Prop :=
  ∀ (name : Bytes) (dir : Bytes), name.headD 0 ≠ 47 → name.take 5 ≠ ofString "file:" →
    openPath name none = ofString "/usr/share/zoneinfo" ++ 47 :: name ∧
    openPath name (some []) = ofString "/usr/share/zoneinfo" ++ 47 :: name ∧
    (dir.headD 0 ≠ 0 → (∀ c ∈ dir, c ≠ 0) → openPath name (some dir) = dir ++ 47 :: name)

/-- local_time_zone(): follows $TZ ignoring one leading ':'; "localtime" maps to $LOCALTIME or else
/etc/localtime; with TZ unset the name is "localtime" -/
def local_statement : Prop :=
  (∀ lt, localZoneName none lt = localZoneName (some (ofString "localtime")) lt) ∧
  (∀ lt, localZoneName (some (ofString ":localtime")) lt = localZoneName (some (ofString "localtime")) lt) ∧
  localZoneName (some (ofString "localtime")) none = ofString "/etc/localtime" ∧
  (∀ p : Bytes, (∀ c ∈ p, c ≠ 0) → localZoneName (some (ofString "localtime")) (some p) = p) ∧
  (∀ z : Bytes, (∀ c ∈ z, c ≠ 0) → z.headD 0 ≠ 58 → z ≠ ofString "localtime" → ∀ lt, localZoneName (some z) lt = z) ∧
  (∀ z : Bytes, (∀ c ∈ z, c ≠ 0) → z ≠ ofString "localtime" → ∀ lt, localZoneName (some (58 :: z)) lt = z)

/-- UTC, UTC0 and fixed-offset names are resolved internally: the loader never reaches the data
source for them, and they always succeed -/
def internal_names_statement : Prop :=
  ∀ (w : World) (n : Name), isFixedName n = true → seqOk w n = true ∧
    ∀ (names : List Name) (sched : List Nat) (τ : Nat), (τ, n) ∉ (run w (initState names) sched).log

/-- a name that cannot be resolved, or whose data is rejected, fails — and the result is UTC -/
def failure_is_utc_statement : Prop :=
  ∀ (w : World) (names : List Name) (sched : List Nat) (i : Nat) (t : Thread) (id : Ident),
    (run w (initState names) sched).threads[i]? = some t → t.pc = .done false id → id = .utc

end Cctz.C19
