import Cctz.Model.Loader
namespace Cctz.C19
end Cctz.C19
