/-
  C08 (continued) — the whole of format(): for EVERY format string the output is the one the
  reading rules of `Spec/FormatLex.lean` describe — literal text and "%%" pass through, each
  library-defined conversion is replaced by its documented rendering of what lookup() reported,
  and every other conversion reaches strftime, verbatim and together with the text around it, as
  the runs the specification names.  `strftime` is a parameter: the statement holds for every
  function in its place (so the runs handed to it are the same, not just their rendering).
-/
import Cctz.Model.Format
import Cctz.Spec.FormatSpec
import Cctz.Spec.FormatLex
import Cctz.Properties.C08

namespace Cctz.C08Lex
open Cctz Cctz.Bytes Cctz.Format Cctz.Spec

/-- `ToTM`: the broken-down time handed to strftime is the calendar's (tm_year saturates at the
ends of `int`) -/
def toTM_statement : Prop :=
  ∀ (al : Tz.AbsLookup), C08.GoodLookup al →
    (toTM al).ok ∧
    (toTM al).val = ⟨al.cs.ss, al.cs.mm, al.cs.hh, al.cs.d, al.cs.m - 1,
      (if al.cs.y - 1900 < i32min then i32min else if al.cs.y - 1900 > i32max then i32max else al.cs.y - 1900),
      Lex.wday al.cs, Lex.yday al.cs, if al.isDst then 1 else 0⟩

/-- format() = the specification, for every format string, every strftime, every instant -/
def format_follows_spec_statement : Prop :=
  ∀ (sf : Strftime) (fmt : Bytes) (al : Tz.AbsLookup) (t fs : Int),
    C08.GoodLookup al → inI64 t → 0 ≤ fs → fs < 1000000000000000 →
    (format sf fmt al t fs).val = Lex.formatSpec sf (toTM al).val fmt al t fs

/-- …and nothing in it overflows, indexes out of bounds or runs out of fuel -/
def format_ok_statement : Prop :=
  ∀ (sf : Strftime) (fmt : Bytes) (al : Tz.AbsLookup) (t fs : Int),
    C08.GoodLookup al → inI64 t → 0 ≤ fs → fs < 1000000000000000 →
    (format sf fmt al t fs).ok

end Cctz.C08Lex
