/-
  C08 (continued) — the whole of format(): for EVERY format string the output is the one the
  reading rules of `Spec/FormatLex.lean` describe — literal text and "%%" pass through, each
  library-defined conversion is replaced by its documented rendering of what lookup() reported,
  and every other conversion reaches strftime, verbatim and together with the text around it, as
  the runs the specification names.  `strftime` is a parameter: the statement holds for every
  function in its place (so the runs handed to it are the same, not just their rendering).
-/
import Cctz.Model.Format
import Cctz.Spec.FormatSpec
import Cctz.Spec.FormatLex
import Cctz.Properties.C08
import Cctz.Proofs.LexLoop
import Cctz.Proofs.LexOk

namespace Cctz.C08Lex
open Cctz Cctz.Bytes Cctz.Format Cctz.Spec

/-- `ToTM`: the broken-down time handed to strftime is the calendar's (tm_year saturates at the
ends of `int`) -/
def toTM_statement : Prop :=
  ∀ (al : Tz.AbsLookup), C08.GoodLookup al →
    (toTM al).ok ∧
    (toTM al).val = ⟨al.cs.ss, al.cs.mm, al.cs.hh, al.cs.d, al.cs.m - 1,
      (if al.cs.y - 1900 < i32min then i32min else if al.cs.y - 1900 > i32max then i32max else al.cs.y - 1900),
      Lex.wday al.cs, Lex.yday al.cs, if al.isDst then 1 else 0⟩

/-- format() = the specification, for every format string, every strftime, every instant -/
def format_follows_spec_statement : Prop :=
  ∀ (sf : Strftime) (fmt : Bytes) (al : Tz.AbsLookup) (t fs : Int),
    C08.GoodLookup al → inI64 t → 0 ≤ fs → fs < 1000000000000000 →
    (format sf fmt al t fs).val = Lex.formatSpec sf (toTM al).val fmt al t fs

/-- …and nothing in it overflows, indexes out of bounds or runs out of fuel -/
def format_ok_statement : Prop :=
  ∀ (sf : Strftime) (fmt : Bytes) (al : Tz.AbsLookup) (t fs : Int),
    C08.GoodLookup al → inI64 t → 0 ≤ fs → fs < 1000000000000000 →
    (format sf fmt al t fs).ok

/-! ### proofs (helper lemmas in `Cctz/Proofs/Lex*.lean`) -/

theorem toTM : toTM_statement := by
  intro al hg
  obtain ⟨hv, hy, _, _⟩ := hg
  exact ⟨Fm.toTM_ok al hv hy, Lx.toTM_val al hv⟩

theorem format_follows_spec : format_follows_spec_statement := by
  intro sf fmt al t fs hg ht h0 h1
  obtain ⟨hv, hy, ho1, ho2⟩ := hg
  exact Lx.format_val sf fmt al t fs hv hy ho1 ho2 ht h0 h1

theorem format_ok : format_ok_statement := by
  intro sf fmt al t fs hg ht h0 h1
  obtain ⟨hv, hy, ho1, ho2⟩ := hg
  exact Lx.format_ok sf fmt al t fs hv hy ho1 ho2 ht h0 h1

/-! ### the hypotheses are satisfiable and the statements say what is meant

2024-02-29 23:59:58 at UTC-03:30, half a second past, with a `strftime` that echoes the format it is
given (so the runs handed to it show up verbatim in the output). -/

/-- the running example -/
def exLookup : Tz.AbsLookup := ⟨⟨2024, 2, 29, 23, 59, 58⟩, -12600, false, ofString "NST"⟩
def exEcho : Strftime := fun run _ => run

example : C08.GoodLookup exLookup ∧ inI64 1709263798 ∧ (0 : Int) ≤ 500000000000000 ∧
    (500000000000000 : Int) < 1000000000000000 := by
  unfold C08.GoodLookup; decide +kernel

/-- `ToTM`: a Thursday (tm_wday 4), the 60th day of the year (tm_yday 59), tm_year 124 -/
example : (Cctz.Format.toTM exLookup).val = ⟨58, 59, 23, 29, 1, 124, 4, 59, 0⟩ ∧
    Lex.wday exLookup.cs = 4 ∧ Lex.yday exLookup.cs = 59 := by decide +kernel

/-- tm_year saturates at the ends of `int` -/
example : (Cctz.Format.toTM ⟨⟨9223372036854775807, 1, 1, 0, 0, 0⟩, 0, false, []⟩).val.year = 2147483647 ∧
    (Cctz.Format.toTM ⟨⟨-9223372036854775808, 1, 1, 0, 0, 0⟩, 0, false, []⟩).val.year = -2147483648 := by
  decide +kernel

/-- the specification is not vacuous: "%a, " and "%b %%" reach strftime as two runs, the rest is
rendered by the library -/
example : Lex.segs exLookup 1709263798 500000000000000 20 none (ofString "%a, %d %b %%%Y %E5S") =
    [.lit [], .lit [], .run (ofString "%a, "), .lit (ofString "29"), .lit (ofString " "), .lit [],
     .run (ofString "%b %%"), .lit (ofString "2024"), .lit (ofString " "), .lit [],
     .lit (ofString "58.50000")] := by decide +kernel

example : Lex.formatSpec exEcho (Cctz.Format.toTM exLookup).val (ofString "%a, %d %b %%%Y %E5S") exLookup
    1709263798 500000000000000 = ofString "%a, 29 %b %%2024 58.50000" := by decide +kernel

/-- … and the model computes the same, with no flag raised -/
example :
    (Cctz.Format.format exEcho (ofString "%a, %d %b %%%Y %E5S") exLookup 1709263798 500000000000000).val =
      ofString "%a, 29 %b %%2024 58.50000" ∧
    (Cctz.Format.format exEcho (ofString "%a, %d %b %%%Y %E5S") exLookup 1709263798 500000000000000).flags =
      Flags.none := by decide +kernel

/-- week numbers, weekday numbers, `%e`, the shortest offset form, fractions, an unknown conversion
and a lone percent sign at the end -/
example : Lex.formatSpec exEcho (Cctz.Format.toTM exLookup).val (ofString "%U|%W|%u|%w|%e|%:::z|%E*f|%E20f|%Q%")
    exLookup 1709263798 500000000000000 = ofString "08|09|4|4|29|-03:30|5|500000000000000000|%Q%" := by
  decide +kernel

end Cctz.C08Lex
