/-
  C11 — next/prev_transition enumerate exactly the zone's real changes (table level).
-/
import Cctz.Model.Tz
import Cctz.Spec.TableSem
import Cctz.Proofs.Transitions

namespace Cctz.C11
open Cctz Cctz.Tz Cctz.Spec

/-- next_transition(t): the earliest real change strictly after `t`, or none when there is none -/
def nextTransition_statement : Prop :=
  ∀ (z : Zone) (t : Int), TableWF z →
    (nextTransition z t).flags.oob = false ∧
    match (nextTransition z t).val with
    | none => ∀ i, RealChange z i → (trn z i).unixTime ≤ t
    | some r => ∃ i, RealChange z i ∧ t < (trn z i).unixTime ∧ r = reportOf z i ∧
        ∀ j, RealChange z j → t < (trn z j).unixTime → (trn z i).unixTime ≤ (trn z j).unixTime

/-- prev_transition(t): the latest real change strictly before `t`, or none -/
def prevTransition_statement : Prop :=
  ∀ (z : Zone) (t : Int), TableWF z →
    (prevTransition z t).flags.oob = false ∧
    match (prevTransition z t).val with
    | none => ∀ i, RealChange z i → t ≤ (trn z i).unixTime
    | some r => ∃ i, RealChange z i ∧ (trn z i).unixTime < t ∧ r = reportOf z i ∧
        ∀ j, RealChange z j → (trn z j).unixTime < t → (trn z j).unixTime ≤ (trn z i).unixTime

/-- at the ends of the range nothing is reported (table times are int64 values) -/
def ends_statement : Prop :=
  ∀ (z : Zone), TableWF z → (∀ i, i < z.transitions.size → inI64 (trn z i).unixTime) →
    (nextTransition z i64max).val = none ∧ (prevTransition z i64min).val = none

/-- a zone without real changes always answers none -/
def no_change_statement : Prop :=
  ∀ (z : Zone) (t : Int), TableWF z → (∀ i, ¬ RealChange z i) →
    (nextTransition z t).val = none ∧ (prevTransition z t).val = none

/-- consecutive answers chain: the change reported by next_transition(t) is the one
prev_transition reports from any instant after it up to the following real change -/
def chain_statement : Prop :=
  ∀ (z : Zone) (t : Int) (r : Fields × Fields), TableWF z → (nextTransition z t).val = some r →
    ∃ i, RealChange z i ∧ r = reportOf z i ∧ (prevTransition z ((trn z i).unixTime + 1)).val = some r

/-- the big-bang bound used by the code is the documented -2^59 -/
def constants_statement : Prop := Gen.bigBang = -576460752303423488

/-! ### proofs (helper lemmas in `Cctz/Proofs/TbSearch.lean`, `TbCivilOob.lean`, `Transitions.lean`) -/

theorem nextTransition_spec : nextTransition_statement := by
  intro z t wf
  obtain ⟨hv, hf⟩ := Tb.nextTransition_char wf t
  obtain ⟨k1, k2, k3⟩ := Tb.nextIdx_spec wf t
  refine ⟨hf, ?_⟩
  rw [hv]
  by_cases hk : Tb.nextIdx z t = z.transitions.size
  · rw [if_pos hk]
    intro i hi
    by_cases h : t < (trn z i).unixTime
    · have := k2 i hi h
      have := hi.1
      omega
    · omega
  · rw [if_neg hk]
    have hk' : Tb.nextIdx z t < z.transitions.size := by omega
    obtain ⟨r1, r2⟩ := k3 hk'
    refine ⟨Tb.nextIdx z t, r1, r2, rfl, ?_⟩
    intro j hj ht
    exact Tb.time_mono wf (k2 j hj ht) hj.1

theorem prevTransition_spec : prevTransition_statement := by
  intro z t wf
  obtain ⟨hv, hf⟩ := Tb.prevTransition_char wf t
  obtain ⟨k0, k1, k2, k3⟩ := Tb.prevIdx_spec wf t
  refine ⟨hf, ?_⟩
  rw [hv]
  by_cases hk : Tb.prevIdx z t = Tb.beginIdx z
  · rw [if_pos hk]
    intro i hi
    by_cases h : (trn z i).unixTime < t
    · have := k2 i hi h
      have := ((Tb.realChange_iff i).1 hi).2.1
      omega
    · omega
  · rw [if_neg hk]
    have hk' : Tb.beginIdx z < Tb.prevIdx z t := by omega
    obtain ⟨r1, r2⟩ := k3 hk'
    refine ⟨Tb.prevIdx z t - 1, r1, r2, rfl, ?_⟩
    intro j hj ht
    have := k2 j hj ht
    exact Tb.time_mono wf (by omega) r1.1

theorem ends : ends_statement := by
  intro z wf hr
  constructor
  · have h := (nextTransition_spec z i64max wf).2
    cases hv : (nextTransition z i64max).val with
    | none => rfl
    | some r =>
      rw [hv] at h
      obtain ⟨i, hi, ht, _⟩ := h
      have := (hr i hi.1).2
      omega
  · have h := (prevTransition_spec z i64min wf).2
    cases hv : (prevTransition z i64min).val with
    | none => rfl
    | some r =>
      rw [hv] at h
      obtain ⟨i, hi, ht, _⟩ := h
      have := (hr i hi.1).1
      omega

theorem no_change : no_change_statement := by
  intro z t wf hno
  constructor
  · have h := (nextTransition_spec z t wf).2
    cases hv : (nextTransition z t).val with
    | none => rfl
    | some r =>
      rw [hv] at h
      obtain ⟨i, hi, _⟩ := h
      exact absurd hi (hno i)
  · have h := (prevTransition_spec z t wf).2
    cases hv : (prevTransition z t).val with
    | none => rfl
    | some r =>
      rw [hv] at h
      obtain ⟨i, hi, _⟩ := h
      exact absurd hi (hno i)

theorem chain : chain_statement := by
  intro z t r wf hnext
  have h := (nextTransition_spec z t wf).2
  rw [hnext] at h
  obtain ⟨i, hi, _, hr, _⟩ := h
  refine ⟨i, hi, hr, ?_⟩
  have hp := (prevTransition_spec z ((trn z i).unixTime + 1) wf).2
  cases hv : (prevTransition z ((trn z i).unixTime + 1)).val with
  | none =>
    rw [hv] at hp
    have := hp i hi
    omega
  | some r' =>
    rw [hv] at hp
    obtain ⟨i', hi', ht', hr', hmax⟩ := hp
    have h1 := hmax i hi (by omega)
    have heq : i = i' := by
      rcases Nat.lt_trichotomy i i' with hlt | heq | hgt
      · have := wf.timeSorted i i' hlt hi'.1; omega
      · exact heq
      · have := wf.timeSorted i' i hgt hi.1; omega
    subst heq
    rw [hr', hr]

theorem constants : constants_statement := rfl

/-! the hypotheses are satisfiable on a non-trivial table, and the conclusions say what is meant:
a big-bang sentinel, a change at 10, a no-op entry at 20 (same type again), a change at 30 -/
def exZone : Zone :=
  { transitions := #[
      { unixTime := -576460752303423488, typeIndex := 1 },
      { unixTime := 10, typeIndex := 0, civilSec := ⟨1970, 1, 1, 0, 0, 10⟩, prevCivilSec := ⟨1970, 1, 1, 1, 0, 9⟩ },
      { unixTime := 20, typeIndex := 0, civilSec := ⟨1970, 1, 1, 0, 0, 20⟩, prevCivilSec := ⟨1970, 1, 1, 0, 0, 19⟩ },
      { unixTime := 30, typeIndex := 1, civilSec := ⟨1970, 1, 1, 1, 0, 30⟩, prevCivilSec := ⟨1970, 1, 1, 0, 0, 29⟩ }],
    types := #[{ utcOffset := 0, isDst := false, abbrIndex := 0 }, { utcOffset := 3600, isDst := true, abbrIndex := 4 }],
    defaultType := 0, abbreviations := [85, 84, 67, 0, 68, 83, 84, 0] }

theorem exZone_wf : TableWF exZone where
  nonempty := by decide
  timeSorted := by
    intro i j hij hj
    have hj' : j < 4 := hj
    have : (i = 0 ∧ j = 1) ∨ (i = 0 ∧ j = 2) ∨ (i = 0 ∧ j = 3) ∨ (i = 1 ∧ j = 2) ∨ (i = 1 ∧ j = 3) ∨
        (i = 2 ∧ j = 3) := by omega
    rcases this with ⟨rfl, rfl⟩ | ⟨rfl, rfl⟩ | ⟨rfl, rfl⟩ | ⟨rfl, rfl⟩ | ⟨rfl, rfl⟩ | ⟨rfl, rfl⟩ <;> decide
  typeIdx := by
    intro i hi
    have hi' : i < 4 := hi
    have : i = 0 ∨ i = 1 ∨ i = 2 ∨ i = 3 := by omega
    rcases this with rfl | rfl | rfl | rfl <;> decide
  defaultIdx := by decide

example : RealChange exZone 1 ∧ RealChange exZone 3 ∧ ¬ RealChange exZone 0 ∧ ¬ RealChange exZone 2 := by
  unfold RealChange sameType prevType; decide
example : (nextTransition exZone 0).val = some (reportOf exZone 1) := by decide
example : (nextTransition exZone 10).val = some (reportOf exZone 3) := by decide
example : (nextTransition exZone 30).val = none := by decide
example : (prevTransition exZone 30).val = some (reportOf exZone 1) := by decide
example : (prevTransition exZone 31).val = some (reportOf exZone 3) := by decide
example : (prevTransition exZone 10).val = none := by decide
example : ∀ i, i < exZone.transitions.size → inI64 (trn exZone i).unixTime := by
  intro i hi
  have hi' : i < 4 := hi
  have : i = 0 ∨ i = 1 ∨ i = 2 ∨ i = 3 := by omega
  rcases this with rfl | rfl | rfl | rfl <;> decide

/-- a table consisting of the sentinel only has no real change -/
def exFixed : Zone :=
  { transitions := #[{ unixTime := -576460752303423488, typeIndex := 0 }],
    types := #[{ utcOffset := 0, isDst := false, abbrIndex := 0 }],
    defaultType := 0, abbreviations := [85, 84, 67, 0] }

example : TableWF exFixed ∧ ∀ i, ¬ RealChange exFixed i := by
  refine ⟨⟨by decide, ?_, ?_, by decide⟩, ?_⟩
  · intro i j hij hj
    have hj' : j < 1 := hj
    omega
  · intro i hi
    have hi' : i < 1 := hi
    have : i = 0 := by omega
    subst this; decide
  · intro i hi
    have hi' : i < 1 := hi.1
    have : i = 0 := by omega
    subst this
    exact hi.2.1 ⟨rfl, by decide⟩

end Cctz.C11
