/-
  C11 — next/prev_transition enumerate exactly the zone's real changes (table level).
-/
import Cctz.Model.Tz
import Cctz.Spec.TableSem
import Cctz.Proofs.Transitions

namespace Cctz.C11
open Cctz Cctz.Tz Cctz.Spec

/-- next_transition(t): the earliest real change strictly after `t`, or none when there is none -/
def nextTransition_statement : Prop :=
  ∀ (z : Zone) (t : Int), TableWF z →
    (nextTransition z t).flags.oob = false ∧
    match (nextTransition z t).val with
    | none => ∀ i, RealChange z i → (trn z i).unixTime ≤ t
    | some r => ∃ i, RealChange z i ∧ t < (trn z i).unixTime ∧ r = reportOf z i ∧
        ∀ j, RealChange z j → t < (trn z j).unixTime → (trn z i).unixTime ≤ (trn z j).unixTime

/-- prev_transition(t): the latest real change strictly before `t`, or none -/
def prevTransition_statement : Prop :=
  ∀ (z : Zone) (t : Int), TableWF z →
    (prevTransition z t).flags.oob = false ∧
    match (prevTransition z t).val with
    | none => ∀ i, RealChange z i → t ≤ (trn z i).unixTime
    | some r => ∃ i, RealChange z i ∧ (trn z i).unixTime < t ∧ r = reportOf z i ∧
        ∀ j, RealChange z j → (trn z j).unixTime < t → (trn z j).unixTime ≤ (trn z i).unixTime

/-- at the ends of the range nothing is reported (table times are int64 values) -/
def ends_statement : Prop :=
  ∀ (z : Zone), TableWF z → (∀ i, i < z.transitions.size → inI64 (trn z i).unixTime) →
    (nextTransition z i64max).val = none ∧ (prevTransition z i64min).val = none

/-- a zone without real changes always answers none -/
def no_change_statement : Prop :=
  ∀ (z : Zone) (t : Int), TableWF z → (∀ i, ¬ RealChange z i) →
    (nextTransition z t).val = none ∧ (prevTransition z t).val = none

/-- consecutive answers chain: the change reported by next_transition(t) is the one
prev_transition reports from any instant after it up to the following real change -/
def chain_statement : Prop :=
  ∀ (z : Zone) (t : Int) (r : Fields × Fields), TableWF z → (nextTransition z t).val = some r →
    ∃ i, RealChange z i ∧ r = reportOf z i ∧ (prevTransition z ((trn z i).unixTime + 1)).val = some r

/-- the big-bang bound used by the code is the documented -2^59 -/
def constants_statement : Prop := Gen.bigBang = -576460752303423488

end Cctz.C11
