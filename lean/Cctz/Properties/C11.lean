import Cctz.Model.Tz
namespace Cctz.C11
end Cctz.C11
