/-
  C07 (continued) — the whole-string round trip for the canonical lossless format
  "%Y-%m-%d%ET%H:%M:%E*S%E*z" (RFC 3339 with full-resolution seconds and offset), and
  C18's rendering clause: fractional-second fields are truncated, never rounded.
-/
import Cctz.Model.Parse
import Cctz.Spec.FormatSpec
import Cctz.Spec.TableSem
import Cctz.Proofs.WholeRoundTrip

namespace Cctz.C07Whole
open Cctz Cctz.Bytes Cctz.Format Cctz.Parse Cctz.Spec

def fmtFull : Bytes := ofString "%Y-%m-%d%ET%H:%M:%E*S%E*z"

/-- format then parse returns the original instant and femtoseconds: for every lookup result that
shows the civil second of instant `t` under an offset strictly inside ±24 h (what `lookup(t)`
reports in any zone — theorem C01), every femtosecond remainder, any strftime/strptime, and ANY
zone handed to parse (the offset in the text decides) -/
def full_roundtrip_statement : Prop :=
  ∀ (al : Tz.AbsLookup) (t fs : Int) (z' : Tz.Zone) (sf : Strftime) (sp : Strptime),
    Valid al.cs → secNum al.cs = t + al.offset → -86400 < al.offset → al.offset < 86400 →
    inI64 t → i64min + 86400 ≤ t → t ≤ i64max - 86400 → 0 ≤ fs → fs < 1000000000000000 →
    let text := render sf (formatSegs fmtFull al t fs).val.1 (formatSegs fmtFull al t fs).val.2
    (parse sp fmtFull text z').val.1 = .ok t fs

/-- C18: `%E<n>f` renders the first n digits of the femtosecond remainder, truncated (n ≤ 15) -/
def frac_truncated_statement : Prop :=
  ∀ (n : Nat) (al : Tz.AbsLookup) (t fs : Int), 1 ≤ n → n ≤ 15 → 0 ≤ fs → fs < 1000000000000000 →
    let fmt := [37, 69] ++ decNat n ++ [102]      -- "%E<n>f"
    render (fun _ _ => []) (formatSegs fmt al t fs).val.1 (formatSegs fmt al t fs).val.2 = fracDigits n fs

/-- … and `%E*f` / `%E*S` render it with trailing zeros removed, i.e. exactly (no rounding at all) -/
def frac_star_statement : Prop :=
  ∀ (al : Tz.AbsLookup) (t fs : Int), 0 ≤ fs → fs < 1000000000000000 →
    render (fun _ _ => []) (formatSegs (ofString "%E*f") al t fs).val.1 (formatSegs (ofString "%E*f") al t fs).val.2
      = (if fracStar fs = [] then [48] else fracStar fs)

/-! ## Proofs (helper lemmas in `Cctz/Proofs/WholeRoundTrip.lean` and `Cctz/Proofs/Wr*.lean`) -/

theorem frac_star : frac_star_statement := by
  intro al t fs h0 _
  exact Wr.starf_render al t fs h0

/-! hypotheses satisfiable: 0.25 s renders "25", nothing renders "0" -/
example : (0 : Int) ≤ 250000000000000 ∧ (250000000000000 : Int) < 1000000000000000 ∧
    (if fracStar 250000000000000 = [] then [48] else fracStar 250000000000000) = ofString "25" ∧
    (if fracStar 0 = [] then [48] else fracStar 0) = ofString "0" := by decide +kernel

theorem frac_truncated : frac_truncated_statement := by
  intro n al t fs hn1 hn h0 _
  exact Wr.Enf_all n al t fs hn1 hn h0

/-! hypotheses satisfiable: 0.999999999999999 s with three digits is "999", not "1000" -/
example : 1 ≤ 3 ∧ 3 ≤ 15 ∧ (0 : Int) ≤ 999999999999999 ∧ (999999999999999 : Int) < 1000000000000000 ∧
    fracDigits 3 999999999999999 = ofString "999" := by decide +kernel

theorem full_roundtrip : full_roundtrip_statement := by
  intro al t fs z' sf sp hv hsec ho1 ho2 _ ht1 ht2 h0 h1
  exact Wr.full_roundtrip al t fs z' sf sp hv hsec ho1 ho2 ht1 ht2 h0 h1

/-! hypotheses satisfiable: 2024-02-29 23:59:58.5 at UTC-03:30:15 is the instant 1709263813; the text
is "2024-02-29T23:59:58.5-03:30:15" and parse (in any zone; here an empty table) reads it back -/
example : Valid ⟨2024, 2, 29, 23, 59, 58⟩ ∧ secNum ⟨2024, 2, 29, 23, 59, 58⟩ = 1709263813 + -12615 ∧
    (-86400 : Int) < -12615 ∧ (-12615 : Int) < 86400 ∧ inI64 1709263813 ∧ i64min + 86400 ≤ 1709263813 ∧
    (1709263813 : Int) ≤ i64max - 86400 ∧ (0 : Int) ≤ 500000000000000 ∧ (500000000000000 : Int) < 1000000000000000 := by
  decide +kernel
example :
    let al : Tz.AbsLookup := ⟨⟨2024, 2, 29, 23, 59, 58⟩, -12615, false, ofString "X"⟩
    let text := render (fun _ _ => []) (formatSegs fmtFull al 1709263813 500000000000000).val.1
      (formatSegs fmtFull al 1709263813 500000000000000).val.2
    text = ofString "2024-02-29T23:59:58.5-03:30:15" ∧
    (parse (fun _ _ _ => none) fmtFull text {}).val.1 = .ok 1709263813 500000000000000 := by
  decide +kernel

end Cctz.C07Whole
