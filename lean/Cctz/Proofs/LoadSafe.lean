/-
  C12 helper proofs, part 1: the "flag algebra" (memory-safety of a `Ck` computation is preserved
  by bind, `chk64`, `pure`), and memory-safety of every civil-time function the zone code calls
  (`civilAdd/civilSub/civilNew/difference` at second granularity, `getWeekday` on a valid month).

  `Wd.Safe x` (no oob / fuel / unset flag, from Cctz/Proofs/WdInt.lean) is the same notion as
  `Spec.MemSafe x.flags`; the loop lemmas below are safety-only versions (no hypothesis on the
  day count) of the loop specs of Cctz/Proofs/WdNDay.lean.
-/
import Cctz.Model.Tz
import Cctz.Spec.TableSem
import Cctz.Proofs.WdNDay

namespace Cctz.Ld
open Cctz Cctz.Wd

/-! ### flag algebra -/

theorem memSafe_iff_safe (x : Ck α) : Spec.MemSafe x.flags ↔ Safe x := by
  unfold Spec.MemSafe Safe
  constructor
  · rintro ⟨a, b, c⟩; exact ⟨a, c, b⟩
  · rintro ⟨a, b, c⟩; exact ⟨a, c, b⟩

theorem memSafe_bind (x : Ck α) (f : α → Ck β) :
    Spec.MemSafe (x >>= f).flags ↔ Spec.MemSafe x.flags ∧ Spec.MemSafe (f x.val).flags := by
  simp only [memSafe_iff_safe, safe_bind]

theorem memSafe_pure (a : α) : Spec.MemSafe (pure a : Ck α).flags := ⟨rfl, rfl, rfl⟩
theorem memSafe_chk64 (x : Int) : Spec.MemSafe (chk64 x).flags := ⟨rfl, rfl, rfl⟩

/-- bind when the continuation is safe for every value -/
theorem safe_bind_all {x : Ck α} {f : α → Ck β} (hx : Safe x) (hf : ∀ a, Safe (f a)) :
    Safe (x >>= f) := (safe_bind x f).2 ⟨hx, hf _⟩

theorem safe_bind'_all {x : Ck α} {f : α → Ck β} (hx : Safe x) (hf : ∀ a, Safe (f a)) :
    Safe (x.bind' f) := (safe_bind x f).2 ⟨hx, hf _⟩

/-- bind when the continuation is safe for the values satisfying what `x` establishes -/
theorem safe_bind_of {x : Ck α} {f : α → Ck β} (P : α → Prop) (hx : Holds x P)
    (hf : ∀ a, P a → Safe (f a)) : Safe (x >>= f) := (safe_bind x f).2 ⟨hx.1, hf _ hx.2⟩

theorem safe_bind'_of {x : Ck α} {f : α → Ck β} (P : α → Prop) (hx : Holds x P)
    (hf : ∀ a, P a → Safe (f a)) : Safe (x.bind' f) := safe_bind_of P hx hf

theorem safe_ite {c : Prop} [Decidable c] {x y : Ck α} (hx : c → Safe x) (hy : ¬ c → Safe y) :
    Safe (if c then x else y) := by
  split
  · exact hx ‹_›
  · exact hy ‹_›

theorem safe_of_holds {x : Ck α} {P : α → Prop} (h : Holds x P) : Safe x := h.1

theorem holds_of_safe {x : Ck α} (h : Safe x) : Holds x (fun _ => True) := ⟨h, trivial⟩

theorem holds_val {x : Ck α} (h : Safe x) : Holds x (fun a => a = x.val) := ⟨h, rfl⟩

theorem holds_and {x : Ck α} {P Q : α → Prop} (h1 : Holds x P) (h2 : Q x.val) :
    Holds x (fun a => P a ∧ Q a) := ⟨h1.1, h1.2, h2⟩

theorem safe_getC (a : List α) (i : Int) (d : α) (h : 0 ≤ i ∧ i < a.length) : Safe (getC a i d) :=
  safe_of_ok _ ((getC_ok a i d).2 h)

/-- peel one bind whose continuation is safe for every value (the common case) -/
macro "safe_step" : tactic => `(tactic| first
  | exact safe_pure _
  | exact safe_chk64 _
  | assumption
  | (refine safe_bind_all ?_ ?_)
  | (refine safe_bind'_all ?_ ?_)
  | (refine (safe_map _ _).2 ?_))

/-- peel binds, introducing the bound values, as long as the pieces are closed by `safe_step` -/
macro "safe_auto" : tactic => `(tactic| repeat (first | safe_step | intro _))

/-! ### the chunk loops of `n_day` never raise a memory flag -/

theorem centuryLoop_safe (ey d yi : Int) : Safe (Civil.centuryLoop ey d yi) := by
  fun_induction Civil.centuryLoop ey d yi with
  | case1 ey d yi n h => exact safe_pure _
  | case2 ey d yi n h ih =>
    refine safe_bind'_all (safe_chk64 _) fun _ => ?_
    refine safe_bind'_all (safe_chk64 _) fun ey' => ?_
    exact ih ey'

theorem fourLoop_safe (ey d yi : Int) : Safe (Civil.fourLoop ey d yi) := by
  fun_induction Civil.fourLoop ey d yi with
  | case1 ey d yi n h => exact safe_pure _
  | case2 ey d yi n h ih =>
    refine safe_bind'_all (safe_chk64 _) fun _ => ?_
    refine safe_bind'_all (safe_chk64 _) fun ey' => ?_
    exact ih ey'

theorem yearLoop_safe (m ey d : Int) : Safe (Civil.yearLoop m ey d) := by
  fun_induction Civil.yearLoop m ey d with
  | case1 ey d h =>
    exact safe_bind'_all (daysPerYear_safe _ _) fun _ => safe_pure _
  | case2 ey d h ih =>
    refine safe_bind'_all (daysPerYear_safe _ _) fun _ => ?_
    refine safe_bind'_all (safe_chk64 _) fun _ => ?_
    refine safe_bind'_all (safe_chk64 _) fun ey' => ?_
    exact ih ey'

theorem monthLoop_safe (ey m d : Int) (h1 : 1 ≤ m) (h2 : m ≤ 12) : Safe (Civil.monthLoop ey m d) := by
  fun_induction Civil.monthLoop ey m d with
  | case1 ey m d h =>
    exact safe_bind'_all (daysPerMonth_safe _ _ h1 h2) fun _ => safe_pure _
  | case2 ey m d h hn =>
    rw [daysPerMonth_val _ _ h1 h2] at hn
    have := daysInMonth_bounds ey m
    omega
  | case3 ey m d h hn ih1 ih2 =>
    refine safe_bind'_all (daysPerMonth_safe _ _ h1 h2) fun _ => ?_
    refine safe_bind'_all (safe_chk64 _) fun _ => ?_
    split
    · refine safe_bind'_all (safe_chk64 _) fun ey' => ?_
      exact ih1 ey' (by omega) (by omega)
    · exact ih2 (by omega) (by omega)

/-! ### the normalisers -/

theorem nDay_safe (y m d cd hh mm ss : Int) (h1 : 1 ≤ m) (h2 : m ≤ 12) :
    Safe (Civil.nDay y m d cd hh mm ss) := by
  unfold Civil.nDay
  dsimp only
  refine safe_bind_all (safe_chk64 _) fun _ => ?_
  refine safe_bind_all (safe_chk64 _) fun _ => ?_
  refine safe_bind_all ?_ ?_
  · split
    · safe_auto
    · exact safe_pure _
  rintro ⟨ey2, cd2⟩
  dsimp only
  refine safe_bind_all (safe_chk64 _) fun _ => ?_
  refine safe_bind_all (safe_chk64 _) fun _ => ?_
  refine safe_bind_all (safe_chk64 _) fun d1 => ?_
  refine safe_bind_all ?_ ?_
  · split
    · split
      · exact safe_bind_all (safe_chk64 _) fun _ => safe_bind_all (safe_chk64 _) fun _ => safe_pure _
      · exact safe_pure _
    · split
      · refine safe_bind_all (safe_chk64 _) fun _ => ?_
        refine safe_bind_all (daysPerYear_safe _ _) fun _ => ?_
        exact safe_bind_all (safe_chk64 _) fun _ => safe_pure _
      · exact safe_bind_all (safe_chk64 _) fun _ => safe_bind_all (safe_chk64 _) fun _ => safe_pure _
  rintro ⟨ey4, d2⟩
  dsimp only
  refine safe_bind_all ?_ ?_
  · split
    · refine safe_bind_all (yearIndex_safe _ _) fun yi => ?_
      refine safe_bind_all (centuryLoop_safe _ _ _) ?_
      rintro ⟨e1, dd1, yi1⟩
      dsimp only
      refine safe_bind_all (fourLoop_safe _ _ _) ?_
      rintro ⟨e2, dd2, yi2⟩
      exact yearLoop_safe _ _ _
    · exact safe_pure _
  rintro ⟨ey5, d3⟩
  dsimp only
  refine safe_bind_all ?_ ?_
  · split
    · exact monthLoop_safe _ _ _ h1 h2
    · exact safe_pure _
  rintro ⟨ey6, m1, d4⟩
  dsimp only
  exact safe_bind_all (safe_chk64 _) fun _ => safe_bind_all (safe_chk64 _) fun _ => safe_pure _

theorem cmod12_range (m : Int) : -12 < cmod m 12 ∧ cmod m 12 < 12 := by
  rw [cmod_eq]; split <;> omega

theorem nMon_safe (y m d cd hh mm ss : Int) : Safe (Civil.nMon y m d cd hh mm ss) := by
  unfold Civil.nMon
  have := cmod12_range m
  split
  · refine safe_bind_all (safe_chk64 _) fun y1 => ?_
    dsimp only
    split
    · refine safe_bind_all (safe_chk64 _) fun y2 => ?_
      refine safe_bind_of (fun a => a = cmod m 12 + 12) (holds_chk64 _) ?_
      rintro _ rfl
      exact nDay_safe _ _ _ _ _ _ _ (by omega) (by omega)
    · exact nDay_safe _ _ _ _ _ _ _ (by omega) (by omega)
  · rename_i h
    have : m = 12 := by simpa using h
    subst this
    exact nDay_safe _ _ _ _ _ _ _ (by omega) (by omega)

theorem nHour_safe (y m d cd hh mm ss : Int) : Safe (Civil.nHour y m d cd hh mm ss) := by
  unfold Civil.nHour
  refine safe_bind_all (safe_chk64 _) fun _ => ?_
  dsimp only
  split
  · exact safe_bind_all (safe_chk64 _) fun _ => safe_bind_all (safe_chk64 _) fun _ => nMon_safe ..
  · exact nMon_safe ..

theorem nMin_safe (y m d hh ch mm ss : Int) : Safe (Civil.nMin y m d hh ch mm ss) := by
  unfold Civil.nMin
  refine safe_bind_all (safe_chk64 _) fun _ => ?_
  dsimp only
  refine safe_bind_all ?_ ?_
  · split
    · exact safe_bind_all (safe_chk64 _) fun _ => safe_bind_all (safe_chk64 _) fun _ => safe_pure _
    · exact safe_pure _
  rintro ⟨a, b⟩
  dsimp only
  exact safe_bind_all (safe_chk64 _) fun _ => safe_bind_all (safe_chk64 _) fun _ => nHour_safe ..

theorem nSec_safe (y m d hh mm ss : Int) : Safe (Civil.nSec y m d hh mm ss) := by
  unfold Civil.nSec
  split
  · split
    · split
      · split
        · exact safe_pure _
        · exact nMon_safe ..
      · exact nHour_safe ..
    · exact nMin_safe ..
  · dsimp only
    refine safe_bind_all ?_ ?_
    · split
      · exact safe_bind_all (safe_chk64 _) fun _ => safe_bind_all (safe_chk64 _) fun _ => safe_pure _
      · exact safe_pure _
    rintro ⟨a, b⟩
    dsimp only
    exact safe_bind_all (safe_chk64 _) fun _ => safe_bind_all (safe_chk64 _) fun _ => nMin_safe ..

/-! ### second-granularity civil arithmetic -/

theorem step_second_safe (f : Fields) (n : Int) : Safe (Civil.step .second f n) := by
  unfold Civil.step
  exact safe_bind_all (safe_chk64 _) fun _ => safe_bind_all (safe_chk64 _) fun _ => nSec_safe ..

theorem civilAdd_safe (f : Fields) (n : Int) : Safe (Civil.civilAdd .second f n) :=
  (safe_map _ _).2 (step_second_safe f n)

theorem civilNew_safe (y m d hh mm ss : Int) : Safe (Civil.civilNew .second y m d hh mm ss) :=
  (safe_map _ _).2 (nSec_safe ..)

theorem civilSub_safe (f : Fields) (n : Int) : Safe (Civil.civilSub .second f n) := by
  unfold Civil.civilSub
  split
  · exact safe_bind_all (safe_chk64 _) fun _ => (safe_map _ _).2 (step_second_safe ..)
  · refine safe_bind_all (safe_chk64 _) fun _ => ?_
    refine safe_bind_all (safe_chk64 _) fun _ => ?_
    exact safe_bind_all (step_second_safe ..) fun _ => (safe_map _ _).2 (step_second_safe ..)

theorem scaleAdd_safe (v f a : Int) : Safe (Civil.scaleAdd v f a) := by
  unfold Civil.scaleAdd
  split <;>
    exact safe_bind_all (safe_chk64 _) fun _ => safe_bind_all (safe_chk64 _) fun _ =>
      safe_bind_all (safe_chk64 _) fun _ => safe_chk64 _

theorem ymdOrd_safe (y m d : Int) : Safe (Civil.ymdOrd y m d) := by
  unfold Civil.ymdOrd
  refine safe_bind_all (by split <;> first | exact safe_chk64 _ | exact safe_pure _) fun _ => ?_
  refine safe_bind_all (by split <;> first | exact safe_chk64 _ | exact safe_pure _) fun _ => ?_
  dsimp only
  repeat (refine safe_bind_all (safe_chk64 _) fun _ => ?_)
  exact safe_chk64 _

theorem dayDifference_safe (y1 m1 d1 y2 m2 d2 : Int) : Safe (Civil.dayDifference y1 m1 d1 y2 m2 d2) := by
  unfold Civil.dayDifference
  dsimp only
  refine safe_bind_all (safe_chk64 _) fun _ => ?_
  refine safe_bind_all (safe_chk64 _) fun _ => ?_
  refine safe_bind_all (safe_chk64 _) fun _ => ?_
  refine safe_bind_all (ymdOrd_safe ..) fun _ => ?_
  refine safe_bind_all (ymdOrd_safe ..) fun _ => ?_
  refine safe_bind_all (safe_chk64 _) fun _ => ?_
  refine safe_bind_all ?_ ?_
  · split
    · exact safe_bind_all (safe_chk64 _) fun _ => safe_bind_all (safe_chk64 _) fun _ => safe_pure _
    · split
      · exact safe_bind_all (safe_chk64 _) fun _ => safe_bind_all (safe_chk64 _) fun _ => safe_pure _
      · exact safe_pure _
  rintro ⟨a, b⟩
  dsimp only
  exact safe_bind_all (safe_chk64 _) fun _ => safe_chk64 _

theorem difference_safe (f1 f2 : Fields) : Safe (Civil.difference .second f1 f2) := by
  unfold Civil.difference
  refine safe_bind_all (dayDifference_safe ..) fun _ => ?_
  refine safe_bind_all (scaleAdd_safe ..) fun _ => ?_
  exact safe_bind_all (scaleAdd_safe ..) fun _ => scaleAdd_safe ..

theorem cmod7_range (a : Int) : -7 < cmod a 7 ∧ cmod a 7 < 7 := by
  rw [cmod_eq]; split <;> omega

theorem getWeekday_safe (f : Fields) (h1 : 1 ≤ f.m) (h2 : f.m ≤ 12) : Safe (Civil.getWeekday f) := by
  unfold Civil.getWeekday
  dsimp only
  refine safe_bind_all (safe_getC _ _ _ ?_) fun off => ?_
  · simp [Gen.kWeekdayOffsets]; omega
  · refine safe_getC _ _ _ ?_
    have := cmod7_range (2400 + cmod f.y 400 - b2i (decide (f.m < 3)) +
      (cdiv (2400 + cmod f.y 400 - b2i (decide (f.m < 3))) 4 -
        cdiv (2400 + cmod f.y 400 - b2i (decide (f.m < 3))) 100 +
        cdiv (2400 + cmod f.y 400 - b2i (decide (f.m < 3))) 400) + (off + f.d))
    simp [Gen.kWeekdayByMonOff]; omega

/-- `civilNew .second y 1 1 0 0 0` is `y-01-01 00:00:00` -/
theorem civilNew_jan1_val (y : Int) : (Civil.civilNew .second y 1 1 0 0 0).val = ⟨y, 1, 1, 0, 0, 0⟩ := by
  simp [Civil.civilNew, Civil.nSec, Civil.align]

end Cctz.Ld
