/-
  `SeamAt` for the tables `ExtendTransitions` builds: recorded entries followed by the rule
  instants of the years y0 … y0+401 (column-wise, as in `C01Glue.ExtendedKeys`), `lastYear = y0+401`.
  It holds when every rule instant lies, on both clocks of the rule, inside the civil year it is
  computed for (`InYear`) — which is what fails for a footer like `J1` at `-1` (the file
  `Seam.newYearTzif`).
-/
import Cctz.Proofs.SeamDefs
import Cctz.Proofs.SeamSem
import Cctz.Proofs.RuleGlue
import Cctz.Proofs.TcSeg

namespace Cctz.Seam
open Cctz Cctz.Tz Cctz.Spec Cctz.Rg

/-- every instant of the rule lies, on the standard and on the daylight clock, inside the civil
year it is computed for -/
def InYear (s e : Int → Int) (stdOff dstOff : Int) : Prop :=
  ∀ y a, Inst s e y a →
    yearStart y ≤ a + stdOff ∧ yearStart y ≤ a + dstOff ∧
    a + stdOff ≤ yearStart (y + 1) ∧ a + dstOff ≤ yearStart (y + 1)

theorem offAt_typeAt (z : Zone) (t : Int) : offAt z t = (typ z (typeAt z t)).utcOffset := rfl

section
variable {z : Zone} (wf : TableWF z) {rec : List Transition} (hrec : rec ≠ [])
  {s e : Int → Int} (ps : Per s) (pe : Per e) {dstTi stdTi : Nat} {y0 : Int}
  {gen : List Transition} (hl : z.transitions.toList = rec ++ gen)
  (hkeys : gen.map key = (genList s e dstTi stdTi (lastTime rec) y0).map key)
  (rg : Reg s e y0 (lastTime rec))
include wf hl

/-- entries of the recorded part are at or before its last entry -/
theorem rec_le (x : Transition) (hx : x ∈ rec) : x.unixTime ≤ lastTime rec := by
  have hne : rec ≠ [] := List.ne_nil_of_mem hx
  have pw := pairwise_of_wf z wf
  rw [hl, List.pairwise_append] at pw
  have := le_getLast rec hne pw.1 x hx
  rw [lastTime_eq rec hne]; exact this

include hkeys ps pe rg

theorem chain_of_table : Chain s e := by
  have pw := pairwise_of_wf z wf
  rw [hl, List.pairwise_append] at pw
  obtain ⟨_, pg, _⟩ := pw
  exact chain_of_sorted ps pe
    (sorted_of_genList s e dstTi stdTi (lastTime rec) y0 (pairwise_of_keys hkeys pg)) rg

end

section
variable {z : Zone} (wf : TableWF z) {rec : List Transition} (hrec : rec ≠ [])
  {s e : Int → Int} (ps : Per s) (pe : Per e) {dstTi stdTi : Nat} {y0 : Int}
  {gen : List Transition} (hl : z.transitions.toList = rec ++ gen)
  (hkeys : gen.map key = (genList s e dstTi stdTi (lastTime rec) y0).map key)
  (rg : Reg s e y0 (lastTime rec)) (c : Chain s e)
  {stdOff dstOff : Int} (hso : (typ z stdTi).utcOffset = stdOff) (hdo : (typ z dstTi).utcOffset = dstOff)

include hkeys hso hdo in
/-- a generated entry switches to one of the rule's two offsets -/
theorem gen_off {x : Transition} (hx : x ∈ gen) :
    (typ z x.typeIndex).utcOffset = stdOff ∨ (typ z x.typeIndex).utcOffset = dstOff := by
  obtain ⟨_, kind, _, _, _, _, hti⟩ := gen_kind hkeys hx
  rw [hti]
  cases kind
  · left; simpa using hso
  · right; simpa using hdo

include wf in
/-- the table entry with a given time is unique -/
theorem trn_of_time {x : Transition} (hx : x ∈ z.transitions.toList) {i : Nat}
    (hi : i < z.transitions.size) (ht : timeOf z i = x.unixTime) : trn z i = x := by
  obtain ⟨j, hj, e⟩ := mem_trn z x hx
  by_cases hij : i = j
  · rw [hij]; exact e
  · exfalso
    rcases Nat.lt_or_gt_of_ne hij with h | h
    · have := wf.timeSorted i j h hj
      unfold timeOf at ht; rw [e] at this; omega
    · have := wf.timeSorted j i h hi
      unfold timeOf at ht; rw [e] at this; omega

include wf hrec hl hkeys rg c in
theorem lastT_rule : lastT z = max (s (y0 + 401)) (e (y0 + 401)) := by
  have := rg.r2 (y0 + 401) (by omega) (by omega)
  exact last_time_eq z wf rec hrec s e dstTi stdTi y0 c gen hl hkeys (by omega)

include wf hrec hl hkeys rg c hso hdo ps pe in
/-- `SeamAt` from the shape of the table and `InYear` -/
theorem seamAt_of_rule
    (hro : (typ z (lastType rec)).utcOffset = stdOff ∨ (typ z (lastType rec)).utcOffset = dstOff)
    (hshow : ∀ u, u < lastTime rec → u + offAt z u < yearStart (y0 + 2))
    (iy : InYear s e stdOff dstOff) : SeamAt z (y0 + 401) := by
  have hn := wf.nonempty
  have hK : k400 = 12622780800 := rfl
  have hlast := lastT_rule wf hrec hl hkeys rg c
  have r401 := rg.r2 (y0 + 401) (by omega) (by omega)
  have r2 := rg.r2 (y0 + 2) (by omega) (by omega)
  have ne401 := c.ne (y0 + 401)
  have ps1 := ps (y0 + 1)
  have pe1 := pe (y0 + 1)
  rw [show y0 + 1 + 400 = y0 + 401 by omega] at ps1 pe1
  have hy1 : yearStart (y0 + 401 + 1) = yearStart (y0 + 2) + k400 := by
    have := yearStart_add_400_mul (y0 + 2) 1
    rw [show y0 + 2 + 400 * 1 = y0 + 401 + 1 by omega] at this
    omega
  have hy2 : yearStart (y0 + 401 - 399) = yearStart (y0 + 2) := by
    rw [show y0 + 401 - 399 = y0 + 2 by omega]
  -- the last entry `xL`, the entry `xW` one cycle earlier (later instant of year y0+1)
  have iL : Inst s e (y0 + 401) (max (s (y0 + 401)) (e (y0 + 401))) := by unfold Inst; omega
  have iW : Inst s e (y0 + 1) (max (s (y0 + 1)) (e (y0 + 1))) := by unfold Inst; omega
  have hWL : lastTime rec < max (s (y0 + 1)) (e (y0 + 1)) := by
    have := rg.r1; omega
  obtain ⟨xL, hxL, exL⟩ := gen_of_inst hkeys (y := y0 + 401) (by omega) (by omega) iL (by omega)
  obtain ⟨xW, hxW, exW⟩ := gen_of_inst hkeys (y := y0 + 1) (by omega) (by omega) iW hWL
  have memL : xL ∈ z.transitions.toList := by rw [hl]; exact List.mem_append_right _ hxL
  have memW : xW ∈ z.transitions.toList := by rw [hl]; exact List.mem_append_right _ hxW
  have hWK : xW.unixTime = lastT z - k400 := by rw [exW, hlast]; omega
  have trnL : trn z (z.transitions.size - 1) = xL :=
    trn_of_time wf memL (by omega) (by show lastT z = _; rw [hlast, exL])
  have hoL : lastOff z = (typ z xL.typeIndex).utcOffset := by
    unfold lastOff offOf; rw [trnL]
  -- the two entries have the same kind, hence the same type
  have htiW : xW.typeIndex = xL.typeIndex := by
    obtain ⟨yL, kL, _, _, hkL, _, htL⟩ := gen_kind hkeys hxL
    obtain ⟨yW, kW, _, _, hkW, _, htW⟩ := gen_kind hkeys hxW
    have hsh := hkW.shift ps pe 1
    rw [show xW.unixTime + 1 * 12622780800 = xL.unixTime by rw [exW, exL]; omega] at hsh
    have := IsK.kind_eq c hsh hkL
    rw [htL, htW, this]
  have hoL2 := gen_off hkeys hso hdo hxL
  rw [← hoL] at hoL2
  have iyL := iy _ _ iL
  have iyW := iy _ _ iW
  -- instants of the years up to y0+1 are at or before `xW`
  have hle1 : ∀ y a, Inst s e y a → y ≤ y0 + 1 → a ≤ xW.unixTime := by
    intro y a ha hy
    rw [exW]
    by_cases h : y = y0 + 1
    · subst h; unfold Inst at ha; omega
    · have := c.lt (show y < y0 + 1 by omega) ha (Or.inl rfl : Inst s e (y0 + 1) (s (y0 + 1)))
      omega
  -- instants of the years from y0+2 on are at or after the earlier instant of year y0+2
  have hge2 : ∀ y a, Inst s e y a → y0 + 2 ≤ y → min (s (y0 + 2)) (e (y0 + 2)) ≤ a := by
    intro y a ha hy
    by_cases h : y = y0 + 2
    · subst h; unfold Inst at ha; omega
    · have := c.lt (show y0 + 2 < y by omega) (Or.inl rfl : Inst s e (y0 + 2) (s (y0 + 2))) ha
      omega
  have iM : Inst s e (y0 + 2) (min (s (y0 + 2)) (e (y0 + 2))) := by unfold Inst; omega
  have iyM := iy _ _ iM
  -- the offset at an instant at or after the last recorded entry is one of the three
  have hoff : ∀ t, lastTime rec ≤ t → offAt z t = stdOff ∨ offAt z t = dstOff := by
    intro t ht
    rw [offAt_typeAt]
    rcases typeAt_split z wf rec gen hrec hl t ht with ⟨_, hty⟩ | ⟨x, hx, _, _, hty⟩
    · rw [hty]; exact hro
    · rw [hty]; exact gen_off hkeys hso hdo hx
  refine ⟨?_, ?_, ?_, ?_⟩
  · -- lastCiv
    rw [hlast]; rcases hoL2 with h | h <;> rw [h] <;> omega
  · -- lastPrev: the entry before the last one is generated too
    have iM' : Inst s e (y0 + 401) (min (s (y0 + 401)) (e (y0 + 401))) := by unfold Inst; omega
    obtain ⟨xm, hxm, exm⟩ := gen_of_inst hkeys (y := y0 + 401) (by omega) (by omega) iM' (by omega)
    obtain ⟨i, hi, ei⟩ := mem_trn z xm (by rw [hl]; exact List.mem_append_right _ hxm)
    have hTi : timeOf z i < lastT z := by
      unfold timeOf; rw [ei, exm, hlast]; omega
    have hi1 : i < z.transitions.size - 1 := by
      rcases Nat.lt_or_ge i (z.transitions.size - 1) with h | h
      · exact h
      · have : i = z.transitions.size - 1 := by omega
        rw [this] at hTi; unfold lastT at hTi; omega
    have hT2 : lastTime rec < timeOf z (z.transitions.size - 2) := by
      have h1 := Tc.timeOf_mono wf (show i ≤ z.transitions.size - 2 by omega) (by omega)
      have : timeOf z i = min (s (y0 + 401)) (e (y0 + 401)) := by unfold timeOf; rw [ei, exm]
      omega
    have hmem := trn_mem z (z.transitions.size - 2) (by omega)
    rw [hl] at hmem
    have hg : trn z (z.transitions.size - 2) ∈ gen := by
      rcases List.mem_append.1 hmem with h | h
      · have := rec_le wf hl _ h
        unfold timeOf at hT2; omega
      · exact h
    have hob : lastOffBefore z = (typ z (trn z (z.transitions.size - 2)).typeIndex).utcOffset := by
      unfold lastOffBefore offBefore prevType
      rw [if_neg (by omega), show z.transitions.size - 1 - 1 = z.transitions.size - 2 by omega]
    rw [hob, hlast]
    rcases gen_off hkeys hso hdo hg with h | h <;> rw [h] <;> omega
  · -- below
    intro u hu
    rw [hy2]
    rcases Int.lt_or_le u (lastTime rec) with h | h
    · exact hshow u h
    · rcases hoff u h with h' | h' <;> rw [h'] <;> omega
  · -- window
    intro t ht1 ht2 hd
    rw [hy2] at hd
    rcases Int.lt_or_le t (min (s (y0 + 2)) (e (y0 + 2))) with hlt | hge
    · -- the latest entry at or before `t` is `xW`
      have hty : typeAt z t = xW.typeIndex := by
        apply typeAt_of_max z wf t xW memW (by omega)
        intro x' hx' hx't
        rw [hl] at hx'
        rcases List.mem_append.1 hx' with h | h
        · have := rec_le wf hl _ h; omega
        · obtain ⟨y, kind, _, _, hk, _, _⟩ := gen_kind hkeys h
          by_cases hy : y ≤ y0 + 1
          · exact hle1 y _ hk.inst hy
          · have := hge2 y _ hk.inst (by omega); omega
      rw [offAt_typeAt, hty, htiW, hoL]
    · exfalso
      have hLt : lastTime rec ≤ t := by omega
      rcases hd with hd | hd
      · rcases hoL2 with h | h <;> rw [h] at hd <;> omega
      · rcases hoff t hLt with h | h <;> rw [h] at hd <;> omega

end

end Cctz.Seam
