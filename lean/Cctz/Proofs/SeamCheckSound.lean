/-
  `seamOKb` decides `SeamOK` on a table with `TableWF`.
-/
import Cctz.Proofs.SeamCheck
import Cctz.Proofs.LtCheck
import Cctz.Proofs.TcSeg

namespace Cctz.Seam
open Cctz Cctz.Tz Cctz.Spec Cctz.TableCheck Cctz.Tc

section
variable {z : Zone} (wf : TableWF z) (ly : Int)
include wf

theorem below_of_check (h : ∀ j, j < z.transitions.size + 1 → belowAt z ly j = true) :
    ∀ u, u < lastT z - k400 → u + offAt z u < yearStart (ly - 399) := by
  intro u hu
  have hs := inSeg_segIndex wf u
  rw [offAt_eq]
  generalize segIndex z u = j at hs
  obtain ⟨hj, hj1, hj2⟩ := hs
  have hc := h j (by omega)
  unfold belowAt at hc
  simp only [Bool.or_eq_true, decide_eq_true_eq] at hc
  by_cases hjn : j < z.transitions.size
  · simp only [hjn, if_true] at hc
    have := hj2 hjn
    rcases hc with ⟨h0, hc⟩ | hc
    · have := hj1 (by omega); omega
    · omega
  · simp only [hjn, if_false] at hc
    rcases hc with ⟨h0, hc⟩ | hc
    · have := hj1 (by omega); omega
    · omega

theorem check_of_below (h : ∀ u, u < lastT z - k400 → u + offAt z u < yearStart (ly - 399)) :
    ∀ j, j < z.transitions.size + 1 → belowAt z ly j = true := by
  intro j hj
  unfold belowAt
  simp only [Bool.or_eq_true, decide_eq_true_eq]
  generalize hhi : (if j < z.transitions.size then min (timeOf z j) (lastT z - k400) else lastT z - k400) = hi
  by_cases hc : j ≠ 0 ∧ hi ≤ timeOf z (j - 1)
  · exact Or.inl hc
  · right
    have h1 : hi ≤ lastT z - k400 := by
      rw [← hhi]; split <;> omega
    have h2 : j < z.transitions.size → hi ≤ timeOf z j := by
      intro hjn; rw [← hhi, if_pos hjn]; omega
    have hseg : InSeg z j (hi - 1) := ⟨by omega, fun h0 => by omega, fun hjn => by have := h2 hjn; omega⟩
    have := h (hi - 1) (by omega)
    rw [offAt_eq, segIndex_of_inSeg wf hseg] at this
    exact this

theorem window_of_check (h : ∀ j, j < z.transitions.size → windowAt z ly j = true) :
    ∀ t, lastT z - k400 ≤ t → t < lastT z →
      (t + lastOff z < yearStart (ly - 399) ∨ t + offAt z t < yearStart (ly - 399)) →
      offAt z t = lastOff z := by
  intro t ht1 ht2
  have hn := wf.nonempty
  have hs := inSeg_segIndex wf t
  rw [offAt_eq]
  generalize segIndex z t = j at hs
  obtain ⟨hj, hj1, hj2⟩ := hs
  have hjn : j < z.transitions.size := by
    rcases Nat.lt_or_ge j z.transitions.size with h' | h'
    · exact h'
    · have : j = z.transitions.size := by omega
      subst this
      have := hj1 hn
      unfold lastT at ht2; omega
  have hc := h j hjn
  unfold windowAt at hc
  simp only [Bool.or_eq_true, Bool.and_eq_true, decide_eq_true_eq] at hc
  have := hj2 hjn
  intro hd
  by_cases j0 : j = 0
  · simp only [j0, if_true] at hc
    subst j0
    rcases hc with (hc | hc) | hc
    · omega
    · exact hc
    · omega
  · simp only [j0, if_false] at hc
    have := hj1 (by omega)
    rcases hc with (hc | hc) | hc
    · omega
    · exact hc
    · omega

theorem check_of_window (h : ∀ t, lastT z - k400 ≤ t → t < lastT z →
      (t + lastOff z < yearStart (ly - 399) ∨ t + offAt z t < yearStart (ly - 399)) →
      offAt z t = lastOff z) :
    ∀ j, j < z.transitions.size → windowAt z ly j = true := by
  intro j hjn
  unfold windowAt
  simp only [Bool.or_eq_true, Bool.and_eq_true, decide_eq_true_eq]
  generalize hlo : (if j = 0 then lastT z - k400 else max (timeOf z (j - 1)) (lastT z - k400)) = lo
  by_cases h1 : min (timeOf z j) (lastT z) ≤ lo
  · exact Or.inl (Or.inl h1)
  · by_cases h2 : offBefore z j = lastOff z
    · exact Or.inl (Or.inr h2)
    · right
      have hl1 : lastT z - k400 ≤ lo := by rw [← hlo]; split <;> omega
      have hl2 : 0 < j → timeOf z (j - 1) ≤ lo := by
        intro h0; rw [← hlo, if_neg (by omega)]; omega
      have hseg : InSeg z j lo := ⟨by omega, hl2, fun _ => by omega⟩
      have := h lo hl1 (by omega)
      rw [offAt_eq, segIndex_of_inSeg wf hseg] at this
      constructor
      · rcases Int.lt_or_le (lo + lastOff z) (yearStart (ly - 399)) with h' | h'
        · exact absurd (this (Or.inl h')) h2
        · exact h'
      · rcases Int.lt_or_le (lo + offBefore z j) (yearStart (ly - 399)) with h' | h'
        · exact absurd (this (Or.inr h')) h2
        · exact h'

theorem seamAtb_iff : seamAtb z ly = true ↔ SeamAt z ly := by
  unfold seamAtb
  simp only [Bool.and_eq_true, decide_eq_true_eq]
  constructor
  · rintro ⟨⟨⟨h1, h2⟩, h3⟩, h4⟩
    exact ⟨h1, h2, below_of_check wf ly (Lt.allIdx_sound h3), window_of_check wf ly (Lt.allIdx_sound h4)⟩
  · rintro ⟨h1, h2, h3, h4⟩
    exact ⟨⟨⟨h1, h2⟩, Lt.allIdx_complete (check_of_below wf ly h3)⟩,
      Lt.allIdx_complete (check_of_window wf ly h4)⟩

end

theorem seamOKb_spec (z : Zone) (wf : TableWF z) : seamOKb z = true ↔ SeamOK z := by
  unfold seamOKb SeamOK
  cases hx : z.extended with
  | false => simp
  | true =>
    simp only [Bool.not_true, Bool.false_or, forall_const]
    cases hl : z.lastYear with
    | none => simp
    | some ly =>
      simp only [Option.some.injEq, exists_eq_left']
      exact seamAtb_iff wf ly

theorem seamOKb_sound (z : Zone) (wf : TableWF z) (h : seamOKb z = true) : SeamOK z :=
  (seamOKb_spec z wf).1 h

theorem shiftRoomb_iff (z : Zone) : shiftRoomb z = true ↔ ShiftRoom z := by
  unfold shiftRoomb ShiftRoom
  cases z.extended <;> simp

end Cctz.Seam
