/-
  Helper lemmas for C18 (split_seconds / join_seconds).
-/
import Cctz.Model.Split
import Cctz.Proofs.IntLemmas

namespace Cctz.Split
open Cctz

theorem cdiv_var (a D : Int) (hD : 0 < D) :
    (cdiv a D = a / D ∧ (0 ≤ a ∨ a % D = 0)) ∨ (cdiv a D = a / D + 1 ∧ a < 0 ∧ a % D ≠ 0) := by
  unfold cdiv
  have h := @Int.tdiv_eq_ediv a D
  rw [Int.sign_eq_one_of_pos hD] at h
  split at h
  · left; rename_i hn; rw [h]; simp
    rcases hn with hn | hn
    · exact Or.inl hn
    · exact Or.inr (Int.emod_eq_zero_of_dvd hn)
  · right; rename_i hn
    refine ⟨h, by omega, ?_⟩
    intro h0; exact hn (Or.inr (Int.dvd_of_emod_eq_zero h0))

theorem sub_ediv_mul (a D : Int) : a - a / D * D = a % D := by
  have := Int.emod_def a D; rw [Int.mul_comm] at this; omega

theorem sub_ediv_mul' (a D : Int) : a - (a / D + 1) * D = a % D - D := by
  have := Int.emod_def a D; rw [Int.mul_comm] at this; rw [Int.add_mul]; omega

theorem splitSeconds_N1_val (D c : Int) (hD : 0 < D) : (splitSeconds 1 D c).val = (c / D, c % D) := by
  unfold splitSeconds
  simp only [Ck.bind_val, chk64_val, Int.mul_one]
  have hm := Int.emod_nonneg c (by omega : D ≠ 0)
  have hl := Int.emod_lt_of_pos c hD
  rcases cdiv_var c D hD with ⟨h1, _⟩ | ⟨h1, _⟩
  · have hn : ¬ (c % D < 0) := by omega
    simp only [h1, sub_ediv_mul, hn, if_false, Ck.pure_val]; simp [cdiv]
  · have hn : c % D - D < 0 := by omega
    simp only [h1, sub_ediv_mul', hn, if_true, Ck.pure_val, Ck.bind_val, chk64_val]; simp [cdiv]

theorem splitSeconds_D1_val (N c : Int) (hN : 0 < N) : (splitSeconds N 1 c).val = (c * N, 0) := by
  unfold splitSeconds
  simp [cdiv]

theorem splitSeconds_N1_ok (D c : Int) (hD : 0 < D) (hc : inI64 c) (hD2 : inI64 D)
    (h4 : inI64 (c / D - 1)) (h5 : inI64 ((c / D + 1) * D)) :
    (splitSeconds 1 D c).ok := by
  unfold splitSeconds
  have hm := Int.emod_nonneg c (by omega : D ≠ 0)
  have hl := Int.emod_lt_of_pos c hD
  have e1 := sub_ediv_mul c D
  have e2 := sub_ediv_mul' c D
  have e3 : (c / D + 1) * D = c / D * D + D := by rw [Int.add_mul]; simp
  unfold inI64 i64min i64max at *
  simp only [Ck.bind_ok, chk64_val, chk64_ok, Int.mul_one]
  rcases cdiv_var c D hD with ⟨h1, h2⟩ | ⟨h1, h2, h3⟩
  · have hn : ¬ (c % D < 0) := by omega
    simp only [h1, e1, hn, if_false, Ck.pure_ok, inI64, i64min, i64max, and_true]
    omega
  · have hn : c % D - D < 0 := by omega
    simp only [h1, e2, hn, if_true, Ck.pure_ok, Ck.bind_ok, chk64_ok, chk64_val, inI64, i64min, i64max, and_true]
    have := Int.ediv_neg_of_neg_of_pos h2 hD
    omega

theorem splitSeconds_D1_ok (N c : Int) (hc : inI64 (c * N)) : (splitSeconds N 1 c).ok := by
  unfold splitSeconds
  unfold inI64 i64min i64max at *
  simp [cdiv, inI64, i64min, i64max]
  omega
theorem joinCoarse_count (Num sec : Int) (h : 1 ≤ Num) :
    (if sec ≥ 0 ∨ cmod sec Num = 0 then cdiv sec Num else cdiv sec Num - 1) = sec / Num := by
  have hz := cmod_eq_zero_iff sec Num (by omega)
  rcases cdiv_var sec Num (by omega) with ⟨h1, h2⟩ | ⟨h1, h2, h3⟩
  · rw [if_pos (by rw [hz]; omega), h1]
  · rw [if_neg (by rw [hz]; omega), h1]; omega

theorem subToFemto_val (D sub : Int) (hD : 0 < D) (hdvd : 1000000000000000 % D = 0) :
    (subToFemto 1 D sub).val = sub * (1000000000000000 / D) := by
  have hd : D ∣ 1000000000000000 := Int.dvd_of_emod_eq_zero hdvd
  have hg : ((Int.gcd 1000000000000000 D : Nat) : Int) = D := by
    rw [Int.gcd_eq_natAbs_right_iff_dvd.mpr hd]; omega
  unfold subToFemto
  simp only [Ck.bind_val, chk64_val, Ck.pure_val, Int.one_mul, hg]
  rw [Int.ediv_self (by omega)]
  simp [cdiv]

theorem femto_bounds (D sub : Int) (hD : 0 < D) (hdvd : 1000000000000000 % D = 0) (h0 : 0 ≤ sub)
    (h1 : sub < D) :
    0 ≤ sub * (1000000000000000 / D) ∧ sub * (1000000000000000 / D) < 1000000000000000 := by
  have hd : D ∣ 1000000000000000 := Int.dvd_of_emod_eq_zero hdvd
  have hk : D * (1000000000000000 / D) = 1000000000000000 := Int.mul_ediv_cancel' hd
  have hm : 0 < 1000000000000000 / D := by
    apply Int.ediv_pos_of_pos_of_dvd (by omega) (by omega) hd
  refine ⟨Int.mul_nonneg h0 (by omega), ?_⟩
  have := Int.mul_lt_mul_of_pos_right h1 hm
  omega
end Cctz.Split
