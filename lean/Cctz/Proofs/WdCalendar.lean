/-
  Calendar-side lemmas for C17: leap years, 400-year periodicity of `dayNum`,
  and the "shifted year" form of `dayNum`.
-/
import Cctz.Proofs.WdInt

namespace Cctz.Wd
open Cctz.Spec

theorem isLeap_iff (y : Int) : isLeap y = true ↔ (y % 4 = 0 ∧ (y % 100 ≠ 0 ∨ y % 400 = 0)) := by
  simp [isLeap]

theorem isLeapYear_eq (y : Int) : Civil.isLeapYear y = isLeap y := by
  rw [Bool.eq_iff_iff, isLeap_iff]
  simp only [Civil.isLeapYear, Bool.and_eq_true, Bool.or_eq_true, beq_iff_eq, bne_iff_ne, ne_eq,
    cmod_zero_iff4, cmod_zero_iff100, cmod_zero_iff400]

theorem isLeap_add400 (y q : Int) : isLeap (y + 400 * q) = isLeap y := by
  rw [Bool.eq_iff_iff, isLeap_iff, isLeap_iff]; omega

theorem leapsThrough_add400 (y q : Int) : leapsThrough (y + 400 * q) = leapsThrough y + 97 * q := by
  unfold leapsThrough; omega

/-- `L(y) = L(y-1) + [y is leap]` -/
theorem leapsThrough_succ (y : Int) :
    leapsThrough y = leapsThrough (y - 1) + (if isLeap y then 1 else 0) := by
  unfold leapsThrough
  split <;> rename_i h
  · rw [isLeap_iff] at h; omega
  · rw [isLeap_iff] at h; omega

theorem dayNum_add400 (y q m d : Int) : dayNum (y + 400 * q) m d = dayNum y m d + 146097 * q := by
  unfold dayNum daysBeforeYear daysBeforeMonth
  rw [isLeap_add400, show y + 400 * q - 1 = (y - 1) + 400 * q by omega, leapsThrough_add400]
  omega

theorem dayNum_add_day (y m d k : Int) : dayNum y m (d + k) = dayNum y m d + k := by
  unfold dayNum; omega

/-- the constant part of `dayNum` once the year is shifted to start in March -/
def monConst (m : Int) : Int := cumDays m - (if m > 2 then 365 else 0)

/-- `dayNum` in terms of the shifted year `s = y + [m > 2]` -/
theorem dayNum_shift (y m d : Int) :
    dayNum y m d = 365 * (y + b2i (decide (m > 2)) - 1970) + leapsThrough (y + b2i (decide (m > 2)) - 1)
      - leapsThrough 1969 + monConst m + (d - 1) := by
  unfold dayNum daysBeforeYear daysBeforeMonth monConst b2i
  by_cases hm : m > 2
  · simp only [hm, decide_true, if_true, true_and]
    rw [show y + 1 - 1 = y by omega, leapsThrough_succ y]
    split <;> omega
  · simp only [hm, decide_false, if_false, false_and]
    simp; omega

end Cctz.Wd
