import Cctz.Model.Loader
