/-
  Helper lemmas for C13 / C19 / C20: the loader state machine (`Cctz.Loader`).
  * `Step` : the transition relation of `step`, one constructor per branch (`step_Step`).
  * `Inv`  : the global invariant; `inv_init`, `inv_step`, `inv_run`.
-/
import Cctz.Model.Loader

namespace Cctz.Loader
open Cctz Cctz.Bytes

/-! ## basic facts -/

theorem isUtc_isFixed {n : Name} (h : isUtcName n = true) : isFixedName n = true := by
  unfold isUtcName at h; unfold isFixedName
  cases hf : Fixed.fromName n with
  | none => rw [hf] at h; exact absurd h (by decide)
  | some v => rfl

theorem isFixed_false_isUtc {n : Name} (h : isFixedName n = false) : isUtcName n = false := by
  cases hu : isUtcName n with
  | false => rfl
  | true => rw [isUtc_isFixed hu] at h; exact absurd h (by decide)

theorem lookup_snoc (m : List (Name × Ident)) (k n : Name) (v : Ident) :
    List.lookup n (m ++ [(k, v)]) =
      match List.lookup n m with
      | some x => some x
      | none => if n = k then some v else none := by
  rw [List.lookup_append]
  cases h : List.lookup n m with
  | some x => rfl
  | none =>
    simp only [List.lookup_cons, List.lookup_nil, Option.none_or]
    by_cases e : n = k
    · subst e; simp
    · have : (n == k) = false := by simpa using e
      simp [this, e]

theorem lookup_snoc_of_some {m : List (Name × Ident)} {k n : Name} {v x : Ident}
    (h : List.lookup n m = some x) : List.lookup n (m ++ [(k, v)]) = some x := by
  rw [lookup_snoc, h]

theorem lookup_snoc_self {m : List (Name × Ident)} {k : Name} {v : Ident}
    (h : List.lookup k m = none) : List.lookup k (m ++ [(k, v)]) = some v := by
  rw [lookup_snoc, h]; simp

theorem lookup_snoc_ne {m : List (Name × Ident)} {k n : Name} {v : Ident}
    (h : n ≠ k) : List.lookup n (m ++ [(k, v)]) = List.lookup n m := by
  rw [lookup_snoc]; cases List.lookup n m <;> simp [h]

/-- what a lookup in the extended map can be -/
theorem lookup_snoc_cases {m : List (Name × Ident)} {k n : Name} {v x : Ident}
    (hk : List.lookup k m = none)
    (h : List.lookup n (m ++ [(k, v)]) = some x) :
    List.lookup n m = some x ∨ (n = k ∧ x = v) := by
  by_cases e : n = k
  · subst e; rw [lookup_snoc_self hk] at h; right; exact ⟨rfl, (Option.some.inj h).symm⟩
  · rw [lookup_snoc_ne e] at h; exact Or.inl h

/-! ## the transition relation -/

inductive Step (w : World) (s : LState) (τ : Nat) : LState → Prop
  | idle : s.threads[τ]? = none → Step w s τ s
  | doneNoop (t : Thread) (ok : Bool) (id : Ident) :
      s.threads[τ]? = some t → t.pc = .done ok id → Step w s τ s
  | initUtc (t : Thread) : s.threads[τ]? = some t → t.pc = .init → isUtcName t.name = true →
      Step w s τ (setThread s τ { t with pc := .done true .utc })
  | initHit (t : Thread) (id : Ident) : s.threads[τ]? = some t → t.pc = .init →
      isUtcName t.name = false → List.lookup t.name s.map = some id →
      Step w s τ (setThread s τ { t with pc := .done (id != .utc) id })
  | initMiss (t : Thread) : s.threads[τ]? = some t → t.pc = .init →
      isUtcName t.name = false → List.lookup t.name s.map = none →
      Step w s τ (setThread s τ { t with pc := .missed })
  | missedFixed (t : Thread) : s.threads[τ]? = some t → t.pc = .missed →
      isFixedName t.name = true →
      Step w s τ (setThread { s with nextGen := s.nextGen + 1 } τ { t with pc := .built true s.nextGen })
  | missedFactory (t : Thread) : s.threads[τ]? = some t → t.pc = .missed →
      isFixedName t.name = false →
      Step w s τ (setThread { s with log := s.log ++ [(τ, t.name)], active := s.active ++ [τ],
                                     maxActive := max s.maxActive (s.active ++ [τ]).length } τ
                    { t with pc := .inFactory })
  | factory (t : Thread) : s.threads[τ]? = some t → t.pc = .inFactory →
      Step w s τ (setThread { s with active := s.active.filter (· != τ), nextGen := s.nextGen + 1 } τ
                    { t with pc := .built (w.loads t.name) s.nextGen })
  | builtHit (t : Thread) (ok : Bool) (g : Nat) (id : Ident) : s.threads[τ]? = some t →
      t.pc = .built ok g → List.lookup t.name s.map = some id →
      Step w s τ (setThread s τ { t with pc := .done (id != .utc) id })
  | builtMiss (t : Thread) (ok : Bool) (g : Nat) : s.threads[τ]? = some t →
      t.pc = .built ok g → List.lookup t.name s.map = none →
      Step w s τ (setThread { s with map := s.map ++ [(t.name, if ok then Ident.impl g else Ident.utc)] } τ
                    { t with pc := .done ((if ok then Ident.impl g else Ident.utc) != .utc)
                                          (if ok then Ident.impl g else Ident.utc) })

theorem step_Step (w : World) (s : LState) (τ : Nat) : Step w s τ (step w s τ) := by
  unfold step
  cases h : s.threads[τ]? with
  | none => exact .idle h
  | some t =>
    simp only []
    cases hp : t.pc with
    | init =>
      simp only []
      by_cases hu : isUtcName t.name = true
      · rw [if_pos hu]; exact .initUtc t h hp hu
      · rw [if_neg hu]
        have hu' : isUtcName t.name = false := by simpa using hu
        cases hl : List.lookup t.name s.map with
        | some id => exact .initHit t id h hp hu' hl
        | none => exact .initMiss t h hp hu' hl
    | missed =>
      simp only []
      by_cases hf : isFixedName t.name = true
      · rw [if_pos hf]; exact .missedFixed t h hp hf
      · rw [if_neg hf]
        have hf' : isFixedName t.name = false := by simpa using hf
        exact .missedFactory t h hp hf'
    | inFactory => exact .factory t h hp
    | built ok g =>
      simp only []
      cases hl : List.lookup t.name s.map with
      | some id => exact .builtHit t ok g id h hp hl
      | none => exact .builtMiss t ok g h hp hl
    | done ok id => exact .doneNoop t ok id h hp

end Cctz.Loader

namespace Cctz.Loader
open Cctz Cctz.Bytes

/-! ## the invariant -/

/-- what the program counter of a thread loading `n` says about the shared state -/
def PcOk (w : World) (s : LState) (n : Name) : PC → Prop
  | .init => True
  | .missed => isUtcName n = false
  | .inFactory => isFixedName n = false
  | .built ok g => isUtcName n = false ∧ ok = seqOk w n ∧ g < s.nextGen ∧
      ∀ m, List.lookup m s.map ≠ some (.impl g)
  | .done ok id => (isUtcName n = true ∧ ok = true ∧ id = .utc) ∨
      (isUtcName n = false ∧ List.lookup n s.map = some id ∧ ok = (id != .utc))

structure Inv (w : World) (s : LState) : Prop where
  mapUtc : ∀ n id, List.lookup n s.map = some id →
    isUtcName n = false ∧ (id = .utc ↔ seqOk w n = false)
  mapGen : ∀ n g, List.lookup n s.map = some (.impl g) → g < s.nextGen
  mapInj : ∀ n1 n2 g, List.lookup n1 s.map = some (.impl g) →
    List.lookup n2 s.map = some (.impl g) → n1 = n2
  thr : ∀ (i : Nat) (t : Thread), s.threads[i]? = some t → PcOk w s t.name t.pc
  builtInj : ∀ (i j : Nat) (ti tj : Thread) (oki okj : Bool) (g : Nat),
    s.threads[i]? = some ti → s.threads[j]? = some tj →
    ti.pc = .built oki g → tj.pc = .built okj g → i = j
  log : ∀ (τ : Nat) (n : Name), (τ, n) ∈ s.log →
    isFixedName n = false ∧ ∃ t : Thread, s.threads[τ]? = some t ∧ t.name = n

theorem threads_setThread {s : LState} {τ : Nat} {t : Thread} (s0 : LState) (t' : Thread) (i : Nat)
    (h : s.threads[τ]? = some t) (h0 : s0.threads = s.threads) :
    (setThread s0 τ t').threads[i]? = if τ = i then some t' else s.threads[i]? := by
  have hlt : τ < s.threads.length := by
    rcases List.getElem?_eq_some_iff.mp h with ⟨hl, _⟩; exact hl
  simp only [setThread, List.getElem?_set, h0, hlt, if_true]

/-- the shape common to all transitions: thread `τ` gets a new pc; the map is unchanged or gets
the entry of a `.built` thread; the log is unchanged or gets `(τ, name)` -/
theorem inv_update {w : World} {s : LState} {τ : Nat} {t : Thread} (s0 : LState) (p' : PC)
    (I : Inv w s) (h : s.threads[τ]? = some t)
    (hthr : s0.threads = s.threads)
    (hmap : s0.map = s.map ∨ ∃ ok g, t.pc = .built ok g ∧ List.lookup t.name s.map = none ∧
      s0.map = s.map ++ [(t.name, if ok then Ident.impl g else Ident.utc)])
    (hgen : s.nextGen ≤ s0.nextGen)
    (hp' : PcOk w s0 t.name p')
    (hfresh : ∀ ok g, p' = .built ok g → s.nextGen ≤ g)
    (hlog : s0.log = s.log ∨ (s0.log = s.log ++ [(τ, t.name)] ∧ isFixedName t.name = false)) :
    Inv w (setThread s0 τ { t with pc := p' }) := by
  -- lookups in the new map
  have hlk : ∀ n id, List.lookup n s0.map = some id → List.lookup n s.map = some id ∨
      ∃ ok g, t.pc = .built ok g ∧ n = t.name ∧ id = (if ok then Ident.impl g else Ident.utc) := by
    intro n id hn
    rcases hmap with e | ⟨ok, g, hp, hl, e⟩
    · rw [e] at hn; exact Or.inl hn
    · rw [e] at hn
      rcases lookup_snoc_cases hl hn with h1 | ⟨h1, h2⟩
      · exact Or.inl h1
      · exact Or.inr ⟨ok, g, hp, h1, h2⟩
  have hlk' : ∀ n id, List.lookup n s.map = some id → List.lookup n s0.map = some id := by
    intro n id hn
    rcases hmap with e | ⟨ok, g, hp, hl, e⟩
    · rw [e]; exact hn
    · rw [e]; exact lookup_snoc_of_some hn
  have hmapS : (setThread s0 τ { t with pc := p' }).map = s0.map := rfl
  have hgenS : (setThread s0 τ { t with pc := p' }).nextGen = s0.nextGen := rfl
  have hlogS : (setThread s0 τ { t with pc := p' }).log = s0.log := rfl
  have hT := I.thr τ t h
  constructor
  · intro n id hn
    rw [hmapS] at hn
    rcases hlk n id hn with h1 | ⟨ok, g, hp, rfl, rfl⟩
    · exact I.mapUtc n id h1
    · rw [hp] at hT
      refine ⟨hT.1, ?_⟩
      rw [← hT.2.1]; cases ok <;> simp
  · intro n g hn
    rw [hmapS] at hn; rw [hgenS]
    rcases hlk n _ hn with h1 | ⟨ok, g', hp, rfl, e⟩
    · exact Nat.lt_of_lt_of_le (I.mapGen n g h1) hgen
    · rw [hp] at hT
      cases ok with
      | false => simp at e
      | true =>
        simp only [if_true, Ident.impl.injEq] at e
        subst e; exact Nat.lt_of_lt_of_le hT.2.2.1 hgen
  · intro n1 n2 g h1 h2
    rw [hmapS] at h1 h2
    rcases hlk n1 _ h1 with a1 | ⟨ok1, g1, hp1, e1, f1⟩
    · rcases hlk n2 _ h2 with a2 | ⟨ok2, g2, hp2, e2, f2⟩
      · exact I.mapInj n1 n2 g a1 a2
      · rw [hp2] at hT
        cases ok2 with
        | false => simp at f2
        | true =>
          simp only [if_true, Ident.impl.injEq] at f2
          subst f2; exact absurd a1 (hT.2.2.2 n1)
    · rcases hlk n2 _ h2 with a2 | ⟨ok2, g2, hp2, e2, f2⟩
      · rw [hp1] at hT
        cases ok1 with
        | false => simp at f1
        | true =>
          simp only [if_true, Ident.impl.injEq] at f1
          subst f1; exact absurd a2 (hT.2.2.2 n2)
      · rw [e1, e2]
  · intro i ti hi
    rw [threads_setThread s0 _ i h hthr] at hi
    by_cases e : τ = i
    · rw [if_pos e] at hi
      have := Option.some.inj hi; subst this
      exact hp'
    · rw [if_neg e] at hi
      have hTi := I.thr i ti hi
      cases hpi : ti.pc with
      | init => trivial
      | missed => rw [hpi] at hTi; exact hTi
      | inFactory => rw [hpi] at hTi; exact hTi
      | built okj gj =>
        rw [hpi] at hTi
        refine ⟨hTi.1, hTi.2.1, Nat.lt_of_lt_of_le hTi.2.2.1 hgen, ?_⟩
        intro m hm
        rw [hmapS] at hm
        rcases hlk m _ hm with a | ⟨ok, g, hp, e1, f⟩
        · exact hTi.2.2.2 m a
        · cases ok with
          | false => simp at f
          | true =>
            simp only [if_true, Ident.impl.injEq] at f
            subst f
            exact e (I.builtInj τ i t ti _ _ gj h hi hp hpi)
      | done ok id =>
        rw [hpi] at hTi
        rcases hTi with a | ⟨a, b, c⟩
        · exact Or.inl a
        · exact Or.inr ⟨a, hlk' _ _ b, c⟩
  · intro i j ti tj oki okj g hi hj hpi hpj
    rw [threads_setThread s0 _ i h hthr] at hi
    rw [threads_setThread s0 _ j h hthr] at hj
    by_cases ei : τ = i
    · by_cases ej : τ = j
      · rw [← ei, ← ej]
      · rw [if_pos ei] at hi; rw [if_neg ej] at hj
        have := Option.some.inj hi; subst this
        have f := hfresh oki g hpi
        have hTj := I.thr j tj hj
        rw [hpj] at hTj
        exact absurd hTj.2.2.1 (Nat.not_lt.mpr f)
    · by_cases ej : τ = j
      · rw [if_neg ei] at hi; rw [if_pos ej] at hj
        have := Option.some.inj hj; subst this
        have f := hfresh okj g hpj
        have hTi := I.thr i ti hi
        rw [hpi] at hTi
        exact absurd hTi.2.2.1 (Nat.not_lt.mpr f)
      · rw [if_neg ei] at hi; rw [if_neg ej] at hj
        exact I.builtInj i j ti tj oki okj g hi hj hpi hpj
  · intro τ' n hm
    rw [hlogS] at hm
    have old : ∀ (τ' : Nat) (n : Name), (isFixedName n = false ∧ ∃ t : Thread, s.threads[τ']? = some t ∧ t.name = n) →
        (isFixedName n = false ∧
          ∃ t'' : Thread, (setThread s0 τ { t with pc := p' }).threads[τ']? = some t'' ∧ t''.name = n) := by
      intro τ' n ⟨a, t'', b, c⟩
      refine ⟨a, ?_⟩
      rw [threads_setThread s0 _ τ' h hthr]
      by_cases e : τ = τ'
      · rw [if_pos e]
        subst e
        rw [h] at b; have := Option.some.inj b; subst this
        exact ⟨_, rfl, c⟩
      · rw [if_neg e]; exact ⟨t'', b, c⟩
    rcases hlog with e | ⟨e, hf⟩
    · rw [e] at hm; exact old τ' n (I.log τ' n hm)
    · rw [e] at hm
      rcases List.mem_append.mp hm with a | a
      · exact old τ' n (I.log τ' n a)
      · have := List.mem_singleton.mp a
        have e1 : τ' = τ := congrArg Prod.fst this
        have e2 : n = t.name := congrArg Prod.snd this
        subst e1; subst e2
        exact old τ' t.name ⟨hf, t, h, rfl⟩

end Cctz.Loader

namespace Cctz.Loader
open Cctz Cctz.Bytes

theorem inv_Step {w : World} {s s' : LState} {τ : Nat} (I : Inv w s) (st : Step w s τ s') :
    Inv w s' := by
  cases st with
  | idle _ => exact I
  | doneNoop _ _ _ _ _ => exact I
  | initUtc t h hp hu =>
    exact inv_update s _ I h rfl (Or.inl rfl) (Nat.le_refl _) (Or.inl ⟨hu, rfl, rfl⟩)
      (fun _ _ e => by cases e) (Or.inl rfl)
  | initHit t id h hp hu hl =>
    exact inv_update s _ I h rfl (Or.inl rfl) (Nat.le_refl _) (Or.inr ⟨hu, hl, rfl⟩)
      (fun _ _ e => by cases e) (Or.inl rfl)
  | initMiss t h hp hu hl =>
    exact inv_update s _ I h rfl (Or.inl rfl) (Nat.le_refl _) hu
      (fun _ _ e => by cases e) (Or.inl rfl)
  | missedFixed t h hp hf =>
    have hT := I.thr τ t h
    rw [hp] at hT
    refine inv_update { s with nextGen := s.nextGen + 1 } _ I h rfl (Or.inl rfl) (Nat.le_succ _)
      ⟨hT, ?_, Nat.lt_succ_self _, ?_⟩ ?_ (Or.inl rfl)
    · simp [seqOk, hf]
    · intro m hm; exact absurd (I.mapGen m _ hm) (Nat.lt_irrefl _)
    · intro ok g e; cases e; exact Nat.le_refl _
  | missedFactory t h hp hf =>
    exact inv_update _ _ I h rfl (Or.inl rfl)
      (Nat.le_refl _) hf (fun _ _ e => by cases e) (Or.inr ⟨rfl, hf⟩)
  | factory t h hp =>
    have hT := I.thr τ t h
    rw [hp] at hT
    have hf : isFixedName t.name = false := hT
    refine inv_update { s with active := s.active.filter (· != τ), nextGen := s.nextGen + 1 } _ I h
      rfl (Or.inl rfl) (Nat.le_succ _)
      ⟨isFixed_false_isUtc hf, ?_, Nat.lt_succ_self _, ?_⟩ ?_ (Or.inl rfl)
    · simp [seqOk, hf, isFixed_false_isUtc hf]
    · intro m hm; exact absurd (I.mapGen m _ hm) (Nat.lt_irrefl _)
    · intro ok g e; cases e; exact Nat.le_refl _
  | builtHit t ok g id h hp hl =>
    have hT := I.thr τ t h
    rw [hp] at hT
    exact inv_update s _ I h rfl (Or.inl rfl) (Nat.le_refl _) (Or.inr ⟨hT.1, hl, rfl⟩)
      (fun _ _ e => by cases e) (Or.inl rfl)
  | builtMiss t ok g h hp hl =>
    have hT := I.thr τ t h
    rw [hp] at hT
    refine inv_update { s with map := s.map ++ [(t.name, if ok then Ident.impl g else Ident.utc)] } _
      I h rfl (Or.inr ⟨ok, g, hp, hl, rfl⟩) (Nat.le_refl _) (Or.inr ⟨hT.1, ?_, rfl⟩)
      (fun _ _ e => by cases e) (Or.inl rfl)
    exact lookup_snoc_self hl

theorem inv_step {w : World} {s : LState} (τ : Nat) (I : Inv w s) : Inv w (step w s τ) :=
  inv_Step I (step_Step w s τ)

theorem inv_init (w : World) (names : List Name) : Inv w (initState names) := by
  constructor
  · intro n id h; simp [initState] at h
  · intro n g h; simp [initState] at h
  · intro n1 n2 g h; simp [initState] at h
  · intro i t h
    simp only [initState, List.getElem?_map] at h
    cases hn : names[i]? with
    | none => rw [hn] at h; simp at h
    | some n =>
      rw [hn] at h
      have := Option.some.inj h; subst this
      trivial
  · intro i j ti tj oki okj g hi hj hpi
    simp only [initState, List.getElem?_map] at hi
    cases hn : names[i]? with
    | none => rw [hn] at hi; simp at hi
    | some n =>
      rw [hn] at hi
      have := Option.some.inj hi; subst this
      cases hpi
  · intro τ n h; simp [initState] at h

theorem inv_run {w : World} (sched : List Nat) : ∀ {s : LState}, Inv w s → Inv w (run w s sched) := by
  induction sched with
  | nil => intro s I; exact I
  | cons τ rest ih => intro s I; exact ih (inv_step τ I)

theorem inv_reach (w : World) (names : List Name) (sched : List Nat) :
    Inv w (run w (initState names) sched) := inv_run sched (inv_init w names)

end Cctz.Loader

namespace Cctz.Loader
open Cctz Cctz.Bytes

/-! ## frame / progress facts about single steps (no invariant needed) -/

theorem Step_map_mono {w : World} {s s' : LState} {τ : Nat} (st : Step w s τ s') (n : Name) (id : Ident)
    (h : List.lookup n s.map = some id) : List.lookup n s'.map = some id := by
  cases st with
  | builtMiss t ok g _ _ _ => exact lookup_snoc_of_some h
  | _ => exact h

theorem step_map_mono (w : World) (s : LState) (τ : Nat) (n : Name) (id : Ident)
    (h : List.lookup n s.map = some id) : List.lookup n (step w s τ).map = some id :=
  Step_map_mono (step_Step w s τ) n id h

/-- number of own steps a thread still needs -/
def rank : PC → Nat
  | .init => 4
  | .missed => 3
  | .inFactory => 2
  | .built _ _ => 1
  | .done _ _ => 0

theorem set_get_self {l : List Thread} {τ : Nat} {t : Thread} (t' : Thread) (h : l[τ]? = some t) :
    (l.set τ t')[τ]? = some t' := by
  rcases List.getElem?_eq_some_iff.mp h with ⟨hl, _⟩
  exact List.getElem?_set_self hl

theorem Step_rank {w : World} {s s' : LState} {τ : Nat} (st : Step w s τ s') {t : Thread}
    (h : s.threads[τ]? = some t) :
    ∃ t', s'.threads[τ]? = some t' ∧ t'.name = t.name ∧ rank t'.pc ≤ rank t.pc - 1 := by
  cases st with
  | idle h0 => rw [h0] at h; cases h
  | doneNoop t0 ok id h0 hp =>
    rw [h0] at h; cases h
    exact ⟨_, h0, rfl, by rw [hp]; exact Nat.zero_le _⟩
  | initUtc t0 h0 hp _ =>
    rw [h0] at h; cases h
    exact ⟨_, set_get_self _ h0, rfl, by rw [hp]; simp [rank]⟩
  | initHit t0 id h0 hp _ _ =>
    rw [h0] at h; cases h
    exact ⟨_, set_get_self _ h0, rfl, by rw [hp]; simp [rank]⟩
  | initMiss t0 h0 hp _ _ =>
    rw [h0] at h; cases h
    exact ⟨_, set_get_self _ h0, rfl, by rw [hp]; simp [rank]⟩
  | missedFixed t0 h0 hp _ =>
    rw [h0] at h; cases h
    exact ⟨_, set_get_self _ h0, rfl, by rw [hp]; simp [rank]⟩
  | missedFactory t0 h0 hp _ =>
    rw [h0] at h; cases h
    exact ⟨_, set_get_self _ h0, rfl, by rw [hp]; simp [rank]⟩
  | factory t0 h0 hp =>
    rw [h0] at h; cases h
    exact ⟨_, set_get_self _ h0, rfl, by rw [hp]; simp [rank]⟩
  | builtHit t0 ok g id h0 hp _ =>
    rw [h0] at h; cases h
    exact ⟨_, set_get_self _ h0, rfl, by rw [hp]; simp [rank]⟩
  | builtMiss t0 ok g h0 hp _ =>
    rw [h0] at h; cases h
    exact ⟨_, set_get_self _ h0, rfl, by rw [hp]; simp [rank]⟩

theorem step_rank (w : World) {s : LState} {τ : Nat} {t : Thread} (h : s.threads[τ]? = some t) :
    ∃ t', (step w s τ).threads[τ]? = some t' ∧ t'.name = t.name ∧ rank t'.pc ≤ rank t.pc - 1 :=
  Step_rank (step_Step w s τ) h

theorem rank_le_four (p : PC) : rank p ≤ 4 := by cases p <;> simp [rank]

theorem rank_zero {p : PC} (h : rank p = 0) : ∃ ok id, p = .done ok id := by
  cases p with
  | done ok id => exact ⟨ok, id, rfl⟩
  | _ => cases h

/-- four own steps finish a load, from any state -/
theorem block_done (w : World) {s : LState} {τ : Nat} {t : Thread} (h : s.threads[τ]? = some t) :
    ∃ t' ok id, (run w s [τ, τ, τ, τ]).threads[τ]? = some t' ∧ t'.name = t.name ∧
      t'.pc = .done ok id := by
  obtain ⟨t1, h1, n1, r1⟩ := step_rank w h
  obtain ⟨t2, h2, n2, r2⟩ := step_rank w h1
  obtain ⟨t3, h3, n3, r3⟩ := step_rank w h2
  obtain ⟨t4, h4, n4, r4⟩ := step_rank w h3
  have := rank_le_four t.pc
  obtain ⟨ok, id, e⟩ := rank_zero (p := t4.pc) (by omega)
  exact ⟨t4, ok, id, h4, by rw [n4, n3, n2, n1], e⟩

/-- steps of other threads do not touch thread `i` -/
theorem Step_frame {w : World} {s s' : LState} {τ : Nat} (st : Step w s τ s') {i : Nat} (hi : τ ≠ i) :
    s'.threads[i]? = s.threads[i]? := by
  cases st with
  | idle _ => rfl
  | doneNoop _ _ _ _ _ => rfl
  | _ => exact List.getElem?_set_ne hi

theorem step_frame (w : World) (s : LState) {τ i : Nat} (hi : τ ≠ i) :
    (step w s τ).threads[i]? = s.threads[i]? := Step_frame (step_Step w s τ) hi

end Cctz.Loader
