/-
  C07Class helper proofs, parse side: ONE lemma for all conversions of the class — on the text of
  the conversion (possibly with its leading white space skipped), followed by anything that meets the
  follow condition, `stepSpec` consumes exactly that text and leaves the fields it carries equal to
  what lookup() reported.
-/
import Cctz.Proofs.RtClassFrac
import Cctz.Proofs.RtClassOff

namespace Cctz.Rtc
open Cctz Cctz.Bytes Cctz.Format Cctz.Parse Cctz.Spec Cctz.Spec.Lex Cctz.Pa Cctz.Wr Cctz.Rt

/-- the field `f` of the parser state is what lookup() reported (for %s: the instant) -/
def holdsF (al : Tz.AbsLookup) (t fs : Int) (st : PState) : Fld → Prop
  | .year => st.sawYear = true ∧ st.year = al.cs.y
  | .month => st.tm.mon = al.cs.m - 1
  | .day => st.tm.mday = al.cs.d
  | .hour => st.tm.hour = al.cs.hh
  | .minute => st.tm.min = al.cs.mm
  | .second => st.tm.sec = al.cs.ss
  | .frac => st.subseconds = fs
  | .offset => st.sawOffset = true ∧ st.offset = al.offset
  | .unix => st.sawPercentS = true ∧ st.percentS = t

/-- what no item of the class disturbs -/
def Stat (fs : Int) (st : PState) : Prop :=
  st.weekNum = -1 ∧ st.twelveHour = false ∧ (st.subseconds = 0 ∨ st.subseconds = fs)

structure StepOK (al : Tz.AbsLookup) (t fs : Int) (it : Item) (st st' : PState) : Prop where
  keep : ∀ f, (holdsF al t fs st f ∨ sets it f = true) → holdsF al t fs st' f
  stat : Stat fs st'
  nounix : sets it .unix = false → st.sawPercentS = false → st'.sawPercentS = false

/-! ### how the text of a conversion begins -/

theorem digit_head_props (c : UInt8) (h : isDigit c = true) : c ≠ 46 ∧ c ≠ 58 ∧ isSpace c = false :=
  ⟨(by intro h'; subst h'; cases h), (by intro h'; subst h'; cases h), digit_not_space c h⟩

theorem skip_app (b rest : Bytes) (h : ∃ c r, b = c :: r ∧ isSpace c = false) :
    skipSpace (b ++ rest) = b ++ rest := by
  obtain ⟨c, r, e, hc⟩ := h
  rw [e, List.cons_append, skipSpace_cons_ns _ _ hc]

theorem noNul_decInt (v : Int) : NoNul (decInt v) := by
  rw [← format64_zero]; exact noNul_format64 v

theorem allDigits_decPad (w n : Nat) : AllDigits (decPad w n) := by
  unfold decPad
  exact (allDigits_zeros _).append (decNat_digits n)

theorem decPad_ne_nil (w n : Nat) : decPad w n ≠ [] := by
  unfold decPad
  intro h
  exact decNat_ne_nil n (List.append_eq_nil_iff.1 h).2

/-- the shape of the text of a conversion: no NUL; it begins with a byte that is not '.' or ':', that
is not white space (except for `%e`), and that is not a digit when the class says it never is -/
def HeadOK (k : CK) (b : Bytes) : Prop :=
  NoNul b ∧ ∃ c r, b = c :: r ∧ c ≠ 46 ∧ c ≠ 58 ∧ (k ≠ .e → isSpace c = false) ∧
    ((Item.conv k).mayStartDigit = false → isDigit c = false)

theorem headOK_digit (k : CK) (b : Bytes) (hn : NoNul b) (c : UInt8) (r : Bytes) (e : b = c :: r)
    (hc : isDigit c = true) (hm : (Item.conv k).mayStartDigit = true) : HeadOK k b := by
  obtain ⟨a1, a2, a3⟩ := digit_head_props c hc
  exact ⟨hn, c, r, e, a1, a2, fun _ => a3, fun h => by rw [hm] at h; cases h⟩

theorem headOK_sign (k : CK) (b : Bytes) (hn : NoNul b) (c : UInt8) (r : Bytes) (e : b = c :: r)
    (hc : c = 43 ∨ c = 45) : HeadOK k b := by
  refine ⟨hn, c, r, e, ?_, ?_, fun _ => ?_, fun _ => ?_⟩ <;> rcases hc with h | h <;> subst h <;> decide

/-- digits, possibly with something behind them -/
theorem headOK_digits (k : CK) (l b : Bytes) (hl : AllDigits l) (hne : l ≠ []) (hb : NoNul b)
    (hm : (Item.conv k).mayStartDigit = true) : HeadOK k (l ++ b) := by
  obtain ⟨c, r, e, hc⟩ := hl.head hne
  exact headOK_digit k _ (hl.noNul.append hb) c (r ++ b) (by rw [e]; rfl) hc hm

theorem headOK_digits' (k : CK) (l : Bytes) (hl : AllDigits l) (hne : l ≠ [])
    (hm : (Item.conv k).mayStartDigit = true) : HeadOK k l := by
  have := headOK_digits k l [] hl hne noNul_nil hm
  rwa [List.append_nil] at this

theorem headOK_decInt (k : CK) (v : Int) (hm : (Item.conv k).mayStartDigit = true) : HeadOK k (decInt v) := by
  obtain ⟨c, r, e, _⟩ := decInt_cons v
  rcases decInt_mem v c (by rw [e]; simp) with h | h
  · refine ⟨noNul_decInt v, c, r, e, ?_, ?_, fun _ => ?_, fun h' => by rw [hm] at h'; cases h'⟩ <;>
      subst h <;> decide
  · exact headOK_digit k _ (noNul_decInt v) c r e h hm

theorem noNul_offHM (sep : Bool) (off : Int) : NoNul (offHM sep off) := by
  unfold offHM
  simp only
  refine NoNul.append (NoNul.append (NoNul.append (NoNul.cons (by split <;> decide) noNul_nil) ?_) ?_) ?_
  · exact (allDigits_decPad _ _).noNul
  · split
    · exact NoNul.cons (by decide) noNul_nil
    · exact noNul_nil
  · exact (allDigits_decPad _ _).noNul

theorem noNul_offHMS (off : Int) : NoNul (offHMS off) := by
  unfold offHMS
  simp only
  refine NoNul.append (NoNul.append (NoNul.append (NoNul.append (NoNul.append
    (NoNul.cons (by split <;> decide) noNul_nil) ?_) ?_) ?_) ?_) ?_
  · exact (allDigits_decPad _ _).noNul
  · exact NoNul.cons (by decide) noNul_nil
  · exact (allDigits_decPad _ _).noNul
  · exact NoNul.cons (by decide) noNul_nil
  · exact (allDigits_decPad _ _).noNul

theorem offHM_head (sep : Bool) (off : Int) : ∃ c r, offHM sep off = c :: r ∧ (c = 43 ∨ c = 45) := by
  unfold offHM
  refine ⟨_, _, rfl, ?_⟩
  split <;> simp

theorem offMin_shape (off : Int) : NoNul (offMin off) ∧ ∃ c r, offMin off = c :: r ∧ (c = 43 ∨ c = 45) := by
  unfold offMin
  simp only
  split
  · exact ⟨noNul_offHMS off, offHMS_head off⟩
  · split
    · exact ⟨noNul_offHM true off, offHM_head true off⟩
    · refine ⟨NoNul.append (NoNul.cons (by split <;> decide) noNul_nil) (allDigits_decPad _ _).noNul,
        _, _, rfl, ?_⟩
      split <;> simp

theorem rk_shape {al : Tz.AbsLookup} {t fs : Int} (E : Env al t fs) (k : CK) (hv : (Item.conv k).valid) :
    HeadOK k (renderConv (toConv k) al t fs) := by
  obtain ⟨hm1, hm2, hd1, hd2, hh1, hh2, hmm1, hmm2, hs1, hs2⟩ := E.bounds
  cases k with
  | Y => exact headOK_decInt _ al.cs.y rfl
  | s => exact headOK_decInt _ t rfl
  | y4 =>
    have hr : renderConv (toConv .y4) al t fs =
        (if al.cs.y < 0 then 45 :: decPad 3 al.cs.y.natAbs else decPad 4 al.cs.y.natAbs) := rfl
    rw [hr]
    split
    · exact ⟨NoNul.cons (by decide) (allDigits_decPad _ _).noNul, 45, _, rfl, by decide, by decide,
        fun _ => by decide, fun h => by cases h⟩
    · exact headOK_digits' _ _ (allDigits_decPad _ _) (decPad_ne_nil _ _) rfl
  | m => exact headOK_digits' _ _ (allDigits_decPad _ _) (decPad_ne_nil _ _) rfl
  | d => exact headOK_digits' _ _ (allDigits_decPad _ _) (decPad_ne_nil _ _) rfl
  | H => exact headOK_digits' _ _ (allDigits_decPad _ _) (decPad_ne_nil _ _) rfl
  | M => exact headOK_digits' _ _ (allDigits_decPad _ _) (decPad_ne_nil _ _) rfl
  | S => exact headOK_digits' _ _ (allDigits_decPad _ _) (decPad_ne_nil _ _) rfl
  | e =>
    have hr : renderConv (toConv .e) al t fs =
        (if al.cs.d < 10 then 32 :: decNat al.cs.d.toNat else decNat al.cs.d.toNat) := rfl
    rw [hr]
    have hdg : AllDigits (decNat al.cs.d.toNat) := decNat_digits _
    split
    · exact ⟨NoNul.cons (by decide) hdg.noNul, 32, _, rfl, by decide, by decide, fun h => absurd rfl h,
        fun h => by cases h⟩
    · obtain ⟨c, r, e, hc⟩ := hdg.head (decNat_ne_nil _)
      obtain ⟨a1, a2, _⟩ := digit_head_props c hc
      exact ⟨hdg.noNul, c, r, e, a1, a2, fun h => absurd rfl h, fun h => by cases h⟩
  | secStar =>
    exact headOK_digits _ _ _ (allDigits_decPad _ _) (decPad_ne_nil _ _) (noNul_frac fs E.fs0 E.fs1) rfl
  | secN n =>
    obtain ⟨h1, h2⟩ := hv
    have hr : renderConv (toConv (.secN n)) al t fs =
        decPad 2 al.cs.ss.toNat ++ (if n = 0 then [] else 46 :: Lex.frac n fs) := rfl
    rw [hr, if_neg (by omega)]
    exact headOK_digits _ _ _ (allDigits_decPad _ _) (decPad_ne_nil _ _)
      (NoNul.cons (by decide) (allDigits_frac n fs h1 E.fs0 E.fs1).noNul) rfl
  | fracStar => exact headOK_digits' _ (starFText fs) (allDigits_starF fs E.fs0 E.fs1) (starF_ne_nil fs) rfl
  | fracN n =>
    obtain ⟨h1, h2⟩ := hv
    have hr : renderConv (toConv (.fracN n)) al t fs = (if n = 0 then [] else Lex.frac n fs) := rfl
    rw [hr, if_neg (by omega)]
    exact headOK_digits' _ _ (allDigits_frac n fs h1 E.fs0 E.fs1) (frac_ne_nil n fs h1 E.fs0 E.fs1) rfl
  | zStar =>
    obtain ⟨c, r, e, hc⟩ := offHMS_head al.offset
    exact headOK_sign _ _ (noNul_offHMS _) c r e hc
  | zColon =>
    obtain ⟨c, r, e, hc⟩ := offHMS_head al.offset
    exact headOK_sign _ _ (noNul_offHMS _) c r e hc
  | zColon3 =>
    obtain ⟨hn, c, r, e, hc⟩ := offMin_shape al.offset
    exact headOK_sign _ _ hn c r e hc
  | zE =>
    obtain ⟨c, r, e, hc⟩ := offHM_head true al.offset
    exact headOK_sign _ _ (noNul_offHM _ _) c r e hc
  | zColon1 =>
    obtain ⟨c, r, e, hc⟩ := offHM_head true al.offset
    exact headOK_sign _ _ (noNul_offHM _ _) c r e hc
  | z =>
    obtain ⟨c, r, e, hc⟩ := offHM_head false al.offset
    exact headOK_sign _ _ (noNul_offHM _ _) c r e hc
  | eT => exact ⟨NoNul.cons (by decide) noNul_nil, 84, [], rfl, by decide, by decide, fun _ => by decide,
      fun _ => by decide⟩

/-! ### the step -/

local macro "stepok" : tactic => `(tactic|
  (refine ⟨fun f h => ?_, ?_, ?_⟩
   · cases f <;> simp_all [holdsF, sets]
   · simp_all [Stat]
   · simp_all [sets]))

theorem step_conv (sp : Strptime) {al : Tz.AbsLookup} {t fs : Int} (E : Env al t fs) (k : CK)
    (hv : (Item.conv k).valid) (st : PState) (ws : Bool) (d rest f' : Bytes)
    (hf : st.fmt = 37 :: (spellC k ++ f'))
    (hd : d = renderConv (toConv k) al t fs ++ rest ∨
      (ws = true ∧ d = skipSpace (renderConv (toConv k) al t fs ++ rest)))
    (hfd : (Item.conv k).noDigitAfter ws = true → isDigit (rest.headD 0) = false)
    (hfp : (Item.conv k).noDotAfter = true → rest.headD 0 ≠ 46)
    (hfc : (Item.conv k).noColonAfter = true → rest.headD 0 ≠ 58)
    (hmin : (Item.conv k).wholeMinutes = true → al.offset % 60 = 0)
    (hy4 : (Item.conv k).fourCharYear = true → -999 ≤ al.cs.y ∧ al.cs.y ≤ 9999)
    (hs : Stat fs st) :
    ∃ st', stepSpec sp st d = st' ∧ st'.data = some rest ∧ st'.fmt = f' ∧ StepOK al t fs (.conv k) st st' := by
  obtain ⟨hm1, hm2, hd1, hd2, hh1, hh2, hmm1, hmm2, hs1, hs2⟩ := E.bounds
  obtain ⟨_, c, r, hc, _, _, hsp, _⟩ := rk_shape E k hv
  obtain ⟨hw, htw, hsub⟩ := hs
  by_cases hke : k = .e
  · subst hke
    have hr : renderConv (toConv .e) al t fs =
        (if al.cs.d < 10 then 32 :: decNat al.cs.d.toNat else decNat al.cs.d.toNat) := rfl
    have hsm := decNat_small al.cs.d.toNat (by omega)
    rw [hr] at hd
    by_cases h10 : al.cs.d < 10
    · rw [if_pos h10, hsm, if_pos (by omega)] at hd
      have hx : ((al.cs.d.toNat : Nat) : Int) = al.cs.d := by omega
      have hns : isSpace (dch al.cs.d.toNat) = false := digit_not_space _ (dch_isDigit _ (by omega))
      rw [List.cons_append, List.cons_append, List.nil_append, skipSpace_cons_sp _ _ (by decide),
        skipSpace_cons_ns _ _ hns] at hd
      rcases hd with hd | ⟨hws, hd⟩ <;> subst hd
      · refine ⟨_, stepSpec_e_pad sp st al.cs.d.toNat rest f' hf (by omega) (by omega), rfl, rfl, ?_⟩
        rw [hx]
        stepok
      · subst hws
        refine ⟨_, stepSpec_e_one sp st al.cs.d.toNat rest f' hf (by omega) (by omega) (hfd rfl), rfl, rfl, ?_⟩
        rw [hx]
        stepok
    · rw [if_neg h10, hsm, if_neg (by omega)] at hd
      have hx : 10 * ((al.cs.d.toNat / 10 : Nat) : Int) + ((al.cs.d.toNat % 10 : Nat) : Int) = al.cs.d := by omega
      have hns : isSpace (dch (al.cs.d.toNat / 10)) = false := digit_not_space _ (dch_isDigit _ (by omega))
      rw [List.cons_append, List.cons_append, List.nil_append, skipSpace_cons_ns _ _ hns] at hd
      have hd' : d = dch (al.cs.d.toNat / 10) :: dch (al.cs.d.toNat % 10) :: rest := by
        rcases hd with hd | ⟨_, hd⟩ <;> exact hd
      subst hd'
      refine ⟨_, stepSpec_e_two sp st (al.cs.d.toNat / 10) (al.cs.d.toNat % 10) rest f' hf (by omega) (by omega)
        (by omega) (by omega), rfl, rfl, ?_⟩
      rw [hx]
      stepok
  · have hd' : d = renderConv (toConv k) al t fs ++ rest := by
      rcases hd with hd | ⟨_, hd⟩
      · exact hd
      · rw [hd, skip_app _ _ ⟨c, r, hc, hsp hke⟩]
    subst hd'
    clear hd hc hsp
    cases k with
    | e => exact absurd rfl hke
    | Y =>
      have hr : renderConv (toConv .Y) al t fs = format64 0 al.cs.y := (format64_zero _).symm
      rw [hr]
      refine ⟨_, stepSpec_Y sp st al.cs.y rest f' hf E.yr (hfd rfl), rfl, rfl, ?_⟩
      stepok
    | s =>
      have hr : renderConv (toConv .s) al t fs = format64 0 t := (format64_zero _).symm
      rw [hr]
      refine ⟨_, stepSpec_s sp st t rest f' hf E.tr (hfd rfl), rfl, rfl, ?_⟩
      stepok
    | m =>
      have hr : renderConv (toConv .m) al t fs = (format02d al.cs.m).val := two_eq _ (by omega) (by omega)
      rw [hr]
      refine ⟨_, stepSpec_m sp st al.cs.m rest f' hf hm1 hm2, rfl, rfl, ?_⟩
      stepok
    | d =>
      have hr : renderConv (toConv .d) al t fs = (format02d al.cs.d).val := two_eq _ (by omega) (by omega)
      rw [hr]
      refine ⟨_, stepSpec_d sp st al.cs.d rest f' hf hd1 hd2, rfl, rfl, ?_⟩
      stepok
    | H =>
      have hr : renderConv (toConv .H) al t fs = (format02d al.cs.hh).val := two_eq _ (by omega) (by omega)
      rw [hr]
      refine ⟨_, stepSpec_H sp st al.cs.hh rest f' hf hh1 hh2, rfl, rfl, ?_⟩
      stepok
    | M =>
      have hr : renderConv (toConv .M) al t fs = (format02d al.cs.mm).val := two_eq _ (by omega) (by omega)
      rw [hr]
      refine ⟨_, stepSpec_M sp st al.cs.mm rest f' hf hmm1 hmm2, rfl, rfl, ?_⟩
      stepok
    | S =>
      have hr : renderConv (toConv .S) al t fs = (format02d al.cs.ss).val := two_eq _ (by omega) (by omega)
      rw [hr]
      refine ⟨_, stepSpec_S sp st al.cs.ss rest f' hf hs1 hs2, rfl, rfl, ?_⟩
      stepok
    | secStar =>
      have hr : renderConv (toConv .secStar) al t fs =
          (format02d al.cs.ss).val ++ (if fracStar fs = [] then [] else 46 :: fracStar fs) := by
        rw [← two_eq _ hs1 (by omega)]; rfl
      rw [hr, List.append_assoc]
      refine ⟨_, stepSpec_secStar sp st al.cs.ss fs rest f' hf hs1 hs2 E.fs0 E.fs1 (hfd rfl) (hfp rfl) hsub,
        rfl, rfl, ?_⟩
      stepok
    | secN n =>
      obtain ⟨h1, h2⟩ := hv
      have hr : renderConv (toConv (.secN n)) al t fs = (format02d al.cs.ss).val ++ 46 :: Lex.frac n fs := by
        rw [← two_eq _ hs1 (by omega)]
        show decPad 2 al.cs.ss.toNat ++ (if n = 0 then [] else 46 :: Lex.frac n fs) = _
        rw [if_neg (by omega)]
      rw [hr, List.append_assoc, List.cons_append]
      refine ⟨_, stepSpec_secN sp st n al.cs.ss fs rest f' (by rw [hf]; simp [spellC]) h1 h2 hs1 hs2
        E.fs0 E.fs1 (hfd rfl), rfl, rfl, ?_⟩
      stepok
    | fracStar =>
      have hr : renderConv (toConv .fracStar) al t fs = starFText fs := rfl
      rw [hr]
      refine ⟨_, stepSpec_fracStar sp st fs rest f' hf E.fs0 E.fs1 (hfd rfl), rfl, rfl, ?_⟩
      stepok
    | fracN n =>
      obtain ⟨h1, h2⟩ := hv
      have hr : renderConv (toConv (.fracN n)) al t fs = Lex.frac n fs := by
        show (if n = 0 then [] else Lex.frac n fs) = _
        rw [if_neg (by omega)]
      rw [hr]
      refine ⟨_, stepSpec_fracN sp st n fs rest f' (by rw [hf]; simp [spellC]) h1 h2 E.fs0 E.fs1 (hfd rfl),
        rfl, rfl, ?_⟩
      stepok
    | zStar =>
      have hr : renderConv (toConv .zStar) al t fs = (formatOffset al.offset [58, 42]).val :=
        offHMS_eq _ E.off1 E.off2
      rw [hr]
      refine ⟨_, stepSpec_Estarz sp st al.offset rest f' hf E.off1 E.off2, rfl, rfl, ?_⟩
      stepok
    | zColon =>
      have hr : renderConv (toConv .zColon) al t fs = (formatOffset al.offset [58, 42]).val :=
        offHMS_eq _ E.off1 E.off2
      rw [hr]
      refine ⟨_, stepSpec_zColon sp st al.offset rest f' hf E.off1 E.off2, rfl, rfl, ?_⟩
      stepok
    | zColon3 =>
      have hr : renderConv (toConv .zColon3) al t fs = offMin al.offset := rfl
      rw [hr]
      refine ⟨_, stepSpec_zColon3 sp st al.offset _ rest f' hf
        (parseOffset_offMin al.offset E.off1 E.off2 rest (hfd rfl) (hfc rfl)), rfl, rfl, ?_⟩
      stepok
    | zE =>
      have hr : renderConv (toConv .zE) al t fs = offHM true al.offset := rfl
      rw [hr]
      refine ⟨_, stepSpec_zE sp st al.offset _ rest f' hf
        (parseOffset_offHM_sep al.offset E.off1 E.off2 (hmin rfl) rest (hfd rfl) (hfc rfl)), rfl, rfl, ?_⟩
      stepok
    | zColon1 =>
      have hr : renderConv (toConv .zColon1) al t fs = offHM true al.offset := rfl
      rw [hr]
      refine ⟨_, stepSpec_zColon1 sp st al.offset _ rest f' hf
        (parseOffset_offHM_sep al.offset E.off1 E.off2 (hmin rfl) rest (hfd rfl) (hfc rfl)), rfl, rfl, ?_⟩
      stepok
    | z =>
      have hr : renderConv (toConv .z) al t fs = offHM false al.offset := rfl
      rw [hr]
      refine ⟨_, stepSpec_z sp st al.offset _ rest f' hf
        (parseOffset_offHM_nosep al.offset E.off1 E.off2 (hmin rfl) rest (hfd rfl)), rfl, rfl, ?_⟩
      stepok
    | y4 =>
      have hr : renderConv (toConv .y4) al t fs = year4 al.cs.y := rfl
      rw [hr]
      refine ⟨_, stepSpec_y4 sp st al.cs.y rest f' hf (hy4 rfl).1 (hy4 rfl).2, rfl, rfl, ?_⟩
      stepok
    | eT =>
      have hr : renderConv (toConv .eT) al t fs = [84] := rfl
      rw [hr]
      refine ⟨_, stepSpec_ET sp st rest f' hf, rfl, rfl, ?_⟩
      stepok

end Cctz.Rtc
