import Cctz.Model.Parse
import Cctz.Spec.FormatSpec
