/-
  C08 helper proofs (entry point).  The lemmas live in the `Fm*` files:
  `FmRender`  format64 / format02d / formatOffset against the documented renderings, lengths;
  `FmLoop`    `formatLoop` cut into named pieces, the cursor scans;
  `FmLiteral` literal text and doubled percent signs;
  `FmRfc`     which branch an iteration takes, symbolic evaluation of the RFC 3339 format;
  `FmSafe`    fuel, indices and the scratch buffer for arbitrary format strings.
-/
import Cctz.Proofs.FmRender
import Cctz.Proofs.FmLoop
import Cctz.Proofs.FmLiteral
import Cctz.Proofs.FmRfc
import Cctz.Proofs.FmSafe
