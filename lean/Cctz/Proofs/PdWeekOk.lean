/-
  `FromWeek` raises no flag: every date it touches lies within a few hundred days of January 1st of
  a year in (-400, 400).
-/
import Cctz.Proofs.PdWeek
import Cctz.Proofs.LexOk

namespace Cctz.Pd
open Cctz Cctz.Bytes Cctz.Format Cctz.Parse Cctz.Spec Cctz.Tz Cctz.Pa

theorem ok_ite {α : Type} {c : Prop} [Decidable c] {x y : Ck α} (h1 : c → x.ok) (h2 : ¬ c → y.ok) :
    (if c then x else y).ok := by
  split
  · exact h1 ‹_›
  · exact h2 ‹_›

theorem inI64_small (x : Int) (h1 : -100000 < x) (h2 : x < 100000) : inI64 x := by
  unfold inI64 i64min i64max; omega

theorem dayNum_m1000 : dayNum (-1000) 1 1 = -1084770 := by decide
theorem dayNum_p1000 : dayNum 1000 1 1 = -354285 := by decide
theorem dayNum_m400 : dayNum (-400) 1 1 = -865625 := by decide
theorem dayNum_p400 : dayNum 400 1 1 = -573431 := by decide

theorem jan1_mono (a b : Int) (h : a ≤ b) : dayNum a 1 1 ≤ dayNum b 1 1 := by
  by_cases e : a = b
  · subst e; exact Int.le_refl _
  · have := daysBeforeYear_lt a b (by omega)
    have := daysInYear_cases a
    simp only [dayNum, daysBeforeMonth, cumDays]
    simp
    omega

/-- a day within the window has a small year -/
theorem year_small (f : Fields) (hv : Valid f) (ha : Aligned .day f)
    (h1 : -1084770 ≤ dayNum f.y f.m f.d) (h2 : dayNum f.y f.m f.d ≤ -354285) :
    -1000 ≤ f.y ∧ f.y ≤ 1000 := by
  have v1 : Valid (⟨-1000, 1, 1, 0, 0, 0⟩ : Fields) := by decide
  have v2 : Valid (⟨1000, 1, 1, 0, 0, 0⟩ : Fields) := by decide
  constructor
  · exact year_le_of_unitNum_le .day v1 hv ⟨rfl, rfl, rfl⟩ ha (by
      show dayNum (-1000) 1 1 ≤ _; rw [dayNum_m1000]; exact h1)
  · exact year_le_of_unitNum_le .day hv v2 ha ⟨rfl, rfl, rfl⟩ (by
      show _ ≤ dayNum 1000 1 1; rw [dayNum_p1000]; exact h2)

/-- the day `FromWeek` lands on lies within three years of the reduced year -/
theorem weekCd_year (weekNum : Int) (startSunday : Bool) (year wday : Int) (hw : 0 ≤ weekNum ∧ weekNum ≤ 53) :
    -1000 ≤ (weekCd weekNum startSunday year wday).y ∧ (weekCd weekNum startSunday year wday).y ≤ 1000 := by
  obtain ⟨_, _, hlo, hhi⟩ := Wd.cmod400_decomp year
  have hJ1 := jan1_mono (-400) (cmod year 400) (by omega)
  have hJ2 := jan1_mono (cmod year 400) 400 (by omega)
  rw [dayNum_m400] at hJ1; rw [dayNum_p400] at hJ2
  obtain ⟨v, a, W0, k, h1, h2, _, h4, h5, _, h7⟩ := weekCd_spec weekNum startSunday year wday
  exact year_small _ v a (by omega) (by omega)

/-- … so the year it returns is within 1400 of the year it was given -/
theorem weekDate_year_near (weekNum : Int) (startSunday : Bool) (year wday y' m' d' : Int)
    (hw : 0 ≤ weekNum ∧ weekNum ≤ 53) (h : weekDate weekNum startSunday year wday = some (y', m', d')) :
    year - 1400 ≤ y' ∧ y' ≤ year + 1400 := by
  obtain ⟨_, _, hlo, hhi⟩ := Wd.cmod400_decomp year
  have hy := weekCd_year weekNum startSunday year wday hw
  unfold weekDate at h
  simp only [] at h
  split at h
  · cases h
  · simp only [Option.some.injEq, Prod.mk.injEq] at h
    omega

theorem nextWeekday_ok (cd : Fields) (w : Int) (hv : Valid cd) (ha : Aligned .day cd) (hw0 : 0 ≤ w)
    (hw6 : w ≤ 6) (h1 : -1084000 ≤ dayNum cd.y cd.m cd.d) (h2 : dayNum cd.y cd.m cd.d ≤ -355000) :
    (Civil.nextWeekday cd w).ok := by
  obtain ⟨_, hpv, hpa, k, hk1, hk7, hpd, _⟩ := Wd.nextWeekday_holds cd w hv hw0 hw6
  have hys := year_small cd hv ha (by omega) (by omega)
  have hyr := year_small _ hpv hpa (by omega) (by omega)
  obtain ⟨gok, gval⟩ := Wd.getWeekday_correct cd hv
  have hbr := Wd.weekdayOfDay_range (dayNum cd.y cd.m cd.d)
  have hpval : (Civil.nextWeekday cd w).val =
      (Civil.civilAdd .day cd
        ((Civil.findFrom Gen.kWeekdaysForw w
            ((Civil.findFrom Gen.kWeekdaysForw (Civil.getWeekday cd).val 0 15).val.toNat + 1) 15).val -
          (Civil.findFrom Gen.kWeekdaysForw (Civil.getWeekday cd).val 0 15).val)).val := rfl
  rw [hpval] at hyr
  unfold Civil.nextWeekday
  simp only [Ck.bind_ok]
  rw [gval] at hyr ⊢
  obtain ⟨iok, jok, hji⟩ := Wd.forw_walk (weekdayOfDay (dayNum cd.y cd.m cd.d)) w hbr.1 hbr.2 hw0 hw6
  refine ⟨gok, iok, jok, ?_⟩
  rw [hji] at hyr ⊢
  exact civilAdd_ok .day _ _ hv ha (inI64_small _ (by omega) (by omega))
    (inI64_small _ (by omega) (by omega)) (inI64_small _ (by omega) (by omega))

theorem civilNew_year_ok (y : Int) : (Civil.civilNew .year y 1 1 0 0 0).ok := by
  unfold Civil.civilNew Civil.nSec
  simp

theorem fromWeek_ok (weekNum : Int) (startSunday : Bool) (year : Int) (tm : Tm)
    (hw : 0 ≤ weekNum ∧ weekNum ≤ 53) (hy : inI64 year) : (fromWeek weekNum startSunday year tm).ok := by
  obtain ⟨q, hq, hlo, hhi⟩ := Wd.cmod400_decomp year
  have hJ1 := jan1_mono (-400) (cmod year 400) (by omega)
  have hJ2 := jan1_mono (cmod year 400) 400 (by omega)
  rw [dayNum_m400] at hJ1; rw [dayNum_p400] at hJ2
  unfold fromWeek
  simp only [Ck.bind_ok, civilNew_year_val, chk32_val, chk64_val]
  have hyd : Civil.align .day ⟨cmod year 400, 1, 1, 0, 0, 0⟩ = ⟨cmod year 400, 1, 1, 0, 0, 0⟩ := rfl
  rw [hyd]
  have hws : (0 : Int) ≤ (if startSunday then 6 else 0) ∧ (if startSunday then (6 : Int) else 0) ≤ 6 := by
    split <;> omega
  have vyd : Valid ⟨cmod year 400, 1, 1, 0, 0, 0⟩ := Lx.valid_jan1 _
  obtain ⟨pok, py1, py2⟩ := Lx.prevWeekday_ok (cmod year 400) (if startSunday then 6 else 0) ⟨hlo, hhi⟩
    hws.1 hws.2
  obtain ⟨_, v0, a0, k1, k1a, k1b, d0, _⟩ := Wd.prevWeekday_holds ⟨cmod year 400, 1, 1, 0, 0, 0⟩
    (if startSunday then 6 else 0) vyd hws.1 hws.2
  generalize (Civil.prevWeekday ⟨cmod year 400, 1, 1, 0, 0, 0⟩ (if startSunday then 6 else 0)).val = cd0
    at v0 a0 d0 py1 py2
  replace d0 : dayNum cd0.y cd0.m cd0.d = dayNum (cmod year 400) 1 1 - k1 := d0
  obtain ⟨v1, a1, u1⟩ := civilSub_spec .day cd0 1 v0 a0
  have u1' : dayNum (Civil.civilSub .day cd0 1).val.y (Civil.civilSub .day cd0 1).val.m
      (Civil.civilSub .day cd0 1).val.d = dayNum cd0.y cd0.m cd0.d - 1 := u1
  have hy1 := year_small _ v1 a1 (by omega) (by omega)
  have sok : (Civil.civilSub .day cd0 1).ok :=
    civilSub_ok .day cd0 1 v0 a0 (inI64_small _ (by omega) (by omega)) (by decide)
      (inI64_small _ (by omega) (by omega))
  generalize (Civil.civilSub .day cd0 1).val = cdm1 at v1 a1 u1' hy1
  obtain ⟨t0, t6⟩ := fromTmWday_range tm.wday
  have nok := nextWeekday_ok cdm1 (fromTmWday tm.wday) v1 a1 t0 t6 (by omega) (by omega)
  obtain ⟨_, v2, a2, k2, k2a, k2b, d2, _⟩ := Wd.nextWeekday_holds cdm1 (fromTmWday tm.wday) v1 t0 t6
  have hy2 := year_small _ v2 a2 (by omega) (by omega)
  generalize (Civil.nextWeekday cdm1 (fromTmWday tm.wday)).val = nw at v2 a2 d2 hy2
  obtain ⟨v3, a3, u3⟩ := civilAdd_spec .day nw (weekNum * 7) v2 a2
  have u3' : dayNum (Civil.civilAdd .day nw (weekNum * 7)).val.y (Civil.civilAdd .day nw (weekNum * 7)).val.m
      (Civil.civilAdd .day nw (weekNum * 7)).val.d = dayNum nw.y nw.m nw.d + weekNum * 7 := u3
  have hy3 := year_small _ v3 a3 (by omega) (by omega)
  have aok : (Civil.civilAdd .day nw (weekNum * 7)).ok :=
    civilAdd_ok .day nw _ v2 a2 (inI64_small _ (by omega) (by omega)) (inI64_small _ (by omega) (by omega))
      (inI64_small _ (by omega) (by omega))
  generalize (Civil.civilAdd .day nw (weekNum * 7)).val = cd at hy3
  refine ⟨civilNew_year_ok _, pok, sok, nok, ?_, aok, ?_, ?_⟩
  · rw [chk32_ok]; unfold inI32 i32min i32max; omega
  · rw [chk64_ok]; exact inI64_small _ (by omega) (by omega)
  · refine ok_ite (fun _ => ?_) (fun _ => Ck.pure_ok _)
    have hj : ∀ (u : Unit), year + (cd.y - cmod year 400) ≤ i64max → i64min ≤ year + (cd.y - cmod year 400) →
        ((fun (_ : Unit) => do
          let y' ← chk64 (year + (cd.y - cmod year 400))
          pure (some (y', ({ tm with mon := cd.m - 1, mday := cd.d } : Tm)))) u : Ck (Option (Int × Tm))).ok := by
      intro _ h1 h2
      simp only [Ck.bind_ok, chk64_ok]
      exact ⟨⟨h2, h1⟩, Ck.pure_ok _⟩
    refine ok_ite (fun hp => ok_ite (fun _ => Ck.pure_ok _) (fun hn => ?_))
      (fun hp => ok_ite (fun _ => Ck.pure_ok _) (fun hn => ?_))
    · exact hj () (by omega) (by unfold inI64 at hy; omega)
    · exact hj () (by unfold inI64 at hy; omega) (by omega)

end Cctz.Pd
