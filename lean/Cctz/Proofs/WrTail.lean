/-
  C07Whole helper proofs, parse side: from the state the specifier loop ends in to the result of
  `parse` — the civil second is rebuilt without normalisation, the offset guard does not fire, and
  the lookup of `cs - offset` in the built-in UTC table is UNIQUE at the original instant.
-/
import Cctz.Proofs.WrLoop
import Cctz.Proofs.CivilArith
import Cctz.Proofs.LtBuiltin
import Cctz.Properties.C02

namespace Cctz.Wr
open Cctz Cctz.Bytes Cctz.Format Cctz.Parse Cctz.Spec Cctz.Tz Cctz.Tl Cctz.Pa

/-! ### the civil second -/

theorem civilNew_valid (cs : Fields) (hv : Valid cs) :
    (Civil.civilNew .second cs.y cs.m cs.d cs.hh cs.mm cs.ss).val = cs := by
  show Civil.align .second (Civil.nSec cs.y cs.m cs.d cs.hh cs.mm cs.ss).val = cs
  have hn := nSec_norm cs.y cs.m cs.d cs.hh cs.mm cs.ss
  obtain ⟨hm1, hm2, hd1, hd2, hh1, hh2, hmm1, hmm2, hs1, hs2⟩ := hv
  have hv : Valid cs := ⟨hm1, hm2, hd1, hd2, hh1, hh2, hmm1, hmm2, hs1, hs2⟩
  have e1 : (cs.hh + (cs.mm + cs.ss / 60) / 60) % 24 = cs.hh := by omega
  have e2 : (cs.mm + cs.ss / 60) % 60 = cs.mm := by omega
  have e3 : cs.ss % 60 = cs.ss := by omega
  have e4 : (cs.hh + (cs.mm + cs.ss / 60) / 60) / 24 = 0 := by omega
  rw [e1, e2, e3, e4, monthDay_of_range _ _ _ hm1 hm2, Int.add_zero] at hn
  have hvr := hn.valid ⟨hh1, hh2⟩ ⟨hmm1, hmm2⟩ ⟨hs1, hs2⟩
  have hsr := hn.secNum
  show (Civil.nSec cs.y cs.m cs.d cs.hh cs.mm cs.ss).val = cs
  apply secNum_inj hvr hv
  rw [hsr]; rfl

def cmaxF : Fields := ⟨i64max, 12, 31, 23, 59, 59⟩
def cminF : Fields := ⟨i64min, 1, 1, 0, 0, 0⟩

theorem valid_cmaxF : Valid cmaxF := by decide
theorem valid_cminF : Valid cminF := by decide
theorem secNum_cmaxF : secNum cmaxF = 291061508645168328976559999 := by decide
theorem secNum_cminF : secNum cminF = -291061508645168453310998400 := by decide

theorem cmax_val : (Civil.civilNew .second i64max 12 31 23 59 59).val = cmaxF := civilNew_valid cmaxF valid_cmaxF
theorem cmin_val : (Civil.civilNew .second i64min 1 1 0 0 0).val = cminF := civilNew_valid cminF valid_cminF

/-- a civil second within a day of the int64 range has a year far inside int64 -/
theorem year_bounds (cs : Fields) (hv : Valid cs) (h1 : -9223372036854862208 ≤ secNum cs)
    (h2 : secNum cs ≤ 9223372036854862208) : -300000000000 ≤ cs.y ∧ cs.y ≤ 300000000000 := by
  have vhi : Valid ⟨300000000000, 1, 1, 0, 0, 0⟩ := by decide
  have vlo : Valid ⟨-300000000000, 12, 31, 23, 59, 59⟩ := by decide
  have shi : secNum ⟨300000000000, 1, 1, 0, 0, 0⟩ = 9467085537832780800 := by decide
  have slo : secNum ⟨-300000000000, 12, 31, 23, 59, 59⟩ = -9467085662135596801 := by decide
  constructor
  · exact year_le_of_unitNum_le .second vlo hv trivial trivial (by show secNum _ ≤ secNum _; omega)
  · exact year_le_of_unitNum_le .second hv vhi trivial trivial (by show secNum _ ≤ secNum _; omega)

/-- the offset-adjustment guard of `parse` does not fire -/
theorem guard_false (cs : Fields) (off : Int) (hv : Valid cs) (h1 : -9223372036854862208 ≤ secNum cs)
    (h2 : secNum cs ≤ 9223372036854862208) (ho1 : -86400 < off) (ho2 : off < 86400) :
    (if off < 0 then do
        let lim ← Civil.civilAdd .second cmaxF off
        pure (Civil.lt lim cs)
      else if off > 0 then do
        let lim ← Civil.civilAdd .second cminF off
        pure (Civil.lt cs lim)
      else pure false : Ck Bool).val = false := by
  split
  · obtain ⟨v, _, u⟩ := civilAdd_spec .second cmaxF off valid_cmaxF trivial
    rw [Ck.bindv, Ck.pure_val]
    apply Bool.eq_false_iff.2
    rw [Ne, lt_iff_secNum v hv]
    have u' : secNum (Civil.civilAdd .second cmaxF off).val = secNum cmaxF + off := u
    rw [u', secNum_cmaxF]; omega
  · split
    · obtain ⟨v, _, u⟩ := civilAdd_spec .second cminF off valid_cminF trivial
      rw [Ck.bindv, Ck.pure_val]
      apply Bool.eq_false_iff.2
      rw [Ne, lt_iff_secNum hv v]
      have u' : secNum (Civil.civilAdd .second cminF off).val = secNum cminF + off := u
      rw [u', secNum_cminF]; omega
    · rfl

/-! ### the lookup in the built-in UTC table -/

theorem fixed_offAt (off u : Int) : offAt (fixedZone off) u = off := by
  unfold offAt; rw [fixed_typeAt]; rfl

theorem utc_makeTime (cs : Fields) (hv : Valid cs) (hr : inI64 (secNum cs)) :
    (makeTime (fixedZone 0) 0 cs).val.1.pre = secNum cs := by
  have h := C02.makeTime (fixedZone 0) 0 cs (fixed_wf 0) (fixed_cols 0) (Lt.fixed_separated 0)
    (Lt.fixed_timesInRange 0) hv (Or.inl rfl)
  simp only at h
  have hshow : ∀ u, shows (fixedZone 0) u (secNum cs) ↔ u = secNum cs := by
    intro u; unfold shows; rw [fixed_offAt]; omega
  split at h
  · obtain ⟨t, ht, hpre, _⟩ := h
    have : t = secNum cs := ((ht (secNum cs)).1 ((hshow _).2 rfl)).symm
    rw [hpre, this, Tc.clamp64_of_in hr]
  · exact absurd ((hshow (secNum cs)).2 rfl) (h.1 _)
  · obtain ⟨i, hi, _, _, hpre, hpost, hlt, hle⟩ := h
    rw [fixed_size] at hi
    rw [Lt.fixed_offBefore 0 i hi] at hpre
    rw [Lt.fixed_offOf 0 i hi] at hpost
    omega

/-! ### `parse` after the loop -/

/-- from the state the loop ends in to the result -/
theorem parse_tail (sp : Strptime) (fmt input : Bytes) (z : Tz.Zone) (al : Tz.AbsLookup) (t fs : Int)
    (hend : loopEnd sp fmt input = endState al fs) (hv : Valid al.cs)
    (hsec : secNum al.cs = t + al.offset) (ho1 : -86400 < al.offset) (ho2 : al.offset < 86400)
    (ht1 : i64min + 86400 ≤ t) (ht2 : t ≤ i64max - 86400) :
    (parse sp fmt input z).val.1 = .ok t fs := by
  unfold parse
  unfold loopEnd at hend
  extract_lets data st0 st tmsrc tm
  change st = endState al fs at hend
  clear_value st
  subst hend
  have htm : tm = ⟨al.cs.ss, al.cs.mm, al.cs.hh, al.cs.d, al.cs.m - 1, 70, 4, 0, 0⟩ := rfl
  clear_value tm
  subst htm
  clear tmsrc
  obtain ⟨hm1, hm2, hd1, hd2, hh1, hh2, hmm1, hmm2, hs1, hs2⟩ := hv
  have hv : Valid al.cs := ⟨hm1, hm2, hd1, hd2, hh1, hh2, hmm1, hmm2, hs1, hs2⟩
  have h60 : (al.cs.ss == 60) = false := by
    rw [beq_eq_false_iff_ne]; omega
  simp only [endState, mkSt, Bool.false_eq_true, if_false, List.isEmpty_nil, skipSpace,
    List.dropWhile_nil, Bool.not_true, if_true, ne_eq, not_true_eq_false, h60]
  rw [Ck.bindv, reset_val, Ck.bindv, Ck.pure_val]
  simp only []
  rw [if_neg (by omega), Ck.bindv, Ck.pure_val]
  simp only []
  rw [Ck.bindv, Ck.pure_val]
  simp only []
  rw [Ck.bindv, chk32_val, show al.cs.m - 1 + 1 = al.cs.m by omega, Ck.bindv, civilNew_valid al.cs hv]
  have hb1 : -9223372036854862208 ≤ secNum al.cs := by unfold i64min at ht1; omega
  have hb2 : secNum al.cs ≤ 9223372036854862208 := by unfold i64max at ht2; omega
  rw [if_neg (by simp), Ck.bindv, cmax_val, Ck.bindv, cmin_val, Ck.bindv,
    guard_false al.cs al.offset hv hb1 hb2 ho1 ho2]
  simp only [Bool.false_eq_true, if_false]
  obtain ⟨vs, _, us⟩ := civilSub_spec .second al.cs al.offset hv trivial
  have us' : secNum (Civil.civilSub .second al.cs al.offset).val = t := by
    have : secNum (Civil.civilSub .second al.cs al.offset).val = secNum al.cs - al.offset := us
    omega
  have hin : inI64 t := by unfold inI64; unfold i64min at *; unfold i64max at *; omega
  have hpre := utc_makeTime _ vs (by rw [us']; exact hin)
  rw [us'] at hpre
  rw [Ck.bindv, Ck.bindv, hpre, if_neg (by unfold i64max at *; omega), if_neg (by unfold i64min at *; omega),
    Ck.pure_val]

/-- the whole round trip -/
theorem full_roundtrip (al : Tz.AbsLookup) (t fs : Int) (z' : Tz.Zone) (sf : Strftime) (sp : Strptime)
    (hv : Valid al.cs) (hsec : secNum al.cs = t + al.offset) (ho1 : -86400 < al.offset)
    (ho2 : al.offset < 86400) (ht1 : i64min + 86400 ≤ t) (ht2 : t ≤ i64max - 86400)
    (h0 : 0 ≤ fs) (h1 : fs < 1000000000000000) :
    (parse sp (ofString "%Y-%m-%d%ET%H:%M:%E*S%E*z")
      (render sf (formatSegs (ofString "%Y-%m-%d%ET%H:%M:%E*S%E*z") al t fs).val.1
        (formatSegs (ofString "%Y-%m-%d%ET%H:%M:%E*S%E*z") al t fs).val.2) z').val.1 = .ok t fs := by
  have hb1 : -9223372036854862208 ≤ secNum al.cs := by unfold i64min at ht1; omega
  have hb2 : secNum al.cs ≤ 9223372036854862208 := by unfold i64max at ht2; omega
  have hy : inI64 al.cs.y := by
    have := year_bounds al.cs hv hb1 hb2
    unfold inI64 i64min i64max; omega
  rw [full_render sf al t fs h0, full_ofString]
  exact parse_tail sp fullFmt (fullText al fs) z' al t fs (loopEnd_full sp al fs hv hy ho1 ho2 h0 h1)
    hv hsec ho1 ho2 ht1 ht2

end Cctz.Wr
