/-
  The two bisections (`upperBoundCivil`, `upperBoundTime`) return the threshold of a monotone
  predicate on the table.
-/
import Cctz.Model.Tz
import Cctz.Spec.TableSem

namespace Cctz.Tc
open Cctz Cctz.Tz Cctz.Spec

/-- bisection for the first index in `[lo, hi)` at which `P` holds -/
def bis (P : Nat → Bool) (lo hi : Nat) : Nat → Nat
  | 0 => lo
  | fuel + 1 =>
    if lo < hi then
      let mid := lo + (hi - lo) / 2
      if P mid then bis P lo mid fuel else bis P (mid + 1) hi fuel
    else lo

theorem bis_spec (P : Nat → Bool) (n : Nat) (mono : ∀ i j, i ≤ j → j < n → P i = true → P j = true) :
    ∀ (fuel lo hi : Nat), lo ≤ hi → hi ≤ n → hi - lo < fuel →
      lo ≤ bis P lo hi fuel ∧ bis P lo hi fuel ≤ hi ∧
      (∀ i, lo ≤ i → i < bis P lo hi fuel → P i = false) ∧
      (∀ i, bis P lo hi fuel ≤ i → i < hi → P i = true) := by
  intro fuel
  induction fuel with
  | zero => intro lo hi _ _ h; omega
  | succ fuel ih =>
    intro lo hi hle hn hf
    unfold bis
    by_cases hlt : lo < hi
    · simp only [hlt, if_true]
      have hmid1 : lo ≤ lo + (hi - lo) / 2 := by omega
      have hmid2 : lo + (hi - lo) / 2 < hi := by omega
      generalize lo + (hi - lo) / 2 = mid at hmid1 hmid2
      cases hp : P mid with
      | true =>
        simp only [if_true]
        obtain ⟨h1, h2, h3, h4⟩ := ih lo mid hmid1 (by omega) (by omega)
        refine ⟨h1, by omega, h3, ?_⟩
        intro i hi1 hi2
        by_cases him : i < mid
        · exact h4 i hi1 him
        · exact mono mid i (by omega) (by omega) hp
      | false =>
        simp only [Bool.false_eq_true, if_false]
        obtain ⟨h1, h2, h3, h4⟩ := ih (mid + 1) hi (by omega) hn (by omega)
        refine ⟨by omega, h2, ?_, h4⟩
        intro i hi1 hi2
        by_cases him : mid + 1 ≤ i
        · exact h3 i him hi2
        · cases hpi : P i with
          | false => rfl
          | true => have := mono i mid (by omega) (by omega) hpi; rw [hp] at this; exact absurd this (by simp)
    · simp only [hlt, if_false]
      exact ⟨Nat.le_refl _, hle, fun i h1 h2 => absurd h2 (by omega), fun i h1 h2 => absurd h2 (by omega)⟩

theorem ubc_go_eq (a : Array Transition) (cs : Fields) : ∀ (fuel lo hi : Nat),
    upperBoundCivil.go a cs lo hi fuel =
      bis (fun mid => Civil.lt cs ((a[mid]?.map (·.civilSec)).getD epoch)) lo hi fuel := by
  intro fuel
  induction fuel with
  | zero => intro lo hi; rfl
  | succ fuel ih =>
    intro lo hi
    unfold upperBoundCivil.go bis
    simp only [ih]

theorem ubt_go_eq (a : Array Transition) (t : Int) : ∀ (fuel lo hi : Nat),
    upperBoundTime.go a t lo hi fuel =
      bis (fun mid => decide (t < (a[mid]?.map (·.unixTime)).getD 0)) lo hi fuel := by
  intro fuel
  induction fuel with
  | zero => intro lo hi; rfl
  | succ fuel ih =>
    intro lo hi
    unfold upperBoundTime.go bis
    simp only [ih, decide_eq_true_eq]

theorem civilSec_getD (z : Zone) (i : Nat) (hi : i < z.transitions.size) :
    ((z.transitions[i]?.map (·.civilSec)).getD epoch) = (trn z i).civilSec := by
  simp [trn, Array.getD_eq_getD_getElem?, hi]

theorem unixTime_getD (z : Zone) (i : Nat) (hi : i < z.transitions.size) :
    ((z.transitions[i]?.map (·.unixTime)).getD 0) = timeOf z i := by
  simp [timeOf, trn, Array.getD_eq_getD_getElem?, hi]

/-- `upperBoundCivil` on a table whose civil column is monotone for `cs` -/
theorem upperBoundCivil_spec (z : Zone) (cs : Fields)
    (mono : ∀ i j, i ≤ j → j < z.transitions.size →
      Civil.lt cs (trn z i).civilSec = true → Civil.lt cs (trn z j).civilSec = true) :
    upperBoundCivil z.transitions cs ≤ z.transitions.size ∧
    (∀ i, i < upperBoundCivil z.transitions cs → Civil.lt cs (trn z i).civilSec = false) ∧
    (∀ i, upperBoundCivil z.transitions cs ≤ i → i < z.transitions.size →
      Civil.lt cs (trn z i).civilSec = true) := by
  unfold upperBoundCivil
  rw [ubc_go_eq]
  have := bis_spec (fun mid => Civil.lt cs ((z.transitions[mid]?.map (·.civilSec)).getD epoch))
    z.transitions.size (by
      intro i j hij hj
      simp only [civilSec_getD z i (by omega), civilSec_getD z j hj]
      exact mono i j hij hj) (z.transitions.size + 1) 0 z.transitions.size (by omega) (by omega) (by omega)
  obtain ⟨_, h2, h3, h4⟩ := this
  refine ⟨h2, ?_, ?_⟩
  · intro i hi
    have := h3 i (by omega) hi
    simpa only [civilSec_getD z i (by omega)] using this
  · intro i hi hn
    have := h4 i hi hn
    simpa only [civilSec_getD z i hn] using this

/-- `upperBoundTime` counts the entries at or before `t` -/
theorem upperBoundTime_spec (z : Zone) (wf : TableWF z) (t : Int) :
    upperBoundTime z.transitions t ≤ z.transitions.size ∧
    (∀ i, i < upperBoundTime z.transitions t → timeOf z i ≤ t) ∧
    (∀ i, upperBoundTime z.transitions t ≤ i → i < z.transitions.size → t < timeOf z i) := by
  unfold upperBoundTime
  rw [ubt_go_eq]
  have := bis_spec (fun mid => decide (t < (z.transitions[mid]?.map (·.unixTime)).getD 0))
    z.transitions.size (by
      intro i j hij hj
      simp only [unixTime_getD z i (by omega), unixTime_getD z j hj, decide_eq_true_eq]
      intro h
      by_cases e : i = j
      · subst e; exact h
      · have := wf.timeSorted i j (by omega) hj
        simp only [timeOf] at *; omega) (z.transitions.size + 1) 0 z.transitions.size (by omega) (by omega) (by omega)
  obtain ⟨_, h2, h3, h4⟩ := this
  refine ⟨h2, ?_, ?_⟩
  · intro i hi
    have := h3 i (by omega) hi
    simp only [unixTime_getD z i (by omega), decide_eq_false_iff_not] at this
    omega
  · intro i hi hn
    have := h4 i hi hn
    simpa only [unixTime_getD z i hn, decide_eq_true_eq] using this

end Cctz.Tc
