/-
  Helper lemmas for C16: each parsing function of the model accepts exactly the texts of the
  corresponding relation of `Cctz.Spec.PosixGrammar`.
-/
import Cctz.Model.Posix
import Cctz.Spec.PosixGrammar
import Cctz.Proofs.IntLemmas

namespace Cctz.Posix
open Cctz Cctz.Bytes Cctz.Spec

/-! ### lists -/

theorem span_iff {α} (P : α → Bool) (p a rest : List α) :
    (p.takeWhile P = a ∧ p.dropWhile P = rest) ↔
      (p = a ++ rest ∧ (∀ c ∈ a, P c = true) ∧ (∀ c, rest.head? = some c → P c = false)) := by
  induction p generalizing a with
  | nil =>
    simp only [List.takeWhile_nil, List.dropWhile_nil]
    constructor
    · rintro ⟨rfl, rfl⟩; simp
    · rintro ⟨h, _, _⟩
      have := List.append_eq_nil_iff.mp h.symm
      exact ⟨this.1.symm, this.2.symm⟩
  | cons x xs ih =>
    by_cases hx : P x = true
    · rw [List.takeWhile_cons_of_pos hx, List.dropWhile_cons_of_pos hx]
      constructor
      · rintro ⟨rfl, h2⟩
        have := (ih (xs.takeWhile P)).mp ⟨rfl, h2⟩
        refine ⟨by rw [List.cons_append, ← this.1], ?_, this.2.2⟩
        intro c hc
        rcases List.mem_cons.mp hc with rfl | hc
        · exact hx
        · exact this.2.1 c hc
      · rintro ⟨h1, h2, h3⟩
        cases a with
        | nil =>
          simp only [List.nil_append] at h1
          have := h3 x (by rw [← h1]; rfl)
          rw [hx] at this; exact absurd this (by simp)
        | cons y ys =>
          rw [List.cons_append] at h1
          injection h1 with h1 h1'
          subst h1
          have := (ih ys).mpr ⟨h1', fun c hc => h2 c (List.mem_cons_of_mem _ hc), h3⟩
          exact ⟨by rw [this.1], this.2⟩
    · have hx' : P x = false := by simpa using hx
      rw [List.takeWhile_cons_of_neg hx, List.dropWhile_cons_of_neg hx]
      constructor
      · rintro ⟨rfl, rfl⟩
        refine ⟨rfl, by simp, ?_⟩
        intro c hc; simp at hc; rw [← hc]; exact hx'
      · rintro ⟨h1, h2, h3⟩
        cases a with
        | nil => exact ⟨rfl, by simpa using h1⟩
        | cons y ys =>
          rw [List.cons_append] at h1
          injection h1 with h1 h1'
          subst h1
          have := h2 x (List.mem_cons_self)
          exact absurd this hx

/-! ### numerals -/

theorem isDigit_iff (c : UInt8) : isDigit c = true ↔ IsDigit c := by
  simp [isDigit, IsDigit]

theorem digit_val_range (c : UInt8) (h : IsDigit c) : 0 ≤ (c.toNat : Int) - 48 ∧ (c.toNat : Int) - 48 ≤ 9 := by
  have h1 := UInt8.le_iff_toNat_le.mp h.1
  have h2 := UInt8.le_iff_toNat_le.mp h.2
  simp at h1 h2
  omega

/-- the accumulator of `numVal` -/
def numAcc (v : Int) (ds : Bytes) : Int := ds.foldl (fun v c => v * 10 + ((c.toNat : Int) - 48)) v

theorem numVal_eq (ds : Bytes) : numVal ds = numAcc 0 ds := rfl
theorem numAcc_nil (v : Int) : numAcc v [] = v := rfl
theorem numAcc_cons (v : Int) (c : UInt8) (ds : Bytes) :
    numAcc v (c :: ds) = numAcc (v * 10 + ((c.toNat : Int) - 48)) ds := rfl

theorem numAcc_ge (v : Int) (ds : Bytes) (hv : 0 ≤ v) (hd : ∀ c ∈ ds, IsDigit c) : v ≤ numAcc v ds := by
  induction ds generalizing v with
  | nil => simp [numAcc_nil]
  | cons c ds ih =>
    rw [numAcc_cons]
    have := digit_val_range c (hd c List.mem_cons_self)
    have := ih (v * 10 + ((c.toNat : Int) - 48)) (by omega) (fun x hx => hd x (List.mem_cons_of_mem _ hx))
    omega

theorem numVal_nonneg (ds : Bytes) (hd : ∀ c ∈ ds, IsDigit c) : 0 ≤ numVal ds :=
  numAcc_ge 0 ds (by omega) hd

theorem kMaxInt_div : cdiv kMaxInt 10 = 214748364 := by decide

theorem parseIntLoop_sound (p : Bytes) (v : Int) (any : Bool) (rest : Bytes) (v' : Int) (any' : Bool)
    (h : parseIntLoop p v any = some (rest, v', any')) :
    ∃ ds, p = ds ++ rest ∧ (∀ c ∈ ds, IsDigit c) ∧ v' = numAcc v ds ∧
      any' = (any || !ds.isEmpty) ∧ NextNot IsDigit rest := by
  induction p generalizing v any with
  | nil =>
    simp only [parseIntLoop] at h
    injection h with h; injection h with h1 h2; injection h2 with h2 h3
    subst h1 h2 h3
    exact ⟨[], rfl, by simp, rfl, by simp, by intro c hc; simp at hc⟩
  | cons c cs ih =>
    rw [parseIntLoop] at h
    by_cases hc : isDigit c = true
    · simp only [hc, if_true] at h
      split at h
      · exact absurd h (by simp)
      · split at h
        · exact absurd h (by simp)
        · obtain ⟨ds, h1, h2, h3, h4, h5⟩ := ih _ _ h
          refine ⟨c :: ds, by rw [h1]; rfl, ?_, ?_, ?_, h5⟩
          · intro x hx
            rcases List.mem_cons.mp hx with rfl | hx
            · exact (isDigit_iff _).mp hc
            · exact h2 x hx
          · rw [numAcc_cons]; exact h3
          · rw [h4]; simp
    · simp only [hc] at h
      injection h with h; injection h with h1 h2; injection h2 with h2 h3
      subst h1 h2 h3
      refine ⟨[], rfl, by simp, rfl, by simp, ?_⟩
      intro x hx; simp at hx; subst hx
      intro hd; exact hc ((isDigit_iff _).mpr hd)

theorem parseIntLoop_complete (ds rest : Bytes) (v : Int) (any : Bool) (hv : 0 ≤ v)
    (hd : ∀ c ∈ ds, IsDigit c) (hr : NextNot IsDigit rest) (hmax : numAcc v ds ≤ kMaxInt) :
    parseIntLoop (ds ++ rest) v any = some (rest, numAcc v ds, any || !ds.isEmpty) := by
  induction ds generalizing v any with
  | nil =>
    simp only [List.nil_append, numAcc_nil, List.isEmpty_nil, Bool.not_true, Bool.or_false]
    cases rest with
    | nil => rfl
    | cons c cs =>
      rw [parseIntLoop]
      have : ¬ isDigit c = true := fun h => hr c rfl ((isDigit_iff _).mp h)
      simp only [this]
      rfl
  | cons c cs ih =>
    have hc := hd c List.mem_cons_self
    have hr1 := digit_val_range c hc
    have hd' : ∀ x ∈ cs, IsDigit x := fun x hx => hd x (List.mem_cons_of_mem _ hx)
    rw [numAcc_cons] at hmax
    have hge := numAcc_ge (v * 10 + ((c.toNat : Int) - 48)) cs (by omega) hd'
    rw [List.cons_append, parseIntLoop]
    simp only [(isDigit_iff c).mpr hc, if_true, kMaxInt_div]
    unfold kMaxInt at hmax ⊢
    rw [if_neg (by omega), if_neg (by omega), ih _ _ (by omega) hd' hmax, numAcc_cons]
    simp
theorem parseInt_iff (p rest : Bytes) (lo hi v : Int) (hhi : hi ≤ kMaxInt) :
    parseInt p lo hi = some (rest, v) ↔
      ∃ ds, p = ds ++ rest ∧ IsNum ds lo hi v ∧ NextNot IsDigit rest := by
  unfold parseInt IsNum
  constructor
  · intro h
    split at h
    · exact absurd h (by simp)
    · rename_i r v' any hl
      split at h
      · exact absurd h (by simp)
      · rename_i hc
        injection h with h; injection h with h1 h2; subst h1 h2
        obtain ⟨ds, h1, h2, h3, h4, h5⟩ := parseIntLoop_sound _ _ _ _ _ _ hl
        simp only [Bool.or_eq_true, Bool.not_eq_true', decide_eq_true_eq, not_or, Bool.not_eq_false,
          Int.not_lt] at hc
        refine ⟨ds, h1, ⟨?_, h2, h3, hc.1.2, hc.2⟩, h5⟩
        intro hn; subst hn; simp at h4; rw [h4] at hc; simp at hc
  · rintro ⟨ds, h1, ⟨h2, h3, h4, h5, h6⟩, h7⟩
    subst h1
    have := parseIntLoop_complete ds rest 0 false (by omega) h3 h7 (by rw [← numVal_eq, ← h4]; omega)
    rw [this]
    have hne : ds.isEmpty = false := by cases ds <;> simp_all
    simp only [hne, Bool.not_false, Bool.or_true, Bool.not_true, Bool.false_or, ← numVal_eq, ← h4]
    rw [if_neg (by simp; omega)]
/-! ### abbreviations -/

theorem peek_cons (c : UInt8) (cs : Bytes) : peek (c :: cs) = c := rfl
theorem peek_nil : peek ([] : Bytes) = 0 := rfl

theorem peek_eq_iff (p : Bytes) (k : UInt8) (hk : k ≠ 0) : peek p = k ↔ p.head? = some k := by
  cases p with
  | nil => simp [peek_nil]; exact fun h => hk h.symm
  | cons c cs => simp [peek_cons]

theorem stop_iff (c : UInt8) : (decide (c = 45) || decide (c = 43) || decide (c = 44) || isDigit c) = true ↔ IsStop c := by
  unfold IsStop
  rw [← isDigit_iff]
  simp only [Bool.or_eq_true, decide_eq_true_eq]
  constructor
  · rintro (((h | h) | h) | h)
    · exact Or.inr (Or.inr (Or.inl h))
    · exact Or.inr (Or.inl h)
    · exact Or.inr (Or.inr (Or.inr h))
    · exact Or.inl h
  · rintro (h | h | h | h)
    · exact Or.inr h
    · exact Or.inl (Or.inl (Or.inr h))
    · exact Or.inl (Or.inl (Or.inl h))
    · exact Or.inl (Or.inr h)

theorem parseAbbr_iff (p rest a : Bytes) :
    parseAbbr p = some (rest, a) ↔ ∃ t, p = t ++ rest ∧ IsAbbr t rest a := by
  unfold parseAbbr IsAbbr
  by_cases hq : peek p = 60
  · simp only [hq, if_true]
    have hp : p.head? = some 60 := (peek_eq_iff p 60 (by decide)).mp hq
    cases p with
    | nil => simp at hp
    | cons c q =>
      simp only [List.head?_cons, Option.some.injEq] at hp
      subst hp
      simp only [List.drop_succ_cons, List.drop_zero]
      constructor
      · intro h
        split at h
        · exact absurd h (by simp)
        · rename_i x r hd
          injection h with h; injection h with h1 h2; subst h1 h2
          have := (span_iff (fun x => decide (x ≠ 62)) q _ _).mp ⟨rfl, hd⟩
          obtain ⟨h1, h2, h3⟩ := this
          have hx : x = 62 := by simpa using h3 x rfl
          subst hx
          refine ⟨60 :: (List.takeWhile (fun x => decide (x ≠ 62)) q ++ [62]), ?_, Or.inl ⟨rfl, ?_⟩⟩
          · simp only [List.cons_append, List.append_assoc]
            exact congrArg (List.cons 60) h1
          · intro c hc; simpa using h2 c hc
      · rintro ⟨t, ht, (⟨h1, h2⟩ | ⟨h1, h2, h3, h4, h5⟩)⟩
        · subst h1
          have hq' : q = a ++ (62 :: rest) := by simpa using ht
          have := (span_iff (fun x => decide (x ≠ 62)) q a (62 :: rest)).mpr
            ⟨hq', fun c hc => by simpa using h2 c hc, fun c hc => by simp at hc; subst hc; simp⟩
          rw [this.1, this.2]
        · subst h1
          exfalso
          cases t with
          | nil => simp at h2
          | cons y ys =>
            simp at ht h4
            exact h4 ht.1.symm
  · simp only [hq, if_false]
    have hp : p.head? ≠ some 60 := fun h => hq ((peek_eq_iff p 60 (by decide)).mpr h)
    constructor
    · intro h
      split at h
      · exact absurd h (by simp)
      · rename_i hl
        injection h with h; injection h with h1 h2
        have := (span_iff _ p _ _).mp ⟨h2, h1⟩
        rw [h2] at hl
        obtain ⟨e1, e2, e3⟩ := this
        refine ⟨a, e1, Or.inr ⟨rfl, by omega, ?_, ?_, ?_⟩⟩
        · intro c hc hs
          have := e2 c hc
          rw [(stop_iff c).mpr hs] at this; simp at this
        · cases a with
          | nil => simp
          | cons y ys => rw [e1] at hp; simpa using hp
        · intro c hc
          have := e3 c hc
          apply (stop_iff c).mp
          revert this
          cases (decide (c = 45) || decide (c = 43) || decide (c = 44) || isDigit c) <;> simp
    · rintro ⟨t, ht, (⟨h1, h2⟩ | ⟨h1, h2, h3, h4, h5⟩)⟩
      · subst h1; subst ht; simp at hp
      · subst h1
        have := (span_iff (fun c => !(decide (c = 45) || decide (c = 43) || decide (c = 44) || isDigit c)) p t rest).mpr
          ⟨ht, ?_, ?_⟩
        · rw [this.1, this.2, if_neg (by omega)]
        · intro c hc
          have := h3 c hc
          rw [← stop_iff] at this
          simpa using this
        · intro c hc
          have := h5 c hc
          rw [← stop_iff] at this
          simp only [this, Bool.not_true]
/-! ### offsets -/

theorem IsNum_lo (ds : Bytes) (lo hi v : Int) (hlo : lo ≤ 0) : IsNum ds lo hi v ↔ IsNum ds 0 hi v := by
  unfold IsNum
  constructor
  · rintro ⟨h1, h2, h3, h4, h5⟩
    exact ⟨h1, h2, h3, by rw [h3]; exact numVal_nonneg ds h2, h5⟩
  · rintro ⟨h1, h2, h3, h4, h5⟩
    exact ⟨h1, h2, h3, by omega, h5⟩

/-- the part of `parseOffset` after the sign -/
def hmsBody (p : Bytes) (lo hi sign : Int) : Option (Bytes × Int) := do
  let (p, hours) ← parseInt p lo hi
  if peek p = 58 then
    let (p, minutes) ← parseInt (p.drop 1) Gen.posix_minutes_lo Gen.posix_minutes_hi
    if peek p = 58 then
      let (p, seconds) ← parseInt (p.drop 1) Gen.posix_seconds_lo Gen.posix_seconds_hi
      pure (p, sign * ((((hours * 60) + minutes) * 60) + seconds))
    else pure (p, sign * ((((hours * 60) + minutes) * 60) + 0))
  else pure (p, sign * ((((hours * 60) + 0) * 60) + 0))

theorem parseOffset_eq (p : Bytes) (lo hi sign : Int) :
    parseOffset (some p) lo hi sign =
      if peek p = 43 then hmsBody (p.drop 1) lo hi sign
      else if peek p = 45 then hmsBody (p.drop 1) lo hi (-sign)
      else hmsBody p lo hi sign := by
  unfold parseOffset hmsBody
  simp only [Option.bind_eq_bind, Option.bind_some]
  by_cases h1 : peek p = 43
  · simp only [h1, if_true]
  · by_cases h2 : peek p = 45
    · have : ¬ (45 : UInt8) = 43 := by decide
      simp only [h2, this, if_true, if_false]
    · simp only [h1, h2, if_false]

theorem parseOffset_none (lo hi sign : Int) : parseOffset none lo hi sign = none := rfl

theorem peek58_iff (p : Bytes) : peek p = 58 ↔ ∃ q, p = 58 :: q := by
  cases p with
  | nil => simp [peek_nil]
  | cons c cs => simp [peek_cons]

theorem not_peek58 (p : Bytes) : ¬ peek p = 58 ↔ NextNot (· = 58) p := by
  unfold NextNot
  cases p with
  | nil => simp [peek_nil]
  | cons c cs => simp [peek_cons]

theorem hmsBody_sound (p rest : Bytes) (lo hi sg v : Int) (hlo : lo ≤ 0) (hhi : hi ≤ kMaxInt)
    (h : hmsBody p lo hi sg = some (rest, v)) :
    ∃ t w, p = t ++ rest ∧ IsHms hi t rest w ∧ v = sg * w := by
  unfold hmsBody at h
  cases h1 : parseInt p lo hi with
  | none => simp [h1] at h
  | some r1 =>
    obtain ⟨p1, hh⟩ := r1
    obtain ⟨hs, e1, n1, x1⟩ := (parseInt_iff p p1 lo hi hh hhi).mp h1
    rw [IsNum_lo _ _ _ _ hlo] at n1
    simp only [h1, Option.bind_eq_bind, Option.bind_some] at h
    by_cases c1 : peek p1 = 58
    · simp only [c1, if_true] at h
      obtain ⟨q1, hq1⟩ := (peek58_iff p1).mp c1
      subst hq1
      simp only [List.drop_succ_cons, List.drop_zero] at h
      cases h2 : parseInt q1 Gen.posix_minutes_lo Gen.posix_minutes_hi with
      | none => simp [h2] at h
      | some r2 =>
        obtain ⟨p2, mm⟩ := r2
        obtain ⟨ms, e2, n2, x2⟩ := (parseInt_iff q1 p2 _ _ mm (by decide)).mp h2
        simp only [h2, Option.bind_some] at h
        by_cases c2 : peek p2 = 58
        · simp only [c2, if_true] at h
          obtain ⟨q2, hq2⟩ := (peek58_iff p2).mp c2
          subst hq2
          simp only [List.drop_succ_cons, List.drop_zero] at h
          cases h3 : parseInt q2 Gen.posix_seconds_lo Gen.posix_seconds_hi with
          | none => simp [h3] at h
          | some r3 =>
            obtain ⟨p3, ss⟩ := r3
            obtain ⟨sd, e3, n3, x3⟩ := (parseInt_iff q2 p3 _ _ ss (by decide)).mp h3
            simp only [h3, Option.bind_some] at h
            injection h with h; injection h with h4 h5
            subst h4
            refine ⟨hs ++ 58 :: (ms ++ 58 :: sd), (hh * 60 + mm) * 60 + ss, ?_,
              Or.inr (Or.inr ⟨hs, ms, sd, hh, mm, ss, rfl, n1, n2, n3, rfl, x3⟩), h5.symm⟩
            rw [e1, e2, e3]; simp
        · simp only [c2, if_false] at h
          injection h with h; injection h with h4 h5
          subst h4
          refine ⟨hs ++ 58 :: ms, (hh * 60 + mm) * 60, ?_,
            Or.inr (Or.inl ⟨hs, ms, hh, mm, rfl, n1, n2, rfl, x2, (not_peek58 _).mp c2⟩), ?_⟩
          · rw [e1, e2]; simp
          · rw [← h5]; simp
    · simp only [c1, if_false] at h
      injection h with h; injection h with h4 h5
      subst h4
      refine ⟨hs, hh * 3600, e1, Or.inl ⟨hh, n1, rfl, x1, (not_peek58 _).mp c1⟩, ?_⟩
      rw [← h5]
      have : (hh * 60 + 0) * 60 + 0 = hh * 3600 := by omega
      rw [this]
theorem nextNot_digit_cons (c : UInt8) (cs : Bytes) (hc : ¬ IsDigit c) : NextNot IsDigit (c :: cs) := by
  intro x hx; simp at hx; subst hx; exact hc

theorem not_digit_58 : ¬ IsDigit 58 := by unfold IsDigit; decide
theorem not_digit_46 : ¬ IsDigit 46 := by unfold IsDigit; decide
theorem not_digit_47 : ¬ IsDigit 47 := by unfold IsDigit; decide
theorem not_digit_44 : ¬ IsDigit 44 := by unfold IsDigit; decide

theorem hmsBody_complete (t rest : Bytes) (lo hi sg w : Int) (hlo : lo ≤ 0) (hhi : hi ≤ kMaxInt)
    (h : IsHms hi t rest w) : hmsBody (t ++ rest) lo hi sg = some (rest, sg * w) := by
  unfold hmsBody
  rcases h with ⟨hh, n1, rfl, x1, y1⟩ | ⟨hs, ms, hh, mm, rfl, n1, n2, rfl, x1, y1⟩ |
      ⟨hs, ms, sd, hh, mm, ss, rfl, n1, n2, n3, rfl, x1⟩
  · rw [← IsNum_lo _ lo _ _ hlo] at n1
    have p1 := (parseInt_iff (t ++ rest) rest lo hi hh hhi).mpr ⟨t, rfl, n1, x1⟩
    have c1 := (not_peek58 rest).mpr y1
    simp only [p1, Option.bind_eq_bind, Option.bind_some, c1, if_false]
    have : (hh * 60 + 0) * 60 + 0 = hh * 3600 := by omega
    rw [this]; rfl
  · rw [← IsNum_lo _ lo _ _ hlo] at n1
    have e : (hs ++ 58 :: ms) ++ rest = hs ++ (58 :: (ms ++ rest)) := by simp
    have p1 := (parseInt_iff (hs ++ (58 :: (ms ++ rest))) _ lo hi hh hhi).mpr
      ⟨hs, rfl, n1, nextNot_digit_cons _ _ not_digit_58⟩
    have p2 := (parseInt_iff (ms ++ rest) rest Gen.posix_minutes_lo Gen.posix_minutes_hi mm (by decide)).mpr
      ⟨ms, rfl, n2, x1⟩
    have c1 := (not_peek58 rest).mpr y1
    simp only [e, p1, Option.bind_eq_bind, Option.bind_some, peek_cons, if_true, List.drop_succ_cons,
      List.drop_zero, p2, c1, if_false]
    simp
  · rw [← IsNum_lo _ lo _ _ hlo] at n1
    have e : (hs ++ 58 :: (ms ++ 58 :: sd)) ++ rest = hs ++ (58 :: (ms ++ (58 :: (sd ++ rest)))) := by simp
    have p1 := (parseInt_iff (hs ++ (58 :: (ms ++ (58 :: (sd ++ rest))))) _ lo hi hh hhi).mpr
      ⟨hs, rfl, n1, nextNot_digit_cons _ _ not_digit_58⟩
    have p2 := (parseInt_iff (ms ++ (58 :: (sd ++ rest))) _ Gen.posix_minutes_lo Gen.posix_minutes_hi mm (by decide)).mpr
      ⟨ms, rfl, n2, nextNot_digit_cons _ _ not_digit_58⟩
    have p3 := (parseInt_iff (sd ++ rest) rest Gen.posix_seconds_lo Gen.posix_seconds_hi ss (by decide)).mpr
      ⟨sd, rfl, n3, x1⟩
    simp only [e, p1, Option.bind_eq_bind, Option.bind_some, peek_cons, if_true, List.drop_succ_cons,
      List.drop_zero, p2, p3]
    rfl
theorem IsNum_head (ds : Bytes) (lo hi v : Int) (h : IsNum ds lo hi v) : ∃ c cs, ds = c :: cs ∧ IsDigit c := by
  obtain ⟨h1, h2, _⟩ := h
  cases ds with
  | nil => exact absurd rfl h1
  | cons c cs => exact ⟨c, cs, rfl, h2 c List.mem_cons_self⟩

theorem IsHms_head (hi : Int) (t rest : Bytes) (w : Int) (h : IsHms hi t rest w) :
    ∃ c cs, t = c :: cs ∧ IsDigit c := by
  rcases h with ⟨hh, n1, _⟩ | ⟨hs, ms, hh, mm, rfl, n1, _⟩ | ⟨hs, ms, sd, hh, mm, ss, rfl, n1, _⟩
  · exact IsNum_head _ _ _ _ n1
  · obtain ⟨c, cs, rfl, hc⟩ := IsNum_head _ _ _ _ n1
    exact ⟨c, _, rfl, hc⟩
  · obtain ⟨c, cs, rfl, hc⟩ := IsNum_head _ _ _ _ n1
    exact ⟨c, _, rfl, hc⟩

theorem not_digit_43 : ¬ IsDigit 43 := by unfold IsDigit; decide
theorem not_digit_45 : ¬ IsDigit 45 := by unfold IsDigit; decide

theorem peek_eq_cons (p : Bytes) (k : UInt8) (hk : k ≠ 0) : peek p = k ↔ ∃ q, p = k :: q := by
  cases p with
  | nil => simp [peek_nil]; exact fun h => hk h.symm
  | cons c cs => simp [peek_cons]

theorem parseOffset_iff (p rest : Bytes) (lo hi sg v : Int) (hlo : lo ≤ 0) (hhi : hi ≤ kMaxInt) :
    parseOffset (some p) lo hi sg = some (rest, v) ↔
      ∃ t w, p = t ++ rest ∧ IsSignedHms hi t rest w ∧ v = sg * w := by
  rw [parseOffset_eq]
  constructor
  · intro h
    by_cases c1 : peek p = 43
    · rw [if_pos c1] at h
      obtain ⟨q, rfl⟩ := (peek_eq_cons p 43 (by decide)).mp c1
      obtain ⟨t, w, e, hw, hv⟩ := hmsBody_sound _ _ _ _ _ _ hlo hhi h
      simp only [List.drop_succ_cons, List.drop_zero] at e
      exact ⟨43 :: t, w, by rw [e]; rfl, Or.inr (Or.inl ⟨t, rfl, hw⟩), hv⟩
    · rw [if_neg c1] at h
      by_cases c2 : peek p = 45
      · rw [if_pos c2] at h
        obtain ⟨q, rfl⟩ := (peek_eq_cons p 45 (by decide)).mp c2
        obtain ⟨t, w, e, hw, hv⟩ := hmsBody_sound _ _ _ _ _ _ hlo hhi h
        simp only [List.drop_succ_cons, List.drop_zero] at e
        refine ⟨45 :: t, -w, by rw [e]; rfl, Or.inr (Or.inr ⟨t, w, rfl, hw, rfl⟩), ?_⟩
        rw [hv, Int.neg_mul, Int.mul_neg]
      · rw [if_neg c2] at h
        obtain ⟨t, w, e, hw, hv⟩ := hmsBody_sound _ _ _ _ _ _ hlo hhi h
        exact ⟨t, w, e, Or.inl hw, hv⟩
  · rintro ⟨t, w, rfl, (hw | ⟨b, rfl, hw⟩ | ⟨b, w', rfl, hw, rfl⟩), rfl⟩
    · obtain ⟨c, cs, rfl, hc⟩ := IsHms_head _ _ _ _ hw
      have c1 : ¬ peek ((c :: cs) ++ rest) = 43 := by
        rw [List.cons_append, peek_cons]; intro h; subst h; exact not_digit_43 hc
      have c2 : ¬ peek ((c :: cs) ++ rest) = 45 := by
        rw [List.cons_append, peek_cons]; intro h; subst h; exact not_digit_45 hc
      rw [if_neg c1, if_neg c2]
      exact hmsBody_complete _ _ _ _ _ _ hlo hhi hw
    · rw [List.cons_append, peek_cons, if_pos rfl]
      simp only [List.drop_succ_cons, List.drop_zero]
      exact hmsBody_complete _ _ _ _ _ _ hlo hhi hw
    · rw [List.cons_append, peek_cons, if_neg (by decide), if_pos rfl]
      simp only [List.drop_succ_cons, List.drop_zero]
      rw [hmsBody_complete _ _ _ _ _ _ hlo hhi hw, Int.neg_mul, Int.mul_neg]
/-! ### dates -/

/-- the date part of `parseDateTime`, after the comma -/
def parseDate (q : Bytes) : Option (Bytes × Date) :=
  if peek q = 77 then
    match parseInt (q.drop 1) Gen.posix_month_lo Gen.posix_month_hi with
    | none => none
    | some (q1, month) =>
      if peek q1 = 46 then
        match parseInt (q1.drop 1) Gen.posix_week_lo Gen.posix_week_hi with
        | none => none
        | some (q2, week) =>
          if peek q2 = 46 then
            match parseInt (q2.drop 1) Gen.posix_weekday_lo Gen.posix_weekday_hi with
            | none => none
            | some (q3, weekday) => some (q3, ⟨.M, month, week, weekday⟩)
          else none
      else none
  else if peek q = 74 then
    match parseInt (q.drop 1) Gen.posix_jday_lo Gen.posix_jday_hi with
    | none => none
    | some (q1, day) => some (q1, ⟨.J, day, 0, 0⟩)
  else
    match parseInt q Gen.posix_nday_lo Gen.posix_nday_hi with
    | none => none
    | some (q1, day) => some (q1, ⟨.N, day, 0, 0⟩)

/-- the time part of `parseDateTime` -/
def parseTime (q : Bytes) (d : Date) : Option Bytes × Transition :=
  if peek q = 47 then
    match parseOffset (some (q.drop 1)) Gen.posix_time_lo Gen.posix_time_hi Gen.posix_time_sign with
    | none => (none, ⟨some d, some Gen.posix_default_time⟩)
    | some (q1, off) => (some q1, ⟨some d, some off⟩)
  else (some q, ⟨some d, some Gen.posix_default_time⟩)

theorem parseDateTime_none (res : Transition) : parseDateTime none res = (none, res) := rfl

theorem parseDateTime_eq (p : Bytes) (res : Transition) :
    parseDateTime (some p) res =
      if peek p = 44 then
        match parseDate (p.drop 1) with
        | none => (none, res)
        | some (q, d) => parseTime q d
      else (none, res) := by
  unfold parseDateTime parseDate parseTime
  by_cases c0 : peek p = 44
  · simp only [c0, if_true]
    by_cases c1 : peek (p.drop 1) = 77
    · simp only [c1, if_true]
      cases parseInt (List.drop 1 (List.drop 1 p)) Gen.posix_month_lo Gen.posix_month_hi with
      | none => rfl
      | some r1 =>
        obtain ⟨q1, m⟩ := r1
        simp only []
        by_cases c2 : peek q1 = 46
        · simp only [c2, if_true]
          cases parseInt (List.drop 1 q1) Gen.posix_week_lo Gen.posix_week_hi with
          | none => rfl
          | some r2 =>
            obtain ⟨q2, w⟩ := r2
            simp only []
            by_cases c3 : peek q2 = 46
            · simp only [c3, if_true]
              cases parseInt (List.drop 1 q2) Gen.posix_weekday_lo Gen.posix_weekday_hi with
              | none => rfl
              | some r3 =>
                obtain ⟨q3, wd⟩ := r3
                simp only []
                by_cases c4 : peek q3 = 47
                · simp only [c4, if_true]
                  cases parseOffset (some (List.drop 1 q3)) Gen.posix_time_lo Gen.posix_time_hi Gen.posix_time_sign with
                  | none => rfl
                  | some r4 => rfl
                · simp only [c4, if_false]
            · simp only [c3, if_false]
        · simp only [c2, if_false]
    · simp only [c1, if_false]
      by_cases c5 : peek (p.drop 1) = 74
      · simp only [c5, if_true]
        cases parseInt (List.drop 1 (List.drop 1 p)) Gen.posix_jday_lo Gen.posix_jday_hi with
        | none => rfl
        | some r1 =>
          obtain ⟨q1, dd⟩ := r1
          simp only []
          by_cases c4 : peek q1 = 47
          · simp only [c4, if_true]
            cases parseOffset (some (List.drop 1 q1)) Gen.posix_time_lo Gen.posix_time_hi Gen.posix_time_sign with
            | none => rfl
            | some r4 => rfl
          · simp only [c4, if_false]
      · simp only [c5, if_false]
        cases parseInt (List.drop 1 p) Gen.posix_nday_lo Gen.posix_nday_hi with
        | none => rfl
        | some r1 =>
          obtain ⟨q1, dd⟩ := r1
          simp only []
          by_cases c4 : peek q1 = 47
          · simp only [c4, if_true]
            cases parseOffset (some (List.drop 1 q1)) Gen.posix_time_lo Gen.posix_time_hi Gen.posix_time_sign with
            | none => rfl
            | some r4 => rfl
          · simp only [c4, if_false]
  · simp only [c0, if_false]
theorem not_digit_77 : ¬ IsDigit 77 := by unfold IsDigit; decide
theorem not_digit_74 : ¬ IsDigit 74 := by unfold IsDigit; decide

theorem parseDate_sound (q rest : Bytes) (d : Date) (h : parseDate q = some (rest, d)) :
    ∃ t, q = t ++ rest ∧ IsDate t rest d := by
  unfold parseDate at h
  by_cases c1 : peek q = 77
  · simp only [c1, if_true] at h
    obtain ⟨q', rfl⟩ := (peek_eq_cons q 77 (by decide)).mp c1
    simp only [List.drop_succ_cons, List.drop_zero] at h
    cases h1 : parseInt q' Gen.posix_month_lo Gen.posix_month_hi with
    | none => simp [h1] at h
    | some r1 =>
      obtain ⟨q1, m⟩ := r1
      simp only [h1] at h
      obtain ⟨ms, e1, n1, _⟩ := (parseInt_iff _ _ _ _ _ (by decide)).mp h1
      by_cases c2 : peek q1 = 46
      · simp only [c2, if_true] at h
        obtain ⟨q1', rfl⟩ := (peek_eq_cons q1 46 (by decide)).mp c2
        simp only [List.drop_succ_cons, List.drop_zero] at h
        cases h2 : parseInt q1' Gen.posix_week_lo Gen.posix_week_hi with
        | none => simp [h2] at h
        | some r2 =>
          obtain ⟨q2, w⟩ := r2
          simp only [h2] at h
          obtain ⟨ws, e2, n2, _⟩ := (parseInt_iff _ _ _ _ _ (by decide)).mp h2
          by_cases c3 : peek q2 = 46
          · simp only [c3, if_true] at h
            obtain ⟨q2', rfl⟩ := (peek_eq_cons q2 46 (by decide)).mp c3
            simp only [List.drop_succ_cons, List.drop_zero] at h
            cases h3 : parseInt q2' Gen.posix_weekday_lo Gen.posix_weekday_hi with
            | none => simp [h3] at h
            | some r3 =>
              obtain ⟨q3, wd⟩ := r3
              simp only [h3] at h
              obtain ⟨ds, e3, n3, x3⟩ := (parseInt_iff _ _ _ _ _ (by decide)).mp h3
              injection h with h; injection h with h4 h5
              subst h4
              refine ⟨77 :: (ms ++ 46 :: (ws ++ 46 :: ds)), ?_,
                Or.inr (Or.inr ⟨ms, ws, ds, m, w, wd, rfl, n1, n2, n3, h5.symm, x3⟩)⟩
              rw [e1, e2, e3]; simp
          · simp [c3] at h
      · simp [c2] at h
  · simp only [c1, if_false] at h
    by_cases c5 : peek q = 74
    · simp only [c5, if_true] at h
      obtain ⟨q', rfl⟩ := (peek_eq_cons q 74 (by decide)).mp c5
      simp only [List.drop_succ_cons, List.drop_zero] at h
      cases h1 : parseInt q' Gen.posix_jday_lo Gen.posix_jday_hi with
      | none => simp [h1] at h
      | some r1 =>
        obtain ⟨q1, n⟩ := r1
        simp only [h1] at h
        obtain ⟨ds, e1, n1, x1⟩ := (parseInt_iff _ _ _ _ _ (by decide)).mp h1
        injection h with h; injection h with h4 h5
        subst h4
        exact ⟨74 :: ds, by rw [e1]; rfl, Or.inl ⟨ds, n, rfl, n1, h5.symm, x1⟩⟩
    · simp only [c5, if_false] at h
      cases h1 : parseInt q Gen.posix_nday_lo Gen.posix_nday_hi with
      | none => simp [h1] at h
      | some r1 =>
        obtain ⟨q1, n⟩ := r1
        simp only [h1] at h
        obtain ⟨ds, e1, n1, x1⟩ := (parseInt_iff _ _ _ _ _ (by decide)).mp h1
        injection h with h; injection h with h4 h5
        subst h4
        exact ⟨ds, e1, Or.inr (Or.inl ⟨n, n1, h5.symm, x1⟩)⟩

theorem parseDate_complete (t rest : Bytes) (d : Date) (h : IsDate t rest d) :
    parseDate (t ++ rest) = some (rest, d) := by
  unfold parseDate
  rcases h with ⟨ds, n, rfl, n1, rfl, x1⟩ | ⟨n, n1, rfl, x1⟩ |
    ⟨ms, ws, ds, m, w, wd, rfl, n1, n2, n3, rfl, x1⟩
  · have p1 := (parseInt_iff (ds ++ rest) rest Gen.posix_jday_lo Gen.posix_jday_hi n (by decide)).mpr
      ⟨ds, rfl, n1, x1⟩
    rw [List.cons_append, peek_cons, if_neg (by decide), if_pos rfl]
    simp only [List.drop_succ_cons, List.drop_zero, p1]
  · obtain ⟨c, cs, rfl, hc⟩ := IsNum_head _ _ _ _ n1
    have p1 := (parseInt_iff ((c :: cs) ++ rest) rest Gen.posix_nday_lo Gen.posix_nday_hi n (by decide)).mpr
      ⟨c :: cs, rfl, n1, x1⟩
    have c1 : ¬ c = 77 := by intro h; subst h; exact not_digit_77 hc
    have c2 : ¬ c = 74 := by intro h; subst h; exact not_digit_74 hc
    simp only [List.cons_append, peek_cons, c1, c2, if_false]
    rw [List.cons_append] at p1
    simp only [p1]
  · have e : (77 :: (ms ++ 46 :: (ws ++ 46 :: ds))) ++ rest = 77 :: (ms ++ (46 :: (ws ++ (46 :: (ds ++ rest))))) := by
      simp
    have p1 := (parseInt_iff (ms ++ (46 :: (ws ++ (46 :: (ds ++ rest))))) _ Gen.posix_month_lo Gen.posix_month_hi m
      (by decide)).mpr ⟨ms, rfl, n1, nextNot_digit_cons _ _ not_digit_46⟩
    have p2 := (parseInt_iff (ws ++ (46 :: (ds ++ rest))) _ Gen.posix_week_lo Gen.posix_week_hi w
      (by decide)).mpr ⟨ws, rfl, n2, nextNot_digit_cons _ _ not_digit_46⟩
    have p3 := (parseInt_iff (ds ++ rest) rest Gen.posix_weekday_lo Gen.posix_weekday_hi wd
      (by decide)).mpr ⟨ds, rfl, n3, x1⟩
    simp only [e, peek_cons, if_true, List.drop_succ_cons, List.drop_zero, p1, p2, p3]
theorem parseDateTime_sound (p rest : Bytes) (res res' : Transition)
    (h : parseDateTime (some p) res = (some rest, res')) :
    ∃ t d tm, p = t ++ rest ∧ IsDateTime t rest d tm ∧ res' = ⟨some d, some tm⟩ := by
  rw [parseDateTime_eq] at h
  by_cases c0 : peek p = 44
  · rw [if_pos c0] at h
    obtain ⟨q, rfl⟩ := (peek_eq_cons p 44 (by decide)).mp c0
    simp only [List.drop_succ_cons, List.drop_zero] at h
    cases h1 : parseDate q with
    | none => simp [h1] at h
    | some r1 =>
      obtain ⟨q1, d⟩ := r1
      simp only [h1] at h
      obtain ⟨dt, e1, hd⟩ := parseDate_sound _ _ _ h1
      unfold parseTime at h
      by_cases c1 : peek q1 = 47
      · rw [if_pos c1] at h
        obtain ⟨q1', rfl⟩ := (peek_eq_cons q1 47 (by decide)).mp c1
        simp only [List.drop_succ_cons, List.drop_zero] at h
        cases h2 : parseOffset (some q1') Gen.posix_time_lo Gen.posix_time_hi Gen.posix_time_sign with
        | none => simp [h2] at h
        | some r2 =>
          obtain ⟨q2, off⟩ := r2
          simp only [h2] at h
          obtain ⟨tt, w, e2, hw, hv⟩ := (parseOffset_iff _ _ _ _ _ _ (by decide) (by decide)).mp h2
          have hs : Gen.posix_time_sign = 1 := rfl
          rw [hs, Int.one_mul] at hv
          injection h with h3 h4
          injection h3 with h3
          subst h3 hv
          refine ⟨44 :: (dt ++ 47 :: tt), d, off, ?_, Or.inr ⟨dt, tt, rfl, ?_, hw⟩, h4.symm⟩
          · rw [e1, e2]; simp
          · rw [e2] at hd; simpa using hd
      · rw [if_neg c1] at h
        injection h with h3 h4
        injection h3 with h3
        subst h3
        exact ⟨44 :: dt, d, 7200, by rw [e1]; rfl, Or.inl ⟨dt, rfl, hd, rfl⟩, h4.symm⟩
  · rw [if_neg c0] at h
    simp at h

theorem parseDateTime_complete (t rest : Bytes) (d : Date) (tm : Int) (res : Transition)
    (h : IsDateTime t rest d tm) (hr : rest.head? ≠ some 47) :
    parseDateTime (some (t ++ rest)) res = (some rest, ⟨some d, some tm⟩) := by
  rw [parseDateTime_eq]
  rcases h with ⟨dt, rfl, hd, rfl⟩ | ⟨dt, tt, rfl, hd, hw⟩
  · rw [List.cons_append, peek_cons, if_pos rfl]
    simp only [List.drop_succ_cons, List.drop_zero, parseDate_complete _ _ _ hd]
    unfold parseTime
    rw [if_neg (fun hp => hr ((peek_eq_iff rest 47 (by decide)).mp hp))]
    rfl
  · have e : (44 :: (dt ++ 47 :: tt)) ++ rest = 44 :: (dt ++ (47 :: tt ++ rest)) := by simp
    rw [e, peek_cons, if_pos rfl]
    simp only [List.drop_succ_cons, List.drop_zero, parseDate_complete _ _ _ hd]
    unfold parseTime
    rw [List.cons_append, peek_cons, if_pos rfl]
    simp only [List.drop_succ_cons, List.drop_zero]
    have := (parseOffset_iff (tt ++ rest) rest Gen.posix_time_lo Gen.posix_time_hi Gen.posix_time_sign tm
      (by decide) (by decide)).mpr ⟨tt, tm, rfl, hw, by show tm = 1 * tm; rw [Int.one_mul]⟩
    rw [this]
/-! ### the whole rule -/

/-- the part of `parsePosixSpec` after the dst abbreviation -/
def dstTailFn (p : Bytes) (stdAbbr : Bytes) (stdOff : Int) (dstAbbr : Bytes) : Option TimeZone :=
  let res : TimeZone := { stdAbbr := stdAbbr, stdOffset := some stdOff, dstAbbr := dstAbbr,
                          dstOffset := some (stdOff + Gen.posix_default_dst_shift) }
  let r : Option (Bytes × TimeZone) :=
    if peek p ≠ 44 then
      match parseOffset (some p) Gen.posix_dstoff_lo Gen.posix_dstoff_hi Gen.posix_dstoff_sign with
      | none => none
      | some (p, dstOff) => some (p, { res with dstOffset := some dstOff })
    else some (p, res)
  let (p1, res) : Option Bytes × TimeZone :=
    match r with
    | none => (none, res)
    | some (p, res) => let (p', s) := parseDateTime (some p) res.dstStart; (p', { res with dstStart := s })
  let (p2, e) := parseDateTime p1 res.dstEnd
  let res := { res with dstEnd := e }
  match p2 with
  | none => none
  | some p => if peek p = 0 then some res else none

theorem parsePosixSpec_eq (spec : Bytes) :
    parsePosixSpec spec =
      if peek (cstr spec) = 58 then none else
      if spec.contains 0 then none else
      match parseAbbr (cstr spec) with
      | none => none
      | some (p, stdAbbr) =>
        match parseOffset (some p) Gen.posix_stdoff_lo Gen.posix_stdoff_hi Gen.posix_stdoff_sign with
        | none => none
        | some (p, stdOff) =>
          if peek p = 0 then some { stdAbbr := stdAbbr, stdOffset := some stdOff } else
          match parseAbbr p with
          | none => none
          | some (p, dstAbbr) => dstTailFn p stdAbbr stdOff dstAbbr := rfl

/-- the part of `parsePosixSpec` after the dst offset -/
def dtTail (p : Bytes) (res : TimeZone) : Option TimeZone :=
  let (p', s) := parseDateTime (some p) res.dstStart
  let res := { res with dstStart := s }
  let (p2, e) := parseDateTime p' res.dstEnd
  let res := { res with dstEnd := e }
  match p2 with
  | none => none
  | some p => if peek p = 0 then some res else none

theorem dstTailFn_eq (p stdAbbr : Bytes) (stdOff : Int) (dstAbbr : Bytes) :
    dstTailFn p stdAbbr stdOff dstAbbr =
      if peek p = 44 then
        dtTail p { stdAbbr := stdAbbr, stdOffset := some stdOff, dstAbbr := dstAbbr,
                   dstOffset := some (stdOff + Gen.posix_default_dst_shift) }
      else
        match parseOffset (some p) Gen.posix_dstoff_lo Gen.posix_dstoff_hi Gen.posix_dstoff_sign with
        | none => none
        | some (p4, dstOff) =>
          dtTail p4 { stdAbbr := stdAbbr, stdOffset := some stdOff, dstAbbr := dstAbbr, dstOffset := some dstOff } := by
  unfold dstTailFn
  by_cases c1 : peek p = 44
  · simp only [c1, ne_eq, not_true_eq_false, if_false, if_true]; rfl
  · simp only [c1, ne_eq, not_false_eq_true, if_true, if_false]
    cases parseOffset (some p) Gen.posix_dstoff_lo Gen.posix_dstoff_hi Gen.posix_dstoff_sign with
    | none => rfl
    | some r => rfl

theorem dtTail_iff (p4 a : Bytes) (o : Option Int) (d : Bytes) (x : Option Int) (r : TimeZone) :
    dtTail p4 { stdAbbr := a, stdOffset := o, dstAbbr := d, dstOffset := x } = some r ↔
      ∃ p5 s, parseDateTime (some p4) {} = (some p5, s) ∧
      ∃ p6 e, parseDateTime (some p5) {} = (some p6, e) ∧ peek p6 = 0 ∧
        r = { stdAbbr := a, stdOffset := o, dstAbbr := d, dstOffset := x, dstStart := s, dstEnd := e } := by
  unfold dtTail
  simp only []
  rcases hdt1 : parseDateTime (some p4) {} with ⟨o1, s1⟩
  cases o1 with
  | none =>
    simp only [parseDateTime_none]
    constructor
    · intro h; exact absurd h (by simp)
    · rintro ⟨p5, s, h5, _⟩
      injection h5 with h5; exact absurd h5 (by simp)
  | some q5 =>
    simp only []
    rcases hdt2 : parseDateTime (some q5) {} with ⟨o2, e2⟩
    cases o2 with
    | none =>
      simp only []
      constructor
      · intro h; exact absurd h (by simp)
      · rintro ⟨p5, s, h5, p6, e, h6, _⟩
        injection h5 with h5 h5'; injection h5 with h5; subst h5
        rw [hdt2] at h6; injection h6 with h6; exact absurd h6 (by simp)
    | some q6 =>
      simp only []
      constructor
      · intro h
        split at h
        · rename_i hp
          injection h with h
          exact ⟨q5, s1, rfl, q6, e2, hdt2, hp, h.symm⟩
        · exact absurd h (by simp)
      · rintro ⟨p5, s, h5, p6, e, h6, hp, hr⟩
        injection h5 with h5 h5'; injection h5 with h5; subst h5 h5'
        rw [hdt2] at h6; injection h6 with h6 h6'; injection h6 with h6; subst h6 h6'
        rw [if_pos hp, hr]
theorem contains0_iff (s : Bytes) : s.contains 0 = false ↔ ∀ c ∈ s, c ≠ 0 := by
  induction s with
  | nil => simp
  | cons c cs ih =>
    simp only [List.contains_cons, Bool.or_eq_false_iff, ih, List.mem_cons, forall_eq_or_imp]
    constructor
    · rintro ⟨h1, h2⟩; exact ⟨by intro h; subst h; simp at h1, h2⟩
    · rintro ⟨h1, h2⟩; exact ⟨by simpa using fun h => h1 h.symm, h2⟩

theorem cstr_of_noNul (s : Bytes) (h : ∀ c ∈ s, c ≠ 0) : cstr s = s := by
  unfold cstr
  exact ((span_iff (fun c => decide (c ≠ 0)) s s []).mpr
    ⟨by simp, fun c hc => by simpa using h c hc, by simp⟩).1

theorem peek0_iff (p : Bytes) (h : ∀ c ∈ p, c ≠ 0) : peek p = 0 ↔ p = [] := by
  cases p with
  | nil => simp [peek_nil]
  | cons c cs => simp [peek_cons]; exact h c List.mem_cons_self

theorem IsDateTime_head (t rest : Bytes) (d : Date) (tm : Int) (h : IsDateTime t rest d tm) :
    ∃ u, t = 44 :: u := by
  rcases h with ⟨dt, rfl, _⟩ | ⟨dt, tt, rfl, _⟩ <;> exact ⟨_, rfl⟩

theorem IsSignedHms_head (hi : Int) (t rest : Bytes) (w : Int) (h : IsSignedHms hi t rest w) :
    ∃ c cs, t = c :: cs ∧ c ≠ 44 := by
  rcases h with hw | ⟨b, rfl, hw⟩ | ⟨b, w', rfl, hw, _⟩
  · obtain ⟨c, cs, rfl, hc⟩ := IsHms_head _ _ _ _ hw
    exact ⟨c, cs, rfl, by intro h; subst h; exact not_digit_44 hc⟩
  · exact ⟨43, b, rfl, by decide⟩
  · exact ⟨45, b, rfl, by decide⟩
theorem dtTail_sound (p4 a : Bytes) (o : Option Int) (d : Bytes) (x : Option Int) (r : TimeZone)
    (hn : ∀ c ∈ p4, c ≠ 0)
    (h : dtTail p4 { stdAbbr := a, stdOffset := o, dstAbbr := d, dstOffset := x } = some r) :
    ∃ ts te d1 t1 d2 t2, p4 = ts ++ te ∧ IsDateTime ts te d1 t1 ∧ IsDateTime te [] d2 t2 ∧
      r = { stdAbbr := a, stdOffset := o, dstAbbr := d, dstOffset := x,
            dstStart := ⟨some d1, some t1⟩, dstEnd := ⟨some d2, some t2⟩ } := by
  obtain ⟨p5, s, h5, p6, e, h6, hp, hr⟩ := (dtTail_iff _ _ _ _ _ _).mp h
  obtain ⟨ts, d1, t1, e1, i1, rfl⟩ := parseDateTime_sound _ _ _ _ h5
  obtain ⟨te, d2, t2, e2, i2, rfl⟩ := parseDateTime_sound _ _ _ _ h6
  have hn6 : ∀ c ∈ p6, c ≠ 0 := fun c hc => hn c (by rw [e1, e2]; simp [hc])
  have : p6 = [] := (peek0_iff p6 hn6).mp hp
  subst this
  rw [List.append_nil] at e2
  subst e2
  exact ⟨ts, p5, d1, t1, d2, t2, e1, i1, i2, hr⟩

theorem parse_sound (s : Bytes) (r : TimeZone) (h : parsePosixSpec s = some r) : IsPosixSpec s r := by
  rw [parsePosixSpec_eq] at h
  by_cases c0 : peek (cstr s) = 58
  · rw [if_pos c0] at h; exact absurd h (by simp)
  rw [if_neg c0] at h
  by_cases cn : s.contains 0 = true
  · rw [if_pos cn] at h; exact absurd h (by simp)
  rw [if_neg cn] at h
  have hn : ∀ c ∈ s, c ≠ 0 := (contains0_iff s).mp (by simpa using cn)
  rw [cstr_of_noNul s hn] at h c0
  refine ⟨hn, fun hh => c0 ((peek_eq_iff s 58 (by decide)).mpr hh), ?_⟩
  cases h1 : parseAbbr s with
  | none => simp [h1] at h
  | some r1 =>
    obtain ⟨p1, stdAbbr⟩ := r1
    simp only [h1] at h
    obtain ⟨ta, e1, ia⟩ := (parseAbbr_iff _ _ _).mp h1
    cases h2 : parseOffset (some p1) Gen.posix_stdoff_lo Gen.posix_stdoff_hi Gen.posix_stdoff_sign with
    | none => simp [h2] at h
    | some r2 =>
      obtain ⟨p2, stdOff⟩ := r2
      simp only [h2] at h
      obtain ⟨to, w, e2, iw, hv⟩ := (parseOffset_iff _ _ _ _ _ _ (by decide) (by decide)).mp h2
      have hs : Gen.posix_stdoff_sign = -1 := rfl
      rw [hs, Int.neg_one_mul] at hv
      subst hv
      subst e2
      have hn2 : ∀ c ∈ p2, c ≠ 0 := fun c hc => hn c (by rw [e1]; simp [hc])
      refine ⟨ta, to, p2, stdAbbr, w, e1, ia, iw, ?_⟩
      by_cases c2 : peek p2 = 0
      · rw [if_pos c2] at h
        injection h with h
        exact Or.inl ⟨(peek0_iff p2 hn2).mp c2, h.symm⟩
      · rw [if_neg c2] at h
        right
        cases h3 : parseAbbr p2 with
        | none => simp [h3] at h
        | some r3 =>
          obtain ⟨p3, dstAbbr⟩ := r3
          simp only [h3] at h
          obtain ⟨ta', e3, ia'⟩ := (parseAbbr_iff _ _ _).mp h3
          have hn3 : ∀ c ∈ p3, c ≠ 0 := fun c hc => hn2 c (by rw [e3]; simp [hc])
          rw [dstTailFn_eq] at h
          by_cases c3 : peek p3 = 44
          · rw [if_pos c3] at h
            obtain ⟨ts, te, d1, t1, d2, t2, e4, i1, i2, hr⟩ := dtTail_sound _ _ _ _ _ _ hn3 h
            subst e4
            refine ⟨dstAbbr, -w + 3600, ⟨some d1, some t1⟩, ⟨some d2, some t2⟩,
              ⟨ta', [], ts, te, d1, t1, d2, t2, by simpa using e3, by simpa using ia', Or.inl ⟨rfl, rfl⟩,
                i1, i2, rfl, rfl⟩, hr⟩
          · rw [if_neg c3] at h
            cases h4 : parseOffset (some p3) Gen.posix_dstoff_lo Gen.posix_dstoff_hi Gen.posix_dstoff_sign with
            | none => simp [h4] at h
            | some r4 =>
              obtain ⟨p4, dstOff⟩ := r4
              simp only [h4] at h
              obtain ⟨to', w', e4, iw', hv'⟩ := (parseOffset_iff _ _ _ _ _ _ (by decide) (by decide)).mp h4
              have hs' : Gen.posix_dstoff_sign = -1 := rfl
              rw [hs', Int.neg_one_mul] at hv'
              subst hv'
              have hn4 : ∀ c ∈ p4, c ≠ 0 := fun c hc => hn3 c (by rw [e4]; simp [hc])
              obtain ⟨ts, te, d1, t1, d2, t2, e5, i1, i2, hr⟩ := dtTail_sound _ _ _ _ _ _ hn4 h
              subst e5
              subst e4
              exact ⟨dstAbbr, -w', ⟨some d1, some t1⟩, ⟨some d2, some t2⟩,
                ⟨ta', to', ts, te, d1, t1, d2, t2, e3, ia', Or.inr ⟨w', iw', rfl⟩,
                  i1, i2, rfl, rfl⟩, hr⟩
theorem dtTail_complete (ts te a : Bytes) (o : Option Int) (d : Bytes) (x : Option Int)
    (d1 : Date) (t1 : Int) (d2 : Date) (t2 : Int)
    (i1 : IsDateTime ts te d1 t1) (i2 : IsDateTime te [] d2 t2) :
    dtTail (ts ++ te) { stdAbbr := a, stdOffset := o, dstAbbr := d, dstOffset := x } =
      some { stdAbbr := a, stdOffset := o, dstAbbr := d, dstOffset := x,
             dstStart := ⟨some d1, some t1⟩, dstEnd := ⟨some d2, some t2⟩ } := by
  rw [dtTail_iff]
  obtain ⟨u, hu⟩ := IsDateTime_head _ _ _ _ i2
  refine ⟨te, _, parseDateTime_complete ts te d1 t1 {} i1 (by rw [hu]; simp), [], _, ?_, rfl, rfl⟩
  have := parseDateTime_complete te [] d2 t2 {} i2 (by simp)
  rw [List.append_nil] at this
  exact this

theorem parse_complete (s : Bytes) (r : TimeZone) (h : IsPosixSpec s r) : parsePosixSpec s = some r := by
  obtain ⟨hn, h58, ta, to, rest, stdAbbr, v, e1, ia, iw, hr⟩ := h
  rw [parsePosixSpec_eq, cstr_of_noNul s hn]
  rw [if_neg (fun hp => h58 ((peek_eq_iff s 58 (by decide)).mp hp))]
  have cn : ¬ s.contains 0 = true := by
    have := (contains0_iff s).mpr hn; rw [this]; simp
  rw [if_neg cn]
  have h1 : parseAbbr s = some (to ++ rest, stdAbbr) := (parseAbbr_iff _ _ _).mpr ⟨ta, e1, ia⟩
  have h2 : parseOffset (some (to ++ rest)) Gen.posix_stdoff_lo Gen.posix_stdoff_hi Gen.posix_stdoff_sign
      = some (rest, -v) :=
    (parseOffset_iff _ _ _ _ _ _ (by decide) (by decide)).mpr
      ⟨to, v, rfl, iw, by show -v = -1 * v; rw [Int.neg_one_mul]⟩
  simp only [h1, h2]
  have hnr : ∀ c ∈ rest, c ≠ 0 := fun c hc => hn c (by rw [e1]; simp [hc])
  rcases hr with ⟨rfl, rfl⟩ | ⟨dstAbbr, dstOff, st, en, ⟨ta', to', ts, te, d1, t1, d2, t2, e2, ia', ho, i1, i2, rfl, rfl⟩, rfl⟩
  · rw [if_pos peek_nil]
  · obtain ⟨u, hu⟩ := IsDateTime_head _ _ _ _ i1
    have hne : rest ≠ [] := by rw [e2, hu]; simp
    rw [if_neg (fun hp => hne ((peek0_iff rest hnr).mp hp))]
    have h3 : parseAbbr rest = some (to' ++ (ts ++ te), dstAbbr) := (parseAbbr_iff _ _ _).mpr ⟨ta', e2, ia'⟩
    simp only [h3]
    rw [dstTailFn_eq]
    rcases ho with ⟨rfl, rfl⟩ | ⟨w, iw', rfl⟩
    · rw [List.nil_append, hu, List.cons_append, peek_cons, if_pos rfl, ← List.cons_append, ← hu]
      exact dtTail_complete _ _ _ _ _ _ _ _ _ _ i1 i2
    · obtain ⟨c, cs, hc, hc44⟩ := IsSignedHms_head _ _ _ _ iw'
      have c3 : ¬ peek (to' ++ (ts ++ te)) = 44 := by rw [hc, List.cons_append, peek_cons]; exact hc44
      rw [if_neg c3]
      have h4 : parseOffset (some (to' ++ (ts ++ te))) Gen.posix_dstoff_lo Gen.posix_dstoff_hi Gen.posix_dstoff_sign
          = some (ts ++ te, -w) :=
        (parseOffset_iff _ _ _ _ _ _ (by decide) (by decide)).mpr
          ⟨to', w, rfl, iw', by show -w = -1 * w; rw [Int.neg_one_mul]⟩
      simp only [h4]
      exact dtTail_complete _ _ _ _ _ _ _ _ _ _ i1 i2
end Cctz.Posix
