import Cctz.Model.Tz
import Cctz.Model.Split
