/-
  Helper lemmas for C17 (weekday / yearday): truncated division, and the
  "no oob / fuel / unset flag" predicate `Safe` on the `Ck` writer monad.
-/
import Cctz.Model.Civil
import Cctz.Spec.Gregorian

namespace Cctz.Wd

/-! ### C++ truncated division in terms of floor division (which `omega` understands) -/

theorem tmod_eq (a k : Int) : Int.tmod a k = if 0 ≤ a then a % k else -((-a) % k) := by
  split
  · rw [Int.tmod_eq_emod_of_nonneg ‹_›]
  · have h : a = -(-a) := by omega
    rw [h, Int.neg_tmod, Int.tmod_eq_emod_of_nonneg (by omega)]; simp

theorem tdiv_eq (a k : Int) : Int.tdiv a k = if 0 ≤ a then a / k else -((-a) / k) := by
  split
  · rw [Int.tdiv_eq_ediv_of_nonneg ‹_›]
  · have h : a = -(-a) := by omega
    rw [h, Int.neg_tdiv, Int.tdiv_eq_ediv_of_nonneg (by omega)]; simp

theorem cmod_eq (a k : Int) : cmod a k = if 0 ≤ a then a % k else -((-a) % k) := tmod_eq a k
theorem cdiv_eq (a k : Int) : cdiv a k = if 0 ≤ a then a / k else -((-a) / k) := tdiv_eq a k

theorem cmod_nonneg (a k : Int) (h : 0 ≤ a) : cmod a k = a % k := by
  rw [cmod_eq]; simp [h]
theorem cdiv_nonneg (a k : Int) (h : 0 ≤ a) : cdiv a k = a / k := by
  rw [cdiv_eq]; simp [h]

/-- `y % 400` in C++: some `q` with `y = 400 q + r`, `-400 < r < 400` -/
theorem cmod400_decomp (y : Int) : ∃ q : Int, y = 400 * q + cmod y 400 ∧ -400 < cmod y 400 ∧ cmod y 400 < 400 := by
  rw [cmod_eq]
  split
  · exact ⟨y / 400, by omega, by omega, by omega⟩
  · exact ⟨-((-y) / 400), by omega, by omega, by omega⟩

theorem cmod_zero_iff4 (y : Int) : cmod y 4 = 0 ↔ y % 4 = 0 := by
  rw [cmod_eq]; split <;> omega
theorem cmod_zero_iff100 (y : Int) : cmod y 100 = 0 ↔ y % 100 = 0 := by
  rw [cmod_eq]; split <;> omega
theorem cmod_zero_iff400 (y : Int) : cmod y 400 = 0 ↔ y % 400 = 0 := by
  rw [cmod_eq]; split <;> omega

/-! ### `Safe`: none of the flags `oob`, `fuel`, `unset` is raised (`ovf` may be) -/

def Safe (x : Ck α) : Prop :=
  x.flags.oob = false ∧ x.flags.fuel = false ∧ x.flags.unset = false

theorem safe_pure (a : α) : Safe (pure a : Ck α) := ⟨rfl, rfl, rfl⟩
theorem safe_chk64 (x : Int) : Safe (chk64 x) := ⟨rfl, rfl, rfl⟩

theorem safe_bind (x : Ck α) (f : α → Ck β) : Safe (x >>= f) ↔ Safe x ∧ Safe (f x.val) := by
  simp only [Safe, Ck.bind_flags, Flags.or, Bool.or_eq_false_iff]
  constructor
  · rintro ⟨⟨a, b⟩, ⟨c, d⟩, ⟨e, f⟩⟩; exact ⟨⟨a, c, e⟩, ⟨b, d, f⟩⟩
  · rintro ⟨⟨a, c, e⟩, ⟨b, d, f⟩⟩; exact ⟨⟨a, b⟩, ⟨c, d⟩, ⟨e, f⟩⟩

theorem safe_bind' (x : Ck α) (f : α → Ck β) : Safe (x.bind' f) ↔ Safe x ∧ Safe (f x.val) :=
  safe_bind x f

theorem safe_map (x : Ck α) (f : α → β) : Safe (f <$> x) ↔ Safe x := by
  simp only [Safe, Ck.map_flags]

theorem safe_of_ok (x : Ck α) (h : x.ok) : Safe x := by
  unfold Ck.ok at h; simp [Safe, h, Flags.none]

@[simp] theorem bind'_val (x : Ck α) (f : α → Ck β) : (x.bind' f).val = (f x.val).val := rfl

end Cctz.Wd
