/-
  C08Lex helper proofs: every library conversion of the model renders what `Lex.renderConv` says.
-/
import Cctz.Proofs.LexWeek

namespace Cctz.Lx
open Cctz Cctz.Bytes Cctz.Format Cctz.Spec Cctz.Spec.Lex Cctz.Fm Cctz.Wd

/-! ### digits -/

theorem decNat_mul10 (n : Nat) (hn : 0 < n) : decNat (n * 10) = decNat n ++ [48] := by
  have := Nat.toDigits_append_toDigits (b := 10) (n := n) (d := 0) (by decide) hn (by decide)
  rw [Nat.toDigits_zero] at this
  simp only [decNat]
  rw [show n * 10 = 10 * n + 0 by omega, ← this, List.map_append]
  rfl

theorem decPad_mul10 (w n : Nat) (hw : 1 ≤ w) : decPad (w + 1) (n * 10) = decPad w n ++ [48] := by
  by_cases hn : n = 0
  · subst hn
    have : decNat 0 = [48] := by decide
    simp only [decPad, Nat.zero_mul, this, List.length_cons, List.length_nil]
    rw [show w + 1 - (0 + 1) = (w - (0 + 1)) + 1 by omega, List.replicate_succ']
  · simp only [decPad, decNat_mul10 n (by omega), List.length_append, List.length_cons, List.length_nil]
    rw [show w + 1 - ((decNat n).length + (0 + 1)) = w - (decNat n).length by omega, List.append_assoc]

theorem decPad_mul_pow (w n : Nat) (hw : 1 ≤ w) : ∀ j : Nat,
    decPad (w + j) (n * 10 ^ j) = decPad w n ++ List.replicate j 48 := by
  intro j
  induction j with
  | zero => simp
  | succ j ih =>
    rw [show w + (j + 1) = (w + j) + 1 by omega, Nat.pow_succ, ← Nat.mul_assoc,
      decPad_mul10 _ _ (by omega), ih, List.append_assoc, List.replicate_succ']

/-! ### two-digit fields, `%e`, numbers -/

theorem f02_val (v : Int) (h0 : 0 ≤ v) (h1 : v ≤ 99) : (format02d v >>= scratch).val = decPad 2 v.toNat := by
  rw [Ck.bindv, scratch_val, (format02d_spec v h0 h1).2]

theorem e_table : (List.range 100).all (fun n => decide (
    (if (decPad 2 n).headD 0 = 48 then 32 :: (decPad 2 n).drop 1 else decPad 2 n) =
      (if n < 10 then 32 :: decNat n else decNat n))) = true := by decide +kernel

theorem e_val (d : Int) (h0 : 0 ≤ d) (h1 : d ≤ 99) :
    (format02d d >>= fun b => scratch (if b.headD 0 = 48 then 32 :: b.drop 1 else b)).val =
      (if d < 10 then 32 :: decNat d.toNat else decNat d.toNat) := by
  rw [Ck.bindv, scratch_val, (format02d_spec d h0 h1).2]
  have h := e_table
  rw [List.all_eq_true] at h
  have := h d.toNat (by simp; omega)
  rw [decide_eq_true_iff] at this
  rw [this]
  by_cases hd : d < 10
  · rw [if_pos hd, if_pos (by omega)]
  · rw [if_neg hd, if_neg (by omega)]

theorem f64_nat (v : Int) (h : 0 ≤ v) : format64 0 v = decNat v.toNat := by
  rw [format64_zero, decInt, if_neg (by omega)]
  congr 1; omega

/-! ### the simple specifiers -/

theorem simplePiece_val (al : Tz.AbsLookup) (tm : Tm) (t fs : Int) (E : Env al tm t fs)
    (hwd : tm.wday = Lex.wday al.cs) (c : UInt8) (hc : c ∈ simpleSet) :
    (simplePiece al tm t c).val = renderConv (.simple c) al t fs := by
  obtain ⟨hm1, hm2, hd1, hd2, hh1, hh2, hmm1, hmm2, hs1, hs2⟩ := E.valid
  have hdb := daysInMonth_bounds al.cs.y al.cs.m
  have hw0 := E.wday0
  have hw6 := E.wday6
  simp only [simpleSet, List.mem_cons, List.mem_nil_iff, or_false] at hc
  rcases hc with h | h | h | h | h | h | h | h | h | h | h | h | h | h <;> subst h
  · show (scratch (format64 0 al.cs.y)).val = decInt al.cs.y
    rw [scratch_val, format64_zero]
  · exact f02_val _ (by omega) (by omega)
  · exact f02_val _ (by omega) (by omega)
  · exact e_val _ (by omega) (by omega)
  · show (toWeek al.cs 6 >>= fun w => format02d w >>= scratch).val = _
    obtain ⟨_, h1, h2, h3⟩ := toWeek_U al.cs E.valid
    rw [Ck.bindv, f02_val _ h2 (by omega), h1]; rfl
  · show (scratch (format64 0 (if tm.wday ≠ 0 then tm.wday else 7))).val =
      decNat (if Lex.wday al.cs = 0 then 7 else Lex.wday al.cs).toNat
    rw [scratch_val, f64_nat _ (by split <;> omega), ← hwd]
    congr 2
    by_cases h : tm.wday = 0
    · rw [if_pos h, if_neg (by simp [h])]
    · rw [if_neg h, if_pos h]
  · show (toWeek al.cs 0 >>= fun w => format02d w >>= scratch).val = _
    obtain ⟨_, h1, h2, h3⟩ := toWeek_W al.cs E.valid
    rw [Ck.bindv, f02_val _ h2 (by omega), h1]; rfl
  · show (scratch (format64 0 tm.wday)).val = decNat (Lex.wday al.cs).toNat
    rw [scratch_val, f64_nat _ hw0, hwd]
  · exact f02_val _ (by omega) (by omega)
  · exact f02_val _ (by omega) (by omega)
  · exact f02_val _ (by omega) (by omega)
  · show (formatOffset al.offset [] >>= scratch).val = offHM false al.offset
    rw [Ck.bindv, scratch_val, (formatOffset_val _ E.off1 E.off2).1]
  · rfl
  · show (scratch (format64 0 t)).val = decInt t
    rw [scratch_val, format64_zero]

theorem simplePiece_nul (al : Tz.AbsLookup) (tm : Tm) (t : Int) : (simplePiece al tm t 0).val = [] := rfl

/-! ### offsets -/

theorem off_val (al : Tz.AbsLookup) (tm : Tm) (t fs : Int) (E : Env al tm t fs) :
    (formatOffset al.offset [58] >>= scratch).val = offHM true al.offset ∧
    (formatOffset al.offset [58, 42] >>= scratch).val = offHMS al.offset ∧
    (formatOffset al.offset [58, 42, 58] >>= scratch).val = offMin al.offset := by
  obtain ⟨_, h1, h2, h3⟩ := formatOffset_val _ E.off1 E.off2
  simp only [Ck.bindv, scratch_val]
  exact ⟨h1, h2, h3⟩

/-! ### `%E*S`, `%E*f` -/

theorem starS_spec (al : Tz.AbsLookup) (tm : Tm) (t fs : Int) (E : Env al tm t fs) (P : Prop) [Decidable P] (h : P) :
    (starPiece al fs P).val = renderConv .eStarS al t fs := by
  obtain ⟨_, _, _, _, _, _, _, _, hs1, hs2⟩ := E.valid
  rw [starPiece_S _ _ _ h, starS_val al fs E.fs0, (format02d_spec _ hs1 (by omega)).2]
  rfl

theorem starF_spec (al : Tz.AbsLookup) (tm : Tm) (t fs : Int) (E : Env al tm t fs) (P : Prop) [Decidable P] (h : ¬ P) :
    (starPiece al fs P).val = renderConv .eStarF al t fs := by
  have h15 : format64 15 fs = decPad 15 fs.toNat := format64_nonneg 15 fs E.fs0
  unfold starPiece
  rw [if_neg h, Ck.pure_val, h15]
  show (if (fracStar fs).isEmpty then [48] else fracStar fs) = if fracStar fs = [] then [48] else fracStar fs
  generalize fracStar fs = z
  cases z <;> rfl

/-! ### `%E<n>S`, `%E<n>f` -/

theorem exp10_table : (List.range 19).all (fun i =>
    decide ((getC Gen.kExp10 (i : Int) 1).val = ((10 ^ i : Nat) : Int))) = true := by decide +kernel

theorem exp10_val (i : Nat) (h : i ≤ 18) : (getC Gen.kExp10 (i : Int) 1).val = ((10 ^ i : Nat) : Int) := by
  have := exp10_table
  rw [List.all_eq_true] at this
  have := this i (by simp; omega)
  rwa [decide_eq_true_iff] at this

theorem fracDigits_val (fs : Int) (h0 : 0 ≤ fs) (n' : Nat) (hn1 : 1 ≤ n') (hn2 : n' ≤ 18) :
    format64 (n' : Int) (if (n' : Int) > 15 then (do
          let k ← getC Gen.kExp10 ((n' : Int) - 15) 1
          chk64 (fs * k))
        else (do
          let k ← getC Gen.kExp10 (15 - (n' : Int)) 1
          pure (cdiv fs k)) : Ck Int).val =
      (if n' ≤ 15 then fracDigits n' fs else decPad 15 fs.toNat ++ List.replicate (n' - 15) 48) := by
  by_cases h : n' ≤ 15
  · rw [if_neg (by omega), if_pos h, Ck.bindv, Ck.pure_val,
      show (15 - (n' : Int)) = ((15 - n' : Nat) : Int) by omega, exp10_val _ (by omega)]
    have hp : (0 : Int) < ((10 ^ (15 - n') : Nat) : Int) :=
      Int.natCast_pos.2 (Nat.pow_pos (by decide))
    rw [cdiv_nonneg _ _ h0, format64_nonneg _ _ (Int.ediv_nonneg h0 (Int.le_of_lt hp))]
    unfold fracDigits
    congr 1
    have : fs = ((fs.toNat : Nat) : Int) := by omega
    rw [this, ← Int.natCast_ediv, Int.toNat_natCast, Int.toNat_natCast]
  · rw [if_pos (by omega), if_neg h, Ck.bindv, chk64_val,
      show ((n' : Int) - 15) = ((n' - 15 : Nat) : Int) by omega, exp10_val _ (by omega)]
    have hnn : 0 ≤ fs * ((10 ^ (n' - 15) : Nat) : Int) :=
      Int.mul_nonneg h0 (Int.le_of_lt (Int.natCast_pos.2 (Nat.pow_pos (by decide))))
    rw [format64_nonneg _ _ hnn]
    have : (fs * ((10 ^ (n' - 15) : Nat) : Int)).toNat = fs.toNat * 10 ^ (n' - 15) := by
      have : fs = ((fs.toNat : Nat) : Int) := by omega
      rw [this, ← Int.natCast_mul, Int.toNat_natCast, Int.toNat_natCast]
    rw [this]
    have := decPad_mul_pow 15 fs.toNat (by decide) (n' - 15)
    rw [show 15 + (n' - 15) = n' by omega] at this
    exact this

theorem fracPiece_val (fs : Int) (h0 : 0 ≤ fs) (n : Nat) (x : UInt8) :
    (fracPiece fs (n : Int) x).val =
      if n = 0 then [] else (if x = 83 then 46 :: frac n fs else frac n fs) := by
  unfold fracPiece
  by_cases hn : n = 0
  · subst hn; simp
  · rw [if_pos (by omega), if_neg hn]
    have hmin : (if (n : Int) > Gen.kDigits10_64 then Gen.kDigits10_64 else (n : Int)) = ((min n 18 : Nat) : Int) := by
      unfold Gen.kDigits10_64; split <;> omega
    simp only [hmin, Ck.bindv, Ck.pure_val]
    have := fracDigits_val fs h0 (min n 18) (by omega) (by omega)
    unfold frac
    rw [← this]

end Cctz.Lx
