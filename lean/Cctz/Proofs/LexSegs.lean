/-
  C08Lex helper proofs: the specification's `Lex.segs` without its fuel argument (`S`), its
  unfolding equations, and the "run absorbs text" lemma.
-/
import Cctz.Spec.FormatLex
import Cctz.Proofs.LexConv

namespace Cctz.Lx
open Cctz Cctz.Bytes Cctz.Format Cctz.Spec Cctz.Spec.Lex

abbrev txt (s : Bytes) : Bytes := s.takeWhile (· ≠ 37)
abbrev s1of (s : Bytes) : Bytes := s.dropWhile (· ≠ 37)
abbrev kof (s : Bytes) : Nat := ((s1of s).takeWhile (· = 37)).length
abbrev s2of (s : Bytes) : Bytes := (s1of s).dropWhile (· = 37)

def endSegs : Option Bytes → List Seg
  | some r => [.run r]
  | none => []

/-- one unfolding of `Lex.segs` with the recursive calls abstracted -/
def body (al : Tz.AbsLookup) (t fs : Int) (rec : Option Bytes → Bytes → List Seg) (run : Option Bytes)
    (s : Bytes) : List Seg :=
  if s = [] then endSegs run
  else
    match run with
    | none =>
      let pre : List Seg := [.lit (txt s), .lit (pcts (kof s / 2))]
      if kof s % 2 = 0 then pre ++ rec none (s2of s)
      else if s2of s = [] then pre ++ [.lit [37]]
      else match conv (s2of s) with
        | some (c, r) => pre ++ [.lit (renderConv c al t fs)] ++ rec none r
        | none => pre ++ rec (some [37]) (s2of s)
    | some r0 =>
      if kof s % 2 = 0 ∨ s2of s = [] then rec (some (r0 ++ txt s ++ pcts (kof s))) (s2of s)
      else match conv (s2of s) with
        | some (c, r) => [.run (r0 ++ txt s ++ pcts (kof s - 1)), .lit (renderConv c al t fs)] ++ rec none r
        | none => rec (some (r0 ++ txt s ++ pcts (kof s))) (s2of s)

theorem segs_zero (al : Tz.AbsLookup) (t fs : Int) (run : Option Bytes) (s : Bytes) :
    segs al t fs 0 run s = endSegs run := by
  cases run <;> rfl

theorem segs_succ (al : Tz.AbsLookup) (t fs : Int) (fuel : Nat) (run : Option Bytes) (s : Bytes) :
    segs al t fs (fuel + 1) run s = body al t fs (segs al t fs fuel) run s := by
  cases run <;> rfl

theorem s2of_length_le (s : Bytes) : (s2of s).length ≤ s.length :=
  Nat.le_trans (List.dropWhile_sublist _).length_le (List.dropWhile_sublist _).length_le

theorem s2of_length_lt (s : Bytes) (h : s ≠ []) : (s2of s).length < s.length := by
  cases s with
  | nil => exact absurd rfl h
  | cons a s =>
    by_cases ha : a = 37
    · subst ha
      have h1 : s1of (37 :: s) = 37 :: s := by simp [s1of, List.dropWhile]
      have h2 : s2of (37 :: s) = s.dropWhile (· = 37) := by
        simp only [s2of, h1]; simp [List.dropWhile]
      rw [h2]
      have := (List.dropWhile_sublist (l := s) (· = 37)).length_le
      simp only [List.length_cons]; omega
    · have h1 : s1of (a :: s) = s1of s := by simp [s1of, List.dropWhile, ha]
      have h2 : s2of (a :: s) = s2of s := by simp only [s2of, h1]
      rw [h2]
      have := s2of_length_le s
      simp only [List.length_cons]; omega

theorem body_congr (al : Tz.AbsLookup) (t fs : Int) (rec rec' : Option Bytes → Bytes → List Seg)
    (run : Option Bytes) (s : Bytes) (h : ∀ run' s', s'.length < s.length → rec run' s' = rec' run' s') :
    body al t fs rec run s = body al t fs rec' run s := by
  unfold body
  by_cases hs : s = []
  · rw [if_pos hs, if_pos hs]
  · rw [if_neg hs, if_neg hs]
    have h2 := s2of_length_lt s hs
    cases run with
    | none =>
      dsimp only
      rw [h none _ h2, h (some [37]) _ h2]
      cases hc : conv (s2of s) with
      | none => rfl
      | some p =>
        obtain ⟨c, r⟩ := p
        have := conv_length _ _ _ hc
        dsimp only
        rw [h none r (by omega)]
    | some r0 =>
      dsimp only
      rw [h _ _ h2]
      cases hc : conv (s2of s) with
      | none => rfl
      | some p =>
        obtain ⟨c, r⟩ := p
        have := conv_length _ _ _ hc
        dsimp only
        rw [h none r (by omega)]

theorem segs_fuel (al : Tz.AbsLookup) (t fs : Int) : ∀ (f f' : Nat) (run : Option Bytes) (s : Bytes),
    s.length ≤ f → s.length ≤ f' → segs al t fs f run s = segs al t fs f' run s := by
  intro f
  induction f with
  | zero =>
    intro f' run s h _
    have hs : s = [] := List.length_eq_zero_iff.1 (by omega)
    subst hs
    cases f' with
    | zero => rfl
    | succ f' => rw [segs_zero, segs_succ]; simp [body]
  | succ f ih =>
    intro f' run s h h'
    cases f' with
    | zero =>
      have hs : s = [] := List.length_eq_zero_iff.1 (by omega)
      subst hs
      rw [segs_zero, segs_succ]; simp [body]
    | succ f' =>
      rw [segs_succ, segs_succ]
      apply body_congr
      intro run' s' hl
      exact ih f' run' s' (by omega) (by omega)

/-- the specification's segment list, fuel chosen as the length of the string -/
def S (al : Tz.AbsLookup) (t fs : Int) (run : Option Bytes) (s : Bytes) : List Seg :=
  segs al t fs s.length run s

theorem segs_eq_S (al : Tz.AbsLookup) (t fs : Int) (f : Nat) (run : Option Bytes) (s : Bytes) (h : s.length ≤ f) :
    segs al t fs f run s = S al t fs run s :=
  segs_fuel al t fs f s.length run s h (Nat.le_refl _)

theorem S_eq (al : Tz.AbsLookup) (t fs : Int) (run : Option Bytes) (s : Bytes) :
    S al t fs run s = body al t fs (S al t fs) run s := by
  unfold S
  cases hn : s.length with
  | zero =>
    have hs : s = [] := List.length_eq_zero_iff.1 hn
    subst hs
    rw [segs_zero]; simp [body]
  | succ n =>
    rw [segs_succ]
    apply body_congr
    intro run' s' hl
    exact segs_fuel al t fs _ _ _ _ (by omega) (Nat.le_refl _)


theorem S_nil (al : Tz.AbsLookup) (t fs : Int) (run : Option Bytes) : S al t fs run [] = endSegs run := by
  rw [S_eq]; simp [body]

section cases
variable (al : Tz.AbsLookup) (t fs : Int) (s : Bytes)

theorem S_none_even (hs : s ≠ []) (hk : kof s % 2 = 0) :
    S al t fs none s = [.lit (txt s), .lit (pcts (kof s / 2))] ++ S al t fs none (s2of s) := by
  rw [S_eq]; unfold body; rw [if_neg hs]; dsimp only; rw [if_pos hk]

theorem S_none_end (hs : s ≠ []) (hk : kof s % 2 ≠ 0) (h2 : s2of s = []) :
    S al t fs none s = [.lit (txt s), .lit (pcts (kof s / 2))] ++ [.lit [37]] := by
  rw [S_eq]; unfold body; rw [if_neg hs]; dsimp only; rw [if_neg hk, if_pos h2]

theorem S_none_conv (hs : s ≠ []) (hk : kof s % 2 ≠ 0) (h2 : s2of s ≠ []) (c : Conv) (r : Bytes)
    (hc : conv (s2of s) = some (c, r)) :
    S al t fs none s = [.lit (txt s), .lit (pcts (kof s / 2))] ++ [.lit (renderConv c al t fs)] ++ S al t fs none r := by
  rw [S_eq]; unfold body; rw [if_neg hs]; dsimp only; rw [if_neg hk, if_neg h2, hc]

theorem S_none_open (hs : s ≠ []) (hk : kof s % 2 ≠ 0) (h2 : s2of s ≠ []) (hc : conv (s2of s) = none) :
    S al t fs none s = [.lit (txt s), .lit (pcts (kof s / 2))] ++ S al t fs (some [37]) (s2of s) := by
  rw [S_eq]; unfold body; rw [if_neg hs]; dsimp only; rw [if_neg hk, if_neg h2, hc]

theorem S_some_pass (r0 : Bytes) (hs : s ≠ []) (hk : kof s % 2 = 0 ∨ s2of s = []) :
    S al t fs (some r0) s = S al t fs (some (r0 ++ txt s ++ pcts (kof s))) (s2of s) := by
  rw [S_eq]; unfold body; rw [if_neg hs]; dsimp only; rw [if_pos hk]

theorem S_some_conv (r0 : Bytes) (hs : s ≠ []) (hk : ¬ (kof s % 2 = 0 ∨ s2of s = [])) (c : Conv) (r : Bytes)
    (hc : conv (s2of s) = some (c, r)) :
    S al t fs (some r0) s =
      [.run (r0 ++ txt s ++ pcts (kof s - 1)), .lit (renderConv c al t fs)] ++ S al t fs none r := by
  rw [S_eq]; unfold body; rw [if_neg hs]; dsimp only; rw [if_neg hk, hc]

theorem S_some_none (r0 : Bytes) (hs : s ≠ []) (hc : conv (s2of s) = none) :
    S al t fs (some r0) s = S al t fs (some (r0 ++ txt s ++ pcts (kof s))) (s2of s) := by
  rw [S_eq]; unfold body; rw [if_neg hs]; dsimp only; rw [hc]; split <;> rfl

/-- an open run swallows a following character that is not a percent sign -/
theorem S_absorb (r0 : Bytes) (c : UInt8) (hc : c ≠ 37) :
    S al t fs (some r0) (c :: s) = S al t fs (some (r0 ++ [c])) s := by
  have e1 : txt (c :: s) = c :: txt s := by simp [txt, List.takeWhile, hc]
  have e2 : s1of (c :: s) = s1of s := by simp [s1of, List.dropWhile, hc]
  have e3 : kof (c :: s) = kof s := by simp only [kof, e2]
  have e4 : s2of (c :: s) = s2of s := by simp only [s2of, e2]
  by_cases hs : s = []
  · subst hs
    rw [S_some_pass _ _ _ _ _ (by simp) (Or.inl (by rw [e3]; rfl))]
    rw [e1, e3, e4]
    show S al t fs (some (r0 ++ [c] ++ [])) [] = _
    rw [List.append_nil]
  · rw [S_eq al t fs (some r0), S_eq al t fs (some (r0 ++ [c]))]
    unfold body
    rw [if_neg (by simp), if_neg hs]
    simp only [e1, e3, e4, List.append_assoc, List.cons_append, List.nil_append]

end cases

end Cctz.Lx
