/-
  C07Class helper proofs, parse side: from ANY final state of the specifier loop in which every
  field equals what lookup() reported to the result of `parse` (generalises `Wr.parse_tail`).
-/
import Cctz.Proofs.RtClassLoop
import Cctz.Proofs.WrTail

namespace Cctz.Rtc
open Cctz Cctz.Bytes Cctz.Format Cctz.Parse Cctz.Spec Cctz.Tz Cctz.Tl Cctz.Pa Cctz.Wr

theorem parse_tail_gen (sp : Strptime) (fmt input : Bytes) (z : Tz.Zone) (al : Tz.AbsLookup) (t fs : Int)
    (hdata : ∃ d, (loopEnd sp fmt input).data = some d ∧ skipSpace d = [])
    (hstat : Stat fs (loopEnd sp fmt input))
    (hall : ∀ f, f ≠ Fld.unix → holdsF al t fs (loopEnd sp fmt input) f)
    (hnu : (loopEnd sp fmt input).sawPercentS = false)
    (hv : Valid al.cs)
    (hsec : secNum al.cs = t + al.offset) (ho1 : -86400 < al.offset) (ho2 : al.offset < 86400)
    (ht1 : i64min + 86400 ≤ t) (ht2 : t ≤ i64max - 86400) :
    (parse sp fmt input z).val.1 = .ok t fs := by
  unfold parse
  unfold loopEnd at hdata hstat hall hnu
  extract_lets data st0 st tmsrc tm
  change ∃ d, st.data = some d ∧ skipSpace d = [] at hdata
  change Stat fs st at hstat
  change ∀ f, f ≠ Fld.unix → holdsF al t fs st f at hall
  change st.sawPercentS = false at hnu
  obtain ⟨d, hd, hsk⟩ := hdata
  obtain ⟨hwk, htw, _⟩ := hstat
  obtain ⟨hy1, hy2⟩ : st.sawYear = true ∧ st.year = al.cs.y := hall .year (by decide)
  have hmo : st.tm.mon = al.cs.m - 1 := hall .month (by decide)
  have hda : st.tm.mday = al.cs.d := hall .day (by decide)
  have hho : st.tm.hour = al.cs.hh := hall .hour (by decide)
  have hmi : st.tm.min = al.cs.mm := hall .minute (by decide)
  have hse : st.tm.sec = al.cs.ss := hall .second (by decide)
  have hfr : st.subseconds = fs := hall .frac (by decide)
  obtain ⟨hz1, hz2⟩ : st.sawOffset = true ∧ st.offset = al.offset := hall .offset (by decide)
  have htm : tm = st.tm := by
    show (if st.twelveHour = true ∧ st.afternoon = true ∧ st.tm.hour < 12 then _ else st.tm) = st.tm
    rw [if_neg (by rw [htw]; simp)]
  clear_value tm st
  subst htm
  clear tmsrc
  obtain ⟨hm1, hm2, hd1, hd2, hh1, hh2, hmm1, hmm2, hs1, hs2⟩ := hv
  have hv : Valid al.cs := ⟨hm1, hm2, hd1, hd2, hh1, hh2, hmm1, hmm2, hs1, hs2⟩
  have h60 : (al.cs.ss == 60) = false := by
    rw [beq_eq_false_iff_ne]; omega
  simp only [hd, hsk, hnu, hy1, hy2, hmo, hda, hho, hmi, hse, hfr, hz1, hz2, hwk, Bool.false_eq_true,
    if_false, List.isEmpty_nil, Bool.not_true, if_true, ne_eq, not_true_eq_false, h60]
  rw [Ck.bindv, reset_val, Ck.bindv, Ck.pure_val]
  simp only [hse]
  rw [if_neg (by omega), Ck.bindv, Ck.pure_val]
  simp only []
  rw [Ck.bindv, Ck.pure_val]
  simp only [hmo, hda, hho, hmi, hse]
  rw [Ck.bindv, chk32_val, show al.cs.m - 1 + 1 = al.cs.m by omega, Ck.bindv, civilNew_valid al.cs hv]
  have hb1 : -9223372036854862208 ≤ secNum al.cs := by unfold i64min at ht1; omega
  have hb2 : secNum al.cs ≤ 9223372036854862208 := by unfold i64max at ht2; omega
  rw [if_neg (by simp), Ck.bindv, cmax_val, Ck.bindv, cmin_val, Ck.bindv,
    guard_false al.cs al.offset hv hb1 hb2 ho1 ho2]
  simp only [Bool.false_eq_true, if_false]
  obtain ⟨vs, _, us⟩ := civilSub_spec .second al.cs al.offset hv trivial
  have us' : secNum (Civil.civilSub .second al.cs al.offset).val = t := by
    have : secNum (Civil.civilSub .second al.cs al.offset).val = secNum al.cs - al.offset := us
    omega
  have hin : inI64 t := by unfold inI64; unfold i64min at *; unfold i64max at *; omega
  have hpre := utc_makeTime _ vs (by rw [us']; exact hin)
  rw [us'] at hpre
  rw [Ck.bindv, Ck.bindv, hpre, if_neg (by unfold i64max at *; omega), if_neg (by unfold i64min at *; omega),
    Ck.pure_val]

end Cctz.Rtc
