/-
  C08 helper proofs: the renderers `format64`, `format02d`, `formatOffset` against the documented
  renderings of `Cctz/Spec/FormatSpec.lean`, and length bounds for the scratch buffer.
-/
import Cctz.Model.Format
import Cctz.Spec.FormatSpec
import Cctz.Proofs.IntLemmas
import Cctz.Proofs.WdInt

namespace Cctz.Fm
open Cctz Cctz.Bytes Cctz.Format Cctz.Spec Cctz.Wd

theorem natDigits_eq (n : Nat) : natDigits n = decNat n := rfl

theorem decNat_length_pos (n : Nat) : 0 < (decNat n).length := by
  simp [decNat, Nat.length_toDigits_pos]

theorem decNat_length_le (n k : Nat) (hk : 0 < k) (h : n < 10 ^ k) : (decNat n).length ≤ k := by
  simp only [decNat, List.length_map]
  exact (Nat.length_toDigits_le_iff (by decide) hk).2 h

theorem format64_zero (v : Int) : format64 0 v = decInt v := by
  unfold format64 decInt
  by_cases h : v < 0
  · simp [h, natDigits_eq]
  · simp [h, natDigits_eq]

theorem format64_four (y : Int) : format64 4 y = year4 y := by
  unfold format64 year4 decPad
  by_cases h : y < 0
  · simp [h, natDigits_eq]
  · simp [h, natDigits_eq]

theorem decPad_length (w n : Nat) : (decPad w n).length = max w (decNat n).length := by
  simp only [decPad, List.length_append, List.length_replicate]; omega

theorem decPad_length_of_lt (w n : Nat) (hw : 0 < w) (h : n < 10 ^ w) : (decPad w n).length = w := by
  have := decNat_length_le n w hw h
  rw [decPad_length]; omega

theorem format64_nonneg (w : Nat) (v : Int) (h : 0 ≤ v) : format64 (w : Int) v = decPad w v.toNat := by
  unfold format64 decPad
  have hn : ¬ v < 0 := by omega
  have : v.natAbs = v.toNat := by omega
  simp [hn, natDigits_eq, this]

/-- a value of at most `k` digits in a field of width at most `k + 1` takes at most `k + 1` bytes
(sign included) -/
theorem format64_length_le (w v : Int) (k : Nat) (hk : 0 < k) (hv : v.natAbs < 10 ^ k) (hw : w ≤ k + 1) :
    (format64 w v).length ≤ k + 1 := by
  have hd := decNat_length_le v.natAbs k hk hv
  unfold format64
  by_cases h : v < 0
  · simp only [h, decide_true, if_true, natDigits_eq, List.length_cons, List.length_append,
      List.length_replicate]
    omega
  · simp only [h, decide_false, natDigits_eq, Bool.false_eq_true, if_false, List.length_append,
      List.length_replicate]
    omega

theorem natAbs_lt_of_inI64 (v : Int) (h : inI64 v) : v.natAbs < 10 ^ 19 := by
  unfold inI64 i64min i64max at h; omega

/-- the 100 two-digit values (a finite table) -/
theorem format02d_table :
    (List.range 100).all (fun n => decide ((format02d (n : Int)).ok ∧ (format02d (n : Int)).val = decPad 2 n)) = true := by
  decide +kernel

theorem format02d_spec (v : Int) (h0 : 0 ≤ v) (h1 : v ≤ 99) :
    (format02d v).ok ∧ (format02d v).val = decPad 2 v.toNat := by
  have h := format02d_table
  rw [List.all_eq_true] at h
  have := h v.toNat (by simp; omega)
  rw [decide_eq_true_iff] at this
  rwa [show ((v.toNat : Nat) : Int) = v by omega] at this

theorem format02d_length (v : Int) : (format02d v).val.length = 2 := by
  simp [format02d]

/-- `FormatOffset` after the sign has been split off: the seconds group and the sign -/
def offTailS (neg : Bool) (off : Int) (mode : Bytes) : Ck (Bytes × Bool) :=
  let seconds := cmod off 60
  let off1 := cdiv off 60
  let minutes := cmod off1 60
  let hours := cdiv off1 60
  let sep := mode.headD 0
  let ext := sep ≠ 0 ∧ mode.getD 1 0 = 42
  let ccc := ext ∧ mode.getD 2 0 = 58
  (if ext ∧ (!ccc ∨ seconds ≠ 0) then do
      let s ← format02d seconds
      pure (sep :: s, neg)
    else pure ([], if hours = 0 ∧ minutes = 0 then false else neg) : Ck (Bytes × Bool))

/-- the minutes group -/
def offTailM (off : Int) (mode : Bytes) : Ck Bytes :=
  let seconds := cmod off 60
  let off1 := cdiv off 60
  let minutes := cmod off1 60
  let sep := mode.headD 0
  let ext := sep ≠ 0 ∧ mode.getD 1 0 = 42
  let ccc := ext ∧ mode.getD 2 0 = 58
  (if !ccc ∨ minutes ≠ 0 ∨ seconds ≠ 0 then do
      let m ← format02d minutes
      pure ((if sep ≠ 0 then [sep] else []) ++ m)
    else pure [] : Ck Bytes)

def offCore (neg : Bool) (off : Int) (mode : Bytes) : Ck Bytes := do
  let r ← offTailS neg off mode
  let tailM ← offTailM off mode
  let h ← format02d (cdiv (cdiv off 60) 60)
  pure ([if r.2 then 45 else 43] ++ h ++ tailM ++ r.1)

theorem formatOffset_eq (off : Int) (mode : Bytes) :
    formatOffset off mode =
      (if decide (off < 0) then chk32 (-off) else pure off : Ck Int) >>= fun o => offCore (decide (off < 0)) o mode := rfl

theorem absOff_val (off : Int) :
    (if decide (off < 0) then chk32 (-off) else pure off : Ck Int).val = (off.natAbs : Int) := by
  split <;> simp_all <;> omega

theorem absOff_ok (off : Int) (h1 : -90000 < off) (h2 : off < 90000) :
    (if decide (off < 0) then chk32 (-off) else pure off : Ck Int).ok := by
  split
  · rw [chk32_ok]; unfold inI32 i32min i32max; omega
  · simp

theorem cmod_cast (a : Nat) : cmod (a : Int) 60 = ((a % 60 : Nat) : Int) := by
  rw [cmod_nonneg _ _ (by omega)]; omega
theorem cdiv_cast (a : Nat) : cdiv (a : Int) 60 = ((a / 60 : Nat) : Int) := by
  rw [cdiv_nonneg _ _ (by omega)]; omega

theorem format02d_nat (n : Nat) (h : n ≤ 99) :
    (format02d (n : Int)).ok ∧ (format02d (n : Int)).val = decPad 2 n := by
  have := format02d_spec n (by omega) (by omega)
  simpa using this


theorem f02_s (a : Nat) : (format02d ((a : Int) % 60)).ok ∧ (format02d ((a : Int) % 60)).val = decPad 2 (a % 60) := by
  have := format02d_nat (a % 60) (by omega); push_cast at this; exact this
theorem f02_m (a : Nat) : (format02d ((a : Int) / 60 % 60)).ok ∧ (format02d ((a : Int) / 60 % 60)).val = decPad 2 (a / 60 % 60) := by
  have := format02d_nat (a / 60 % 60) (by omega); push_cast at this; exact this
theorem f02_h (a : Nat) (ha : a < 90000) : (format02d ((a : Int) / 60 / 60)).ok ∧ (format02d ((a : Int) / 60 / 60)).val = decPad 2 (a / 3600) := by
  have := format02d_nat (a / 60 / 60) (by omega); push_cast at this
  rwa [show a / 60 / 60 = a / 3600 by omega] at this

theorem offCore_ok (neg : Bool) (a : Nat) (ha : a < 90000) (mode : Bytes) : (offCore neg a mode).ok := by
  simp only [offCore, offTailS, offTailM, cmod_cast, cdiv_cast, Ck.bind_ok]
  refine ⟨?_, ?_, ?_, Ck.pure_ok _⟩
  · split
    · simp [f02_s]
    · simp
  · split
    · simp [f02_m]
    · simp
  · simp [f02_h a ha]



theorem ite_congr_prop {α} {p q : Prop} [Decidable p] [Decidable q] (h : p ↔ q) (x y : α) :
    (if p then x else y) = (if q then x else y) := by
  by_cases hp : p
  · rw [if_pos hp, if_pos (h.1 hp)]
  · rw [if_neg hp, if_neg (fun hq => hp (h.2 hq))]

theorem formatOffset_val (off : Int) (h1 : -90000 < off) (h2 : off < 90000) :
    (formatOffset off []).val = offHM false off ∧ (formatOffset off [58]).val = offHM true off ∧
    (formatOffset off [58, 42]).val = offHMS off ∧ (formatOffset off [58, 42, 58]).val = offMin off := by
  have ha : off.natAbs < 90000 := by omega
  simp only [formatOffset_eq, Ck.bind_val, absOff_val]
  simp only [offCore, offTailS, offTailM, offMin, offHMS, offHM, cmod_cast, cdiv_cast, Ck.bind_val, Ck.pure_val]
  generalize off.natAbs = a at *
  by_cases hs : a % 60 = 0 <;> by_cases hm : a / 60 % 60 = 0
  all_goals
    have hs' : ((a : Int) % 60 = 0) = (a % 60 = 0) := by apply propext; omega
    have hm' : ((a : Int) / 60 % 60 = 0) = (a / 60 % 60 = 0) := by apply propext; omega
    have hh' : ((a : Int) / 60 / 60 = 0) = (a / 3600 = 0) := by apply propext; omega
    have hz : (format02d 0).val = decPad 2 0 := by decide
    simp [f02_s, f02_m, f02_h a ha, hs', hm', hh', hs, hm, hz]
  all_goals repeat' apply And.intro
  all_goals (apply ite_congr_prop; omega)


theorem formatOffset_ok (off : Int) (mode : Bytes) (h1 : -90000 < off) (h2 : off < 90000) :
    (formatOffset off mode).ok := by
  rw [formatOffset_eq, Ck.bind_ok, absOff_val]
  exact ⟨absOff_ok off h1 h2, offCore_ok _ _ (by omega) _⟩

theorem offTailS_length (neg : Bool) (off : Int) (mode : Bytes) : (offTailS neg off mode).val.1.length ≤ 3 := by
  simp only [offTailS]; split <;> simp [format02d_length]

theorem offTailM_length (off : Int) (mode : Bytes) : (offTailM off mode).val.length ≤ 3 := by
  simp only [offTailM]; split
  · simp only [Ck.bind_val, Ck.pure_val, List.length_append, format02d_length]; split <;> simp
  · simp

/-- `FormatOffset` writes at most 9 bytes whatever the offset: sign, three two-digit groups, two
separators -/
theorem formatOffset_length (off : Int) (mode : Bytes) : (formatOffset off mode).val.length ≤ 9 := by
  rw [formatOffset_eq, Ck.bind_val]
  generalize (if decide (off < 0) = true then chk32 (-off) else pure off : Ck Int).val = o
  simp only [offCore, Ck.bind_val, Ck.pure_val, List.length_append, List.length_cons, List.length_nil,
    format02d_length]
  have h1 := offTailS_length (decide (off < 0)) o mode
  have h2 := offTailM_length o mode
  omega

end Cctz.Fm
