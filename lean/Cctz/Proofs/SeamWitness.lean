/-
  Concrete tables for the seam theorems (Cctz/Properties/Seam.lean).
  * `zYear`: a small extended table on which every hypothesis holds (`SeamOK` included) — used for
    the satisfiability examples on the shift path and at the seam;
  * `zNewYear`: the shape `Load` gives a file whose footer rule starts DST one hour BEFORE New Year
    (footer date `J1` with time `-1`): all hypotheses except `SeamOK`; `convert` is not monotone and a skipped civil second
    is reported UNIQUE;
  * `zBelow`: only clause `below` of `SeamAt` fails (an instant before `last − k400` shows the first
    hour of year ly − 399); `convert` is not monotone;
  * `zStuck`: DST in force over the whole window `[last − k400, last)` while the last entry switches
    to standard time: the round trip fails;
  * `zEarly`: an extended UTC table ending in 1970: `SeamOK` holds, `ShiftRoom` does not, and the
    round trip fails just below max();
  * `newYearTzif`: the 148-byte TZif file behind `zNewYear`.
-/
import Cctz.Proofs.SeamDefs
import Cctz.Proofs.SeamCheck
import Cctz.Proofs.SeamCheckSound
import Cctz.Proofs.RgZone

namespace Cctz.Seam
open Cctz Cctz.Tz Cctz.Spec Cctz.TableCheck

/-- standard time +1 h, daylight time +2 h -/
def wTypes : List (Int × Bool) := [(3600, false), (7200, true)]

theorem sep_of_check (z : Zone) (h : separatedb z = true) : Separated z := by
  intro i hi
  have := Lt.allIdx_sound h i (by omega)
  simp only [Bool.and_eq_true, decide_eq_true_eq] at this
  exact ⟨this.1.1, this.1.2, this.2⟩

theorem tir_of_check (z : Zone) (h : timesInRangeb z = true) : TimesInRange z := by
  intro i hi
  have := Lt.allIdx_sound h i hi
  simpa using this

/-! ### a table with every hypothesis -/

/-- DST from 2002-03-31 01:00 UTC to 2002-10-27 01:00 UTC and again from 2402-03-31 to 2402-10-27
(the same dates 400 years later); `lastYear = 2402` -/
def zYear : Zone :=
  { Rg.mkZone wTypes 0 [(1017536400, 1), (1035680400, 0), (13640317200, 1), (13658461200, 0)] with
    lastYear := some 2402 }

theorem zYear_wf : TableWF zYear :=
  have h := Rg.wf_mkZone wTypes 0 [(1017536400, 1), (1035680400, 0), (13640317200, 1), (13658461200, 0)]
    (by decide) (by decide) (by decide) (by decide)
  ⟨h.nonempty, h.timeSorted, h.typeIdx, h.defaultIdx⟩

theorem zYear_cols : CivilCols zYear :=
  have h := Rg.cols_mkZone wTypes 0 [(1017536400, 1), (1035680400, 0), (13640317200, 1), (13658461200, 0)]
  ⟨h.civ, h.prev, h.tmax, h.tmin⟩

theorem zYear_sep : Separated zYear := sep_of_check _ (by decide +kernel)
theorem zYear_tir : TimesInRange zYear := tir_of_check _ (by decide +kernel)
theorem zYear_fer : FirstEntryRoom zYear := by unfold FirstEntryRoom; decide +kernel
theorem zYear_seam : SeamOK zYear := seamOKb_sound _ zYear_wf (by decide +kernel)
theorem zYear_room : ShiftRoom zYear := (shiftRoomb_iff _).1 (by decide +kernel)

/-! ### DST starting an hour before New Year -/

/-- entries: 2002-12-31 22:00 UTC → DST, 2003-06-29 00:00 UTC → standard, and the same two 400
years later minus one year (2401-12-31 22:00, 2402-06-29 00:00 UTC); `lastYear = 2402` -/
def zNewYear : Zone :=
  { Rg.mkZone wTypes 0 [(1041372000, 1), (1056844800, 0), (13632616800, 1), (13648089600, 0)] with
    lastYear := some 2402 }

theorem zNewYear_wf : TableWF zNewYear :=
  have h := Rg.wf_mkZone wTypes 0 [(1041372000, 1), (1056844800, 0), (13632616800, 1), (13648089600, 0)]
    (by decide) (by decide) (by decide) (by decide)
  ⟨h.nonempty, h.timeSorted, h.typeIdx, h.defaultIdx⟩

theorem zNewYear_cols : CivilCols zNewYear :=
  have h := Rg.cols_mkZone wTypes 0 [(1041372000, 1), (1056844800, 0), (13632616800, 1), (13648089600, 0)]
  ⟨h.civ, h.prev, h.tmax, h.tmin⟩

theorem zNewYear_sep : Separated zNewYear := sep_of_check _ (by decide +kernel)
theorem zNewYear_tir : TimesInRange zNewYear := tir_of_check _ (by decide +kernel)
theorem zNewYear_fer : FirstEntryRoom zNewYear := by unfold FirstEntryRoom; decide +kernel
theorem zNewYear_room : ShiftRoom zNewYear := (shiftRoomb_iff _).1 (by decide +kernel)
theorem zNewYear_not_seam : seamOKb zNewYear = false := by decide +kernel

/-! ### only clause `below` fails -/

/-- +3 h until 2002-12-31 20:59:00 UTC, then +1 h; the last entry, 2402-12-31 23:00:00 UTC = New
Year 2403 local time, changes the type but not the offset; `lastYear = 2402`.  The instants just
before the first entry (they are before `last − k400` = 2002-12-31 23:00:00 UTC) show the first
hours of 2003. -/
def zBelow : Zone :=
  { Rg.mkZone [(3600, false), (10800, false), (3600, true)] 1 [(1041375540, 0), (13664156400, 2)] with
    lastYear := some 2402 }

theorem zBelow_wf : TableWF zBelow :=
  have h := Rg.wf_mkZone [(3600, false), (10800, false), (3600, true)] 1 [(1041375540, 0), (13664156400, 2)]
    (by decide) (by decide) (by decide) (by decide)
  ⟨h.nonempty, h.timeSorted, h.typeIdx, h.defaultIdx⟩

theorem zBelow_cols : CivilCols zBelow :=
  have h := Rg.cols_mkZone [(3600, false), (10800, false), (3600, true)] 1 [(1041375540, 0), (13664156400, 2)]
  ⟨h.civ, h.prev, h.tmax, h.tmin⟩

theorem zBelow_sep : Separated zBelow := sep_of_check _ (by decide +kernel)
theorem zBelow_tir : TimesInRange zBelow := tir_of_check _ (by decide +kernel)
theorem zBelow_fer : FirstEntryRoom zBelow := by unfold FirstEntryRoom; decide +kernel
/-- the other three clauses hold -/
theorem zBelow_clauses :
    lastT zBelow + lastOff zBelow ≤ yearStart (2402 + 1) ∧
    lastT zBelow + lastOffBefore zBelow ≤ yearStart (2402 + 1) ∧
    allIdx (zBelow.transitions.size + 1) (belowAt zBelow 2402) = false ∧
    allIdx zBelow.transitions.size (windowAt zBelow 2402) = true := by decide +kernel

/-! ### DST over the whole window -/

/-- entries: 2002-01-01 00:00 UTC → DST, 2402-06-29 00:00 UTC → standard; `lastYear = 2402` -/
def zStuck : Zone :=
  { Rg.mkZone wTypes 0 [(1009843200, 1), (13648089600, 0)] with lastYear := some 2402 }

theorem zStuck_wf : TableWF zStuck :=
  have h := Rg.wf_mkZone wTypes 0 [(1009843200, 1), (13648089600, 0)]
    (by decide) (by decide) (by decide) (by decide)
  ⟨h.nonempty, h.timeSorted, h.typeIdx, h.defaultIdx⟩

theorem zStuck_cols : CivilCols zStuck :=
  have h := Rg.cols_mkZone wTypes 0 [(1009843200, 1), (13648089600, 0)]
  ⟨h.civ, h.prev, h.tmax, h.tmin⟩

theorem zStuck_sep : Separated zStuck := sep_of_check _ (by decide +kernel)
theorem zStuck_room : ShiftRoom zStuck := (shiftRoomb_iff _).1 (by decide +kernel)
theorem zStuck_not_seam : seamOKb zStuck = false := by decide +kernel

/-! ### an extended table that ends too early for the shift arithmetic -/

/-- UTC with a single entry at 0; `lastYear = 1970` -/
def zEarly : Zone := { Rg.mkZone [(0, false)] 0 [(0, 0)] with lastYear := some 1970 }

theorem zEarly_wf : TableWF zEarly :=
  have h := Rg.wf_mkZone [(0, false)] 0 [(0, 0)] (by decide) (by decide) (by decide) (by decide)
  ⟨h.nonempty, h.timeSorted, h.typeIdx, h.defaultIdx⟩

theorem zEarly_cols : CivilCols zEarly :=
  have h := Rg.cols_mkZone [(0, false)] 0 [(0, 0)]
  ⟨h.civ, h.prev, h.tmax, h.tmin⟩

theorem zEarly_sep : Separated zEarly := sep_of_check _ (by decide +kernel)
theorem zEarly_seam : SeamOK zEarly := seamOKb_sound _ zEarly_wf (by decide +kernel)
theorem zEarly_not_room : ¬ ShiftRoom zEarly := by
  rw [← shiftRoomb_iff]; decide +kernel

/-! ### the TZif file behind `zNewYear`

A 148-byte TZif (version 2) file: one recorded transition at 1000000000 (2001-09-09 01:46:40 UTC)
to type 0 (`XST`, +3600), type 1 (`XDT`, +7200, dst), footer `XST-1XDT,J1/` `-1,J180` (written here
in two pieces so as not to open a comment): daylight time starts on January 1st at -1:00, i.e. on
December 31st 23:00 of the year before, and ends on June 29th 02:00.
`Tz.load {} newYearTzif` (evaluated with `#eval`, not in the kernel) accepts it without raising a
flag and gives an extended table of 804 entries with `lastYear = some 2402`, last entry
(13648089600, XST) = 2402-06-29 00:00:00 UTC; `tableWFb`, `civilColsb`, `separatedb`,
`timesInRangeb`, `firstEntryRoomb`, `shiftRoomb` answer `true` on it and `seamOKb` answers `false`
(clause `window`: the entry 2002-12-31 22:00:00 UTC lies between `last − k400` and the end of civil
year 2002).  On that table, exactly as on `zNewYear`,
  convert(2402-12-31 23:30:00) = 13664154600  >  convert(2403-01-01 00:10:00) = 13664153400,
lookup(2402-12-31 23:30:00) is UNIQUE although no instant displays that second, and
lookup(13664154600) reports 2403-01-01 00:30:00 XDT.  The C++ library (`cctz::load_time_zone` on
this file, `convert`, `lookup`) gives the same answers, and again 400 years later. -/
def newYearTzif : List UInt8 := [
  84, 90, 105, 102, 50, 0, 0, 0, 0, 0, 0, 0, 0, 0, 0, 0, 0, 0, 0, 0, 0, 0, 0, 0,
  0, 0, 0, 0, 0, 0, 0, 0, 0, 0, 0, 0, 0, 0, 0, 1, 0, 0, 0, 4, 0, 0, 0, 0,
  0, 0, 85, 84, 67, 0, 84, 90, 105, 102, 50, 0, 0, 0, 0, 0, 0, 0, 0, 0, 0, 0, 0, 0,
  0, 0, 0, 0, 0, 0, 0, 0, 0, 0, 0, 0, 0, 0, 0, 0, 0, 1, 0, 0, 0, 2, 0, 0,
  0, 8, 0, 0, 0, 0, 59, 154, 202, 0, 0, 0, 0, 14, 16, 0, 0, 0, 0, 28, 32, 1, 4, 88,
  83, 84, 0, 88, 68, 84, 0, 10, 88, 83, 84, 45, 49, 88, 68, 84, 44, 74, 49, 47, 45, 49, 44, 74,
  49, 56, 48, 10]

end Cctz.Seam
