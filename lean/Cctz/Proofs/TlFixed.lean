/-
  The built-in fixed-offset table of `ResetToBuiltinUTC` has the facts the table-level theorems
  assume, and every entry (and the default) has the one fixed type.
-/
import Cctz.Proofs.TableLookup
import Cctz.Proofs.FixedNames

namespace Cctz.Tl
open Cctz Cctz.Tz Cctz.Spec

/-- the fixed type before its civil columns are filled -/
def fixedTT (off : Int) : TransitionType := { utcOffset := off, isDst := false, abbrIndex := 0 }

/-- one entry of the built-in table -/
def fixedTr (abbrs : Bytes) (off : Int) (t : Int) : Transition :=
  { unixTime := t, typeIndex := 0, civilSec := (localTimeTT abbrs t (fixedTT off)).val.cs,
    prevCivilSec := (Civil.civilSub .second (localTimeTT abbrs t (fixedTT off)).val.cs 1).val }

theorem go_val (abbrs : Bytes) (off : Int) (l : List Int) :
    (resetToBuiltinUTC.go abbrs (fixedTT off) l).val = l.map (fixedTr abbrs off) := by
  induction l with
  | nil => rfl
  | cons t rest ih =>
    unfold resetToBuiltinUTC.go
    simp only [Ck.bindv, Ck.pure_val, ih, List.map_cons]
    rfl

def fixedAbbrs (off : Int) : Bytes := (Fixed.toAbbr off).val ++ [0]

def fixedZone (off : Int) : Zone :=
  { transitions := (Gen.builtinUtcTransitions.map (fixedTr (fixedAbbrs off) off)).toArray,
    types := #[{ fixedTT off with
      civilMax := (localTimeTT (fixedAbbrs off) i64max (fixedTT off)).val.cs,
      civilMin := (localTimeTT (fixedAbbrs off) i64min (fixedTT off)).val.cs }],
    defaultType := 0, abbreviations := fixedAbbrs off, futureSpec := [], extended := false }

theorem reset_val (off : Int) : (resetToBuiltinUTC off).val = fixedZone off := by
  unfold fixedZone; rw [← go_val]; rfl

theorem fixed_size (off : Int) : (fixedZone off).transitions.size = 12 := by
  simp [fixedZone, Gen.builtinUtcTransitions]

theorem fixed_trn (off : Int) (i : Nat) (hi : i < 12) :
    trn (fixedZone off) i = fixedTr (fixedAbbrs off) off (Gen.builtinUtcTransitions.getD i 0) := by
  have : i = 0 ∨ i = 1 ∨ i = 2 ∨ i = 3 ∨ i = 4 ∨ i = 5 ∨ i = 6 ∨ i = 7 ∨ i = 8 ∨ i = 9 ∨ i = 10 ∨
    i = 11 := by omega
  rcases this with h | h | h | h | h | h | h | h | h | h | h | h <;> subst h <;> rfl

theorem fixed_typ0 (off : Int) : typ (fixedZone off) 0 =
    { fixedTT off with
      civilMax := (localTimeTT (fixedAbbrs off) i64max (fixedTT off)).val.cs,
      civilMin := (localTimeTT (fixedAbbrs off) i64min (fixedTT off)).val.cs } := rfl

theorem fixed_off0 (off : Int) : (typ (fixedZone off) 0).utcOffset = off := rfl

theorem builtin_sorted' : ∀ j : Nat, j < 12 → ∀ i : Nat, i < j →
    Gen.builtinUtcTransitions.getD i 0 < Gen.builtinUtcTransitions.getD j 0 := by
  decide

theorem builtin_sorted (i j : Nat) (hij : i < j) (hj : j < 12) :
    Gen.builtinUtcTransitions.getD i 0 < Gen.builtinUtcTransitions.getD j 0 :=
  builtin_sorted' j hj i hij

theorem fixed_wf (off : Int) : TableWF (fixedZone off) := by
  refine ⟨by rw [fixed_size]; omega, ?_, ?_, by show 0 < 1; omega⟩
  · intro i j hij hj
    rw [fixed_size] at hj
    rw [fixed_trn off i (by omega), fixed_trn off j hj]
    exact builtin_sorted i j hij hj
  · intro i hi
    rw [fixed_size] at hi
    rw [fixed_trn off i hi]
    show 0 < 1; omega

theorem fixed_prevType (off : Int) (i : Nat) (hi : i < 12) : prevType (fixedZone off) i = 0 := by
  unfold prevType
  split
  · rfl
  · rw [fixed_trn off (i - 1) (by omega)]; rfl

theorem fixed_cols (off : Int) : CivilCols (fixedZone off) := by
  refine ⟨?_, ?_, ?_, ?_⟩
  · intro i hi
    rw [fixed_size] at hi
    unfold timeOf offOf
    rw [fixed_trn off i hi]
    have := localTimeTT_spec (fixedAbbrs off) (Gen.builtinUtcTransitions.getD i 0) (fixedTT off)
    exact ⟨this.1, this.2.1⟩
  · intro i hi
    rw [fixed_size] at hi
    unfold timeOf offBefore
    rw [fixed_prevType off i hi, fixed_trn off i hi]
    have := localTimeTT_spec (fixedAbbrs off) (Gen.builtinUtcTransitions.getD i 0) (fixedTT off)
    obtain ⟨v, _, u⟩ := civilSub_spec .second _ 1 this.1 trivial
    refine ⟨v, ?_⟩
    show secNum (Civil.civilSub .second _ 1).val = _
    have u' : secNum (Civil.civilSub .second
      (localTimeTT (fixedAbbrs off) (Gen.builtinUtcTransitions.getD i 0) (fixedTT off)).val.cs 1).val =
      secNum (localTimeTT (fixedAbbrs off) (Gen.builtinUtcTransitions.getD i 0) (fixedTT off)).val.cs - 1 := u
    rw [u', this.2.1]; rfl
  · intro k hk
    have : k = 0 := by
      have : (fixedZone off).types.size = 1 := rfl
      omega
    subst this
    have := localTimeTT_spec (fixedAbbrs off) i64max (fixedTT off)
    exact ⟨this.1, this.2.1⟩
  · intro k hk
    have : k = 0 := by
      have : (fixedZone off).types.size = 1 := rfl
      omega
    subst this
    have := localTimeTT_spec (fixedAbbrs off) i64min (fixedTT off)
    exact ⟨this.1, this.2.1⟩

theorem fixed_civilSorted (off : Int) : CivilSorted (fixedZone off) := by
  intro i j hij hj
  have cc := fixed_cols off
  have wf := fixed_wf off
  have hj' := hj
  rw [fixed_size] at hj'
  obtain ⟨vi, si⟩ := cc.civ i (by omega)
  obtain ⟨vj, sj⟩ := cc.civ j hj
  have oi : offOf (fixedZone off) i = off := by
    unfold offOf; rw [fixed_trn off i (by omega)]; rfl
  have oj : offOf (fixedZone off) j = off := by
    unfold offOf; rw [fixed_trn off j hj']; rfl
  have := wf.timeSorted i j hij hj
  rw [lt_iff_secNum vi vj, si, sj, oi, oj]
  unfold timeOf; omega

/-- every instant has type 0 -/
theorem fixed_typeAt (off : Int) (t : Int) : typeAt (fixedZone off) t = 0 := by
  unfold typeAt
  split
  · rfl
  · have hs : segIndex (fixedZone off) t ≤ 12 := by
      unfold segIndex
      have := List.length_filter_le (fun i => decide (timeOf (fixedZone off) i ≤ t))
        (List.range (fixedZone off).transitions.size)
      rw [List.length_range, fixed_size] at this
      exact this
    rw [fixed_trn off _ (by omega)]; rfl

theorem cstr_append_nul (l : Bytes) : Bytes.cstr (l ++ [0]) = Bytes.cstr l := by
  unfold Bytes.cstr
  induction l with
  | nil => simp
  | cons a r ih =>
    by_cases h : a = 0
    · simp [h]
    · rw [List.cons_append, List.takeWhile_cons, List.takeWhile_cons, ih]

theorem fixed_abbr (off : Int) :
    abbrAt (fixedZone off).abbreviations (typ (fixedZone off) 0).abbrIndex =
      Bytes.cstr (Fixed.toAbbr off).val := by
  show Bytes.cstr (List.drop 0 ((Fixed.toAbbr off).val ++ [0])) = _
  rw [List.drop_zero, cstr_append_nul]

end Cctz.Tl
