/-
  Rewriting lemmas: C++ truncating division/remainder (`cdiv`/`cmod` = `Int.tdiv`/`Int.tmod`)
  in terms of floor division by a positive literal, which `omega` understands.
-/
import Cctz.Model.Ck

namespace Cctz

theorem tdiv_pos_lit (a k : Int) (_hk : 0 < k) :
    Int.tdiv a k = if 0 ≤ a then a / k else -((-a) / k) := by
  split
  · exact Int.tdiv_eq_ediv_of_nonneg ‹_›
  · have h : a = -(-a) := by omega
    rw [h, Int.neg_tdiv, Int.tdiv_eq_ediv_of_nonneg (by omega)]
    simp

theorem tmod_pos_lit (a k : Int) (hk : 0 < k) :
    Int.tmod a k = if 0 ≤ a then a % k else -((-a) % k) := by
  have h1 := Int.tmod_def a k
  rw [h1, tdiv_pos_lit a k hk]
  split
  · have := Int.emod_def a k; omega
  · have := Int.emod_def (-a) k
    rw [this, Int.mul_neg]; omega

theorem cdiv_pos_lit (a k : Int) (hk : 0 < k) :
    cdiv a k = if 0 ≤ a then a / k else -((-a) / k) := tdiv_pos_lit a k hk

theorem cmod_pos_lit (a k : Int) (hk : 0 < k) :
    cmod a k = if 0 ≤ a then a % k else -((-a) % k) := tmod_pos_lit a k hk

/-- `a = k * cdiv a k + cmod a k` -/
theorem cdiv_cmod (a k : Int) : k * cdiv a k + cmod a k = a := by
  unfold cdiv cmod; have := Int.tmod_def a k; omega

theorem cmod_eq_zero_iff (a k : Int) (hk : 0 < k) : cmod a k = 0 ↔ a % k = 0 := by
  rw [cmod_pos_lit a k hk]; split
  · rfl
  · constructor
    · intro h; have h2 : (-a) % k = 0 := by omega
      have := Int.dvd_of_emod_eq_zero h2
      have := (Int.dvd_neg.mp this)
      exact Int.emod_eq_zero_of_dvd this
    · intro h
      have := Int.dvd_of_emod_eq_zero h
      have := (Int.dvd_neg.mpr this)
      have := Int.emod_eq_zero_of_dvd this
      omega

end Cctz
