/-
  Rewriting lemmas: C++ truncating division/remainder (`cdiv`/`cmod` = `Int.tdiv`/`Int.tmod`)
  in terms of floor division by a positive literal, which `omega` understands.
-/
import Cctz.Model.Ck

namespace Cctz

theorem tdiv_pos_lit (a k : Int) (_hk : 0 < k) :
    Int.tdiv a k = if 0 ≤ a then a / k else -((-a) / k) := by
  split
  · exact Int.tdiv_eq_ediv_of_nonneg ‹_›
  · have h : a = -(-a) := by omega
    rw [h, Int.neg_tdiv, Int.tdiv_eq_ediv_of_nonneg (by omega)]
    simp

theorem tmod_pos_lit (a k : Int) (hk : 0 < k) :
    Int.tmod a k = if 0 ≤ a then a % k else -((-a) % k) := by
  have h1 := Int.tmod_def a k
  rw [h1, tdiv_pos_lit a k hk]
  split
  · have := Int.emod_def a k; omega
  · have := Int.emod_def (-a) k
    rw [this, Int.mul_neg]; omega

theorem cdiv_pos_lit (a k : Int) (hk : 0 < k) :
    cdiv a k = if 0 ≤ a then a / k else -((-a) / k) := tdiv_pos_lit a k hk

theorem cmod_pos_lit (a k : Int) (hk : 0 < k) :
    cmod a k = if 0 ≤ a then a % k else -((-a) % k) := tmod_pos_lit a k hk

/-- `a = k * cdiv a k + cmod a k` -/
theorem cdiv_cmod (a k : Int) : k * cdiv a k + cmod a k = a := by
  unfold cdiv cmod; have := Int.tmod_def a k; omega

theorem cmod_eq_zero_iff (a k : Int) (hk : 0 < k) : cmod a k = 0 ↔ a % k = 0 := by
  rw [cmod_pos_lit a k hk]; split
  · rfl
  · constructor
    · intro h; have h2 : (-a) % k = 0 := by omega
      have := Int.dvd_of_emod_eq_zero h2
      have := (Int.dvd_neg.mp this)
      exact Int.emod_eq_zero_of_dvd this
    · intro h
      have := Int.dvd_of_emod_eq_zero h
      have := (Int.dvd_neg.mpr this)
      have := Int.emod_eq_zero_of_dvd this
      omega

/-! ### carries as they are computed by `n_min` / `n_sec` / `n_hour` -/

theorem split24_div (a b : Int) :
    cdiv a 24 + cdiv b 24 + (cmod a 24 + cmod b 24) / 24 = (a + b) / 24 := by
  simp only [cdiv_pos_lit _ 24 (by decide), cmod_pos_lit _ 24 (by decide)]
  omega
theorem split24_mod (a b : Int) : (cmod a 24 + cmod b 24) % 24 = (a + b) % 24 := by
  simp only [cmod_pos_lit _ 24 (by decide)]
  omega
theorem split60_div (a b : Int) :
    cdiv a 60 + cdiv b 60 + (cmod a 60 + cmod b 60) / 60 = (a + b) / 60 := by
  simp only [cdiv_pos_lit _ 60 (by decide), cmod_pos_lit _ 60 (by decide)]
  omega
theorem split60_mod (a b : Int) : (cmod a 60 + cmod b 60) % 60 = (a + b) % 60 := by
  simp only [cmod_pos_lit _ 60 (by decide)]
  omega
theorem fix60_div (a : Int) : (if cmod a 60 < 0 then cdiv a 60 - 1 else cdiv a 60) = a / 60 := by
  simp only [cdiv_pos_lit _ 60 (by decide), cmod_pos_lit _ 60 (by decide)]
  omega
theorem fix60_mod (a : Int) : (if cmod a 60 < 0 then cmod a 60 + 60 else cmod a 60) = a % 60 := by
  simp only [cmod_pos_lit _ 60 (by decide)]
  omega
theorem fix24_div (a : Int) : (if cmod a 24 < 0 then cdiv a 24 - 1 else cdiv a 24) = a / 24 := by
  simp only [cdiv_pos_lit _ 24 (by decide), cmod_pos_lit _ 24 (by decide)]
  omega
theorem fix24_mod (a : Int) : (if cmod a 24 < 0 then cmod a 24 + 24 else cmod a 24) = a % 24 := by
  simp only [cmod_pos_lit _ 24 (by decide)]
  omega

theorem carry60 (a : Int) :
    (cmod a 60 < 0 → cdiv a 60 - 1 = a / 60 ∧ cmod a 60 + 60 = a % 60) ∧
    (¬ cmod a 60 < 0 → cdiv a 60 = a / 60 ∧ cmod a 60 = a % 60) := by
  have h1 := fix60_div a; have h2 := fix60_mod a
  constructor <;> intro h <;> simp only [h, if_true, if_false] at h1 h2 <;> exact ⟨h1, h2⟩

theorem carry24 (a : Int) :
    (cmod a 24 < 0 → cdiv a 24 - 1 = a / 24 ∧ cmod a 24 + 24 = a % 24) ∧
    (¬ cmod a 24 < 0 → cdiv a 24 = a / 24 ∧ cmod a 24 = a % 24) := by
  have h1 := fix24_div a; have h2 := fix24_mod a
  constructor <;> intro h <;> simp only [h, if_true, if_false] at h1 h2 <;> exact ⟨h1, h2⟩

end Cctz
